#!/bin/bash
# merge a builder branch into main; theorems.lock is merged as a union of JSON objects
set -e
b=$1
cd /verif
git merge --no-ff --no-commit "$b" || true
if git diff --name-only --diff-filter=U | grep -q .; then
  for f in $(git diff --name-only --diff-filter=U); do
    if [ "$f" = "theorems.lock" ]; then
      python3 - "$b" <<'PY'
import json, subprocess, sys
b=sys.argv[1]
ours=json.loads(subprocess.run(['git','show','HEAD:theorems.lock'],capture_output=True,text=True).stdout or '{}')
theirs=json.loads(subprocess.run(['git','show',f'{b}:theorems.lock'],capture_output=True,text=True).stdout or '{}')
ours.update(theirs)
json.dump(ours,open('/verif/theorems.lock','w'),indent=1,sort_keys=True)
PY
      git add theorems.lock
    else
      echo "CONFLICT in $f"; exit 1
    fi
  done
fi
git commit -qm "merge $b"
echo merged $b
