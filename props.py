"""Per-property configuration of ./check (which Lean modules hold the theorems, which harness engines
tie the model to the code, which translators regenerate Lean sources from /repo)."""

PROPS = {
    "C08": {
        "lean_modules": ["MdProofs.C08", "MdProofs.Lemmas.RangeMap"],
        "property_modules": ["MdProofs.C08"],
        "engines": ["ranges"],
        "translators": [],
        "explanation": "Theorems about MdModel.RangeMap (into_rangemap_safe x2, RangeMap::normalize/get, every memory_range(), "
                       "the unloaded-module vector, insert_win_stack_info) for lists of any length; the model is tied to the code by "
                       "running all eleven table builders of the repository and the compiled model on the same entry lists.",
        "assumptions": [
            "Rust's slice::sort_by_key is a stable sort (modelled by List.mergeSort)",
            "range_map::RangeMap::{try_from_iter,normalize,get} re-implemented from range-map 0.2.0's source and compared through the repo's builders",
            "binary_search_by returns the unique Equal element on a sorted, disjoint vector (proved for the model's own binary search)",
        ],
        "level_text": "Proof: 40+ Lean theorems (no sorry, axioms = propext/Classical.choice/Quot.sound) about an executable model of both into_rangemap_safe copies, RangeMap::normalize/get, all memory_range() constructors, the unloaded-module list and the STACK WIN overlap repair, for entry lists of ANY length and addresses up to 2^64-1: normalized output (sorted, disjoint), the final unwrap cannot fire, lookups are sound with no hypothesis, isolated entries are always found, unloaded lookup is an exact filter. The model is tied to the code on every run by executing all eleven table builders and the compiled model on the same lists (exhaustive small domain incl. the 2^64 boundary + random u64).",
        "level_note": "Trusted: Lean kernel; the hand-written model (tied by correspondence, not by translation); Rust sort stability; range-map 0.2.0 re-implemented from source. The generators bound what the correspondence sees.",
        "design_ref": "DESIGN.md §6.C08",
        "trusted_base": ["model MdModel/RangeMap.lean is hand-written; tie = engine `ranges` (exhaustive small domain + random u64)"],
    },
}

# properties that are not claimed, with the reason (kept current)
NOT_APPLICABLE = {}
