"""Per-property configuration of ./check: one JSON file per claimed property in propcfg/
(which Lean modules hold the theorems, which harness engines tie the model to the code, which
translators regenerate Lean sources from the repository). See AGENT_GUIDE.md for the fields."""
import glob
import json
import os

_HERE = os.path.dirname(os.path.abspath(__file__))
PROPS = {}
for _p in sorted(glob.glob(os.path.join(_HERE, "propcfg", "C*.json"))):
    PROPS[os.path.basename(_p)[:-5]] = json.load(open(_p))

# properties that are not claimed, with the reason (kept current)
NOT_APPLICABLE = {}
_na = os.path.join(_HERE, "propcfg", "not_applicable.json")
if os.path.exists(_na):
    NOT_APPLICABLE = json.load(open(_na))
