/-
  Driver — line protocol: one request per line on stdin, one canonical answer per line on stdout.
  The first field selects the engine; the engine's `handle` runs the very definitions the
  theorems in `MdProofs` are about.
-/
import MdModel

open MdModel

def dispatch (line : String) : String :=
  match Proto.fields line with
  | [] => "bad-op"
  | eng :: args =>
    match eng with
    | "ping" => "pong"
    | "ranges" => RangeMap.handle args
    | _ => "bad-engine"

partial def loop (hin : IO.FS.Stream) (hout : IO.FS.Stream) : IO Unit := do
  let line ← hin.getLine
  if line.isEmpty then return ()
  hout.putStrLn (dispatch line)
  hout.flush
  loop hin hout

def main : IO Unit := do
  loop (← IO.getStdin) (← IO.getStdout)
