/-
  Driver — line protocol: one request per line on stdin, one canonical answer per line on stdout.
  The first field selects the engine; the engine's `handle` runs the very definitions the
  theorems in `MdProofs` are about.
-/
import MdModel

open MdModel

def dispatch (line : String) : String :=
  match Proto.fields line with
  | [] => "bad-op"
  | eng :: args =>
    match eng with
    | "ping" => "pong"
    | "ranges" => RangeMap.handle args
    | "cfi" =>
      (match args with
       | "cw" :: _ => CfiWalker.handle "cfi" args      -- the real CfiStackWalker (MdModel.CfiWalker)
       | _ => Cfi.handle "cfi" args)
    | "win" =>
      (match args with
       | "rw" :: _ => WinWalker.handle "win" args     -- STACK WIN on the real CfiStackWalker (MdModel.WinWalker)
       | _ => Win.handle "win" args)
    | "sym" => SymParse.handle "sym" args
    | "symb" => Symbolize.handle "symb" args
    | "once" => Once.handle "once" args
    | "paths" => Paths.handle "paths" args
    | "regs" => Regs.handle "regs" args
    | "bitflip" => BitFlip.handle "bitflip" args
    | "walk" => Walk.handle "walk" args
    | "chain" => Walk.handle "chain" args
    | "read" => Bytes.handle "read" args
    | "roundtrip" =>
      (match args with
       | "ctx" :: _ => EncodeCtx.handle args          -- C02: contexts as register files (MdModel.EncodeCtx)
       | _ => Bytes.handle "roundtrip" args)
    | "index" => Index.handle "index" args
    | "json" => Json.handle "json" args
    | "jsonck" => Json.handle "jsonck" args
    | "text" => Text.handle "text" args
    | "cache" => CacheFs.handle "cache" args
    | "cli" => Cli.handle "cli" args
    | "det" => Det.handle "det" args
    | "process" => Process.handle "process" args
    | _ => "bad-engine"

partial def loop (hin : IO.FS.Stream) (hout : IO.FS.Stream) : IO Unit := do
  let line ← hin.getLine
  if line.isEmpty then return ()
  hout.putStrLn (dispatch line)
  hout.flush
  loop hin hout

def main : IO Unit := do
  loop (← IO.getStdin) (← IO.getStdout)
