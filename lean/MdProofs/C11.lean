/-
  C11 — Symbolication returns the record that really covers the address.

  Property text: "For every symbol file and instruction address, the reported function is a FUNC
  record of that file whose range contains the address or, if none does, the nearest preceding
  PUBLIC symbol not cut off by an intervening FUNC; reported function and line base addresses never
  exceed the instruction. The source line is that of the line record (or outermost inline call
  site) covering the address, and inline frames list the nested inlined calls covering it with
  their call sites, innermost first in the stack frame. For files whose records do not overlap,
  the result equals an independent linear-scan lookup over the file's records."

  The theorems are about `MdModel.Symbolize` (the model the compiled driver executes and the
  `symb` engine compares with `SymbolFile::from_bytes` + `SymbolFile::fill_symbol` and with
  `minidump_unwind::walk_stack` on every run). `r : Recs` are the records of an arbitrary symbol
  file (any number of FUNC/line/INLINE/PUBLIC/FILE/INLINE_ORIGIN/STACK WIN records, any values),
  `build r` is what the parser's `finish_item`/`finish` make of them, `base` the module's load
  address and `instr` the instruction address.

  Reading of "or, if none does": if the function *table* (the sorted, non-overlapping normal form
  that C08's builder makes of the FUNC records) has no entry containing the address. For files
  whose FUNC records do not overlap the two readings coincide (`eq_linear_scan`).
-/
import MdProofs.Lemmas.Symbolize
import MdProofs.Lemmas.SymbolizeScan
namespace MdModel.Symbolize
open MdModel MdModel.RangeMap

/-! ## 1. the reported FUNC is a record of the file whose range contains the address -/

/-- whatever `functions.get` finds in the table built from the file's records is (the stored form
    of) a FUNC record of the file whose own range contains the address -/
theorem funcAt_is_record {r : Recs} {sf : SymFile} (hb : build r = .ok sf) {a : Nat} {b : BFunc}
    (hf : funcAt sf.funcs sf.ftab a = some b) : ∃ f ∈ r.funcs, b = finOf f ∧ f.Covers a := by
  have B := build_built hb
  rw [B.ftab] at hf
  obtain ⟨hm, h1, h2, h3, h4⟩ := funcAt_sound hf
  rw [B.funcs, List.mem_map] at hm
  obtain ⟨f, hfm, rfl⟩ := hm
  exact ⟨f, hfm, rfl, h1, h4, h2, h3⟩

theorem FuncCase.fn_eq {sf : SymFile} {f : BFunc} {base a : Nat} {fr : Frame}
    (h : FuncCase sf f base a fr) : fr.fn = some (f.name, f.addr + base, paramSize sf a f) := by
  cases h with
  | inlined x fr0 inl h0 hs hl hfr =>
    subst hfr
    rcases setSource_ok hs with ⟨_, rfl⟩ | ⟨file, _, _, rfl⟩ <;> rfl
  | line l h0 hl hs =>
    rcases setSource_ok hs with ⟨_, rfl⟩ | ⟨file, _, _, rfl⟩ <;> rfl
  | bare h0 hl hfr => subst hfr; rfl

theorem findNearestPublic_some {pubs : List Pub} {a : Nat} {p : Pub}
    (h : findNearestPublic pubs a = some p) : p ∈ pubs ∧ p.addr ≤ a := by
  unfold findNearestPublic at h
  have h1 := List.mem_of_find?_eq_some h
  have h2 := List.find?_some h
  exact ⟨List.mem_reverse.mp h1, by simpa using h2⟩

theorem mem_finOf_inls {f : Func} {x : Inl} (h : x ∈ (finOf f).inls) : x ∈ f.inls :=
  (List.mem_filter.mp (List.mem_mergeSort.mp h)).1

theorem finOf_inls_length_le (f : Func) : (finOf f).inls.length ≤ f.inls.length := by
  show ((f.inls.filter fun x => x.size > 0).mergeSort inlLe).length ≤ _
  rw [List.length_mergeSort]
  exact List.length_filter_le _ _

theorem mem_finOf_lines {f : Func} {l : Line} (h : l ∈ (finOf f).lines) : l ∈ f.lines :=
  (List.mem_filter.mp h).1

theorem inlineeAt_covers {f : Func} {d a : Nat} {x : Inl}
    (h : inlineeAt (finOf f).inls d a = .ok (some x)) : x ∈ f.inls ∧ x.depth = d ∧ x.Covers a := by
  obtain ⟨hm, hd, h1, h2, h3⟩ := inlineeAt_sound h
  exact ⟨mem_finOf_inls hm, hd, h3, h1, h2⟩

theorem lineAt_covers {f : Func} {a : Nat} {l : Line} (h : lineAt (finOf f) a = some l) :
    l ∈ f.lines ∧ l.Covers a := by
  obtain ⟨hm, h0, h1, h2, h3⟩ := lineAt_sound (b := finOf f) rfl h
  exact ⟨mem_finOf_lines hm, h0, h3, h1, h2⟩

/-- **C11.1 `func_covers`** — "the reported function is a FUNC record of that file whose range
    contains the address or, if none does, [a] PUBLIC symbol [at or below the address]".
    Every reported function is either a FUNC record of the file that contains the address
    (reported with its own name and `address + module base`), or — only when the function table has
    no entry for the address — a PUBLIC record of the file at or below the address
    (which one: `public_rule`). -/
theorem func_covers {r : Recs} {sf : SymFile} (hb : build r = .ok sf) {base instr : Nat}
    {fr : Frame} (h : fillSymbol sf base instr = .ok fr) {name : Name} {fbase ps : Nat}
    (hfn : fr.fn = some (name, fbase, ps)) :
    base ≤ instr ∧
    ((∃ f ∈ r.funcs, name = f.name ∧ fbase = f.addr + base ∧ f.Covers (instr - base)) ∨
     (funcAt sf.funcs sf.ftab (instr - base) = none ∧
        ∃ p ∈ r.pubs, name = p.name ∧ fbase = p.addr + base ∧ ps = p.psize ∧
          p.addr ≤ instr - base)) := by
  by_cases hlt : instr < base
  · rw [fillSymbol_below hlt] at h; cases h; cases hfn
  · have hge : base ≤ instr := by omega
    refine ⟨hge, ?_⟩
    cases hf : funcAt sf.funcs sf.ftab (instr - base) with
    | some b =>
      left
      obtain ⟨_, hc⟩ := fillSymbol_func hge hf h
      obtain ⟨f, hfm, rfl, hcov⟩ := funcAt_is_record hb hf
      rw [hc.fn_eq] at hfn
      simp only [Option.some.injEq, Prod.mk.injEq] at hfn
      obtain ⟨rfl, rfl, _⟩ := hfn
      exact ⟨f, hfm, rfl, rfl, hcov⟩
    | none =>
      right
      refine ⟨rfl, ?_⟩
      rcases fillSymbol_nofunc hge hf h with rfl | ⟨p, hp, _, _, rfl⟩
      · cases hfn
      · simp only [Option.some.injEq, Prod.mk.injEq] at hfn
        obtain ⟨rfl, rfl, rfl⟩ := hfn
        obtain ⟨hm, hle⟩ := findNearestPublic_some hp
        rw [(build_built hb).pubs] at hm
        exact ⟨p, List.mem_mergeSort.mp hm, rfl, rfl, rfl, hle⟩

/-! ## 1b. otherwise: the nearest preceding PUBLIC not cut off by an intervening FUNC -/

/-- every entry of the function table is a FUNC record of the file (with a valid range) that
    starts where the entry starts -/
theorem ftab_entry_is_record {r : Recs} {sf : SymFile} (hb : build r = .ok sf) {e : Entry}
    (he : e ∈ sf.ftab) :
    ∃ f ∈ r.funcs, f.addr = e.1.lo ∧ 0 < f.size ∧ f.addr + f.size ≤ U64MAX ∧
      sf.funcs[e.2]? = some (finOf f) := by
  have B := build_built hb
  rw [B.ftab] at he
  obtain ⟨g, hg, hgm, h1, h2, h3⟩ := ftab_entry he
  rw [B.funcs, List.mem_map] at hgm
  obtain ⟨f, hfm, rfl⟩ := hgm
  exact ⟨f, hfm, h1, h2, h3, hg⟩

/-- **C11.2 `public_rule`** — "or, if none does, the nearest preceding PUBLIC symbol not cut off
    by an intervening FUNC", stated exactly as the code decides it
    (`public.address <= prev_func.address ⇒ nothing`). When no table entry contains the address
    `a = instr - base`, the answer is
    * the function `(p.name, p.addr + base, p.psize)` and nothing else, where `p` is the nearest
      preceding PUBLIC (`NearestPublic`: greatest `(address, name, parameter size)` among the
      PUBLIC records at or below `a`) — and then every FUNC of the table that starts at or below
      `a` starts strictly below `p`; or
    * nothing at all — and then either no PUBLIC record lies at or below `a`, or the nearest
      preceding PUBLIC `p` is cut off: some FUNC of the table starts in `[p.addr, a]`.
    (Table entries are FUNC records of the file: `ftab_entry_is_record`; for files without
    overlapping FUNCs every valid FUNC record is a table entry: `eq_linear_scan`.) -/
theorem public_rule {r : Recs} {sf : SymFile} (hb : build r = .ok sf) {base instr : Nat}
    (hge : base ≤ instr) {fr : Frame} (h : fillSymbol sf base instr = .ok fr)
    (hnf : funcAt sf.funcs sf.ftab (instr - base) = none) :
    (∃ p, NearestPublic r.pubs (instr - base) p ∧
        (∀ e ∈ sf.ftab, e.1.lo ≤ instr - base → e.1.lo < p.addr) ∧
        fr = { fn := some (p.name, p.addr + base, p.psize) }) ∨
    (fr = {} ∧
      ((∀ q ∈ r.pubs, instr - base < q.addr) ∨
       ∃ p, NearestPublic r.pubs (instr - base) p ∧
         ∃ e ∈ sf.ftab, e.1.lo ≤ instr - base ∧ p.addr ≤ e.1.lo)) := by
  have B := build_built hb
  have hsep : Sep sf.ftab := by rw [B.ftab]; exact safeVecP_sep _ (funcInput_wf _)
  obtain ⟨hsome, hnone⟩ := findNearestPublic_spec r.pubs (instr - base)
  rw [← B.pubs] at hsome hnone
  unfold fillSymbol at h
  rw [if_neg (by omega)] at h
  simp only [hnf] at h
  cases hp : findNearestPublic sf.pubs (instr - base) with
  | none =>
    rw [hp] at h; cases h
    exact .inr ⟨rfl, .inl (hnone hp)⟩
  | some p =>
    rw [hp] at h
    simp only at h
    have hnp := hsome p hp
    obtain ⟨s1, s2, s3⟩ := prevEntry_spec sf.ftab hsep (instr - base)
    unfold prevFunc at h
    cases hbs : binarySearchBy sf.ftab.length (probeOf sf.ftab fun e => cmpNat e.1.lo (instr - base)) with
    | found i =>
      exfalso
      obtain ⟨e, he, hlo⟩ := s1 i hbs
      have hem := List.mem_of_getElem? he
      have hw := hsep.wf e hem
      have hget := get_complete_mem sf.ftab hsep e hem (instr - base)
        (by simp only [Rng.contains, Bool.and_eq_true, decide_eq_true_eq]; unfold WF at hw; omega)
      obtain ⟨f, _, _, _, _, hf⟩ := ftab_entry_is_record hb hem
      unfold funcAt at hnf
      rw [hget] at hnf
      simp only [Option.bind_some, hf] at hnf
      cases hnf
    | notFound k =>
      cases k with
      | zero =>
        rw [hbs] at h
        simp only at h
        split at h
        · cases h
        · rename_i b hb
          obtain ⟨rfl, _⟩ := checkedAdd_ok hb
          cases h
          refine .inl ⟨p, hnp, ?_, rfl⟩
          intro e he hle
          have := s2 hbs e he
          omega
      | succ i =>
        rw [hbs] at h
        obtain ⟨e, he, hlt, hmax⟩ := s3 i hbs
        have hem := List.mem_of_getElem? he
        obtain ⟨f, _, hfa, _, _, hf⟩ := ftab_entry_is_record hb hem
        simp only [he, Option.bind_some, hf] at h
        split at h
        · rename_i hcut
          cases h
          refine .inr ⟨rfl, .inr ⟨p, hnp, e, hem, by omega, ?_⟩⟩
          have : (finOf f).addr = f.addr := rfl
          omega
        · rename_i hcut
          split at h
          · cases h
          · rename_i b hb
            obtain ⟨rfl, _⟩ := checkedAdd_ok hb
            cases h
            refine .inl ⟨p, hnp, ?_, rfl⟩
            intro e' he' hle
            have := hmax e' he' hle
            have : (finOf f).addr = f.addr := rfl
            omega

/-! ## 2. reported bases never exceed the instruction -/

/-- **C11.3 `bases_le`** — "reported function and line base addresses never exceed the
    instruction" (`function_base ≤ instruction`, `source_line_base ≤ instruction`), for every file,
    base and instruction. (That the `+ module base` additions cannot overflow: `fill_no_panic`.) -/
theorem bases_le {r : Recs} {sf : SymFile} (hb : build r = .ok sf) {base instr : Nat}
    {fr : Frame} (h : fillSymbol sf base instr = .ok fr) :
    (∀ name fbase ps, fr.fn = some (name, fbase, ps) → fbase ≤ instr) ∧
    (∀ file line lbase, fr.src = some (file, line, lbase) → lbase ≤ instr) := by
  constructor
  · intro name fbase ps hfn
    obtain ⟨hge, hc⟩ := func_covers hb h hfn
    rcases hc with ⟨f, _, _, rfl, _, _, h3, _⟩ | ⟨_, p, _, _, rfl, _, h3⟩ <;> omega
  · intro file line lbase hsrc
    by_cases hlt : instr < base
    · rw [fillSymbol_below hlt] at h; cases h; cases hsrc
    · have hge : base ≤ instr := by omega
      cases hf : funcAt sf.funcs sf.ftab (instr - base) with
      | none =>
        rcases fillSymbol_nofunc hge hf h with rfl | ⟨p, _, _, _, rfl⟩ <;> cases hsrc
      | some b =>
        obtain ⟨_, hc⟩ := fillSymbol_func hge hf h
        obtain ⟨f, _, rfl, _⟩ := funcAt_is_record hb hf
        cases hc with
        | inlined x fr0 inl h0 hs hl hfr =>
          subst hfr
          obtain ⟨_, _, hle, _⟩ := inlineeAt_sound h0
          rcases setSource_ok hs with ⟨_, rfl⟩ | ⟨file', _, _, rfl⟩
          · cases hsrc
          · simp only [Option.some.injEq, Prod.mk.injEq] at hsrc
            omega
        | line l h0 hl hs =>
          obtain ⟨_, _, hle, _⟩ := lineAt_sound (b := finOf f) rfl hl
          rcases setSource_ok hs with ⟨_, rfl⟩ | ⟨file', _, _, rfl⟩
          · cases hsrc
          · simp only [Option.some.injEq, Prod.mk.injEq] at hsrc
            omega
        | bare h0 hl hfr => subst hfr; cases hsrc

/-! ## 2b. nothing in `fill_symbol` can panic: the `+ module base` additions cannot overflow -/

/-- **C11.3b `fill_no_panic`** — for every file, every module base and every instruction address
    that fits `u64`, `fill_symbol` returns: `func.address + base`, `address + base` (source line)
    and `public.address + base` cannot overflow (each summand is at most `instruction - base`),
    `self.inlinees[index]` / `[index - 1]` are in range, and the `for depth in 1..` counter stays
    below `u32::MAX` (needs fewer than 2^32-2 INLINE ranges per FUNC — a file of > 40 GB). -/
theorem fill_no_panic {r : Recs} {sf : SymFile} (hb : build r = .ok sf) (base instr : Nat)
    (hinstr : instr ≤ U64MAX) (hn : ∀ f ∈ r.funcs, f.inls.length + 1 < U32MAX) :
    ∃ fr, fillSymbol sf base instr = .ok fr := by
  by_cases hlt : instr < base
  · exact ⟨_, fillSymbol_below hlt⟩
  · have hge : base ≤ instr := by omega
    unfold fillSymbol
    rw [if_neg hlt]
    simp only
    cases hf : funcAt sf.funcs sf.ftab (instr - base) with
    | some b =>
      obtain ⟨f, hfm, rfl, _, _, hle, _⟩ := funcAt_is_record hb hf
      simp only
      rw [checkedAdd_of_le _ (show (finOf f).addr + base ≤ U64MAX by
        show f.addr + base ≤ U64MAX; omega)]
      simp only
      obtain ⟨o, ho⟩ := inlineeAt_ok (finOf f).inls 0 (instr - base)
      rw [ho]
      cases o with
      | some x =>
        simp only
        obtain ⟨_, _, hx, _⟩ := inlineeAt_sound ho
        obtain ⟨fr0, hs⟩ := setSource_ne_panic sf
          { fn := some ((finOf f).name, (finOf f).addr + base, paramSize sf (instr - base) (finOf f)) }
          x.callFile x.callLine x.addr base (by omega)
        rw [hs]
        simp only
        have hlen := finOf_inls_length_le f
        have hfl := List.length_filter_le (fun y : Inl => decide (1 ≤ y.depth)) (finOf f).inls
        have := hn f hfm
        obtain ⟨inl, hl⟩ := inlineLoop_ok sf (finOf f) (instr - base) ((finOf f).inls.length + 1) 1
          x.origin (by omega) (by omega)
        rw [hl]
        exact ⟨_, rfl⟩
      | none =>
        simp only
        cases hl : lineAt (finOf f) (instr - base) with
        | none => exact ⟨_, rfl⟩
        | some l =>
          simp only
          obtain ⟨_, _, _, hla, _⟩ := lineAt_covers hl
          exact setSource_ne_panic _ _ _ _ _ _ (by omega)
    | none =>
      simp only
      cases hp : findNearestPublic sf.pubs (instr - base) with
      | none => exact ⟨_, rfl⟩
      | some p =>
        simp only
        obtain ⟨_, hpa⟩ := findNearestPublic_some hp
        have hadd := checkedAdd_of_le "set_function: public.address + module.base_address()"
          (show p.addr + base ≤ U64MAX by omega)
        cases hprev : prevFunc sf (instr - base) with
        | none => simp only [hadd]; exact ⟨_, rfl⟩
        | some prev =>
          simp only [hadd]
          split <;> exact ⟨_, rfl⟩

/-! ## 3. the source line is that of the line record (or outermost inline call site) covering the address -/

/-- **C11.4 `line_covers`** — "the source line is that of the line record (or outermost inline
    call site) covering the address". A reported source location `(file, line, base)` belongs to a
    FUNC record of the file containing the address, and is either the call site stored in a
    depth-0 INLINE range of that FUNC that contains the address, or — only if no depth-0 inlinee is
    found — a line record of that FUNC whose range contains the address; `base` is that record's
    own start plus the module base, `file` the FILE record of its file id. -/
theorem line_covers {r : Recs} {sf : SymFile} (hb : build r = .ok sf) {base instr : Nat}
    {fr : Frame} (h : fillSymbol sf base instr = .ok fr) {file : Name} {line lbase : Nat}
    (hsrc : fr.src = some (file, line, lbase)) :
    ∃ f ∈ r.funcs, f.Covers (instr - base) ∧
      ((∃ x ∈ f.inls, x.depth = 0 ∧ x.Covers (instr - base) ∧
          mapGet r.files x.callFile = some file ∧ line = x.callLine ∧ lbase = x.addr + base) ∨
       (inlineeAt (finOf f).inls 0 (instr - base) = .ok none ∧
          ∃ l ∈ f.lines, l.Covers (instr - base) ∧
            mapGet r.files l.file = some file ∧ line = l.line ∧ lbase = l.addr + base)) := by
  have B := build_built hb
  by_cases hlt : instr < base
  · rw [fillSymbol_below hlt] at h; cases h; cases hsrc
  · have hge : base ≤ instr := by omega
    cases hf : funcAt sf.funcs sf.ftab (instr - base) with
    | none =>
      rcases fillSymbol_nofunc hge hf h with rfl | ⟨p, _, _, _, rfl⟩ <;> cases hsrc
    | some b =>
      obtain ⟨_, hc⟩ := fillSymbol_func hge hf h
      obtain ⟨f, hfm, rfl, hcov⟩ := funcAt_is_record hb hf
      refine ⟨f, hfm, hcov, ?_⟩
      cases hc with
      | inlined x fr0 inl h0 hs hl hfr =>
        subst hfr
        left
        obtain ⟨hm, hd, hxc⟩ := inlineeAt_covers h0
        rcases setSource_ok hs with ⟨_, rfl⟩ | ⟨file', hfile, _, rfl⟩
        · cases hsrc
        · simp only [Option.some.injEq, Prod.mk.injEq] at hsrc
          obtain ⟨rfl, rfl, rfl⟩ := hsrc
          rw [B.files] at hfile
          exact ⟨x, hm, hd, hxc, hfile, rfl, rfl⟩
      | line l h0 hl hs =>
        right
        obtain ⟨hm, hlc⟩ := lineAt_covers hl
        rcases setSource_ok hs with ⟨_, rfl⟩ | ⟨file', hfile, _, rfl⟩
        · cases hsrc
        · simp only [Option.some.injEq, Prod.mk.injEq] at hsrc
          obtain ⟨rfl, rfl, rfl⟩ := hsrc
          rw [B.files] at hfile
          exact ⟨h0, l, hm, hlc, hfile, rfl, rfl⟩
      | bare h0 hl hfr => subst hfr; cases hsrc

/-! ## 4. inline frames: the nested inlined calls covering the address, with their call sites -/

/-- **C11.6 `inline_loop_terminates`** — the `for depth in 1..` loop of `fill_symbol` returns
    within `number of inlinees + 1` rounds (the fuel the model gives it), whatever the records:
    every round that goes on has found an inlinee of exactly the current depth. -/
theorem inline_loop_terminates (sf : SymFile) (f : BFunc) (addr depth origin : Nat) :
    inlineLoop sf f addr (f.inls.length + 1) depth origin ≠ none := by
  apply inlineLoop_ne_none
  have := List.length_filter_le (fun x : Inl => decide (depth ≤ x.depth)) f.inls
  omega

/-- **C11.5 `inline_chain`** — "inline frames list the nested inlined calls covering [the
    address] with their call sites". If a FUNC `f` is reported, then either no depth-0 inlinee
    is found and there are no inline frames, or there are INLINE ranges `x₀, x₁, …, x_m` of that
    FUNC record with depths `0, 1, …, m`, every one containing the address, no inlinee is found at
    depth `m+1`, the source location of the frame is `x₀`'s call site, and the inline frames are
    `chainFrames`: the frame for depth `k` is named by `x_k`'s origin and carries the call site
    stored in `x_{k+1}` (shifted by one depth); the last one carries the innermost line record
    (`lastInline`, cf. `lineAt_covers`). Order: outermost first (as passed to `add_inline_frame`). -/
theorem inline_chain {r : Recs} {sf : SymFile} (hb : build r = .ok sf) {base instr : Nat}
    {fr : Frame} (h : fillSymbol sf base instr = .ok fr) (hge : base ≤ instr) {b : BFunc}
    (hf : funcAt sf.funcs sf.ftab (instr - base) = some b) :
    ∃ f ∈ r.funcs, b = finOf f ∧
      ((inlineeAt b.inls 0 (instr - base) = .ok none ∧ fr.inl = []) ∨
       ∃ x0 xs,
         (∀ k x, (x0 :: xs)[k]? = some x → x ∈ f.inls ∧ x.depth = k ∧ x.Covers (instr - base)) ∧
         inlineeAt b.inls (xs.length + 1) (instr - base) = .ok none ∧
         fr.src = (mapGet r.files x0.callFile).map (fun file => (file, x0.callLine, x0.addr + base)) ∧
         fr.inl = chainFrames sf b (instr - base) x0.origin xs) := by
  have B := build_built hb
  obtain ⟨_, hc⟩ := fillSymbol_func hge hf h
  obtain ⟨f, hfm, rfl, hcov⟩ := funcAt_is_record hb hf
  refine ⟨f, hfm, rfl, ?_⟩
  cases hc with
  | inlined x fr0 inl h0 hs hl hfr =>
    subst hfr
    right
    obtain ⟨xs, h1, h2, h3⟩ := inlineLoop_chain _ _ _ _ _ _ _ hl
    refine ⟨x, xs, ?_, by rw [Nat.add_comm]; exact h2, ?_, h3⟩
    · intro k y hk
      cases k with
      | zero =>
        simp at hk; subst hk
        exact inlineeAt_covers h0
      | succ k =>
        simp at hk
        have := inlineeAt_covers (h1 k y hk)
        rw [Nat.add_comm] at this; exact this
    · rw [← B.files]
      rcases setSource_ok hs with ⟨hnone, rfl⟩ | ⟨file', hfile, _, rfl⟩
      · simp [hnone]
      · simp [hfile]
  | line l h0 hl hs =>
    left
    refine ⟨h0, ?_⟩
    rcases setSource_ok hs with ⟨_, rfl⟩ | ⟨file', _, _, rfl⟩ <;> rfl
  | bare h0 hl hfr => subst hfr; exact .inl ⟨h0, rfl⟩

/-- the innermost location attached to the last inline frame is that of a line record of the
    FUNC covering the address (or nothing) -/
theorem lastInline_covers (sf : SymFile) (f : Func) (a origin : Nat) (fr : InlineFrame)
    (h : fr ∈ lastInline sf (finOf f) a origin) :
    mapGet sf.origins origin = some fr.name ∧
    ((lineAt (finOf f) a = none ∧ fr.file = none ∧ fr.line = none) ∨
     ∃ l ∈ f.lines, l.Covers a ∧ fr.file = mapGet sf.files l.file ∧
       fr.line = if l.line ≠ 0 then some l.line else none) := by
  unfold lastInline at h
  cases hl : lineAt (finOf f) a with
  | none =>
    rw [hl] at h
    simp only at h
    split at h
    · rename_i name hn
      simp only [List.mem_singleton] at h
      subst h
      exact ⟨hn, .inl ⟨rfl, rfl, rfl⟩⟩
    · cases h
  | some l =>
    rw [hl] at h
    simp only at h
    obtain ⟨hm, hc⟩ := lineAt_covers hl
    split at h
    · rename_i name hn
      simp only [List.mem_singleton] at h
      subst h
      exact ⟨hn, .inr ⟨l, hm, hc, rfl, rfl⟩⟩
    · cases h

/-- **C11.5b `frames_innermost_first`** — "innermost first in the stack frame":
    `fill_source_line_info` (what `walk_stack` runs for every frame) yields, for a module
    `[base, base+msize)` containing the instruction, exactly `fill_symbol`'s answer with the inline
    frames reversed — the deepest inlined call comes first; outside the module nothing is filled. -/
theorem frames_innermost_first (sf : SymFile) (base msize instr : Nat) (fr' : Frame)
    (h : fillSourceLineInfo sf base msize instr = .ok fr') :
    (fr' = {} ∧ ¬ (0 < msize ∧ base + msize ≤ U64MAX ∧ base ≤ instr ∧ instr < base + msize)) ∨
    ∃ fr, fillSymbol sf base instr = .ok fr ∧ fr'.fn = fr.fn ∧ fr'.src = fr.src ∧
      fr'.inl = fr.inl.reverse ∧ fr'.inl.head? = fr.inl.getLast? := by
  unfold fillSourceLineInfo at h
  split at h
  · rename_i hr
    cases h
    left
    refine ⟨rfl, ?_⟩
    intro ⟨h1, h2, _, _⟩
    unfold mkRange at hr
    rw [if_neg (by omega), if_neg (by omega)] at hr
    cases hr
  · rename_i rg hr
    split at h
    · rename_i hc
      split at h
      · cases h
      · rename_i fr hfr
        cases h
        right
        exact ⟨fr, hfr, rfl, rfl, rfl, by simp⟩
    · rename_i hc
      cases h
      left
      refine ⟨rfl, ?_⟩
      intro ⟨h1, h2, h3, h4⟩
      obtain ⟨_, _, w3, w4⟩ := mkRange_wf hr
      apply hc
      simp only [Rng.contains, Bool.and_eq_true, decide_eq_true_eq]
      omega

/-! ## 5. files whose records do not overlap: the result equals an independent linear scan -/

/-- the frame without parameter sizes -/
def Frame.noPsize (fr : Frame) : Frame := { fr with fn := fr.fn.map fun (n, b, _) => (n, b, 0) }

/-- core of `eq_linear_scan`: for files without overlapping FUNC / line / same-depth INLINE
    records `fill_symbol`'s answer IS the linear scan — with the FUNC's parameter size still taken
    from the model's STACK WIN tables (`paramSize`); `eq_linear_scan` replaces that by the scan of
    the STACK WIN records, `eq_linear_scan_any_win` drops it. -/
theorem eq_linear_scan_core {r : Recs} {sf : SymFile} (hb : build r = .ok sf)
    (hno : NonOverlapping r) {base instr : Nat} {fr : Frame}
    (h : fillSymbol sf base instr = .ok fr) :
    fr = scanFillWith (fun a f => paramSize sf a (finOf f)) r base instr := by
  have B := build_built hb
  by_cases hlt : instr < base
  · rw [fillSymbol_below hlt] at h; cases h
    unfold scanFillWith; rw [if_pos hlt]
  · have hge : base ≤ instr := by omega
    have hfa : funcAt sf.funcs sf.ftab (instr - base) = (scanFunc r (instr - base)).map finOf := by
      rw [B.ftab, B.funcs]; exact funcAt_scan hno _
    unfold scanFillWith
    rw [if_neg hlt]
    simp only
    cases hs : scanFunc r (instr - base) with
    | some f =>
      rw [hs] at hfa
      simp only [Option.map_some] at hfa
      have hfm : f ∈ r.funcs := by unfold scanFunc at hs; exact List.mem_of_find?_eq_some hs
      have hl := hno.lines f hfm
      have hi := hno.inls f hfm
      obtain ⟨_, hc⟩ := fillSymbol_func hge hfa h
      simp only
      cases hc with
      | inlined x fr0 inl h0 hss hloop hfr =>
        rw [inlineeAt_scan hi] at h0
        simp only [Outcome.ok.injEq] at h0
        rw [h0]
        simp only
        have hinl := inlineLoop_scan B hl hi _ _ _ _ _ hloop
          (f.inls.length - (finOf f).inls.length)
        have hlen := finOf_inls_length_le f
        rw [show (finOf f).inls.length + 1 + (f.inls.length - (finOf f).inls.length) =
          f.inls.length + 1 by omega] at hinl
        subst hfr
        rcases setSource_ok hss with ⟨hnone, rfl⟩ | ⟨file, hfile, _, rfl⟩
        · rw [B.files] at hnone
          simp [scanSrc, hnone, hinl]
          exact ⟨rfl, rfl⟩
        · rw [B.files] at hfile
          simp [scanSrc, hfile, hinl]
          exact ⟨rfl, rfl⟩
      | line l h0 hline hss =>
        rw [inlineeAt_scan hi] at h0
        simp only [Outcome.ok.injEq] at h0
        rw [h0]
        simp only
        rw [lineAt_scan hl] at hline
        rw [hline]
        simp only
        rcases setSource_ok hss with ⟨hnone, rfl⟩ | ⟨file, hfile, _, rfl⟩
        · rw [B.files] at hnone
          simp [scanSrc, hnone]
          exact ⟨rfl, rfl⟩
        · rw [B.files] at hfile
          simp [scanSrc, hfile]
          exact ⟨rfl, rfl⟩
      | bare h0 hline hfr =>
        rw [inlineeAt_scan hi] at h0
        simp only [Outcome.ok.injEq] at h0
        rw [h0]
        simp only
        rw [lineAt_scan hl] at hline
        rw [hline]
        subst hfr
        rfl
    | none =>
      rw [hs] at hfa
      simp only [Option.map_none] at hfa
      simp only
      obtain ⟨sp1, sp2⟩ := scanPublic_spec r.pubs (instr - base)
      rcases public_rule hb hge h hfa with ⟨p, hnp, hrule, rfl⟩ | ⟨rfl, hwhy⟩
      · cases hsp : scanPublic r.pubs (instr - base) with
        | none =>
          have := sp2 hsp p hnp.1
          have := hnp.2.1
          omega
        | some p' =>
          have := (sp1 p' hsp).unique hnp
          subst this
          simp only
          have hcut : scanCut r (instr - base) p' = false := by
            cases hc : scanCut r (instr - base) p' with
            | false => rfl
            | true =>
              exfalso
              unfold scanCut at hc
              obtain ⟨f, hfm, hf⟩ := List.any_eq_true.mp hc
              simp only [decide_eq_true_eq] at hf
              obtain ⟨f1, f2, f3, f4⟩ := hf
              obtain ⟨e, he, hlo⟩ := ftab_has_record hno hfm f1 f2
              rw [← B.funcs, ← B.ftab] at he
              have := hrule e he (by omega)
              omega
          rw [hcut]
          simp
      · rcases hwhy with hnone | ⟨p, hnp, e, he, hle, hcutoff⟩
        · cases hsp : scanPublic r.pubs (instr - base) with
          | none => rfl
          | some p' =>
            have h1 := (sp1 p' hsp)
            have := hnone p' h1.1
            have := h1.2.1
            omega
        · cases hsp : scanPublic r.pubs (instr - base) with
          | none =>
            have := sp2 hsp p hnp.1
            have := hnp.2.1
            omega
          | some p' =>
            have := (sp1 p' hsp).unique hnp
            subst this
            simp only
            have hcut : scanCut r (instr - base) p' = true := by
              unfold scanCut
              obtain ⟨f, hfm, hfa', hf1, hf2, _⟩ := ftab_entry_is_record hb he
              apply List.any_eq_true.mpr
              refine ⟨f, hfm, ?_⟩
              simp only [decide_eq_true_eq]
              exact ⟨hf1, hf2, by omega, by omega⟩
            rw [hcut]
            simp


theorem scanFillWith_noPsize (p1 p2 : Nat → Func → Nat) (r : Recs) (base instr : Nat) :
    (scanFillWith p1 r base instr).noPsize = (scanFillWith p2 r base instr).noPsize := by
  unfold scanFillWith
  split
  · rfl
  · simp only
    split
    · split
      · rfl
      · split <;> rfl
    · rfl

/-- **C11.7 `eq_linear_scan`** — "For files whose records do not overlap, the result equals an
    independent linear-scan lookup over the file's records." `scanFill`
    (MdProofs/Lemmas/SymbolizeScan.lean) looks the instruction up with `find?`/`foldl`/`any` over
    the records in file order — no range table, no sorting, no binary search: first FUNC record
    containing the address (parameter size: first covering STACK WIN frame-data record, else first
    covering fpo record, else the FUNC's), first depth-0, depth-1, … INLINE range containing it,
    first line record containing it; else the greatest PUBLIC at or below the address unless a
    valid FUNC record starts between it and the address. For every file satisfying
    `NonOverlapping` (valid FUNC ranges; line ranges within a FUNC; same-depth INLINE ranges
    within a FUNC, empty ranges aside: pairwise disjoint) and `WinNonOverlapping` (valid STACK WIN ranges of each type
    pairwise disjoint, fields within their `u32` types), every base and every instruction,
    `fill_symbol`'s whole answer — function name, base and parameter size, source file/line/base,
    inline frames — is exactly that of the scan. -/
theorem eq_linear_scan {r : Recs} {sf : SymFile} (hb : build r = .ok sf) (hno : NonOverlapping r)
    (hw4 : WinNonOverlapping r.win4) (hw0 : WinNonOverlapping r.win0)
    {base instr : Nat} {fr : Frame} (h : fillSymbol sf base instr = .ok fr) :
    fr = scanFill r base instr := by
  rw [eq_linear_scan_core hb hno h]
  unfold scanFill
  congr 1
  funext a f
  exact paramSize_scan (build_built hb) hw4 hw0 a f

/-- the same with ANY STACK WIN records (overlapping ones are repaired/dropped by the table
    builder, C08): everything but the parameter size equals the linear scan -/
theorem eq_linear_scan_any_win {r : Recs} {sf : SymFile} (hb : build r = .ok sf)
    (hno : NonOverlapping r) {base instr : Nat} {fr : Frame}
    (h : fillSymbol sf base instr = .ok fr) :
    fr.noPsize = (scanFill r base instr).noPsize := by
  rw [eq_linear_scan_core hb hno h]
  exact scanFillWith_noPsize _ _ _ _ _

/-! ## 5b. empty INLINE ranges (finding `C11-zero-size-inlinee`, fixed by /repo 2be1766)

  `finish_item` used to keep size-0 INLINE ranges. Such a range is empty — it overlaps nothing and
  covers nothing — but in the sorted inlinee vector it sat between its sibling's start and the
  queried address, the `(depth, address)` binary search landed on it and `get_inlinee_at_depth`
  answered `None` for every address behind it. Since 2be1766 `finish_item` drops empty ranges like
  empty lines (`finOf` filters them), `NonOverlapping` speaks about non-empty ranges only, and the
  former counterexample is an instance of `eq_linear_scan`'s lemma: -/

/-- `FUNC 2b 37 28 f` with `INLINE 0 8 2 1 2b 6 2c 0`: ranges `[43,49)` and the empty `[44,44)` -/
def zeroInl : Func := ⟨43, 55, 40, [1], [], [⟨0, 43, 6, 2, 8, 1⟩, ⟨0, 44, 0, 2, 8, 1⟩]⟩

/-- the empty range at 44 no longer hides its sibling: at address 48 the lookup on the stored
    inlinee list finds `[43,49)`, exactly what the linear scan finds -/
theorem zero_size_inlinee_dropped :
    inlineeAt (finOf zeroInl).inls 0 48 = .ok (some ⟨0, 43, 6, 2, 8, 1⟩) ∧
    scanInl zeroInl 0 48 = some ⟨0, 43, 6, 2, 8, 1⟩ := by
  have hs : scanInl zeroInl 0 48 = some ⟨0, 43, 6, 2, 8, 1⟩ := by decide
  refine ⟨?_, hs⟩
  rw [inlineeAt_scan (f := zeroInl) (by decide), hs]

/-! ## 6. building the tables never fails (C08), restated for whole files -/

/-- `SymbolParser::finish` cannot panic on a file without STACK WIN records: every
    `into_rangemap_safe(..)` ends in an `unwrap` that C08 proves safe. (With STACK WIN records the
    same holds by C08's `win_repair_no_panic`; `winTable` is C08's `win4`/`win0` builder.) -/
theorem build_ok (r : Recs) (h4 : r.win4 = []) (h0 : r.win0 = []) : ∃ sf, build r = .ok sf := by
  unfold build
  simp only [finishAll_ok, safeP_ok _ (funcInput_wf _), h4, h0]
  have : winTable [] = .ok (safeVecP []) := by
    unfold winTable
    simp only [insertWinAll, List.reverse_nil, List.map_nil]
    exact safeP_ok [] (by intro e he; cases he)
  simp only [this]
  exact ⟨_, rfl⟩

/-- the same for files whose STACK WIN records do not overlap (for arbitrary STACK WIN records:
    C08's `win_repair_no_panic`) -/
theorem build_ok_win (r : Recs) (h4 : WinNonOverlapping r.win4) (h0 : WinNonOverlapping r.win0) :
    ∃ sf, build r = .ok sf := by
  obtain ⟨t4, e4⟩ := winTable_ok h4
  obtain ⟨t0, e0⟩ := winTable_ok h0
  unfold build
  simp only [finishAll_ok, safeP_ok _ (funcInput_wf _), e4, e0]
  exact ⟨_, rfl⟩

/-! ## non-vacuity: a concrete file satisfying every hypothesis, and the theorems applied to it -/

/-- the file of the repository's `test_nested_inlines` (names abbreviated to numbers):
    `FUNC 1000 30 10 outer`, `INLINE 0 60 15 2 1000 20`, `INLINE 1 12 4 3 1000 10`,
    `INLINE 1 17 4 1 1010 10`, lines `1000 10 42 7`, `1010 10 52 8`, `1020 10 62 15`,
    plus a PUBLIC before (0x800) and one after the FUNC (0x1038) -/
def nested : Recs :=
  { files := [(15, [15]), (4, [4]), (7, [7]), (8, [8])],
    origins := [(1, [101]), (2, [102]), (3, [103])],
    pubs := [⟨0x800, [200], 0⟩, ⟨0x1038, [201], 4⟩],
    funcs := [⟨0x1000, 0x30, 0x10, [100],
      [⟨0x1000, 0x10, 7, 42⟩, ⟨0x1010, 0x10, 8, 52⟩, ⟨0x1020, 0x10, 15, 62⟩],
      [⟨0, 0x1000, 0x20, 15, 60, 2⟩, ⟨1, 0x1000, 0x10, 4, 12, 3⟩, ⟨1, 0x1010, 0x10, 4, 17, 1⟩]⟩] }

theorem nested_nonoverlapping : NonOverlapping nested := by
  refine ⟨by simp [nested], ?_, ?_⟩
  · intro f hf
    simp only [nested, List.mem_singleton] at hf
    subst hf
    simp only [List.pairwise_cons, List.mem_cons, List.not_mem_nil, or_false, forall_eq_or_imp,
      forall_eq, List.Pairwise.nil, and_true, false_imp_iff, implies_true]
    simp [mkRangeLine, U64MAX, RDisjoint]
  · intro f hf
    simp only [nested, List.mem_singleton] at hf
    subst hf
    decide

example : ∃ sf, build nested = .ok sf := build_ok nested rfl rfl

/-- at `0x1000 + base`: `outer @ file15:60 → mid @ file4:12 → inner_1 @ file7:42`, as in the
    repository's test — here for EVERY answer `fill_symbol` can give (and it gives one) -/
example (sf : SymFile) (hb : build nested = .ok sf) :
    ∃ fr, fillSymbol sf 0x7000 0x8000 = .ok fr ∧
      fr.noPsize = { fn := some ([100], 0x8000, 0), src := some ([15], 60, 0x8000),
                     inl := [⟨[102], some [4], some 12⟩, ⟨[103], some [7], some 42⟩] } := by
  obtain ⟨fr, hfr⟩ := fill_no_panic hb 0x7000 0x8000 (by decide)
    (by intro f hf; simp only [nested, List.mem_singleton] at hf; subst hf; decide)
  refine ⟨fr, hfr, ?_⟩
  rw [eq_linear_scan_any_win hb nested_nonoverlapping hfr]
  decide

/-- PUBLIC fallback on the same file: below the FUNC the PUBLIC at 0x800 is reported; just after
    the FUNC it is cut off (the FUNC at 0x1000 starts between it and the address) and nothing is
    reported; from 0x1038 on the second PUBLIC is reported -/
example (sf : SymFile) (hb : build nested = .ok sf) (fr1 fr2 fr3 : Frame)
    (h1 : fillSymbol sf 0 0x900 = .ok fr1) (h2 : fillSymbol sf 0 0x1034 = .ok fr2)
    (h3 : fillSymbol sf 0 0x1040 = .ok fr3) :
    fr1.noPsize = { fn := some ([200], 0x800, 0) } ∧ fr2.noPsize = {} ∧
    fr3.noPsize = { fn := some ([201], 0x1038, 0) } := by
  rw [eq_linear_scan_any_win hb nested_nonoverlapping h1,
    eq_linear_scan_any_win hb nested_nonoverlapping h2,
    eq_linear_scan_any_win hb nested_nonoverlapping h3]
  decide

/-- the same file with a frame-data record over the FUNC and an fpo record elsewhere: the full
    `eq_linear_scan` applies and the parameter size comes from the frame-data record -/
def nestedWin : Recs := { nested with win4 := [⟨0x1000, 0x30, 8⟩], win0 := [⟨0x2000, 4, 12⟩] }

theorem nestedWin_win : WinNonOverlapping nestedWin.win4 ∧ WinNonOverlapping nestedWin.win0 := by
  constructor <;> refine ⟨by simp [nestedWin], ?_⟩ <;>
    (intro w hw; simp only [nestedWin, List.mem_singleton] at hw; subst hw; decide)

example : ∃ sf, build nestedWin = .ok sf := build_ok_win _ nestedWin_win.1 nestedWin_win.2

example (sf : SymFile) (hb : build nestedWin = .ok sf) (fr : Frame)
    (h : fillSymbol sf 0 0x1020 = .ok fr) :
    fr = { fn := some ([100], 0x1000, 8), src := some ([15], 62, 0x1020) } := by
  have hno : NonOverlapping nestedWin :=
    ⟨nested_nonoverlapping.funcs, nested_nonoverlapping.lines, nested_nonoverlapping.inls⟩
  rw [eq_linear_scan hb hno nestedWin_win.1 nestedWin_win.2 h]
  decide

/-- the hypotheses of `public_rule`/`func_covers`/`line_covers`/`inline_chain` are those of the
    examples above (a built file and an answer); `frames_innermost_first` on the same file: -/
example (sf : SymFile) (fr' : Frame) (h : fillSourceLineInfo sf 0x7000 0x2000 0x8000 = .ok fr') :
    ∃ fr, fillSymbol sf 0x7000 0x8000 = .ok fr ∧ fr'.inl = fr.inl.reverse := by
  rcases frames_innermost_first sf _ _ _ fr' h with ⟨_, hn⟩ | ⟨fr, h1, _, _, h2, _⟩
  · exact absurd (by decide) hn
  · exact ⟨fr, h1, h2⟩

end MdModel.Symbolize
