/-
  C11 — Symbolication returns the record that really covers the address.

  Property text: "For every symbol file and instruction address, the reported function is a FUNC
  record of that file whose range contains the address or, if none does, the nearest preceding
  PUBLIC symbol not cut off by an intervening FUNC; reported function and line base addresses never
  exceed the instruction. The source line is that of the line record (or outermost inline call
  site) covering the address, and inline frames list the nested inlined calls covering it with
  their call sites, innermost first in the stack frame. For files whose records do not overlap,
  the result equals an independent linear-scan lookup over the file's records."

  The theorems are about `MdModel.Symbolize` (the model the compiled driver executes and the
  `symb` engine compares with `SymbolFile::from_bytes` + `SymbolFile::fill_symbol` and with
  `minidump_unwind::walk_stack` on every run). `r : Recs` are the records of an arbitrary symbol
  file (any number of FUNC/line/INLINE/PUBLIC/FILE/INLINE_ORIGIN/STACK WIN records, any values),
  `build r` is what the parser's `finish_item`/`finish` make of them, `base` the module's load
  address and `instr` the instruction address.

  Reading of "or, if none does": if the function *table* (the sorted, non-overlapping normal form
  that C08's builder makes of the FUNC records) has no entry containing the address. For files
  whose FUNC records do not overlap the two readings coincide (`eq_linear_scan`).
-/
import MdProofs.Lemmas.Symbolize
namespace MdModel.Symbolize
open MdModel MdModel.RangeMap

/-- the FUNC record's own range `[addr, addr+size)` is valid and contains the relative address -/
def Func.Covers (f : Func) (a : Nat) : Prop :=
  0 < f.size ∧ f.addr + f.size ≤ U64MAX ∧ f.addr ≤ a ∧ a < f.addr + f.size

/-- the line record's own range `[addr, addr+size-1]` is valid and contains the relative address -/
def Line.Covers (l : Line) (a : Nat) : Prop :=
  0 < l.size ∧ l.addr + (l.size - 1) ≤ U64MAX ∧ l.addr ≤ a ∧ a ≤ l.addr + (l.size - 1)

/-- the inlinee's own range `[addr, addr+size)` is valid and contains the relative address -/
def Inl.Covers (x : Inl) (a : Nat) : Prop :=
  x.addr + x.size ≤ U64MAX ∧ x.addr ≤ a ∧ a < x.addr + x.size

/-! ## 1. the reported FUNC is a record of the file whose range contains the address -/

/-- whatever `functions.get` finds in the table built from the file's records is (the stored form
    of) a FUNC record of the file whose own range contains the address -/
theorem funcAt_is_record {r : Recs} {sf : SymFile} (hb : build r = .ok sf) {a : Nat} {b : BFunc}
    (hf : funcAt sf.funcs sf.ftab a = some b) : ∃ f ∈ r.funcs, b = finOf f ∧ f.Covers a := by
  have B := build_built hb
  rw [B.ftab] at hf
  obtain ⟨hm, h1, h2, h3, h4⟩ := funcAt_sound hf
  rw [B.funcs, List.mem_map] at hm
  obtain ⟨f, hfm, rfl⟩ := hm
  exact ⟨f, hfm, rfl, h1, h4, h2, h3⟩

theorem FuncCase.fn_eq {sf : SymFile} {f : BFunc} {base a : Nat} {fr : Frame}
    (h : FuncCase sf f base a fr) : fr.fn = some (f.name, f.addr + base, paramSize sf a f) := by
  cases h with
  | inlined x fr0 inl h0 hs hl hfr =>
    subst hfr
    rcases setSource_ok hs with ⟨_, rfl⟩ | ⟨file, _, _, rfl⟩ <;> rfl
  | line l h0 hl hs =>
    rcases setSource_ok hs with ⟨_, rfl⟩ | ⟨file, _, _, rfl⟩ <;> rfl
  | bare h0 hl hfr => subst hfr; rfl

theorem findNearestPublic_some {pubs : List Pub} {a : Nat} {p : Pub}
    (h : findNearestPublic pubs a = some p) : p ∈ pubs ∧ p.addr ≤ a := by
  unfold findNearestPublic at h
  have h1 := List.mem_of_find?_eq_some h
  have h2 := List.find?_some h
  exact ⟨List.mem_reverse.mp h1, by simpa using h2⟩

/-- **C11.1 `func_covers`** — "the reported function is a FUNC record of that file whose range
    contains the address or, if none does, [a] PUBLIC symbol [at or below the address]".
    Every reported function is either a FUNC record of the file that contains the address
    (reported with its own name and `address + module base`), or — only when the function table has
    no entry for the address — a PUBLIC record of the file at or below the address
    (which one: `public_rule`). -/
theorem func_covers {r : Recs} {sf : SymFile} (hb : build r = .ok sf) {base instr : Nat}
    {fr : Frame} (h : fillSymbol sf base instr = .ok fr) {name : Name} {fbase ps : Nat}
    (hfn : fr.fn = some (name, fbase, ps)) :
    base ≤ instr ∧
    ((∃ f ∈ r.funcs, name = f.name ∧ fbase = f.addr + base ∧ f.Covers (instr - base)) ∨
     (funcAt sf.funcs sf.ftab (instr - base) = none ∧
        ∃ p ∈ r.pubs, name = p.name ∧ fbase = p.addr + base ∧ ps = p.psize ∧
          p.addr ≤ instr - base)) := by
  by_cases hlt : instr < base
  · rw [fillSymbol_below hlt] at h; cases h; cases hfn
  · have hge : base ≤ instr := by omega
    refine ⟨hge, ?_⟩
    cases hf : funcAt sf.funcs sf.ftab (instr - base) with
    | some b =>
      left
      obtain ⟨_, hc⟩ := fillSymbol_func hge hf h
      obtain ⟨f, hfm, rfl, hcov⟩ := funcAt_is_record hb hf
      rw [hc.fn_eq] at hfn
      simp only [Option.some.injEq, Prod.mk.injEq] at hfn
      obtain ⟨rfl, rfl, _⟩ := hfn
      exact ⟨f, hfm, rfl, rfl, hcov⟩
    | none =>
      right
      refine ⟨rfl, ?_⟩
      rcases fillSymbol_nofunc hge hf h with rfl | ⟨p, hp, _, _, rfl⟩
      · cases hfn
      · simp only [Option.some.injEq, Prod.mk.injEq] at hfn
        obtain ⟨rfl, rfl, rfl⟩ := hfn
        obtain ⟨hm, hle⟩ := findNearestPublic_some hp
        rw [(build_built hb).pubs] at hm
        exact ⟨p, List.mem_mergeSort.mp hm, rfl, rfl, rfl, hle⟩

/-! ## 2. reported bases never exceed the instruction -/

/-- **C11.3 `bases_le`** — "reported function and line base addresses never exceed the
    instruction" (`function_base ≤ instruction`, `source_line_base ≤ instruction`), for every file,
    base and instruction. (That the `+ module base` additions cannot overflow: `fill_no_panic`.) -/
theorem bases_le {r : Recs} {sf : SymFile} (hb : build r = .ok sf) {base instr : Nat}
    {fr : Frame} (h : fillSymbol sf base instr = .ok fr) :
    (∀ name fbase ps, fr.fn = some (name, fbase, ps) → fbase ≤ instr) ∧
    (∀ file line lbase, fr.src = some (file, line, lbase) → lbase ≤ instr) := by
  constructor
  · intro name fbase ps hfn
    obtain ⟨hge, hc⟩ := func_covers hb h hfn
    rcases hc with ⟨f, _, _, rfl, _, _, h3, _⟩ | ⟨_, p, _, _, rfl, _, h3⟩ <;> omega
  · intro file line lbase hsrc
    by_cases hlt : instr < base
    · rw [fillSymbol_below hlt] at h; cases h; cases hsrc
    · have hge : base ≤ instr := by omega
      cases hf : funcAt sf.funcs sf.ftab (instr - base) with
      | none =>
        rcases fillSymbol_nofunc hge hf h with rfl | ⟨p, _, _, _, rfl⟩ <;> cases hsrc
      | some b =>
        obtain ⟨_, hc⟩ := fillSymbol_func hge hf h
        obtain ⟨f, _, rfl, _⟩ := funcAt_is_record hb hf
        cases hc with
        | inlined x fr0 inl h0 hs hl hfr =>
          subst hfr
          obtain ⟨_, _, hle, _⟩ := inlineeAt_sound h0
          rcases setSource_ok hs with ⟨_, rfl⟩ | ⟨file', _, _, rfl⟩
          · cases hsrc
          · simp only [Option.some.injEq, Prod.mk.injEq] at hsrc
            omega
        | line l h0 hl hs =>
          obtain ⟨_, _, hle, _⟩ := lineAt_sound (b := finOf f) rfl hl
          rcases setSource_ok hs with ⟨_, rfl⟩ | ⟨file', _, _, rfl⟩
          · cases hsrc
          · simp only [Option.some.injEq, Prod.mk.injEq] at hsrc
            omega
        | bare h0 hl hfr => subst hfr; cases hsrc

end MdModel.Symbolize
