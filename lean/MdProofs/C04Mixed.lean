/-
  C04 — Stack walking recovers the true call chain of well-formed stacks: stacks whose unwinding
  technique changes from frame to frame, on every context kind / mode (`walk_layout_mixed`).

  Property text: "For every synthetic thread whose stack is laid out by the platform calling
  convention (frame-pointer chains), described by STACK CFI or STACK WIN records, or findable only
  by scanning for return addresses, on x86, x86-64, ARM, ARM64 and MIPS … the walker returns
  exactly the generated call chain. Each generated call yields one frame with the right return
  address, stack pointer, recovered callee-saved registers, technique label, module and function
  name, and the walk stops at the generated end of stack."

  What is a theorem here. The hypothesis is `PreW` (MdModel/Walk/LayoutMixed.lean) — exactly the
  predicate the `chain` engine has the compiled model evaluate on every generated `win` / `mixed`
  case; the walk is `walk (mkEnvW a os w wins mem)`, the model the engine compares with `walk_stack`
  frame by frame (`mkEnvW_eq_mkEnv`: off x86 and without STACK WIN records it IS `mkEnv`, the
  environment of C05 / of the single-technique theorems).

  * `walk_layout_mixed` — ALL seven context kinds / modes (x86, x86-64, ARM, ARM64 both layouts,
    MIPS32, MIPS64), ANY depth, the technique of every frame chosen freely among
      - `cfi`  : a canonical STACK CFI record `.cfa: $sp N + .ra: .cfa -W + ^ ($r: .cfa -OFF + ^)*` saving
                 any set of callee-saved registers (or the leaf rule `.cfa: sp 0 + .ra: lr` for a first
                 frame on ARM / ARM64 / MIPS), under ANY validity set of the callee: after a frame
                 found by frame pointer or scan only sp / ip (/ fp) are valid; the saved registers are
                 set, the callee-saved registers valid in the callee are forwarded (ARM / ARM64: a
                 frame pointer recorded as `r11` / `x29` by the frame-pointer unwinder too — F28),
                 ARM64 strips the ptr-auth bits of pc and of a valid fp;
      - `fp`   : a frame-pointer record (x86, x86-64 incl. the Windows probe of up to 15 × 16 bytes,
                 ARM on iOS, ARM64);
      - `scan` : a return address findable only by scanning, inside the 40 / 160-word (MIPS: 128 /
                 252 / 256) window; x86 with the recovery of `%ebp` from the word below it;
      - `win`  : (x86) a STACK WIN record of the shapes of `walk_layout_win`.
    The walker returns the context frame followed by exactly one frame per generated call
    (`All2`: same length, position by position), each the symbolisation of a frame that
    `FrameIsA` the generated call with the label of its technique — and nothing after the
    generated end of stack.
  * `walk_layout_mixed_x86` — the x86 instance with the finer x86 assertion `FrameIs`
    (32-bit register values); removes `techOK` from `walk_layout_mixed_x86_partial`.
  * `FrameIsA.spec` — what "one frame per generated call with …" means, read off a frame.
  * `walk_layout_mixed_length`, `walk_layout_mixed_cfi` (all-`cfi` chains: the multi-register STACK
    CFI statement from the ENGINE-EVALUATED predicate, for any validity of the context).

  Still sampled only: that the Rust generator's cases satisfy `PreW` (evaluated per case, not proved
  of the generator); stacks outside `PreW` (e.g. x86-64 scans with a live `%rbp`, which `PreW` does
  not admit).
-/
import MdProofs.Lemmas.WalkMixedX86
import MdProofs.Lemmas.WalkMixedChain
import MdProofs.Lemmas.WalkMixedLayout
import MdProofs.C04
set_option linter.unusedSimpArgs false
namespace MdModel.Walk
open MdModel MdModel.Win

/-- **what one produced frame is** — "Each generated call yields one frame with the right return
    address, stack pointer, recovered callee-saved registers, technique label, module and function
    name": the symbolised frame has `ip = ret`, `sp`, the technique label, lookup address
    `ret − adj`, ip / sp valid registers with these values, the frame pointer a valid register
    exactly when the chain claims one and then with the generated value, every claimed
    callee-saved register valid with its generated value, and module / function as symbolication
    of `ret − adj` gives them. -/
theorem FrameIsA.spec (env : Env) {a : Arch} {t : Trust} {e : Exp} {f : Frame} (h : FrameIsA a t e f) :
    (symbolise env f).ctx.ip = e.ret ∧ (symbolise env f).ctx.sp = e.sp ∧ (symbolise env f).trust = t ∧
    (symbolise env f).instruction = e.ret - a.adj ∧
    (symbolise env f).ctx.get a a.ipName = some e.ret ∧ (symbolise env f).ctx.get a a.spName = some e.sp ∧
    (symbolise env f).ctx.get a a.fpName = e.fp ∧
    (∀ p ∈ e.regs, (symbolise env f).ctx.get a p.1 = some p.2) ∧
    (symbolise env f).module = (env.symb (e.ret - a.adj)).1 ∧
    (symbolise env f).func =
      (if (env.symb (e.ret - a.adj)).1.isSome then (env.symb (e.ret - a.adj)).2 else none) := by
  refine ⟨h.ip, h.sp, h.trust, h.instr, ?_, ?_, ?_, ?_, ?_, ?_⟩
  · rw [symbolise_ctx, get_of_has h.vip (by rw [raw_ipName, h.ip]; exact h.retmax), raw_ipName, h.ip]
  · rw [symbolise_ctx, get_of_has h.vsp (by rw [raw_spName, h.sp]; exact h.spmax), raw_spName, h.sp]
  · rw [symbolise_ctx, h.fp]
    by_cases hf : f.ctx.has a a.fpName = true
    · simp only [hf, if_true]
      unfold Ctx.get
      rw [if_pos hf]
      by_cases h32 : a = .mips32
      · subst h32
        -- a MIPS32 frame pointer is read through the 32-bit wrapper: the claimed value fits
        have hfp := h.fp
        rw [hf, if_pos rfl] at hfp
        have hle : f.ctx.raw .mips32 Arch.mips32.fpName ≤ U32MAX := h.fpmax _ hfp
        simp only [U32MAX] at hle
        simp only [if_true]
        rw [Nat.mod_eq_of_lt (by omega)]
      · rw [if_neg h32]
    · have : f.ctx.has a a.fpName = false := by simpa using hf
      simp [Ctx.get, this]
  · intro p hp
    obtain ⟨h1, h2, h3⟩ := h.regs p hp
    rw [symbolise_ctx, get_of_has h1 (by rw [h2]; exact h3), h2]
  · simp only [symbolise, h.instr]
  · simp only [symbolise, h.instr]

/-- the x86 assertion (`FrameIs`: 32-bit values, validity by literal name) gives the generic one -/
theorem FrameIs.toA {t : Trust} {e : Exp} {f : Frame} (h : FrameIs t e f) : FrameIsA .x86 t e f := by
  have hh : ∀ r ∈ x86Regs, f.ctx.has .x86 r = f.ctx.hasLit r := fun r hr => has_x86 f.ctx hr
  refine ⟨h.ip, h.sp, h.trust, h.instr, h.m64, ?_, ?_, ?_, ?_, ?_, ?_, ?_⟩
  · show f.ctx.has .x86 "eip" = true
    rw [hh _ (by decide)]; exact h.vip
  · show f.ctx.has .x86 "esp" = true
    rw [hh _ (by decide)]; exact h.vsp
  · show e.fp = if f.ctx.has .x86 "ebp" = true then some (f.ctx.raw .x86 "ebp") else none
    rw [hh _ (by decide)]; exact h.fp
  · intro p hp
    obtain ⟨h1, h2, h3⟩ := h.regs p hp
    exact ⟨by rw [hh _ h1]; exact h2, h3, by rw [← h3]; exact h.wf p.1 h1⟩
  · have := h.wf "esp" (by decide)
    rw [raw_x86_esp, h.sp] at this; exact this
  · have := h.wf "eip" (by decide)
    rw [raw_x86_eip, h.ip] at this; exact this
  · intro v hv
    have hfp := h.fp
    rw [hv] at hfp
    split at hfp
    · injection hfp with hfp
      rw [hfp]; exact h.wf "ebp" (by decide)
    · cases hfp

/-- what `PreW` says besides the chain itself -/
theorem PreW_spec {w : World} {wins : List (List Win.Rec)} {env : Env} {a : Arch} {os : Os} {mem : Mem} {ctx : Ctx}
    {chain : List Exp} (h : PreW w wins env a os mem ctx chain = true) :
    mem.range?.isSome = true ∧ ctx.has a a.ipName = true ∧ ctx.has a a.spName = true ∧
    ctx.m64 = (a == .mips64) ∧ (∀ r ∈ a.registers, ctx.raw a r ≤ a.regMax) ∧
    (a.leafOk = true → (ctx.has a (lrName a) = true ∨
      ∀ rec, cfiRecordAt w ctx.ip = some rec → tokenize rec.init ≠ leafToks a)) ∧
    preMixedFrom w wins env a os mem (initState a ctx) chain = true := by
  simp only [PreW, Bool.and_eq_true, beq_iff_eq, Bool.or_eq_true, Bool.not_eq_true'] at h
  obtain ⟨⟨⟨⟨⟨⟨⟨hm, _⟩, hip⟩, hsp⟩, h64⟩, hfit⟩, hleaf⟩, hp⟩ := h
  refine ⟨hm, hip, hsp, h64, ?_, ?_, hp⟩
  · intro r hr
    exact of_decide_eq_true (List.all_eq_true.mp hfit r hr)
  · intro hl
    rcases hleaf with (h | h) | h
    · rw [hl] at h; cases h
    · exact Or.inl h
    · right
      intro rec hrec
      rw [hrec] at h
      simpa using h

/-- **C04, x86, technique changing from frame to frame: all four techniques.** `PreW` on an x86
    context and a chain of `win`, `cfi`, `fp` and `scan` frames in any order and to any depth: the
    walker returns the context frame followed by exactly one frame per generated call, each the
    symbolisation of a frame that `FrameIs` the generated call with the label of its technique —
    and nothing after the generated end of stack. -/
theorem walk_layout_mixed_x86 (os : Os) (w : World) (wins : List (List Win.Rec)) (mem : Mem)
    (ctx : Ctx) (chain : List Exp)
    (hpre : PreW w wins (mkEnvW .x86 os w wins mem) .x86 os mem ctx chain = true) :
    ∃ frames, walk (mkEnvW .x86 os w wins mem) (some mem) ctx =
        symbolise (mkEnvW .x86 os w wins mem) (Frame.ofCtx ctx .context) :: frames ∧
      All2 (fun fr e => ∃ f', fr = symbolise (mkEnvW .x86 os w wins mem) f' ∧ FrameIs (techTrust e) e f')
        frames chain := by
  obtain ⟨hm, hip, hsp, h64, hfit, _, hp⟩ := PreW_spec hpre
  have hused : (some mem).bind (fun m => m.range?.map fun _ => m) = some mem := by
    obtain ⟨r, hr⟩ := Option.isSome_iff_exists.mp hm
    simp [hr]
  unfold walk
  simp only [hused]
  exact walkLoop_x86_chain4 chain (walkFuel mem) (Frame.ofCtx ctx .context) none (initState .x86 ctx)
    (winView_context ctx hip hsp h64 hfit) hp (need_context_le mem ctx)

/-- **C04, every context kind / mode, technique changing from frame to frame: `walk_layout_mixed`.**
    "…laid out by the platform calling convention (frame-pointer chains), described by STACK CFI or
    STACK WIN records, or findable only by scanning for return addresses, on x86, x86-64, ARM, ARM64
    and MIPS … the walker returns exactly the generated call chain": for ANY of the seven context
    kinds / modes, whenever `PreW` — the predicate the `chain` engine evaluates on every generated
    `win` / `mixed` case — holds of a chain whose frames are found by STACK CFI (any validity set of
    the callee), by the frame pointer, by scanning or (x86) through STACK WIN records, in any order
    and to any depth, the walker returns the context frame followed by exactly one frame per
    generated call (`All2`), each with the label of its technique, the generated return address,
    stack pointer, frame pointer and claimed callee-saved registers (`FrameIsA`, `FrameIsA.spec`),
    and stops at the generated end of stack. -/
theorem walk_layout_mixed (a : Arch) (os : Os) (w : World) (wins : List (List Win.Rec)) (mem : Mem)
    (ctx : Ctx) (chain : List Exp)
    (hpre : PreW w wins (mkEnvW a os w wins mem) a os mem ctx chain = true) :
    ∃ frames, walk (mkEnvW a os w wins mem) (some mem) ctx =
        symbolise (mkEnvW a os w wins mem) (Frame.ofCtx ctx .context) :: frames ∧
      All2 (fun fr e => ∃ f', fr = symbolise (mkEnvW a os w wins mem) f' ∧ FrameIsA a (techTrust e) e f')
        frames chain := by
  by_cases hx : a = .x86
  · subst hx
    obtain ⟨frames, hw, hall⟩ := walk_layout_mixed_x86 os w wins mem ctx chain hpre
    exact ⟨frames, hw, hall.imp (fun _ _ ⟨f', h1, h2⟩ => ⟨f', h1, h2.toA⟩)⟩
  · obtain ⟨hm, _, hsp, h64, hfit, hleaf, hp⟩ := PreW_spec hpre
    have hused : (some mem).bind (fun m => m.range?.map fun _ => m) = some mem := by
      obtain ⟨r, hr⟩ := Option.isSome_iff_exists.mp hm
      simp [hr]
    unfold walk
    simp only [hused]
    exact walkLoop_arch_chain hx chain (walkFuel mem) (Frame.ofCtx ctx .context) none (initState a ctx)
      (mview_context ctx hsp h64 hfit hleaf) hp (need_context_le mem ctx)

/-- frame count: no extra and no missing frame -/
theorem walk_layout_mixed_length (a : Arch) (os : Os) (w : World) (wins : List (List Win.Rec)) (mem : Mem)
    (ctx : Ctx) (chain : List Exp)
    (hpre : PreW w wins (mkEnvW a os w wins mem) a os mem ctx chain = true) :
    (walk (mkEnvW a os w wins mem) (some mem) ctx).length = chain.length + 1 := by
  obtain ⟨frames, hw, hall⟩ := walk_layout_mixed a os w wins mem ctx chain hpre
  rw [hw, List.length_cons, hall.length_eq]

/-- **canonical STACK CFI chains from the engine-evaluated predicate**: when every frame of a
    `PreW` chain is found by STACK CFI (records saving any set of callee-saved registers; a context
    of any validity), every produced frame is labelled `cfi` and carries the generated return
    address, stack pointer, frame pointer and claimed registers. (`walk_layout_cfi_regs` states
    this for all-valid contexts under `preCfiG`, which the engine does not evaluate.) -/
theorem walk_layout_mixed_cfi (a : Arch) (os : Os) (w : World) (wins : List (List Win.Rec)) (mem : Mem)
    (ctx : Ctx) (chain : List Exp) (hcfi : ∀ e ∈ chain, e.tech = "cfi")
    (hpre : PreW w wins (mkEnvW a os w wins mem) a os mem ctx chain = true) :
    ∃ frames, walk (mkEnvW a os w wins mem) (some mem) ctx =
        symbolise (mkEnvW a os w wins mem) (Frame.ofCtx ctx .context) :: frames ∧
      All2 (fun fr e => ∃ f', fr = symbolise (mkEnvW a os w wins mem) f' ∧ FrameIsA a .cfi e f')
        frames chain := by
  obtain ⟨frames, hw, hall⟩ := walk_layout_mixed a os w wins mem ctx chain hpre
  refine ⟨frames, hw, ?_⟩
  clear hw hpre
  induction hall with
  | nil => exact .nil
  | @cons x b l m hr _ ih =>
    obtain ⟨f', h1, h2⟩ := hr
    have hb : b.tech = "cfi" := hcfi b List.mem_cons_self
    have ht : techTrust b = .cfi := by simp [techTrust, hb]
    rw [ht] at h2
    exact .cons ⟨f', h1, h2⟩ (ih (fun e he => hcfi e (List.mem_cons_of_mem _ he)))

/-! ## `mkEnvW` without STACK WIN records is `mkEnv`

  Off x86 STACK WIN records are without effect and `get_caller_by_cfi` is `cfiOf`; without any
  record `fill_symbol`'s parameter-size override finds nothing. So the environment of the `mixed`
  walks is the environment of C05's `walk` engine and of the single-technique theorems
  (`walk_layout_fp`, `walk_layout_cfi`, `walk_layout_scan` …), and `walk_layout_mixed` is a
  statement about `walk (mkEnv …)` there. (On x86 `mkEnvW` routes `get_caller_by_cfi` through
  `SymbolFile::walk_frame` and C07's 32-bit `Caller`; the other fields coincide —
  `mkEnvW_fields_noWins` — and the x86 `chain` cases are compared with `chain walk`, i.e. `mkEnvW`.) -/

theorem pick_of_typed_nil (t : WinTables) (ht : t.typed = []) (tbl : List RangeMap.Entry) (addr : Nat) :
    t.pick tbl addr = none := by
  unfold WinTables.pick
  cases Win.lookup tbl addr with
  | none => rfl
  | some i => simp [ht]

theorem winTables_nil_typed : (winTables []).typed = [] := by
  unfold winTables
  simp only [List.map_nil]
  split <;> rfl

theorem psize_of_noWins {wins : List (List Win.Rec)} (hn : noWins wins = true) (i addr : Nat) :
    (((wins.map winTables)[i]?).getD WinTables.empty).psize addr = none := by
  have ht : (((wins.map winTables)[i]?).getD WinTables.empty).typed = [] := by
    rw [List.getElem?_map]
    cases hw : wins[i]? with
    | none => rfl
    | some l =>
      have hl : l = [] := by
        have hm : l ∈ wins := List.mem_of_getElem? hw
        have := List.all_eq_true.mp hn l hm
        simpa using this
      subst hl
      exact winTables_nil_typed
  unfold WinTables.psize
  rw [pick_of_typed_nil _ ht, pick_of_typed_nil _ ht]
  rfl

theorem fillSymbolW_noWins {wins : List (List Win.Rec)} (hn : noWins wins = true) (sf : SymFile)
    (ft : List RangeMap.Entry) (i base instr : Nat) :
    fillSymbolW sf ft (((wins.map winTables)[i]?).getD WinTables.empty) base instr = fillSymbol sf ft base instr := by
  unfold fillSymbolW
  cases hfs : fillSymbol sf ft base instr with
  | none => rfl
  | some fi =>
    simp only
    split
    · rfl
    · split
      · rw [psize_of_noWins hn]; rfl
      · rfl

theorem symbOfW_noWins {w : World} {wins : List (List Win.Rec)} (hn : noWins wins = true)
    (mtbl : List RangeMap.Entry) (ftbls : List (List RangeMap.Entry)) :
    symbOfW w mtbl ftbls (wins.map winTables) = symbOf w mtbl ftbls := by
  funext instr
  simp only [symbOfW, fillSymbolW_noWins hn]
  rfl

/-- the fields of `mkEnvW` other than `get_caller_by_cfi`, without STACK WIN records -/
theorem mkEnvW_fields_noWins (a : Arch) (os : Os) (w : World) (wins : List (List Win.Rec)) (mem : Mem)
    (hn : noWins wins = true) :
    (mkEnvW a os w wins mem).arch = (mkEnv a os w mem).arch ∧ (mkEnvW a os w wins mem).os = (mkEnv a os w mem).os ∧
    (mkEnvW a os w wins mem).instrOk = (mkEnv a os w mem).instrOk ∧
    (mkEnvW a os w wins mem).symb = (mkEnv a os w mem).symb ∧
    (mkEnvW a os w wins mem).mask = (mkEnv a os w mem).mask :=
  ⟨rfl, rfl, rfl, symbOfW_noWins hn _ _, rfl⟩

/-- **off x86, without STACK WIN records, `mkEnvW` is `mkEnv`** -/
theorem mkEnvW_eq_mkEnv {a : Arch} (hx : a ≠ .x86) (os : Os) (w : World) (wins : List (List Win.Rec)) (mem : Mem)
    (hn : noWins wins = true) : mkEnvW a os w wins mem = mkEnv a os w mem := by
  have hcfi : (mkEnvW a os w wins mem).cfi = (mkEnv a os w mem).cfi := by
    funext f g
    rw [mkEnvW_cfi_arch hx]
    rfl
  have hext : ∀ (e1 e2 : Env), e1.arch = e2.arch → e1.os = e2.os → e1.cfi = e2.cfi → e1.instrOk = e2.instrOk →
      e1.symb = e2.symb → e1.mask = e2.mask → e1 = e2 := by
    intro e1 e2 h1 h2 h3 h4 h5 h6
    cases e1; cases e2
    simp only at h1 h2 h3 h4 h5 h6
    subst h1; subst h2; subst h3; subst h4; subst h5; subst h6
    rfl
  exact hext _ _ rfl rfl hcfi rfl (symbOfW_noWins hn _ _) rfl

/-- `walk_layout_mixed` about `mkEnv` (the environment of the `walk` engine and of the
    single-technique theorems): off x86 `PreW` forces `noWins` -/
theorem walk_layout_mixed_mkEnv (a : Arch) (hx : a ≠ .x86) (os : Os) (w : World) (wins : List (List Win.Rec))
    (mem : Mem) (ctx : Ctx) (chain : List Exp)
    (hpre : PreW w wins (mkEnvW a os w wins mem) a os mem ctx chain = true) :
    ∃ frames, walk (mkEnv a os w mem) (some mem) ctx =
        symbolise (mkEnv a os w mem) (Frame.ofCtx ctx .context) :: frames ∧
      All2 (fun fr e => ∃ f', fr = symbolise (mkEnv a os w mem) f' ∧ FrameIsA a (techTrust e) e f')
        frames chain := by
  have hn : noWins wins = true := by
    simp only [PreW, Bool.and_eq_true, Bool.or_eq_true, beq_iff_eq] at hpre
    rcases hpre.1.1.1.1.1.1.2 with h | h
    · exact absurd h hx
    · exact h
  have := walk_layout_mixed a os w wins mem ctx chain hpre
  rw [mkEnvW_eq_mkEnv hx os w wins mem hn] at this
  exact this

/-! ## non-vacuity: one concrete stack per context kind / mode that alternates techniques

  One module `m` at `0x400000` with one FUNC `f` (`0x400010 … 0x40080f`) and ONE canonical STACK CFI
  record covering part of it, so that a return address inside the record is unwound by CFI and one
  outside it by the frame pointer or by scanning. `PreW` is decided on every example
  (`decide +kernel`), `walk_layout_mixed` applied to it, and the model evaluated on it gives the
  generated chain. (Range tables of one entry each: `List.mergeSort` on two or more elements does
  not reduce in the kernel.) -/

/-- little-endian bytes of a `p`-byte word -/
def exLe (p v : Nat) : List UInt8 := (List.range p).map fun i => UInt8.ofNat (v / 256 ^ i % 256)

/-- a stack memory from its words -/
def exMem (base p : Nat) (ws : List Nat) : Mem := { base := base, bytes := (ws.flatMap (exLe p)).toArray }

def exWorld (rule : String) : World :=
  { mods := [{ base := 0x400000, size := 0x1000, name := "m" }],
    syms := [some { funcs := [{ addr := 0x10, size := 0x800, psize := 0, name := "f" }],
                    cfis := [{ addr := 0x100, size := 0x100, init := rule, adds := [] }] }] }

/-! ### x86-64: scan → STACK CFI (after a scanned frame only `rip` / `rsp` are valid) → frame pointer

  The context has an invalid `%rbp`: the first caller is found by scanning (one junk word, then
  `0x400120`). That address is covered by the record `.cfa: $rsp 32 + .ra: .cfa -8 + ^ $rbp: .cfa -16 + ^`:
  the next frame comes from CFI although only `rip` / `rsp` are valid in the callee, and gets a
  valid `%rbp = 0x8040` from the frame. Its caller has no record and is found through the
  frame-pointer record at `0x8040`; the outermost frame's `%rbp` points at `(0, 0)`. -/

def exA64W : World := exWorld ".cfa: $rsp 32 + .ra: .cfa -8 + ^ $rbp: .cfa -16 + ^"
def exA64Mem : Mem := exMem 0x8000 8
  [1, 0x400120, 0, 0, 0x8040, 0x400500, 0, 0, 0x8060, 0x400600, 0, 0, 0, 0, 0, 0]
def exA64Ctx : Ctx := { ip := 0x400300, sp := 0x8000, rest := [("rbp", 0x1234)], valid := some ["rip", "rsp"] }
def exA64Chain : List Exp :=
  [ { ret := 0x400120, sp := 0x8010, fp := none, tech := "scan" },
    { ret := 0x400500, sp := 0x8030, fp := some 0x8040, tech := "cfi" },
    { ret := 0x400600, sp := 0x8050, fp := some 0x8060, tech := "fp" } ]
abbrev exA64Env : Env := mkEnvW .amd64 .other exA64W [[]] exA64Mem

theorem exA64_pre : PreW exA64W [[]] exA64Env .amd64 .other exA64Mem exA64Ctx exA64Chain = true := by
  decide +kernel

example : ∃ frames, walk exA64Env (some exA64Mem) exA64Ctx =
      symbolise exA64Env (Frame.ofCtx exA64Ctx .context) :: frames ∧
    All2 (fun fr e => ∃ f', fr = symbolise exA64Env f' ∧ FrameIsA .amd64 (techTrust e) e f') frames exA64Chain :=
  walk_layout_mixed .amd64 .other exA64W [[]] exA64Mem exA64Ctx exA64Chain exA64_pre

example : (walk exA64Env (some exA64Mem) exA64Ctx).map
      (fun f => (f.trust, f.ctx.ip, f.ctx.sp, f.instruction, f.ctx.get .amd64 "rbp")) =
    [(.context, 0x400300, 0x8000, 0x400300, none), (.scan, 0x400120, 0x8010, 0x40011f, none),
     (.cfi, 0x400500, 0x8030, 0x4004ff, some 0x8040), (.fp, 0x400600, 0x8050, 0x4005ff, some 0x8060)] := by
  decide +kernel

/-! ### x86: STACK WIN → STACK CFI → frame pointer → scan (all four techniques)

  The context frame is covered by a frame-data record (standard prologue program). Its caller
  (`0x400250`) is covered by the STACK CFI record `.cfa: $esp 12 + .ra: .cfa -4 + ^ $ebx: .cfa -8 + ^`
  — reached through `SymbolFile::walk_frame` after STACK WIN yields nothing: `%ebx = 0x99` from the
  frame, `%ebp = 0x8030` forwarded. The next caller has no record and a live `%ebp` (record at
  `0x8030`, saved `%ebp` 0); the last one is found by scanning (one junk word, then `0x400400`). -/

def exX86W : World := exWorld ".cfa: $esp 12 + .ra: .cfa -4 + ^ $ebx: .cfa -8 + ^"
def exX86Wins : List (List Win.Rec) :=
  [[{ ty := '4', addr := 0x10, size := 0x80, par := 0, sav := 0, loc := 8, hp := '1',
      rest := "$T0 $ebp = $eip $T0 4 + ^ = $ebp $T0 ^ = $esp $T0 8 + =".toList }]]
def exX86Mem : Mem := exMem 0x8000 4
  [0, 0, 0, 0, 0x8030, 0x400150, 0, 0x99, 0x400900, 0, 0, 0, 0, 0x400a00, 1, 0x400400, 0, 0, 0, 0]
def exX86Ctx : Ctx := { ip := 0x400050, sp := 0x8000, rest := [("ebp", 0x8010), ("ebx", 7)] }
def exX86Chain : List Exp :=
  [ { ret := 0x400150, sp := 0x8018, fp := some 0x8030, tech := "win" },
    { ret := 0x400900, sp := 0x8024, fp := some 0x8030, tech := "cfi", regs := [("ebx", 0x99)] },
    { ret := 0x400a00, sp := 0x8038, fp := some 0, tech := "fp" },
    { ret := 0x400400, sp := 0x8040, fp := none, tech := "scan" } ]
abbrev exX86Env : Env := mkEnvW .x86 .windows exX86W exX86Wins exX86Mem

theorem exX86_pre : PreW exX86W exX86Wins exX86Env .x86 .windows exX86Mem exX86Ctx exX86Chain = true := by
  decide +kernel

example : ∃ frames, walk exX86Env (some exX86Mem) exX86Ctx =
      symbolise exX86Env (Frame.ofCtx exX86Ctx .context) :: frames ∧
    All2 (fun fr e => ∃ f', fr = symbolise exX86Env f' ∧ FrameIs (techTrust e) e f') frames exX86Chain :=
  walk_layout_mixed_x86 .windows exX86W exX86Wins exX86Mem exX86Ctx exX86Chain exX86_pre

example : (walk exX86Env (some exX86Mem) exX86Ctx).map
      (fun f => (f.trust, f.ctx.ip, f.ctx.sp, f.ctx.get .x86 "ebp", f.ctx.get .x86 "ebx")) =
    [(.context, 0x400050, 0x8000, some 0x8010, some 7), (.cfi, 0x400150, 0x8018, some 0x8030, some 7),
     (.cfi, 0x400900, 0x8024, some 0x8030, some 0x99), (.fp, 0x400a00, 0x8038, some 0, none),
     (.scan, 0x400400, 0x8040, none, none)] := by
  decide +kernel

/-! ### ARM64 (both context layouts): frame pointer → STACK CFI → scan — the F28 stack

  The context frame is found … by the frame-pointer record at `0x8010`, which leaves `x29` (the
  ALIAS name) in the validity set. Its caller `0x400120` is covered by
  `.cfa: sp 32 + .ra: .cfa -8 + ^ x19: .cfa -16 + ^`: `x19 = 0x1234` from the frame, the frame pointer
  (0, recorded as `x29`) is FORWARDED through the CFI frame (before the fix of F28 it was dropped),
  the ptr-auth bits of the return-address word are stripped. The frame above has a zero frame
  pointer and is found by scanning. -/

def exArm64W : World := exWorld ".cfa: sp 32 + .ra: .cfa -8 + ^ x19: .cfa -16 + ^"
def exArm64Mem : Mem := exMem 0x8000 8
  [0, 0, 0, 0x400120, 0, 0, 0x1234, 0x00a5000000400500, 1, 0x400600, 0, 0, 0, 0]
def exArm64Ctx : Ctx :=
  { ip := 0x400300, sp := 0x8000, rest := [("fp", 0x8010), ("x19", 7)], valid := some ["pc", "sp", "fp", "x19"] }
def exArm64Chain : List Exp :=
  [ { ret := 0x400120, sp := 0x8020, fp := some 0, tech := "fp" },
    { ret := 0x400500, sp := 0x8040, fp := some 0, tech := "cfi", regs := [("x19", 0x1234)] },
    { ret := 0x400600, sp := 0x8050, fp := none, tech := "scan" } ]

theorem exArm64_pre : ∀ a ∈ [Arch.arm64, Arch.arm64old],
    PreW exArm64W [[]] (mkEnvW a .other exArm64W [[]] exArm64Mem) a .other exArm64Mem exArm64Ctx exArm64Chain = true := by
  decide +kernel

example : ∀ a ∈ [Arch.arm64, Arch.arm64old],
    ∃ frames, walk (mkEnvW a .other exArm64W [[]] exArm64Mem) (some exArm64Mem) exArm64Ctx =
      symbolise (mkEnvW a .other exArm64W [[]] exArm64Mem) (Frame.ofCtx exArm64Ctx .context) :: frames ∧
    All2 (fun fr e => ∃ f', fr = symbolise (mkEnvW a .other exArm64W [[]] exArm64Mem) f' ∧
      FrameIsA a (techTrust e) e f') frames exArm64Chain :=
  fun a ha => walk_layout_mixed a .other exArm64W [[]] exArm64Mem exArm64Ctx exArm64Chain (exArm64_pre a ha)

example : (walk (mkEnvW .arm64 .other exArm64W [[]] exArm64Mem) (some exArm64Mem) exArm64Ctx).map
      (fun f => (f.trust, f.ctx.ip, f.ctx.sp, f.ctx.get .arm64 "fp", f.ctx.get .arm64 "x19")) =
    [(.context, 0x400300, 0x8000, some 0x8010, some 7), (.fp, 0x400120, 0x8020, some 0, none),
     (.cfi, 0x400500, 0x8040, some 0, some 0x1234), (.scan, 0x400600, 0x8050, none, none)] := by
  decide +kernel

example : (walk (mkEnvW .arm64old .other exArm64W [[]] exArm64Mem) (some exArm64Mem) exArm64Ctx).map
      (fun f => (f.trust, f.ctx.ip, f.ctx.sp, f.ctx.get .arm64old "fp", f.ctx.get .arm64old "x19")) =
    [(.context, 0x400300, 0x8000, some 0x8010, some 7), (.fp, 0x400120, 0x8020, some 0, none),
     (.cfi, 0x400500, 0x8040, some 0, some 0x1234), (.scan, 0x400600, 0x8050, none, none)] := by
  decide +kernel

/-! ### ARM on iOS: scan → STACK CFI → frame pointer; the walk ends on a zero frame pointer -/

def exArmW : World := exWorld ".cfa: sp 16 + .ra: .cfa -4 + ^ fp: .cfa -8 + ^"
def exArmMem : Mem := exMem 0x8000 4
  [1, 0x400120, 0, 0, 0x8020, 0x400500, 0, 0, 0, 0x400600, 0, 0, 0, 0]
def exArmCtx : Ctx := { ip := 0x400300, sp := 0x8000, rest := [("fp", 0x4321)], valid := some ["pc", "sp"] }
def exArmChain : List Exp :=
  [ { ret := 0x400120, sp := 0x8008, fp := none, tech := "scan" },
    { ret := 0x400500, sp := 0x8018, fp := some 0x8020, tech := "cfi" },
    { ret := 0x400600, sp := 0x8028, fp := some 0, tech := "fp" } ]
abbrev exArmEnv : Env := mkEnvW .arm .ios exArmW [[]] exArmMem

theorem exArm_pre : PreW exArmW [[]] exArmEnv .arm .ios exArmMem exArmCtx exArmChain = true := by
  decide +kernel

example : ∃ frames, walk exArmEnv (some exArmMem) exArmCtx =
      symbolise exArmEnv (Frame.ofCtx exArmCtx .context) :: frames ∧
    All2 (fun fr e => ∃ f', fr = symbolise exArmEnv f' ∧ FrameIsA .arm (techTrust e) e f') frames exArmChain :=
  walk_layout_mixed .arm .ios exArmW [[]] exArmMem exArmCtx exArmChain exArm_pre

example : (walk exArmEnv (some exArmMem) exArmCtx).map
      (fun f => (f.trust, f.ctx.ip, f.ctx.sp, f.instruction, f.ctx.get .arm "fp")) =
    [(.context, 0x400300, 0x8000, 0x400300, none), (.scan, 0x400120, 0x8008, 0x40011e, none),
     (.cfi, 0x400500, 0x8018, 0x4004fe, some 0x8020), (.fp, 0x400600, 0x8028, 0x4005fe, some 0)] := by
  decide +kernel

/-! ### MIPS32 and MIPS64: scan → STACK CFI → scan (MIPS32: the 4-word skip hides `0x400708`) -/

def exM32W : World := exWorld ".cfa: $sp 16 + .ra: .cfa -4 + ^ $s0: .cfa -8 + ^"
def exM32Mem : Mem := exMem 0x8000 4
  [1, 0x400128, 0, 0, 0x77, 0x400508, 0x400708, 0, 0, 0, 0x400608, 0, 0, 0, 0]
def exM32Ctx : Ctx := { ip := 0x400300, sp := 0x8000, rest := [("s0", 9)], valid := some ["pc", "sp", "s0"] }
def exM32Chain : List Exp :=
  [ { ret := 0x400128, sp := 0x8008, fp := none, tech := "scan" },
    { ret := 0x400508, sp := 0x8018, fp := none, tech := "cfi", regs := [("s0", 0x77)] },
    { ret := 0x400608, sp := 0x802c, fp := none, tech := "scan" } ]
abbrev exM32Env : Env := mkEnvW .mips32 .other exM32W [[]] exM32Mem

theorem exM32_pre : PreW exM32W [[]] exM32Env .mips32 .other exM32Mem exM32Ctx exM32Chain = true := by
  decide +kernel

example : ∃ frames, walk exM32Env (some exM32Mem) exM32Ctx =
      symbolise exM32Env (Frame.ofCtx exM32Ctx .context) :: frames ∧
    All2 (fun fr e => ∃ f', fr = symbolise exM32Env f' ∧ FrameIsA .mips32 (techTrust e) e f') frames exM32Chain :=
  walk_layout_mixed .mips32 .other exM32W [[]] exM32Mem exM32Ctx exM32Chain exM32_pre

example : (walk exM32Env (some exM32Mem) exM32Ctx).map
      (fun f => (f.trust, f.ctx.ip, f.ctx.sp, f.instruction, f.ctx.get .mips32 "s0")) =
    [(.context, 0x400300, 0x8000, 0x400300, some 9), (.scan, 0x400128, 0x8008, 0x400120, none),
     (.cfi, 0x400508, 0x8018, 0x400500, some 0x77), (.scan, 0x400608, 0x802c, 0x400600, none)] := by
  decide +kernel

def exM64W : World := exWorld ".cfa: $sp 32 + .ra: .cfa -8 + ^ $s0: .cfa -16 + ^"
def exM64Mem : Mem := exMem 0x8000 8
  [1, 0x400128, 0, 0, 0x77, 0x400508, 2, 0x400608, 0, 0, 0, 0]
def exM64Ctx : Ctx :=
  { ip := 0x400300, sp := 0x8000, rest := [("s0", 9)], valid := some ["pc", "sp", "s0"], m64 := true }
def exM64Chain : List Exp :=
  [ { ret := 0x400128, sp := 0x8010, fp := none, tech := "scan" },
    { ret := 0x400508, sp := 0x8030, fp := none, tech := "cfi", regs := [("s0", 0x77)] },
    { ret := 0x400608, sp := 0x8040, fp := none, tech := "scan" } ]
abbrev exM64Env : Env := mkEnvW .mips64 .other exM64W [[]] exM64Mem

theorem exM64_pre : PreW exM64W [[]] exM64Env .mips64 .other exM64Mem exM64Ctx exM64Chain = true := by
  decide +kernel

example : ∃ frames, walk exM64Env (some exM64Mem) exM64Ctx =
      symbolise exM64Env (Frame.ofCtx exM64Ctx .context) :: frames ∧
    All2 (fun fr e => ∃ f', fr = symbolise exM64Env f' ∧ FrameIsA .mips64 (techTrust e) e f') frames exM64Chain :=
  walk_layout_mixed .mips64 .other exM64W [[]] exM64Mem exM64Ctx exM64Chain exM64_pre

example : (walk exM64Env (some exM64Mem) exM64Ctx).map
      (fun f => (f.trust, f.ctx.ip, f.ctx.sp, f.instruction, f.ctx.get .mips64 "s0")) =
    [(.context, 0x400300, 0x8000, 0x400300, some 9), (.scan, 0x400128, 0x8010, 0x400120, none),
     (.cfi, 0x400508, 0x8030, 0x400500, some 0x77), (.scan, 0x400608, 0x8040, 0x400600, none)] := by
  decide +kernel

/-! ## discharging a precondition once: the generator's frame-pointer layout on x86-64

  `Pre` / `PreW` are evaluated by the compiled model on every generated case. For ONE technique —
  frame-pointer chains on x86-64 (not Windows), generator `gen_chain` with `tech = "fp"` — the
  layout is mirrored as a Lean function (`fpWords` / `fpChain`, Lemmas/WalkMixedLayout.lean:
  context `rsp = addr s0`, `rbp = addr f0`; per call a record `w[f] = addr f'`, `w[f+1] = ret`,
  `f' = f + 2 + gap`; the outermost record `(0, 0)`, zero words after it) and `preFp` is PROVED of
  it for all parameters (`preFp_layout`). With `walk_layout_fp` the generated chain itself is a
  theorem about the layout function — no per-case evaluation. -/

/-- **every frame-pointer stack the layout function produces is walked to its chain**: any base
    above 16 keeping 32 bytes clear of the top of the address space, any word positions `s0 ≤ f0`
    of the context's `rsp` / `rbp`, any number of calls with any gaps between the records, any
    canonical return addresses `≥ 4096`, any amount of trailing zeros; any environment without
    STACK CFI / STACK WIN for these frames; any other registers of the context -/
theorem walk_layout_fp_generated (env : Env) (harch : env.arch = .amd64) (hos : env.os ≠ .windows)
    (hcfi : NoCfi env) (base s0 f0 tail : Nat) (calls : List (Nat × Nat)) (ip : Nat)
    (hbase : 16 < base) (hs : s0 ≤ f0)
    (htop : base + 8 * (fpWords base f0 tail calls).length + 32 ≤ U64MAX)
    (hrets : ∀ c ∈ calls, 4096 ≤ c.2 ∧ c.2 ≤ U64MAX ∧ nonCanonAmd64 c.2 = false) :
    walk env (some (wordsMem base (fpWords base f0 tail calls)))
        { ip := ip, sp := wAddr base s0, rest := [("rbp", wAddr base f0)] } =
      symbolise env (Frame.ofCtx { ip := ip, sp := wAddr base s0, rest := [("rbp", wAddr base f0)] } .context) ::
        expectedFp env .amd64 (fpChain base f0 calls) := by
  have hlen : 3 ≤ (fpWords base f0 tail calls).length := by
    simp only [fpWords, List.length_append, List.length_replicate, fpTail_length]
    have := fpEnd_ge calls f0
    omega
  have hm : (wordsMem base (fpWords base f0 tail calls)).range?.isSome = true := by
    have hU : U64MAX = 18446744073709551615 := rfl
    have hb : (wordsMem base (fpWords base f0 tail calls)).base = base := rfl
    simp only [Mem.range?, wordsMem_size, hb]
    rw [if_neg (by omega), if_neg (by omega)]
    rfl
  exact walk_layout_fp env .amd64 harch rfl (fun _ => hos) hcfi _ hm _ rfl rfl _
    (preFp_layout env.os hos env.mask base s0 f0 tail calls hbase hs htop hrets)

-- non-vacuity: the layout for two calls (gaps 1 and 0) is the hand-written stack one would expect,
-- and the hypotheses of `walk_layout_fp_generated` hold of it
example : fpWords 0x8000 2 1 [(1, 0x400120), (0, 0x400500)] =
    [0, 0, 0x8028, 0x400120, 0, 0x8038, 0x400500, 0, 0, 0, 0] := by decide
example : (fpChain 0x8000 2 [(1, 0x400120), (0, 0x400500)]).map (fun e => (e.ret, e.sp, e.fp)) =
    [(0x400120, 0x8020, some 0x8028), (0x400500, 0x8038, some 0x8038)] := by
  decide
example : preFp .amd64 .other 0 (wordsMem 0x8000 (fpWords 0x8000 2 1 [(1, 0x400120), (0, 0x400500)]))
    (wAddr 0x8000 1) (wAddr 0x8000 2) (fpChain 0x8000 2 [(1, 0x400120), (0, 0x400500)]) = true :=
  preFp_layout .other (by decide) 0 0x8000 1 2 1 _ (by decide) (by decide) (by decide) (by decide)

end MdModel.Walk
