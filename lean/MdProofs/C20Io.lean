/-
  C20 — writers and files. Theorems about `MdModel.Cli.run` (main.rs:274-523 as a state machine over
  a file system, standard output and the diagnostics), for ALL initial file-system states, report byte
  strings, logged-diagnostic renderings and failure points (size limits / failing sinks).

  Property text decided here:
    "… exits with status 0 having written to its primary output exactly the report the library
     produces for the same options (…; the combined mode writes both; an output file receives what
     standard output would), or exits with status 1 with a diagnostic on standard error and nothing
     on the primary output. It never ends by panic, abort or signal …"
-/
import MdProofs.Lemmas.CliIo
namespace MdModel.Cli

variable (render : Diag → Bytes) (cfg : Cfg) (inp : Input) (reps : Reports) (w : World)

/-- **C20.io.1** "an output file receives …": on status 0 the file named by `--output-file` holds
    EXACTLY the bytes the options prescribe for the primary output — whatever the path held before
    (`Regular`: an existing regular file of any content and length, or a creatable name): nothing of a
    pre-existing longer file survives. Side conditions: the path is not also the `--log-file` or the
    `--cyborg` path (see `same_path_clobbers` for what happens then). -/
theorem output_file_exact (p : Path)
    (hp : cfg.outputFile = some p) (hreg : Regular w.fs p) (hlog : cfg.logFile ≠ some p)
    (hcy : cfg.flags.cyborg = true → cfg.cyborgPath ≠ p) (hmd : cfg.helpMarkdown = false)
    (h0 : (run render cfg inp reps w).exit = 0) :
    (run render cfg inp reps w).world.fs.entry p = .file (primaryBytes cfg.flags reps) := by
  obtain ⟨hgrp, _, w0, lg, hlo, hrun⟩ := run_exit0_stages render cfg inp reps w hmd h0
  rw [hrun] at h0 ⊢
  obtain ⟨_, _, _, _, hent, _⟩ := openOpt_some hlo
  have hreg0 : Regular w0.fs p := regular_of_entry_eq (hent p hlog) hreg
  exact (emitReports_file_exit0 render cfg inp reps lg w0 p hp hreg0 hcy hgrp h0).1

/-- **C20.io.2** … and without `--output-file`, an unbounded standard output that starts empty has
    received exactly the same prescription on status 0. -/
theorem stdout_exact
    (hp : cfg.outputFile = none) (hs : w.stdout.cap = none) (he : w.stdout.out = [] ∧ w.stdout.buf = [])
    (hmd : cfg.helpMarkdown = false) (h0 : (run render cfg inp reps w).exit = 0) :
    (run render cfg inp reps w).world.stdout.out = primaryBytes cfg.flags reps := by
  obtain ⟨hgrp, _, w0, lg, hlo, hrun⟩ := run_exit0_stages render cfg inp reps w hmd h0
  rw [hrun] at h0 ⊢
  obtain ⟨hso, _, _, _, _, _⟩ := openOpt_some hlo
  have hs0 : w0.stdout.Healthy := by rw [Stdout.Healthy, hso]; exact hs
  rw [(emitReports_stdout_healthy_exit0 render cfg inp reps lg w0 hp hs0 hgrp h0).1]
  simp [Stdout.total, hso, he.1, he.2]

/-- **C20.io.3** `output_file_receives_stdout_bytes`: run the same command line once with
    `--output-file p` and once without (standard output unbounded and initially empty), in ANY two
    worlds: if both exit with status 0, the final content of `p` is byte for byte what standard
    output received. -/
theorem output_file_receives_stdout_bytes (p : Path) (w' : World)
    (hp : cfg.outputFile = some p) (hreg : Regular w.fs p) (hlog : cfg.logFile ≠ some p)
    (hcy : cfg.flags.cyborg = true → cfg.cyborgPath ≠ p) (hmd : cfg.helpMarkdown = false)
    (hs : w'.stdout.cap = none) (he : w'.stdout.out = [] ∧ w'.stdout.buf = [])
    (h0 : (run render cfg inp reps w).exit = 0)
    (h0' : (run render { cfg with outputFile := none } inp reps w').exit = 0) :
    (run render cfg inp reps w).world.fs.entry p
      = .file (run render { cfg with outputFile := none } inp reps w').world.stdout.out := by
  rw [output_file_exact render cfg inp reps w p hp hreg hlog hcy hmd h0,
    stdout_exact render { cfg with outputFile := none } inp reps w' rfl hs he hmd h0']

/-- **C20.io.4** `cyborg_split` ("the combined mode writes both … The --human output will be the
    'primary' output"): on status 0 with `--cyborg c`, the file `c` holds exactly the JSON report
    (pretty iff `--pretty`), whatever it held before, and the primary output — a regular
    `--output-file`, or an unbounded standard output — holds exactly the human report (brief iff
    `--brief`) and no JSON byte. (With a standard output that fails with a broken pipe the tool exits 0
    WITHOUT having written the JSON file: `broken_pipe_is_silent_success`.) -/
theorem cyborg_split
    (hc : cfg.flags.cyborg = true) (hrc : Regular w.fs cfg.cyborgPath)
    (hlog : cfg.logFile ≠ some cfg.cyborgPath) (hmd : cfg.helpMarkdown = false)
    (h0 : (run render cfg inp reps w).exit = 0) :
    primaryBytes cfg.flags reps = (humanRep cfg.flags reps).bytes ∧
    (∀ p, cfg.outputFile = some p → Regular w.fs p → cfg.logFile ≠ some p → cfg.cyborgPath ≠ p →
      (run render cfg inp reps w).world.fs.entry p = .file (humanRep cfg.flags reps).bytes ∧
      (run render cfg inp reps w).world.fs.entry cfg.cyborgPath = .file (jsonRep cfg.flags reps).bytes) ∧
    (cfg.outputFile = none → w.stdout.cap = none → w.stdout.out = [] ∧ w.stdout.buf = [] →
      (run render cfg inp reps w).world.stdout.out = (humanRep cfg.flags reps).bytes ∧
      (run render cfg inp reps w).world.fs.entry cfg.cyborgPath = .file (jsonRep cfg.flags reps).bytes) := by
  obtain ⟨hgrp, _, w0, lg, hlo, hrun⟩ := run_exit0_stages render cfg inp reps w hmd h0
  obtain ⟨hso, _, _, _, hent, _⟩ := openOpt_some hlo
  have hrc0 : Regular w0.fs cfg.cyborgPath := regular_of_entry_eq (hent _ hlog) hrc
  have hpb : primaryBytes cfg.flags reps = (humanRep cfg.flags reps).bytes := by
    have hd : cfg.flags.dump = false := by
      cases hdd : cfg.flags.dump with
      | false => rfl
      | true => have := not_dump_and_cyborg hgrp hdd; rw [hc] at this; cases this
    simp [primaryBytes, hd, humanOn, jsonOn, hc]
  refine ⟨hpb, ?_, ?_⟩
  · intro p hp hreg hlogp hne
    refine ⟨?_, ?_⟩
    · rw [← hpb]
      exact output_file_exact render cfg inp reps w p hp hreg hlogp (fun _ => hne) hmd h0
    · rw [hrun] at h0 ⊢
      have hreg0 : Regular w0.fs p := regular_of_entry_eq (hent p hlogp) hreg
      exact (emitReports_file_exit0 render cfg inp reps lg w0 p hp hreg0 (fun _ => hne) hgrp h0).2 hc hrc0
  · intro hp hs he
    refine ⟨?_, ?_⟩
    · rw [← hpb]
      exact stdout_exact render cfg inp reps w hp hs he hmd h0
    · rw [hrun] at h0 ⊢
      have hs0 : w0.stdout.Healthy := by rw [Stdout.Healthy, hso]; exact hs
      exact (emitReports_stdout_healthy_exit0 render cfg inp reps lg w0 hp hs0 hgrp h0).2 hc hrc0

/-- **C20.io.5** `failure_no_report` — what the code really guarantees for "… or exits with status 1 …
    and nothing on the primary output", stated exactly. After ANY status other than 0 (no
    `--help-markdown`):
    * standard output as primary (unbounded, initially empty): it received NOTHING — or, in cyborg
      mode only, the COMPLETE human report (the JSON write to the cyborg file failed afterwards);
    * `--output-file p` as primary: `p` was not touched at all (the failure came before its creation:
      rejected options, log file, unreadable dump, cyborg file not creatable), or it was TRUNCATED and
      holds a prefix of the due bytes; when `p` is not size-limited that prefix is empty — the old
      content is gone — or, in cyborg mode only, the complete human report.
    So the property's "nothing on the primary output" holds for every failure of the options, the
    input, the creation of a file and the processing, and FAILS in exactly one situation with healthy
    primary: `--cyborg` whose own file cannot take the JSON report (`cyborg_write_failure_leaves_report`
    exhibits it). A primary that fails itself keeps the bytes it accepted before failing. -/
theorem failure_no_report (hmd : cfg.helpMarkdown = false)
    (hne : (run render cfg inp reps w).exit ≠ 0) :
    (cfg.outputFile = none → w.stdout.cap = none → w.stdout.out = [] ∧ w.stdout.buf = [] →
      (run render cfg inp reps w).world.stdout.out = [] ∨
      (cfg.flags.cyborg = true ∧
        (run render cfg inp reps w).world.stdout.out = (humanRep cfg.flags reps).bytes)) ∧
    (∀ p, cfg.outputFile = some p → Regular w.fs p → cfg.logFile ≠ some p →
      (cfg.flags.cyborg = true → cfg.cyborgPath ≠ p) →
      (run render cfg inp reps w).world.fs.entry p = w.fs.entry p ∨
      ∃ k, (run render cfg inp reps w).world.fs.entry p = .file ((primaryBytes cfg.flags reps).take k) ∧
        (w.fs.limit p = none →
          k = 0 ∨ (cfg.flags.cyborg = true ∧
            (primaryBytes cfg.flags reps).take k = (humanRep cfg.flags reps).bytes))) := by
  rcases run_cases render cfg inp reps w hmd with ⟨c, w', _, hrun, hso, hent⟩ | ⟨w0, lg, hlo, _, _, hrun⟩
  · rw [hrun]
    refine ⟨?_, ?_⟩
    · intro _ hs he
      left
      rw [finish_stdout, hso, stdout_atExit_healthy _ hs]; simp [he.1, he.2]
    · intro p _ _ hlog _
      left
      rw [finish_fs]; exact hent p hlog
  · rw [hrun] at hne ⊢
    obtain ⟨hso, _, hlim, hlg, hent, _⟩ := openOpt_some hlo
    refine ⟨?_, ?_⟩
    · intro hp hs he
      have hs0 : w0.stdout.Healthy := by rw [Stdout.Healthy, hso]; exact hs
      have ht : w0.stdout.total = [] := by simp [Stdout.total, hso, he.1, he.2]
      rcases emitReports_stdout_healthy_fail render cfg inp reps lg w0 hp hs0 hne with h | ⟨hc, _, h⟩
      · left; rw [h, ht]
      · right; exact ⟨hc, by rw [h, ht]; rfl⟩
    · intro p hp hreg hlog hcy
      have hreg0 : Regular w0.fs p := regular_of_entry_eq (hent p hlog) hreg
      have hlgp : ∀ g, lg = some g → g.path ≠ p := by
        intro g hg
        rw [hlg] at hg
        cases hlf : cfg.logFile with
        | none => rw [hlf] at hg; simp at hg
        | some x =>
          rw [hlf] at hg hlog; simp at hg
          rw [← hg]; simpa using hlog
      rcases emitReports_file_any render cfg inp reps lg w0 p hp hreg0 hcy hlgp with h | ⟨k, h1, h2⟩
      · left; rw [h]; exact hent p hlog
      · right
        exact ⟨k, h1, fun hl => h2 hne (by rw [hlim]; exact hl)⟩

/-- **C20.io.6** `exit_status_table`, part 1: the only statuses are 0, 1, 2 and 101; 2 is exactly clap's
    refusal of two output formats; 101 (a panic: `.expect("help-markdown failed")`) needs the hidden
    `--help-markdown` AND a standard output that fails. -/
theorem exit_status_table :
    ((run render cfg inp reps w).exit = 0 ∨ (run render cfg inp reps w).exit = 1 ∨
     (run render cfg inp reps w).exit = 2 ∨ (run render cfg inp reps w).exit = 101) ∧
    ((run render cfg inp reps w).exit = 2 ↔ groupCount cfg.flags + b2n cfg.helpMarkdown > 1) ∧
    ((run render cfg inp reps w).exit = 101 → cfg.helpMarkdown = true ∧ w.stdout.cap ≠ none) := by
  unfold run
  by_cases hg : groupCount cfg.flags + b2n cfg.helpMarkdown > 1
  · simp [hg]
  · simp only [hg, if_false, iff_false]
    cases hlo : openOpt w cfg.logFile with
    | none => simp
    | some r =>
      obtain ⟨w0, lg⟩ := r
      obtain ⟨hso, _⟩ := openOpt_some hlo
      simp only
      by_cases hmd : cfg.helpMarkdown = true
      · simp only [hmd, if_true]
        cases he : (w0.stdout.write reps.helpMd).2 with
        | none => simp
        | some k =>
          simp only [finish_exit, true_and]
          refine ⟨by simp, by simp, fun _ hcap => ?_⟩
          have hs0 : w0.stdout.Healthy := by rw [Stdout.Healthy, hso]; exact hcap
          rw [(stdout_write_healthy w0.stdout reps.helpMd hs0).1] at he
          cases he
      · have hmd' : cfg.helpMarkdown = false := by simpa using hmd
        simp only [hmd', Bool.false_eq_true, if_false]
        split
        · simp
        · split
          · simp
          · cases inp with
            | unreadable => simp
            | unprocessable =>
              rcases emitReports_exit_mem render cfg .unprocessable reps (humanOn cfg.flags) (jsonOn cfg.flags) lg w0
                with h | h <;> simp [h]
            | ok =>
              rcases emitReports_exit_mem render cfg .ok reps (humanOn cfg.flags) (jsonOn cfg.flags) lg w0
                with h | h <;> simp [h]

/-- **C20.io.7** `exit_status_table`, part 2: when nothing in the world fails (`Healthy`), the status is
    the decision table's (`cli`, proved equal to the documented `spec` in C20.1): 2 for two formats,
    1 for `--pretty` without JSON / `--brief` with JSON alone / an unreadable file / an
    unprocessable file outside `--dump`, else 0 — and 1 for `--use-local-debuginfo` on a dump of a CPU
    the debuginfo provider does not support (`localUnsupported`, outside `--dump`). -/
theorem exit_status_healthy (hmd : cfg.helpMarkdown = false) (hw : Healthy cfg w) :
    (run render cfg inp reps w).exit
      = if exitOf cfg.flags inp = 0 ∧ cfg.flags.dump = false ∧ cfg.localUnsupported = true then 1
        else exitOf cfg.flags inp := by
  rw [exitOf_eq]
  unfold run
  simp only [hmd, b2n, Bool.false_eq_true, if_false, Nat.add_zero]
  by_cases hg : groupCount cfg.flags > 1
  · simp [hg]
  · simp only [hg, if_false]
    have hopen : ∃ w0 lg, openOpt w cfg.logFile = some (w0, lg) ∧ w0.stdout = w.stdout ∧
        (∀ p, Regular w.fs p → Regular w0.fs p) ∧ w0.fs.limit = w.fs.limit := by
      cases hl : cfg.logFile with
      | none => exact ⟨w, none, rfl, rfl, fun _ h => h, rfl⟩
      | some l =>
        have hr := hw.log l hl
        refine ⟨{ w with fs := w.fs.set l (.file []) }, some ⟨l, 0⟩, ?_, rfl, ?_, rfl⟩
        · simp [openOpt, create_regular hr]
        · intro p hp; exact regular_set_file _ _ _ _ hp
    obtain ⟨w0, lg, hlo, hso, hreg, hlim⟩ := hopen
    rw [hlo]
    simp only
    split
    · simp
    · split
      · simp
      · have he := emitReports_healthy_exit render cfg inp reps (humanOn cfg.flags) (jsonOn cfg.flags) lg w0
          (by rw [hso]; exact hw.stdout)
          (fun hc => ⟨hreg _ (hw.cyborg hc).1, by rw [hlim]; exact (hw.cyborg hc).2⟩)
          (fun p hp => ⟨hreg _ (hw.output p hp).1, by rw [hlim]; exact (hw.output p hp).2⟩)
        cases inp with
        | unreadable => simp
        | unprocessable =>
          simp only [he]
          cases cfg.flags.dump <;> simp
        | ok =>
          simp only [he]
          cases cfg.flags.dump <;> cases cfg.localUnsupported <;> simp

/-- **C20.io.8 (finding D1)** `--cyborg <file that cannot take the JSON report>` (`/dev/full`, a full
    disk): the tool writes the COMPLETE human report to standard output and THEN exits with status 1
    and `Error: …` — "status 1 … and nothing on the primary output" is false here. For every human and
    non-empty JSON report. -/
theorem cyborg_write_failure_leaves_report
    (hg : groupCount cfg.flags ≤ 1) (hc : cfg.flags.cyborg = true) (hmd : cfg.helpMarkdown = false)
    (hlu : cfg.localUnsupported = false) (hlog : cfg.logFile = none) (hout : cfg.outputFile = none)
    (hfull : w.fs.entry cfg.cyborgPath = .full) (hj : (jsonRep cfg.flags reps).bytes ≠ [])
    (hs : w.stdout.cap = none) (he : w.stdout.out = [] ∧ w.stdout.buf = []) :
    (run render cfg .ok reps w).exit = 1 ∧
    (run render cfg .ok reps w).world.stdout.out = (humanRep cfg.flags reps).bytes ∧
    (run render cfg .ok reps w).world.stderr = w.stderr ++ [.ioError] := by
  obtain ⟨hh, hjs, hd⟩ := cyborg_only hg hc
  have hgn : ¬ groupCount cfg.flags > 1 := by omega
  have hcreate : w.fs.create cfg.cyborgPath = some (w.fs, ⟨cfg.cyborgPath, 0⟩) := by
    unfold Fs.create; rw [hfull]
  have hwr : ∀ bs : Bytes, bs ≠ [] → (w.fs.write ⟨cfg.cyborgPath, 0⟩ bs) = (w.fs, ⟨cfg.cyborgPath, 0⟩, false) := by
    intro bs hbs
    unfold Fs.write
    simp only [hfull]
    cases bs with
    | nil => exact absurd rfl hbs
    | cons => rfl
  obtain ⟨hwe, hwh, hwt⟩ := stdout_write_healthy w.stdout (humanRep cfg.flags reps) hs
  have hwt' : (w.stdout.write (humanRep cfg.flags reps)).1.out ++ (w.stdout.write (humanRep cfg.flags reps)).1.buf
      = (humanRep cfg.flags reps).bytes := by rw [hwt]; simp [he.1, he.2]
  simp only [run, hmd, b2n, hgn, hlog, openOpt, humanOn, jsonOn, hc, hd, hout, emitReports, openPrimary,
    afterOpen, writeReports, writeJson, emitIf, emit_stdout, hwe, emitFile, hcreate, hlu, doneThen,
    hwr _ hj, Bool.false_eq_true, if_false, if_true, Nat.add_zero, Bool.not_true, Bool.and_false,
    Bool.true_or, Bool.not_false]
  refine ⟨rfl, ?_, rfl⟩
  show ((w.stdout.write (humanRep cfg.flags reps)).1.atExit).out = _
  rw [stdout_atExit_healthy _ hwh, hwt']

/-- **C20.io.9 (finding D2)** the same path for `--cyborg` and `--output-file`: both `File::create`
    calls succeed, the two descriptors write from offset 0 over each other, and the tool exits with
    status 0. The file ends up holding the JSON report followed by whatever of the human report is
    longer than it — NOT "what standard output would" have received (the human report). -/
theorem same_path_clobbers (p : Path)
    (hg : groupCount cfg.flags ≤ 1) (hc : cfg.flags.cyborg = true) (hmd : cfg.helpMarkdown = false)
    (hlu : cfg.localUnsupported = false)
    (hlog : cfg.logFile = none) (hout : cfg.outputFile = some p) (hcp : cfg.cyborgPath = p)
    (hreg : Regular w.fs p) (hlim : w.fs.limit p = none)
    (hh : (humanRep cfg.flags reps).bytes ≠ []) (hj : (jsonRep cfg.flags reps).bytes ≠ []) :
    (run render cfg .ok reps w).exit = 0 ∧
    (run render cfg .ok reps w).world.fs.entry p
      = .file ((jsonRep cfg.flags reps).bytes ++
          (humanRep cfg.flags reps).bytes.drop (jsonRep cfg.flags reps).bytes.length) := by
  obtain ⟨_, _, hd⟩ := cyborg_only hg hc
  have hgn : ¬ groupCount cfg.flags > 1 := by omega
  have hc1 := create_regular hreg
  have hreg2 : Regular (w.fs.set p (.file [])) p := Or.inl ⟨[], by simp⟩
  have hc2 := create_regular hreg2
  have hw1 := write_file_unlimited ((w.fs.set p (.file [])).set p (.file [])) ⟨p, 0⟩ [] _ (by simp) hlim hh
  have hw2 := write_file_unlimited
    (((w.fs.set p (.file [])).set p (.file [])).set p (.file (writeAt [] 0 (humanRep cfg.flags reps).bytes)))
    ⟨p, 0⟩ (writeAt [] 0 (humanRep cfg.flags reps).bytes) _ (by simp) hlim hj
  simp only [run, hmd, b2n, hgn, hlog, openOpt, humanOn, jsonOn, hc, hd, hout, hcp, emitReports, openPrimary,
    afterOpen, writeReports, writeJson, emitIf, emit, emitFile, hc1, hc2, hw1, hw2, hlu, doneThen_file, done_none,
    Bool.false_eq_true, if_false, if_true, Nat.add_zero, Bool.not_true, Bool.and_false,
    Bool.true_or, Bool.not_false]
  refine ⟨rfl, ?_⟩
  simp [writeAt_zero]

/-- **C20.io.10** `final_flush_checked` (finding D3, repaired by 433988c `output.flush()?`): the report
    goes to standard output (no `--output-file`), standard output can take `c` bytes (a file on a disk
    that fills up, RLIMIT_FSIZE, …) and the shortfall lies entirely in the bytes the printer left in
    standard output's `LineWriter` (`pend` > 0: every JSON report — it does not end in a newline). The
    explicit flush before `Ok(())` now reports it: status 1 and `Error: …` (status 0 and silence only for
    a broken pipe); the first `c` bytes stay written — a primary that fails itself keeps what it
    accepted. Before the fix this was status 0 without a diagnostic. -/
theorem final_flush_checked (c : Nat)
    (hacc : exitOf cfg.flags .ok = 0) (hcy : cfg.flags.cyborg = false) (hmd : cfg.helpMarkdown = false)
    (hlu : cfg.localUnsupported = false) (hlog : cfg.logFile = none) (hout : cfg.outputFile = none)
    (he : w.stdout.out = [] ∧ w.stdout.buf = []) (hcap : w.stdout.cap = some c)
    (hfit : (soleRep cfg.flags reps).bytes.length
              - min (soleRep cfg.flags reps).pend (soleRep cfg.flags reps).bytes.length ≤ c)
    (hshort : c < (soleRep cfg.flags reps).bytes.length) :
    (run render cfg .ok reps w).world.stdout.out = (soleRep cfg.flags reps).bytes.take c ∧
    (w.stdout.kind = .other →
      (run render cfg .ok reps w).exit = 1 ∧ (run render cfg .ok reps w).world.stderr = w.stderr ++ [.ioError]) ∧
    (w.stdout.kind = .brokenPipe →
      (run render cfg .ok reps w).exit = 0 ∧ (run render cfg .ok reps w).world.stderr = w.stderr) := by
  rw [run_sole_stdout render cfg reps w hacc hcy hmd hlu hlog hout]
  obtain ⟨h1, h2, h3⟩ := stdout_write_then_flush w.stdout (soleRep cfg.flags reps) c he hcap hfit
  rw [if_neg (by omega)] at h2
  rw [h1]
  simp only [doneThen, finishOk, flushPrimary, h2, done_some]
  refine ⟨by simpa using h3, ?_, ?_⟩
  · intro hkk; rw [hkk]; exact ⟨rfl, rfl⟩
  · intro hkk; rw [hkk]; exact ⟨rfl, rfl⟩

/-- **C20.io.10b** the positive side: with standard output as the primary (any capacity, errors other
    than a broken pipe), status 0 means the COMPLETE report arrived — "exits with status 0 having
    written to its primary output exactly the report". -/
theorem stdout_exit0_complete
    (hacc : exitOf cfg.flags .ok = 0) (hcy : cfg.flags.cyborg = false) (hmd : cfg.helpMarkdown = false)
    (hlu : cfg.localUnsupported = false) (hlog : cfg.logFile = none) (hout : cfg.outputFile = none)
    (he : w.stdout.out = [] ∧ w.stdout.buf = []) (hkind : w.stdout.kind = .other)
    (h0 : (run render cfg .ok reps w).exit = 0) :
    (run render cfg .ok reps w).world.stdout.out = (soleRep cfg.flags reps).bytes := by
  cases hcap : w.stdout.cap with
  | none =>
    have := stdout_exact render cfg .ok reps w hout hcap he hmd h0
    rw [this]
    -- the prescription for a non-cyborg command line is the sole report
    rw [exitOf_eq] at hacc
    by_cases hgn : groupCount cfg.flags > 1
    · rw [if_pos hgn] at hacc; cases hacc
    unfold primaryBytes soleRep
    cases hd : cfg.flags.dump with
    | true => simp
    | false =>
      cases hj : cfg.flags.json <;> simp [humanOn, jsonOn, hcy, hd, hj]
  | some c =>
    rw [run_sole_stdout render cfg reps w hacc hcy hmd hlu hlog hout] at h0 ⊢
    by_cases hfit : (soleRep cfg.flags reps).bytes.length
        - min (soleRep cfg.flags reps).pend (soleRep cfg.flags reps).bytes.length ≤ c
    · obtain ⟨h1, h2, h3⟩ := stdout_write_then_flush w.stdout (soleRep cfg.flags reps) c he hcap hfit
      rw [h1] at h0 ⊢
      by_cases hle : (soleRep cfg.flags reps).bytes.length ≤ c
      · rw [if_pos hle] at h2
        simp only [doneThen, finishOk, flushPrimary, h2, done_none, finish_stdout]
        rw [h3, List.take_of_length_le hle]
      · rw [if_neg hle] at h2
        simp only [doneThen, finishOk, flushPrimary, h2, done_some, hkind] at h0
        cases h0
    · obtain ⟨h1, _⟩ := stdout_write_overflow w.stdout (soleRep cfg.flags reps) c he hcap (by omega)
      rw [h1, hkind] at h0
      cases h0

/-- … whereas a shortfall before the pending tail was always detected: status 1, `Error: …` on standard
    error, and the first `c` bytes of the report on standard output. With a broken pipe instead
    (`kind = brokenPipe`): status 0 and no diagnostic. -/
theorem stdout_failure_detected (c : Nat)
    (hacc : exitOf cfg.flags .ok = 0) (hcy : cfg.flags.cyborg = false) (hmd : cfg.helpMarkdown = false)
    (hlu : cfg.localUnsupported = false) (hlog : cfg.logFile = none) (hout : cfg.outputFile = none)
    (he : w.stdout.out = [] ∧ w.stdout.buf = []) (hcap : w.stdout.cap = some c)
    (hover : c < (soleRep cfg.flags reps).bytes.length
              - min (soleRep cfg.flags reps).pend (soleRep cfg.flags reps).bytes.length) :
    (run render cfg .ok reps w).world.stdout.out = (soleRep cfg.flags reps).bytes.take c ∧
    (w.stdout.kind = .other →
      (run render cfg .ok reps w).exit = 1 ∧ (run render cfg .ok reps w).world.stderr = w.stderr ++ [.ioError]) ∧
    (w.stdout.kind = .brokenPipe →
      (run render cfg .ok reps w).exit = 0 ∧ (run render cfg .ok reps w).world.stderr = w.stderr) := by
  rw [run_sole_stdout render cfg reps w hacc hcy hmd hlu hlog hout]
  obtain ⟨h1, h2⟩ := stdout_write_overflow w.stdout (soleRep cfg.flags reps) c he hcap hover
  rw [h1]
  refine ⟨by simpa [doneThen] using h2, ?_, ?_⟩
  · intro hk; rw [hk]; exact ⟨rfl, rfl⟩
  · intro hk; rw [hk]; exact ⟨rfl, rfl⟩

/-- **C20.io.11** order of effects, 1: an unreadable file (missing, a directory, empty, not a minidump)
    leaves every path except the `--log-file` exactly as it was, and standard output untouched: the
    cyborg and output files are created only after `Minidump::read_path` succeeded. -/
theorem unreadable_touches_nothing (hmd : cfg.helpMarkdown = false) :
    (run render cfg .unreadable reps w).exit ≠ 0 ∧
    (run render cfg .unreadable reps w).world.stdout = w.stdout.atExit ∧
    ∀ q, cfg.logFile ≠ some q → (run render cfg .unreadable reps w).world.fs.entry q = w.fs.entry q := by
  rcases run_cases render cfg .unreadable reps w hmd with ⟨c, w', hc, hrun, hso, hent⟩ | ⟨_, _, _, _, hne, _⟩
  · rw [hrun]
    exact ⟨hc, by rw [finish_stdout, hso], fun q hq => by rw [finish_fs]; exact hent q hq⟩
  · exact absurd rfl hne

/-- **C20.io.12** order of effects, 2 — "what is on disk when processing later fails?": both files are
    created (TRUNCATED) before the dump is processed, so a file that is readable but cannot be
    processed (accepted options, not `--dump`) leaves the `--output-file` and the `--cyborg` file
    EMPTY, whatever they held before; status 1, nothing on standard output. -/
theorem processing_failure_truncates (p : Path)
    (hacc : exitOf cfg.flags .ok = 0) (hd : cfg.flags.dump = false) (hmd : cfg.helpMarkdown = false)
    (hlog : cfg.logFile = none) (hout : cfg.outputFile = some p) (hreg : Regular w.fs p)
    (hcy : cfg.flags.cyborg = true → Regular w.fs cfg.cyborgPath) :
    (run render cfg .unprocessable reps w).exit = 1 ∧
    (run render cfg .unprocessable reps w).world.fs.entry p = .file [] ∧
    (cfg.flags.cyborg = true → (run render cfg .unprocessable reps w).world.fs.entry cfg.cyborgPath = .file []) ∧
    (run render cfg .unprocessable reps w).world.stdout = w.stdout.atExit := by
  rw [exitOf_eq] at hacc
  by_cases hgn : groupCount cfg.flags > 1
  · rw [if_pos hgn] at hacc; cases hacc
  rw [if_neg hgn] at hacc
  by_cases hp : (cfg.flags.pretty && !jsonOn cfg.flags) = true
  · rw [if_pos hp] at hacc; cases hacc
  rw [if_neg hp] at hacc
  by_cases hb : (cfg.flags.brief && !(humanOn cfg.flags || cfg.flags.dump)) = true
  · rw [if_pos hb] at hacc; cases hacc
  simp only [run, hmd, b2n, hgn, hlog, openOpt, hp, hb, hout, emitReports,
    Bool.false_eq_true, if_false, Nat.add_zero]
  by_cases hc : cfg.flags.cyborg = true
  · have hc1 := create_regular (hcy hc)
    have hreg1 : Regular (w.fs.set cfg.cyborgPath (.file [])) p := regular_set_file _ _ _ _ hreg
    have hc2 := create_regular hreg1
    simp only [hc, if_true, hc1, openPrimary, hc2, afterOpen, hd, Bool.false_eq_true, if_false,
      finish_exit, finish_fs, finish_stdout, logErr_stdout, logErr_none_fs]
    refine ⟨trivial, by simp, fun _ => ?_, trivial⟩
    by_cases hpe : cfg.cyborgPath = p
    · rw [hpe]; simp
    · rw [Fs.set_entry_other _ _ _ _ hpe]; simp
  · have hc2 := create_regular hreg
    simp only [hc, if_false, openPrimary, hc2, afterOpen, hd, Bool.false_eq_true,
      finish_exit, finish_fs, finish_stdout, logErr_stdout, logErr_none_fs]
    exact ⟨trivial, by simp, fun h => h.elim, trivial⟩

/-- **C20.io.12b** the debuginfo rule (finding D6, repaired by fb88910): `--use-local-debuginfo` on a
    processable dump whose CPU the debuginfo provider does not support — same shape as C20.io.12: — "what is on disk when processing later fails?": both files are
    created (TRUNCATED) before the dump is processed, so a file that is readable but cannot be
    processed (accepted options, not `--dump`) leaves the `--output-file` and the `--cyborg` file
    EMPTY, whatever they held before; status 1, nothing on standard output. -/
theorem local_debuginfo_unsupported_fails (p : Path) (hlu : cfg.localUnsupported = true)
    (hacc : exitOf cfg.flags .ok = 0) (hd : cfg.flags.dump = false) (hmd : cfg.helpMarkdown = false)
    (hlog : cfg.logFile = none) (hout : cfg.outputFile = some p) (hreg : Regular w.fs p)
    (hcy : cfg.flags.cyborg = true → Regular w.fs cfg.cyborgPath) :
    (run render cfg .ok reps w).exit = 1 ∧
    (run render cfg .ok reps w).world.fs.entry p = .file [] ∧
    (cfg.flags.cyborg = true → (run render cfg .ok reps w).world.fs.entry cfg.cyborgPath = .file []) ∧
    (run render cfg .ok reps w).world.stdout = w.stdout.atExit := by
  rw [exitOf_eq] at hacc
  by_cases hgn : groupCount cfg.flags > 1
  · rw [if_pos hgn] at hacc; cases hacc
  rw [if_neg hgn] at hacc
  by_cases hp : (cfg.flags.pretty && !jsonOn cfg.flags) = true
  · rw [if_pos hp] at hacc; cases hacc
  rw [if_neg hp] at hacc
  by_cases hb : (cfg.flags.brief && !(humanOn cfg.flags || cfg.flags.dump)) = true
  · rw [if_pos hb] at hacc; cases hacc
  simp only [run, hmd, b2n, hgn, hlog, openOpt, hp, hb, hout, emitReports,
    Bool.false_eq_true, if_false, Nat.add_zero]
  by_cases hc : cfg.flags.cyborg = true
  · have hc1 := create_regular (hcy hc)
    have hreg1 : Regular (w.fs.set cfg.cyborgPath (.file [])) p := regular_set_file _ _ _ _ hreg
    have hc2 := create_regular hreg1
    simp only [hc, if_true, hc1, openPrimary, hc2, afterOpen, hd, hlu, Bool.false_eq_true, if_false,
      finish_exit, finish_fs, finish_stdout, logErr_stdout, logErr_none_fs]
    refine ⟨trivial, by simp, fun _ => ?_, trivial⟩
    by_cases hpe : cfg.cyborgPath = p
    · rw [hpe]; simp
    · rw [Fs.set_entry_other _ _ _ _ hpe]; simp
  · have hc2 := create_regular hreg
    simp only [hc, if_false, if_true, openPrimary, hc2, afterOpen, hd, hlu, Bool.false_eq_true,
      finish_exit, finish_fs, finish_stdout, logErr_stdout, logErr_none_fs]
    exact ⟨trivial, by simp, fun h => h.elim, trivial⟩

/-- **C20.io.13** order of effects, 3: the cyborg file is created BEFORE the output file. When the
    output file cannot be created (a directory, a missing parent) the tool exits with status 1 and
    `Error: …`, nothing is printed — and the cyborg file has already been truncated to nothing. -/
theorem output_create_failure_after_cyborg (p : Path)
    (hacc : exitOf cfg.flags .ok = 0) (hc : cfg.flags.cyborg = true) (hmd : cfg.helpMarkdown = false)
    (hlog : cfg.logFile = none) (hout : cfg.outputFile = some p) (hne : cfg.cyborgPath ≠ p)
    (hbad : w.fs.entry p = .dir ∨ w.fs.entry p = .absent false)
    (hcy : Regular w.fs cfg.cyborgPath) (hin : inp ≠ .unreadable) :
    (run render cfg inp reps w).exit = 1 ∧
    (run render cfg inp reps w).world.fs.entry cfg.cyborgPath = .file [] ∧
    (run render cfg inp reps w).world.fs.entry p = w.fs.entry p ∧
    (run render cfg inp reps w).world.stdout = w.stdout.atExit ∧
    (run render cfg inp reps w).world.stderr = w.stderr ++ [.ioError] := by
  rw [exitOf_eq] at hacc
  by_cases hgn : groupCount cfg.flags > 1
  · rw [if_pos hgn] at hacc; cases hacc
  rw [if_neg hgn] at hacc
  by_cases hp : (cfg.flags.pretty && !jsonOn cfg.flags) = true
  · rw [if_pos hp] at hacc; cases hacc
  rw [if_neg hp] at hacc
  by_cases hb : (cfg.flags.brief && !(humanOn cfg.flags || cfg.flags.dump)) = true
  · rw [if_pos hb] at hacc; cases hacc
  have hc1 := create_regular hcy
  have hpe : (w.fs.set cfg.cyborgPath (.file [])).entry p = w.fs.entry p :=
    Fs.set_entry_other _ _ _ _ (Ne.symm hne)
  have hc2 : (w.fs.set cfg.cyborgPath (.file [])).create p = none := by
    unfold Fs.create; rw [hpe]
    rcases hbad with h | h <;> rw [h]
  have key : (emitReports render cfg inp reps (humanOn cfg.flags) (jsonOn cfg.flags) none w)
      = failWith { w with fs := w.fs.set cfg.cyborgPath (.file []) } .other := by
    simp only [emitReports, openOpt, hc, if_true, hc1, hout, openPrimary, hc2]
  have hrun : run render cfg inp reps w
      = failWith { w with fs := w.fs.set cfg.cyborgPath (.file []) } .other := by
    simp only [run, hmd, b2n, hgn, hlog, openOpt, hp, hb, Bool.false_eq_true, if_false, Nat.add_zero]
    cases inp with
    | unreadable => exact absurd rfl hin
    | unprocessable => exact key
    | ok => exact key
  rw [hrun]
  exact ⟨rfl, by simp, by rw [failWith_fs]; exact hpe, by simp, rfl⟩

/-! ### non-vacuity: concrete worlds in which the hypotheses of the theorems above hold -/

/-- `out` is a pre-existing file LONGER than any report below; `d` a directory; `full` = `/dev/full` -/
def exFs : Fs where
  entry := fun p =>
    if p = "out" then .file [9, 9, 9, 9, 9, 9, 9, 9, 9, 9, 9, 9]
    else if p = "cy" then .file [8, 8, 8, 8, 8, 8, 8, 8]
    else if p = "d" then .dir else if p = "full" then .full else .absent true
  limit := fun _ => none

def exReps : Reports :=
  { human := ⟨[72, 10], 0⟩, humanBrief := ⟨[104, 10], 0⟩, json := ⟨[123, 125], 1⟩, jsonPretty := ⟨[123, 10, 125], 1⟩,
    dump := ⟨[68, 10], 0⟩, dumpBrief := ⟨[100, 10], 0⟩, helpMd := ⟨[35, 10], 0⟩ }

def exWorld : World := ⟨exFs, ⟨[], [], none, .other⟩, []⟩
def exRender : Diag → Bytes := fun _ => [69, 10]
def noFlags : Flags := ⟨false, false, false, false, false, false⟩
def exCfg : Cfg := { flags := noFlags, cyborgPath := "", helpMarkdown := false, outputFile := none, logFile := none, verboseOff := false, localUnsupported := false }

-- `--output-file out` over a longer pre-existing file: status 0 and exactly the 2 bytes of the report
example : (run exRender { exCfg with outputFile := some "out" } .ok exReps exWorld).exit = 0 ∧
    (run exRender { exCfg with outputFile := some "out" } .ok exReps exWorld).world.fs.entry "out" = .file [72, 10] ∧
    (run exRender exCfg .ok exReps exWorld).world.stdout.out = [72, 10] := by decide
example : Regular exFs "out" ∧ Regular exFs "cy" ∧ Regular exFs "new" :=
  ⟨Or.inl ⟨_, rfl⟩, Or.inl ⟨_, rfl⟩, Or.inr rfl⟩
-- `--cyborg cy --output-file out --brief --pretty`
example :
    let cfg := { exCfg with flags := { noFlags with cyborg := true, brief := true, pretty := true },
                            cyborgPath := "cy", outputFile := some "out" }
    (run exRender cfg .ok exReps exWorld).exit = 0 ∧
    (run exRender cfg .ok exReps exWorld).world.fs.entry "out" = .file [104, 10] ∧
    (run exRender cfg .ok exReps exWorld).world.fs.entry "cy" = .file [123, 10, 125] := by decide
-- finding D1: `--cyborg /dev/full`: status 1 AFTER the complete human report reached standard output
example :
    let cfg := { exCfg with flags := { noFlags with cyborg := true }, cyborgPath := "full" }
    (run exRender cfg .ok exReps exWorld).exit = 1 ∧
    (run exRender cfg .ok exReps exWorld).world.stdout.out = [72, 10] ∧
    (run exRender cfg .ok exReps exWorld).world.stderr = [.ioError] := by decide
-- finding D2: the same path twice: status 0, the file holds the JSON report (the human report is gone)
example :
    let cfg := { exCfg with flags := { noFlags with cyborg := true }, cyborgPath := "out", outputFile := some "out" }
    (run exRender cfg .ok exReps exWorld).exit = 0 ∧
    (run exRender cfg .ok exReps exWorld).world.fs.entry "out" = .file [123, 125] := by decide
-- finding D3 (repaired): `--json` to a standard output that takes 1 of the 2 bytes: the final flush
-- fails => status 1 with `Error:`; the byte that fitted stays
example :
    let cfg := { exCfg with flags := { noFlags with json := true } }
    let w : World := ⟨exFs, ⟨[], [], some 1, .other⟩, []⟩
    exitOf cfg.flags .ok = 0 ∧ (run exRender cfg .ok exReps w).exit = 1 ∧
    (run exRender cfg .ok exReps w).world.stdout.out = [123] ∧ (run exRender cfg .ok exReps w).world.stderr = [.ioError] := by
  decide
-- `--use-local-debuginfo` on a dump of an unsupported CPU: status 1, files created and empty, no report
example :
    let cfg := { exCfg with outputFile := some "out", localUnsupported := true }
    (run exRender cfg .ok exReps exWorld).exit = 1 ∧
    (run exRender cfg .ok exReps exWorld).world.fs.entry "out" = .file [] ∧
    (run exRender cfg .ok exReps exWorld).world.stdout.out = [] ∧
    (run exRender cfg .ok exReps exWorld).world.stderr = [.localDebuginfoError] := by decide
-- … the human report (ends in a newline, nothing pending) on the same standard output: detected
example :
    let w : World := ⟨exFs, ⟨[], [], some 1, .other⟩, []⟩
    (run exRender exCfg .ok exReps w).exit = 1 ∧ (run exRender exCfg .ok exReps w).world.stdout.out = [72] ∧
    (run exRender exCfg .ok exReps w).world.stderr = [.ioError] := by decide
-- a reader that went away: status 0, nothing written, no diagnostic
example :
    let w : World := ⟨exFs, ⟨[], [], some 0, .brokenPipe⟩, []⟩
    (run exRender exCfg .ok exReps w).exit = 0 ∧ (run exRender exCfg .ok exReps w).world.stdout.out = [] ∧
    (run exRender exCfg .ok exReps w).world.stderr = [] := by decide
-- processing fails: both files are left empty; the log file holds the diagnostic, standard error nothing
example :
    let cfg := { exCfg with flags := { noFlags with cyborg := true }, cyborgPath := "cy", outputFile := some "out",
                            logFile := some "log" }
    (run exRender cfg .unprocessable exReps exWorld).exit = 1 ∧
    (run exRender cfg .unprocessable exReps exWorld).world.fs.entry "out" = .file [] ∧
    (run exRender cfg .unprocessable exReps exWorld).world.fs.entry "cy" = .file [] ∧
    (run exRender cfg .unprocessable exReps exWorld).world.fs.entry "log" = .file [69, 10] ∧
    (run exRender cfg .unprocessable exReps exWorld).world.stderr = [] := by decide
-- the output file is a directory: status 1, the cyborg file is already truncated
example :
    let cfg := { exCfg with flags := { noFlags with cyborg := true }, cyborgPath := "cy", outputFile := some "d" }
    (run exRender cfg .ok exReps exWorld).exit = 1 ∧
    (run exRender cfg .ok exReps exWorld).world.fs.entry "cy" = .file [] ∧
    (run exRender cfg .ok exReps exWorld).world.stdout.out = [] := by decide
-- the statuses 2 and 101
example : (run exRender { exCfg with flags := { noFlags with json := true, dump := true } } .ok exReps exWorld).exit = 2 := by
  decide
example :
    let w : World := ⟨exFs, ⟨[], [], some 0, .other⟩, []⟩
    (run exRender { exCfg with helpMarkdown := true } .ok exReps w).exit = 101 := by decide
-- a healthy world
example : Healthy { exCfg with outputFile := some "out", logFile := some "log" } exWorld where
  stdout := rfl
  log := fun l h => by
    have : l = "log" := by simpa using h.symm
    subst this; exact Or.inr rfl
  cyborg := fun h => by simp [exCfg, noFlags] at h
  output := fun p h => by
    have : p = "out" := by simpa using h.symm
    subst this; exact ⟨Or.inl ⟨_, rfl⟩, rfl⟩

end MdModel.Cli
