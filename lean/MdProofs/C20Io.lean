/-
  C20 — writers and files. Theorems about `MdModel.Cli.run` (main.rs:274-523 as a state machine over
  a file system, standard output and the diagnostics), for ALL initial file-system states, report byte
  strings, logged-diagnostic renderings and failure points (size limits / failing sinks).

  Property text decided here:
    "… exits with status 0 having written to its primary output exactly the report the library
     produces for the same options (…; the combined mode writes both; an output file receives what
     standard output would), or exits with status 1 with a diagnostic on standard error and nothing
     on the primary output. It never ends by panic, abort or signal …"
-/
import MdProofs.Lemmas.CliIo
namespace MdModel.Cli

variable (render : Diag → Bytes) (cfg : Cfg) (inp : Input) (reps : Reports) (w : World)

/-- **C20.io.1** "an output file receives …": on status 0 the file named by `--output-file` holds
    EXACTLY the bytes the options prescribe for the primary output — whatever the path held before
    (`Regular`: an existing regular file of any content and length, or a creatable name): nothing of a
    pre-existing longer file survives. Side conditions: the path is not also the `--log-file` or the
    `--cyborg` path (see `same_path_clobbers` for what happens then). -/
theorem output_file_exact (p : Path)
    (hp : cfg.outputFile = some p) (hreg : Regular w.fs p) (hlog : cfg.logFile ≠ some p)
    (hcy : cfg.flags.cyborg = true → cfg.cyborgPath ≠ p) (hmd : cfg.helpMarkdown = false)
    (h0 : (run render cfg inp reps w).exit = 0) :
    (run render cfg inp reps w).world.fs.entry p = .file (primaryBytes cfg.flags reps) := by
  obtain ⟨hgrp, _, w0, lg, hlo, hrun⟩ := run_exit0_stages render cfg inp reps w hmd h0
  rw [hrun] at h0 ⊢
  obtain ⟨_, _, _, _, hent, _⟩ := openOpt_some hlo
  have hreg0 : Regular w0.fs p := regular_of_entry_eq (hent p hlog) hreg
  exact (emitReports_file_exit0 render cfg inp reps lg w0 p hp hreg0 hcy hgrp h0).1

/-- **C20.io.2** … and without `--output-file`, an unbounded standard output that starts empty has
    received exactly the same prescription on status 0. -/
theorem stdout_exact
    (hp : cfg.outputFile = none) (hs : w.stdout.cap = none) (he : w.stdout.out = [] ∧ w.stdout.buf = [])
    (hmd : cfg.helpMarkdown = false) (h0 : (run render cfg inp reps w).exit = 0) :
    (run render cfg inp reps w).world.stdout.out = primaryBytes cfg.flags reps := by
  obtain ⟨hgrp, _, w0, lg, hlo, hrun⟩ := run_exit0_stages render cfg inp reps w hmd h0
  rw [hrun] at h0 ⊢
  obtain ⟨hso, _, _, _, _, _⟩ := openOpt_some hlo
  have hs0 : w0.stdout.Healthy := by rw [Stdout.Healthy, hso]; exact hs
  rw [(emitReports_stdout_healthy_exit0 render cfg inp reps lg w0 hp hs0 hgrp h0).1]
  simp [Stdout.total, hso, he.1, he.2]

/-- **C20.io.3** `output_file_receives_stdout_bytes`: run the same command line once with
    `--output-file p` and once without (standard output unbounded and initially empty), in ANY two
    worlds: if both exit with status 0, the final content of `p` is byte for byte what standard
    output received. -/
theorem output_file_receives_stdout_bytes (p : Path) (w' : World)
    (hp : cfg.outputFile = some p) (hreg : Regular w.fs p) (hlog : cfg.logFile ≠ some p)
    (hcy : cfg.flags.cyborg = true → cfg.cyborgPath ≠ p) (hmd : cfg.helpMarkdown = false)
    (hs : w'.stdout.cap = none) (he : w'.stdout.out = [] ∧ w'.stdout.buf = [])
    (h0 : (run render cfg inp reps w).exit = 0)
    (h0' : (run render { cfg with outputFile := none } inp reps w').exit = 0) :
    (run render cfg inp reps w).world.fs.entry p
      = .file (run render { cfg with outputFile := none } inp reps w').world.stdout.out := by
  rw [output_file_exact render cfg inp reps w p hp hreg hlog hcy hmd h0,
    stdout_exact render { cfg with outputFile := none } inp reps w' rfl hs he hmd h0']

/-- **C20.io.4** `cyborg_split` ("the combined mode writes both … The --human output will be the
    'primary' output"): on status 0 with `--cyborg c`, the file `c` holds exactly the JSON report
    (pretty iff `--pretty`), whatever it held before, and the primary output — a regular
    `--output-file`, or an unbounded standard output — holds exactly the human report (brief iff
    `--brief`) and no JSON byte. (With a standard output that fails with a broken pipe the tool exits 0
    WITHOUT having written the JSON file: `broken_pipe_is_silent_success`.) -/
theorem cyborg_split
    (hc : cfg.flags.cyborg = true) (hrc : Regular w.fs cfg.cyborgPath)
    (hlog : cfg.logFile ≠ some cfg.cyborgPath) (hmd : cfg.helpMarkdown = false)
    (h0 : (run render cfg inp reps w).exit = 0) :
    primaryBytes cfg.flags reps = (humanRep cfg.flags reps).bytes ∧
    (∀ p, cfg.outputFile = some p → Regular w.fs p → cfg.logFile ≠ some p → cfg.cyborgPath ≠ p →
      (run render cfg inp reps w).world.fs.entry p = .file (humanRep cfg.flags reps).bytes ∧
      (run render cfg inp reps w).world.fs.entry cfg.cyborgPath = .file (jsonRep cfg.flags reps).bytes) ∧
    (cfg.outputFile = none → w.stdout.cap = none → w.stdout.out = [] ∧ w.stdout.buf = [] →
      (run render cfg inp reps w).world.stdout.out = (humanRep cfg.flags reps).bytes ∧
      (run render cfg inp reps w).world.fs.entry cfg.cyborgPath = .file (jsonRep cfg.flags reps).bytes) := by
  obtain ⟨hgrp, _, w0, lg, hlo, hrun⟩ := run_exit0_stages render cfg inp reps w hmd h0
  obtain ⟨hso, _, _, _, hent, _⟩ := openOpt_some hlo
  have hrc0 : Regular w0.fs cfg.cyborgPath := regular_of_entry_eq (hent _ hlog) hrc
  have hpb : primaryBytes cfg.flags reps = (humanRep cfg.flags reps).bytes := by
    have hd : cfg.flags.dump = false := by
      cases hdd : cfg.flags.dump with
      | false => rfl
      | true => have := not_dump_and_cyborg hgrp hdd; rw [hc] at this; cases this
    simp [primaryBytes, hd, humanOn, jsonOn, hc]
  refine ⟨hpb, ?_, ?_⟩
  · intro p hp hreg hlogp hne
    refine ⟨?_, ?_⟩
    · rw [← hpb]
      exact output_file_exact render cfg inp reps w p hp hreg hlogp (fun _ => hne) hmd h0
    · rw [hrun] at h0 ⊢
      have hreg0 : Regular w0.fs p := regular_of_entry_eq (hent p hlogp) hreg
      exact (emitReports_file_exit0 render cfg inp reps lg w0 p hp hreg0 (fun _ => hne) hgrp h0).2 hc hrc0
  · intro hp hs he
    refine ⟨?_, ?_⟩
    · rw [← hpb]
      exact stdout_exact render cfg inp reps w hp hs he hmd h0
    · rw [hrun] at h0 ⊢
      have hs0 : w0.stdout.Healthy := by rw [Stdout.Healthy, hso]; exact hs
      exact (emitReports_stdout_healthy_exit0 render cfg inp reps lg w0 hp hs0 hgrp h0).2 hc hrc0

end MdModel.Cli
