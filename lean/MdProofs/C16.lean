/-
  C16 — The on-disk symbol cache only ever holds complete, parseable files.

  Property text: "For every sequence of download outcomes — success, HTTP error, connection cut at
  any byte, corrupt content, abandoned request — a file appears at a cache path only after the whole
  symbol file was downloaded and parsed successfully, and it then consists of exactly the downloaded
  bytes followed by the source-URL note. Failed or abandoned downloads leave no entry and no stray
  temporary file in the cache, and a later lookup served from the cache without network access
  yields the same symbol table and URL as the original download."

  The theorems are about `MdModel.CacheFs` (the state machine of `locate_symbols` /
  `fetch_symbol_file` / `commit_cache_file` over an abstract file system), for ANY list of events
  (network outcomes, i/o failures of the caching side, the drop point) and, where stated for a
  `World`, for any number of concurrent calls of the same process under ANY interleaving.
  They are stated twice:
    * for an ARBITRARY parser model `P` satisfying the interface `ParserLaws P` (`callback_prefix`,
      `chunk_independent`, `info_url_trailer`) — sections "cache_inv" … "cached_equals_original";
    * for the REAL parser — `Real.model`: the byte-level model of the Breakpad symbol parser of
      C09/C10 (`MdModel.SymLine`, `MdModel.SymParse`) inside the loop of `parse_async`
      (`MdModel.Stream` blocks) — with NO assumed law: `MdProofs.Lemmas.CacheFsReal` proves
      `ParserLaws Real.model` (`Real.laws`; `callback_prefix` and `chunk_independent` from C10's
      machinery, `info_url_trailer` from the parser model, `MdProofs.Lemmas.SymTrailer`) — section
      "the real parser". This is the instance the compiled model runs in the correspondence check.
  `MdProofs.Lemmas.CacheFsToy` proves the laws for a small line-buffering instance as well, on which
  the concrete runs at the end are decided by evaluation.

  What no theorem here shows (level: proof, PARTIAL): crashes of the process or the OS between
  `write` and `rename`, other processes sharing the cache directory, and file-system specific
  semantics of `link`/`rename`; the temp file is identified with its handle (RAII), which is the
  assumed behaviour of `tempfile::NamedTempFile`.
-/
import MdProofs.Lemmas.CacheFs
import MdProofs.Lemmas.CacheFsToy
import MdProofs.Lemmas.CacheFsReal
import MdProofs.Lemmas.CacheFsFile
namespace MdModel.CacheFs

variable {P : ParserModel}

/-! ### cache_inv -/

/-- An entry made by a download: there is a response, delivered completely in the chunks `rx`
    (end-of-response seen), whose streaming parse returned `Ok` and whose body ends in a line feed,
    requested at `u` by a call for the module cached at `p`; the entry is that body followed by the
    URL note. -/
def GoodEntry (P : ParserModel) (reqs : List Req) (p : Path) (n : Node) : Prop :=
  ∃ rx u t, P.stream rx = some (bodyOf rx, t) ∧ EndsNl (bodyOf rx) ∧
    n = .file (bodyOf rx ++ trailer u) ∧ ∃ r ∈ reqs, r.path = p ∧ u ∈ r.urls

/-- every entry is an initial one or a `GoodEntry` -/
def CacheInv (P : ParserModel) (init : Cache) (w : World P) : Prop :=
  ∀ p n, w.cache p = some n → init p = some n ∨ GoodEntry P (w.tasks.map Prod.fst) p n

def WorldInv (P : ParserModel) (init : Cache) (w : World P) : Prop :=
  (∀ t ∈ w.tasks, PhaseInv t.1 t.2) ∧ CacheInv P init w

private theorem World.step_inv (hl : ParserLaws P) (init : Cache) (w : World P) (i : Nat) (e : Ev)
    (h : WorldInv P init w) : WorldInv P init (w.step i e) := by
  unfold World.step
  cases hi : w.tasks[i]? with
  | none => exact h
  | some tk =>
    obtain ⟨req, ph⟩ := tk
    have hmem : (req, ph) ∈ w.tasks := List.mem_of_getElem? hi
    have hph : PhaseInv req ph := h.1 _ hmem
    have hreqs := getElem?_set_fst w.tasks i req ph (CacheFs.step w.cache req ph e).2 hi
    have hreq : req ∈ w.tasks.map Prod.fst := List.mem_map.mpr ⟨_, hmem, rfl⟩
    refine ⟨?_, ?_⟩
    · intro t ht
      rcases List.mem_or_eq_of_mem_set ht with h1 | h1
      · exact h.1 t h1
      · subst h1; exact CacheFs.step_inv _ _ _ _ hph
    · intro p n hn
      show _ ∨ GoodEntry P (List.map Prod.fst (w.tasks.set i (req, (CacheFs.step w.cache req ph e).2))) p n
      rw [hreqs]
      simp only [] at hn
      rcases step_cache hl w.cache req ph e hph with hc | ⟨u, rest, temp, nl, ps, rx, io, t, _, _, hu, hs, hends, _, hcm⟩
      · rw [hc] at hn; exact h.2 p n hn
      · rw [hcm] at hn
        by_cases hp : p = req.path
        · subst hp
          rcases (commit_spec w.cache req.path u (bodyOf rx) io).2 with h1 | h1 | ⟨h1, _⟩
          · rw [h1] at hn; exact h.2 _ _ hn
          · rw [h1] at hn
            cases hn
            exact Or.inr ⟨rx, u, t, hs, hends, rfl, req, hreq, rfl, hu⟩
          · rw [h1] at hn; cases hn
        · rw [(commit_spec w.cache req.path u (bodyOf rx) io).1 p hp] at hn
          exact h.2 p n hn

private theorem World.run_inv (hl : ParserLaws P) (init : Cache) (w : World P) (evs : List (Nat × Ev))
    (h : WorldInv P init w) : WorldInv P init (w.run evs) := by
  induction evs generalizing w with
  | nil => exact h
  | cons x xs ih =>
    obtain ⟨i, e⟩ := x
    exact ih _ (World.step_inv hl init w i e h)

/-- the set of calls (their static parts) never changes -/
private theorem World.run_reqs (w : World P) (evs : List (Nat × Ev)) :
    (w.run evs).tasks.map Prod.fst = w.tasks.map Prod.fst := by
  induction evs generalizing w with
  | nil => rfl
  | cons x xs ih =>
    obtain ⟨i, e⟩ := x
    show ((w.step i e).run xs).tasks.map Prod.fst = _
    rw [ih]
    unfold World.step
    cases hi : w.tasks[i]? with
    | none => rfl
    | some tk => obtain ⟨req, ph⟩ := tk; exact getElem?_set_fst _ _ _ _ _ hi

/-- **cache_inv** — "a file appears at a cache path only after the whole symbol file was downloaded
    and parsed successfully, and it then consists of exactly the downloaded bytes followed by the
    source-URL note": start any number of calls (all in their initial state) on any cache `c0`; after
    ANY interleaved event sequence (statuses, chunks, ends, network errors, i/o failures, drops),
    every entry of the cache is an entry `c0` already had, or `body ++ "INFO URL " ++ u ++ "\n"` for a
    response that arrived completely, stream-parsed `Ok`, and was requested at `u` by one of the
    calls for exactly that cache path. -/
theorem cache_inv (hl : ParserLaws P) (c0 : Cache) (reqs : List Req) (evs : List (Nat × Ev)) :
    let w := (World.mk (P := P) c0 (reqs.map fun r => (r, .start))).run evs
    ∀ p n, w.cache p = some n → c0 p = some n ∨ GoodEntry P reqs p n := by
  intro w p n hn
  have h0 : WorldInv P c0 (World.mk (P := P) c0 (reqs.map fun r => (r, .start))) := by
    refine ⟨?_, ?_⟩
    · intro t ht
      obtain ⟨r, _, rfl⟩ := List.mem_map.mp ht
      trivial
    · intro p n hn; exact Or.inl hn
  have h := (World.run_inv hl c0 _ evs h0).2 p n hn
  rw [World.run_reqs] at h
  simpa [List.map_map, Function.comp_def] using h

/-- … and with the whole-buffer parser: the body of a `GoodEntry` ends in a line feed and — on
    C10's domain of chunk independence (all lines shorter than 80 KiB) — parses (`parseOk`). -/
theorem goodEntry_parses (hl : ParserLaws P) {reqs : List Req} {p : Path} {n : Node}
    (h : GoodEntry P reqs p n) :
    ∃ body u, n = .file (body ++ trailer u) ∧ EndsNl body ∧
      (P.shortLines body → P.parseOk body = true) := by
  obtain ⟨rx, u, t, hs, hends, hn, _⟩ := h
  exact ⟨bodyOf rx, u, hn, hends, fun hsl => by
    simp [ParserModel.parseOk, hl.chunk_independent rx _ t hsl hs]⟩

/-! ### no_stray_temp -/

/-- the future has completed or has been dropped -/
def Phase.finished : Phase P → Prop
  | .done _ => True
  | .dropped => True
  | _ => False

private theorem finished_temp {ph : Phase P} (h : ph.finished) : ph.temp = none := by
  cases ph <;> simp [Phase.finished] at h <;> rfl

private theorem runTask_finished (c : Cache) (req : Req) {ph : Phase P} (h : ph.finished) (es : List Ev) :
    runTask c req ph es = (c, ph) := by
  cases ph with
  | done r => exact runTask_done c req r es
  | dropped => exact runTask_dropped c req es
  | start => simp [Phase.finished] at h
  | awaitStatus _ _ => simp [Phase.finished] at h
  | streaming _ _ _ _ _ _ => simp [Phase.finished] at h

private theorem step_drop_finished (c : Cache) (req : Req) (ph : Phase P) :
    (step c req ph .drop).2.finished ∧ (step c req ph .drop).1 = c := by
  cases ph <;> simp [step, Phase.finished]

private theorem runTask_append (c : Cache) (req : Req) (ph : Phase P) (es fs : List Ev) :
    runTask c req ph (es ++ fs) = runTask (runTask c req ph es).1 req (runTask c req ph es).2 fs := by
  induction es generalizing c ph with
  | nil => rfl
  | cons e es ih => simp [runTask, ih]

/-- **no_stray_temp** — "… and no stray temporary file": the tmp directory holds exactly the temp
    files of the calls still in flight; once every call has completed or has been dropped — at
    whatever point of whatever interleaving — it is empty. -/
theorem no_stray_temp (w : World P) (h : ∀ t ∈ w.tasks, t.2.finished) : w.liveTemps = [] := by
  unfold World.liveTemps
  rw [List.filterMap_eq_nil_iff]
  intro t ht
  exact finished_temp (h t ht)

/-- … for one call, spelled out: drop the future after ANY events `es`; whatever else happens
    afterwards (`fs`), the call holds no temp file, and dropping did not touch the cache. -/
theorem no_stray_temp_after_drop (c : Cache) (req : Req) (es fs : List Ev) :
    let before := runTask (P := P) c req .start es
    let after := runTask (P := P) c req .start (es ++ .drop :: fs)
    after.2.temp = none ∧ after.2.finished ∧ after.1 = before.1 := by
  intro before after
  have hd := step_drop_finished before.1 req before.2
  have : after = ((step before.1 req before.2 .drop).1, (step before.1 req before.2 .drop).2) := by
    show runTask c req .start (es ++ .drop :: fs) = _
    rw [runTask_append]
    show runTask _ req _ fs = _
    exact runTask_finished _ req hd.1 fs
  rw [this]
  exact ⟨finished_temp hd.1, hd.1, hd.2⟩

/-- while a download is in flight its temp file is a prefix of the body received so far
    (this is what C10's `callback_prefix` gives) — it is never anything else than part of the file -/
theorem temp_is_prefix (hl : ParserLaws P) (c : Cache) (req : Req) (es : List Ev) (t : Bytes)
    (h : (runTask (P := P) c req .start es).2.temp = some t) :
    ∃ u rest temp nl ps rx, (runTask (P := P) c req .start es).2 = .streaming u rest temp nl ps rx ∧
      ∃ more, t ++ more = bodyOf rx := by
  have hinv := runTask_inv (P := P) c req .start es trivial
  cases hph : (runTask (P := P) c req .start es).2 with
  | streaming u rest temp nl ps rx =>
    rw [hph] at hinv h
    obtain ⟨_, cb, hrun, htemp, _⟩ := hinv
    refine ⟨u, rest, temp, nl, ps, rx, rfl, ?_⟩
    have : t = cb := htemp t h
    subst this
    exact (hl.callback_prefix rx ps t hrun).1
  | start => rw [hph] at h; simp [Phase.temp] at h
  | awaitStatus _ _ => rw [hph] at h; simp [Phase.temp] at h
  | done _ => rw [hph] at h; simp [Phase.temp] at h
  | dropped => rw [hph] at h; simp [Phase.temp] at h

/-! ### failure_leaves_nothing -/

/-- **failure_leaves_nothing** — "Failed or abandoned downloads leave no entry": run one call on any
    events from any reachable state; unless it ends as `downloaded` (a complete response that
    parsed `Ok`), the cache is literally unchanged. Error status, network error, body shorter than
    announced, unparseable body, unterminated last line, drop at any point, or a call still in
    flight — all are "not `downloaded`". Applied to every prefix of the events this also says that
    nothing becomes visible in the cache while the download is in flight. -/
theorem failure_leaves_nothing (hl : ParserLaws P) (c : Cache) (req : Req) (ph : Phase P)
    (hph : PhaseInv req ph) (es : List Ev)
    (hfail : ∀ rx u, (runTask c req ph es).2 ≠ .done (.downloaded rx u)) :
    (runTask c req ph es).1 = c := by
  induction es generalizing c ph with
  | nil => rfl
  | cons e es ih =>
    simp only [runTask] at hfail ⊢
    rcases step_cache hl c req ph e hph with hc | ⟨u, rest, temp, nl, ps, rx, io, t, _, _, _, _, _, hd, _⟩
    · have := ih (step c req ph e).1 (step c req ph e).2 (CacheFs.step_inv c req ph e hph) hfail
      rw [this, hc]
    · exfalso
      apply hfail rx u
      rw [hd, runTask_done]

/-- the kinds of failure, one by one, for a call that starts on a cache without the entry -/
theorem failure_kinds (hl : ParserLaws P) (c : Cache) (req : Req) (es : List Ev) :
    let r := runTask (P := P) c req .start es
    (r.2 = .done .notFound ∨ r.2 = .dropped ∨ r.2 = .start ∨
      (∃ u rest, r.2 = .awaitStatus u rest) ∨ (∃ u rest temp nl ps rx, r.2 = .streaming u rest temp nl ps rx) ∨
      (∃ b, r.2 = .done (.localFile b))) → r.1 = c := by
  intro r h
  apply failure_leaves_nothing hl c req .start trivial es
  intro rx u hd
  have hd' : r.2 = .done (.downloaded rx u) := hd
  rcases h with h | h | h | ⟨_, _, h⟩ | ⟨_, _, _, _, _, _, h⟩ | ⟨_, h⟩ <;> rw [h] at hd' <;> simp at hd'

/-- conversely: a `downloaded` result is only produced from a complete response that parsed `Ok` -/
theorem downloaded_is_complete (hl : ParserLaws P) (c : Cache) (req : Req) (ph : Phase P)
    (hph : PhaseInv req ph) (es : List Ev) (rx : List Bytes) (u : Url)
    (hd : (runTask c req ph es).2 = .done (.downloaded rx u)) :
    ph = .done (.downloaded rx u) ∨ (u ∈ req.urls ∧ ∃ t, P.stream rx = some (bodyOf rx, t)) := by
  induction es generalizing c ph with
  | nil => exact Or.inl hd
  | cons e es ih =>
    simp only [runTask] at hd
    rcases ih _ _ (CacheFs.step_inv c req ph e hph) hd with h | h
    · exact step_downloaded hl c req ph e hph rx u h
    · exact Or.inr h

/-! ### preexisting_preserved_or_replaced -/

/-- **preexisting_preserved_or_replaced** — what `commit_cache_file` does with the name it is
    about to fill (`remove_file` if it `exists()`, then `persist_noclobber`), exactly:
    * no other name changes;
    * if the trailer cannot be written nothing changes;
    * a directory or a dangling symlink at the name stays (the commit fails);
    * a free name receives the new file iff `persist_noclobber` succeeds;
    * a regular (or special) file at the name is removed first: if that fails it stays; otherwise the
      new file takes its place — or, when `persist_noclobber` then fails, the name is left EMPTY
      (the old entry is lost; this is the code's `// TODO: don't do this`). -/
theorem preexisting_preserved_or_replaced (c : Cache) (p : Path) (u : Url) (t : Bytes) (io : CommitIo) :
    (∀ q, q ≠ p → commit c p u t io q = c q) ∧
    (io.trailerOk = false → commit c p u t io p = c p) ∧
    (c p = some .dir ∨ c p = some .dangling → commit c p u t io p = c p) ∧
    (io.trailerOk = true → c p = none →
      commit c p u t io p = if io.persistOk then some (.file (t ++ trailer u)) else none) ∧
    (io.trailerOk = true → (c p = some .special ∨ ∃ old, c p = some (.file old)) →
      commit c p u t io p =
        if io.removeOk = false then c p
        else if io.persistOk then some (.file (t ++ trailer u)) else none) := by
  obtain ⟨w, tr, rm, ps⟩ := io
  refine ⟨(commit_spec c p u t _).1, ?_, ?_, ?_, ?_⟩
  · intro h; simp at h; subst h; simp [commit]
  · intro h
    rcases h with h | h <;> cases tr <;> simp [commit, h]
  · intro h hc; simp at h; subst h
    cases ps <;> simp [commit, hc, Cache.set]
  · intro h hc; simp at h; subst h
    rcases hc with hc | ⟨old, hc⟩ <;> cases rm <;> cases ps <;> simp [commit, hc, Cache.set]

/-- a call never touches a regular file that is already at its cache path — it is served from
    it (or from a local symbol path) and sends no request at all: whatever the events, the call
    is never in a network phase and the cache is unchanged. (`remove_file` in the commit can
    therefore only hit an entry that appeared after the lookup: a concurrent call, or another
    process.) -/
theorem preexisting_file_served_not_touched (c : Cache) (req : Req) (b : Bytes)
    (h : lookupLocal c req = some b) (es : List Ev) :
    let r := runTask (P := P) c req .start es
    r.1 = c ∧ (r.2 = .start ∨ r.2 = .dropped ∨ r.2 = .done (.localFile b)) := by
  intro r
  -- the call is in `start` until the first `lookup` or `drop`, which finish it
  have key : ∀ es : List Ev,
      (runTask (P := P) c req .start es).1 = c ∧
      ((runTask (P := P) c req .start es).2 = .start ∨ (runTask (P := P) c req .start es).2 = .dropped ∨
        (runTask (P := P) c req .start es).2 = .done (.localFile b)) := by
    intro es
    induction es with
    | nil => exact ⟨rfl, Or.inl rfl⟩
    | cons e es ih =>
      cases e with
      | lookup =>
        have : step (P := P) c req .start .lookup = (c, .done (.localFile b)) := by simp [step, h]
        simp only [runTask, this, runTask_done]
        exact ⟨trivial, Or.inr (Or.inr trivial)⟩
      | drop =>
        have : step (P := P) c req .start .drop = (c, .dropped) := rfl
        simp only [runTask, this, runTask_dropped]
        exact ⟨trivial, Or.inr (Or.inl trivial)⟩
      | status _ _ => exact ih
      | chunk _ _ => exact ih
      | eof _ => exact ih
      | netError => exact ih
  exact key es

/-! ### cached_equals_original -/

/-- the table a result stands for -/
def Result.sym (P : ParserModel) : Result → Option P.Sym
  | .localFile b => P.parse b
  | .downloaded rx u => (P.stream rx).map fun r => P.setUrl r.2 u
  | .notFound => none

/-- the entry a successful download leaves on a free name is the body followed by the note, and
    that body ends in a line feed (`ends_with_newline`, /repo 4002240) -/
theorem cached_entry_shape (hl : ParserLaws P) (c : Cache) (req : Req) (es : List Ev)
    (rx : List Bytes) (u : Url) (e : Bytes) (hfree : c req.path = none)
    (hrun : (runTask (P := P) c req .start es).2 = .done (.downloaded rx u))
    (hentry : (runTask (P := P) c req .start es).1 req.path = some (.file e)) :
    e = bodyOf rx ++ trailer u ∧ EndsNl (bodyOf rx) := by
  have key : ∀ (es : List Ev) (c0 : Cache) (ph : Phase P), PhaseInv req ph →
      (runTask c0 req ph es).2 = .done (.downloaded rx u) →
      (runTask c0 req ph es).1 req.path = c0 req.path ∨
      ((runTask c0 req ph es).1 req.path = some (.file (bodyOf rx ++ trailer u)) ∧ EndsNl (bodyOf rx)) ∨
      (runTask c0 req ph es).1 req.path = none := by
    intro es
    induction es with
    | nil => intro c0 ph _ _; exact Or.inl rfl
    | cons ev es ih =>
      intro c0 ph hph hd
      simp only [runTask] at hd ⊢
      rcases step_cache hl c0 req ph ev hph with hc | ⟨u', rest, temp, nl, ps, rx', io, t, _, _, _, _, hends, hd', hcm⟩
      · have := ih (step c0 req ph ev).1 (step c0 req ph ev).2 (CacheFs.step_inv c0 req ph ev hph) hd
        rw [hc] at this ⊢
        exact this
      · rw [hd', runTask_done] at hd ⊢
        have : rx' = rx ∧ u' = u := by simpa using hd
        obtain ⟨rfl, rfl⟩ := this
        show (step c0 req ph ev).1 req.path = _ ∨ _
        rw [hcm]
        rcases (commit_spec c0 req.path u' (bodyOf rx') io).2 with h1 | h1 | ⟨h1, _⟩
        · exact Or.inl h1
        · exact Or.inr (Or.inl ⟨h1, hends⟩)
        · exact Or.inr (Or.inr h1)
  rcases key es c .start trivial hrun with h | ⟨h, hends⟩ | h
  · rw [h, hfree] at hentry; cases hentry
  · rw [h] at hentry; cases hentry; exact ⟨rfl, hends⟩
  · rw [h] at hentry; cases hentry

/-- **cached_equals_original** — "a later lookup served from the cache without network access yields
    the same symbol table and URL as the original download": a call ends as `downloaded rx u` and
    has put an entry `e` at its cache path (the name was free before). Then a later call for the
    same module with NO server configured finds `e`, and parsing `e` gives exactly the table the
    download returned, URL included. Uses `info_url_trailer` (for URLs as `Url::to_string` writes
    them) and `chunk_independent` (hence `hshort`/`hshortE`: all lines of the body, and of the entry
    — i.e. the note too —, shorter than 80 KiB, the domain on which C10 proves that the streaming
    parse and the parse of the file agree).

    That the committed body ends in a line feed — which `info_url_trailer` needs — is established
    by the commit step itself (`ends_with_newline`, /repo 4002240). Before that repair the real
    parser's `Ok` for a body with an over-long unterminated last line led to an entry whose note
    was glued to that line and lost on re-reading; this check found it (corpus case `+L170000`). -/
theorem cached_equals_original (hl : ParserLaws P) (c : Cache) (req : Req) (es : List Ev)
    (rx : List Bytes) (u : Url) (e : Bytes) (hu : UrlClean u) (hshort : P.shortLines (bodyOf rx))
    (hshortE : P.shortLines (bodyOf rx ++ trailer u)) (hfree : c req.path = none)
    (hrun : (runTask (P := P) c req .start es).2 = .done (.downloaded rx u))
    (hentry : (runTask (P := P) c req .start es).1 req.path = some (.file e)) :
    let c' := (runTask (P := P) c req .start es).1
    let later : Req := { path := req.path, localHit := none, urls := [] }
    e = bodyOf rx ++ trailer u ∧
    step (P := P) c' later .start .lookup = (c', .done (.localFile e)) ∧
    (∃ t, Result.sym P (.downloaded rx u) = some (P.setUrl t u)) ∧
    Result.sym P (.localFile e) = Result.sym P (.downloaded rx u) := by
  intro c' later
  obtain ⟨he, hnl⟩ := cached_entry_shape hl c req es rx u e hfree hrun hentry
  obtain ⟨t, hs⟩ : ∃ t, P.stream rx = some (bodyOf rx, t) := by
    rcases downloaded_is_complete hl c req .start trivial es rx u hrun with h | ⟨_, h⟩
    · cases h
    · exact h
  have hparse : P.parse (bodyOf rx) = some t := hl.chunk_independent rx _ t hshort hs
  refine ⟨he, ?_, ⟨t, by simp [Result.sym, hs]⟩, ?_⟩
  · show (match lookupLocal c' later with
        | some b => (c', Phase.done (Result.localFile b))
        | none => (c', nextUrl later.urls)) = _
    have : lookupLocal c' later = some e := by
      simp only [lookupLocal, later]
      show (match c' req.path with | some (.file b) => some b | _ => none) = some e
      rw [show c' req.path = some (.file e) from hentry]
    rw [this]
  · simp only [Result.sym, hs, he, Option.map_some]
    exact hl.info_url_trailer (bodyOf rx) t u hu hnl hshortE hparse

/-! ### the real parser: the same theorems with NO assumption about the parser

  `Real.model` is the byte-level model of the Breakpad symbol parser (C09/C10: `MdModel.SymLine`,
  `MdModel.SymParse`) driven by the loop of `parse_async` (the blocks of `MdModel.Stream`).
  `Real.laws : ParserLaws Real.model` is proved in `MdProofs.Lemmas.CacheFsReal`; `Real.feed_total` /
  `Real.finish_total` there show that the model's `none` only ever stands for an `Err` of
  `parse_async` (no panic outcome, fuel never exhausted, `Ok` only at the end of the response). -/

/-- the three parser laws are theorems for the real parser model -/
theorem real_parser_laws : ParserLaws Real.model := Real.laws

/-- **cache_inv**, real parser: every entry is an initial one, or
    `body ++ "INFO URL " ++ url ++ "\n"` for a response that arrived completely and that
    `parse_async` parsed `Ok`, requested at that URL for that path -/
theorem cache_inv_real (c0 : Cache) (reqs : List Req) (evs : List (Nat × Ev)) :
    let w := (World.mk (P := Real.model) c0 (reqs.map fun r => (r, .start))).run evs
    ∀ p n, w.cache p = some n → c0 p = some n ∨ GoodEntry Real.model reqs p n :=
  cache_inv Real.laws c0 reqs evs

/-- … and such an entry's body ends in a line feed and (all lines shorter than 80 KiB) is
    accepted by `SymbolFile::from_bytes` -/
theorem goodEntry_parses_real {reqs : List Req} {p : Path} {n : Node} (h : GoodEntry Real.model reqs p n) :
    ∃ body u, n = .file (body ++ trailer u) ∧ EndsNl body ∧
      (Real.shortLines body → (Real.parse body).isSome = true) :=
  goodEntry_parses Real.laws h

/-- **failure_leaves_nothing**, real parser -/
theorem failure_leaves_nothing_real (c : Cache) (req : Req) (ph : Phase Real.model)
    (hph : PhaseInv req ph) (es : List Ev)
    (hfail : ∀ rx u, (runTask c req ph es).2 ≠ .done (.downloaded rx u)) :
    (runTask c req ph es).1 = c :=
  failure_leaves_nothing Real.laws c req ph hph es hfail

/-- **downloaded_is_complete**, real parser -/
theorem downloaded_is_complete_real (c : Cache) (req : Req) (es : List Ev) (rx : List Bytes) (u : Url)
    (hd : (runTask (P := Real.model) c req .start es).2 = .done (.downloaded rx u)) :
    u ∈ req.urls ∧ ∃ t, Real.model.stream rx = some (bodyOf rx, t) := by
  rcases downloaded_is_complete Real.laws c req .start trivial es rx u hd with h | h
  · cases h
  · exact h

/-- **temp_is_prefix**, real parser -/
theorem temp_is_prefix_real (c : Cache) (req : Req) (es : List Ev) (t : Bytes)
    (h : (runTask (P := Real.model) c req .start es).2.temp = some t) :
    ∃ u rest temp nl ps rx, (runTask (P := Real.model) c req .start es).2 = .streaming u rest temp nl ps rx ∧
      ∃ more, t ++ more = bodyOf rx :=
  temp_is_prefix Real.laws c req es t h

/-- **cached_equals_original**, real parser — "a later lookup served from the cache without network
    access yields the same symbol table and URL as the original download", with no assumption about
    the parser: a call ends as `downloaded rx u` and has put an entry `e` on a free name, every line
    of `e` being shorter than 80 KiB (C10's domain). Then `e` is the body followed by the note, a
    later call with no server finds `e`, and `SymbolFile::from_file` on `e` (`Real.parse`) returns
    exactly the table `parse_async` returned for the download, with `url = Some(u)`. -/
theorem cached_equals_original_real (c : Cache) (req : Req) (es : List Ev)
    (rx : List Bytes) (u : Url) (e : Bytes) (hu : UrlClean u) (hshort : Real.shortLines e)
    (hfree : c req.path = none)
    (hrun : (runTask (P := Real.model) c req .start es).2 = .done (.downloaded rx u))
    (hentry : (runTask (P := Real.model) c req .start es).1 req.path = some (.file e)) :
    let c' := (runTask (P := Real.model) c req .start es).1
    let later : Req := { path := req.path, localHit := none, urls := [] }
    e = bodyOf rx ++ trailer u ∧
    step (P := Real.model) c' later .start .lookup = (c', .done (.localFile e)) ∧
    ∃ t, Real.model.stream rx = some (bodyOf rx, t) ∧ Real.parse e = some { t with url := some u } := by
  intro c' later
  obtain ⟨he, _⟩ := cached_entry_shape Real.laws c req es rx u e hfree hrun hentry
  have hE : Real.shortLines (bodyOf rx ++ trailer u) := he ▸ hshort
  have hB : Real.shortLines (bodyOf rx) := Real.ShortLines.prefix hE
  obtain ⟨h1, h2, _, h4⟩ := cached_equals_original Real.laws c req es rx u e hu hB hE hfree hrun hentry
  obtain ⟨_, t, hs⟩ := downloaded_is_complete_real c req es rx u hrun
  refine ⟨h1, h2, t, hs, ?_⟩
  have h4' : Real.parse e = (Real.model.stream rx).map fun r => Real.model.setUrl r.2 u := h4
  rw [h4', hs]
  rfl

/-- … the same with the hypothesis split into its parts: all lines of the BODY shorter than 80 KiB and a
    URL shorter than 80 KiB − 10 (that the body ends in a line feed is established by the commit step) -/
theorem cached_equals_original_real' (c : Cache) (req : Req) (es : List Ev)
    (rx : List Bytes) (u : Url) (e : Bytes) (hu : UrlClean u) (hshort : Real.shortLines (bodyOf rx))
    (hulen : u.length + 10 < 81920) (hfree : c req.path = none)
    (hrun : (runTask (P := Real.model) c req .start es).2 = .done (.downloaded rx u))
    (hentry : (runTask (P := Real.model) c req .start es).1 req.path = some (.file e)) :
    e = bodyOf rx ++ trailer u ∧
    ∃ t, Real.model.stream rx = some (bodyOf rx, t) ∧ Real.parse e = some { t with url := some u } := by
  obtain ⟨he, hnl⟩ := cached_entry_shape Real.laws c req es rx u e hfree hrun hentry
  have hE : Real.shortLines e := he ▸ Real.shortLines_entry (bodyOf rx) u hshort hnl hulen
  obtain ⟨h1, _, h3⟩ := cached_equals_original_real c req es rx u e hu hE hfree hrun hentry
  exact ⟨h1, h3⟩

theorem bodyOf_append (xs ys : List Bytes) : bodyOf (xs ++ ys) = bodyOf ys ++ bodyOf xs := by
  induction xs with
  | nil => simp [bodyOf]
  | cons x xs ih => simp [bodyOf, ih]

theorem bodyOf_reverse (xs : List Bytes) : bodyOf xs.reverse = xs.flatten := by
  induction xs with
  | nil => rfl
  | cons x xs ih => simp [bodyOf_append, bodyOf, ih]

/-- **download_is_cached_real** — the other direction of `cache_inv` for the real parser, under
    EVERY chunking: a response whose body `SymbolFile::from_bytes` accepts (all lines shorter than
    80 KiB, ending in a line feed), delivered completely in ANY chunks to a call that found nothing
    locally, with no i/o failure and a free name, ends as `downloaded` and leaves exactly
    `body ++ "INFO URL " ++ url ++ "\n"` at the cache path. (So `GoodEntry` is inhabited for every
    such response and chunking; uses the completeness of the stream parse, `Real.stream_complete`.) -/
theorem download_is_cached_real (c : Cache) (req : Req) (u : Url) (rest : List Url) (chunks : List Bytes)
    (t : Sym.SymbolFile) (hurls : req.urls = u :: rest) (hlocal : req.localHit = none)
    (hfree : c req.path = none) (hshort : Real.shortLines chunks.flatten) (hnl : EndsNl chunks.flatten)
    (hparse : Real.parse chunks.flatten = some t) :
    runTask (P := Real.model) c req .start
      ([.lookup, .status 200 true] ++ (chunks.map fun b => Ev.chunk b true) ++ [.eof ⟨true, true, true, true⟩]) =
    (c.set req.path (some (.file (chunks.flatten ++ trailer u))), .done (.downloaded chunks.reverse u)) := by
  have hbody : bodyOf chunks.reverse = chunks.flatten := bodyOf_reverse chunks
  have hs : Real.model.stream chunks.reverse = some (bodyOf chunks.reverse, t) :=
    Real.stream_complete chunks.reverse t (hbody ▸ hshort) (hbody ▸ hparse)
  -- the state after the chunks, and the end of the response
  obtain ⟨s1, cb1, fin, hr, hfin, hcb⟩ : ∃ s1 cb1 fin, Real.model.runRev chunks.reverse = some (s1, cb1) ∧
      Real.model.finish s1 = some (fin, t) ∧ cb1 ++ fin = chunks.flatten := by
    unfold ParserModel.stream at hs
    cases hr : Real.model.runRev chunks.reverse with
    | none => rw [hr] at hs; simp at hs
    | some r =>
      obtain ⟨s1, cb1⟩ := r
      rw [hr] at hs
      dsimp only at hs
      cases hf : Real.model.finish s1 with
      | none => rw [hf] at hs; simp at hs
      | some r2 =>
        obtain ⟨fin, t'⟩ := r2
        rw [hf] at hs
        have hp : (cb1 ++ fin, t') = (bodyOf chunks.reverse, t) := Option.some.inj hs
        have h1 : cb1 ++ fin = bodyOf chunks.reverse := (Prod.mk.inj hp).1
        have h2 : t' = t := (Prod.mk.inj hp).2
        refine ⟨s1, cb1, fin, rfl, ?_, ?_⟩
        · exact h2 ▸ hf
        · rw [h1, hbody]
  have e1 : step (P := Real.model) c req .start .lookup = (c, .awaitStatus u rest) := by
    simp [step, lookupLocal, hlocal, hfree, hurls, nextUrl]
  have e2 : step (P := Real.model) c req (.awaitStatus u rest) (.status 200 true) =
      (c, .streaming u rest (some []) false Real.model.init []) := rfl
  have e3 := runTask_chunks (P := Real.model) c req u rest chunks [] Real.model.init [] s1 cb1 rfl
    (by simpa using hr)
  have hnl' : updNl (updNl false cb1) fin = true := by
    rw [updNl_append, hcb]
    obtain ⟨pre, hpre⟩ := hnl
    rw [hpre]
    simp [updNl]
  have e4 : step (P := Real.model) c req (.streaming u rest (some cb1) (updNl false cb1) s1 (chunks.reverse ++ []))
      (.eof ⟨true, true, true, true⟩) =
      (commit c req.path u chunks.flatten ⟨true, true, true, true⟩, .done (.downloaded (chunks.reverse ++ []) u)) :=
    step_eof_commit hfin (by simp [tee, hcb]) hnl'
  rw [runTask_append, runTask_append]
  simp only [runTask, e1, e2]
  have e3' : runTask (P := Real.model) c req (.streaming u rest (some []) false Real.model.init [])
      (chunks.map fun b => Ev.chunk b true) =
      (c, .streaming u rest (some cb1) (updNl false cb1) s1 (chunks.reverse ++ [])) := e3
  rw [e3', e4]
  simp [commit, hfree]

/-- a sufficient condition for the hypothesis: an entry shorter than 80 KiB has short lines -/
theorem shortLines_of_length (e : Bytes) (h : e.length < 81920) : Real.shortLines e := by
  intro a seg b he _
  have : e.length = a.length + seg.length + b.length := by rw [he]; simp only [List.length_append]
  show seg.length < 163840 / 2
  omega

/-! ### the opaque download path (`locate_file` → `fetch_lookup`): binaries and extra debug files

  No parser is involved: an entry must be exactly the bytes of a completely received response (no
  URL note), under the same temp-file discipline. Theorems about `MdModel.CacheFs.File`, for ANY
  events, drop point and interleaving of calls. -/
namespace File

/-- An entry made by an opaque download: some call for that path ended as `fetched rx u` — which
    only the END of a response produces (`File.step_cache`), `rx` being all the chunks of that
    response — at one of its URLs, and the entry is exactly those bytes. -/
def FileEntry (w : World) (p : Path) (n : Node) : Prop :=
  ∃ r rx u, (r, Phase.done (.fetched rx u)) ∈ w.tasks ∧ r.path = p ∧ u ∈ r.urls ∧ n = .file (bodyOf rx)

def WorldInv (init : Cache) (w : World) : Prop :=
  (∀ t ∈ w.tasks, PhaseInv t.1 t.2) ∧
  (∀ p n, init p = some n → w.cache p = some n) ∧
  (∀ p n, w.cache p = some n → init p = some n ∨ FileEntry w p n)

private theorem mem_set_of_mem {α : Type} {l : List α} {i : Nat} {x y y' : α} (h : x ∈ l) (hi : l[i]? = some y) :
    x ∈ l.set i y' ∨ x = y := by
  induction l generalizing i with
  | nil => cases h
  | cons a as ih =>
    cases i with
    | zero =>
      simp at hi
      rcases List.mem_cons.mp h with h1 | h1
      · right; rw [h1, hi]
      · left; simp [h1]
    | succ i =>
      simp at hi
      rcases List.mem_cons.mp h with h1 | h1
      · left; simp [h1]
      · rcases ih h1 hi with h2 | h2
        · left; simp [h2]
        · right; exact h2

private theorem World.step_inv (init : Cache) (w : World) (i : Nat) (e : Ev) (h : WorldInv init w) :
    WorldInv init (w.step i e) := by
  unfold World.step
  cases hi : w.tasks[i]? with
  | none => exact h
  | some tk =>
    obtain ⟨req, ph⟩ := tk
    have hmem : (req, ph) ∈ w.tasks := List.mem_of_getElem? hi
    have hph : PhaseInv req ph := h.1 _ hmem
    -- finished calls stay in the task list
    have hkeep : ∀ p n, FileEntry w p n →
        FileEntry { cache := (File.step w.cache req ph e).1, tasks := w.tasks.set i (req, (File.step w.cache req ph e).2) } p n := by
      intro p n ⟨r, rx, u, hm, h1, h2, h3⟩
      refine ⟨r, rx, u, ?_, h1, h2, h3⟩
      rcases mem_set_of_mem (y' := (req, (File.step w.cache req ph e).2)) hm hi with h4 | h4
      · exact h4
      · have : req = r ∧ ph = .done (.fetched rx u) := by cases h4; exact ⟨rfl, rfl⟩
        obtain ⟨rfl, rfl⟩ := this
        rw [step_done]
        exact List.mem_set (List.getElem?_eq_some_iff.mp hi).1 _
    refine ⟨?_, ?_, ?_⟩
    · intro t ht
      rcases List.mem_or_eq_of_mem_set ht with h1 | h1
      · exact h.1 t h1
      · subst h1; exact File.step_inv _ _ _ _ hph
    · intro p n hn
      exact step_keeps w.cache req ph e hph p n (h.2.1 p n hn)
    · intro p n hn
      simp only [] at hn
      rcases step_cache w.cache req ph e hph with hc | ⟨u, rest, rx, io, _, _, hu, hfree, hd, hset⟩
      · rw [hc] at hn
        rcases h.2.2 p n hn with h1 | h1
        · exact Or.inl h1
        · exact Or.inr (hkeep p n h1)
      · rw [hset] at hn
        unfold Cache.set at hn
        by_cases hp : p = req.path
        · simp only [hp, if_true] at hn
          right
          refine ⟨req, rx, u, ?_, hp.symm, hu, by cases hn; rfl⟩
          show (req, Phase.done (.fetched rx u)) ∈ w.tasks.set i (req, (File.step w.cache req ph e).2)
          rw [hd]
          exact List.mem_set (List.getElem?_eq_some_iff.mp hi).1 _
        · simp only [hp, if_false] at hn
          rcases h.2.2 p n hn with h1 | h1
          · exact Or.inl h1
          · exact Or.inr (hkeep p n h1)

private theorem World.run_inv (init : Cache) (w : World) (evs : List (Nat × Ev)) (h : WorldInv init w) :
    WorldInv init (w.run evs) := by
  induction evs generalizing w with
  | nil => exact h
  | cons x xs ih =>
    obtain ⟨i, e⟩ := x
    exact ih _ (World.step_inv init w i e h)

/-- **file_cache_inv** — "a file appears at a cache path only after the whole [file] was
    downloaded": start any number of `locate_file` calls on any cache `c0`; after ANY interleaved
    event sequence every entry of the cache is one `c0` already had, or exactly the bytes of a
    response that was received completely (the call ended as `fetched`), for that path, at one of
    the call's URLs — with no note appended; and everything `c0` had is still there, untouched
    (`fetch_lookup` has no `remove_file`; `persist_noclobber` never replaces). -/
theorem file_cache_inv (c0 : Cache) (reqs : List Req) (evs : List (Nat × Ev)) :
    let w := (World.mk c0 (reqs.map fun r => (r, .start))).run evs
    (∀ p n, c0 p = some n → w.cache p = some n) ∧
    (∀ p n, w.cache p = some n → c0 p = some n ∨ FileEntry w p n) := by
  intro w
  have h0 : WorldInv c0 (World.mk c0 (reqs.map fun r => (r, .start))) := by
    refine ⟨?_, fun _ _ h => h, fun _ _ h => Or.inl h⟩
    intro t ht
    obtain ⟨r, _, rfl⟩ := List.mem_map.mp ht
    trivial
  exact (World.run_inv c0 _ evs h0).2

/-- **file_failure_leaves_nothing** — a call that does not end as `fetched` (error status, network
    error, body shorter than announced, `create_cache_file` or a write failing, the name being
    taken, drop at any point, still in flight) leaves the cache literally unchanged. -/
theorem file_failure_leaves_nothing (c : Cache) (req : Req) (ph : Phase) (hph : PhaseInv req ph)
    (es : List Ev) (hfail : ∀ rx u, (runTask c req ph es).2 ≠ .done (.fetched rx u)) :
    (runTask c req ph es).1 = c := by
  induction es generalizing c ph with
  | nil => rfl
  | cons e es ih =>
    simp only [runTask] at hfail ⊢
    rcases step_cache c req ph e hph with hc | ⟨u, rest, rx, io, _, _, _, _, hd, _⟩
    · have := ih (step c req ph e).1 (step c req ph e).2 (File.step_inv c req ph e hph) hfail
      rw [this, hc]
    · exfalso
      apply hfail rx u
      rw [hd, runTask_done]

/-- **file_fetched_entry** — a call that ends as `fetched rx u` has put exactly the received bytes at
    its path, which was free, and a later network-less lookup finds that file. -/
theorem file_fetched_entry (c : Cache) (req : Req) (es : List Ev) (rx : List Bytes) (u : Url)
    (hrun : (runTask c req .start es).2 = .done (.fetched rx u)) :
    c req.path = none ∧ (runTask c req .start es).1 = c.set req.path (some (.file (bodyOf rx))) ∧
    lookupLocal (runTask c req .start es).1 { path := req.path, localHit := none, urls := [] } = some (bodyOf rx) := by
  have key : ∀ (es : List Ev) (c0 : Cache) (ph : Phase), PhaseInv req ph → ph ≠ .done (.fetched rx u) →
      (runTask c0 req ph es).2 = .done (.fetched rx u) →
      c0 req.path = none ∧ (runTask c0 req ph es).1 = c0.set req.path (some (.file (bodyOf rx))) := by
    intro es
    induction es with
    | nil => intro c0 ph _ hne hd; exact absurd hd hne
    | cons e es ih =>
      intro c0 ph hph hne hd
      simp only [runTask] at hd ⊢
      rcases step_cache c0 req ph e hph with hc | ⟨u', rest, rx', io, _, _, _, hfree, hd', hset⟩
      · by_cases hdone : (step c0 req ph e).2 = .done (.fetched rx u)
        · -- the step produced the result without touching the cache: impossible
          exfalso
          cases ph with
          | done r => rw [step_done] at hdone; exact hne (by cases hdone; rfl)
          | dropped => rw [step_dropped] at hdone; cases hdone
          | start =>
            cases e <;> simp [step] at hdone
            · cases hl : lookupLocal c0 req <;> simp [hl] at hdone
              cases hu : req.urls <;> simp [hu, nextUrl] at hdone
          | awaitStatus u0 rest0 =>
            cases e <;> simp [step] at hdone
            · split at hdone
              · cases rest0 <;> simp [nextUrl] at hdone
              · split at hdone
                · simp at hdone
                · cases rest0 <;> simp [nextUrl] at hdone
            · cases rest0 <;> simp [nextUrl] at hdone
          | streaming u0 rest0 temp0 rx0 =>
            cases e <;> simp [step] at hdone
            · split at hdone
              · simp at hdone
              · cases rest0 <;> simp [nextUrl] at hdone
            · -- eof with an unchanged cache: the fetch failed
              have hc' := hc
              simp only [step] at hc' hdone
              cases hcp : c0 req.path with
              | some n => simp [hcp] at hdone; cases rest0 <;> simp [nextUrl] at hdone
              | none =>
                simp only [hcp] at hc' hdone
                split at hdone
                · -- persistOk: the cache did change
                  rename_i hpo
                  simp only [hpo, if_true] at hc'
                  have := congrFun hc' req.path
                  simp [Cache.set, hcp] at this
                · cases rest0 <;> simp [nextUrl] at hdone
            · cases rest0 <;> simp [nextUrl] at hdone
        · have := ih (step c0 req ph e).1 (step c0 req ph e).2 (File.step_inv c0 req ph e hph) hdone hd
          rw [hc] at this ⊢
          exact this
      · rw [hd', runTask_done] at hd ⊢
        have : rx' = rx ∧ u' = u := by simpa using hd
        obtain ⟨rfl, rfl⟩ := this
        exact ⟨hfree, hset⟩
  obtain ⟨h1, h2⟩ := key es c .start trivial (by simp) hrun
  refine ⟨h1, h2, ?_⟩
  rw [h2]
  simp [lookupLocal, Cache.set]

/-- the future has completed or has been dropped -/
def Phase.finished : Phase → Prop
  | .done _ => True
  | .dropped => True
  | _ => False

/-- **file_no_stray_temp** — once every call has completed or has been dropped the tmp directory is
    empty; and dropping a call after ANY events leaves no temp file and does not touch the cache. -/
theorem file_no_stray_temp (w : World) (h : ∀ t ∈ w.tasks, t.2.finished) : w.liveTemps = [] := by
  unfold World.liveTemps
  rw [List.filterMap_eq_nil_iff]
  intro t ht
  have := h t ht
  cases hp : t.2 <;> simp [hp, Phase.finished] at this <;> rfl

theorem file_no_stray_temp_after_drop (c : Cache) (req : Req) (ph : Phase) :
    (step c req ph .drop).2.temp = none ∧ (step c req ph .drop).2.finished ∧ (step c req ph .drop).1 = c := by
  cases ph <;> simp [step, Phase.temp, Phase.finished]

/-- **file_temp_is_body** — a live temp file holds exactly the chunks received so far of the response
    being downloaded: never anything that is not part of the file. -/
theorem file_temp_is_body (c : Cache) (req : Req) (es : List Ev) (t : Bytes)
    (h : (runTask c req .start es).2.temp = some t) :
    ∃ u rest rx, (runTask c req .start es).2 = .streaming u rest t rx ∧ t = bodyOf rx := by
  have hinv := runTask_inv c req .start es trivial
  cases hph : (runTask c req .start es).2 with
  | streaming u rest temp rx =>
    rw [hph] at hinv h
    have : temp = t := by simpa [Phase.temp] using h
    subst this
    exact ⟨u, rest, rx, rfl, hinv.2⟩
  | start => rw [hph] at h; simp [Phase.temp] at h
  | awaitStatus _ _ => rw [hph] at h; simp [Phase.temp] at h
  | done _ => rw [hph] at h; simp [Phase.temp] at h
  | dropped => rw [hph] at h; simp [Phase.temp] at h

end File

/-! ### the hypotheses are inhabited, and concrete runs -/

/-- the parser instance the compiled model runs satisfies the three laws -/
example : ParserLaws Toy.model := Toy.laws

section examples
open Toy

private def asc (s : String) : Bytes := s.toList.map fun c => UInt8.ofNat c.toNat
private def l1 : Bytes := asc "MODULE Linux x86 ABC a\n"
private def l2 : Bytes := asc "FILE 0 x.c\nPUB"
private def l3 : Bytes := asc "LIC 10 0 f\n"
private def bad : Bytes := asc "!garbage\n"
private def url0 : Url := asc "http://h/s0/a.sym"
private def url1 : Url := asc "http://h/s1/a.sym"
private def req0 : Req := { path := "a/ID/a.sym", localHit := none, urls := [url0, url1] }
private def empty : Cache := fun _ => none
private def okIo : CommitIo := ⟨true, true, true, true⟩

/-- success: the entry is the body plus the note -/
example :
    (runTask (P := model) empty req0 .start
      [.lookup, .status 200 true, .chunk l1 true, .chunk l2 true, .chunk l3 true, .eof okIo]).1 "a/ID/a.sym"
    = some (.file (l1 ++ l2 ++ l3 ++ trailer url0)) := by decide

/-- 404 at the first server, success at the second: cached with the second URL -/
example :
    (runTask (P := model) empty req0 .start
      [.lookup, .status 404 true, .status 200 true, .chunk (l1 ++ l2 ++ l3) true, .eof okIo]).1 "a/ID/a.sym"
    = some (.file (l1 ++ l2 ++ l3 ++ trailer url1)) := by decide

/-- truncated (network error before the end), corrupt line, unterminated last line, drop mid-body:
    nothing is cached -/
example :
    (runTask (P := model) empty req0 .start
      [.lookup, .status 200 true, .chunk l1 true, .chunk l2 true, .netError, .netError]).1 "a/ID/a.sym" = none := by
  decide
example :
    (runTask (P := model) empty req0 .start
      [.lookup, .status 200 true, .chunk l1 true, .chunk bad true, .chunk l3 true, .eof okIo, .status 500 true]).1
      "a/ID/a.sym" = none := by decide
example :
    (runTask (P := model) empty req0 .start
      [.lookup, .status 200 true, .chunk l1 true, .chunk l2 true, .eof okIo, .netError]).1 "a/ID/a.sym" = none := by
  decide
example :
    (runTask (P := model) empty req0 .start
      [.lookup, .status 200 true, .chunk l1 true, .drop, .chunk l2 true, .chunk l3 true, .eof okIo]).1 "a/ID/a.sym"
    = none := by decide

/-- the tee gave up (a write failed): the parse still succeeds, nothing is cached -/
example :
    (runTask (P := model) empty req0 .start
      [.lookup, .status 200 true, .chunk l1 true, .chunk l2 false, .chunk l3 true, .eof okIo]).1 "a/ID/a.sym"
    = none := by decide

/-- a later lookup is served from the entry, with the URL -/
example :
    Toy.parse (l1 ++ l2 ++ l3 ++ trailer url0) =
      some { recs := (Toy.symOf (l1 ++ l2 ++ l3)).recs, url := some url0 } := by decide

/-! #### the real parser on a concrete download

  `MODULE Linux x86 ABC a\nFUNC 1000 10 0 f\n` arrives in two chunks split inside the FUNC line
  (the body ends inside an open FUNC item, which the note then finishes): `parse_async` awaits
  after each chunk (decided by evaluating the model), `finish` returns `Ok` (`Real.finish_total`
  + evaluation of the loop), the entry is body ++ note, and — by `cached_equals_original_real` —
  reading it back gives the downloaded table with the URL. -/

private def rb1 : Bytes := asc "MODULE Linux x86 ABC a\nFUNC 10"
private def rb2 : Bytes := asc "00 10 0 f\n"

/-- the hypotheses of `cached_equals_original_real` are satisfiable, and its conclusion on that run -/
example : ∃ t, Real.parse (rb1 ++ rb2 ++ trailer url0) = some { t with url := some url0 } ∧
    Real.model.stream [rb2, rb1] = some (rb1 ++ rb2, t) := by
  -- feeding the two chunks: the loop awaits after each, having handed the complete lines to the callback
  have hA : (match Real.feed Real.init rb1 with
      | some (s1, cb1) =>
        (match Real.feed s1 rb2 with
         | some (s2, cb2) =>
           (cb1 ++ cb2 == rb1 ++ rb2) &&
           (match Real.drain (Real.finishFuel s2) s2 with | some (.ok _, _) => true | _ => false)
         | none => false)
      | none => false) = true := by decide
  cases hf1 : Real.feed Real.init rb1 with
  | none => rw [hf1] at hA; cases hA
  | some r1 =>
    obtain ⟨s1, cb1⟩ := r1
    rw [hf1] at hA
    simp only [] at hA
    cases hf2 : Real.feed s1 rb2 with
    | none => rw [hf2] at hA; cases hA
    | some r2 =>
      obtain ⟨s2, cb2⟩ := r2
      rw [hf2] at hA
      simp only [Bool.and_eq_true, beq_iff_eq] at hA
      obtain ⟨hcb, hdr⟩ := hA
      have hrun : Real.model.runRev [rb2, rb1] = some (s2, cb1 ++ cb2) := by
        show (match (match (some (Real.init, []) : Option (Real.LoopSt × Bytes)) with
                | none => none
                | some (s, cb) => (match Real.feed s rb1 with
                  | none => none
                  | some (s', cb') => some (s', cb ++ cb'))) with
              | none => none
              | some (s, cb) => (match Real.feed s rb2 with
                | none => none
                | some (s', cb') => some (s', cb ++ cb'))) = _
        simp only [hf1, hf2, List.nil_append]
      -- `finish`: total, and here not an `Err`
      rcases Real.finish_total [rb2, rb1] s2 _ hrun with ⟨fin, t, hfin⟩ | ⟨k, l, sf, herr⟩
      · have hbody := (Real.callback_prefix_real [rb2, rb1] s2 _ hrun).2 fin t hfin
        have hstream : Real.model.stream [rb2, rb1] = some (rb1 ++ rb2, t) := by
          unfold ParserModel.stream
          rw [hrun]
          simp only [hfin]
          rw [hbody]
          rfl
        -- the run of the cache protocol: entry = body ++ note
        have hf1' : Real.model.feed Real.model.init rb1 = some (s1, cb1) := hf1
        have hf2' : Real.model.feed s1 rb2 = some (s2, cb2) := hf2
        have hbody' : cb1 ++ cb2 ++ fin = rb1 ++ rb2 := hbody
        have hnl : updNl (updNl (updNl false cb1) cb2) fin = true := by
          rw [updNl_append, updNl_append, ← List.append_assoc, hbody']; decide
        have hrun' : runTask (P := Real.model) empty req0 .start
            [.lookup, .status 200 true, .chunk rb1 true, .chunk rb2 true, .eof okIo] =
            (commit empty req0.path url0 (rb1 ++ rb2) okIo, .done (.downloaded [rb2, rb1] url0)) := by
          have e1 : step (P := Real.model) empty req0 .start .lookup = (empty, .awaitStatus url0 [url1]) := rfl
          have e2 : step (P := Real.model) empty req0 (.awaitStatus url0 [url1]) (.status 200 true) =
              (empty, .streaming url0 [url1] (some []) false Real.model.init []) := rfl
          simp only [runTask, e1, e2, step_chunk_some hf1', step_chunk_some hf2']
          rw [step_eof_commit hfin (tt := rb1 ++ rb2) (by simp [tee, okIo, ← hbody']) hnl]
        refine ⟨t, ?_, hstream⟩
        have hentry : (runTask (P := Real.model) empty req0 .start
            [.lookup, .status 200 true, .chunk rb1 true, .chunk rb2 true, .eof okIo]).1 req0.path =
            some (.file (rb1 ++ rb2 ++ trailer url0)) := by rw [hrun']; rfl
        obtain ⟨_, _, t', hs', hp'⟩ := cached_equals_original_real empty req0 _ [rb2, rb1] url0
          (rb1 ++ rb2 ++ trailer url0) (by unfold UrlClean; decide) (shortLines_of_length _ (by decide)) rfl
          (by rw [hrun']) hentry
        rw [hstream] at hs'
        have : t' = t := by cases hs'; rfl
        rw [← this]; exact hp'
      · rw [herr] at hdr; cases hdr

/-- real parser: a corrupt line makes `parse_async` return `Err` (nothing will be cached) -/
example : (Real.feed Real.init (asc "MODULE Linux x86 ABC a\n!garbage\n")).isNone = true := by decide

/-- real parser: an unterminated last line — the complete line is handed to the callback, and the
    end of the response is an `Err` (`unexpected EOF`) -/
example : (match Real.feed Real.init (asc "MODULE Linux x86 ABC a\nPUB") with
    | some (s, cb) => cb == asc "MODULE Linux x86 ABC a\n" && (Real.finish s).isNone
    | none => false) = true := by decide

/-! #### the opaque download path on concrete runs -/

private def binReq : Req := { path := "a.pdb/ID/a.dll", localHit := none, urls := [url0, url1] }
private def f1 : Bytes := [0x4d, 0x5a, 0x90, 0x00]
private def f2 : Bytes := [0x03, 0x00, 0x0a]

/-- success: the entry is exactly the received bytes (no note) -/
example : File.runTask empty binReq .start [.lookup, .status 200 true, .chunk f1 true, .chunk f2 true, .eof okIo]
    = (empty.set "a.pdb/ID/a.dll" (some (.file (f1 ++ f2))), .done (.fetched [f2, f1] url0)) := by
  have : (File.runTask empty binReq .start [.lookup, .status 200 true, .chunk f1 true, .chunk f2 true, .eof okIo]).2
      = .done (.fetched [f2, f1] url0) := by decide
  obtain ⟨_, h2, _⟩ := File.file_fetched_entry empty binReq _ _ _ this
  exact Prod.ext h2 this

/-- a response cut short, then a 404 at the second server: nothing is cached, no temp file -/
example : (File.runTask empty binReq .start [.lookup, .status 200 true, .chunk f1 true, .netError, .status 404 true]).2
    = .done .notFound := by decide
example : (File.runTask empty binReq .start [.lookup, .status 200 true, .chunk f1 true, .netError, .status 404 true]).1
    "a.pdb/ID/a.dll" = none := by decide

/-- a failing write ENDS this fetch (unlike the symbol path, which only gives up on caching): the
    second server is asked, and its complete response is what gets cached -/
example : (File.runTask empty binReq .start
      [.lookup, .status 200 true, .chunk f1 false, .chunk f2 true, .status 200 true, .chunk f2 true, .eof okIo]).2
    = .done (.fetched [f2] url1) := by decide

/-- a directory (or anything else) at the name: `persist_noclobber` fails, the entry is never replaced -/
example : (File.runTask (fun q => if q = "a.pdb/ID/a.dll" then some .dir else none) binReq .start
      [.lookup, .status 200 true, .chunk f1 true, .eof okIo, .status 200 true, .chunk f1 true, .eof okIo]).2
    = .done .notFound := by decide

/-- dropped mid-body: no temp file, cache untouched -/
example : File.runTask empty binReq .start [.lookup, .status 200 true, .chunk f1 true, .drop, .chunk f2 true, .eof okIo]
    = (empty, .dropped) := by
  have hd : (File.runTask empty binReq .start
      [.lookup, .status 200 true, .chunk f1 true, .drop, .chunk f2 true, .eof okIo]).2 = .dropped := by decide
  have h := File.file_failure_leaves_nothing empty binReq .start trivial
    [.lookup, .status 200 true, .chunk f1 true, .drop, .chunk f2 true, .eof okIo]
    (by intro rx u h; rw [hd] at h; cases h)
  exact Prod.ext h hd

/-- the machines the compiled model runs in the correspondence check are the step functions the
    theorems are about -/
example : Real.machine.step = step (P := Real.model) := rfl
example : File.machine.step = File.step := rfl

end examples

end MdModel.CacheFs
