/-
  C17 — Symbol lookup paths derived from module names stay inside the symbol directories.

  Property text: "For every module name and identifier found in a dump — arbitrary strings using
  either path-separator style — the relative paths used to look up, download and cache its symbol
  file, binary and debug file are genuinely relative: they never start with a separator or a
  drive/UNC prefix and contain no `..` component. Joining them to a symbol directory, a cache
  directory or a server URL therefore never leaves that root."

  The theorems are about `MdModel.Paths` (the model the compiled driver executes and the `paths`
  engine compares with `breakpad_sym_lookup`, `code_info_breakpad_sym_lookup`,
  `extra_debuginfo_lookup`, `binary_lookup`, `lookup` and `moz_lookup` on every run).
  File names are arbitrary `List Char` (any length, any character incl. NUL and non-ASCII);
  identifiers are arbitrary (`DebugId` with any bytes/appendix, `CodeId` from any raw string).
-/
import MdProofs.Lemmas.Paths
namespace MdModel.Paths
open MdModel

/-! ## 0. the shape of every lookup result: `leaf/id/file` -/

theorem lookup_three {m : Module} {k : FileKind} {l : FileLookup} (h : lookup m k = some l) :
    Three l.cache_rel ∧ Three l.server_rel := by
  unfold lookup lookupWith at h
  cases k with
  | BreakpadSym =>
    simp only [breakpadSymLookupWith, Option.bind_eq_bind, Option.bind_eq_some_iff] at h
    obtain ⟨df, _, did, _, leaf, hleaf, h⟩ := h
    cases h
    have hl := (safeLeafname_some hleaf).1
    exact ⟨hl.three_ext (breakpad_hex did), hl.three_ext (breakpad_hex did)⟩
  | Binary =>
    simp only [binaryLookupWith, Option.bind_eq_bind, Option.bind_eq_some_iff] at h
    obtain ⟨cid, _, df, _, did, _, bl, hbl, dl, hdl, h⟩ := h
    cases h
    have hb := (safeLeafname_some hbl).1
    have hd := (safeLeafname_some hdl).1
    exact ⟨hd.three_leaf hb (breakpad_hex did), hb.three_leaf hb (codeIdNew_mem cid)⟩
  | ExtraDebugInfo =>
    simp only [extraDebuginfoLookupWith, Option.bind_eq_bind, Option.bind_eq_some_iff] at h
    obtain ⟨df, _, did, _, leaf, hleaf, h⟩ := h
    cases h
    have hl := (safeLeafname_some hleaf).1
    exact ⟨hl.three_leaf hl (breakpad_hex did), hl.three_leaf hl (breakpad_hex did)⟩

theorem code_info_three {m : Module} {r : Str} (h : codeInfoBreakpadSymLookup m = some r) :
    Three r := by
  unfold codeInfoBreakpadSymLookup codeInfoLookupWith at h
  simp only [Option.bind_eq_bind, Option.bind_eq_some_iff] at h
  obtain ⟨cid, _, h⟩ := h
  split at h
  · cases h
  · simp only [Option.bind_eq_some_iff] at h
    obtain ⟨leaf, hleaf, h⟩ := h
    cases h
    exact (safeLeafname_some hleaf).1.three_ext (codeIdNew_upper_mem cid)

/-! ## 1. "the relative paths used to look up, download and cache its symbol file, binary and
      debug file are genuinely relative: they never start with a separator or a drive/UNC prefix
      and contain no `..` component" -/

/-- **C17.1** — all three `FileKind`s, every module: both relative paths of a lookup are rooted.
    No hypothesis on the file names or identifiers. -/
theorem rel_is_rooted (m : Module) (k : FileKind) (l : FileLookup) (h : lookup m k = some l) :
    Rooted l.cache_rel ∧ Rooted l.server_rel :=
  ⟨(lookup_three h).1.rooted, (lookup_three h).2.rooted⟩

/-- **C17.2** — the code-info variant (`code_info_breakpad_sym_lookup`). -/
theorem code_info_rel_is_rooted (m : Module) (r : Str) (h : codeInfoBreakpadSymLookup m = some r) :
    Rooted r :=
  (code_info_three h).rooted

/-- **C17.3** — the mozilla-CAB variant: on every lookup result `moz_lookup` does not panic
    (its `pop().unwrap()` finds a character) and the mangled lookup is still rooted. -/
theorem moz_rel_is_rooted (m : Module) (k : FileKind) (l : FileLookup) (h : lookup m k = some l) :
    ∃ l', mozLookup l = .ok l' ∧ Rooted l'.cache_rel ∧ Rooted l'.server_rel := by
  have h3 := lookup_three h
  unfold mozLookup
  rw [if_neg h3.2.ne_nil]
  exact ⟨_, rfl, h3.1.rooted, h3.2.moz.rooted⟩

/-- what the clauses of `Rooted` exclude, spelled out: no leading `/` or `\`, no UNC prefix (two
    leading separators), no drive prefix `[A-Za-z]:`, no `..` component on either separator. -/
theorem Rooted.spelled_out {p : Str} (h : Rooted p) :
    (∀ rest, p ≠ '/' :: rest) ∧ (∀ rest, p ≠ '\\' :: rest) ∧
    (∀ a b rest, p = a :: b :: rest → ¬ (isSep a = true ∧ isSep b = true)) ∧
    (∀ a rest, a.isAlpha = true → p ≠ a :: ':' :: rest) ∧
    dotdot ∉ splitOnP isSep p := by
  refine ⟨?_, ?_, ?_, ?_, h.no_dotdot⟩
  · intro rest e; subst e
    have := h.no_leading_sep '/' (by simp); revert this; decide
  · intro rest e; subst e
    have := h.no_leading_sep '\\' (by simp); revert this; decide
  · intro a b rest e hab; subst e
    have := h.no_leading_sep a (by simp)
    simp [hab.1] at this
  · intro a rest ha e; subst e
    have := h.no_drive
    simp [hasDrivePrefix, ha] at this

/-! ## 2. "Joining them to a symbol directory, a cache directory … therefore never leaves that
      root" — `Path::join`, in both separator flavours -/

theorem flavor_sep_isSep (f : Flavor) (c : Char) (h : f.isSep c = true) : isSep c = true := by
  cases f
  · simp [Flavor.isSep] at h; subst h; decide
  · exact h

/-- a `..` component in one flavour is a `..` component when splitting on both separators -/
theorem dotdot_flavor_comps {f : Flavor} {p : Str} (h : dotdot ∈ splitOnP f.isSep p) :
    dotdot ∈ comps p :=
  mem_splitOnP_refine (flavor_sep_isSep f) h (by decide)

theorem Rooted.not_replaces {rel : Str} (h : Rooted rel) (f : Flavor) : f.replaces rel = false := by
  unfold Flavor.replaces
  cases rel with
  | nil => exact absurd rfl h.nonempty
  | cons c cs =>
    have hc := h.no_leading_sep c (by simp)
    have hf : f.isSep c = false := by
      cases hfc : f.isSep c with
      | false => rfl
      | true => rw [flavor_sep_isSep f c hfc] at hc; cases hc
    cases f <;> simp [hf, h.no_drive]

theorem walkDepth_no_dotdot (ws : List Str) (h : dotdot ∉ ws) (d : Nat) :
    walkDepth d ws = some (d + ws.length) := by
  induction ws generalizing d with
  | nil => simp [walkDepth]
  | cons w ws ih =>
    have hw : w ≠ dotdot := fun e => h (by simp [e])
    have := ih (fun hm => h (by simp [hm])) (d + 1)
    simp [walkDepth, hw, this]; omega

theorem mainSep_isSep (f : Flavor) : f.isSep f.mainSep = true := by cases f <;> decide

theorem flavor_comps_append_sep (f : Flavor) (a : Str) {s : Char} (hs : f.isSep s = true) (b : Str) :
    f.comps (a ++ s :: b) = f.comps a ++ f.comps b := by
  unfold Flavor.comps
  rw [splitOnP_append_sep' a hs b, List.filter_append]

/-- **C17.4 `join_stays_inside`** — joining a rooted relative path onto ANY root with
    `Path::join`, in the Unix flavour (`/` only) and in the Windows flavour (both separators,
    drive prefixes), never leaves that root:
    * the root is kept (the argument does not replace it): the result is `root`, possibly one
      separator, then `rel`;
    * the normalised components of the result are the root's followed by those of `rel`;
    * none of the latter is `..`, so a component walk below the root only ever descends
      (`walkDepth` — the walk the engine's oracle performs on the real `Path` — never fails). -/
theorem join_stays_inside (f : Flavor) (root rel : Str) (h : Rooted rel) :
    (∃ glue, (glue = [] ∨ glue = [f.mainSep]) ∧ pathJoin f root rel = root ++ glue ++ rel) ∧
    f.comps (pathJoin f root rel) = f.comps root ++ f.comps rel ∧
    dotdot ∉ f.comps rel ∧
    ∀ d, walkDepth d (f.comps rel) = some (d + (f.comps rel).length) := by
  have hnd : dotdot ∉ f.comps rel := by
    intro hm
    exact h.no_dotdot (dotdot_flavor_comps (List.mem_filter.mp hm).1)
  refine ⟨?_, ?_, hnd, walkDepth_no_dotdot _ hnd⟩
  · unfold pathJoin
    rw [h.not_replaces f]
    simp only [Bool.false_eq_true, if_false]
    split
    · exact ⟨[f.mainSep], Or.inr rfl, by simp⟩
    · exact ⟨[], Or.inl rfl, by simp⟩
  · unfold pathJoin
    rw [h.not_replaces f]
    simp only [Bool.false_eq_true, if_false]
    cases hn : f.needSep root with
    | true =>
      simp only [if_true]
      exact flavor_comps_append_sep f root (mainSep_isSep f) rel
    | false =>
      simp only [Bool.false_eq_true, if_false]
      unfold Flavor.needSep at hn
      cases hl : root.getLast? with
      | none =>
        have : root = [] := List.getLast?_eq_none_iff.mp hl
        subst this
        simp [Flavor.comps, splitOnP]
      | some c =>
        rw [hl] at hn
        have hc : f.isSep c = true := by simpa using hn
        obtain ⟨r, hr⟩ := List.getLast?_eq_some_iff.mp hl
        subst hr
        have e1 : r ++ [c] ++ rel = r ++ c :: rel := by simp
        have e2 : f.comps (r ++ [c]) = f.comps r := by
          rw [flavor_comps_append_sep f _ hc []]
          simp [Flavor.comps, splitOnP]
        rw [e1, flavor_comps_append_sep f _ hc rel, e2]

/-- the corollary in the form the property states it, for every lookup and both joins the
    consumers perform (`cache.join(cache_rel)`, `symbol_dir.join(cache_rel)`) -/
theorem lookup_join_stays_inside (m : Module) (k : FileKind) (l : FileLookup)
    (h : lookup m k = some l) (f : Flavor) (root : Str) :
    f.comps (pathJoin f root l.cache_rel) = f.comps root ++ f.comps l.cache_rel ∧
    dotdot ∉ f.comps l.cache_rel :=
  let j := join_stays_inside f root l.cache_rel (rel_is_rooted m k l h).1
  ⟨j.2.1, j.2.2.1⟩

/-! ## 3. "Joining them to … a server URL therefore never leaves that root" —
      `join_lookup_path` (http.rs), the only way a lookup path reaches a URL -/

theorem urlSegChars_plain : ∀ c ∈ urlSegChars,
    c ≠ '/' ∧ c ≠ '\\' ∧ c ≠ '?' ∧ c ≠ '#' ∧ 32 < c.toNat ∧ c.toNat < 127 := by decide

theorem splitOnP_joinWith {p : Char → Bool} {sep : Char} (hs : p sep = true) :
    ∀ segs : List Str, segs ≠ [] → (∀ s ∈ segs, ∀ c ∈ s, p c = false) →
      splitOnP p (joinWith [sep] segs) = segs
  | [], h, _ => absurd rfl h
  | [x], _, hx => by simpa [joinWith] using splitOnP_nosep (hx x (by simp))
  | x :: y :: rest, _, hx => by
    have ih := splitOnP_joinWith hs (y :: rest) (by simp) (fun s hm => hx s (by simp [hm]))
    have : joinWith [sep] (x :: y :: rest) = x ++ sep :: joinWith [sep] (y :: rest) := by
      simp [joinWith]
    rw [this, splitOnP_append_sep (hx x (by simp)) hs, ih]

/-- **C17.6 `join_lookup_path_inside`** — for EVERY relative string (not only lookup results) and
    every base path: if a URL is produced at all, its path is the base directory followed by the
    percent-encoded components of `rel`, where
    * no component of `rel` is `.` or `..` (such a `rel` is refused);
    * every character of an encoded segment is an ASCII letter, digit, one of
      `- . _ ~ ! $ & ' ( ) * + , ; = : @` or `%` — in particular no `/`, `\`, `?`, `#`, no
      space, control or non-ASCII character (`urlSegChars_plain`): nothing a URL parser trims,
      deletes or treats as a delimiter, so the path's segments below the base directory are
      exactly these segments;
    * percent-decoding a segment gives back the UTF-8 bytes of the component, so no segment is
      an encoded `.`/`..` either.
    Scheme, host and port are not touched by the function (only `set_path`). -/
theorem join_lookup_path_inside (bp rel p : Str) (h : joinLookupPath bp rel = some p) :
    ∃ dir, baseDir bp = some dir ∧
      p = dir ++ joinWith ['/'] ((splitOnP (· == '/') rel).map pctEncode) ∧
      splitOnP (· == '/') (joinWith ['/'] ((splitOnP (· == '/') rel).map pctEncode))
        = (splitOnP (· == '/') rel).map pctEncode ∧
      (∀ c ∈ splitOnP (· == '/') rel, c ≠ ['.'] ∧ c ≠ dotdot) ∧
      (∀ s ∈ (splitOnP (· == '/') rel).map pctEncode, ∀ ch ∈ s, ch ∈ urlSegChars) ∧
      ((splitOnP (· == '/') rel).map pctEncode).map pctDecode = (splitOnP (· == '/') rel).map utf8 := by
  unfold joinLookupPath at h
  split at h
  · cases h
  · rename_i dir hdir
    simp only at h
    split at h
    · cases h
    · rename_i hany
      cases h
      have hchars : ∀ s ∈ (splitOnP (· == '/') rel).map pctEncode, ∀ ch ∈ s, ch ∈ urlSegChars := by
        intro s hs ch hch
        obtain ⟨w, _, rfl⟩ := List.mem_map.mp hs
        exact pctEncode_chars w ch hch
      refine ⟨dir, hdir, rfl, ?_, ?_, hchars, ?_⟩
      · apply splitOnP_joinWith (by decide)
        · simpa using splitOnP_ne_nil _ rel
        · intro s hs c hc
          have := (urlSegChars_plain c (hchars s hs c hc)).1
          simpa using this
      · intro c hc
        simp only [List.any_eq_true, Bool.or_eq_true, beq_iff_eq, not_exists, not_and, not_or] at hany
        exact hany c hc
      · simp [List.map_map, Function.comp_def, pctDecode_pctEncode]

theorem Three.split_slash {p : Str} (h : Three p) :
    ∃ leaf id file, splitOnP (· == '/') p = [leaf, id, file] ∧
      leaf ≠ ['.'] ∧ leaf ≠ dotdot ∧ id ≠ ['.'] ∧ id ≠ dotdot ∧ file ≠ ['.'] ∧ file ≠ dotdot := by
  obtain ⟨leaf, id, file, rfl, hl, hi, hi2, hi3, hf, _, hf2, hf3⟩ := h
  have ns : ∀ {w : Str}, (∀ c ∈ w, isSep c = false) → ∀ c ∈ w, (c == '/') = false := by
    intro w hw c hc
    have := hw c hc
    cases hcc : (c == '/') with
    | false => rfl
    | true => simp [isSep, hcc] at this
  refine ⟨leaf, id, file, ?_, hl.not_dot, hl.not_dotdot, hi3, hi2, hf3, hf2⟩
  rw [joinWith3]
  have e1 : leaf ++ slash ++ (id ++ slash ++ file) = leaf ++ '/' :: (id ++ '/' :: file) := by
    simp [slash, List.append_assoc]
  rw [e1, splitOnP_append_sep (ns hl.nosep) (by decide), splitOnP_append_sep (ns hi) (by decide),
    splitOnP_nosep (ns hf)]

theorem Three.join_some {p : Str} (h : Three p) {bp dir : Str} (hb : baseDir bp = some dir) :
    ∃ u, joinLookupPath bp p = some u := by
  obtain ⟨leaf, id, file, hs, h1, h2, h3, h4, h5, h6⟩ := h.split_slash
  unfold joinLookupPath
  rw [hb, hs]
  simp [h1, h2, h3, h4, h5, h6]

/-- **C17.7** — every lookup path (all three kinds, the CAB variant and the code-info variant) is
    accepted by `join_lookup_path` (the download is attempted), and by C17.6 the URL stays below
    the base directory. -/
theorem lookup_url_stays_inside (m : Module) (k : FileKind) (l : FileLookup) (h : lookup m k = some l)
    (bp dir : Str) (hb : baseDir bp = some dir) :
    (∃ u, joinLookupPath bp l.server_rel = some u) ∧
    (∀ l', mozLookup l = .ok l' → ∃ u, joinLookupPath bp l'.server_rel = some u) := by
  have h3 := (lookup_three h).2
  refine ⟨h3.join_some hb, ?_⟩
  intro l' hl'
  unfold mozLookup at hl'
  rw [if_neg h3.ne_nil] at hl'
  cases hl'
  exact h3.moz.join_some hb

theorem code_info_url_stays_inside (m : Module) (r : Str) (h : codeInfoBreakpadSymLookup m = some r)
    (bp dir : Str) (hb : baseDir bp = some dir) : ∃ u, joinLookupPath bp r = some u :=
  (code_info_three h).join_some hb

def witnessModuleC (code_file : String) : Module :=
  { code_file := code_file.toList, code_id := some [], debug_file := some ['d'],
    debug_id := some ⟨true, [1, 2, 3, 4], 1⟩ }

/-- what the pre-fix consumer (`Url::join(server_rel)`, WHATWG reference parsing — not modelled)
    was exposed to: lookup results that are `Rooted` and yet begin with a URL scheme. The engine
    replays these against `url::Url::join` (`urlref` cases: other origin / outside the base path). -/
theorem old_url_join_hazard :
    ∃ l, lookup (witnessModuleC "http:evil.com") .Binary = some l ∧ Rooted l.server_rel ∧
      hasSchemePrefix l.server_rel = true :=
  ⟨_, rfl, (rootedb_iff _).mp (by decide), by decide⟩

example : (joinLookupPath "/base/dir/".toList "http:evil.com/AB/a b%2e.sym".toList).map String.ofList
    = some "/base/dir/http:evil.com/AB/a%20b%252e.sym" := by decide
example : joinLookupPath "/base/dir/".toList "a/../b".toList = none := by decide
example : baseDir "/base/file".toList = some "/base/".toList := by decide

/-! ## 4. the hypothesis of the repair is needed: the pre-fix code (`leafname` only) violates the
      property — the four witnesses of finding F17 -/

def witnessModule (debug_file : String) : Module :=
  { code_file := [], code_id := none, debug_file := some debug_file.toList,
    debug_id := some ⟨false, [0,1,2,3,4,5,6,7,8,9,10,11,12,13,14,15], 1⟩ }

/-- **C17.5** — before the repair, `debug_file = ".."` gave `../<id>/...sym`, and `""`, `"a/"`,
    `"/"` gave `/<id>/.sym` (absolute: `Path::join` then discards the cache directory). -/
theorem old_lookup_not_rooted :
    ∀ w ∈ ["..", "", "a/", "/"], ∃ l, lookupOld (witnessModule w) .BreakpadSym = some l ∧
      ¬ Rooted l.cache_rel ∧ ¬ Rooted l.server_rel := by
  intro w hw
  simp only [List.mem_cons, List.not_mem_nil, or_false] at hw
  rcases hw with rfl | rfl | rfl | rfl <;>
    refine ⟨_, rfl, ?_, ?_⟩ <;> rw [← rootedb_iff] <;> decide

/-- … and the joined path indeed leaves the root: for `".."` the walk climbs above it, for `""`
    the argument replaces the root. -/
example : (lookupOld (witnessModule "..") .BreakpadSym).map
    (fun l => walkDepth 0 (Flavor.unix.comps l.cache_rel)) = some none := by decide
example : (lookupOld (witnessModule "") .BreakpadSym).map
    (fun l => Flavor.unix.replaces l.cache_rel) = some true := by decide

/-- the current code refuses exactly these names -/
example : ∀ w ∈ ["..", "", "a/", "/", "foo/..", ".", "C:", "c:evil", "a\\.."],
    lookup (witnessModule w) .BreakpadSym = none := by decide

/-! ## non-vacuity: concrete instances of every hypothesis -/

/-- `lookup … = some l` is satisfiable, with a Windows-style name -/
example : ∃ l, lookup (witnessModule "c:\\dir\\test.pdb") .BreakpadSym = some l ∧
    l.cache_rel = "test.pdb/000102030405060708090A0B0C0D0E0F1/test.sym".toList := ⟨_, rfl, by decide⟩

def exBin : Module :=
  ⟨"/usr/lib/libé.so".toList, some "AB cd!".toList, some "a/b\\..x".toList,
    some ⟨true, [0x5a, 0x0b, 0x1c, 0x2d], 255⟩⟩

example : ∃ l, lookup exBin .Binary = some l ∧ l.server_rel = "libé.so/abcd/libé.so".toList ∧
    l.cache_rel = "..x/5A0B1C2Dff/libé.so".toList := ⟨_, rfl, by decide, by decide⟩

def exCode : Module := ⟨"C:\\w\\k.DLL".toList, some "5a0b1c2d1f000".toList, none, none⟩

example : codeInfoBreakpadSymLookup exCode = some "k.DLL/5A0B1C2D1F000/k.sym".toList := by decide

example : Rooted "a/b".toList := (rootedb_iff _).mp (by decide)

end MdModel.Paths
