/-
  C19 — Reported bit-flip candidates are genuine single-bit neighbours in mapped memory.

  Property text: "For every crash address or crashing-instruction register value and every memory
  map, each reported possible bit flip differs from the examined value in exactly one bit inside
  the range allowed for the platform, and is null or lies in a mapped region that permits the
  crashing kind of access. None is reported when the examined address is itself accessible, when
  the access was recognised as a null pointer plus offset, or for 32-bit and ARM64 dumps, and
  every confidence lies between 0 and 1."

  The theorems are about `MdModel.BitFlip` (the model the compiled driver executes and the
  `bitflip` engine compares with `process_minidump(..).exception_info.possible_bit_flips` on every
  run). Addresses, register files and memory maps are arbitrary: any `Nat` address (`< 2^64`
  only where a bound on the *result* is claimed), any lookup function `look`, and — in the
  theorems about `analyse` — any list of regions of any length.
-/
import MdProofs.Lemmas.BitFlip
namespace MdModel.BitFlip
open MdModel

/-! ## 1. "differs from the examined value in exactly one bit inside the allowed range" -/

/-- **C19.1** every candidate `try_bit_flips` reports for the examined value `a` is
    `a ^ (1 << i)` for a bit position `i` of the range. -/
theorem flip_is_neighbour {a : Nat} {src : Option String} {R : BitRange} {ctx : Option Ctx}
    {look : Nat → Option Perm} {op : MemOp} {r : Flip}
    (h : r ∈ tryBitFlips a src R ctx look op) :
    ∃ i ∈ R.bits, r.addr = a ^^^ (1 <<< i) := by
  obtain ⟨_, i, hi, hc⟩ := mem_tryBitFlips h
  obtain ⟨rfl, _⟩ := mem_candidatesAt hc
  exact ⟨i, hi, rfl⟩

/-- the ranges the code uses: `0..48`, `48..64`, `0..64` -/
theorem bits_amd64Canonical (i : Nat) : i ∈ BitRange.amd64Canonical.bits ↔ i < 48 := by
  simp [BitRange.mem_bits, BitRange.lo, BitRange.hi]
theorem bits_amd64NonCanonical (i : Nat) : i ∈ BitRange.amd64NonCanonical.bits ↔ 48 ≤ i ∧ i < 64 := by
  simp [BitRange.mem_bits, BitRange.lo, BitRange.hi]
theorem bits_all (i : Nat) : i ∈ BitRange.all.bits ↔ i < 64 := by
  simp [BitRange.mem_bits, BitRange.lo, BitRange.hi]

/-- `a ^ (1 << i)` and `a` differ in bit `i` and in no other bit ("exactly one bit"). -/
theorem neighbour_exactly_one_bit (a i j : Nat) :
    ((a ^^^ (1 <<< i)).testBit j ≠ a.testBit j) ↔ j = i := by
  rw [flip_testBit]
  cases a.testBit j <;> by_cases h : i = j <;> simp [h] <;> omega

/-- **C19.1'** the same fact in terms of bits: the candidate differs from the examined value in
    exactly one bit, that bit lies in the range, the candidate is a `u64` and is not the
    examined value itself. -/
theorem flip_one_bit {a : Nat} {src : Option String} {R : BitRange} {ctx : Option Ctx}
    {look : Nat → Option Perm} {op : MemOp} {r : Flip} (ha : a < 2 ^ 64)
    (h : r ∈ tryBitFlips a src R ctx look op) :
    ∃ i, R.lo ≤ i ∧ i < R.hi ∧ i < 64 ∧ (∀ j, (r.addr.testBit j ≠ a.testBit j) ↔ j = i)
      ∧ r.addr < 2 ^ 64 ∧ r.addr ≠ a := by
  obtain ⟨i, hi, hr⟩ := flip_is_neighbour h
  have hb := BitRange.mem_bits.mp hi
  have h64 : i < 64 := Nat.lt_of_lt_of_le hb.2 (BitRange.hi_le_64 R)
  refine ⟨i, hb.1, hb.2, h64, ?_, ?_, ?_⟩
  · intro j; rw [hr]; exact neighbour_exactly_one_bit a i j
  · rw [hr]; exact flip_lt ha h64
  · rw [hr]; exact flip_ne a i

/-! ## 2. "is null or lies in a mapped region that permits the crashing kind of access" -/

/-- **C19.2** exactly what the code checks: the candidate is `0`, or `memory_info_at_address`
    finds a region for it and `is_possibly_allowed_for` holds for that region. -/
theorem flip_mapped {a : Nat} {src : Option String} {R : BitRange} {ctx : Option Ctx}
    {look : Nat → Option Perm} {op : MemOp} {r : Flip}
    (h : r ∈ tryBitFlips a src R ctx look op) :
    r.addr = 0 ∨ ∃ m, look r.addr = some m ∧ op.possiblyAllowed m = true := by
  obtain ⟨_, i, _, hc⟩ := mem_tryBitFlips h
  obtain ⟨rfl, h0 | hacc⟩ := mem_candidatesAt hc
  · exact Or.inl h0
  · exact Or.inr (accessible_iff.mp hacc)

/-- what "permits" means per kind of access (`is_possibly_allowed_for`): an undetermined
    operation is allowed everywhere, otherwise the matching permission is required. -/
theorem possiblyAllowed_spec (op : MemOp) (p : Perm) :
    op.possiblyAllowed p = true ↔
      (op = .undetermined ∨ (op = .read ∧ p.r = true) ∨ (op = .write ∧ p.w = true)
        ∨ (op = .execute ∧ p.x = true)) := by
  cases op <;> simp [MemOp.possiblyAllowed]

/-- only a Windows access violation determines the operation -/
theorem fromReason_spec (r : Reason) :
    MemOp.fromReason r = (match r with
      | .winAvRead => .read | .winAvWrite => .write | .winAvExec => .execute
      | .other => .undetermined) := by
  cases r <;> rfl

/-! ## 3. "none is reported when the examined address is itself accessible" -/

/-- **C19.3** -/
theorem none_if_accessible {a : Nat} {src : Option String} {R : BitRange} {ctx : Option Ctx}
    {look : Nat → Option Perm} {op : MemOp} {m : Perm}
    (hl : look a = some m) (hp : op.possiblyAllowed m = true) :
    tryBitFlips a src R ctx look op = [] := by
  unfold tryBitFlips
  have : accessible look op a = true := accessible_iff.mpr ⟨m, hl, hp⟩
  simp [this]

/-- conversely, a reported candidate witnesses that the examined value was not accessible -/
theorem flip_examined_not_accessible {a : Nat} {src : Option String} {R : BitRange}
    {ctx : Option Ctx} {look : Nat → Option Perm} {op : MemOp} {r : Flip}
    (h : r ∈ tryBitFlips a src R ctx look op) :
    ∀ m, look a = some m → op.possiblyAllowed m = false := by
  intro m hl
  have hacc := (mem_tryBitFlips h).1
  cases hp : op.possiblyAllowed m
  · rfl
  · rw [none_if_accessible hl hp] at h; cases h

/-- the analysis is not vacuous: when the examined value is not accessible, every in-range
    neighbour that is null or mapped-and-permitted IS reported. -/
theorem flip_complete {a : Nat} {src : Option String} {R : BitRange} {ctx : Option Ctx}
    {look : Nat → Option Perm} {op : MemOp} {i : Nat}
    (hacc : accessible look op a = false) (hi : i ∈ R.bits)
    (h : a ^^^ (1 <<< i) = 0 ∨ ∃ m, look (a ^^^ (1 <<< i)) = some m ∧ op.possiblyAllowed m = true) :
    ∃ r ∈ tryBitFlips a src R ctx look op, r.addr = a ^^^ (1 <<< i) ∧ r.src = src := by
  refine ⟨_, mem_tryBitFlips_of (src := src) (ctx := ctx) hacc hi ?_, rfl, rfl⟩
  rcases h with h | h
  · exact Or.inl h
  · exact Or.inr (accessible_iff.mpr h)

/-! ## 4. gating: 32-bit, ARM64, null pointer plus offset -/

/-- **C19.4a** 32-bit (and unknown-width) platforms: nothing is reported. -/
theorem gating_not_64bit (inp : Input) (look : Nat → Option Perm)
    (h : inp.cpu.pointerWidth ≠ .b64) : checkBitflips inp look = [] := by
  unfold checkBitflips; simp [h]

/-- the 32-bit CPUs of `system_info::Cpu` -/
theorem gating_32bit (inp : Input) (look : Nat → Option Perm)
    (h : inp.cpu = .x86 ∨ inp.cpu = .ppc ∨ inp.cpu = .sparc ∨ inp.cpu = .arm ∨ inp.cpu = .mips
      ∨ inp.cpu = .unknown) :
    checkBitflips inp look = [] := by
  apply gating_not_64bit
  rcases h with h | h | h | h | h | h <;> rw [h] <;> decide

/-- **C19.4b** ARM64: nothing is reported. -/
theorem gating_arm64 (inp : Input) (look : Nat → Option Perm) (h : inp.cpu = .arm64) :
    checkBitflips inp look = [] := by
  unfold checkBitflips; simp [h]

/-- **C19.4c** access recognised as a null pointer plus offset: nothing is reported — neither for
    the crash address nor by the register pass. -/
theorem gating_null_pointer_offset (inp : Input) (look : Nat → Option Perm) (off : Nat)
    (h : inp.adjusted = some (.nullPointerWithOffset off)) : checkBitflips inp look = [] := by
  unfold checkBitflips selectAddress
  simp [h]

/-! ## 5. the whole of `check_for_bitflips`, including the register pass -/

/-- The value a reported flip was derived from: the selected crash address (`src = none`) or the
    value of an instruction register in the exception context (`src = some reg`). -/
def Examined (inp : Input) (a : Nat) (r : Flip) (v : Nat) : Prop :=
  (r.src = none ∧ v = a) ∨
  (∃ reg c, r.src = some reg ∧ inp.ctx = some c ∧ reg ∈ inp.iregs ∧ c.get reg = some v)

/-- the instruction registers are visited in strictly increasing `str` order, each once — the
    iteration order of `BTreeSet<&'static str>` — and exactly the given names are visited. -/
theorem btreeSet_sorted (l : List String) : (btreeSet l).Pairwise (· < ·) := by
  unfold btreeSet
  suffices ∀ acc : List String, acc.Pairwise (· < ·) →
      (l.foldl (fun acc s => insertSorted s acc) acc).Pairwise (· < ·) from this [] List.Pairwise.nil
  induction l with
  | nil => intro acc h; exact h
  | cons s rest ih => intro acc h; exact ih _ (insertSorted_sorted s acc h)

theorem mem_btreeSet_iff (x : String) (l : List String) : x ∈ btreeSet l ↔ x ∈ l := by
  refine ⟨mem_btreeSet, ?_⟩
  unfold btreeSet
  suffices ∀ acc : List String, (x ∈ acc ∨ x ∈ l) →
      x ∈ l.foldl (fun acc s => insertSorted s acc) acc from fun h => this [] (Or.inr h)
  induction l with
  | nil => intro acc h; rcases h with h | h; exact h; cases h
  | cons s rest ih =>
    intro acc h
    simp only [List.foldl_cons]
    apply ih
    rcases h with h | h
    · exact Or.inl (mem_insertSorted_of_mem h)
    · rcases List.mem_cons.mp h with rfl | h
      · exact Or.inl (mem_insertSorted_self _ _)
      · exact Or.inr h
/-- the register the selected address and range come from, per platform -/
theorem selectAddress_spec (inp : Input) (a : Nat) (R : BitRange)
    (h : selectAddress inp = some (a, R)) :
    (∃ v, inp.adjusted = some (.nonCanonical v) ∧ a = v ∧ R = .amd64NonCanonical) ∨
    (inp.adjusted = none ∧ a = inp.address ∧
      ((inp.cpu = .amd64 ∧ R = .amd64Canonical) ∨ (inp.cpu ≠ .amd64 ∧ R = .all))) := by
  unfold selectAddress at h
  split at h
  · rename_i v hv
    simp at h
    exact Or.inl ⟨v, hv, h.1.symm, h.2.symm⟩
  · cases h
  · rename_i hn
    simp at h
    refine Or.inr ⟨hn, h.1.symm, ?_⟩
    by_cases hc : inp.cpu = .amd64
    · left; simp [hc] at h; exact ⟨hc, h.2.symm⟩
    · right; simp [hc] at h; exact ⟨hc, h.2.symm⟩

/-- **C19.5 (`register_pass` and the crash-address pass together)** every flip
    `check_for_bitflips` reports — for the crash address or for a register of the crashing
    instruction — is a single-bit neighbour, inside the platform's range, of its examined value;
    it is null or mapped-and-permitted; its examined value is not accessible; and the platform
    is 64-bit, not ARM64, and the access was not recognised as null pointer plus offset. -/
theorem check_flips_sound (inp : Input) (look : Nat → Option Perm) (r : Flip)
    (h : r ∈ checkBitflips inp look) :
    inp.cpu.pointerWidth = .b64 ∧ inp.cpu ≠ .arm64 ∧
    ∃ a R, selectAddress inp = some (a, R) ∧
      ∃ v, Examined inp a r v ∧
        (∃ i ∈ R.bits, r.addr = v ^^^ (1 <<< i)) ∧
        (r.addr = 0 ∨ ∃ m, look r.addr = some m ∧ (MemOp.fromReason inp.reason).possiblyAllowed m = true) ∧
        (∀ m, look v = some m → (MemOp.fromReason inp.reason).possiblyAllowed m = false) := by
  unfold checkBitflips at h
  split at h
  · cases h
  · rename_i h64
    split at h
    · cases h
    · rename_i harm
      refine ⟨by simpa using h64, harm, ?_⟩
      split at h
      · cases h
      · rename_i a R hsel
        refine ⟨a, R, hsel, ?_⟩
        simp only [List.mem_append] at h
        rcases h with h | h
        · -- the crash-address pass
          have hsrc : r.src = none := by
            obtain ⟨_, i, _, hc⟩ := mem_tryBitFlips h
            rw [(mem_candidatesAt hc).1]; rfl
          exact ⟨a, Or.inl ⟨hsrc, rfl⟩, flip_is_neighbour h, flip_mapped h,
            flip_examined_not_accessible h⟩
        · -- the register pass
          split at h
          · cases h
          · rename_i c hc
            unfold registerPass at h
            simp only [List.mem_flatMap] at h
            obtain ⟨reg, hreg, hr⟩ := h
            split at hr
            · cases hr
            · rename_i v hv
              have hsrc : r.src = some reg := by
                obtain ⟨_, i, _, hcand⟩ := mem_tryBitFlips hr
                rw [(mem_candidatesAt hcand).1]; rfl
              exact ⟨v, Or.inr ⟨reg, c, hsrc, hc, mem_btreeSet hreg, hv⟩, flip_is_neighbour hr,
                flip_mapped hr, flip_examined_not_accessible hr⟩

/-- **C19.5' (`register_pass`)** the two facts for the register pass alone, with the register
    value as the examined value. -/
theorem register_pass (c : Ctx) (iregs : List String) (R : BitRange) (look : Nat → Option Perm)
    (op : MemOp) (r : Flip) (h : r ∈ registerPass c iregs R look op) :
    ∃ reg ∈ iregs, ∃ v, c.get reg = some v ∧ r.src = some reg ∧
      (∃ i ∈ R.bits, r.addr = v ^^^ (1 <<< i)) ∧
      (r.addr = 0 ∨ ∃ m, look r.addr = some m ∧ op.possiblyAllowed m = true) := by
  unfold registerPass at h
  simp only [List.mem_flatMap] at h
  obtain ⟨reg, hreg, hr⟩ := h
  split at hr
  · cases hr
  · rename_i v hv
    have hsrc : r.src = some reg := by
      obtain ⟨_, i, _, hcand⟩ := mem_tryBitFlips hr
      rw [(mem_candidatesAt hcand).1]; rfl
    exact ⟨reg, mem_btreeSet hreg, v, hv, hsrc, flip_is_neighbour hr, flip_mapped hr⟩

/-- the range is the one "allowed for the platform": `0..48` for an amd64 crash address,
    `48..64` for a recovered non-canonical address, all 64 bits on other 64-bit CPUs. -/
theorem check_flips_range (inp : Input) (a : Nat) (R : BitRange)
    (h : selectAddress inp = some (a, R)) (i : Nat) (hi : i ∈ R.bits) :
    i < 64 ∧ ((∃ v, inp.adjusted = some (.nonCanonical v)) → 48 ≤ i) ∧
      (inp.adjusted = none → inp.cpu = .amd64 → i < 48) := by
  rcases selectAddress_spec inp a R h with ⟨v, hv, _, rfl⟩ | ⟨hn, _, ⟨hc, rfl⟩ | ⟨hc, rfl⟩⟩
  · have := (bits_amd64NonCanonical i).mp hi
    exact ⟨this.2, fun _ => this.1, fun h => (by rw [hv] at h; cases h)⟩
  · have := (bits_amd64Canonical i).mp hi
    exact ⟨by omega, fun ⟨v, hv⟩ => (by rw [hn] at hv; cases hv), fun _ _ => this⟩
  · have := (bits_all i).mp hi
    exact ⟨this, fun ⟨v, hv⟩ => (by rw [hn] at hv; cases hv), fun _ hc' => absurd hc' hc⟩

/-! ## 6. from the raw region list: mapped means inside an input region's own range (C08) -/

/-- building the lookup table of the memory map never fails (`unwrap` in `into_rangemap_safe`
    cannot fire), for any list of regions. -/
theorem analyse_never_panics (inp : Input) (k : MapKind) (rs : List Region)
    (hb : ∀ r ∈ rs, r.b ≤ U64MAX) :
    analyse inp k rs =
      .ok (checkBitflips inp (lookupIn rs (RangeMap.safeVec (tableInput k rs)))) := by
  unfold analyse
  rw [buildTable_ok k rs hb]

/-- **C19.6** end to end, for ANY list of regions (any length, overlapping, empty, ending at
    `2^64-1`, overflowing): a reported flip is null or lies inside the own `memory_range()` of a
    region of the dump whose permissions possibly allow the crashing kind of access. -/
theorem analyse_flip_in_mapped_region (inp : Input) (k : MapKind) (rs : List Region)
    (hb : ∀ r ∈ rs, r.b ≤ U64MAX) (fs : List Flip) (hfs : analyse inp k rs = .ok fs)
    (r : Flip) (h : r ∈ fs) :
    r.addr = 0 ∨ ∃ reg ∈ rs, (∃ rg, reg.range k = some rg ∧ rg.lo ≤ r.addr ∧ r.addr ≤ rg.hi) ∧
      (MemOp.fromReason inp.reason).possiblyAllowed reg.perm = true := by
  rw [analyse_never_panics inp k rs hb] at hfs
  cases hfs
  obtain ⟨_, _, a, R, _, v, _, _, hm, _⟩ := check_flips_sound inp _ r h
  rcases hm with h0 | ⟨m, hl, hp⟩
  · exact Or.inl h0
  · obtain ⟨reg, hreg, hperm, hrange⟩ := lookupIn_sound k rs r.addr m hl
    exact Or.inr ⟨reg, hreg, hrange, by rw [hperm]; exact hp⟩

/-! ## 7. "every confidence lies between 0 and 1" -/

/-- the index `min(nearby, 4) - 1` of `NEARBY_REGISTER[..]` neither underflows nor is out of
    range when it is evaluated (`nearby > 0`) -/
theorem confidence_index_in_range (n : Nat) (h : n > 0) :
    1 ≤ min n cNEARBY.length ∧ min n cNEARBY.length - 1 < cNEARBY.length := by
  simp only [cNEARBY, List.length_cons, List.length_nil]
  omega

/-- **C19.7** `0 ≤ confidence d ≤ 1` for EVERY details record (any `nearby_registers`). -/
theorem confidence_unit (d : Details) :
    0 ≤ (confidence d).num ∧ (confidence d).num ≤ ((confidence d).den : Int) ∧ 0 < (confidence d).den := by
  have h : (confidence d).Unit := by
    unfold confidence
    have hc := combine_unit (confValues d) (confValues_unit d)
    simp only
    split
    · exact Q.unit_mul hc unit_cMEDIUM
    · exact hc
  exact ⟨h.2.1, h.2.2, h.1⟩

/-- the confidence only depends on `min(nearby_registers, 4)` -/
theorem confidence_clamp (d : Details) :
    confidence d = confidence { d with nearby := min d.nearby 4 } := by
  have h1 : (d.nearby > 0) ↔ (min d.nearby 4 > 0) := by omega
  have h2 : min (min d.nearby 4) cNEARBY.length - 1 = min d.nearby cNEARBY.length - 1 := by
    simp only [cNEARBY, List.length_cons, List.length_nil]; omega
  unfold confidence confValues
  simp only [h2]
  by_cases h : d.nearby > 0
  · have h' := h1.mp h
    simp [h, h']
  · have h' : ¬ (min d.nearby 4 > 0) := fun x => h (h1.mpr x)
    simp [h, h']

/-- every exact confidence value is a multiple of `1/320000` — this is what allows the tie to
    compare the f32 result after quantising it to that grid (each grid point is `3.1e-6` from the
    next, the f32 rounding error is below `1e-7`, and the engine additionally rejects any value that
    is further than `1e-6` from a grid point). -/
theorem confidence_on_grid (d : Details) :
    ((confidence d).num * 320000) % ((confidence d).den : Int) = 0 := by
  rw [confidence_clamp]
  obtain ⟨nc, nul, low, near, poi⟩ := d
  have hm : min near 4 ≤ 4 := by omega
  generalize min near 4 = m at hm
  simp only
  match m, hm with
  | 0, _ => cases nc <;> cases nul <;> cases low <;> cases poi <;> decide +kernel
  | 1, _ => cases nc <;> cases nul <;> cases low <;> cases poi <;> decide +kernel
  | 2, _ => cases nc <;> cases nul <;> cases low <;> cases poi <;> decide +kernel
  | 3, _ => cases nc <;> cases nul <;> cases low <;> cases poi <;> decide +kernel
  | 4, _ => cases nc <;> cases nul <;> cases low <;> cases poi <;> decide +kernel

/-- every reported flip carries the details computed by `calculate_heuristics` for its own
    address, and `is_null` is set exactly for the null candidate -/
theorem flip_details {a : Nat} {src : Option String} {R : BitRange} {ctx : Option Ctx}
    {look : Nat → Option Perm} {op : MemOp} {r : Flip}
    (h : r ∈ tryBitFlips a src R ctx look op) :
    r.details = calcHeuristics r.addr a (R == .amd64NonCanonical) ctx ∧
      (r.details.isNull = true ↔ r.addr = 0) := by
  obtain ⟨_, i, _, hc⟩ := mem_tryBitFlips h
  obtain ⟨rfl, _⟩ := mem_candidatesAt hc
  refine ⟨rfl, ?_⟩
  simp only [mkFlip, calcHeuristics]
  cases ctx <;> simp

/-! ## 8. arithmetic side conditions of the Rust code (no overflow, bounded output) -/

/-- `(addr & 0xff) * 0x0101010101010101` in `is_repeated` cannot overflow a `u64`
    (the harness is built with overflow checks; the model uses unbounded `Nat`). -/
theorem repeat_mul_no_overflow (v : Nat) : (v % 256) * 0x0101010101010101 ≤ U64MAX := by
  have : v % 256 ≤ 255 := by omega
  unfold U64MAX
  omega

/-- `nearby_registers += 1` runs at most once per valid register, so the `u32` counter cannot
    overflow for a context with fewer than 2^32 registers. -/
theorem nearby_le_regs (addr orig : Nat) (nc : Bool) (c : Ctx) :
    (calcHeuristics addr orig nc (some c)).nearby ≤ c.regs.length := by
  simp only [calcHeuristics]
  exact List.length_filter_le _ _

theorem candidatesAt_length_le (a : Nat) (src : Option String) (R : BitRange) (ctx : Option Ctx)
    (look : Nat → Option Perm) (op : MemOp) (i : Nat) :
    (candidatesAt a src R ctx look op i).length ≤ 2 := by
  unfold candidatesAt
  simp only [List.length_append]
  split <;> split <;> simp

/-- at most two entries per bit position (NULL and mapped): never more than 128 candidates per
    examined value. -/
theorem tryBitFlips_length_le (a : Nat) (src : Option String) (R : BitRange) (ctx : Option Ctx)
    (look : Nat → Option Perm) (op : MemOp) :
    (tryBitFlips a src R ctx look op).length ≤ 2 * (R.hi - R.lo) ∧ 2 * (R.hi - R.lo) ≤ 128 := by
  constructor
  · unfold tryBitFlips
    split
    · simp
    · have hlen : R.bits.length = R.hi - R.lo := by simp [BitRange.bits]
      rw [← hlen]
      generalize R.bits = l
      induction l with
      | nil => simp
      | cons i rest ih =>
        simp only [List.flatMap_cons, List.length_append, List.length_cons]
        have := candidatesAt_length_le a src R ctx look op i
        omega
  · cases R <;> simp [BitRange.hi, BitRange.lo]

/-! ## non-vacuity: concrete instances of the hypotheses, and the model run on them -/

/-- the map of `test_bit_flip` plus a no-access page and a region ending at `2^64-2` (a
    memory-info region cannot end at `2^64-1`: `base + size` would overflow, `memory_range()` is
    `None` and the region is dropped — see `exMaps` for the Linux form, which can) -/
def exRegions : List Region :=
  [⟨0x80000, 8, protPerm 0x04⟩, ⟨0x90000, 0x1000, protPerm 0x01⟩,
   ⟨U64MAX - 0xfff, 0xfff, protPerm 0x20⟩]

/-- Linux maps with a region ending at `2^64-1` -/
def exMaps : List Region :=
  [⟨0x80000, 0x80007, ⟨true, true, false⟩⟩, ⟨U64MAX - 0xfff, U64MAX, ⟨true, false, true⟩⟩]

def exInput (cpu : Cpu) (addr : Nat) : Input :=
  { cpu, reason := .other, address := addr, adjusted := none, ctx := none, iregs := [] }

theorem exRegions_wf : ∀ r ∈ exRegions, r.b ≤ U64MAX := by
  intro r hr; simp [exRegions] at hr; rcases hr with rfl | rfl | rfl <;> decide
theorem exMaps_wf : ∀ r ∈ exMaps, r.b ≤ U64MAX := by
  intro r hr; simp [exMaps] at hr; rcases hr with rfl | rfl <;> decide

-- (`mergeSort` is defined by well-founded recursion and does not reduce under `decide`; the
--  example lists are already sorted, so the sort is the identity)
theorem exRegions_sorted :
    RangeMap.sortOpt (tableInput .info exRegions) = tableInput .info exRegions := by
  unfold RangeMap.sortOpt
  apply List.mergeSort_of_pairwise
  decide +kernel
theorem exMaps_sorted : RangeMap.sortOpt (tableInput .maps exMaps) = tableInput .maps exMaps := by
  unfold RangeMap.sortOpt
  apply List.mergeSort_of_pairwise
  decide +kernel

-- the hypothesis `r ∈ fs` of `analyse_flip_in_mapped_region` is satisfiable: `test_bit_flip`'s
-- dump reports the flip 0x80400 -> 0x80000; with an undetermined operation the no-access page
-- at 0x90000 also counts (0x80400 ^ 0x10000), for a read violation it does not
example : (match analyse (exInput .amd64 0x80400) .info exRegions with
    | .ok fs => fs.map (fun f => (f.addr, f.src)) | .panic _ => [])
    = [(0x80000, none), (0x90400, none)] := by
  unfold analyse
  rw [buildTable_ok _ _ exRegions_wf]
  unfold RangeMap.safeVec
  rw [exRegions_sorted]
  decide +kernel
example : (match analyse { exInput .amd64 0x80400 with reason := .winAvRead } .info exRegions with
    | .ok fs => fs.map (fun f => (f.addr, f.src)) | .panic _ => []) = [(0x80000, none)] := by
  unfold analyse
  rw [buildTable_ok _ _ exRegions_wf]
  unfold RangeMap.safeVec
  rw [exRegions_sorted]
  decide +kernel

-- a candidate inside the region ending at 2^64-1 (bit 63 flipped; all 64 bits on ppc64),
-- and the same address on amd64 where bit 63 is outside the canonical range 0..48
example : (match analyse (exInput .ppc64 (U64MAX - 0x7ff - 2^63)) .maps exMaps with
    | .ok fs => fs.map (·.addr) | .panic _ => []) = [U64MAX - 0x7ff] := by
  unfold analyse
  rw [buildTable_ok _ _ exMaps_wf]
  unfold RangeMap.safeVec
  rw [exMaps_sorted]
  decide +kernel
example : (match analyse (exInput .amd64 (U64MAX - 0x7ff - 2^63)) .maps exMaps with
    | .ok fs => fs.map (·.addr) | .panic _ => [1]) = [] := by
  unfold analyse
  rw [buildTable_ok _ _ exMaps_wf]
  unfold RangeMap.safeVec
  rw [exMaps_sorted]
  decide +kernel

-- gating hypotheses are satisfiable, and the same input on amd64 does report a flip
example : checkBitflips (exInput .x86 0x80400) (fun a => if a = 0x80000 then some ⟨true, true, false⟩ else none) = [] :=
  gating_32bit _ _ (Or.inl rfl)
example : checkBitflips (exInput .arm64 0x80400) (fun a => if a = 0x80000 then some ⟨true, true, false⟩ else none) = [] :=
  gating_arm64 _ _ rfl
example : (checkBitflips (exInput .amd64 0x80400) (fun a => if a = 0x80000 then some ⟨true, true, false⟩ else none)).length = 1 := by
  decide +kernel
example : checkBitflips { exInput .amd64 0x80400 with adjusted := some (.nullPointerWithOffset 0x400) }
    (fun a => if a = 0x80000 then some ⟨true, true, false⟩ else none) = [] :=
  gating_null_pointer_offset _ _ 0x400 rfl

-- `none_if_accessible`: hypotheses hold for an address inside a permitting region
example : tryBitFlips 0x80001 none .amd64Canonical none
    (fun a => if 0x80000 ≤ a ∧ a < 0x80008 then some ⟨true, false, false⟩ else none) .read = [] :=
  none_if_accessible (m := ⟨true, false, false⟩) (by simp) rfl

-- the register pass does report flips (hypothesis of `register_pass` is satisfiable)
example : (registerPass ⟨8, [("rbx", 0x80400), ("rip", 0x1000)]⟩ ["rbx", "rbx", "eax"] .amd64Canonical
    (fun a => if a = 0x80000 then some ⟨true, true, false⟩ else none) .undetermined).map
      (fun f => (f.addr, f.src)) = [(0x80000, some "rbx")] := by decide +kernel

-- confidence values: the baseline alone is 1/4; everything at once
example : confidence ⟨false, false, false, 0, false⟩ = ⟨25, 100⟩ := by decide +kernel
example : (confidence ⟨true, true, true, 7, true⟩).num * 320000
    = 156850 * ((confidence ⟨true, true, true, 7, true⟩).den : Int) := by decide +kernel

-- `BTreeSet<&str>` order of the instruction registers: byte-wise string order, duplicates once
example : btreeSet ["rcx", "rbx", "r9", "r10", "rbx"] = ["r10", "r9", "rbx", "rcx"] := by
  decide +kernel

-- the Windows protection constants: NOACCESS, READWRITE, EXECUTE_READ, EXECUTE_WRITECOPY, EXECUTE
example : protPerm 0x01 = ⟨false, false, false⟩ ∧ protPerm 0x04 = ⟨true, true, false⟩ ∧
    protPerm 0x20 = ⟨true, false, true⟩ ∧ protPerm 0x80 = ⟨false, true, true⟩ ∧
    protPerm 0x10 = ⟨false, false, true⟩ := by decide

end MdModel.BitFlip
