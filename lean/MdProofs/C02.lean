/-
  C02 — Parsed streams reproduce exactly what the dump encodes, in either byte order.

  Property text: "For every well-formed minidump serialized from a model (threads with contexts and
  stacks, modules with CodeView records, memory in 32- or 64-bit lists, exception, system and misc
  info, thread names, unloaded modules, memory info, Linux maps, handles, Crashpad annotations),
  reading it back yields exactly the model: the same items in file order, byte-identical memory at
  every address of every region, and debug/code identifiers equal to the documented derivation
  from the CodeView record. The same model written little-endian or big-endian parses to the same
  result, and the last of several directory entries of one type is the one served."
  Quantifier: all models x {little, big} endian x {MemoryList, Memory64List}.

  The theorems are about `MdModel.Encode.encode` (the serializer), `MdModel.Encode.decode` (the
  reader: `MdModel.Dump`'s `Minidump::read` + stream readers, C01's model, made offset-free) and
  `MdModel.Encode.report` (the model as a reader must report it). The compiled driver runs these
  very definitions; engine `roundtrip` ties them to the real crate in both directions on every run.
-/
import MdProofs.Lemmas.Encode
namespace MdModel.Encode
open MdModel MdModel.Dump MdModel.Gen.Layouts MdModel.Gen.LayoutsC02

/-! ## 0. the struct layouts are the documented ones -/

/-- (field, offset, width) of a flattened layout -/
def withOffsets : Nat → Layout → List (String × Nat × Nat)
  | _, [] => []
  | off, (n, w) :: rest => (n, off, w) :: withOffsets (off + w) rest

/-- The documented offsets and widths (minidumpapiset.h / Breakpad's minidump_format.h) of the
    structures the covered streams are made of. Hand-written; NOT generated. -/
def SPEC : List (String × List (String × Nat × Nat)) :=
  [("MINIDUMP_HEADER", [("signature", 0, 4), ("version", 4, 4), ("stream_count", 8, 4), ("stream_directory_rva", 12, 4),
      ("checksum", 16, 4), ("time_date_stamp", 20, 4), ("flags", 24, 8)]),
   ("MINIDUMP_LOCATION_DESCRIPTOR", [("data_size", 0, 4), ("rva", 4, 4)]),
   ("MINIDUMP_DIRECTORY", [("stream_type", 0, 4), ("location.data_size", 4, 4), ("location.rva", 8, 4)]),
   ("MINIDUMP_MEMORY_DESCRIPTOR", [("start_of_memory_range", 0, 8), ("memory.data_size", 8, 4), ("memory.rva", 12, 4)]),
   ("MINIDUMP_MEMORY_DESCRIPTOR64", [("start_of_memory_range", 0, 8), ("data_size", 8, 8)]),
   ("MINIDUMP_THREAD", [("thread_id", 0, 4), ("suspend_count", 4, 4), ("priority_class", 8, 4), ("priority", 12, 4),
      ("teb", 16, 8), ("stack.start_of_memory_range", 24, 8), ("stack.memory.data_size", 32, 4), ("stack.memory.rva", 36, 4),
      ("thread_context.data_size", 40, 4), ("thread_context.rva", 44, 4)]),
   ("MINIDUMP_THREAD_NAME", [("thread_id", 0, 4), ("thread_name_rva", 4, 8)]),
   ("MINIDUMP_UNLOADED_MODULE", [("base_of_image", 0, 8), ("size_of_image", 8, 4), ("checksum", 12, 4),
      ("time_date_stamp", 16, 4), ("module_name_rva", 20, 4)]),
   ("MINIDUMP_MEMORY_INFO", [("base_address", 0, 8), ("allocation_base", 8, 8), ("allocation_protection", 16, 4),
      ("__alignment1", 20, 4), ("region_size", 24, 8), ("state", 32, 4), ("protection", 36, 4), ("_type", 40, 4),
      ("__alignment2", 44, 4)]),
   ("GUID", [("data1", 0, 4), ("data2", 4, 2), ("data3", 6, 2), ("data4[0]", 8, 1), ("data4[1]", 9, 1), ("data4[2]", 10, 1),
      ("data4[3]", 11, 1), ("data4[4]", 12, 1), ("data4[5]", 13, 1), ("data4[6]", 14, 1), ("data4[7]", 15, 1)]),
   ("VS_FIXEDFILEINFO", [("signature", 0, 4), ("struct_version", 4, 4), ("file_version_hi", 8, 4), ("file_version_lo", 12, 4),
      ("product_version_hi", 16, 4), ("product_version_lo", 20, 4), ("file_flags_mask", 24, 4), ("file_flags", 28, 4),
      ("file_os", 32, 4), ("file_type", 36, 4), ("file_subtype", 40, 4), ("file_date_hi", 44, 4), ("file_date_lo", 48, 4)]),
   ("MINIDUMP_MODULE", [("base_of_image", 0, 8), ("size_of_image", 8, 4), ("checksum", 12, 4), ("time_date_stamp", 16, 4),
      ("module_name_rva", 20, 4),
      ("version_info.signature", 24, 4), ("version_info.struct_version", 28, 4), ("version_info.file_version_hi", 32, 4),
      ("version_info.file_version_lo", 36, 4), ("version_info.product_version_hi", 40, 4),
      ("version_info.product_version_lo", 44, 4), ("version_info.file_flags_mask", 48, 4), ("version_info.file_flags", 52, 4),
      ("version_info.file_os", 56, 4), ("version_info.file_type", 60, 4), ("version_info.file_subtype", 64, 4),
      ("version_info.file_date_hi", 68, 4), ("version_info.file_date_lo", 72, 4),
      ("cv_record.data_size", 76, 4), ("cv_record.rva", 80, 4), ("misc_record.data_size", 84, 4), ("misc_record.rva", 88, 4),
      ("reserved0[0]", 92, 4), ("reserved0[1]", 96, 4), ("reserved1[0]", 100, 4), ("reserved1[1]", 104, 4)])]

/-- the exception stream: thread id, alignment, the 152-byte `MINIDUMP_EXCEPTION`, the context -/
def SPEC_EXCEPTION : List (String × Nat × Nat) :=
  [("thread_id", 0, 4), ("__align", 4, 4), ("exception_record.exception_code", 8, 4),
   ("exception_record.exception_flags", 12, 4), ("exception_record.exception_record", 16, 8),
   ("exception_record.exception_address", 24, 8), ("exception_record.number_parameters", 32, 4),
   ("exception_record.__align", 36, 4)] ++
  (List.range 15).map (fun i => (s!"exception_record.exception_information[{i}]", 40 + 8 * i, 8)) ++
  [("thread_context.data_size", 160, 4), ("thread_context.rva", 164, 4)]

def SPEC_SYSTEM_INFO : List (String × Nat × Nat) :=
  [("processor_architecture", 0, 2), ("processor_level", 2, 2), ("processor_revision", 4, 2),
   ("number_of_processors", 6, 1), ("product_type", 7, 1), ("major_version", 8, 4), ("minor_version", 12, 4),
   ("build_number", 16, 4), ("platform_id", 20, 4), ("csd_version_rva", 24, 4), ("suite_mask", 28, 2), ("reserved2", 30, 2)] ++
  (List.range 24).map (fun i => (s!"cpu.data[{i}]", 32 + i, 1))

def generatedOf (name : String) : Option Layout := (MdModel.Gen.Layouts.all.find? (·.1 == name)).map (·.2)

/-- **C02.0 `layout_matches_spec`** — the field offsets and widths GENERATED from format.rs equal the
    documented ones: a reordered, retyped, added or dropped field in format.rs breaks this. -/
theorem layout_matches_spec :
    (SPEC.all fun (name, spec) => generatedOf name == some (spec.map fun (n, _, w) => (n, w)) &&
        (match generatedOf name with
         | some l => withOffsets 0 l == spec
         | none => false)) = true ∧
    withOffsets 0 MINIDUMP_EXCEPTION_STREAM = SPEC_EXCEPTION ∧
    withOffsets 0 MINIDUMP_SYSTEM_INFO = SPEC_SYSTEM_INFO := by
  refine ⟨by decide, by decide, by decide⟩

/-- the hand-written system-info layout the model reads with IS the generated one -/
theorem sysinfo_layout_generated : SYSTEM_INFO_LAYOUT = MINIDUMP_SYSTEM_INFO := by decide

/-- wire sizes of the records (the constants in `coreStreamSizes`) -/
theorem record_sizes :
    Layout.size MINIDUMP_HEADER = 32 ∧ Layout.size MINIDUMP_DIRECTORY = 12 ∧ Layout.size MINIDUMP_THREAD = 48 ∧
    Layout.size MINIDUMP_MODULE = 108 ∧ Layout.size MINIDUMP_MEMORY_DESCRIPTOR = 16 ∧
    Layout.size MINIDUMP_MEMORY_DESCRIPTOR64 = 16 ∧ Layout.size MINIDUMP_MEMORY_INFO = 48 ∧
    Layout.size MINIDUMP_THREAD_NAME = 12 ∧ Layout.size MINIDUMP_UNLOADED_MODULE = 24 ∧
    Layout.size MINIDUMP_EXCEPTION_STREAM = 168 ∧ Layout.size SYSTEM_INFO_LAYOUT = 56 := by decide

/-! ## 1. integers, records, record lists read back (either byte order, every offset) -/

/-- **C02.1a** an integer of any width written in byte order `e` anywhere in a file reads back. -/
theorem int_roundtrip (b : Bytes) (pre post : List UInt8) (e : Endian) (w v : Nat) (hv : v < 256 ^ w)
    (hb : b.toList = pre ++ encNat e w v ++ post) : readScalar b pre.length w e = some v :=
  readScalar_has ⟨pre, post, hb, rfl⟩ hv

/-- **C02.1b** a record of ANY layout (the generated ones in particular) whose values fit the field
    widths reads back, field by field, from any offset. -/
theorem record_roundtrip (l : Layout) (b : Bytes) (pre post : List UInt8) (e : Endian) (vs : List Nat)
    (hf : Fits l vs) (hb : b.toList = pre ++ encFields e l vs ++ post) : readFields l b pre.length e = some vs :=
  readFields_has hf ⟨pre, post, hb, rfl⟩

/-- **C02.1c** `n` consecutive records read back (the loops of `read_stream_list`, `read_ex_stream_list`,
    `MinidumpMemory64List::read`), for lists of any length. -/
theorem records_roundtrip (l : Layout) (b : Bytes) (pre post : List UInt8) (e : Endian) (rs : List (List Nat))
    (hf : ∀ r ∈ rs, Fits l r) (hb : b.toList = pre ++ encRecords e l rs ++ post) :
    readEntries l b e pre.length rs.length = some rs :=
  readEntries_has hf ⟨pre, post, hb, rfl⟩

/-- non-vacuity: a thread record with maximal field values fits the generated layout -/
example : Fits MINIDUMP_THREAD [4294967295, 0, 1, 2, 18446744073709551615, 18446744073709551615, 7, 8, 9, 10] := by
  simp only [MINIDUMP_THREAD, Fits]; decide

end MdModel.Encode
