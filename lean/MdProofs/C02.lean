/-
  C02 — Parsed streams reproduce exactly what the dump encodes, in either byte order.

  Property text: "For every well-formed minidump serialized from a model (threads with contexts and
  stacks, modules with CodeView records, memory in 32- or 64-bit lists, exception, system and misc
  info, thread names, unloaded modules, memory info, Linux maps, handles, Crashpad annotations),
  reading it back yields exactly the model: the same items in file order, byte-identical memory at
  every address of every region, and debug/code identifiers equal to the documented derivation
  from the CodeView record. The same model written little-endian or big-endian parses to the same
  result, and the last of several directory entries of one type is the one served."
  Quantifier: all models x {little, big} endian x {MemoryList, Memory64List}.

  The theorems are about `MdModel.Encode.encode` (the serializer), `MdModel.Encode.decode` (the
  reader: `MdModel.Dump`'s `Minidump::read` + stream readers, C01's model, made offset-free) and
  `MdModel.Encode.report` (the model as a reader must report it). The compiled driver runs these
  very definitions; engine `roundtrip` ties them to the real crate in both directions on every run.
-/
import MdProofs.Lemmas.EncodeWhole
import MdProofs.Lemmas.EncodeMemory
import MdProofs.Lemmas.EncodeIds
namespace MdModel.Encode
open MdModel MdModel.Dump MdModel.Gen.Layouts MdModel.Gen.LayoutsC02

/-! ## 0. the struct layouts are the documented ones -/

/-- (field, offset, width) of a flattened layout -/
def withOffsets : Nat → Layout → List (String × Nat × Nat)
  | _, [] => []
  | off, (n, w) :: rest => (n, off, w) :: withOffsets (off + w) rest

/-- The documented offsets and widths (minidumpapiset.h / Breakpad's minidump_format.h) of the
    structures the covered streams are made of. Hand-written; NOT generated. -/
def SPEC : List (String × List (String × Nat × Nat)) :=
  [("MINIDUMP_HEADER", [("signature", 0, 4), ("version", 4, 4), ("stream_count", 8, 4), ("stream_directory_rva", 12, 4),
      ("checksum", 16, 4), ("time_date_stamp", 20, 4), ("flags", 24, 8)]),
   ("MINIDUMP_LOCATION_DESCRIPTOR", [("data_size", 0, 4), ("rva", 4, 4)]),
   ("MINIDUMP_DIRECTORY", [("stream_type", 0, 4), ("location.data_size", 4, 4), ("location.rva", 8, 4)]),
   ("MINIDUMP_MEMORY_DESCRIPTOR", [("start_of_memory_range", 0, 8), ("memory.data_size", 8, 4), ("memory.rva", 12, 4)]),
   ("MINIDUMP_MEMORY_DESCRIPTOR64", [("start_of_memory_range", 0, 8), ("data_size", 8, 8)]),
   ("MINIDUMP_THREAD", [("thread_id", 0, 4), ("suspend_count", 4, 4), ("priority_class", 8, 4), ("priority", 12, 4),
      ("teb", 16, 8), ("stack.start_of_memory_range", 24, 8), ("stack.memory.data_size", 32, 4), ("stack.memory.rva", 36, 4),
      ("thread_context.data_size", 40, 4), ("thread_context.rva", 44, 4)]),
   ("MINIDUMP_THREAD_NAME", [("thread_id", 0, 4), ("thread_name_rva", 4, 8)]),
   ("MINIDUMP_UNLOADED_MODULE", [("base_of_image", 0, 8), ("size_of_image", 8, 4), ("checksum", 12, 4),
      ("time_date_stamp", 16, 4), ("module_name_rva", 20, 4)]),
   ("MINIDUMP_MEMORY_INFO", [("base_address", 0, 8), ("allocation_base", 8, 8), ("allocation_protection", 16, 4),
      ("__alignment1", 20, 4), ("region_size", 24, 8), ("state", 32, 4), ("protection", 36, 4), ("_type", 40, 4),
      ("__alignment2", 44, 4)]),
   ("GUID", [("data1", 0, 4), ("data2", 4, 2), ("data3", 6, 2), ("data4[0]", 8, 1), ("data4[1]", 9, 1), ("data4[2]", 10, 1),
      ("data4[3]", 11, 1), ("data4[4]", 12, 1), ("data4[5]", 13, 1), ("data4[6]", 14, 1), ("data4[7]", 15, 1)]),
   ("VS_FIXEDFILEINFO", [("signature", 0, 4), ("struct_version", 4, 4), ("file_version_hi", 8, 4), ("file_version_lo", 12, 4),
      ("product_version_hi", 16, 4), ("product_version_lo", 20, 4), ("file_flags_mask", 24, 4), ("file_flags", 28, 4),
      ("file_os", 32, 4), ("file_type", 36, 4), ("file_subtype", 40, 4), ("file_date_hi", 44, 4), ("file_date_lo", 48, 4)]),
   ("MINIDUMP_MODULE", [("base_of_image", 0, 8), ("size_of_image", 8, 4), ("checksum", 12, 4), ("time_date_stamp", 16, 4),
      ("module_name_rva", 20, 4),
      ("version_info.signature", 24, 4), ("version_info.struct_version", 28, 4), ("version_info.file_version_hi", 32, 4),
      ("version_info.file_version_lo", 36, 4), ("version_info.product_version_hi", 40, 4),
      ("version_info.product_version_lo", 44, 4), ("version_info.file_flags_mask", 48, 4), ("version_info.file_flags", 52, 4),
      ("version_info.file_os", 56, 4), ("version_info.file_type", 60, 4), ("version_info.file_subtype", 64, 4),
      ("version_info.file_date_hi", 68, 4), ("version_info.file_date_lo", 72, 4),
      ("cv_record.data_size", 76, 4), ("cv_record.rva", 80, 4), ("misc_record.data_size", 84, 4), ("misc_record.rva", 88, 4),
      ("reserved0[0]", 92, 4), ("reserved0[1]", 96, 4), ("reserved1[0]", 100, 4), ("reserved1[1]", 104, 4)]),
   ("MINIDUMP_HANDLE_OBJECT_INFORMATION", [("next_info_rva", 0, 4), ("info_type", 4, 4), ("size_of_info", 8, 4)]),
   ("MINIDUMP_HANDLE_DESCRIPTOR", [("handle", 0, 8), ("type_name_rva", 8, 4), ("object_name_rva", 12, 4), ("attributes", 16, 4),
      ("granted_access", 20, 4), ("handle_count", 24, 4), ("pointer_count", 28, 4)]),
   ("MINIDUMP_HANDLE_DESCRIPTOR_2", [("handle", 0, 8), ("type_name_rva", 8, 4), ("object_name_rva", 12, 4), ("attributes", 16, 4),
      ("granted_access", 20, 4), ("handle_count", 24, 4), ("pointer_count", 28, 4), ("object_info_rva", 32, 4), ("reserved0", 36, 4)]),
   -- Crashpad's minidump extensions (crashpad/minidump/minidump_extensions.h)
   ("MINIDUMP_SIMPLE_STRING_DICTIONARY_ENTRY", [("key", 0, 4), ("value", 4, 4)]),
   ("MINIDUMP_ANNOTATION", [("name", 0, 4), ("ty", 4, 2), ("_reserved", 6, 2), ("value", 8, 4)]),
   ("MINIDUMP_MODULE_CRASHPAD_INFO_LINK", [("minidump_module_list_index", 0, 4), ("location.data_size", 4, 4),
      ("location.rva", 8, 4)]),
   ("MINIDUMP_MODULE_CRASHPAD_INFO", [("version", 0, 4), ("list_annotations.data_size", 4, 4), ("list_annotations.rva", 8, 4),
      ("simple_annotations.data_size", 12, 4), ("simple_annotations.rva", 16, 4), ("annotation_objects.data_size", 20, 4),
      ("annotation_objects.rva", 24, 4)]),
   ("MINIDUMP_CRASHPAD_INFO", [("version", 0, 4),
      ("report_id.data1", 4, 4), ("report_id.data2", 8, 2), ("report_id.data3", 10, 2), ("report_id.data4[0]", 12, 1),
      ("report_id.data4[1]", 13, 1), ("report_id.data4[2]", 14, 1), ("report_id.data4[3]", 15, 1), ("report_id.data4[4]", 16, 1),
      ("report_id.data4[5]", 17, 1), ("report_id.data4[6]", 18, 1), ("report_id.data4[7]", 19, 1),
      ("client_id.data1", 20, 4), ("client_id.data2", 24, 2), ("client_id.data3", 26, 2), ("client_id.data4[0]", 28, 1),
      ("client_id.data4[1]", 29, 1), ("client_id.data4[2]", 30, 1), ("client_id.data4[3]", 31, 1), ("client_id.data4[4]", 32, 1),
      ("client_id.data4[5]", 33, 1), ("client_id.data4[6]", 34, 1), ("client_id.data4[7]", 35, 1),
      ("simple_annotations.data_size", 36, 4), ("simple_annotations.rva", 40, 4), ("module_list.data_size", 44, 4),
      ("module_list.rva", 48, 4)])]

/-- the handle-data stream header (generated by layouts_c02.py) -/
def SPEC_HANDLE_DATA_STREAM : List (String × Nat × Nat) :=
  [("size_of_header", 0, 4), ("size_of_descriptor", 4, 4), ("number_of_descriptors", 8, 4), ("reserved", 12, 4)]

/-- the exception stream: thread id, alignment, the 152-byte `MINIDUMP_EXCEPTION`, the context -/
def SPEC_EXCEPTION : List (String × Nat × Nat) :=
  [("thread_id", 0, 4), ("__align", 4, 4), ("exception_record.exception_code", 8, 4),
   ("exception_record.exception_flags", 12, 4), ("exception_record.exception_record", 16, 8),
   ("exception_record.exception_address", 24, 8), ("exception_record.number_parameters", 32, 4),
   ("exception_record.__align", 36, 4)] ++
  (List.range 15).map (fun i => (s!"exception_record.exception_information[{i}]", 40 + 8 * i, 8)) ++
  [("thread_context.data_size", 160, 4), ("thread_context.rva", 164, 4)]

def SPEC_SYSTEM_INFO : List (String × Nat × Nat) :=
  [("processor_architecture", 0, 2), ("processor_level", 2, 2), ("processor_revision", 4, 2),
   ("number_of_processors", 6, 1), ("product_type", 7, 1), ("major_version", 8, 4), ("minor_version", 12, 4),
   ("build_number", 16, 4), ("platform_id", 20, 4), ("csd_version_rva", 24, 4), ("suite_mask", 28, 2), ("reserved2", 30, 2)] ++
  (List.range 24).map (fun i => (s!"cpu.data[{i}]", 32 + i, 1))

def generatedOf (name : String) : Option Layout := (MdModel.Gen.Layouts.all.find? (·.1 == name)).map (·.2)

/-- **C02.0 `layout_matches_spec`** — the field offsets and widths GENERATED from format.rs equal the
    documented ones: a reordered, retyped, added or dropped field in format.rs breaks this. -/
theorem layout_matches_spec :
    (SPEC.all fun (name, spec) => generatedOf name == some (spec.map fun (n, _, w) => (n, w)) &&
        (match generatedOf name with
         | some l => withOffsets 0 l == spec
         | none => false)) = true ∧
    withOffsets 0 MINIDUMP_EXCEPTION_STREAM = SPEC_EXCEPTION ∧
    withOffsets 0 MINIDUMP_SYSTEM_INFO = SPEC_SYSTEM_INFO ∧
    withOffsets 0 MINIDUMP_HANDLE_DATA_STREAM = SPEC_HANDLE_DATA_STREAM := by
  refine ⟨by decide +kernel, by decide, by decide, by decide⟩

/-- the documented `MINIDUMP_MISC_INFO_5` (minidumpapiset.h; `TIME_ZONE_INFORMATION`, `SYSTEMTIME`,
    `XSTATE_CONFIG_FEATURE_MSC_INFO` inlined): (field, offset, width of one element, elements) -/
def SPEC_MISC5_HEAD : List (String × Nat × Nat × Nat) :=
  [("size_of_info", 0, 4, 1), ("flags1", 4, 4, 1), ("process_id", 8, 4, 1), ("process_create_time", 12, 4, 1),
   ("process_user_time", 16, 4, 1), ("process_kernel_time", 20, 4, 1),
   ("processor_max_mhz", 24, 4, 1), ("processor_current_mhz", 28, 4, 1), ("processor_mhz_limit", 32, 4, 1),
   ("processor_max_idle_state", 36, 4, 1), ("processor_current_idle_state", 40, 4, 1),
   ("process_integrity_level", 44, 4, 1), ("process_execute_flags", 48, 4, 1), ("protected_process", 52, 4, 1),
   ("time_zone_id", 56, 4, 1),
   ("time_zone.bias", 60, 4, 1), ("time_zone.standard_name", 64, 2, 32),
   ("time_zone.standard_date.year", 128, 2, 1), ("time_zone.standard_date.month", 130, 2, 1),
   ("time_zone.standard_date.day_of_week", 132, 2, 1), ("time_zone.standard_date.day", 134, 2, 1),
   ("time_zone.standard_date.hour", 136, 2, 1), ("time_zone.standard_date.minute", 138, 2, 1),
   ("time_zone.standard_date.second", 140, 2, 1), ("time_zone.standard_date.milliseconds", 142, 2, 1),
   ("time_zone.standard_bias", 144, 4, 1), ("time_zone.daylight_name", 148, 2, 32),
   ("time_zone.daylight_date.year", 212, 2, 1), ("time_zone.daylight_date.month", 214, 2, 1),
   ("time_zone.daylight_date.day_of_week", 216, 2, 1), ("time_zone.daylight_date.day", 218, 2, 1),
   ("time_zone.daylight_date.hour", 220, 2, 1), ("time_zone.daylight_date.minute", 222, 2, 1),
   ("time_zone.daylight_date.second", 224, 2, 1), ("time_zone.daylight_date.milliseconds", 226, 2, 1),
   ("time_zone.daylight_bias", 228, 4, 1),
   ("build_string", 232, 2, 260), ("dbg_bld_str", 752, 2, 40),
   ("xstate_data.size_of_info", 832, 4, 1), ("xstate_data.context_size", 836, 4, 1),
   ("xstate_data.enabled_features", 840, 8, 1)]

def expandSpec (l : List (String × Nat × Nat × Nat)) : List (String × Nat × Nat) :=
  l.flatMap fun (n, off, w, cnt) =>
    if cnt = 1 then [(n, off, w)] else (List.range cnt).map fun i => (s!"{n}[{i}]", off + i * w, w)

def SPEC_MISC5 : List (String × Nat × Nat) :=
  expandSpec SPEC_MISC5_HEAD ++
  ((List.range 64).flatMap fun i =>
    [(s!"xstate_data.features[{i}].offset", 848 + 8 * i, 4), (s!"xstate_data.features[{i}].size", 852 + 8 * i, 4)]) ++
  [("process_cookie", 1360, 4)]

/-- **C02.0b** the five misc-info revisions generated from `multi_structs!` are the documented
    layout: revision 5 field by field, revisions 1..4 its prefixes of 24, 44, 232, 832 bytes. -/
theorem misc_layout_matches_spec :
    withOffsets 0 MINIDUMP_MISC_INFO_5 = SPEC_MISC5 ∧
    MINIDUMP_MISC_INFO = MINIDUMP_MISC_INFO_5.take 6 ∧ MINIDUMP_MISC_INFO_2 = MINIDUMP_MISC_INFO_5.take 11 ∧
    MINIDUMP_MISC_INFO_3 = MINIDUMP_MISC_INFO_5.take 98 ∧ MINIDUMP_MISC_INFO_4 = MINIDUMP_MISC_INFO_5.take 398 ∧
    Layout.size MINIDUMP_MISC_INFO = 24 ∧ Layout.size MINIDUMP_MISC_INFO_2 = 44 ∧ Layout.size MINIDUMP_MISC_INFO_3 = 232 ∧
    Layout.size MINIDUMP_MISC_INFO_4 = 832 ∧ Layout.size MINIDUMP_MISC_INFO_5 = 1364 := by
  refine ⟨by decide +kernel, by decide +kernel, by decide +kernel, by decide +kernel, by decide +kernel,
    by decide +kernel, by decide +kernel, by decide +kernel, by decide +kernel, by decide +kernel⟩

/-- the documented validity rules of `MINIDUMP_MISC_INFO*` (Microsoft's MINIDUMP_MISC_INFO_N docs):
    (field, first revision that has it, flag bit of `Flags1` that says it is valid) -/
def SPEC_MISC_ACCESSORS : List (String × Nat × Option Nat) :=
  [("size_of_info", 1, none), ("flags1", 1, none),
   ("process_id", 1, some 0x1),
   ("process_create_time", 1, some 0x2), ("process_user_time", 1, some 0x2), ("process_kernel_time", 1, some 0x2),
   ("processor_max_mhz", 2, some 0x4), ("processor_current_mhz", 2, some 0x4), ("processor_mhz_limit", 2, some 0x4),
   ("processor_max_idle_state", 2, some 0x4), ("processor_current_idle_state", 2, some 0x4),
   ("process_integrity_level", 3, some 0x10), ("process_execute_flags", 3, some 0x20),
   ("protected_process", 3, some 0x80), ("time_zone_id", 3, some 0x40), ("time_zone", 3, some 0x40),
   ("build_string", 4, some 0x100), ("dbg_bld_str", 4, some 0x100),
   ("xstate_data", 5, none), ("process_cookie", 5, some 0x200)]

/-- **C02.0c `misc_fields_as_documented`** — the accessor table translated from `misc_accessors!(..)`
    (which field exists from which revision on, and which `Flags1` bit guards it) is the documented
    one; and an accessor answers `None` exactly when the struct read is older than the field or the
    guarding bit is clear — for ALL revisions, flag words and values. A field moved behind another
    flag, or to another revision, breaks the first part. -/
theorem misc_fields_as_documented :
    MISC_ACCESSORS = SPEC_MISC_ACCESSORS ∧
    (∀ mi name since flag, (miscAccessWith mi name since flag).isSome =
      (decide (since ≤ mi.ver) && (match flag with
        | none => true
        | some fl => (fld mi.vals 1 &&& fl) == fl))) := by
  refine ⟨by decide, ?_⟩
  intro mi name since flag
  unfold miscAccessWith
  by_cases h : mi.ver < since
  · have : ¬ (since ≤ mi.ver) := by omega
    simp [h, this]
  · have : since ≤ mi.ver := by omega
    cases flag with
    | none => simp [h, this]
    | some fl =>
      simp only [h, if_false, this, decide_true, Bool.true_and, miscFlagSet]
      by_cases hb : (fld mi.vals 1 &&& fl == fl) = true <;> simp [hb]

/-- the hand-written system-info layout the model reads with IS the generated one -/
theorem sysinfo_layout_generated : SYSTEM_INFO_LAYOUT = MINIDUMP_SYSTEM_INFO := by decide

/-- wire sizes of the records (the constants in `coreStreamSizes`) -/
theorem record_sizes :
    Layout.size MINIDUMP_HEADER = 32 ∧ Layout.size MINIDUMP_DIRECTORY = 12 ∧ Layout.size MINIDUMP_THREAD = 48 ∧
    Layout.size MINIDUMP_MODULE = 108 ∧ Layout.size MINIDUMP_MEMORY_DESCRIPTOR = 16 ∧
    Layout.size MINIDUMP_MEMORY_DESCRIPTOR64 = 16 ∧ Layout.size MINIDUMP_MEMORY_INFO = 48 ∧
    Layout.size MINIDUMP_THREAD_NAME = 12 ∧ Layout.size MINIDUMP_UNLOADED_MODULE = 24 ∧
    Layout.size MINIDUMP_EXCEPTION_STREAM = 168 ∧ Layout.size SYSTEM_INFO_LAYOUT = 56 ∧
    Layout.size MINIDUMP_HANDLE_DATA_STREAM = 16 ∧ Layout.size MINIDUMP_HANDLE_DESCRIPTOR = 32 ∧
    Layout.size MINIDUMP_HANDLE_DESCRIPTOR_2 = 40 ∧ Layout.size MINIDUMP_HANDLE_OBJECT_INFORMATION = 12 ∧
    Layout.size MINIDUMP_CRASHPAD_INFO = 52 ∧ Layout.size MINIDUMP_MODULE_CRASHPAD_INFO = 28 ∧
    Layout.size MINIDUMP_MODULE_CRASHPAD_INFO_LINK = 12 ∧ Layout.size MINIDUMP_SIMPLE_STRING_DICTIONARY_ENTRY = 8 ∧
    Layout.size MINIDUMP_ANNOTATION = 12 := by decide

/-! ## 1. integers, records, record lists read back (either byte order, every offset) -/

/-- **C02.1a** an integer of any width written in byte order `e` anywhere in a file reads back. -/
theorem int_roundtrip (b : Bytes) (pre post : List UInt8) (e : Endian) (w v : Nat) (hv : v < 256 ^ w)
    (hb : b.toList = pre ++ encNat e w v ++ post) : readScalar b pre.length w e = some v :=
  readScalar_has ⟨pre, post, hb, rfl⟩ hv

/-- **C02.1b** a record of ANY layout (the generated ones in particular) whose values fit the field
    widths reads back, field by field, from any offset. -/
theorem record_roundtrip (l : Layout) (b : Bytes) (pre post : List UInt8) (e : Endian) (vs : List Nat)
    (hf : Fits l vs) (hb : b.toList = pre ++ encFields e l vs ++ post) : readFields l b pre.length e = some vs :=
  readFields_has hf ⟨pre, post, hb, rfl⟩

/-- **C02.1c** `n` consecutive records read back (the loops of `read_stream_list`, `read_ex_stream_list`,
    `MinidumpMemory64List::read`), for lists of any length. -/
theorem records_roundtrip (l : Layout) (b : Bytes) (pre post : List UInt8) (e : Endian) (rs : List (List Nat))
    (hf : ∀ r ∈ rs, Fits l r) (hb : b.toList = pre ++ encRecords e l rs ++ post) :
    readEntries l b e pre.length rs.length = some rs :=
  readEntries_has hf ⟨pre, post, hb, rfl⟩

/-- non-vacuity: a thread record with maximal field values fits the generated layout -/
example : Fits MINIDUMP_THREAD [4294967295, 0, 1, 2, 18446744073709551615, 18446744073709551615, 7, 8, 9, 10] := by
  simp only [MINIDUMP_THREAD, Fits]; decide

/-! ## 2. "the last of several directory entries of one type is the one served" -/

/-- **C02.2 `last_duplicate_served`** — for ANY list of streams `ss` (any types, any number of
    duplicates), written in either byte order and followed by anything: `Minidump::read` succeeds,
    detects the byte order, and `get_raw_stream(ty)` returns the bytes of the LAST stream of type
    `ty` in directory order (and `StreamNotFound` iff there is none). -/
theorem last_duplicate_served (b : Bytes) (e : Endian) (flags : Nat) (ss : List (Nat × List UInt8)) (tail : List UInt8)
    (hb : b.toList = encodeStreams e flags ss ++ tail) (hsz : b.size < 2 ^ 32) (hfl : flags < 2 ^ 64)
    (hty : ∀ x ∈ ss, x.1 < 2 ^ 32) (ty : Nat) :
    ∃ d, readDump b = .ok d ∧ d.endian = e ∧
      getRawStream d b ty = match lastOf ty ss with
        | none => .error .StreamNotFound
        | some bs => .ok bs.toArray := by
  have hlen := congrArg List.length hb
  simp only [Array.length_toList, List.length_append, encodeStreams_length, ← streamsBytes_length] at hlen
  have hd := readDump_enc e flags ss tail hb (by omega) hfl (dirFits_of_bound ss _ hty (by omega))
  exact ⟨_, hd, rfl, getRawStream_enc e flags ss tail hb hsz ty _ rfl⟩

/-- non-vacuity / a concrete instance: two thread-list entries, the second one is served -/
example : lastOf 3 [(3, [1, 2]), (4, [9]), (3, [7])] = some ([7] : List UInt8) := by decide

/-! ## 3. "reading it back yields exactly the model: the same items in file order" -/

/-- everything `decode` needs from its `get_stream` calls -/
theorem decode_of {b : Bytes} {d : Dump} (hd : readDump b = .ok d)
    {t : Except Err (List Thread)} {mo : Except Err (List Module)} {m5 m9 : Except Err (List Region)}
    {mi : Except Err (List MemInfo)} {tn : Except Err (List (Nat × List Nat))} {un : Except Err (List UnloadedModule)}
    {x : Except Err Exception} {sy : Except Err RSysInfo} {mc : Except Err MiscInfo} {hn : Except Err (List Handle)}
    {lm : Except Err (List MapEntry)} {cp : Except Err (List Nat × CrashpadInfo)}
    (h1 : streamRes d b ST_THREAD_LIST (fun s => readThreadList MemSizes.default s b d.endian) = .ok t)
    (h2 : streamRes d b ST_MODULE_LIST (fun s => readModuleList MemSizes.default s b d.endian) = .ok mo)
    (h3 : streamRes d b ST_MEMORY_LIST (fun s => readMemoryList MemSizes.default s b d.endian) = .ok m5)
    (h4 : streamRes d b ST_MEMORY64_LIST (fun s => readMemory64List MemSizes.default s b d.endian) = .ok m9)
    (h5 : streamRes d b ST_MEMORY_INFO_LIST (fun s => readMemoryInfoList MemSizes.default s d.endian) = .ok mi)
    (h6 : streamRes d b ST_THREAD_NAMES (fun s => readThreadNames MemSizes.default s b d.endian) = .ok tn)
    (h7 : streamRes d b ST_UNLOADED_MODULE_LIST (fun s => readUnloadedModuleList MemSizes.default s b d.endian) = .ok un)
    (h8 : streamRes d b ST_EXCEPTION (fun s => readException s b d.endian) = .ok x)
    (h9 : streamRes d b ST_SYSTEM_INFO (fun s => readSystemInfo s b d.endian) = .ok sy)
    (h10 : streamRes d b ST_MISC_INFO (fun s => readMiscInfo s d.endian) = .ok mc)
    (h11 : streamRes d b ST_HANDLE_DATA_STREAM (fun s => readHandleData MemSizes.default s b d.endian) = .ok hn)
    (h12 : streamRes d b ST_LINUX_MAPS (fun s => readLinuxMaps s) = .ok lm)
    (h13 : streamRes d b ST_CRASHPAD (fun s => readCrashpadInfoRaw MemSizes.default s b d.endian) = .ok cp) :
    decode b = .ok
      { endian := d.endian, flags := d.header.flags,
        threads := t.map (fun l => l.map (rthreadOf b)),
        modules := mo.map (fun l => l.map (mmoduleOf d.endian)),
        memory := pickMemory (m9.map (fun l => l.map (regionOf b))) (m5.map (fun l => l.map (regionOf b))),
        memInfo := mi.map (fun l => l.map mmemInfoOf),
        threadNames := tn,
        unloaded := un.map (fun l => l.map munloadedOf),
        exception := x.map (rexceptionOf b),
        sysInfo := sy,
        miscInfo := mc,
        handles := hn.map (fun l => l.map rhandleOf),
        linuxMaps := lm,
        crashpad := cp.map rcrashpadOf } := by
  simp only [decode, hd, h1, h2, h3, h4, h5, h6, h7, h8, h9, h10, h11, h12, h13, Res.bind]

/-- **C02.3 `decode_encode`** — for every well-formed model (lists of any length, any field values
    that fit the wire widths, names/CSD strings of arbitrary Unicode scalar values, all four
    CodeView shapes or none, addresses up to 2^64-1, a file below 4 GiB), both byte orders, both
    memory-list forms, whatever raw streams were listed earlier in the directory under the same
    types: reading the encoded file yields EXACTLY `report m e f` — the byte order, the header
    flags, the THREAD LIST (all fields, stack bytes, context bytes, file order), the MODULE LIST
    (all fields, the 13 version words, names, CodeView records; entries with a bad image size
    skipped), the MEMORY served by `get_memory()`, the MEMORY-INFO LIST, the THREAD NAMES (map by
    id, last wins), the UNLOADED-MODULE LIST, the EXCEPTION stream (record, 15 parameters, context
    bytes; `StreamNotFound` when the model has none) and SYSTEM INFO (all scalar fields, the 24 CPU
    bytes, the CSD-version string; `StreamNotFound` when the model has none) and MISC INFO (the
    revision 1..5 the stream's length selects — bytes after the struct are ignored — and every
    scalar of that revision, flag-guarded or not; `StreamNotFound` when the model has none) and the
    HANDLE DATA stream (descriptors of either kind in file order: all scalar fields, the two
    optional names, and — second kind — the object-information chain; `StreamNotFound` when the
    model has none) and the LINUX MAPS text stream (every entry in file order: both addresses,
    the permission bits, offset, device numbers, inode and the path column in each of its
    spellings; `StreamNotFound` when the model has none) and CRASHPAD INFO (version, report and
    client id, the simple-annotations dictionary as a map by key — last duplicate wins —, and per
    module its index, version, list annotations in file order, dictionary, and annotation objects
    by name with their typed values; the per-module budget of copied string bytes is never
    exhausted; `StreamNotFound` when the model has none). -/
theorem decode_encode {m : DumpModel} {f : MemForm} (wf : WellFormed m f) (e : Endian) :
    decode (encode m e f) = .ok (report m e f) := by
  have hd := readDump_encode wf e
  have hpl := oob_placed m e f
  have hall : (encode m e f).size < 2 ^ 32 := by rw [hpl.size]; exact wf.size
  have hoff : 0 < oobStart m f := by unfold oobStart; omega
  have hstart : (oobOffsets m f).threads = oobStart m f := rfl
  have hmemoff : 0 < (oobOffsets m f).memory := by simp only [oobOffsets]; omega
  let d : Dump := ⟨e, encHeaderVal (allStreams m e f).length m.flags, dirMap (allStreams m e f), (allStreams m e f).length⟩
  -- threads
  obtain ⟨tr, ht1, ht2⟩ := readThreadList_enc MemSizes.default (s := (encThreadList e m.pad (oobOffsets m f).threads m.threads).toArray)
    (all := encode m e f) (e := e) (pad := m.pad) (off := (oobOffsets m f).threads) (ts := m.threads) (by simp) wf.threads
    (by rw [hstart]; exact hoff) hpl.threads hall (by simpa using (core_stream_small wf e (core_threads m e f)).1)
  have h1 := streamRes_ok (d := d) (reader := fun s => readThreadList MemSizes.default s (encode m e f) e)
    (getRawStream_encode wf e ST_THREAD_LIST _ (core_threads m e f) d rfl) ht1
  -- modules
  obtain ⟨mr, hm1, hm2⟩ := readModuleList_enc MemSizes.default
    (s := (encModuleList e m.pad (oobOffsets m f).modules m.modules).toArray) (all := encode m e f) (e := e)
    (pad := m.pad) (off := (oobOffsets m f).modules) (mods := m.modules) (by simp) wf.modules hpl.modules hall
    (by simpa using (core_stream_small wf e (core_modules m e f)).1)
  have h2 := streamRes_ok (d := d) (reader := fun s => readModuleList MemSizes.default s (encode m e f) e)
    (getRawStream_encode wf e ST_MODULE_LIST _ (core_modules m e f) d rfl) hm1
  -- memory info
  obtain ⟨ir, hi1, hi2⟩ := readMemoryInfoList_enc MemSizes.default (s := (encMemInfoList e m.memInfo).toArray) (e := e)
    (is := m.memInfo) (by simp) wf.memInfo (by simpa using (core_stream_small wf e (core_memInfo m e f)).1)
  have h5 := streamRes_ok (d := d) (reader := fun s => readMemoryInfoList MemSizes.default s e)
    (getRawStream_encode wf e ST_MEMORY_INFO_LIST _ (core_memInfo m e f) d rfl) hi1
  -- thread names
  have hn1 := readThreadNames_enc MemSizes.default (s := (encThreadNames e m.pad (oobOffsets m f).names m.threadNames).toArray)
    (all := encode m e f) (e := e) (pad := m.pad) (off := (oobOffsets m f).names) (ns := m.threadNames) (by simp)
    (fun n hn => (wf.names n hn).1) (fun n hn => (wf.names n hn).2) hpl.names hall
    (by simpa using (core_stream_small wf e (core_names m e f)).1)
  have h6 := streamRes_ok (d := d) (reader := fun s => readThreadNames MemSizes.default s (encode m e f) e)
    (getRawStream_encode wf e ST_THREAD_NAMES _ (core_names m e f) d rfl) hn1
  -- unloaded modules
  obtain ⟨ur, hu1, hu2⟩ := readUnloadedModuleList_enc MemSizes.default
    (s := (encUnloadedList e (oobOffsets m f).unloaded m.unloaded).toArray) (all := encode m e f) (e := e)
    (off := (oobOffsets m f).unloaded) (us := m.unloaded) (by simp) wf.unloaded hpl.unloaded hall
    (by simpa using (core_stream_small wf e (core_unloaded m e f)).1)
  have h7 := streamRes_ok (d := d) (reader := fun s => readUnloadedModuleList MemSizes.default s (encode m e f) e)
    (getRawStream_encode wf e ST_UNLOADED_MODULE_LIST _ (core_unloaded m e f) d rfl) hu1
  have hnobad : (m.unloaded.any fun u => badImageSize u.base u.size) = false := by
    rw [List.any_eq_false]
    intro u hu
    simp [(wf.unloaded u hu).2.2.2.2.1]
  -- exception
  have h8 : ∃ x, streamRes d (encode m e f) ST_EXCEPTION (fun s => readException s (encode m e f) e) = .ok x ∧
      x.map (rexceptionOf (encode m e f)) = (report m e f).exception := by
    cases hx : m.exception with
    | none =>
      refine ⟨_, streamRes_notFound (getRawStream_encode_none wf e ST_EXCEPTION (no_exception m f hx) d rfl), ?_⟩
      simp [report, hx, Except.map]
    | some x =>
      have hctx : Has (encode m e f).toList (oobOffsets m f).exc x.ctx := by
        have := hpl.exc; simpa [excCtx, hx] using this
      obtain ⟨r, hr1, hr2⟩ := readException_enc (s := (encException e (oobOffsets m f).exc x).toArray)
        (all := encode m e f) (e := e) (off := (oobOffsets m f).exc) (x := x) (by simp) (wf.exception x hx) hctx hall
      refine ⟨_, streamRes_ok (getRawStream_encode wf e ST_EXCEPTION _ (core_exception m e f hx) d rfl) hr1, ?_⟩
      simp [report, hx, Except.map, hr2]
  obtain ⟨xr, h8, hx2⟩ := h8
  -- system info
  have h9 : streamRes d (encode m e f) ST_SYSTEM_INFO (fun s => readSystemInfo s (encode m e f) e) =
      .ok (report m e f).sysInfo := by
    cases hs : m.sysInfo with
    | none =>
      have := streamRes_notFound (d := d) (reader := fun s => readSystemInfo s (encode m e f) e)
        (getRawStream_encode_none wf e ST_SYSTEM_INFO (no_sysInfo m f hs) d rfl)
      simpa [report, hs] using this
    | some x =>
      have hcsd : Has (encode m e f).toList (oobOffsets m f).csd (encString e x.csd) := by
        have := hpl.csd; simpa [csdString, hs] using this
      have hr := readSystemInfo_enc (s := (encSysInfo e (oobOffsets m f).csd x).toArray)
        (all := encode m e f) (e := e) (off := (oobOffsets m f).csd) (x := x) (by simp) (wf.sysInfo x hs) hcsd hall
      have := streamRes_ok (d := d) (reader := fun s => readSystemInfo s (encode m e f) e)
        (getRawStream_encode wf e ST_SYSTEM_INFO _ (core_sysInfo m e f hs) d rfl) hr
      simpa [report, hs] using this
  -- misc info
  have h10 : streamRes d (encode m e f) ST_MISC_INFO (fun s => readMiscInfo s e) = .ok (report m e f).miscInfo := by
    cases hs : m.miscInfo with
    | none =>
      have := streamRes_notFound (d := d) (reader := fun s => readMiscInfo s e)
        (getRawStream_encode_none wf e ST_MISC_INFO (no_miscInfo m f hs) d rfl)
      simpa [report, hs] using this
    | some x =>
      have hr := readMiscInfo_enc (s := (encMiscInfo e x).toArray) (e := e) (x := x) (by simp) (wf.miscInfo x hs)
      have := streamRes_ok (d := d) (reader := fun s => readMiscInfo s e)
        (getRawStream_encode wf e ST_MISC_INFO _ (core_miscInfo m e f hs) d rfl) hr
      simpa [report, hs] using this
  -- handle data
  have h11 : ∃ x, streamRes d (encode m e f) ST_HANDLE_DATA_STREAM
      (fun s => readHandleData MemSizes.default s (encode m e f) e) = .ok x ∧
      x.map (fun l => l.map rhandleOf) = (report m e f).handles := by
    cases hs : m.handles with
    | none =>
      refine ⟨_, streamRes_notFound (getRawStream_encode_none wf e ST_HANDLE_DATA_STREAM (no_handles m f hs) d rfl), ?_⟩
      simp [report, hs, Except.map]
    | some x =>
      have hoob : Has (encode m e f).toList (oobOffsets m f).handles (oobHandles e x.v2 (oobOffsets m f).handles x.handles) := by
        have := hpl.handles; simpa [handlesOob, hs] using this
      have hpos : 0 < (oobOffsets m f).handles := by simp only [oobOffsets]; omega
      obtain ⟨r, hr1, hr2⟩ := readHandleData_enc MemSizes.default
        (s := (encHandleData e (oobOffsets m f).handles x).toArray) (all := encode m e f) (e := e)
        (off := (oobOffsets m f).handles) (x := x) (by simp) (wf.handles x hs) hpos hoob hall
        (by simpa using (core_stream_small wf e (core_handles m e f hs)).1)
      refine ⟨_, streamRes_ok (getRawStream_encode wf e ST_HANDLE_DATA_STREAM _ (core_handles m e f hs) d rfl) hr1, ?_⟩
      simp [report, hs, Except.map, hr2]
  obtain ⟨hnr, h11, hn2⟩ := h11
  -- Linux maps
  have h12 : streamRes d (encode m e f) ST_LINUX_MAPS (fun s => readLinuxMaps s) = .ok (report m e f).linuxMaps := by
    cases hs : m.linuxMaps with
    | none =>
      have := streamRes_notFound (d := d) (reader := fun s => readLinuxMaps s)
        (getRawStream_encode_none wf e ST_LINUX_MAPS (no_linuxMaps m f hs) d rfl)
      simpa [report, hs] using this
    | some x =>
      have hr := readLinuxMaps_enc (s := (encLinuxMaps x).toArray) (xs := x) (by simp) (wf.linuxMaps x hs)
      have := streamRes_ok (d := d) (reader := fun s => readLinuxMaps s)
        (getRawStream_encode wf e ST_LINUX_MAPS _ (core_linuxMaps m e f hs) d rfl) hr
      simpa [report, hs] using this
  -- Crashpad info
  have h13 : ∃ x, streamRes d (encode m e f) ST_CRASHPAD
      (fun s => readCrashpadInfoRaw MemSizes.default s (encode m e f) e) = .ok x ∧
      x.map rcrashpadOf = (report m e f).crashpad := by
    cases hs : m.crashpad with
    | none =>
      refine ⟨_, streamRes_notFound (getRawStream_encode_none wf e ST_CRASHPAD (no_crashpad m f hs) d rfl), ?_⟩
      simp [report, hs, Except.map]
    | some x =>
      have hoob : Has (encode m e f).toList (oobOffsets m f).crashpad (crashpadOobOf e (oobOffsets m f).crashpad x) := by
        have := hpl.crashpad; simpa [crashpadOob, hs] using this
      obtain ⟨r, hr1, hr2⟩ := readCrashpadInfoRaw_enc MemSizes.default
        (s := (encCrashpad e (oobOffsets m f).crashpad x).toArray) (all := encode m e f) (e := e)
        (off := (oobOffsets m f).crashpad) (x := x) (by simp) (wf.crashpad x hs) hoob hall
      refine ⟨_, streamRes_ok (getRawStream_encode wf e ST_CRASHPAD _ (core_crashpad m e f hs) d rfl) hr1, ?_⟩
      simp [report, hs, Except.map, hr2]
  obtain ⟨cpr, h13, hc2⟩ := h13
  -- memory, by form
  cases f with
  | mem =>
    obtain ⟨rr, hr1, hr2⟩ := readMemoryList_enc MemSizes.default
      (s := (encMemoryList e m.pad (oobOffsets m .mem).memory m.memory).toArray) (all := encode m e .mem) (e := e)
      (pad := m.pad) (off := (oobOffsets m .mem).memory) (rs := m.memory) (by simp) wf.regions hmemoff hpl.memory hall
      (by simpa using (core_stream_small wf e (core_memory m e)).1)
    have h3 := streamRes_ok (d := d) (reader := fun s => readMemoryList MemSizes.default s (encode m e .mem) e)
      (getRawStream_encode wf e ST_MEMORY_LIST _ (core_memory m e) d rfl) hr1
    have h4 := streamRes_notFound (d := d) (reader := fun s => readMemory64List MemSizes.default s (encode m e .mem) e)
      (getRawStream_encode_none wf e ST_MEMORY64_LIST (no_memory64_in_mem m) d rfl)
    rw [decode_of hd h1 h2 h3 h4 h5 h6 h7 h8 h9 h10 h11 h12 h13]
    simp only [hx2, hn2, hc2]
    simp only [Except.map, pickMemory, ht2, hm2, hr2, hi2, hu2]
    simp [report, hnobad, encHeaderVal]
  | mem64 =>
    obtain ⟨rr, hr1, hr2⟩ := readMemory64List_enc MemSizes.default
      (s := (encMemory64List e (oobOffsets m .mem64).memory m.memory).toArray) (all := encode m e .mem64) (e := e)
      (off := (oobOffsets m .mem64).memory) (rs := m.memory) (by simp) wf.regions hpl.memory hall
      (by simpa using (core_stream_small wf e (core_memory64 m e)).1)
    have h4 := streamRes_ok (d := d) (reader := fun s => readMemory64List MemSizes.default s (encode m e .mem64) e)
      (getRawStream_encode wf e ST_MEMORY64_LIST _ (core_memory64 m e) d rfl) hr1
    have h3 := streamRes_notFound (d := d) (reader := fun s => readMemoryList MemSizes.default s (encode m e .mem64) e)
      (getRawStream_encode_none wf e ST_MEMORY_LIST (no_memory_in_mem64 m) d rfl)
    rw [decode_of hd h1 h2 h3 h4 h5 h6 h7 h8 h9 h10 h11 h12 h13]
    simp only [hx2, hn2, hc2]
    simp only [Except.map, pickMemory, ht2, hm2, hr2, hi2, hu2]
    simp [report, hnobad, encHeaderVal]

/-- non-vacuity of `WellFormed`: a model with a thread, five modules (PDB 7.0, PDB 2.0, ELF build id,
    unknown signature, no record; one of them with a bad image size), two regions (one empty), a
    memory-info entry, an exception, system info with a non-BMP CSD string, and a duplicate
    thread-list entry earlier in the directory -/
def exampleModel : DumpModel :=
  { flags := 5, pad := true,
    threads := [⟨7, 1, 2, 3, 4096, 8192, [1, 2, 3], [9, 9]⟩],
    modules := [⟨4194304, 4096, 1, 2, [1, 2, 3, 4, 5, 6, 7, 8, 9, 10, 11, 12, 13], [0x61, 0x1F600],
                  some (.pdb70 0xABCD1234 0xF00D 0xBEEF [1, 2, 3, 4, 5, 6, 7, 8] 1 [0x61, 0])⟩,
                ⟨8388608, 0, 1, 2, [0, 0, 0, 0, 0, 0, 0, 0, 0, 0, 0, 0, 0], [], some (.pdb20 1 2 3 [0x62])⟩,
                ⟨12582912, 16, 1, 2, [0, 0, 0, 0, 0, 0, 0, 0, 0, 0, 0, 0, 0], [0x6c], some (.elf [1, 2, 3])⟩,
                ⟨16777216, 16, 1, 2, [0, 0, 0, 0, 0, 0, 0, 0, 0, 0, 0, 0, 0], [0x6d], some (.unknown 7 [1])⟩,
                ⟨20971520, 16, 1, 2, [0, 0, 0, 0, 0, 0, 0, 0, 0, 0, 0, 0, 0], [0x6e], none⟩],
    memory := [⟨4096, [10, 11, 12, 13]⟩, ⟨100, []⟩], memInfo := [⟨1, 2, 3, 4, 5, 6, 7⟩],
    threadNames := [(7, [0x61])], unloaded := [⟨8192, 4096, 1, 2, [0x62]⟩],
    exception := some ⟨7, 11, 0, 0, 1234, 2, [1, 2, 3, 4, 5, 6, 7, 8, 9, 10, 11, 12, 13, 14, 15], [0xaa]⟩,
    sysInfo := some ⟨9, 6, 0, 4, 1, 10, 0, 19041, 3, 0,
      [0, 1, 2, 3, 4, 5, 6, 7, 8, 9, 10, 11, 12, 13, 14, 15, 16, 17, 18, 19, 20, 21, 22, 23], [0x53, 0x1F600]⟩,
    extra := [(3, [0, 0])],
    miscInfo := some ⟨2, [44, 7, 1234, 1, 2, 3, 3000, 2000, 3000, 1, 2], [0xee, 0xff]⟩,
    handles := some ⟨true, [⟨0x44, some [0x46, 0x69, 0x6c, 0x65], none, 1, 2, 3, 4, [⟨1, 8⟩, ⟨9, 0⟩]⟩,
                            ⟨0x48, none, some [0x1F600], 0, 0, 0, 0, []⟩]⟩,
    linuxMaps := some [⟨0x400000, 0x40b000, 21, 0, 8, 1, 1234, .path [0x2f, 0x62, 0x69, 0x6e, 0x2f, 0xce, 0xba, 0x61]⟩,
                       ⟨0x7ffd0000, 0x7ffd1000, 19, 0, 0, 0, 0, .stack⟩,
                       ⟨0x7f000000, 0x7f001000, 3, 0, 0, 0, 0, .tstack 77⟩,
                       ⟨0x1000, 0x2000, 11, 4096, 0, 5, 42, .vsys 0xaabbccdd⟩,
                       ⟨0x3000, 0x2000, 0, 0, 0, 0, 0, .other [0x61, 0x6e, 0x6f, 0x6e]⟩,
                       ⟨0, 0xffffffffffffffff, 16, 0, 0, 0, 0, .anonymous⟩],
    crashpad := some
      { version := 1, reportId := [1, 2, 3, 4, 5, 6, 7, 8, 9, 10, 11], clientId := [0, 0, 0, 0, 0, 0, 0, 0, 0, 0, 0],
        simpleAnnotations := [([0x6b], [0x76]), ([0x61], []), ([0x6b], [0xce, 0xba])],
        modules := [⟨3, 1, [[0x78], []], [([0x62], [0x63])],
                     [.invalid [0x69], .string [0x73] [0x31, 0x32], .other [0x75] 0x8001 77, .other [0x6e] 5 0]⟩,
                    ⟨0, 1, [], [], []⟩] } }

theorem validName_of_all (cs : List Nat) (h : cs.all (fun c => decide (c < 0xD800 ∨ (0xE000 ≤ c ∧ c < 0x110000))) = true) :
    ValidName cs := by
  intro c hc
  have := List.all_eq_true.mp h c hc
  simpa [ValidScalar] using this

example : WellFormed exampleModel .mem ∧ WellFormed exampleModel .mem64 := by
  constructor <;>
  · refine ⟨by decide, by decide +kernel, ?_, ?_, ?_, ?_, ?_, ?_, ?_, ?_, ?_, ?_, ?_, ?_, ?_⟩
    · intro t ht
      simp only [exampleModel, List.mem_singleton] at ht
      subst ht
      exact ⟨by decide, by decide, by decide, by decide, by decide, by decide⟩
    · intro r hr
      simp only [exampleModel, List.mem_cons, List.not_mem_nil, or_false] at hr
      rcases hr with rfl | rfl <;> (unfold RegionFits; decide)
    · intro i hi
      simp only [exampleModel, List.mem_singleton] at hi
      subst hi
      exact ⟨by decide, by decide, by decide, by decide, by decide, by decide, by decide⟩
    · intro n hn
      simp only [exampleModel, List.mem_cons, List.not_mem_nil, or_false] at hn
      subst hn
      exact ⟨by decide, validName_of_all _ (by decide)⟩
    · intro u hu
      simp only [exampleModel, List.mem_cons, List.not_mem_nil, or_false] at hu
      subst hu
      exact ⟨by decide, by decide, by decide, by decide, by decide, validName_of_all _ (by decide)⟩
    · intro x hx
      simp only [exampleModel, List.mem_cons, List.not_mem_nil, or_false] at hx
      rcases hx with rfl | rfl | rfl | rfl | rfl <;>
        refine ⟨by decide, by decide, by decide, by decide, by decide, by decide, validName_of_all _ (by decide), ?_⟩ <;>
        intro cv hcv <;> simp only [Option.some.injEq, reduceCtorEq] at hcv <;> subst hcv <;>
        simp only [CvFits] <;> decide
    · intro x hx
      simp only [exampleModel, Option.some.injEq] at hx
      subst hx
      exact ⟨by decide, by decide, by decide, by decide, by decide, by decide, by decide, by decide⟩
    · intro x hx
      simp only [exampleModel, Option.some.injEq] at hx
      subst hx
      exact ⟨by decide, by decide, by decide, by decide, by decide, by decide, by decide, by decide, by decide,
        by decide, by decide, validName_of_all _ (by decide)⟩
    · intro x hx
      simp only [exampleModel, Option.some.injEq] at hx
      subst hx
      exact ⟨by decide, by decide, fits_of_fitsB (by decide), by decide⟩
    · intro x hx h hh
      simp only [exampleModel, Option.some.injEq] at hx
      subst hx
      simp only [List.mem_cons, List.not_mem_nil, or_false] at hh
      rcases hh with rfl | rfl
      · refine ⟨by decide, by decide, by decide, by decide, by decide, validName_of_all _ (by decide), trivial, ?_⟩
        intro i hi
        simp only [List.mem_cons, List.not_mem_nil, or_false] at hi
        rcases hi with rfl | rfl <;> decide
      · refine ⟨by decide, by decide, by decide, by decide, by decide, trivial, validName_of_all _ (by decide), ?_⟩
        intro i hi
        simp at hi
    · intro x hx en hen
      simp only [exampleModel, Option.some.injEq] at hx
      subst hx
      simp only [List.mem_cons, List.not_mem_nil, or_false] at hen
      rcases hen with rfl | rfl | rfl | rfl | rfl | rfl
      · refine ⟨by decide, by decide, by decide, by decide, by decide, by decide, by decide, ?_, by decide, by decide⟩
        refine ⟨by decide, .inr ⟨⟨0x2f, rfl, by decide⟩, ⟨0x61, rfl, by decide⟩⟩, by decide, by decide, by decide, by decide⟩
      · exact ⟨by decide, by decide, by decide, by decide, by decide, by decide, by decide, trivial, by decide, by decide⟩
      · exact ⟨by decide, by decide, by decide, by decide, by decide, by decide, by decide,
          (by show (77 : Nat) < 2 ^ 32; decide), by decide, by decide⟩
      · exact ⟨by decide, by decide, by decide, by decide, by decide, by decide, by decide,
          (by show (0xaabbccdd : Nat) < 2 ^ 32; decide), by decide, by decide⟩
      · exact ⟨by decide, by decide, by decide, by decide, by decide, by decide, by decide, ⟨by decide, by decide⟩,
          by decide, by decide⟩
      · exact ⟨by decide, by decide, by decide, by decide, by decide, by decide, by decide, trivial, by decide, by decide⟩
    · intro x hx
      simp only [exampleModel, Option.some.injEq] at hx
      subst hx
      refine ⟨by decide, by decide, ?_, ?_, ?_, ?_⟩
      · exact ⟨rfl, by decide, by decide, by decide, by decide⟩
      · exact ⟨rfl, by decide, by decide, by decide, by decide⟩
      · intro kv hkv
        simp only [List.mem_cons, List.not_mem_nil, or_false] at hkv
        rcases hkv with rfl | rfl | rfl <;> exact ⟨by decide, by decide⟩
      · intro y hy
        simp only [List.mem_cons, List.not_mem_nil, or_false] at hy
        rcases hy with rfl | rfl
        · refine ⟨by decide, by decide, ?_, ?_, ?_⟩
          · intro s hs
            simp only [List.mem_cons, List.not_mem_nil, or_false] at hs
            rcases hs with rfl | rfl <;> decide
          · intro kv hkv
            simp only [List.mem_cons, List.not_mem_nil, or_false] at hkv
            subst hkv
            exact ⟨by decide, by decide⟩
          · intro a ha
            simp only [List.mem_cons, List.not_mem_nil, or_false] at ha
            rcases ha with rfl | rfl | rfl | rfl
            · show utf8Valid _ = true; decide
            · exact ⟨by decide, by decide⟩
            · exact ⟨by decide, by decide, by decide, by decide, by decide⟩
            · exact ⟨by decide, by decide, by decide, by decide, by decide⟩
        · exact ⟨by decide, by decide, by simp, by intro kv hkv; simp at hkv, by simp⟩
    · intro x hx
      simp only [exampleModel, List.mem_singleton] at hx
      subst hx
      decide

/-- the theorem is not vacuous on a stream it newly covers: the model's third module (ELF) is in
    the report, the second (image size 0) is not -/
example : (report exampleModel .big .mem).modules = .ok (exampleModel.modules.eraseIdx 1) := by
  simp [report, exampleModel, badImageSize, U64MAX]

/-! ## 4. "byte-identical memory at every address of every region" -/

/-- **C02.4 `memory_bytes_exact`** — for every well-formed model, either byte order, either list
    form: take any region `r` of the list the reader reports (`pre ++ r :: post`) whose last address
    is at most 2^64-2 (see `top_region_unreachable`) and which shares no address with another
    region (overlaps are C08's subject: the table keeps one of them). Then EVERY address
    `r.base + j` of it reads back, through `memory_at_address` (C08's range table) and
    `get_memory_at_address::<u8>`, exactly the byte `r.bytes[j]` the model holds. -/
theorem memory_bytes_exact {m : DumpModel} {f : MemForm} (wf : WellFormed m f) (e : Endian)
    (pre post : List MRegion) (r : MRegion) (hm : (report m e f).memory = .ok (pre ++ r :: post))
    (hfit : r.base + r.bytes.length ≤ U64MAX) (hiso : ∀ x ∈ pre ++ post, Apart r x)
    (j : Nat) (hj : j < r.bytes.length) :
    ∃ rep rs, decode (encode m e f) = .ok rep ∧ rep.memory = .ok rs ∧
      memoryByteAt rs (r.base + j) = some r.bytes[j] := by
  refine ⟨report m e f, pre ++ r :: post, decode_encode wf e, hm, ?_⟩
  rw [memoryByteAt_exact pre post r j hj hfit hiso]
  simp [hj]

/-- the lookup on its own, for any region list (what the theorem above instantiates) -/
theorem memory_lookup_exact (pre post : List MRegion) (r : MRegion) (j : Nat) (hj : j < r.bytes.length)
    (hfit : r.base + r.bytes.length ≤ U64MAX) (hiso : ∀ x ∈ pre ++ post, Apart r x) :
    memoryByteAt (pre ++ r :: post) (r.base + j) = r.bytes[j]? :=
  memoryByteAt_exact pre post r j hj hfit hiso

/-- **the hypothesis `hfit` excludes exactly the known finding**: a region that ends exactly at
    2^64 (`base + len = 2^64`, every address of it a valid u64) is in the reported list but NO
    address can be read back — `memory_range()` is `None` for it. (KNOWN-FINDING
    C02-region-ending-at-2^64; the engine reproduces it on the real reader.) -/
theorem top_region_unreachable (r : MRegion) (h : r.base + r.bytes.length > U64MAX) (a : Nat) :
    memoryByteAt [r] a = none := by
  unfold memoryByteAt
  cases hget : RangeMap.get (regionTable [r]) a with
  | none => rfl
  | some v =>
    exfalso
    obtain ⟨rg, hmem, _, _⟩ := RangeMap.get_sound _ a v hget
    simp only [List.zipIdx_cons, List.zipIdx_nil, List.map_cons, List.map_nil, List.mem_singleton, Prod.mk.injEq] at hmem
    have hnone : RangeMap.mkRange r.base r.bytes.length = none := by
      unfold RangeMap.mkRange
      by_cases h0 : r.bytes.length = 0
      · rw [if_pos h0]
      · rw [if_neg h0, if_pos h]
    rw [hnone] at hmem
    exact absurd hmem.1 (by simp)

example : memoryByteAt [⟨18446744073709551615, [226]⟩] 18446744073709551615 = none :=
  top_region_unreachable _ (by decide) _

/-! ## 5. "The same model written little-endian or big-endian parses to the same result" -/

/-- **C02.5 `endian_agnostic`** — the two byte orders of one model decode to the same result: every
    field of what the reader reports is equal, except the byte-order tag itself (which is recovered
    correctly in both). One DERIVED string depends on that tag by definition — the debug identifier
    of an ELF build id is the build id read as a GUID in the dump's byte order (`debugId e`, see
    `ids_as_documented` and notes/C02.md) — the CodeView record it is derived from is equal. -/
theorem endian_agnostic {m : DumpModel} {f : MemForm} (wf : WellFormed m f) :
    ∃ rl rb, decode (encode m .little f) = .ok rl ∧ decode (encode m .big f) = .ok rb ∧
      rl.endian = .little ∧ rb.endian = .big ∧ { rl with endian := .big } = rb :=
  ⟨report m .little f, report m .big f, decode_encode wf .little, decode_encode wf .big, rfl, rfl, rfl⟩

/-! ## 6. "debug/code identifiers equal to the documented derivation from the CodeView record" -/

/-- the GUID a 16-byte (zero-padded / truncated) ELF build id stands for, as UUID bytes: read in
    the dump's byte order — little-endian swaps the first three fields (the Breakpad convention),
    big-endian keeps the bytes -/
def elfUuid (e : Endian) (g : List UInt8) : List UInt8 :=
  match e with
  | .big => g.take 4 ++ (g.drop 4).take 2 ++ (g.drop 6).take 2 ++ g.drop 8
  | .little => (g.take 4).reverse ++ ((g.drop 4).take 2).reverse ++ ((g.drop 6).take 2).reverse ++ g.drop 8

/-- **C02.6 `ids_as_documented`** — the model of `read_debug_id` / `code_identifier` (which goes
    through `Uuid::from_fields`, `DebugId::from_parts/from_pdb20`, `.breakpad()`, `CodeId::new`) produces
    exactly the documented strings, for ALL values:
    * PDB 7.0: GUID as `{:08X}{:04X}{:04X}` of data1..3, the 8 bytes of data4 in upper-case hex, then
      the age in lower-case hex without padding (absent for the nil GUID);
    * PDB 2.0: the signature as 8 upper-case hex digits, then the age;
    * ELF: absent for an all-zero (or empty) build id; else the build id padded with zeros / truncated
      to 16 bytes, read as a GUID in the dump's byte order, age 0; the code id is the whole build id in
      lower-case hex;
    * PE code id: `{:08x}{:x}` of time stamp and image size (lower-cased by `CodeId::new`); on macOS/iOS
      the GUID; on Windows also without a CodeView record. -/
theorem ids_as_documented :
    (∀ e d1 d2 d3 d4 age file, allZero (uuidFromFields d1 d2 d3 d4) = false →
      debugId e (.pdb70 d1 d2 d3 d4 age file) =
        some (String.ofList (hexPad hexDigitUpper 8 d1 ++ hexPad hexDigitUpper 4 d2 ++ hexPad hexDigitUpper 4 d3 ++
          hexBytes hexDigitUpper d4 ++ hexMin hexDigitLower age))) ∧
    (∀ e d1 d2 d3 d4 age file, allZero (uuidFromFields d1 d2 d3 d4) = true →
      debugId e (.pdb70 d1 d2 d3 d4 age file) = none) ∧
    (∀ e off sig age file, debugId e (.pdb20 off sig age file) =
        some (String.ofList (hexPad hexDigitUpper 8 sig ++ hexMin hexDigitLower age))) ∧
    (∀ e bid, allZero bid = true → debugId e (.elf bid) = none ∧ ∀ os m, m.cv = some (.elf bid) → codeId os m = none) ∧
    (∀ e bid, allZero bid = false →
      debugId e (.elf bid) = some (String.ofList
        (hexBytes hexDigitUpper (elfUuid e ((bid ++ List.replicate (16 - bid.length) 0).take 16)) ++ ['0']))) ∧
    (∀ os m bid, m.cv = some (.elf bid) → allZero bid = false →
      codeId os m = some (String.ofList (hexBytes hexDigitLower bid))) ∧
    (∀ m, m.cv = none → codeId .windows m = some (timeSizeId m.time m.size) ∧ codeId .linux m = none) := by
  refine ⟨?_, ?_, ?_, ?_, ?_, ?_, ?_⟩
  · intro e d1 d2 d3 d4 age file h
    simp only [debugId, h, Bool.false_eq_true, if_false, breakpadId]
    simp only [uuidFromFields, hexBytes_append, hexBytes_encNat_big, List.append_assoc]
  · intro e d1 d2 d3 d4 age file h
    simp [debugId, h]
  · intro e off sig age file; rfl
  · intro e bid h
    refine ⟨by simp [debugId, h], ?_⟩
    intro os m hm
    simp [codeId, hm, h]
  · intro e bid h
    simp only [debugId, h, Bool.false_eq_true, if_false, breakpadId, uuidFromFields, hexBytes_append]
    have hmin : hexMin hexDigitLower 0 = ['0'] := by decide
    rw [hmin]
    -- the three numeric fields, written big-endian again, are the bytes (BE) or the reversed bytes (LE)
    generalize hg : (bid ++ List.replicate (16 - bid.length) 0).take 16 = g
    have hlen : g.length = 16 := by rw [← hg]; simp; omega
    have l4 : (g.take 4).length = 4 := by simp [hlen]
    have l2 : ((g.drop 4).take 2).length = 2 := by simp [hlen]
    have l2' : ((g.drop 6).take 2).length = 2 := by simp [hlen]
    cases e with
    | big =>
      have a := encNat_big_decodeNat_big (g.take 4)
      have b := encNat_big_decodeNat_big ((g.drop 4).take 2)
      have c := encNat_big_decodeNat_big ((g.drop 6).take 2)
      rw [l4] at a; rw [l2] at b; rw [l2'] at c
      simp only [a, b, c, elfUuid, hexBytes_append, List.append_assoc]
    | little =>
      have a := encNat_big_decodeNat_little (g.take 4)
      have b := encNat_big_decodeNat_little ((g.drop 4).take 2)
      have c := encNat_big_decodeNat_little ((g.drop 6).take 2)
      rw [l4] at a; rw [l2] at b; rw [l2'] at c
      simp only [a, b, c, elfUuid, hexBytes_append, List.append_assoc]
  · intro os m bid hm h
    simp [codeId, hm, h]
  · intro m hm
    simp [codeId, hm]

/-- a concrete instance (the Breakpad example): a PDB 7.0 record and a 20-byte ELF build id in both
    byte orders -/
example : debugId .little (.pdb70 0xABCD1234 0xF00D 0xBEEF [1, 2, 3, 4, 5, 6, 7, 8] 1 []) =
    some "ABCD1234F00DBEEF01020304050607081" := by decide
example : debugId .little (.elf [1, 2, 3, 4, 5, 6, 7, 8, 9, 10, 11, 12, 13, 14, 15, 16, 17, 18, 19, 20]) =
      some "0403020106050807090A0B0C0D0E0F100" ∧
    debugId .big (.elf [1, 2, 3, 4, 5, 6, 7, 8, 9, 10, 11, 12, 13, 14, 15, 16, 17, 18, 19, 20]) =
      some "0102030405060708090A0B0C0D0E0F100" := by decide

end MdModel.Encode
