/-
  C08 — Address lookups over untrusted range tables are sound and complete.

  Property text: "For any list of modules, memory regions, memory-info or maps entries, unloaded
  modules, or symbol-file FUNC, line, CFI and WIN records — including empty, overlapping,
  duplicated and address-space-overflowing entries — building the lookup table never fails. A
  lookup only ever returns an entry whose own address range contains the queried address,
  iteration by address is sorted and non-overlapping, an entry that intersects no other entry is
  returned for every address inside it, and the unloaded-module lookup returns exactly all entries
  covering the address."

  The theorems are about `MdModel.RangeMap` (the model the compiled driver executes and the
  `ranges` engine compares with the eleven table builders of the repository on every run).
  No hypothesis restricts the input list: lists are arbitrary, of any length.
-/
import MdProofs.Lemmas.RangeMap
namespace MdModel.RangeMap
open MdModel

/-! ## 0. every `memory_range()` constructor yields an ordered range inside `u64`
      (so `Range::new` cannot panic with "Ranges must be ordered") -/

theorem mkRange_wf {b s : Nat} {r : Rng} (h : mkRange b s = some r) :
    r.lo ≤ r.hi ∧ r.hi ≤ U64MAX ∧ r.lo = b ∧ r.hi + 1 = b + s := by
  unfold mkRange at h
  split at h; · cases h
  split at h; · cases h
  cases h; simp; omega

theorem mkRangeLine_wf {b s : Nat} {r : Rng} (h : mkRangeLine b s = some r) :
    r.lo ≤ r.hi ∧ r.hi ≤ U64MAX ∧ r.lo = b := by
  unfold mkRangeLine at h
  split at h; · cases h
  split at h; · cases h
  cases h; simp; omega

theorem mkRangeMap_wf {lo hi : Nat} {r : Rng} (hhi : hi ≤ U64MAX) (h : mkRangeMap lo hi = some r) :
    r.lo ≤ r.hi ∧ r.hi ≤ U64MAX := by
  unfold mkRangeMap at h
  split at h; · cases h
  cases h; simp; omega

/-- Well-formedness of an input list: every *present* range is ordered and inside `u64`.
    `mkRange_wf`, `mkRangeLine_wf`, `mkRangeMap_wf` show every constructor establishes it. -/
def InputWF (xs : List (Option Rng × Val)) : Prop :=
  ∀ e ∈ xs, ∀ r, e.1 = some r → r.lo ≤ r.hi ∧ r.hi ≤ U64MAX

theorem validOnly_wf {xs : List (Option Rng × Val)} (h : InputWF xs) : ∀ e ∈ validOnly xs, WF e := by
  intro e he
  simp only [validOnly, List.mem_filterMap, Option.map_eq_some_iff] at he
  obtain ⟨x, hx, r, hr, rfl⟩ := he
  exact h x hx r hr

theorem sortOpt_wf {xs : List (Option Rng × Val)} (h : InputWF xs) : InputWF (sortOpt xs) := by
  intro e he
  exact h e (List.mem_mergeSort.mp he)

/-! ## 1. iteration by address is sorted and non-overlapping (`Sep`) -/

/-- **C08.1** the vector built by `into_rangemap_safe` is normalized: ordered ranges, strictly
    increasing and pairwise disjoint (`Sep` ⇒ `Pairwise (a.hi < b.lo)`). -/
theorem safeVec_sep (xs : List (Option Rng × Val)) (h : InputWF xs) : Sep (safeVec xs) :=
  keep_sep _ (validOnly_wf (sortOpt_wf h))

theorem safeVec_sorted_disjoint (xs : List (Option Rng × Val)) (h : InputWF xs) :
    (safeVec xs).Pairwise (fun a b => a.1.lo ≤ a.1.hi ∧ a.1.hi < b.1.lo) := by
  have hs := safeVec_sep xs h
  have hp := hs.pairwise
  have hw := hs.wf
  revert hp hw
  generalize safeVec xs = m
  intro hp hw
  induction hp with
  | nil => exact List.Pairwise.nil
  | cons hh _ ih =>
    exact List.Pairwise.cons (fun x hx => ⟨(hw _ List.mem_cons_self).1, hh x hx⟩)
      (ih (fun e he => hw e (List.mem_cons_of_mem _ he)))

/-- parser copy -/
theorem safeVecP_sep (xs : List Entry) (h : ∀ e ∈ xs, WF e) : Sep (safeVecP xs) :=
  keep_sep _ (fun e he => h e (List.mem_mergeSort.mp he))

/-! ## 2. building never fails: the final `try_from_iter(..).unwrap()` cannot panic -/

theorem tryFromIter_of_sep (m : List Entry) (h : Sep m) : tryFromIter m = (m, []) := by
  unfold tryFromIter
  rw [sortEntries_of_sep m h, pass_of_sep m h]

/-- **C08.2** `into_rangemap_safe` never panics, and the table it returns is `safeVec`. -/
theorem safe_ok (xs : List (Option Rng × Val)) (h : InputWF xs) : safe xs = .ok (safeVec xs) := by
  unfold safe
  rw [tryFromIter_of_sep _ (safeVec_sep xs h)]
  rfl

theorem safeP_ok (xs : List Entry) (h : ∀ e ∈ xs, WF e) : safeP xs = .ok (safeVecP xs) := by
  unfold safeP
  rw [tryFromIter_of_sep _ (safeVecP_sep xs h)]
  rfl

/-! ## 3. a lookup only returns an entry whose own range contains the address -/

/-- **C08.3** (no hypothesis on the list): whatever `get` returns at `a` is the value of an
    *input* entry whose own range contains `a`. A merged table range is exactly the union of the
    equal-valued input ranges it absorbed. -/
theorem get_sound (xs : List (Option Rng × Val)) (a : Nat) (v : Val)
    (h : get (safeVec xs) a = some v) :
    ∃ r, (some r, v) ∈ xs ∧ r.lo ≤ a ∧ a ≤ r.hi := by
  obtain ⟨e, he, hc, rfl⟩ := get_sound_mem _ a v h
  simp only [Rng.contains, Bool.and_eq_true, decide_eq_true_eq] at hc
  obtain ⟨s, hs, hv, h1, h2⟩ := keep_covered _ e he a hc.1 hc.2
  simp only [validOnly, List.mem_filterMap, Option.map_eq_some_iff] at hs
  obtain ⟨x, hx, r, hr, rfl⟩ := hs
  refine ⟨r, ?_, h1, h2⟩
  have hx' : x ∈ xs := List.mem_mergeSort.mp hx
  have : x = (some r, e.2) := by
    cases x; simp at hr hv ⊢; exact ⟨hr, hv⟩
  rw [← this]; exact hx'

theorem getP_sound (xs : List Entry) (a : Nat) (v : Val) (h : get (safeVecP xs) a = some v) :
    ∃ r, (r, v) ∈ xs ∧ r.lo ≤ a ∧ a ≤ r.hi := by
  obtain ⟨e, he, hc, rfl⟩ := get_sound_mem _ a v h
  simp only [Rng.contains, Bool.and_eq_true, decide_eq_true_eq] at hc
  obtain ⟨s, hs, hv, h1, h2⟩ := keep_covered _ e he a hc.1 hc.2
  have hs' : s ∈ xs := List.mem_mergeSort.mp hs
  refine ⟨s.1, ?_, h1, h2⟩
  rw [← hv]; exact hs'

/-- Form used by the index-valued tables (modules, memory, memory-info, maps): values are
    positions, hence pairwise distinct, so *the* entry with the returned value contains `a`. -/
theorem get_sound_distinct (xs : List (Option Rng × Val)) (a : Nat) (v : Val)
    (hd : ∀ e₁ ∈ xs, ∀ e₂ ∈ xs, e₁.2 = e₂.2 → e₁ = e₂)
    (h : get (safeVec xs) a = some v) :
    ∀ e ∈ xs, e.2 = v → ∃ r, e.1 = some r ∧ r.lo ≤ a ∧ a ≤ r.hi := by
  obtain ⟨r, hr, h1, h2⟩ := get_sound xs a v h
  intro e he hv
  have := hd e he _ hr (by simpa using hv)
  exact ⟨r, by rw [this], h1, h2⟩

/-- Form used by the symbol tables (FUNC, line, CFI, WIN): the value is a record that carries its
    own address and size, so its range is a function `rangeOf` of the value. -/
theorem get_sound_selfranged (xs : List (Option Rng × Val)) (rangeOf : Val → Option Rng)
    (hself : ∀ e ∈ xs, e.1 = rangeOf e.2) (a : Nat) (v : Val)
    (h : get (safeVec xs) a = some v) :
    ∃ r, rangeOf v = some r ∧ r.lo ≤ a ∧ a ≤ r.hi := by
  obtain ⟨r, hr, h1, h2⟩ := get_sound xs a v h
  exact ⟨r, by simpa using (hself _ hr).symm, h1, h2⟩

/-! ## 4. an entry that intersects no other entry is found for every address inside it -/

private def HasCover (out : List Entry) (a : Nat) (v : Val) : Prop :=
  ∃ e ∈ out, e.1.contains a = true ∧ e.2 = v

private theorem hasCover_cons {out : List Entry} {a : Nat} {v : Val} (x : Entry)
    (h : HasCover out a v) : HasCover (x :: out) a v := by
  obtain ⟨e, he, h⟩ := h
  exact ⟨e, List.mem_cons_of_mem _ he, h⟩

/-- phase C: once the last element covers `a` and everything still to come starts above `a`. -/
private theorem keep_phaseC (a : Nat) (v : Val) (l : Entry) (B : List Entry)
    (hl : l.1.lo ≤ a ∧ a ≤ l.1.hi ∧ l.2 = v) (hB : ∀ x ∈ B, a < x.1.lo) :
    HasCover (keep (some l) B) a v := by
  induction B generalizing l with
  | nil => exact ⟨l, by simp [keep], by simp [Rng.contains]; omega, hl.2.2⟩
  | cons e rest ih =>
    obtain ⟨lr, lv⟩ := l
    have hrest : ∀ x ∈ rest, a < x.1.lo := fun x h => hB x (List.mem_cons_of_mem _ h)
    simp only [keep]
    split
    · exact ih _ hl hrest
    · split
      · apply ih _ _ hrest
        obtain ⟨h1, h2, h3⟩ := hl
        simp at h1 h2 ⊢
        exact ⟨h1, by omega, h3⟩
      · obtain ⟨h1, h2, h3⟩ := hl
        simp at h1 h2
        exact ⟨(lr, lv), List.mem_cons_self, by simp [Rng.contains]; omega, h3⟩

/-- phase B: the isolated entry itself arrives while the last element ends below it. -/
private theorem keep_phaseB (r : Rng) (v : Val) (a : Nat) (l : Option Entry) (B : List Entry)
    (ha : r.lo ≤ a ∧ a ≤ r.hi) (hl : ∀ x, l = some x → x.1.lo ≤ x.1.hi ∧ x.1.hi < r.lo)
    (hB : ∀ x ∈ B, r.hi < x.1.lo) :
    HasCover (keep l ((r, v) :: B)) a v := by
  have hB' : ∀ x ∈ B, a < x.1.lo := fun x h => by have := hB x h; omega
  cases l with
  | none => simp only [keep]; exact keep_phaseC a v (r, v) B ⟨ha.1, ha.2, rfl⟩ hB'
  | some l =>
    obtain ⟨lr, lv⟩ := l
    have := hl (lr, lv) rfl
    simp at this
    simp only [keep]
    split
    · rename_i h; simp at h; omega
    · split
      · apply keep_phaseC a v _ B _ hB'
        rename_i h; simp at h ⊢
        exact ⟨by omega, by omega, h.2.symm⟩
      · exact hasCover_cons _ (keep_phaseC a v (r, v) B ⟨ha.1, ha.2, rfl⟩ hB')

/-- phase A: entries that end below the isolated one do not matter. -/
private theorem keep_phaseA (r : Rng) (v : Val) (a : Nat) (l : Option Entry) (A B : List Entry)
    (ha : r.lo ≤ a ∧ a ≤ r.hi) (hl : ∀ x, l = some x → x.1.lo ≤ x.1.hi ∧ x.1.hi < r.lo)
    (hA : ∀ x ∈ A, x.1.lo ≤ x.1.hi ∧ x.1.hi < r.lo) (hB : ∀ x ∈ B, r.hi < x.1.lo) :
    HasCover (keep l (A ++ (r, v) :: B)) a v := by
  induction A generalizing l with
  | nil => exact keep_phaseB r v a l B ha hl hB
  | cons e rest ih =>
    have he := hA e List.mem_cons_self
    have hrest : ∀ x ∈ rest, x.1.lo ≤ x.1.hi ∧ x.1.hi < r.lo :=
      fun x h => hA x (List.mem_cons_of_mem _ h)
    cases l with
    | none =>
      simp only [List.cons_append, keep]
      exact ih (some e) (fun x hx => by cases hx; exact he) hrest
    | some l =>
      obtain ⟨lr, lv⟩ := l
      have hl' := hl (lr, lv) rfl
      simp only [List.cons_append, keep]
      split
      · exact ih _ hl hrest
      · split
        · apply ih _ _ hrest
          intro x hx; cases hx; simp at hl' ⊢; omega
        · exact hasCover_cons _ (ih (some e) (fun x hx => by cases hx; exact he) hrest)

theorem orle_trans (a b c : Option Rng × Val) :
    orle a.1 b.1 = true → orle b.1 c.1 = true → orle a.1 c.1 = true := by
  obtain ⟨a, _⟩ := a; obtain ⟨b, _⟩ := b; obtain ⟨c, _⟩ := c
  cases a <;> cases b <;> cases c <;> simp [orle]
  rename_i a b c
  exact rle_trans (a, 0) (b, 0) (c, 0)

theorem orle_total (a b : Option Rng × Val) : (orle a.1 b.1 || orle b.1 a.1) = true := by
  obtain ⟨a, _⟩ := a; obtain ⟨b, _⟩ := b
  cases a <;> cases b <;> simp [orle]
  rename_i a b
  simpa using rle_total (a, 0) (b, 0)

/-- **C08.4** an input entry `(some r, v)` whose range intersects no *other* valid entry of the
    list (other = any other position) is returned for every address inside it. -/
theorem get_complete (pre post : List (Option Rng × Val)) (r : Rng) (v : Val) (a : Nat)
    (hwf : InputWF (pre ++ (some r, v) :: post))
    (hiso : ∀ e ∈ pre ++ post, ∀ s, e.1 = some s → r.intersects s = false)
    (ha : r.lo ≤ a ∧ a ≤ r.hi) :
    get (safeVec (pre ++ (some r, v) :: post)) a = some v := by
  let xs := pre ++ (some r, v) :: post
  have hsep := safeVec_sep xs hwf
  -- the sorted, filtered source list
  let src := validOnly (sortOpt xs)
  have hperm : src.Perm (validOnly pre ++ (r, v) :: validOnly post) := by
    have h1 : (sortOpt xs).Perm xs := List.mergeSort_perm _ _
    have h2 := h1.filterMap (fun e : Option Rng × Val => e.1.map fun r => (r, e.2))
    simpa [src, xs, validOnly, List.filterMap_append] using h2
  have hmem : (r, v) ∈ src := hperm.mem_iff.mpr (by simp)
  obtain ⟨A, B, hAB⟩ := List.append_of_mem hmem
  have hpermAB : (A ++ B).Perm (validOnly pre ++ validOnly post) := by
    have h3 : (A ++ (r, v) :: B).Perm (validOnly pre ++ (r, v) :: validOnly post) := hAB ▸ hperm
    have h4 := (List.perm_middle (a := (r, v)) (l₁ := A) (l₂ := B)).symm.trans
      (h3.trans List.perm_middle)
    exact h4.cons_inv
  -- sortedness of src
  have hsorted : src.Pairwise (fun x y => rle x.1 y.1 = true) := by
    have h1 : (sortOpt xs).Pairwise (fun x y => orle x.1 y.1 = true) :=
      List.pairwise_mergeSort orle_trans orle_total xs
    have := List.Pairwise.filterMap (fun e : Option Rng × Val => e.1.map fun r => (r, e.2))
      (S := fun x y => rle x.1 y.1 = true) (R := fun x y => orle x.1 y.1 = true) ?_ h1
    · exact this
    · intro x y hxy x' hx' y' hy'
      obtain ⟨xo, xv⟩ := x; obtain ⟨yo, yv⟩ := y
      cases xo <;> cases yo <;> simp at hx' hy'
      subst hx' hy'
      simpa [orle] using hxy
  rw [hAB] at hsorted
  have hsrcwf : ∀ e ∈ src, WF e := validOnly_wf (sortOpt_wf hwf)
  have hnoint : ∀ x ∈ A ++ B, r.intersects x.1 = false := by
    intro x hx
    have hx' := hpermAB.mem_iff.mp hx
    simp only [validOnly, ← List.filterMap_append, List.mem_filterMap, Option.map_eq_some_iff] at hx'
    obtain ⟨e, he, s, hs, rfl⟩ := hx'
    exact hiso e he s hs
  have hrwf : WF (r, v) := hsrcwf _ hmem
  have hA : ∀ x ∈ A, x.1.lo ≤ x.1.hi ∧ x.1.hi < r.lo := by
    intro x hx
    have hle := (List.pairwise_append.mp hsorted).2.2 x hx (r, v) List.mem_cons_self
    have hni := hnoint x (List.mem_append_left _ hx)
    have hw := hsrcwf x (hAB ▸ List.mem_append_left _ hx)
    unfold WF at hw hrwf
    simp only [rle, Bool.or_eq_true, Bool.and_eq_true, decide_eq_true_eq, beq_iff_eq] at hle
    simp only [Rng.intersects, Bool.and_eq_false_iff, decide_eq_false_iff_not] at hni
    simp at hrwf
    omega
  have hB : ∀ x ∈ B, r.hi < x.1.lo := by
    intro x hx
    have hle := List.rel_of_pairwise_cons (List.pairwise_append.mp hsorted).2.1 hx
    have hni := hnoint x (List.mem_append_right _ hx)
    have hw := hsrcwf x (hAB ▸ List.mem_append_right _ (List.mem_cons_of_mem _ hx))
    unfold WF at hw hrwf
    simp only [rle, Bool.or_eq_true, Bool.and_eq_true, decide_eq_true_eq, beq_iff_eq] at hle
    simp only [Rng.intersects, Bool.and_eq_false_iff, decide_eq_false_iff_not] at hni
    simp at hrwf
    omega
  have hcov : HasCover (keep none (A ++ (r, v) :: B)) a v :=
    keep_phaseA r v a none A B ha (fun x h => by cases h) hA hB
  obtain ⟨e, he, hc, hv⟩ := hcov
  have : safeVec xs = keep none (A ++ (r, v) :: B) := by
    show (pass src).1 = _
    rw [hAB]; rfl
  have hfin := get_complete_mem (safeVec xs) hsep e (this ▸ he) a hc
  rw [hv] at hfin
  exact hfin

/-! ## 5. unloaded modules: a sorted vector and an exact filter -/

/-- **C08.5a** `by_addr()` of the unloaded list is sorted by `(start, end)`. -/
theorem unloaded_sorted (ms : List (Option Rng)) :
    (unloadedFrom ms).Pairwise (fun x y => rle x.1 y.1 = true) :=
  List.pairwise_mergeSort rle_trans rle_total _

/-- **C08.5b** `modules_at_address` returns exactly (as a multiset: each position once) the valid
    entries whose range contains the address. -/
theorem unloaded_exact (ms : List (Option Rng)) (a : Nat) :
    (unloadedAt (unloadedFrom ms) a).Perm
      (((validOnly (ms.zipIdx.map fun (r, i) => (r, i))).filter fun e => e.1.contains a).map (·.2)) := by
  unfold unloadedAt unloadedFrom sortEntries
  exact ((List.mergeSort_perm _ _).filter _).map _

/-! ## 6. the STACK WIN overlap repair cannot panic -/

private def WinInv (acc : List (Rng × Rec)) : Prop :=
  ∀ p ∈ acc, mkRange p.2.addr p.2.size = some p.1 ∧ p.2.size ≤ U32MAX

private theorem insertWin_ok (acc : List (Rng × Rec)) (info : Rec) (hacc : WinInv acc)
    (hinfo : info.size ≤ U32MAX) :
    ∃ acc', insertWin acc info = .ok acc' ∧ WinInv acc' := by
  unfold insertWin
  split
  · exact ⟨acc, rfl, hacc⟩
  · rename_i mr hmr
    have hnew : WinInv [(mr, info)] := by
      intro p hp; simp at hp; subst hp; exact ⟨hmr, hinfo⟩
    split
    · exact ⟨_, rfl, hnew⟩
    · rename_i lr li rest
      have hli := hacc (lr, li) List.mem_cons_self
      have hrest : WinInv rest := fun p hp => hacc p (List.mem_cons_of_mem _ hp)
      have hpush : WinInv ((mr, info) :: (lr, li) :: rest) := by
        intro p hp
        rcases List.mem_cons.mp hp with rfl | hp
        · exact ⟨hmr, hinfo⟩
        · exact hacc p hp
      split
      · rename_i hint
        split
        · rename_i hgt
          -- the repaired size is positive, below the old size, and the range stays valid
          obtain ⟨h1, h2, h3, h4⟩ := mkRange_wf hli.1
          obtain ⟨g1, g2, g3, g4⟩ := mkRange_wf hmr
          simp only [Rng.intersects, Bool.and_eq_true, decide_eq_true_eq] at hint
          have hsz : li.size ≤ U32MAX := hli.2
          have hd : info.addr - li.addr < li.size := by simp at *; omega
          have hmod : (info.addr - li.addr) % 2 ^ 32 = info.addr - li.addr := by
            apply Nat.mod_eq_of_lt
            have : U32MAX = 2 ^ 32 - 1 := U32MAX_eq
            omega
          have hsome : mkRange li.addr ((info.addr - li.addr) % 2 ^ 32) =
              some ⟨li.addr, li.addr + (info.addr - li.addr) - 1⟩ := by
            rw [hmod]
            unfold mkRange
            have hpos : ¬ info.addr - li.addr = 0 := by simp at *; omega
            have hfit : ¬ li.addr + (info.addr - li.addr) > U64MAX := by simp at *; omega
            simp only [if_neg hpos, if_neg hfit]
          simp only [hsome]
          refine ⟨_, rfl, ?_⟩
          intro p hp
          rcases List.mem_cons.mp hp with rfl | hp
          · exact ⟨hmr, hinfo⟩
          · rcases List.mem_cons.mp hp with rfl | hp
            · refine ⟨hsome, ?_⟩
              simp only [hmod]
              omega
            · exact hrest p hp
        · split
          · exact ⟨_, rfl, hacc⟩
          · exact ⟨_, rfl, hpush⟩
      · exact ⟨_, rfl, hpush⟩

/-- **C08.6** `insert_win_stack_info`'s `as u32` truncation and `memory_range().unwrap()` are
    safe for every sequence of STACK WIN records (sizes are `u32` by construction). -/
theorem win_repair_no_panic (recs : List Rec) (h : ∀ r ∈ recs, r.size ≤ U32MAX) :
    ∃ v, insertWinAll [] recs = .ok v := by
  suffices ∀ acc, WinInv acc → ∃ v, insertWinAll acc recs = .ok v from
    this [] (fun p hp => by cases hp)
  induction recs with
  | nil => intro acc _; exact ⟨_, rfl⟩
  | cons r rest ih =>
    intro acc hacc
    obtain ⟨acc', hok, hinv⟩ := insertWin_ok acc r hacc (h r List.mem_cons_self)
    simp only [insertWinAll, hok]
    exact ih (fun x hx => h x (List.mem_cons_of_mem _ hx)) acc' hinv

/-! ## non-vacuity: concrete instances of the hypotheses, and the model run on them -/

-- a list with an empty range, an overflowing one, a nested overlap and entries at the top of
-- the address space satisfies `InputWF`
example : InputWF [(mkRange 5 5, 0), (mkRange 7 10, 1), (mkRange 20 0, 2),
    (mkRange (U64MAX - 1) 2, 3), (mkRange (U64MAX - 3) 3, 4)] := by
  intro e he r hr
  simp at he
  rcases he with rfl | rfl | rfl | rfl | rfl <;> simp [mkRange, U64MAX] at hr <;>
    (try subst hr) <;> simp [U64MAX]

-- `get_complete`'s hypotheses are satisfiable on a list with overlaps elsewhere: the isolated
-- entry [30,31] is found although [5,9] and [7,16] conflict with each other
example : get (safeVec ([(mkRange 5 5, 0), (mkRange 7 10, 1)] ++ (some ⟨30, 31⟩, 2) :: [(mkRange 40 0, 3)])) 31
    = some 2 := by
  apply get_complete
  · intro e he r hr
    simp at he
    rcases he with rfl | rfl | rfl | rfl <;> simp [mkRange, U64MAX] at hr <;>
      (try subst hr) <;> simp [U64MAX]
  · intro e he s hs
    simp at he
    rcases he with rfl | rfl | rfl <;> simp [mkRange, U64MAX] at hs <;>
      (try subst hs) <;> simp [Rng.intersects]
  · simp

-- STACK WIN repair: three nested records as in the parser's comment
example : ∃ v, insertWinAll [] [⟨0, 10, 0⟩, ⟨1, 9, 1⟩, ⟨4, 6, 2⟩] = .ok v :=
  win_repair_no_panic _ (by intro r hr; simp at hr; rcases hr with rfl | rfl | rfl <;> simp [U32MAX])

end MdModel.RangeMap
