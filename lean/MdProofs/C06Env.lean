/-
  C06, instantiated inside the stack-walk environment — every `cfi` frame of every walk carries
  exactly the registers the documented postfix language prescribes.

  `MdProofs.C06` proves the property text about the evaluator model `MdModel.Cfi`; `MdProofs.C06Walk`
  proves that the evaluator inside the stack-walk model (`MdModel.Walk.Cfi`) is the same function.
  The walks C04/C05/C03/C14 talk about run that evaluator through `Env.cfi` of `mkEnv`
  (`get_caller_by_cfi` of each architecture: stack-pointer validity test, module lookup,
  `SymbolFile::walk_frame` on a fresh `CfiStackWalker` seeded by `callee_forwarded_regs`, ARM64
  pointer-authentication strip) and then the epilogue of `get_caller_frame`. This file states what
  that whole path computes, in C06's terms:

  * `mkEnv_cfi_spec` — for every architecture, module list and symbol records, `(mkEnv …).cfi` on a
    callee frame is C06's `walkFrame` on the record covering the lookup address (module by C08's
    table, module base subtracted, the record by the symbol file's CFI table), applied to the C06
    `Walker` of the callee frame (`c06Walker`), followed by the pointer-authentication mask; the
    grand-callee frame is not looked at;
  * `cfi_frame_epilogue` — the epilogue, exactly;
  * `walk_frames_follow_c06` — every frame of `walk (mkEnv …)` whose trust is `cfi`.

  `stack_entry_eq_walker` ties the last sampled-only piece of C06's model (`stackGlue`, the
  `cfi stack` protocol entry) to the same function.
-/
import MdProofs.Lemmas.CfiEnvStack
import MdProofs.C06Walk
namespace MdModel.CfiBridge
open MdModel

/-- "the grand-callee parameter is unused for CFI": STACK CFI evaluation looks at the callee frame only -/
theorem cfi_grand_unused (arch : Walk.Arch) (os : Walk.Os) (w : Walk.World) (mem : Walk.Mem)
    (callee : Walk.Frame) (grand : Option Walk.Frame) :
    (Walk.mkEnv arch os w mem).cfi callee grand = (Walk.mkEnv arch os w mem).cfi callee none := by
  show Walk.cfiOf arch w _ _ _ mem callee grand = Walk.cfiOf arch w _ _ _ mem callee none
  rw [cfiOf_eq, cfiOf_eq]

/-- **`mkEnv_cfi_spec`** — what `get_caller_by_cfi` computes inside the environment of a concrete
    walk, for EVERY architecture (`a` = the architecture the callee frame is unwound as), module
    list, symbol records, stack memory and callee frame whose context is well-formed (`CtxOk`:
    validity set over the context type's register names, 64-bit registers — an invariant of every
    frame of a walk, `walk_frames_follow_c06`). With `W` the C06 `Walker` of the callee frame:

    * no caller when the callee's stack pointer is not valid, when no module covers the lookup
      address (C08's table), when the module has no symbol file, when no `STACK CFI INIT` record
      covers the module-relative address (the symbol file's CFI table, C08);
    * otherwise, with `rec` the record the table yields (it covers the address): no caller iff C06's
      `walkFrame (recOf rec) m.base W` finds none; else the caller context `r` has as validity set
      exactly the registers C06's walk (CFA and return address stored in sp/ip: `seeded`) reports,
      each with C06's value (ARM64: `pc`, `lr`, `fp` masked), the callee's MIPS flag, and — for
      single-named sp/ip, i.e. everywhere but 32-bit ARM — raw `sp`/`ip` = the register's value if
      valid, else the CFA / the (masked) return address. -/
theorem mkEnv_cfi_spec (arch : Walk.Arch) (os : Walk.Os) (w : Walk.World) (mem : Walk.Mem)
    (callee : Walk.Frame) (grand : Option Walk.Frame) (hok : CtxOk arch callee.ctx) :
    (spValid (Walk.effArch arch callee.ctx) callee.ctx = false →
      (Walk.mkEnv arch os w mem).cfi callee grand = none) ∧
    (Walk.moduleAt (Walk.modTable w.mods) callee.instruction = none →
      (Walk.mkEnv arch os w mem).cfi callee grand = none) ∧
    (∀ k, Walk.moduleAt (Walk.modTable w.mods) callee.instruction = some k →
      ∃ m, w.mods[k]? = some m ∧ m.base ≤ callee.instruction ∧ callee.instruction < m.base + m.size ∧
      ((∀ sf, w.syms[k]? ≠ some (some sf)) → (Walk.mkEnv arch os w mem).cfi callee grand = none) ∧
      ∀ sf, w.syms[k]? = some (some sf) →
        (RangeMap.get (Walk.cfiTable sf) (callee.instruction - m.base) = none →
          (Walk.mkEnv arch os w mem).cfi callee grand = none) ∧
        ∀ j, RangeMap.get (Walk.cfiTable sf) (callee.instruction - m.base) = some j →
          ∃ rec, sf.cfis[j]? = some rec ∧ (recOf rec).covers (callee.instruction - m.base) = true ∧
          (spValid (Walk.effArch arch callee.ctx) callee.ctx = true →
            match Cfi.walkFrame (recOf rec) m.base (c06Walker (Walk.effArch arch callee.ctx) mem callee) with
            | none => (Walk.mkEnv arch os w mem).cfi callee grand = none
            | some c =>
              ∃ cfa ra c' r vs, c.cfa = some cfa ∧ c.ra = some ra ∧
                Cfi.walkFrame (recOf rec) m.base
                  (seeded (Walk.effArch arch callee.ctx) (c06Walker (Walk.effArch arch callee.ctx) mem callee) cfa ra) = some c' ∧
                (Walk.mkEnv arch os w mem).cfi callee grand = some r ∧
                r.valid = some vs ∧ r.m64 = callee.ctx.m64 ∧
                (∀ s, viewW (Walk.effArch arch callee.ctx) ⟨r, vs⟩ s =
                  ((c'.get (utf8 s)).map UInt64.toNat).map
                    (paMask (Walk.effArch arch callee.ctx) (Walk.mkEnv arch os w mem).mask s)) ∧
                (Walk.effArch arch callee.ctx ≠ .arm →
                  r.sp = ((c'.get (utf8 (Walk.effArch arch callee.ctx).spName)).map UInt64.toNat).getD cfa.toNat ∧
                  r.ip = paMask (Walk.effArch arch callee.ctx) (Walk.mkEnv arch os w mem).mask
                    (Walk.effArch arch callee.ctx).ipName
                    (((c'.get (utf8 (Walk.effArch arch callee.ctx).ipName)).map UInt64.toNat).getD ra.toNat)))) := by
  obtain ⟨hn1, hn2, hn3⟩ := cfi_none_of arch os w mem callee grand
  refine ⟨hn1, hn2, ?_⟩
  intro k hk
  obtain ⟨m, hm, hlo, hhi⟩ := Walk.moduleAt_sound w.mods _ _ hk
  refine ⟨m, hm, hlo, hhi, hn3 k hk, ?_⟩
  intro sf hsf
  generalize ha : Walk.effArch arch callee.ctx = a
  have hge : ¬ callee.instruction < m.base := by omega
  obtain ⟨hsimW, hall⟩ := c06Walker_related mem callee hok
  rw [ha] at hsimW hall
  constructor
  · intro hget
    by_cases hsp : spValid a callee.ctx = true
    · rw [← ha] at hsp
      rw [cfi_reduce arch os w mem callee grand k m sf hsp hk hm hsf, ha]
      have := (walkFrame_bridge sf m.base ⟨a, callee.ctx, mem⟩ ⟨callee.ctx, Walk.forwarded a callee.ctx⟩
        (c06Walker a mem callee) hsimW).2.1 hget
      rw [show (c06Walker a mem callee).instr = callee.instruction from rfl] at this
      rw [this]; rfl
    · rw [← ha] at hsp; exact hn1 (by simpa using hsp)
  · intro j hget
    obtain ⟨rec, hrec, hcov⟩ := cfiTable_index sf _ j hget
    refine ⟨rec, hrec, hcov, ?_⟩
    intro hsp
    have hred := cfi_reduce arch os w mem callee grand k m sf (by rw [ha]; exact hsp) hk hm hsf
    rw [ha] at hred
    have hf := walkFrameCfi_follows sf m.base ⟨a, callee.ctx, mem⟩ ⟨callee.ctx, Walk.forwarded a callee.ctx⟩
      (c06Walker a mem callee) hsimW hall j rec hge hget hrec
    rw [show (c06Walker a mem callee).instr = callee.instruction from rfl] at hf
    cases hc : Cfi.walkFrame (recOf rec) m.base (c06Walker a mem callee) with
    | none =>
      rw [hc] at hf
      simp only
      rw [hred, hf]; rfl
    | some c =>
      rw [hc] at hf
      simp only
      obtain ⟨cfa, ra, o, c', h1, h2, h3, h4, hview, hraw⟩ := hf
      have hoo : OutOk a o := walkFrameCfi_ok (x := ⟨a, callee.ctx, mem⟩) (OutOk.init hok) h3
      obtain ⟨v1, v2, v3, v4, v5⟩ := stripPA_view hoo (Walk.mkEnv arch os w mem).mask
      refine ⟨cfa, ra, c', _, o.valid, h1, h2, h4, ?_, v1, ?_, ?_, ?_⟩
      · rw [hred, h3]; rfl
      · rw [v2]; exact walkFrameCfi_m64 h3
      · intro s; rw [v5 s, hview s]
      · intro harm
        constructor
        · rw [v3, ← rawC_sp a o.ctx, hraw _ (.inl rfl) (canon_sp_ip a harm _ (.inl rfl))]
          simp [sp_ne_ip a]
        · rw [v4, ← rawC_ip a o.ctx, hraw _ (.inr rfl) (canon_sp_ip a harm _ (.inr rfl))]
          simp

/-- **the epilogue of `get_caller_frame`, exactly**: `get_caller_frame` returns a frame of trust
    `cfi` iff CFI evaluation yields a context `r` whose (raw) instruction pointer is at least 4096
    and whose (raw) stack pointer is above the callee's — or equal to it, on ARM / ARM64 / MIPS, when
    the callee is the context frame; the frame is then `r` with lookup address `r.ip` − the
    architecture's call adjustment. -/
theorem cfi_frame_epilogue (env : Walk.Env) (mem : Walk.Mem) (p f : Walk.Frame) (g : Option Walk.Frame) :
    (Walk.step env mem p g = some f ∧ f.trust = .cfi) ↔
    ∃ r, env.cfi p g = some r ∧ 4096 ≤ r.ip ∧
      (p.ctx.sp < r.sp ∨ (env.arch.leafOk = true ∧ p.trust = .context ∧ r.sp = p.ctx.sp)) ∧
      f = { ctx := r, trust := .cfi, instruction := r.ip - env.arch.adj } := by
  constructor
  · rintro ⟨hs, ht⟩
    obtain ⟨hc, he⟩ := step_cfi hs ht
    obtain ⟨_, _, _, h4, h5⟩ := Walk.epilogue_spec he
    rw [Walk.leafOk_eff] at h5
    refine ⟨f.ctx, hc, h4, h5, ?_⟩
    unfold Walk.epilogue at he
    split at he
    · cases he
    · split at he
      · cases he
      · simp only [Option.some.injEq] at he
        rw [Walk.adj_eff] at he
        rw [← he]
  · rintro ⟨r, hc, hip, hsp, rfl⟩
    refine ⟨?_, rfl⟩
    unfold Walk.step
    simp only [candidate_of_cfi hc]
    unfold Walk.epilogue
    have h1 : ¬ r.ip < (Walk.effArch env.arch p.ctx).nullish := by rw [Walk.nullish_eq]; omega
    rw [if_neg h1, Walk.adj_eff, Walk.leafOk_eff]
    have h2 : ¬ (r.sp ≤ p.ctx.sp ∧ (!(env.arch.leafOk && p.trust == Walk.Trust.context && r.sp == p.ctx.sp)) = true) := by
      rintro ⟨hle, hb⟩
      rcases hsp with hlt | ⟨h3, h4, h5⟩
      · omega
      · simp [h3, h4, h5] at hb
    rw [if_neg h2]

/-- **frame `f` is what C06 prescribes for its callee `p`** (the statement of
    `walk_frames_follow_c06`; `a` = `effArch arch p.ctx` is the architecture `p` is unwound as) -/
def FollowsC06 (arch : Walk.Arch) (os : Walk.Os) (w : Walk.World) (mem0 : Walk.Mem) (p f : Walk.Frame) : Prop :=
  CtxOk arch p.ctx ∧ spValid (Walk.effArch arch p.ctx) p.ctx = true ∧
  ∃ k m sf j rec c cfa ra c' vs,
    -- the module covering the lookup address (C08), its symbol file, the record covering the
    -- module-relative address (C08)
    Walk.moduleAt (Walk.modTable w.mods) p.instruction = some k ∧ w.mods[k]? = some m ∧
    m.base ≤ p.instruction ∧ p.instruction < m.base + m.size ∧ w.syms[k]? = some (some sf) ∧
    RangeMap.get (Walk.cfiTable sf) (p.instruction - m.base) = some j ∧ sf.cfis[j]? = some rec ∧
    (recOf rec).covers (p.instruction - m.base) = true ∧
    -- C06's `walk_frame` on the callee's `Walker`; again with CFA / RA stored in sp / ip
    Cfi.walkFrame (recOf rec) m.base (c06Walker (Walk.effArch arch p.ctx) mem0 p) = some c ∧
    c.cfa = some cfa ∧ c.ra = some ra ∧
    Cfi.walkFrame (recOf rec) m.base
      (seeded (Walk.effArch arch p.ctx) (c06Walker (Walk.effArch arch p.ctx) mem0 p) cfa ra) = some c' ∧
    -- validity set and register values
    f.ctx.valid = some vs ∧ f.ctx.m64 = p.ctx.m64 ∧
    (∀ s, viewW (Walk.effArch arch p.ctx) ⟨f.ctx, vs⟩ s =
      ((c'.get (utf8 s)).map UInt64.toNat).map
        (paMask (Walk.effArch arch p.ctx) (Walk.mkEnv arch os w mem0).mask s)) ∧
    (Walk.effArch arch p.ctx ≠ .arm →
      f.ctx.sp = ((c'.get (utf8 (Walk.effArch arch p.ctx).spName)).map UInt64.toNat).getD cfa.toNat ∧
      f.ctx.ip = paMask (Walk.effArch arch p.ctx) (Walk.mkEnv arch os w mem0).mask (Walk.effArch arch p.ctx).ipName
        (((c'.get (utf8 (Walk.effArch arch p.ctx).ipName)).map UInt64.toNat).getD ra.toNat)) ∧
    -- the epilogue
    f.trust = .cfi ∧ 4096 ≤ f.ctx.ip ∧ f.instruction = f.ctx.ip - arch.adj ∧
    (p.ctx.sp < f.ctx.sp ∨ (arch.leafOk = true ∧ p.trust = .context ∧ f.ctx.sp = p.ctx.sp))

theorem follows_of_step (arch : Walk.Arch) (os : Walk.Os) (w : Walk.World) (mem0 m : Walk.Mem)
    (p f' : Walk.Frame) (g : Option Walk.Frame) (hp : CtxOk arch p.ctx)
    (hstep : Walk.step (Walk.mkEnv arch os w mem0) m p g = some f')
    (ht : (Walk.symbolise (Walk.mkEnv arch os w mem0) f').trust = .cfi) :
    FollowsC06 arch os w mem0 p (Walk.symbolise (Walk.mkEnv arch os w mem0) f') := by
  obtain ⟨r, hc, hip, hsp, hf⟩ := (cfi_frame_epilogue (Walk.mkEnv arch os w mem0) m p f' g).mp ⟨hstep, ht⟩
  obtain ⟨hn1, hn2, hsome⟩ := mkEnv_cfi_spec arch os w mem0 p g hp
  have hspv : spValid (Walk.effArch arch p.ctx) p.ctx = true := by
    cases hv : spValid (Walk.effArch arch p.ctx) p.ctx with
    | true => rfl
    | false => rw [hn1 hv] at hc; cases hc
  cases hk : Walk.moduleAt (Walk.modTable w.mods) p.instruction with
  | none => rw [hn2 hk] at hc; cases hc
  | some k =>
    obtain ⟨md, hm, hlo, hhi, hnosf, hsf⟩ := hsome k hk
    have hex : ∃ sf, w.syms[k]? = some (some sf) := by
      cases hs : w.syms[k]? with
      | none => rw [hnosf (fun sf e => by rw [hs] at e; cases e)] at hc; cases hc
      | some s =>
        cases s with
        | none => rw [hnosf (fun sf e => by rw [hs] at e; cases e)] at hc; cases hc
        | some sf => exact ⟨sf, rfl⟩
    obtain ⟨sf, hs⟩ := hex
    obtain ⟨hnoget, hgetc⟩ := hsf sf hs
    cases hget : RangeMap.get (Walk.cfiTable sf) (p.instruction - md.base) with
    | none => rw [hnoget hget] at hc; cases hc
    | some j =>
      obtain ⟨rec, hrec, hcov, hmain⟩ := hgetc j hget
      have hmain := hmain hspv
      cases hw : Cfi.walkFrame (recOf rec) md.base (c06Walker (Walk.effArch arch p.ctx) mem0 p) with
      | none => rw [hw] at hmain; simp only at hmain; rw [hmain] at hc; cases hc
      | some c =>
        rw [hw] at hmain
        simp only at hmain
        obtain ⟨cfa, ra, c', r', vs, h1, h2, h3, h4, h5, h6, h7, h8⟩ := hmain
        have hrr : r' = r := by rw [h4] at hc; exact Option.some.inj hc
        subst hrr
        have hctx : (Walk.symbolise (Walk.mkEnv arch os w mem0) f').ctx = r' := by rw [hf]; rfl
        have hinstr : (Walk.symbolise (Walk.mkEnv arch os w mem0) f').instruction = r'.ip - arch.adj := by rw [hf]; rfl
        refine ⟨hp, hspv, k, md, sf, j, rec, c, cfa, ra, c', vs, hk, hm, hlo, hhi, hs, hget, hrec, hcov, hw, h1, h2, h3, ?_⟩
        rw [hctx, hinstr]
        exact ⟨h5, h6, h7, h8, ht, hip, rfl, hsp⟩

/-- **`walk_frames_follow_c06`** — EVERY frame with trust `cfi` of EVERY walk in the environment
    built from a module list and symbol records, for every architecture, context (well-formed:
    `CtxOk`), stack memory: with `p` the frame below it (its callee) and `W` the C06 `Walker` of `p`,
    a module covers `p`'s lookup address, its symbol file has a `STACK CFI INIT` record covering the
    module-relative address, C06's `walkFrame` on that record succeeds, and the frame's

    * validity set is exactly the set of registers C06 reports, each valid register holding C06's
      value (ARM64: `pc`/`lr`/`fp` with the pointer-authentication bits masked off);
    * raw stack pointer / instruction pointer (single-named: everywhere but 32-bit ARM) are the
      register's value if valid, else the CFA / the masked return address;
    * epilogue: instruction pointer ≥ 4096, lookup address = instruction pointer − call adjustment,
      stack pointer above the callee's (equal allowed only above the context frame on ARM / ARM64 /
      MIPS); module and function are those of the lookup address (`walk_covered`, C05). -/
theorem walk_frames_follow_c06 (arch : Walk.Arch) (os : Walk.Os) (w : Walk.World) (mem0 : Walk.Mem)
    (mem : Option Walk.Mem) (ctx : Walk.Ctx) (hctx : CtxOk arch ctx) :
    ∀ (i : Nat) (h : i + 1 < (Walk.walk (Walk.mkEnv arch os w mem0) mem ctx).length),
      (Walk.walk (Walk.mkEnv arch os w mem0) mem ctx)[i + 1].trust = .cfi →
      FollowsC06 arch os w mem0 (Walk.walk (Walk.mkEnv arch os w mem0) mem ctx)[i]
        (Walk.walk (Walk.mkEnv arch os w mem0) mem ctx)[i + 1] := by
  intro i h ht
  obtain ⟨hp, _, m, g, f', _, _, hstep, hf⟩ :=
    walk_steps (Walk.mkEnv arch os w mem0) (mkEnv_cfiOk arch os w mem0) mem ctx hctx i h
  generalize (Walk.walk (Walk.mkEnv arch os w mem0) mem ctx)[i] = p at hp hstep ⊢
  generalize (Walk.walk (Walk.mkEnv arch os w mem0) mem ctx)[i + 1] = f at ht hf ⊢
  subst hf
  exact follows_of_step arch os w mem0 m p f' g hp hstep ht

/-! ## the `cfi stack` protocol entry of C06's model is the walker model's step

  `MdModel.Cfi.stackFrame` (two `walkFrame`s + `stackGlue`) answers the `stack` cases of engine
  `cfi`, which run the real `walk_stack`; it was the only piece of C06's model without theorems.
  It computes what the walker model — the model the `walk` engine ties to the same `walk_stack` —
  computes for frame 1: in-range test of `walk_stack`, `get_caller_by_cfi`, epilogue. -/

/-- a `stack` answer and a frame of the walker model tell the same story: both absent, or a `cfi`
    frame whose stack pointer / instruction pointer / every other register is valid with the same
    value, or unknown, on both sides -/
def StackRel (a : Walk.Arch) : Option Cfi.Caller → Option Walk.Frame → Prop
  | none, none => True
  | some c, some f =>
    f.trust = .cfi ∧ ∃ vs, f.ctx.valid = some vs ∧
      c.cfa.map UInt64.toNat = viewW a ⟨f.ctx, vs⟩ a.spName ∧
      c.ra.map UInt64.toNat = viewW a ⟨f.ctx, vs⟩ a.ipName ∧
      ∀ s, s ≠ a.spName → s ≠ a.ipName → (c.get (utf8 s)).map UInt64.toNat = viewW a ⟨f.ctx, vs⟩ s
  | _, _ => False

/-- the driver runs `stackFrameO`; it has no panic outcome and equals `stackFrame` -/
theorem stack_entry_total (r : Cfi.CfiRec) (base : Nat) (w : Cfi.Walker) (spN ipN : Cfi.Name) (sp : Nat)
    (leaf : Bool) (strip : Option UInt64) :
    Cfi.stackFrameO r base w spN ipN sp leaf strip = .ok (Cfi.stackFrame r base w spN ipN sp leaf strip) :=
  stackFrameO_eq r base w spN ipN sp leaf strip

/-- **`stack_entry_eq_walker`** — for every architecture with single-named sp/ip (all but 32-bit
    ARM; the `stack` cases use x86, amd64, arm64: `spIpOfArch_eq`), every callee frame `p` with a
    well-formed context, stack memory, module list and symbol records in which record `rec` of
    module `m` covers `p`'s lookup address: the `stack` entry on `p`'s C06 `Walker` (sp / ip names of
    the architecture, `leaf` = "ARM/ARM64/MIPS and `p` is the context frame", `strip` = ARM64's
    pointer-authentication mask) and the walker model's "`p`'s stack pointer is in the stack
    memory, `get_caller_by_cfi` yields a context, the epilogue accepts it" agree (`StackRel`). -/
theorem stack_entry_eq_walker (arch : Walk.Arch) (os : Walk.Os) (w : Walk.World) (mem : Walk.Mem)
    (p : Walk.Frame) (g : Option Walk.Frame) (hok : CtxOk arch p.ctx)
    (harm : Walk.effArch arch p.ctx ≠ .arm)
    (k : Nat) (m : Walk.Module) (sf : Walk.SymFile) (j : Nat) (rec : Walk.CfiRec)
    (hmod : Walk.moduleAt (Walk.modTable w.mods) p.instruction = some k) (hm : w.mods[k]? = some m)
    (hsf : w.syms[k]? = some (some sf))
    (hget : RangeMap.get (Walk.cfiTable sf) (p.instruction - m.base) = some j) (hrec : sf.cfis[j]? = some rec) :
    StackRel (Walk.effArch arch p.ctx)
      (Cfi.stackFrame (recOf rec) m.base (c06Walker (Walk.effArch arch p.ctx) mem p)
        (utf8 (Walk.effArch arch p.ctx).spName) (utf8 (Walk.effArch arch p.ctx).ipName) p.ctx.sp
        ((Walk.effArch arch p.ctx).leafOk && p.trust == .context)
        (stripOf (Walk.effArch arch p.ctx) (Walk.mkEnv arch os w mem).mask))
      (if mem.inRange p.ctx.sp then
        ((Walk.mkEnv arch os w mem).cfi p g).bind fun r => Walk.epilogue (Walk.effArch arch p.ctx) p r .cfi
       else none) := by
  obtain ⟨hn1, _, hsome⟩ := mkEnv_cfi_spec arch os w mem p g hok
  obtain ⟨hsimW, _⟩ := c06Walker_related mem p hok
  generalize ha : Walk.effArch arch p.ctx = a at *
  -- the callee's stack pointer is valid on both sides, or on neither
  have hspv : ((c06Walker a mem p).getCallee (utf8 a.spName)).isNone = !spValid a p.ctx := by
    have h1 := hsimW.env.reg a.spName
    have h2 : (⟨a, p.ctx, mem⟩ : Walk.CfiIn).reg a.spName = p.ctx.get a a.spName := rfl
    have h3 : (c06Walker a mem p).env.reg (utf8 a.spName) = (c06Walker a mem p).getCallee (utf8 a.spName) := rfl
    rw [h2, h3] at h1
    rw [spValid_eq]
    unfold Walk.Ctx.get at h1
    cases hh : p.ctx.has a a.spName with
    | true =>
      rw [hh] at h1
      cases hg : (c06Walker a mem p).getCallee (utf8 a.spName) with
      | none => rw [hg] at h1; simp at h1
      | some v => rfl
    | false =>
      rw [hh] at h1
      cases hg : (c06Walker a mem p).getCallee (utf8 a.spName) with
      | none => rfl
      | some v => rw [hg] at h1; simp at h1
  unfold Cfi.stackFrame
  rw [hspv]
  cases hsp : spValid a p.ctx with
  | false =>
    simp only [Bool.not_false, if_true]
    rw [hn1 hsp]
    simp only [Option.bind_none, ite_self]
    trivial
  | true =>
    simp only [Bool.not_true, Bool.false_eq_true, if_false]
    obtain ⟨m', hm', _, _, _, hsfc⟩ := hsome k hmod
    rw [hm] at hm'
    cases hm'
    obtain ⟨_, hgetc⟩ := hsfc sf hsf
    obtain ⟨rec', hrec', _, hmain⟩ := hgetc j hget
    rw [hrec] at hrec'
    cases hrec'
    have hmain := hmain hsp
    cases hc : Cfi.walkFrame (recOf rec) m.base (c06Walker a mem p) with
    | none =>
      rw [hc] at hmain
      simp only at hmain
      rw [hmain]
      simp only [Option.bind_none, ite_self]
      trivial
    | some c =>
      rw [hc] at hmain
      simp only at hmain
      obtain ⟨cfa, ra, c', r, vs, h1, h2, h3, h4, h5, _, h7, h8⟩ := hmain
      obtain ⟨hrsp, hrip⟩ := h8 harm
      simp only [h1, h2]
      have hseed : ({ c06Walker a mem p with
          fwd := Cfi.storeCfaRa (utf8 a.spName) (utf8 a.ipName) (c06Walker a mem p).fwd cfa ra } : Cfi.Walker) =
          seeded a (c06Walker a mem p) cfa ra := rfl
      rw [hseed, h3, h4]
      simp only [Option.bind_some]
      have hmask := mkEnv_mask_lt arch os w mem
      have hWmem : (c06Walker a mem p).mem = mem.bytes.toList := rfl
      have hWbase : (c06Walker a mem p).memBase = mem.base := rfl
      unfold Cfi.stackOf
      simp only
      by_cases hin : mem.inRange p.ctx.sp = true
      · have hin' : ((c06Walker a mem p).mem.isEmpty || decide ((c06Walker a mem p).memBase + (c06Walker a mem p).mem.length > U64MAX)
            || decide (p.ctx.sp < (c06Walker a mem p).memBase)
            || decide (p.ctx.sp > (c06Walker a mem p).memBase + (c06Walker a mem p).mem.length - 1)) = false := by
          rw [hWmem, hWbase, glue_range, hin]; rfl
        rw [stackGlue_spec _ _ _ _ _ _ _ hin', if_pos hin]
        -- raw instruction pointer and stack pointer on both sides
        have eip : (stripV (stripOf a (Walk.mkEnv arch os w mem).mask) ((c'.get (utf8 a.ipName)).getD ra)).toNat = r.ip := by
          rw [stripV_paMask a _ hmask, hrip]
          cases c'.get (utf8 a.ipName) <;> rfl
        have esp : ((c'.get (utf8 a.spName)).getD cfa).toNat = r.sp := by
          rw [hrsp]
          cases c'.get (utf8 a.spName) <;> rfl
        rw [eip, esp]
        unfold Walk.epilogue
        rw [Walk.nullish_eq]
        by_cases hlow : r.ip < 4096
        · simp only [hlow, if_true]; trivial
        · simp only [hlow, if_false]
          by_cases hprog : (decide (r.sp ≤ p.ctx.sp) && !((a.leafOk && p.trust == Walk.Trust.context) && r.sp == p.ctx.sp)) = true
          · have : r.sp ≤ p.ctx.sp ∧ (!(a.leafOk && p.trust == Walk.Trust.context && r.sp == p.ctx.sp)) = true := by
              simpa using hprog
            simp only [hprog, if_true, this, and_self]
            trivial
          · have : ¬ (r.sp ≤ p.ctx.sp ∧ (!(a.leafOk && p.trust == Walk.Trust.context && r.sp == p.ctx.sp)) = true) := by
              simpa using hprog
            simp only [hprog, Bool.false_eq_true, if_false, this]
            refine ⟨rfl, vs, h5, ?_, ?_, ?_⟩
            · -- stack pointer
              rw [h7]
              cases hv : c'.get (utf8 a.spName) with
              | none => rfl
              | some v =>
                simp only [Option.isSome_some, if_true, Option.getD_some, Option.map_some, Option.some.injEq]
                unfold paMask
                have n1 : a.spName ≠ "pc" := by cases a <;> decide
                have n2 : a.spName ≠ "lr" := by cases a <;> decide
                have n3 : a.spName ≠ "fp" := by cases a <;> decide
                cases hia : isArm64 a <;> simp [n1, n2, n3]
            · -- instruction pointer
              rw [h7]
              cases hv : c'.get (utf8 a.ipName) with
              | none => rfl
              | some v =>
                simp only [Option.isSome_some, if_true, Option.getD_some, Option.map_some, Option.some.injEq]
                exact stripV_paMask a _ hmask v
            · intro s hs1 hs2
              rw [h7]
              unfold Cfi.Caller.get
              simp only
              rw [lookupName_map_snd _ (regStrip (stripOf a (Walk.mkEnv arch os w mem).mask))]
              have e1 : utf8 a.ipName ≠ utf8 s := fun e => hs2 (utf8_inj e).symm
              have e2 : utf8 a.spName ≠ utf8 s := fun e => hs1 (utf8_inj e).symm
              rw [Cfi.lookupName_erase_ne _ _ _ e1, Cfi.lookupName_erase_ne _ _ _ e2]
              show Option.map UInt64.toNat (Option.map _ (Cfi.lookupName c'.regs (utf8 s))) =
                Option.map _ (Option.map UInt64.toNat (Cfi.lookupName c'.regs (utf8 s)))
              cases Cfi.lookupName c'.regs (utf8 s) with
              | none => rfl
              | some v =>
                simp only [Option.map_some, Option.some.injEq]
                exact regStrip_paMask a _ hmask s hs2 v
      · have hout : ((c06Walker a mem p).mem.isEmpty || decide ((c06Walker a mem p).memBase + (c06Walker a mem p).mem.length > U64MAX)
            || decide (p.ctx.sp < (c06Walker a mem p).memBase)
            || decide (p.ctx.sp > (c06Walker a mem p).memBase + (c06Walker a mem p).mem.length - 1)) = true := by
          rw [hWmem, hWbase, glue_range]; simpa using hin
        rw [stackGlue_out _ _ _ _ _ hout, if_neg hin]
        trivial

/-! ## non-vacuity: a concrete x86-64 walk whose second frame is found by CFI

  One module at `0x400000`, one `STACK CFI INIT` record `[0x1000, 0x1100)` with the rule text of
  `MdProofs.C06Walk`'s example (`exRule`: CFA = `rsp + 32`, return address and saved `rbp` on the
  stack), the register file and stack memory of `exIn`. The range tables are computed with C08's
  lemmas, the C06 side by kernel evaluation, the walker side through the theorems above. -/

def exSf : Walk.SymFile := { cfis := [{ addr := 0x1000, size := 0x100, init := exRule, adds := [] }] }
def exWorld : Walk.World := { mods := [{ base := 0x400000, size := 0x2000, name := "m" }], syms := [some exSf] }

theorem ex_modTable : Walk.modTable exWorld.mods = [(⟨0x400000, 0x401fff⟩, 0)] := by
  simp [Walk.modTable, exWorld, RangeMap.safeVec, RangeMap.sortOpt, RangeMap.validOnly, RangeMap.pass, RangeMap.keep,
    RangeMap.mkRange, List.zipIdx, U64MAX]

theorem ex_cfiTable : Walk.cfiTable exSf = [(⟨0x1000, 0x10ff⟩, 0)] := by
  have hsep : RangeMap.Sep [(⟨0x1000, 0x10ff⟩, 0)] := by
    simp [RangeMap.Sep, RangeMap.WF, U64MAX]
  have hl : (exSf.cfis.zipIdx.filterMap fun (c, i) => (RangeMap.mkRange c.addr c.size).map fun r => (r, i)) =
      [(⟨0x1000, 0x10ff⟩, 0)] := by decide
  unfold Walk.cfiTable
  rw [hl]
  simp [RangeMap.safeVecP, RangeMap.sortEntries_of_sep _ hsep, RangeMap.pass_of_sep _ hsep]

theorem exCtx_ok : CtxOk .amd64 exIn.callee := ⟨trivial, by decide, by decide, by decide⟩

/-- the C06 `Walker` of any frame with `exIn`'s context and lookup address `0x401000` -/
def exW2 : Cfi.Walker := walkerOf exIn 0x401000 (fwdOf .amd64 ⟨exIn.callee, Walk.forwarded .amd64 exIn.callee⟩)

/-- `mkEnv_cfi_spec` applied: `get_caller_by_cfi` on such a frame succeeds; the caller's validity set
    and registers are C06's — CFA `0x1020` in `rsp`, return address `0x401234` in `rip`, `rbp`
    restored from the stack, `rbx` forwarded -/
theorem ex_cfi (callee : Walk.Frame) (grand : Option Walk.Frame) (hc : callee.ctx = exIn.callee)
    (hi : callee.instruction = 0x401000) :
    ∃ r vs, (Walk.mkEnv .amd64 .other exWorld exIn.mem).cfi callee grand = some r ∧ r.valid = some vs ∧
      viewW .amd64 ⟨r, vs⟩ "rsp" = some 0x1020 ∧ viewW .amd64 ⟨r, vs⟩ "rip" = some 0x401234 ∧
      viewW .amd64 ⟨r, vs⟩ "rbp" = some 0x2040 ∧ viewW .amd64 ⟨r, vs⟩ "rbx" = some 7 ∧
      viewW .amd64 ⟨r, vs⟩ "rax" = none ∧ r.sp = 0x1020 ∧ r.ip = 0x401234 := by
  obtain ⟨ctx, trust, instr, md, fn⟩ := callee
  simp only at hc hi
  subst hc hi
  have hspec := mkEnv_cfi_spec .amd64 .other exWorld exIn.mem ⟨exIn.callee, trust, 0x401000, md, fn⟩ grand exCtx_ok
  obtain ⟨_, _, hsome⟩ := hspec
  have hk : Walk.moduleAt (Walk.modTable exWorld.mods) 0x401000 = some 0 := by rw [ex_modTable]; decide
  obtain ⟨m, hm, _, _, _, hsf⟩ := hsome 0 hk
  have hm' : m = { base := 0x400000, size := 0x2000, name := "m" } := by
    have : exWorld.mods[0]? = some { base := 0x400000, size := 0x2000, name := "m" } := rfl
    rw [this] at hm; exact (Option.some.inj hm).symm
  obtain ⟨_, hget⟩ := hsf exSf rfl
  have hj : RangeMap.get (Walk.cfiTable exSf) (0x401000 - m.base) = some 0 := by
    rw [hm', ex_cfiTable]; decide
  obtain ⟨rec, hrec, _, hmain⟩ := hget 0 hj
  have hrec' : rec = { addr := 0x1000, size := 0x100, init := exRule, adds := [] } := by
    have : exSf.cfis[0]? = some { addr := 0x1000, size := 0x100, init := exRule, adds := [] } := rfl
    rw [this] at hrec; exact (Option.some.inj hrec).symm
  have hsp0 : spValid (Walk.effArch .amd64 exIn.callee) exIn.callee = true := rfl
  -- (`rec` and `m` stay variables until the `match` is split: a closed discriminant would be
  --  evaluated by the elaborator's `whnf`)
  have hmain := hmain hsp0
  have hW : c06Walker .amd64 exIn.mem ⟨exIn.callee, trust, 0x401000, md, fn⟩ = exW2 := rfl
  have ha : Walk.effArch .amd64 exIn.callee = .amd64 := rfl
  simp only [ha, hW] at hmain
  have hvals : (Cfi.walkFrame (recOf { addr := 0x1000, size := 0x100, init := exRule, adds := [] }) 0x400000 exW2).map
      (fun c => (c.cfa, c.ra)) = some (some 0x1020, some 0x401234) := by decide
  have hbase : m.base = 0x400000 := by rw [hm']
  cases hc : Cfi.walkFrame (recOf rec) m.base exW2 with
  | none => rw [hrec', hbase] at hc; rw [hc] at hvals; cases hvals
  | some c =>
    rw [hc] at hmain
    simp only at hmain
    obtain ⟨cfa, ra, c', r, vs, h1, h2, h3, h4, h5, _, h7, h8⟩ := hmain
    rw [hrec', hbase] at hc h3
    rw [hc] at hvals
    simp only [Option.map_some, Option.some.injEq, Prod.mk.injEq] at hvals
    rw [hvals.1] at h1; rw [hvals.2] at h2
    cases h1; cases h2
    have hregs : (Cfi.walkFrame (recOf { addr := 0x1000, size := 0x100, init := exRule, adds := [] }) 0x400000
        (seeded .amd64 exW2 0x1020 0x401234)).map
        (fun c => (c.get (utf8 "rsp"), c.get (utf8 "rip"), c.get (utf8 "rbp"), c.get (utf8 "rbx"), c.get (utf8 "rax"))) =
        some (some 0x1020, some 0x401234, some 0x2040, some 7, none) := by decide
    rw [h3] at hregs
    simp only [Option.map_some, Option.some.injEq, Prod.mk.injEq] at hregs
    obtain ⟨r1, r2, r3, r4, r5⟩ := hregs
    have hp : ∀ s v, paMask .amd64 (Walk.mkEnv .amd64 .other exWorld exIn.mem).mask s v = v := by
      intro s v; simp [paMask, isArm64]
    obtain ⟨hsp, hip⟩ := h8 (by decide)
    refine ⟨r, vs, h4, h5, ?_, ?_, ?_, ?_, ?_, ?_, ?_⟩
    · rw [h7, r1]; simp [hp]
    · rw [h7, r2]; simp [hp]
    · rw [h7, r3]; simp [hp]
    · rw [h7, r4]; simp [hp]
    · rw [h7, r5]; rfl
    · rw [hsp]; show (Option.map UInt64.toNat (c'.get (utf8 "rsp"))).getD _ = _; rw [r1]; rfl
    · rw [hip, hp]; show (Option.map UInt64.toNat (c'.get (utf8 "rip"))).getD _ = _; rw [r2]; rfl

/-- the second frame of a walk is `get_caller_frame` of the context frame -/
theorem walk_second (env : Walk.Env) (m : Walk.Mem) (ctx : Walk.Ctx) (f' : Walk.Frame)
    (hr : m.range?.isSome = true) (hin : m.inRange ctx.sp = true)
    (hstep : Walk.step env m (Walk.symbolise env (Walk.Frame.ofCtx ctx .context)) none = some f') :
    ∃ rest, Walk.walk env (some m) ctx =
      Walk.symbolise env (Walk.Frame.ofCtx ctx .context) :: Walk.symbolise env f' :: rest := by
  unfold Walk.walk
  have : (some m).bind (fun m => m.range?.map fun _ => m) = some m := by
    cases hq : m.range? with
    | none => rw [hq] at hr; cases hr
    | some _ => simp [hq]
  simp only [this]
  unfold Walk.walkFuel
  rw [show m.size + 2 = (m.size + 1) + 1 from rfl]
  rw [Walk.walkLoop]
  have hin' : m.inRange (Walk.symbolise env (Walk.Frame.ofCtx ctx .context)).ctx.sp = true := hin
  rw [hin']
  simp only [Bool.not_true, Bool.false_eq_true, if_false, hstep]
  obtain ⟨rest, hrest, _⟩ := Walk.walkLoop_chain (env := env) (mem := m) (m.size + 1) f'
    (some (Walk.symbolise env (Walk.Frame.ofCtx ctx .context)))
  exact ⟨rest, by rw [hrest]⟩

/-- the hypotheses of `walk_frames_follow_c06` are satisfiable, and its conclusion is about a real
    frame: the walk from `exIn`'s context has (at least) two frames, the second one found by CFI
    with stack pointer `0x1020`, return address `0x401234`, lookup address `0x401233` -/
example : ∃ (h : 0 + 1 < (Walk.walk (Walk.mkEnv .amd64 .other exWorld exIn.mem) (some exIn.mem) exIn.callee).length),
    (Walk.walk (Walk.mkEnv .amd64 .other exWorld exIn.mem) (some exIn.mem) exIn.callee)[0 + 1].trust = .cfi ∧
    (Walk.walk (Walk.mkEnv .amd64 .other exWorld exIn.mem) (some exIn.mem) exIn.callee)[0 + 1].ctx.sp = 0x1020 ∧
    (Walk.walk (Walk.mkEnv .amd64 .other exWorld exIn.mem) (some exIn.mem) exIn.callee)[0 + 1].instruction = 0x401233 ∧
    FollowsC06 .amd64 .other exWorld exIn.mem
      (Walk.walk (Walk.mkEnv .amd64 .other exWorld exIn.mem) (some exIn.mem) exIn.callee)[0]
      (Walk.walk (Walk.mkEnv .amd64 .other exWorld exIn.mem) (some exIn.mem) exIn.callee)[0 + 1] := by
  obtain ⟨r, vs, hcfi, _, _, _, _, _, _, hsp, hip⟩ :=
    ex_cfi (Walk.symbolise (Walk.mkEnv .amd64 .other exWorld exIn.mem) (Walk.Frame.ofCtx exIn.callee .context)) none rfl rfl
  have hstep := (cfi_frame_epilogue (Walk.mkEnv .amd64 .other exWorld exIn.mem) exIn.mem
    (Walk.symbolise (Walk.mkEnv .amd64 .other exWorld exIn.mem) (Walk.Frame.ofCtx exIn.callee .context))
    { ctx := r, trust := .cfi, instruction := r.ip - 1 } none).mpr
      ⟨r, hcfi, by rw [hip]; decide, .inl (by rw [hsp]; decide), rfl⟩
  obtain ⟨rest, hw⟩ := walk_second _ exIn.mem exIn.callee _ (by decide) (by decide) hstep.1
  have hlen : 0 + 1 < (Walk.walk (Walk.mkEnv .amd64 .other exWorld exIn.mem) (some exIn.mem) exIn.callee).length := by
    rw [hw]; simp
  refine ⟨hlen, ?_⟩
  have h1 : (Walk.walk (Walk.mkEnv .amd64 .other exWorld exIn.mem) (some exIn.mem) exIn.callee)[0 + 1] =
      Walk.symbolise (Walk.mkEnv .amd64 .other exWorld exIn.mem) { ctx := r, trust := .cfi, instruction := r.ip - 1 } := by
    simp only [hw]; rfl
  have ht : (Walk.walk (Walk.mkEnv .amd64 .other exWorld exIn.mem) (some exIn.mem) exIn.callee)[0 + 1].trust = .cfi := by
    rw [h1]; rfl
  refine ⟨ht, by rw [h1]; exact hsp, by rw [h1]; show r.ip - 1 = _; rw [hip], ?_⟩
  exact walk_frames_follow_c06 .amd64 .other exWorld exIn.mem (some exIn.mem) exIn.callee exCtx_ok 0 hlen ht

/-- the `stack` entry computed on the example (C06 side, by kernel evaluation): frame 1 has CFA
    `0x1020`, return address `0x401234`, `rbp` restored, `rbx` forwarded … -/
example : (Cfi.stackFrame (recOf { addr := 0x1000, size := 0x100, init := exRule, adds := [] }) 0x400000 exW2
      (utf8 "rsp") (utf8 "rip") 0x1000 false none).map
      (fun c => (c.cfa, c.ra, c.get (utf8 "rbp"), c.get (utf8 "rbx"), c.get (utf8 "rax"))) =
    some (some 0x1020, some 0x401234, some 0x2040, some 7, none) := by decide

/-- … and `stack_entry_eq_walker`'s hypotheses hold of it: the answer is related to the walker
    model's step from the context frame -/
example : StackRel .amd64
    (Cfi.stackFrame (recOf { addr := 0x1000, size := 0x100, init := exRule, adds := [] }) 0x400000 exW2
      (utf8 "rsp") (utf8 "rip") 0x1000 false none)
    (if exIn.mem.inRange 0x1000 then
      ((Walk.mkEnv .amd64 .other exWorld exIn.mem).cfi (Walk.Frame.ofCtx exIn.callee .context) none).bind fun r =>
        Walk.epilogue .amd64 (Walk.Frame.ofCtx exIn.callee .context) r .cfi
     else none) := by
  have hk : Walk.moduleAt (Walk.modTable exWorld.mods) 0x401000 = some 0 := by rw [ex_modTable]; decide
  have hj : RangeMap.get (Walk.cfiTable exSf) (0x401000 - 0x400000) = some 0 := by rw [ex_cfiTable]; decide
  exact stack_entry_eq_walker .amd64 .other exWorld exIn.mem (Walk.Frame.ofCtx exIn.callee .context) none exCtx_ok
    (by decide) 0 { base := 0x400000, size := 0x2000, name := "m" } exSf 0
    { addr := 0x1000, size := 0x100, init := exRule, adds := [] } hk rfl rfl hj rfl

end MdModel.CfiBridge
