/-
  C20 — options → processing. Theorems about `MdModel.Cli.plan` (main.rs:340-403, 426-455 interpreted
  over tables translated from main.rs and processor.rs by translators/cli_opts.py).

  Property text decided here: "… exactly the report the library produces FOR THE SAME OPTIONS …" and
  "It never ends by panic …" (`unimplemented!("unknown --features value")`).
  The documentation of `--features` promises:
     * stable-basic (default) …  * stable-all: … enables: nothing (currently identical to stable-basic)
     * unstable-all: … enables: `--recover-function-args`
-/
import MdModel.CliOpts
import MdModel.CliIo
namespace MdModel.Cli

/-- **C20.opt.1** `--features` can not reach `unimplemented!`: every value clap's `value_parser` lets
    through has a `match` arm whose constructor exists (both lists are translated from main.rs). -/
theorem features_values_have_arms :
    ∀ v ∈ Gen.featureValues, ∃ c o, Gen.featureArms.find? (fun p => p.1 == v) = some (v, c) ∧ ctor c = some o := by
  have h : ∀ v ∈ Gen.featureValues,
      (match Gen.featureArms.find? (fun p => p.1 == v) with
       | some (v', c) => v' == v && (ctor c).isSome
       | none => false) = true := by decide
  intro v hv
  have := h v hv
  split at this
  · rename_i v' c heq
    simp only [Bool.and_eq_true, beq_iff_eq] at this
    obtain ⟨rfl, hc⟩ := this
    obtain ⟨o, ho⟩ := Option.isSome_iff_exists.mp hc
    exact ⟨c, o, heq, ho⟩
  · cases this

/-- the three constructors as the processor's source defines them -/
theorem ctor_values :
    ctor "stable_basic" = some ⟨none, false, false⟩ ∧ ctor "stable_all" = some ⟨none, false, false⟩ ∧
    ctor "unstable_all" = some ⟨none, true, false⟩ := by decide

/-- **C20.opt.2** the table the documentation promises, on the LIBRARY side: each value selects the
    constructor of the same name; "stable-all enables: nothing (currently identical to stable-basic)";
    "unstable-all enables: `--recover-function-args`" and nothing else. -/
theorem features_table :
    Gen.featureArms = [("stable-basic", "stable_basic"), ("stable-all", "stable_all"), ("unstable-all", "unstable_all")] ∧
    ctor "stable_all" = ctor "stable_basic" ∧
    (∀ o, ctor "stable_basic" = some o →
      ctor "unstable_all" = some { o with recoverFunctionArgs := true } ∧ o.recoverFunctionArgs = false) := by
  refine ⟨by decide, by decide, ?_⟩
  intro o ho
  have : o = ⟨none, false, false⟩ := by
    have h := ctor_values.1
    rw [h] at ho; cases ho; rfl
  subst this
  exact ⟨by decide, rfl⟩

variable (t : String) (a : ProcArgs) (json outputFile : Bool)

/-- **C20.opt.3** `exit_status_table`, the panic row: `plan` never panics; an unknown `--features` value
    is a usage error (status 2), nothing else is. -/
theorem plan_never_panics : plan t a json outputFile ≠ .panic ∧
    (plan t a json outputFile = .usage ↔ a.features ∉ Gen.featureValues) := by
  unfold plan
  by_cases hv : a.features ∈ Gen.featureValues
  · have hc : Gen.featureValues.contains a.features = true := by simpa using hv
    simp only [hc, Bool.not_true, Bool.false_eq_true, if_false]
    obtain ⟨c, o, h1, h2⟩ := features_values_have_arms a.features hv
    rw [h1]
    simp only [h2]
    exact ⟨by simp, by simp [hv]⟩
  · have hc : Gen.featureValues.contains a.features = false := by simpa using hv
    simp [hc, hv]

/-- **C20.opt.4** `features_table_effective` (finding D4, repaired by c4013c2 `|=`): each accepted
    `--features` value yields exactly the options of the library constructor of the same name, and the
    command line's own flags only ADD to them: `evil_json` is the `--evil-json` path (every constructor
    leaves it `None`), `recover_function_args` is the constructor's value OR `--recover-function-args`,
    the statistics reporter is subscribed exactly when the interactive UI is on. -/
theorem features_table_effective (v c : String) (o : ProcOptions) (p : Plan)
    (harm : Gen.featureArms.find? (fun q => q.1 == v) = some (v, c)) (hc : ctor c = some o)
    (hv : v ∈ Gen.featureValues)
    (h : plan t { a with features := v } json outputFile = .ok p) :
    p.options = { o with evilJson := a.evilJson,
                         recoverFunctionArgs := o.recoverFunctionArgs || a.recoverFunctionArgs,
                         statReporter := p.interactive } ∧
    o.evilJson = none ∧
    p.localDebuginfo = a.useLocalDebuginfo ∧
    p.interactive = (!json && !a.noInteractive && !outputFile) := by
  have hcont : Gen.featureValues.contains v = true := by simpa using hv
  unfold plan at h
  simp only [hcont, Bool.not_true, Bool.false_eq_true, if_false, harm, hc] at h
  cases h
  have hev : o.evilJson = none := by
    unfold ctor at hc
    split at hc <;> first | (cases hc; rfl) | cases hc
  refine ⟨?_, hev, rfl, ?_⟩
  · simp [overrideKind, Gen.overrides, applyOverride]
  · simp [Gen.interactiveRule, interactiveAtom, Bool.and_assoc]

/-- **C20.opt.5** the table in the tool, value by value: `unstable-all` turns argument recovery on
    whatever the flag says; the two `stable-*` values leave it to `--recover-function-args`. -/
theorem features_effective_values (p : Plan) :
    (plan t { a with features := "unstable-all" } json outputFile = .ok p → p.options.recoverFunctionArgs = true) ∧
    (plan t { a with features := "stable-basic" } json outputFile = .ok p →
      p.options.recoverFunctionArgs = a.recoverFunctionArgs) ∧
    (plan t { a with features := "stable-all" } json outputFile = .ok p →
      p.options.recoverFunctionArgs = a.recoverFunctionArgs) := by
  refine ⟨?_, ?_, ?_⟩
  · intro h
    rw [(features_table_effective t a json outputFile "unstable-all" "unstable_all" ⟨none, true, false⟩ p
      (by decide) (by decide) (by decide) h).1]
    simp
  · intro h
    rw [(features_table_effective t a json outputFile "stable-basic" "stable_basic" ⟨none, false, false⟩ p
      (by decide) (by decide) (by decide) h).1]
    simp
  · intro h
    rw [(features_table_effective t a json outputFile "stable-all" "stable_all" ⟨none, false, false⟩ p
      (by decide) (by decide) (by decide) h).1]
    simp

/-- **C20.opt.5b** the debuginfo rule (finding D6, repaired by fb88910): every CPU main.rs lets through
    to `DebugInfoSymbolProvider::new` is one the provider's `match system_info.cpu` handles — its
    `_ => unimplemented!()` arm is unreachable from the tool. (Both lists are translated from the sources.) -/
theorem local_debuginfo_never_panics (cpu : String) (h : localDebuginfoAllowed cpu = true) :
    cpu ∈ Gen.debuginfoSupportedCpus := by
  unfold localDebuginfoAllowed at h
  have hrule : Gen.localDebuginfoCpus = some ["X86_64", "Arm64"] := by decide
  rw [hrule] at h
  simp only [List.contains_cons, List.contains_nil, Bool.or_false, Bool.or_eq_true, beq_iff_eq] at h
  rcases h with rfl | rfl <;> decide

/-- **C20.opt.6** supplier selection: the symbol paths are the `--symbols-path` values followed by the
    positional ones; a non-empty `--symbols-url` list selects the HTTP supplier with ALL those paths,
    the cache (default `<temp>/rust-minidump-cache`), the temp dir (default `<temp>`) and the
    timeout; otherwise a non-empty path list selects the simple supplier; otherwise none. -/
theorem supplier_selection (p : Plan) (h : plan t a json outputFile = .ok p) :
    mergedPaths a = a.symbolsPath ++ a.symbolsPathLegacy ∧
    (a.symbolsUrl ≠ [] → p.supplier = .http (a.symbolsPath ++ a.symbolsPathLegacy) a.symbolsUrl
        (a.symbolsCache.getD (joinPath t "rust-minidump-cache")) (a.symbolsTmp.getD t) a.timeoutSecs) ∧
    (a.symbolsUrl = [] → a.symbolsPath ++ a.symbolsPathLegacy ≠ [] →
        p.supplier = .simple (a.symbolsPath ++ a.symbolsPathLegacy)) ∧
    (a.symbolsUrl = [] → a.symbolsPath ++ a.symbolsPathLegacy = [] → p.supplier = .none) := by
  have hm : mergedPaths a = a.symbolsPath ++ a.symbolsPathLegacy := by
    simp [mergedPaths, Gen.symbolPathMerge]
  have hv : a.features ∈ Gen.featureValues := by
    by_cases hv : a.features ∈ Gen.featureValues
    · exact hv
    · rw [((plan_never_panics t a json outputFile).2).mpr hv] at h
      cases h
  have hc : Gen.featureValues.contains a.features = true := by simpa using hv
  obtain ⟨c, o, h1, h2⟩ := features_values_have_arms a.features hv
  unfold plan at h
  simp only [hc, Bool.not_true, Bool.false_eq_true, if_false, h1, h2] at h
  cases h
  refine ⟨hm, ?_, ?_, ?_⟩
  · intro hu
    have : a.symbolsUrl.isEmpty = false := by cases hl : a.symbolsUrl <;> simp_all
    simp [this, hm, Gen.cacheLeaf]
  · intro hu hp
    have hpe : (a.symbolsPath ++ a.symbolsPathLegacy).isEmpty = false := by
      cases hl : a.symbolsPath ++ a.symbolsPathLegacy <;> simp_all
    simp only [hu, List.isEmpty_nil, Bool.not_true, Bool.false_eq_true, if_false, hm, hpe, Bool.not_false, if_true]
  · intro hu hp
    simp only [hu, List.isEmpty_nil, Bool.not_true, Bool.false_eq_true, if_false, hm, hp]

/-- **C20.opt.7** none of these options takes part in deciding WHICH report goes WHERE: the effects of
    `main` (`run`) are a function of `Cfg` — format flags, `--cyborg`/`--output-file`/`--log-file`
    paths, `--verbose off`, `--help-markdown` — the input class and the report BYTES; the processing
    options reach `run` only through those bytes (which the engine computes in-process with the
    plan of `plan`). True by the construction of the model; the tie is the engine's cross product. -/
theorem processing_options_do_not_route (render : Diag → Bytes) (cfg : Cfg) (inp : Input) (reps : Reports)
    (w : World) (a1 a2 : ProcArgs) :
    (fun (_ : ProcArgs) => run render cfg inp reps w) a1 = (fun (_ : ProcArgs) => run render cfg inp reps w) a2 := rfl

/-! non-vacuity -/
def sampleArgs : ProcArgs :=
  { features := "unstable-all", evilJson := some "e.json", recoverFunctionArgs := false, useLocalDebuginfo := false,
    symbolsUrl := ["http://s/"], symbolsCache := none, symbolsTmp := some "/t", timeoutSecs := 7,
    symbolsPath := ["a"], symbolsPathLegacy := ["b", "c"], noInteractive := false }

example : plan "/tmp" sampleArgs false false =
    .ok ⟨⟨some "e.json", true, true⟩, false, .http ["a", "b", "c"] ["http://s/"] "/tmp/rust-minidump-cache" "/t" 7, true⟩ := by
  decide
example : plan "/tmp" { sampleArgs with symbolsUrl := [] } true false =
    .ok ⟨⟨some "e.json", true, false⟩, false, .simple ["a", "b", "c"], false⟩ := by decide
example : plan "/tmp" { sampleArgs with symbolsUrl := [], symbolsPath := [], symbolsPathLegacy := [] } false true =
    .ok ⟨⟨some "e.json", true, false⟩, false, .none, false⟩ := by decide
example : plan "/tmp" { sampleArgs with features := "bogus" } false false = .usage := by decide
example : plan "/tmp" { sampleArgs with features := "stable-all", symbolsUrl := [], symbolsPath := [], symbolsPathLegacy := [] } true true =
    .ok ⟨⟨some "e.json", false, false⟩, false, .none, false⟩ := by decide
example : localDebuginfoAllowed "X86_64" = true ∧ localDebuginfoAllowed "X86" = false ∧
    localUnsupportedOf true "X86" = true ∧ localUnsupportedOf false "X86" = false := by decide
example : "unstable-all" ∈ Gen.featureValues ∧ "stable-basic" ∈ Gen.featureValues := by decide

end MdModel.Cli
