/-
  C01 — Reading a minidump is total: no panic, hang or runaway allocation on any bytes.

  Property text: "For every byte string offered as a minidump, opening it, requesting every
  supported stream, querying what was parsed (address lookups, thread contexts and stacks, crash
  reason and address, module identifiers, key/value text streams) and printing it either succeeds
  or returns an error. It never panics (arithmetic overflow included), always terminates, and never
  sizes an allocation from a count or length field that the file is too small to back, so memory
  use is at most quadratic in the input size and a tiny file can never demand gigabytes."
  Quantifier: all byte strings, little- and big-endian.

  Sections 1-6 are about `MdModel.Dump.readAll` — `Minidump::read` followed by `get_stream` of the
  eleven list / record stream types (thread list, module list, unloaded-module list, memory list,
  memory-64 list, memory-info list, thread names, thread-info list, handle data, exception,
  Crashpad info). Sections 7-11 are about `MdModel.Dump.readFull` = `readAll` followed by
  `readExtra` (MdModel.DumpFull): the system info (CSD string, the CPU union as `cpu_info` text),
  `MinidumpContext::read` for every thread and for the exception (the nine CONTEXT_* records,
  generated layouts), `stack_memory`, `last_error`, the lookup tables `from_regions` builds (C08's
  model), the crash-reason / crash-address array reads, the stack and memory dump loops of the
  printers, the five Linux key/value text streams with their iterators driven to the end, Breakpad
  info, assertion info, macOS crash info and boot args.
  `readFull` is the very function the compiled driver runs and the `read` engine compares with the
  real reader on every check. In the model every Rust operation that can panic (`+ - +=` on `usize`,
  `&b[lo..hi]`, `&b[lo..=hi]`, array indexing, `unwrap`) is a checked primitive with an explicit
  `panic` outcome, a loop that could fail to end (the handle object-info walk, the `lines()`
  iterator) takes fuel and reports fuel exhaustion as a panic outcome, and
  every `Vec::with_capacity`/`HashMap::with_capacity`/`to_owned` is logged.

  Hypotheses, and why they do not restrict the quantifier:
  * `SliceLen b.size` (`b.size < 2^63`): a Rust slice is never longer than `isize::MAX` bytes.
    It is needed at exactly one site, `*offset + size` in `read_string_utf16`.
  * `ms.Bounded`: the in-memory element sizes of the build under test (sent by the harness with
    every request) are within the ratio the allocation bound is stated for; the model refuses
    requests outside it, `default_bounded` shows the shipped sizes satisfy it.
  The endianness is read off the signature, so "both byte orders" is inside "all byte strings";
  the per-reader lemmas (`MdProofs.Lemmas.BytesStreams`) hold for either `Endian` explicitly.

  Sections 12-17 (round 4) are about `MdModel.Dump.readWhole` = `readFull` followed by `readMore`
  (MdModel.DumpFull): `MinidumpMiscInfo` with its accessors and printer (the fixed UTF-16 arrays, the
  XSTATE feature loop), `MinidumpLinuxMaps` = procfs-core 0.17's maps parser on ARBITRARY text, its
  three panic sites included as panic outcomes (`maps_panics_iff`: the exact frontier of the known
  finding C01-procfs-mmappath; `maps_guard_correct`: the proposed repair), `UnifiedMemoryInfoList`,
  `os_parts`, the `Module` identifier accessors / `print` on arbitrary CodeView records, the
  soft-errors stream, and the register accessors of every context read from bytes through C18's
  generated tables (`context_registers_spec`). `readWhole` is what the driver runs now.

  PARTIAL: the TEXT the printers emit (the model covers their indexing / offset arithmetic and the
  strings they decode), the third-party decoders (`encoding_rs`, `time`, `uuid`, `range-map`; the
  part of `procfs-core` the maps reader uses is modelled and tied) are not part of these theorems;
  for them the `read` engine's oracle (catch_unwind + counting allocator + time budget) is a sampled
  check.
-/
import MdProofs.Lemmas.BytesTotal
import MdProofs.Lemmas.BytesFull
import MdProofs.Lemmas.BytesMore
namespace MdModel.Dump
open MdModel MdModel.Gen.Layouts MdModel.Gen.LayoutsX

/-! ## 1. "either succeeds or returns an error. It never panics (arithmetic overflow included)" -/

/-- **C01.1** For every byte string the panic outcome of `readAll` is unreachable: no `usize`
    overflow/underflow, no out-of-range slice, no out-of-bounds index, no endless walk. -/
theorem read_no_panic (ms : MemSizes) (hms : ms.Bounded) (b : Bytes) (hsz : SliceLen b.size) :
    ∀ site, (readAll ms b).res ≠ .panic site :=
  (readAll_safe ms hms b hsz).1

/-- the same for the element sizes the model ships with (no hypothesis on `ms` left) -/
theorem read_no_panic_default (b : Bytes) (hsz : SliceLen b.size) :
    ∀ site, (readAll MemSizes.default b).res ≠ .panic site :=
  read_no_panic _ default_bounded b hsz

/-- **C01.1'** `readAll` always produces a value: an unreadable header is the value
    `Except.error e`, an unreadable stream is an `Except.error` inside `Parsed`. -/
theorem read_total (ms : MemSizes) (hms : ms.Bounded) (b : Bytes) (hsz : SliceLen b.size) :
    ∃ r, (readAll ms b).res = .ok r := by
  cases hr : (readAll ms b).res with
  | ok r => exact ⟨r, rfl⟩
  | panic s => exact absurd hr (read_no_panic ms hms b hsz s)
  | err e => exact absurd hr (readAll_noErr ms b e)

/-- non-vacuity of the hypotheses: a concrete byte string and the shipped sizes -/
example : SliceLen (#[0x4d, 0x44, 0x4d, 0x50] : Bytes).size ∧ MemSizes.default.Bounded :=
  ⟨by unfold SliceLen; decide, default_bounded⟩

/-! ## 2. no out-of-bounds: every range the readers hand out lies inside the file -/

/-- **C01.2a** `location_slice` only ever yields a range inside the buffer. -/
theorem read_no_oob {len : Nat} {l : Loc} {s e : Nat} (h : locationRange len l = some (s, e)) :
    s = l.rva ∧ s ≤ e ∧ e ≤ len ∧ e - s = l.size := by
  have h' := locationRange_some h
  unfold locationRange at h
  split at h
  · cases h
  · rename_i e' he
    have ⟨he1, _⟩ := checkedAdd_some he
    split at h
    · cases h; omega
    · cases h

theorem readMemoryDesc_ok {len start : Nat} {mem : Loc} {r : Region}
    (h : readMemoryDesc len start mem = .ok r) : r.rva + r.size ≤ len ∧ r.rva ≠ 0 ∧ r.size ≠ 0 := by
  unfold readMemoryDesc at h
  split at h
  · cases h
  · rename_i hne
    split at h
    · cases h
    · rename_i p hp
      cases h
      obtain ⟨s, e'⟩ := p
      have := read_no_oob hp
      simp only
      omega

/-- **C01.2b** every region of a successfully read `MinidumpMemoryList` is backed by the file. -/
theorem memory_list_regions_in_file {ms : MemSizes} {b all : Bytes} {e : Endian} {rs : List Region}
    (h : (readMemoryList ms b all e).res = .ok rs) : ∀ r ∈ rs, r.rva + r.size ≤ all.size := by
  unfold readMemoryList at h
  obtain ⟨raws, _, h⟩ := bind_ok h
  obtain ⟨_, _, h⟩ := bind_ok h
  have := pure_ok h
  subst this
  intro r hr
  simp only [List.mem_filterMap] at hr
  obtain ⟨v, _, hv⟩ := hr
  cases hd : readMemoryDesc all.size (fld v 0) ⟨fld v 1, fld v 2⟩ with
  | error er => rw [hd] at hv; cases hv
  | ok r' =>
    rw [hd] at hv
    cases hv
    exact (readMemoryDesc_ok hd).1

theorem mem64Regions_in_file (allLen : Nat) : ∀ (raws : List (List Nat)) (rva : Nat) (rs : List Region),
    mem64Regions allLen rva raws = .ok rs → ∀ r ∈ rs, r.rva + r.size ≤ allLen := by
  intro raws
  induction raws with
  | nil => intro rva rs h; simp [mem64Regions] at h; cases h; intro r hr; cases hr
  | cons v vs ih =>
    intro rva rs h
    unfold mem64Regions at h
    split at h
    · cases h
    · rename_i stop hstop
      have ⟨hs1, _⟩ := checkedAdd_some hstop
      split at h
      · split at h
        · cases h
        · rename_i rs' hrs'
          cases h
          intro r hr
          cases List.mem_cons.mp hr with
          | inl h1 => subst h1; simp; omega
          | inr h2 => exact ih _ _ hrs' r h2
      · cases h

/-- **C01.2c** ... and of a successfully read `MinidumpMemory64List` (running RVA). -/
theorem memory64_list_regions_in_file {ms : MemSizes} {b all : Bytes} {e : Endian} {rs : List Region}
    (h : (readMemory64List ms b all e).res = .ok rs) : ∀ r ∈ rs, r.rva + r.size ≤ all.size := by
  unfold readMemory64List at h
  split at h
  · split at h
    · cases h
    · split at h
      · cases h
      · obtain ⟨_, _, h⟩ := bind_ok h
        obtain ⟨raws, _, h⟩ := bind_ok h
        obtain ⟨_, _, h⟩ := bind_ok h
        exact mem64Regions_in_file _ _ _ _ (ofExcept_ok h)
  · cases h

/-! ## 3. "never sizes an allocation from a count or length field that the file is too small to
      back, so memory use is at most quadratic in the input size" -/

/-- **C01.3** Every allocation the readers make (`Vec::with_capacity(n)` of `sz`-byte elements,
    hash tables, owned copies, decoder buffers) asks for at most `K = 32` times the length of the
    file — whatever the count fields in the file claim. -/
theorem alloc_backed (ms : MemSizes) (hms : ms.Bounded) (b : Bytes) (hsz : SliceLen b.size) :
    ∀ a ∈ (readAll ms b).allocs, a.n * a.sz ≤ K * b.size :=
  (readAll_safe ms hms b hsz).2

/-- a zero-length or tiny file can therefore not demand more than `32 * len` bytes at once -/
theorem alloc_backed_tiny (ms : MemSizes) (hms : ms.Bounded) (b : Bytes) (h : b.size ≤ 1024) :
    ∀ a ∈ (readAll ms b).allocs, a.n * a.sz ≤ 32768 := by
  intro a ha
  have := alloc_backed ms hms b (by unfold SliceLen; omega) a ha
  unfold K at this
  omega

/-- **C01.3b** For the ten list/record streams the NUMBER of allocations is linear in the file
    length: a constant per stream plus a constant per list entry the stream is long enough to hold. -/
theorem alloc_count_bound (ms : MemSizes) (b : Bytes) (d : Dump) :
    (readCore ms b d).allocs.length ≤ 21 + 10 * (b.size / 8) :=
  cnt_readCore ms b d

/-- **C01.3c** The Crashpad-info stream (whose allocation count is quadratic: module links x list
    entries) is bounded through the string budget of `charge_string_budget` (the repair of the
    cubic blow-up this check found): one module's annotations request at most `9 * len` bytes —
    however many entries alias however long a string — and the whole stream at most
    `11 * len + (len / 12) * 9 * len`. -/
theorem crashpad_budget (ms : MemSizes) (hms : ms.Bounded) (b all : Bytes) (e : Endian) :
    (∀ index loc, totalBytes (readModuleCrashpadInfo ms all e index loc).allocs ≤ 9 * all.size) ∧
    totalBytes (readCrashpadInfo ms b all e).allocs ≤ 11 * all.size + (all.size / 12) * (9 * all.size) :=
  ⟨fun index loc => total_readModuleCrashpadInfo ms hms all e index loc, total_readCrashpadInfo ms hms b all e⟩

/-- **C01.3d** "memory use is at most quadratic in the input size": the sum of ALL allocation
    requests of `readAll` (an upper bound of the peak) is at most
    `(21 + 10*(len/8)) * 32 * len + 11*len + (len/12) * 9 * len  <=  41*len^2 + 683*len` bytes. -/
theorem alloc_total_quadratic (ms : MemSizes) (hms : ms.Bounded) (b : Bytes) (hsz : SliceLen b.size) :
    totalBytes (readAll ms b).allocs ≤
      (21 + 10 * (b.size / 8)) * (K * b.size) + (11 * b.size + (b.size / 12) * (9 * b.size)) := by
  unfold readAll
  split
  · rw [total_pure]; omega
  · rename_i d _
    have hcore : totalBytes (readCore ms b d).allocs ≤ (21 + 10 * (b.size / 8)) * (K * b.size) :=
      Nat.le_trans (totalBytes_le _ _ (readCore_safe ms hms b d hsz).2) (Nat.mul_le_mul_right _ (alloc_count_bound ms b d))
    have hcp : totalBytes (getStream d b ST_CRASHPAD_INFO (fun s => readCrashpadInfo ms s b d.endian)).allocs
        ≤ 11 * b.size + (b.size / 12) * (9 * b.size) := by
      unfold getStream
      split
      · rw [total_pure]; omega
      · rename_i s _
        have := total_readCrashpadInfo ms hms s b d.endian
        unfold M.catch'
        split <;> exact this
    have h2 := fun c : Core => total_bind (C := 0) hcp
      (f := fun crashpad => (pure (.ok ⟨d, c.threads, c.modules, c.unloaded, c.memory, c.memory64, c.memInfo, c.threadNames,
        c.threadInfo, c.handles, c.exception, crashpad⟩) : M (Except Err Parsed)))
      (fun _ _ => by rw [total_pure]; omega)
    have h1 := total_bind hcore (fun c _ => h2 c)
    omega

/-! ## 4. "always terminates": the directory loop -/

/-- **C01.4** The directory loop `for i in 0..header.stream_count` performs at most
    `len / 12 + 1` iterations, whatever `stream_count` says (each iteration that does not end the
    loop consumes 12 bytes of the file). -/
theorem directory_terminates (b : Bytes) (e : Endian) (streamCount dirRva : Nat) :
    (readDirectory b e streamCount 0 dirRva []).2 ≤ b.size / 12 + 1 := by
  have := readDirectory_steps b e streamCount 0 dirRva []
  omega

/-- when `Minidump::read` succeeds the whole directory lies inside the file:
    `stream_count` entries of 12 bytes from `stream_directory_rva` on -/
theorem directory_in_file {b : Bytes} {d : Dump} (h : readDump b = .ok d) :
    d.dirSteps = d.header.streamCount ∧
    (d.header.streamCount = 0 ∨ d.header.dirRva + 12 * d.header.streamCount ≤ b.size) := by
  unfold readDump at h
  split at h
  · cases h
  · rename_i en hd _
    split at h
    · cases h
    · split at h
      · cases h
      · rename_i streams steps hdir
        cases h
        have := readDirectory_ok b en hd.streamCount 0 hd.dirRva [] streams steps hdir
        simpa using this

/-! ## 5. "always terminates": the handle object-info walk (F2) -/

/-- **C01.5** With the visited set, the `while object_info_rva != 0` loop ends within
    `all.size + 1` iterations for every file and every starting RVA — a cyclic or
    self-referential chain included — and yields at most `all.size` elements (each visited RVA is
    a distinct offset at which a 12-byte record could be read). -/
theorem handle_chain_terminates (all : Bytes) (e : Endian) (rva : Nat) :
    ∃ infos, walkChain all e (all.size + 1) rva [] [] = some infos ∧ infos.length ≤ all.size :=
  walkChain_inv all e (all.size + 1) rva [] [] List.nodup_nil (by intro r h; cases h) (by simp) (by simp)

/-- more fuel never changes the result of a walk that ended: `all.size + 1` is not special -/
theorem walkChain_fuel_mono (all : Bytes) (e : Endian) :
    ∀ (fuel rva : Nat) (seen : List Nat) (acc r : List ObjInfo),
      walkChain all e fuel rva seen acc = some r → walkChain all e (fuel + 1) rva seen acc = some r := by
  intro fuel
  induction fuel with
  | zero => intro rva seen acc r h; simp [walkChain] at h
  | succ f ih =>
    intro rva seen acc r h
    unfold walkChain at h
    unfold walkChain
    by_cases h0 : rva = 0
    · rw [if_pos h0] at h ⊢; exact h
    · rw [if_neg h0] at h ⊢
      by_cases hs : seen.contains rva = true
      · rw [if_pos hs] at h ⊢; exact h
      · rw [if_neg hs] at h ⊢
        cases hoi : readObjectInfo all e rva with
        | none => rw [hoi] at h; exact h
        | some oi => rw [hoi] at h; exact ih _ _ _ _ h

/-- a self-referential record (the probe of finding F2): `next_info_rva` points at the record
    itself; the walk returns the one element instead of looping. -/
example : walkChain
    (#[0, 0, 0, 0,  4, 0, 0, 0,  1, 0, 0, 0,  12, 0, 0, 0] : Bytes) .little 17 4 [] []
    = some [⟨4, 1, 12⟩] := by decide

/-- an unknown `info_type` (the probe of finding F1) ends the chain: no element, no panic -/
example : walkChain
    (#[0, 0, 0, 0,  0, 0, 0, 0,  99, 0, 0, 0,  12, 0, 0, 0] : Bytes) .little 17 4 [] []
    = some [] := by decide

/-! ## 6. the exception accessors index `exception_information` in bounds (F4) -/

/-- **C01.6** For every exception stream that could be read, whatever `number_parameters` says:
    `print`'s parameter loop prints `min(number_parameters, 15)` lines, each an existing element
    of the 15-element array, and `get_crash_address`'s `exception_information[1]` cannot panic. -/
theorem exception_print_in_bounds {b all : Bytes} {e : Endian} {x : Exception}
    (h : (readException b all e).res = .ok x) :
    (printedParams x).length = min x.numberParameters 15 ∧
    (∀ p ∈ printedParams x, p.1 < 15 ∧ x.info[p.1]? = some p.2) ∧
    (∀ w site, (crashAddressRaw x w).res ≠ .panic site) := by
  have hlen := readException_info_length h
  refine ⟨?_, ?_, ?_⟩
  · simp [printedParams, hlen]
  · intro p hp
    simp only [printedParams, List.mem_map] at hp
    obtain ⟨⟨v, i⟩, hmem, rfl⟩ := hp
    have hmem' := List.mem_of_mem_take hmem
    have := List.mem_zipIdx hmem'
    simp at this
    obtain ⟨h1, h2⟩ := this
    simp only
    refine ⟨by omega, ?_⟩
    rw [List.getElem?_eq_getElem h1]
    simp [h2]
  · intro w site hpan
    unfold crashAddressRaw at hpan
    split at hpan
    · unfold infoAt at hpan
      have : x.info[1]? = some x.info[1] := List.getElem?_eq_getElem (by omega)
      rw [this] at hpan
      cases hpan
    · cases hpan

/-- `number_parameters = 16` (the probe of finding F4) on a readable stream: 15 lines, no panic -/
example (info : List Nat) (hl : info.length = 15) :
    (printedParams { threadId := 0, code := 0, flags := 0, record := 0, address := 0, numberParameters := 16,
                     info := info, ctxLoc := ⟨0, 0⟩, context := none }).length = 15 := by
  simp [printedParams, hl]

/-! ## 7. the whole reader (`readFull`): "requesting every supported stream, querying what was
      parsed (… thread contexts and stacks, crash reason and address, … key/value text streams) …
      either succeeds or returns an error. It never panics, always terminates, and never sizes an
      allocation from a count or length field that the file's own size does not back" -/

/-- **C01.7a** For every byte string the panic outcome of `readFull` is unreachable — `readAll`
    plus system info, every thread's / the exception's CPU context, stack lookup, last-error read,
    the printers' dump loops, the text-stream iterators (their "does not end" outcome included),
    Breakpad / assertion / macOS crash info / boot args, the crash-reason array reads. -/
theorem full_no_panic (ms : MemSizes) (hms : ms.Bounded) (b : Bytes) (hsz : SliceLen b.size) :
    ∀ site, (readFull ms b).res ≠ .panic site :=
  (readFull_safe ms hms b hsz).1

/-- **C01.7b** `readFull` always produces a value (errors of the header or of single streams are
    values inside it). -/
theorem full_total (ms : MemSizes) (hms : ms.Bounded) (b : Bytes) (hsz : SliceLen b.size) :
    ∃ r, (readFull ms b).res = .ok r := by
  cases hr : (readFull ms b).res with
  | ok r => exact ⟨r, rfl⟩
  | panic s => exact absurd hr (full_no_panic ms hms b hsz s)
  | err e => exact absurd hr (readFull_noErr ms b e)

/-- **C01.7c** every allocation `readFull` logs asks for at most `K = 32` times the file length. -/
theorem full_alloc_backed (ms : MemSizes) (hms : ms.Bounded) (b : Bytes) (hsz : SliceLen b.size) :
    ∀ a ∈ (readFull ms b).allocs, a.n * a.sz ≤ K * b.size :=
  (readFull_safe ms hms b hsz).2

/-- **C01.7d** the second group adds at most 110 allocations (none for contexts, stacks, text
    iterators and printers; at most 5 per macOS crash-info record, of which there are at most 20),
    so the sum of ALL requests stays at most quadratic: the bound of `alloc_total_quadratic` plus
    `110 * 32 * len`. -/
theorem full_alloc_total_quadratic (ms : MemSizes) (hms : ms.Bounded) (b : Bytes) (hsz : SliceLen b.size) :
    totalBytes (readFull ms b).allocs ≤
      (21 + 10 * (b.size / 8)) * (K * b.size) + (11 * b.size + (b.size / 12) * (9 * b.size)) + 110 * (K * b.size) := by
  unfold readFull
  refine total_bind (alloc_total_quadratic ms hms b hsz) (fun r hr => ?_)
  split
  · rw [total_pure]; omega
  · rename_i p
    have := total_bind (C := 0) (total_readExtra b p hsz (readAll_parsedOk hr))
      (f := fun x => (pure (.ok ⟨p, x⟩) : M (Except Err Full))) (fun _ _ => by rw [total_pure]; omega)
    omega

/-! ## 8. thread contexts: which buffers `MinidumpContext::read` accepts; no out-of-bounds read -/

/-- **C01.8a** Complete characterisation of `MinidumpContext::read(bytes, endian, system_info)`:
    an architecture without a branch is `UnknownCpuContext`; otherwise a buffer shorter than that
    CPU's record is `ReadFailure`; otherwise the record is read from the first `wireSize` bytes —
    whatever follows is ignored — and accepted iff the CPU bits of its `context_flags`
    (`from_bits_truncate(flags & 0xffffff00)`, for 64-bit flag words after `as u32`) are exactly that
    CPU's constant. -/
theorem context_read_spec (bytes : Bytes) (e : Endian) (arch : Nat) :
    match ctxKindOfArch arch with
    | none => contextRead bytes e arch = .error .unknownCpu
    | some k =>
      if bytes.size < k.wireSize then contextRead bytes e arch = .error .readFailure
      else ∃ vs flags, readFields k.layout bytes 0 e = some vs ∧ getField? k.layout vs "context_flags" = some flags ∧
        contextRead bytes e arch =
          if contextFlagsCpu flags = k.cpuFlag then .ok ⟨k, vs, flags⟩ else .error .readFailure := by
  cases hk : ctxKindOfArch arch with
  | none => exact contextRead_unknown hk
  | some k =>
    simp only
    split
    · rename_i h; exact contextRead_short hk h
    · rename_i h; exact contextRead_fits hk (by omega)

/-- **C01.8b** the architectures with a branch, and the accepted record sizes (bytes) -/
theorem context_record_sizes :
    (∀ a k, ctxKindOfArch a = some k →
      a = 0 ∨ a = 10 ∨ a = 9 ∨ a = 3 ∨ a = 32770 ∨ a = 32769 ∨ a = 5 ∨ a = 12 ∨ a = 32771 ∨ a = 1) ∧
    CtxKind.x86.wireSize = 716 ∧ CtxKind.amd64.wireSize = 1232 ∧ CtxKind.arm.wireSize = 368 ∧
    CtxKind.arm64.wireSize = 912 ∧ CtxKind.arm64Old.wireSize = 796 ∧ CtxKind.mips.wireSize = 600 ∧
    CtxKind.ppc.wireSize = 1004 ∧ CtxKind.ppc64.wireSize = 1160 ∧ CtxKind.sparc.wireSize = 584 ∧
    (∀ k : CtxKind, Layout.size k.layout = k.wireSize) :=
  ⟨fun _ _ h => ctxKindOfArch_some h, ctx_sizes_as_documented.1, ctx_sizes_as_documented.2.1, ctx_sizes_as_documented.2.2.1,
   ctx_sizes_as_documented.2.2.2.1, ctx_sizes_as_documented.2.2.2.2.1, ctx_sizes_as_documented.2.2.2.2.2.1,
   ctx_sizes_as_documented.2.2.2.2.2.2.1, ctx_sizes_as_documented.2.2.2.2.2.2.2.1, ctx_sizes_as_documented.2.2.2.2.2.2.2.2,
   size_ctx⟩

/-- **C01.8c** no out-of-bounds read: an accepted context lies inside the bytes it was read from,
    and `get_instruction_pointer`, `get_stack_pointer` and the registers `print` reaches by index
    (`iregs[..29]`, `iregs[29]`, `iregs[30]`, the twelve MIPS registers) exist in its arrays. -/
theorem context_in_bounds {bytes : Bytes} {e : Endian} {arch : Nat} {c : Context}
    (h : contextRead bytes e arch = .ok c) :
    c.kind.wireSize ≤ bytes.size ∧ contextFlagsCpu c.flags = c.kind.cpuFlag ∧
    (∀ site, c.ip.res ≠ .panic site) ∧ (∀ site, c.sp.res ≠ .panic site) ∧
    (∀ site, (ctxPrintReads c).res ≠ .panic site) := by
  have ⟨_, h2, _, h4, _, h6⟩ := contextRead_ok h
  exact ⟨h2, h6, (ctx_ip_safe (B := 0) c h4).1, (ctx_sp_safe (B := 0) c h4).1, (ctxPrintReads_safe (B := 0) c h4).1⟩

/-- the value / the error of an outcome (for the examples below: `Res` has no decidable equality) -/
def resValue {α : Type} : Res α → Option α
  | .ok a => some a
  | _ => none
def resError {α : Type} : Res α → Option Err
  | .err e => some e
  | _ => none

/-- outcome of a context read as a word (for the examples below) -/
def ctxOutcome : Except CtxErr Context → String
  | .ok c => c.kind.name
  | .error .readFailure => "ReadFailure"
  | .error .unknownCpu => "UnknownCpuContext"

/-- a 716-byte x86 record with `context_flags = CONTEXT_X86` is accepted (processor architecture 0),
    also with trailing bytes; 715 bytes are not, nor is the record under a system info that says
    AMD64; IA64 (6) has no branch -/
example :
    ctxOutcome (contextRead (((Array.replicate 716 (0 : UInt8)).set! 2 1) : Bytes) .little 0) = "X86" ∧
    ctxOutcome (contextRead (((Array.replicate 800 (0 : UInt8)).set! 2 1) : Bytes) .little 0) = "X86" ∧
    ctxOutcome (contextRead (((Array.replicate 715 (0 : UInt8)).set! 2 1) : Bytes) .little 0) = "ReadFailure" ∧
    ctxOutcome (contextRead (((Array.replicate 716 (0 : UInt8)).set! 2 1) : Bytes) .little 9) = "ReadFailure" ∧
    ctxOutcome (contextRead (((Array.replicate 716 (0 : UInt8)).set! 2 1) : Bytes) .little 6) = "UnknownCpuContext" := by
  decide +kernel

/-! ## 9. "thread contexts and stacks": `context`, `stack_memory`, `last_error`, the stack dump -/

/-- **C01.9a** For every file, every byte order, every system info (or none), every memory view and
    every thread record: `MinidumpThread::context`, `stack_memory`, `last_error` (three CPUs) and the
    stack dump loop of `print` reach no panic outcome and allocate nothing. -/
theorem thread_view_total (all : Bytes) (e : Endian) (sys : Option SysInfo) (mv : MemView) (t : Thread)
    (hsz : SliceLen all.size) :
    (∀ site, (threadX all e sys mv t).res ≠ .panic site) ∧ (threadX all e sys mv t).allocs = [] := by
  refine ⟨(threadX_safe (B := 0) all e sys mv t hsz).1, ?_⟩
  have := cnt_threadsX all e sys mv [t]
  rw [cnt_zero_iff] at this
  unfold threadsX at this
  -- `threadsX [t]` = `threadX t >>= fun x => pure [] >>= fun xs => pure (x :: xs)`
  cases hres : (threadX all e sys mv t).res with
  | ok a =>
    rw [M.bind_def] at this
    unfold M.bind' at this
    rw [hres] at this
    simp only at this
    exact List.append_eq_nil_iff.mp this |>.1
  | err er =>
    rw [M.bind_def] at this
    unfold M.bind' at this
    rw [hres] at this
    exact this
  | panic s =>
    rw [M.bind_def] at this
    unfold M.bind' at this
    rw [hres] at this
    exact this

/-- **C01.9b** `MinidumpMemoryListBase::from_regions` never fails, for ANY list of regions (C08's
    `into_rangemap_safe` theorem carried over to the reader). -/
theorem memory_table_never_fails (rs : List Region) : ∀ site, (memTable rs).res ≠ .panic site :=
  (memTable_safe (B := rs.length * 32) rs (Nat.le_refl _)).1

/-- **C01.9c** the dump loops of the printers (`offset += chunk_size` per stack word,
    `offset += 16` per paragraph) cannot overflow and the `try_into().unwrap()` of a stack word
    cannot fail, for every CPU and every buffer a slice can be. -/
theorem print_loops_total (cpu : CpuKind) (len : Nat) (h : SliceLen len) :
    (∀ site, (printStackWords cpu len).res ≠ .panic site) ∧ (∀ site, (printContents len).res ≠ .panic site) :=
  ⟨(printStackWords_safe (B := 0) cpu len h).1, (printContents_safe (B := 0) len h).1⟩

/-! ## 10. the key/value text streams and their iterators -/

/-- **C01.10a** For every stream and every separator: the iterator of `linux_list_iter` driven to
    the end reaches no panic outcome (no slice index out of range in `split_once`,
    `trim_ascii_whitespace`, `strip_quotes`; no `idx + 1` overflow), ENDS — it yields a list of at
    most `len + 1` pairs, the "does not end" outcome is unreachable with `len + 1` iterations, each of
    which consumes at least one byte —, allocates nothing, and every key and value it hands out is a
    sub-slice of the stream with the key before the value. -/
theorem text_iter_total (b : Bytes) (sep : UInt8) (hsz : SliceLen b.size) :
    ∃ l, (linuxListIter b sep).res = .ok l ∧ l.length ≤ b.size + 1 ∧ (linuxListIter b sep).allocs = [] ∧
      ∀ kv ∈ l, kv.1.1 ≤ kv.1.2 ∧ kv.1.2 < kv.2.1 ∧ kv.2.1 ≤ kv.2.2 ∧ kv.2.2 ≤ b.size := by
  have ⟨hnp, hal, hq⟩ := linuxListIter_spec b sep hsz
  cases hr : (linuxListIter b sep).res with
  | panic s => exact absurd hr (hnp s)
  | err er =>
    exfalso
    unfold linuxListIter at hr
    exact noErr_scanLines b _ (fun lo hi e' => kvLine_not_err b sep lo hi e') _ _ _ er hr
  | ok l =>
    have ⟨h1, h2⟩ := hq l hr
    refine ⟨l, rfl, h2, hal, fun kv hkv => ?_⟩
    obtain ⟨⟨_, a2, _⟩, ⟨_, c2, c3⟩, d⟩ := h1 kv hkv
    exact ⟨a2, d, c2, c3⟩

/-- **C01.10b** the same for `MinidumpLinuxProcLimits::iter` (plain `lines()`). -/
theorem lines_iter_total (b : Bytes) :
    ∃ l, (linesIter b).res = .ok l ∧ l.length ≤ b.size + 1 ∧ (linesIter b).allocs = [] ∧
      ∀ sp ∈ l, sp.1 ≤ sp.2 ∧ sp.2 ≤ b.size := by
  have ⟨hnp, hal, hq⟩ := linesIter_spec b
  cases hr : (linesIter b).res with
  | panic s => exact absurd hr (hnp s)
  | err er =>
    exfalso
    unfold linesIter at hr
    exact noErr_scanLines b _ (fun lo hi e' h => by cases h) _ _ _ er hr
  | ok l =>
    have ⟨h1, h2⟩ := hq l hr
    exact ⟨l, rfl, h2, hal, fun sp hsp => ⟨(h1 sp hsp).2.1, (h1 sp hsp).2.2⟩⟩

/-- `DISTRIB_ID = "Ubuntu"` (blanks around the separator, quoted value), a line without separator,
    a lone quote as value (the input of seeded change C01-2b), CR LF -/
example : resValue (linuxListIter ("DISTRIB_ID = \"Ubuntu\"\nno separator\nK=\"\r\n".toUTF8.data : Bytes) SEP_EQUALS).res =
    some [((0, 10), (14, 20)), ((35, 36), (37, 38))] := by decide +kernel

/-! ## 11. Breakpad info, assertion info, macOS crash info and boot args, crash reason / address -/

/-- **C01.11a** macOS crash info: for every stream and file no panic outcome; the record loop runs at
    most 20 times and every record reads at most 5 C strings, whatever `record_count` says, so at most
    100 strings are copied, each at most as long as the file; the C-string scan ends (`len + 1` steps
    always suffice: more fuel never changes its answer); the printer's `self.raw[i]` is in bounds. -/
theorem mac_crash_info_total (b all : Bytes) (e : Endian) :
    (∀ site, (readMacCrashInfo b all e).res ≠ .panic site) ∧
    (∀ a ∈ (readMacCrashInfo b all e).allocs, a.n * a.sz ≤ all.size) ∧
    (readMacCrashInfo b all e).allocs.length ≤ 100 ∧
    (∀ rec off extra, cstringScan rec (rec.size + 1 + extra) off = cstringScan rec (rec.size + 1) off) ∧
    (∀ rs, ∀ site, (macPrint rs).res ≠ .panic site) :=
  ⟨(readMacCrashInfo_safe b all e (Nat.le_refl _)).1, (readMacCrashInfo_safe b all e (Nat.le_refl _)).2,
   cnt_readMacCrashInfo b all e, cstringScan_fuel_irrelevant, fun rs => (macPrint_safe (B := 0) rs).1⟩

/-- **C01.11b** Breakpad info, assertion info (`&data[..len]` of the three 128-unit arrays) and the
    boot-args reader reach no panic outcome on any bytes. -/
theorem small_streams_total (b all : Bytes) (e : Endian) (hsz : SliceLen all.size) :
    (∀ site, (readBreakpadInfo b e).res ≠ .panic site) ∧ (∀ site, (readAssertion b e).res ≠ .panic site) ∧
    (∀ data : List Nat, ∀ site, (utf16ToString data).res ≠ .panic site) ∧
    (∀ site, (readMacBootargs b all e).res ≠ .panic site) :=
  ⟨(readBreakpadInfo_safe (B := 0) b e).1, (readAssertion_safe b e (Nat.le_refl _)).1,
   fun data => (utf16ToString_safe data (Nat.le_refl _)).1,
   (readMacBootargs_safe b all e hsz (Nat.le_refl _)).1⟩

/-- **C01.11c** `get_crash_reason` / `get_crash_address` index `exception_information[0..=2]` of an
    exception stream that could be read: always in bounds. -/
theorem crash_reason_reads_in_bounds {b all : Bytes} {e : Endian} {x : Exception}
    (h : (readException b all e).res = .ok x) : ∀ site, (reasonInputs x).res ≠ .panic site :=
  (reasonInputs_safe (B := 0) x (readException_info_length h)).1

/-- a version-5 record whose string table ends early (4 of 5 terminators): an error value, no panic -/
example : resError (readCStrings ("a\x00b\x00c\x00d\x00e".toUTF8.data : Bytes) 5 0).res = some .StreamReadFailure := by decide +kernel


/-! ## 12. `MinidumpMiscInfo` on any bytes: the reader, the accessors, the printer -/

/-- **C01.12a** For every stream and byte order: `MinidumpMiscInfo::read` followed by `print` (and
    `process_create_time`) reaches no panic outcome — `&data[..len]` of the three kinds of fixed UTF-16
    arrays (`standard_name` / `daylight_name` : 32 units, `build_string` : 260, `dbg_bld_str` : 40),
    `1 << cur_idx` and `features[cur_idx]` of the XSTATE loop —, makes at most 4 allocations (the
    decoded strings), each at most 7 x the stream; a stream that reads is one of the five revisions
    with exactly that struct's scalars, and the struct fits the stream. -/
theorem misc_info_total (b : Bytes) (e : Endian) :
    (∀ site, (readMiscInfoX b e).res ≠ .panic site) ∧
    (∀ a ∈ (readMiscInfoX b e).allocs, a.n * a.sz ≤ 7 * b.size) ∧ (readMiscInfoX b e).allocs.length ≤ 4 ∧
    (∀ mi, (readMiscInfo b e).res = .ok mi →
      1 ≤ mi.ver ∧ mi.ver ≤ 5 ∧ mi.vals.length = (miscLayout mi.ver).length ∧ Layout.size (miscLayout mi.ver) ≤ b.size) ∧
    (∀ data : List Nat, ∀ site, (utf16ToString data).res ≠ .panic site) :=
  ⟨(readMiscInfoX_safe b e (Nat.le_refl _)).1, (readMiscInfoX_safe b e (Nat.le_refl _)).2, cnt_readMiscInfoX b e,
   fun mi h => ⟨(readMiscInfo_ok h).ver.1, (readMiscInfo_ok h).ver.2, (readMiscInfo_ok h).len, (readMiscInfo_ok h).fits⟩,
   fun data => (utf16ToString_safe data (Nat.le_refl _)).1⟩

/-- **C01.12b** `XstateFeatureIter` (the loop `print` drives over `xstate_data`) is total and exact: on
    the 131 scalars of the field it ends without panic — no shift by 64, no index past the 64
    entries — and yields exactly the set bits of `enabled_features` in ascending order, bit 63
    included, each with its `features[i]` (offset, size). -/
theorem xstate_iter_exact (vals : List Nat) (h : 131 ≤ vals.length) :
    (xstateIter vals).res = .ok ((List.range 64).filterMap fun i =>
      if (fld vals 2).testBit i then some (i, fld vals (3 + 2 * i), fld vals (4 + 2 * i)) else none) :=
  xstateIter_spec vals h

/-- all 64 features enabled: 64 entries, the last one is feature 63 -/
example : (resValue (xstateIter ([0, 0, 2 ^ 64 - 1] ++ (List.range 128))).res).map (fun l => (l.length, l.getLast?)) =
    some (64, some (63, 126, 127)) := by decide +kernel

/-! ## 13. `MinidumpLinuxMaps`: the exact frontier of finding C01-procfs-mmappath -/

/-- **C01.13a `maps_panics_iff`** For every stream: `MinidumpLinuxMaps::read` (procfs-core 0.17's
    `MemoryMaps::from_read`, then `from_regions`) reaches a panic outcome **iff** the text is
    `MapsHostile` — a decidable property of the text: the first line the parser does not accept is
    (1) a map-entry line whose path column starts with `[stack:` and ends in a non-ASCII byte,
    (2) one whose path column starts with `/SYSV` and has no bytes 5..13 (shorter than 13 bytes, or a
    character straddles index 13), or (3) behind a map entry, an attribute line `Key: <v> <suffix>`
    with `v * 1024 > u64::MAX`. `guarded = true` (the proposed repair in place): never. -/
theorem maps_panics_iff (guarded : Bool) (b : Bytes) :
    (∃ site, (readLinuxMapsG guarded b).res = .panic site) ↔ guarded = false ∧ MapsHostile b.toList :=
  readLinuxMapsG_panic_iff guarded b

/-- **C01.13b `maps_total_of_not_hostile`** On every other text the reader yields a value or an error
    value. -/
theorem maps_total_of_not_hostile (guarded : Bool) (b : Bytes) (h : ¬ MapsHostile b.toList) :
    (∃ m, (readLinuxMapsG guarded b).res = .ok m) ∨ (∃ er, (readLinuxMapsG guarded b).res = .err er) := by
  cases hr : (readLinuxMapsG guarded b).res with
  | ok m => exact .inl ⟨m, rfl⟩
  | err er => exact .inr ⟨er, rfl⟩
  | panic s => exact absurd ((maps_panics_iff guarded b).mp ⟨s, hr⟩).2 h

/-- **C01.13c** what `MapsHostile` says, spelled out: the lines split into a run of ACCEPTED lines,
    then one line of one of the three shapes (in the parser state the run leaves), then anything. A
    hostile-looking line behind a line the parser rejects is never reached. -/
theorem maps_hostile_iff_exists (text : List UInt8) :
    MapsHostile text ↔
      ∃ pre l post cur, textLines text = pre ++ l :: post ∧ acceptedRun pre false = some cur ∧ HostileLine cur l = true :=
  hostileFrom_iff_exists (textLines text) false

/-- **C01.13d** the reader modelled here IS C02's (`MdModel.Dump2.readLinuxMaps`, for which C02 proves
    the round trip): same entries, same error, same panic site — this file adds the allocation log,
    the lookup table and the frontier. -/
theorem maps_reader_is_c02s (b : Bytes) :
    (match (readLinuxMapsX b).res with
     | .ok m => Res.ok m.entries
     | .err e => .err e
     | .panic s => .panic s) = (match (readLinuxMaps b).res with
     | .ok es => Res.ok es
     | .err e => .err e
     | .panic s => .panic s) :=
  readLinuxMapsX_entries b

/-- **C01.13e** allocations of the maps reader on EVERY path, the panicking one included: each is
    backed by the stream (`<= 32 x len`: a line's `String`, the entry vector — an entry needs five
    blanks and a line terminator —, the lookup table), and there are at most `4 x len + 6`; the
    lookups `memory_info_at_address` stay inside the entry vector. -/
theorem maps_alloc_backed (guarded : Bool) (b : Bytes) :
    (∀ a ∈ (readMapsOutG guarded b).allocs, a.n * a.sz ≤ 32 * b.size) ∧
    (readMapsOutG guarded b).allocs.length ≤ 4 * b.size + 6 ∧
    (∀ m, (readLinuxMapsG guarded b).res = .ok m → m.entries.length * 6 ≤ b.size + 1 ∧
      ∀ a site, (mapsInfoAt m a).res ≠ .panic site) :=
  ⟨readMapsOutG_allocsLe guarded b, cnt_readMapsOutG guarded b, fun m hm =>
    ⟨(readLinuxMapsX_ok (readLinuxMapsG_ok hm)).2.1,
     fun a => (mapsInfoAt_safe (B := 0) m (readLinuxMapsX_ok (readLinuxMapsG_ok hm)).1 a).1⟩⟩

/-- **C01.13f `maps_guard_correct`** the proposed repair (`maps_text_is_safe`, modelled as
    `mapsGuardOk`; notes/pending-fix-procfs-mmappath.diff) is SOUND — every text on which the
    unguarded reader panics is refused, so the guarded reader never panics — and TIGHT — a stream
    reads with the guard exactly when it read without it, with the same result. -/
theorem maps_guard_correct (b : Bytes) :
    (MapsHostile b.toList → mapsGuardOk (textLines b.toList) = false) ∧
    (∀ site, (readLinuxMapsG true b).res ≠ .panic site) ∧
    (∀ m, (readLinuxMapsG true b).res = .ok m ↔ (readLinuxMapsG false b).res = .ok m) :=
  ⟨fun h => guard_sound _ _ h,
   fun site hs => Bool.noConfusion ((maps_panics_iff true b).mp ⟨site, hs⟩).1,
   fun m => readLinuxMapsG_true_ok_iff b m⟩

/-- the three witnesses of the finding are hostile; a well-formed text is not; a hostile-looking line
    BEHIND a malformed line is not (the parser has stopped with an error before it gets there) -/
example :
    MapsHostile "00400000-0040b000 r-xp 00000000 08:01 1 /SYSV12\n".toUTF8.data.toList ∧
    MapsHostile "00400000-0040b000 r-xp 00000000 08:01 1 [stack:7é\n".toUTF8.data.toList ∧
    MapsHostile "00400000-0040b000 rw-p 00000000 00:00 0 [heap]\nRss: 18014398509481984 kB\n".toUTF8.data.toList ∧
    ¬ MapsHostile "00400000-0040b000 rw-p 00000000 00:00 0 [heap]\nRss: 18014398509481983 kB\nVmFlags: rd wr\n".toUTF8.data.toList ∧
    ¬ MapsHostile "bad line\n00400000-0040b000 r-xp 00000000 08:01 1 /SYSV12\n".toUTF8.data.toList ∧
    ¬ MapsHostile "Rss: 18014398509481984 kB\n".toUTF8.data.toList := by decide +kernel

/-! ## 14. `UnifiedMemoryInfoList`, the `Module` identifier accessors and `print`, soft errors -/

/-- **C01.14a** For every memory-info list (any regions: empty, overlapping, ending at 2^64) and every
    maps value the reader can produce: building `UnifiedMemoryInfoList`, `iter`, `by_addr` and
    `memory_info_at_address` at any addresses reach no panic outcome (`into_rangemap_safe` never
    fails: C08; `&self.regions[index]` is in bounds: every value of the table is a position of the
    region vector) and allocate once (the table). -/
theorem unified_total (info : Option (List MemInfo)) (maps : Option LinuxMapsX)
    (hm : ∀ m, maps = some m → ∃ g s, (readLinuxMapsG g s).res = .ok m) :
    (∀ site, (unifiedOut info maps).res ≠ .panic site) ∧ (unifiedOut info maps).allocs.length ≤ 1 := by
  refine ⟨(unifiedOut_safe (B := (info.getD []).length * 32) info maps (fun is his => by subst his; simp) (fun m hmm => ?_)).1,
    cnt_unifiedOut info maps⟩
  obtain ⟨g, s, hgs⟩ := hm m hmm
  have hx := readLinuxMapsG_ok hgs
  exact ⟨(readLinuxMapsX_ok hx).1, readLinuxMapsX_hi hx⟩

/-- **C01.14b** For every file and every module list read from it — whatever its CodeView records
    hold: cut records, odd lengths, file names that are not UTF-8, zero / short / long build ids —
    `debug_identifier`, `code_identifier`, `debug_file` (with `from_utf8_lossy`), `version` and
    `print` of every module reach no panic outcome (`raw.signature.data4[i]` exists: a PDB 7.0
    record that reads has its 11 GUID scalars), every allocation (lossy copy, hex strings of
    `bytes_to_hex`) is at most `32 x len`, at most 4 per module. The strings themselves are C02's
    derivations (`ids_as_documented`). -/
theorem module_ids_total {ms : MemSizes} {b all : Bytes} {e : Endian} {mods : List Module} (os : Encode.Os)
    (h : (readModuleList ms b all e).res = .ok mods) :
    (∀ site, (modulesOut os e mods).res ≠ .panic site) ∧
    (∀ a ∈ (modulesOut os e mods).allocs, a.n * a.sz ≤ K * all.size) ∧
    (modulesOut os e mods).allocs.length ≤ 4 * mods.length ∧ mods.length * 108 ≤ b.size :=
  ⟨(modulesOut_safe (B := K * all.size) os e (by unfold K; omega) mods (readModuleList_ok h)).1,
   (modulesOut_safe (B := K * all.size) os e (by unfold K; omega) mods (readModuleList_ok h)).2,
   cnt_modulesOut os e mods, readModuleList_length h⟩

/-- a PDB file name that is not UTF-8 comes out with U+FFFD per maximal invalid prefix
    (`String::from_utf8_lossy`): `ff`, a cut two-byte lead, an encoded surrogate, an overlong form -/
example :
    utf8Lossy [0x61, 0xff, 0x62] = [0x61, 0xFFFD, 0x62] ∧ utf8Lossy [0x63, 0xc3] = [0x63, 0xFFFD] ∧
    utf8Lossy [0xed, 0xa0, 0x80] = [0xFFFD, 0xFFFD, 0xFFFD] ∧ utf8Lossy [0xc0, 0x80] = [0xFFFD, 0xFFFD] ∧
    utf8Lossy [0xf0, 0x9f, 0x98, 0x41] = [0xFFFD, 0x41] ∧ utf8Lossy [0xf0, 0x9f, 0x98, 0x80] = [0x1F600] := by decide +kernel

/-- `os_parts` on a Linux dump with version 0.0.0: version and build come out of the `uname` text -/
example :
    osParts 0 0 0 Gen.LayoutsC02.PLATFORM_Linux (some (scalarsOf "Linux 5.4.0-42-generic #46-Ubuntu SMP x86_64 Linux/GNU")) =
      (scalarsOf "5.4.0-42-generic", some (scalarsOf "#46-Ubuntu SMP")) ∧
    osParts 0 0 0 Gen.LayoutsC02.PLATFORM_Linux (some (scalarsOf "Linux")) = (scalarsOf "0.0.0", some (scalarsOf "Linux")) ∧
    osParts 10 0 19041 2 (some (scalarsOf " SP1 ")) = (scalarsOf "10.0.19041", some (scalarsOf "SP1")) := by decide +kernel

/-! ## 15. thread-context registers: C18's tables apply to contexts read from a dump -/

/-- **C01.15 `context_registers_spec`** For every context `MinidumpContext::read` accepts — any bytes,
    either byte order, all nine record types — and EVERY name the register tables of its type know
    (`REGISTERS`, getter / setter arms, aliases, stack- and instruction-pointer names): the name's
    storage cell exists in the record under the layout regenerated from format.rs, with the width the
    tables state, inside the bytes read; `get_register_always(name)` and `get_register(name)` return
    the little/big-endian word at that offset; and the enumerations are total:
    `valid_registers()` lists exactly `general_purpose_registers()` in order, each with that word.
    So the name / cell / alias / validity theorems of C18 hold for contexts coming out of a dump
    (`regState c` is the register file they quantify over). -/
theorem context_registers_spec {bytes : Bytes} {e : Endian} {arch : Nat} {c : Context}
    (h : contextRead bytes e arch = .ok c) :
    (∀ n ∈ Regs.knownNames (regsCtxOf c.kind), ∃ cell off w f,
      Regs.getCell (regsCtxOf c.kind) n = some cell ∧
      layoutOffset c.kind.layout (Regs.showCell cell) = some (off, w) ∧ off + w ≤ bytes.size ∧
      Regs.fieldOf (regsCtxOf c.kind) cell.field = some f ∧ w * 8 = f.bits ∧
      Regs.getAlways (regsCtxOf c.kind) (regState c) n = .ok (decodeNat e (bytes.extract off (off + w)).toList) ∧
      Regs.getRegister (regsCtxOf c.kind) (regState c) n .all = .ok (some (decodeNat e (bytes.extract off (off + w)).toList))) ∧
    (∃ vs, Regs.mdValidRegisters (regsCtxOf c.kind) (regState c) .all = .ok vs ∧
      vs.map (·.1) = Gen.Regs.registers (regsCtxOf c.kind) ∧
      ∀ p ∈ vs, Regs.getAlways (regsCtxOf c.kind) (regState c) p.1 = .ok p.2) ∧
    (∀ site, (ctxRegisters c).res ≠ .panic site) ∧ (ctxRegisters c).allocs = [] := by
  have ⟨_, _, hread, _, _, _⟩ := contextRead_ok h
  refine ⟨fun n hn => ?_, ?_, (ctxRegisters_safe (B := 0) c).1, ctxRegisters_allocs c⟩
  · obtain ⟨cell, hcell, hget⟩ := Regs.getAlways_known (regState c) hn
    obtain ⟨off, w, f, hoff, hf, hw⟩ := cell_in_layout hn hcell
    have ⟨hval, hfit⟩ := readFields_layoutOffset _ _ _ _ _ hread _ _ _ hoff
    simp only [Nat.zero_add] at hval hfit
    have hst : regState c cell = decodeNat e (bytes.extract off (off + w)).toList := by
      simp only [regState, hval, Option.getD_some]
    obtain ⟨_, cell', hcell', hreg⟩ := Regs.validity_all (regsCtxOf c.kind) (regState c) n hn
    rw [hcell] at hcell'
    cases hcell'
    exact ⟨cell, off, w, f, hcell, hoff, hfit, hf, hw, by rw [hget, hst], by rw [hreg, hst]⟩
  · exact (Regs.enumerations_valid (regsCtxOf c.kind) (regState c) [] (fun s hs => by cases hs)).2

/-- an x86 record whose `eip` field (offset 184) holds 0x11223344: the named register is that word -/
example :
    (match contextRead ((((((Array.replicate 716 (0 : UInt8)).set! 2 1).set! 184 0x44).set! 185 0x33).set! 186 0x22).set! 187 0x11) .little 0 with
     | .ok c => (match Regs.getRegister (regsCtxOf c.kind) (regState c) "eip" .all with
        | .ok v => v
        | .panic _ => none)
     | .error _ => none) = some 0x11223344 ∧ layoutOffset CONTEXT_X86 "eip" = some (184, 4) := by decide +kernel

/-! ## 16. the whole reader (`readWhole`): the panic frontier, allocations on every path -/

/-- the panic outcome is reached -/
theorem isPanic_def {α : Type} (m : M α) : IsPanic m ↔ ∃ site, m.res = .panic site := Iff.rfl

theorem readFull_ok_base {ms : MemSizes} {b : Bytes} {f : Full} (h : (readFull ms b).res = .ok (.ok f)) :
    (readAll ms b).res = .ok (.ok f.base) := by
  unfold readFull at h
  obtain ⟨r, hr, h⟩ := bind_ok h
  split at h
  · cases pure_ok h
  · rename_i p
    obtain ⟨x, _, h⟩ := bind_ok h
    have := pure_ok h
    cases this
    exact hr

/-- **C01.16a `whole_panics_iff`** For every byte string: opening it, requesting every stream,
    every accessor and printer computation modelled (`readWhole`) reaches a panic outcome **iff** the
    repository under test still hands Linux maps to procfs-core unguarded AND the file has a
    Linux-maps stream whose text is `MapsHostile` — the known finding, and nothing else. -/
theorem whole_panics_iff (ms : MemSizes) (hms : ms.Bounded) (b : Bytes) (hsz : SliceLen b.size) :
    (∃ site, (readWhole ms b).res = .panic site) ↔
      Gen.MapsGuard.MAPS_GUARDED = false ∧ ∃ d, readDump b = .ok d ∧ MapsStreamHostile b d := by
  rw [← isPanic_def]
  unfold readWhole readWholeWith
  rw [isPanic_bind_safe (readFull_safe ms hms b hsz)]
  constructor
  · intro ⟨r, hr, hp⟩
    split at hp
    · exact absurd hp (isPanic_pure _)
    · rename_i f
      have ⟨hp2, hd⟩ := readAll_parsedOk2 (readFull_ok_base hr)
      rw [isPanic_bind] at hp
      cases hp with
      | inl hp => have := (readMore_panic_iff b f hp2).mp hp; exact ⟨this.1, f.base.dump, hd, this.2⟩
      | inr hp => obtain ⟨_, _, hp⟩ := hp; exact absurd hp (isPanic_pure _)
  · intro ⟨hg, d, hd, hh⟩
    obtain ⟨r, hr⟩ := full_total ms hms b hsz
    refine ⟨r, hr, ?_⟩
    cases r with
    | error er =>
      exfalso
      unfold readFull at hr
      obtain ⟨r', hr', hr⟩ := bind_ok hr
      split at hr
      · unfold readAll at hr'
        rw [hd] at hr'
        simp only at hr'
        obtain ⟨_, _, hr'⟩ := bind_ok hr'
        obtain ⟨_, _, hr'⟩ := bind_ok hr'
        cases pure_ok hr'
      · obtain ⟨_, _, hr⟩ := bind_ok hr
        cases pure_ok hr
    | ok f =>
      have ⟨hp2, hd'⟩ := readAll_parsedOk2 (readFull_ok_base hr)
      rw [hd] at hd'
      cases hd'
      simp only
      rw [isPanic_bind]
      exact .inl ((readMore_panic_iff b f hp2).mpr ⟨hg, hh⟩)

/-- **C01.16b** and otherwise it yields a value (errors of the header or of single streams are values) -/
theorem whole_total_of_not_hostile (ms : MemSizes) (hms : ms.Bounded) (b : Bytes) (hsz : SliceLen b.size)
    (h : Gen.MapsGuard.MAPS_GUARDED = true ∨ ∀ d, readDump b = .ok d → ¬ MapsStreamHostile b d) :
    ∃ r, (readWhole ms b).res = .ok r := by
  cases hr : (readWhole ms b).res with
  | ok r => exact ⟨r, rfl⟩
  | panic s =>
    exfalso
    have ⟨hg, d, hd, hh⟩ := (whole_panics_iff ms hms b hsz).mp ⟨s, hr⟩
    cases h with
    | inl h => rw [hg] at h; cases h
    | inr h => exact h d hd hh
  | err er => exact absurd hr (readWholeWith_noErr false ms b er)

/-- **C01.16c** every allocation `readWhole` logs is at most `K = 32` times the file length — on
    every path, the panicking one included. -/
theorem whole_alloc_backed (ms : MemSizes) (hms : ms.Bounded) (b : Bytes) (hsz : SliceLen b.size) :
    ∀ a ∈ (readWhole ms b).allocs, a.n * a.sz ≤ K * b.size := by
  unfold readWhole readWholeWith
  refine allocsLe_bind (readFull_safe ms hms b hsz).2 (fun r hr => ?_)
  split
  · exact allocsLe_pure _
  · rename_i f
    have ⟨hp2, _⟩ := readAll_parsedOk2 (readFull_ok_base hr)
    exact allocsLe_bind (readMore_allocsLe false b f hp2) (fun _ _ => allocsLe_pure _)

/-- **C01.16d** the third group adds at most `5 x len + 11` allocations, so the sum of ALL requests
    stays at most quadratic: the bound of `full_alloc_total_quadratic` plus `(5 len + 11) x 32 len`. -/
theorem whole_alloc_total_quadratic (ms : MemSizes) (hms : ms.Bounded) (b : Bytes) (hsz : SliceLen b.size) :
    totalBytes (readWhole ms b).allocs ≤
      (21 + 10 * (b.size / 8)) * (K * b.size) + (11 * b.size + (b.size / 12) * (9 * b.size)) + 110 * (K * b.size)
        + (5 * b.size + 11) * (K * b.size) := by
  unfold readWhole readWholeWith
  refine total_bind (full_alloc_total_quadratic ms hms b hsz) (fun r hr => ?_)
  split
  · rw [total_pure]; omega
  · rename_i f
    have ⟨hp2, _⟩ := readAll_parsedOk2 (readFull_ok_base hr)
    have h1 : totalBytes (readMore false b f).allocs ≤ (5 * b.size + 11) * (K * b.size) :=
      Nat.le_trans (totalBytes_le _ _ (readMore_allocsLe false b f hp2)) (Nat.mul_le_mul_right _ (cnt_readMore false b f hp2))
    have := total_bind (C := 0) h1 (f := fun m => (pure (.ok ⟨f, m⟩) : M (Except Err Whole))) (fun _ _ => by rw [total_pure]; omega)
    omega

/-- **C01.16e** the driver renders a panicking input from the run in which the Linux-maps operation is
    wrapped the way the harness wraps it (`catch_unwind`, `readWholeWith true`); on every input that
    does not panic the two runs are the same value with the same allocation log. -/
theorem whole_render_faithful (ms : MemSizes) (b : Bytes) (h : ¬ ∃ site, (readWhole ms b).res = .panic site) :
    readWholeWith true ms b = readWhole ms b :=
  readWholeWith_caught_eq ms b h

end MdModel.Dump
