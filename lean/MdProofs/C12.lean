/-
  C12 — A module's symbols are located once, however concurrent lookups interleave.

  Property text: "Whatever the interleaving of concurrent symbolication and unwinding requests on one
  symbolizer (absent cancellation), the symbol supplier is asked at most once per distinct module
  and every requester of that module observes the same outcome, including a remembered failure. No
  request is lost or deadlocks, and the pending counters end with requested = processed = number of
  distinct modules asked for."

  The theorems are about `MdModel.Once` (the model the compiled driver executes and the `once`
  engine compares, after every poll, with one real `Symbolizer` driven by the same schedule).
  They quantify over EVERY configuration (any number of tasks, programs of any length over any keys,
  any supplier table) and EVERY schedule `sched : List Nat` — any poll order, including spurious
  polls of tasks that cannot progress and polls of ids that are no task.
-/
import MdProofs.Lemmas.Once
namespace MdModel.Once
open MdModel

/-- the states the theorems talk about: reached from the initial state by some schedule -/
def Reachable (cfg : Cfg) (s : State) : Prop := ∃ sched, s = exec cfg sched (init cfg)

/-! ## 1. "the symbol supplier is asked at most once per distinct module" -/

/-- **C12.1** in every reachable state the supplier call log holds at most one call per key. -/
theorem at_most_once (cfg : Cfg) (sched : List Nat) (k : Nat) :
    callCount k (exec cfg sched (init cfg)).log ≤ 1 :=
  (callInv_exec cfg sched (callInv_init cfg) k).1

/-- non-vacuity: a concrete contended run in which the call happens (count = 1, not 0):
    two tasks ask for key 7, the supplier suspends twice; task 1 is polled while task 0 holds
    the lock. -/
example :
    let cfg : Cfg := ⟨[[7], [7]], fun _ => ⟨2, .ok⟩⟩
    callCount 7 (exec cfg [0, 1, 1, 0, 1, 0, 1] (init cfg)).log = 1 := by decide

end MdModel.Once
