/-
  C12 — A module's symbols are located once, however concurrent lookups interleave.

  Property text: "Whatever the interleaving of concurrent symbolication and unwinding requests on one
  symbolizer (absent cancellation), the symbol supplier is asked at most once per distinct module
  and every requester of that module observes the same outcome, including a remembered failure. No
  request is lost or deadlocks, and the pending counters end with requested = processed = number of
  distinct modules asked for."

  The theorems are about `MdModel.Once` (the model the compiled driver executes and the `once`
  engine compares, after every poll, with one real `Symbolizer` driven by the same schedule).
  They quantify over EVERY configuration (any number of tasks, programs of any length over any keys,
  any supplier table) and EVERY schedule `sched : List Nat` — any poll order, including spurious
  polls of tasks that cannot progress and polls of ids that are no task.
-/
import MdProofs.Lemmas.OnceReq
namespace MdModel.Once
open MdModel

/-! ## 1. "the symbol supplier is asked at most once per distinct module" -/

/-- **C12.1** in every reachable state the supplier call log holds at most one call per key. -/
theorem at_most_once (cfg : Cfg) (sched : List Nat) (k : Nat) :
    callCount k (exec cfg sched (init cfg)).log ≤ 1 :=
  (callInv_exec cfg sched (callInv_init cfg) k).1

/-- non-vacuity: a concrete contended run in which the call happens (count = 1, not 0):
    two tasks ask for key 7, the supplier suspends twice; task 1 is polled while task 0 holds
    the lock. -/
example :
    let cfg : Cfg := ⟨[[7], [7]], fun _ => ⟨2, .ok⟩⟩
    callCount 7 (exec cfg [0, 1, 1, 0, 1, 0, 1] (init cfg)).log = 1 := by decide

/-! ## 2. "every requester of that module observes the same outcome, including a remembered
      failure" -/

/-- **C12.2a** whatever a requester observes for key `k` is the outcome the supplier gave for `k`
    (`ok`, `notFound` or `parseError` alike — failures are remembered, not retried). -/
theorem remembered_outcome (cfg : Cfg) (sched : List Nat) (t k : Nat) (r : Res)
    (hm : Event.seen t k r ∈ (exec cfg sched (init cfg)).log) : r = cfg.outcome k := by
  obtain ⟨k', _, he⟩ := List.mem_map.mp (seen_mem_expected (invA_reach cfg sched) hm)
  simp only [expected, Prod.mk.injEq] at he
  rw [← he.2, he.1]

/-- **C12.2** agreement: any two observations of the same key, by any tasks at any time, are
    equal. -/
theorem agreement (cfg : Cfg) (sched : List Nat) (t₁ t₂ k : Nat) (r₁ r₂ : Res)
    (h₁ : Event.seen t₁ k r₁ ∈ (exec cfg sched (init cfg)).log)
    (h₂ : Event.seen t₂ k r₂ ∈ (exec cfg sched (init cfg)).log) : r₁ = r₂ := by
  rw [remembered_outcome cfg sched t₁ k r₁ h₁, remembered_outcome cfg sched t₂ k r₂ h₂]

/-- non-vacuity: two tasks observe the remembered `parseError` of key 3 (one of them was blocked
    on the lock while the other was inside the supplier call). -/
example :
    let cfg : Cfg := ⟨[[3], [3]], fun _ => ⟨1, .parseError⟩⟩
    let s := exec cfg [0, 1, 0, 1] (init cfg)
    Event.seen 0 3 .parseError ∈ s.log ∧ Event.seen 1 3 .parseError ∈ s.log := by decide

/-! ## 3. results are a function of the programs and the supplier table only (used by C13) -/

/-- **C12.6a** at every moment, what task `t` has seen is a prefix of
    `(prog t).map (k ↦ (k, outcome k))` — no schedule can change an answer or its position. -/
theorem results_prefix (cfg : Cfg) (sched : List Nat) (t : Nat) :
    seenBy t (exec cfg sched (init cfg)).log <+: (cfg.prog t).map (expected cfg) :=
  ⟨_, (invA_reach cfg sched).results t⟩

/-- **C12.6b** once task `t` has finished it has seen exactly that list: no request is lost. -/
theorem results_final (cfg : Cfg) (sched : List Nat) (t : Nat)
    (hfin : isFin (exec cfg sched (init cfg)) t = true) :
    seenBy t (exec cfg sched (init cfg)).log = (cfg.prog t).map (expected cfg) := by
  have h := (invA_reach cfg sched).results t
  simp only [isFin, beq_iff_eq] at hfin
  simpa [todo, hfin] using h

/-- **C12.6** `results_schedule_free`: two schedules that both let task `t` finish give it the
    same sequence of results. -/
theorem results_schedule_free (cfg : Cfg) (sched₁ sched₂ : List Nat) (t : Nat)
    (h₁ : isFin (exec cfg sched₁ (init cfg)) t = true)
    (h₂ : isFin (exec cfg sched₂ (init cfg)) t = true) :
    seenBy t (exec cfg sched₁ (init cfg)).log = seenBy t (exec cfg sched₂ (init cfg)).log := by
  rw [results_final cfg sched₁ t h₁, results_final cfg sched₂ t h₂]

/-- non-vacuity: two different schedules, same (non-empty) results for task 1. -/
example :
    let cfg : Cfg := ⟨[[0, 1], [1, 0]], fun k => if k = 0 then ⟨1, .ok⟩ else ⟨2, .notFound⟩⟩
    isFin (exec cfg [0, 1, 0, 1, 0, 1, 0, 1] (init cfg)) 1 = true ∧
    isFin (exec cfg [1, 1, 1, 1, 1, 0, 0] (init cfg)) 1 = true ∧
    seenBy 1 (exec cfg [1, 1, 1, 1, 1, 0, 0] (init cfg)).log = [(1, .notFound), (0, .ok)] := by
  decide

/-! ## 4. "the pending counters end with requested = processed = number of distinct modules" -/

/-- **C12.3a** `counters`, at every moment:
    `processed ≤ requested ≤ #distinct keys started ≤ #distinct keys of all programs`. -/
theorem counters (cfg : Cfg) (sched : List Nat) :
    let s := exec cfg sched (init cfg)
    s.processed ≤ s.requested ∧ s.requested ≤ (startedKeys cfg s).length ∧
      (startedKeys cfg s).length ≤ (allKeys cfg).length := by
  intro s
  have h : InvA cfg s := invA_reach cfg sched
  refine ⟨?_, ?_, List.length_filter_le _ _⟩
  · rw [h.proc_eq, h.req_eq]
    apply filter_length_mono
    intro k hk
    cases hs : s.slot k <;> simp_all [Slot.isDone, Slot.nonEmpty]
  · rw [h.req_eq]
    exact filter_length_mono _ _ _ (fun k hk => nonEmpty_started h k hk)

/-- **C12.3** once every task has finished: `requested = processed = number of distinct keys`. -/
theorem counters_final (cfg : Cfg) (sched : List Nat)
    (hfin : allFin cfg (exec cfg sched (init cfg)) = true) :
    (exec cfg sched (init cfg)).requested = (allKeys cfg).length ∧
    (exec cfg sched (init cfg)).processed = (allKeys cfg).length := by
  have h : InvA cfg (exec cfg sched (init cfg)) := invA_reach cfg sched
  have hdone : ∀ k ∈ allKeys cfg, ∃ r, (exec cfg sched (init cfg)).slot k = .done r := by
    intro k hk
    obtain ⟨t, ht, hkt⟩ := exists_task_of_key hk
    have hft : isFin (exec cfg sched (init cfg)) t = true := by
      simp only [allFin, List.all_eq_true, List.mem_range] at hfin
      exact hfin t ht
    have hres := results_final cfg sched t hft
    have hm : expected cfg k ∈ seenBy t (exec cfg sched (init cfg)).log := by
      rw [hres]; exact List.mem_map.mpr ⟨k, hkt, rfl⟩
    exact h.seen_done t k _ (mem_seenBy.mp hm)
  constructor
  · rw [h.req_eq, List.filter_eq_self.mpr]
    intro k hk
    obtain ⟨r, hr⟩ := hdone k hk
    simp [hr, Slot.nonEmpty]
  · rw [h.proc_eq, List.filter_eq_self.mpr]
    intro k hk
    obtain ⟨r, hr⟩ := hdone k hk
    simp [hr, Slot.isDone]

/-- non-vacuity: three tasks over two distinct keys finish with requested = processed = 2. -/
example :
    let cfg : Cfg := ⟨[[0, 1], [1], [0]], fun k => ⟨k + 1, .ok⟩⟩
    let s := exec cfg [0, 1, 2, 0, 1, 2, 0, 1, 2, 0, 1, 2] (init cfg)
    allFin cfg s = true ∧ s.requested = 2 ∧ s.processed = 2 ∧ (allKeys cfg).length = 2 := by
  decide

/-! ## 5. "No request is lost or deadlocks" -/

/-- **C12.4** `progress` (no deadlock): in every reachable state in which some task is unfinished,
    there is a task whose poll strictly decreases the measure
    `Σ_tasks (remaining lookups weighted by the supplier's suspensions)`. -/
theorem progress (cfg : Cfg) (sched : List Nat)
    (hnf : allFin cfg (exec cfg sched (init cfg)) = false) :
    ∃ t, t < cfg.ntasks ∧
      measure cfg (poll cfg t (exec cfg sched (init cfg))) < measure cfg (exec cfg sched (init cfg)) := by
  obtain ⟨t, ht, hf, hnb⟩ := exists_unblocked (invA_reach cfg sched) hnf
  exact ⟨t, ht, measure_poll_lt cfg t _ ht hf hnb⟩

/-- **C12.4b** no poll — spurious or not — ever increases the measure (so spurious polls can delay
    completion but never undo progress). -/
theorem poll_never_regresses (cfg : Cfg) (t : Nat) (s : State) :
    measure cfg (poll cfg t s) ≤ measure cfg s := measure_poll_le cfg t s

/-- **C12.4c** every fair schedule finishes: after ANY schedule `sched`, any continuation made of
    at least `measure` rounds, each of which polls every task at least once (in any order, with
    any repetitions and spurious polls in between), ends with every task finished. -/
theorem fair_schedule_finishes (cfg : Cfg) (sched : List Nat) (rounds : List (List Nat))
    (hfair : ∀ r ∈ rounds, ∀ t, t < cfg.ntasks → t ∈ r)
    (hlen : measure cfg (exec cfg sched (init cfg)) ≤ rounds.length) :
    allFin cfg (exec cfg (sched ++ rounds.flatten) (init cfg)) = true := by
  rw [exec_append]
  exact rounds_finish rounds hfair (invA_reach cfg sched) hlen

/-- the completion phase of the model driver (plain round-robin, `measure (init cfg) + 1` rounds,
    started after any schedule) ends with every task finished — so the `final …` summary the tie
    compares is always taken in a final state. -/
theorem round_robin_finishes (cfg : Cfg) (sched : List Nat) :
    allFin cfg (finish cfg (measure cfg (init cfg) + 1) (exec cfg sched (init cfg))) = true :=
  finish_allFin _ (invA_reach cfg sched)
    (Nat.le_succ_of_le (measure_exec_le cfg sched (init cfg)))

/-- the number of rounds needed is bounded by the initial measure, a function of the
    configuration only: `Σ_tasks (1 + Σ_lookups (suspensions + 3))`. -/
theorem measure_bounded (cfg : Cfg) (sched : List Nat) :
    measure cfg (exec cfg sched (init cfg)) ≤ measure cfg (init cfg) :=
  measure_exec_le cfg sched _

/-- non-vacuity of `progress` and `fair_schedule_finishes`: a contended unfinished state, and
    fair rounds (with spurious polls) finishing it. -/
example :
    let cfg : Cfg := ⟨[[0, 1], [1, 0]], fun _ => ⟨1, .ok⟩⟩
    allFin cfg (exec cfg [0, 1, 1, 0] (init cfg)) = false ∧
    measure cfg (exec cfg [0, 1, 1, 0] (init cfg)) ≤ 6 ∧
    allFin cfg (exec cfg ([0, 1, 1, 0] ++ [[1, 1, 0], [0, 1], [1, 0, 0], [0, 1], [0, 1], [1, 0]].flatten)
      (init cfg)) = true := by decide

/-! ## 6. no lost wake-up: executors that only poll woken tasks cannot stall

  The model carries, per task, the flag "my waker has fired since my last poll", set exactly as
  `futures_util::lock::Mutex` does (unlock wakes the first slab entry if it is still `Waiting`; a
  failed poll re-registers) and as a suspending supplier does (it wakes its own task). -/

/-- **C12.5** `no_lost_wakeup`: in every reachable state in which some task is unfinished there is
    a task that is WOKEN, unfinished, and whose poll strictly decreases the measure. Hence
    `join_all`, tokio, or any executor that polls only woken tasks always has a task to poll,
    and polling it makes progress. -/
theorem no_lost_wakeup (cfg : Cfg) (sched : List Nat)
    (hnf : allFin cfg (exec cfg sched (init cfg)) = false) :
    ∃ t, t < cfg.ntasks ∧ ((exec cfg sched (init cfg)).task t).woken = true ∧
      isFin (exec cfg sched (init cfg)) t = false ∧
      measure cfg (poll cfg t (exec cfg sched (init cfg))) < measure cfg (exec cfg sched (init cfg)) := by
  obtain ⟨t, ht, hw, hf, hnb⟩ :=
    exists_woken_unblocked (invA_reach cfg sched) (invW_reach cfg sched) hnf
  exact ⟨t, ht, hw, by simp [isFin, hf], measure_poll_lt cfg t _ ht hf hnb⟩

/-- the set a waker-respecting executor chooses from is never empty before the end -/
theorem runnable_nonempty (cfg : Cfg) (sched : List Nat)
    (hnf : allFin cfg (exec cfg sched (init cfg)) = false) :
    runnable cfg (exec cfg sched (init cfg)) ≠ [] := by
  obtain ⟨t, ht, hw, hf, _⟩ := no_lost_wakeup cfg sched hnf
  intro he
  have : t ∈ runnable cfg (exec cfg sched (init cfg)) := by
    simp only [runnable, List.mem_filter, List.mem_range, Bool.and_eq_true, Bool.not_eq_true']
    exact ⟨ht, hw, hf⟩
  rw [he] at this; cases this

/-- non-vacuity: three tasks contend for one key; after the holder finished, the first waiter
    (task 1) is the woken one, task 2 is not — and the chain of wake-ups continues when 1 runs. -/
example :
    let cfg : Cfg := ⟨[[5], [5], [5]], fun _ => ⟨1, .notFound⟩⟩
    let s := exec cfg [0, 1, 2, 0] (init cfg)
    allFin cfg s = false ∧ runnable cfg s = [1] ∧ runnable cfg (poll cfg 1 s) = [2] := by decide

/-! ## 7. Programs whose continuation depends on what a lookup observed (`MdModel.OnceG`)

  `MultiSymbolProvider::walk_frame` decides from the answer it has just received whether it
  consults the next provider. `MdModel.OnceG` is the machine of sections 1–6 over such programs:
  an item names a cache slot and how many following items are dropped when the observed result
  is `ok`. The decision is taken from the OBSERVED value. `g_simulation`: for every schedule it is
  in lock step with the machine of sections 1–6 on the statically compiled programs — so
  everything proved above holds for it. -/

/-- **C12.7** simulation, for every configuration and every schedule -/
theorem g_simulation (cfg : ICfg) (sched : List Nat) :
    absS cfg (gexec cfg sched (ginit cfg)) = exec (compile cfg) sched (init (compile cfg)) :=
  sim_exec cfg sched

theorem g_doneOk (cfg : ICfg) (sched : List Nat) : DoneOk cfg (gexec cfg sched (ginit cfg)) :=
  doneOk_gexec sched (doneOk_ginit cfg)

/-- the measure of the dynamic machine: that of the compiled configuration -/
def gmeasure (cfg : ICfg) (s : GState) : Nat := measure (compile cfg) (absS cfg s)

/-- **C12.7a** at most one supplier call per slot -/
theorem g_at_most_once (cfg : ICfg) (sched : List Nat) (k : Nat) :
    callCount k (gexec cfg sched (ginit cfg)).log ≤ 1 := by
  rw [sim_log]; exact at_most_once (compile cfg) sched k

/-- **C12.7b** what a requester observes is the supplier's outcome for that slot; hence agreement -/
theorem g_remembered_outcome (cfg : ICfg) (sched : List Nat) (t k : Nat) (r : Res)
    (hm : Event.seen t k r ∈ (gexec cfg sched (ginit cfg)).log) : r = cfg.outcome k := by
  rw [sim_log] at hm; exact remembered_outcome (compile cfg) sched t k r hm

theorem g_agreement (cfg : ICfg) (sched : List Nat) (t₁ t₂ k : Nat) (r₁ r₂ : Res)
    (h₁ : Event.seen t₁ k r₁ ∈ (gexec cfg sched (ginit cfg)).log)
    (h₂ : Event.seen t₂ k r₂ ∈ (gexec cfg sched (ginit cfg)).log) : r₁ = r₂ := by
  rw [g_remembered_outcome cfg sched t₁ k r₁ h₁, g_remembered_outcome cfg sched t₂ k r₂ h₂]

/-- **C12.7c** a finished task has looked up exactly the statically compiled keys, each with the
    supplier's outcome: the DYNAMIC choices coincide with the static reading, whatever the schedule -/
theorem g_results_final (cfg : ICfg) (sched : List Nat) (t : Nat)
    (hfin : gisFin (gexec cfg sched (ginit cfg)) t = true) :
    seenBy t (gexec cfg sched (ginit cfg)).log =
      (compS cfg 0 (cfg.prog t)).map (expected (compile cfg)) := by
  rw [sim_isFin cfg, g_simulation] at hfin
  rw [sim_log, results_final (compile cfg) sched t hfin, compile_prog]

theorem g_results_schedule_free (cfg : ICfg) (sched₁ sched₂ : List Nat) (t : Nat)
    (h₁ : gisFin (gexec cfg sched₁ (ginit cfg)) t = true)
    (h₂ : gisFin (gexec cfg sched₂ (ginit cfg)) t = true) :
    seenBy t (gexec cfg sched₁ (ginit cfg)).log = seenBy t (gexec cfg sched₂ (ginit cfg)).log := by
  rw [g_results_final cfg sched₁ t h₁, g_results_final cfg sched₂ t h₂]

/-- **C12.7d** progress and no lost wake-up -/
theorem g_no_lost_wakeup (cfg : ICfg) (sched : List Nat)
    (hnf : gallFin cfg (gexec cfg sched (ginit cfg)) = false) :
    ∃ t, t < cfg.ntasks ∧ ((gexec cfg sched (ginit cfg)).task t).woken = true ∧
      gisFin (gexec cfg sched (ginit cfg)) t = false ∧
      gmeasure cfg (gpoll cfg t (gexec cfg sched (ginit cfg))) <
        gmeasure cfg (gexec cfg sched (ginit cfg)) := by
  rw [sim_allFin, g_simulation] at hnf
  obtain ⟨t, ht, hw, hf, hm⟩ := no_lost_wakeup (compile cfg) sched hnf
  refine ⟨t, by simpa using ht, ?_, ?_, ?_⟩
  · rw [← g_simulation] at hw; simpa using hw
  · rw [sim_isFin cfg, g_simulation]; exact hf
  · unfold gmeasure
    rw [sim_gpoll cfg t (g_doneOk cfg sched), g_simulation]
    exact hm

theorem g_runnable_nonempty (cfg : ICfg) (sched : List Nat)
    (hnf : gallFin cfg (gexec cfg sched (ginit cfg)) = false) :
    grunnable cfg (gexec cfg sched (ginit cfg)) ≠ [] := by
  rw [sim_allFin, g_simulation] at hnf
  rw [sim_runnable, g_simulation]
  exact runnable_nonempty (compile cfg) sched hnf

/-- **C12.7e** the round-robin completion phase of the driver ends with every task finished, after
    any schedule; and so does any fair continuation -/
theorem g_round_robin_finishes (cfg : ICfg) (sched : List Nat) :
    gallFin cfg (gfinish cfg (gfuel cfg) (gexec cfg sched (ginit cfg))) = true := by
  rw [sim_allFin, (sim_gfinish cfg _ (g_doneOk cfg sched)).1, g_simulation]
  exact round_robin_finishes (compile cfg) sched

theorem gexec_append (cfg : ICfg) (a b : List Nat) (s : GState) :
    gexec cfg (a ++ b) s = gexec cfg b (gexec cfg a s) := by
  induction a generalizing s with
  | nil => rfl
  | cons t ts ih => simp only [List.cons_append, gexec]; exact ih _

theorem g_fair_schedule_finishes (cfg : ICfg) (sched : List Nat) (rounds : List (List Nat))
    (hfair : ∀ r ∈ rounds, ∀ t, t < cfg.ntasks → t ∈ r)
    (hlen : gmeasure cfg (gexec cfg sched (ginit cfg)) ≤ rounds.length) :
    gallFin cfg (gexec cfg (sched ++ rounds.flatten) (ginit cfg)) = true := by
  rw [sim_allFin, g_simulation]
  apply fair_schedule_finishes (compile cfg) sched rounds
  · intro r hr t ht; exact hfair r hr t (by simpa using ht)
  · unfold gmeasure at hlen; rw [g_simulation] at hlen; exact hlen

/-- **C12.7f** once every task has finished, every slot some compiled program mentions has been
    asked for EXACTLY once -/
theorem g_exactly_once_final (cfg : ICfg) (sched : List Nat)
    (hfin : gallFin cfg (gexec cfg sched (ginit cfg)) = true) (k : Nat)
    (hk : k ∈ allKeys (compile cfg)) :
    callCount k (gexec cfg sched (ginit cfg)).log = 1 := by
  rw [sim_allFin, g_simulation] at hfin
  rw [sim_log]
  obtain ⟨r, hr⟩ := all_done_of_allFin (invA_reach (compile cfg) sched) hfin hk
  have := (countInv_reach (compile cfg) sched k).1
  rw [this, hr]; rfl

/-- non-vacuity: two tasks walk key 0 through two providers (slots 0 and 1); provider 0 has no CFI
    (its item skips nothing), provider 1 has (`skipOk` irrelevant, it is the last); a third item
    (slot 2) follows. Task 1 is blocked on slot 0 while task 0 is inside the supplier; with
    provider 0 GOOD (second configuration) slot 1 is never asked for. -/
example :
    let cfg : ICfg := ⟨[[⟨0, 0⟩, ⟨1, 0⟩, ⟨2, 0⟩], [⟨0, 0⟩, ⟨1, 0⟩]], fun _ => ⟨1, .ok⟩⟩
    let s := gexec cfg [0, 1, 0, 1, 0, 1, 0, 1, 0, 0] (ginit cfg)
    gallFin cfg s = true ∧ callCount 0 s.log = 1 ∧ callCount 1 s.log = 1 ∧
      seenBy 1 s.log = [(0, .ok), (1, .ok)] := by decide

example :
    let cfg : ICfg := ⟨[[⟨0, 1⟩, ⟨1, 0⟩, ⟨2, 0⟩], [⟨0, 1⟩, ⟨1, 0⟩]], fun _ => ⟨1, .ok⟩⟩
    let s := gexec cfg [0, 1, 0, 1, 0, 1, 0, 1, 0, 0] (ginit cfg)
    gallFin cfg s = true ∧ callCount 0 s.log = 1 ∧ callCount 1 s.log = 0 ∧
      seenBy 1 s.log = [(0, .ok)] ∧ compS cfg 0 (cfg.prog 0) = [0, 2] := by decide

/-- the decision is dynamic: with a supplier that does NOT find the symbols the very same program
    goes on to slot 1 -/
example :
    let cfg : ICfg := ⟨[[⟨0, 1⟩, ⟨1, 0⟩, ⟨2, 0⟩], [⟨0, 1⟩, ⟨1, 0⟩]], fun k => ⟨1, if k = 0 then .notFound else .ok⟩⟩
    let s := gexec cfg [0, 1, 0, 1, 0, 1, 0, 1, 0, 0] (ginit cfg)
    gallFin cfg s = true ∧ seenBy 1 s.log = [(0, .notFound), (1, .ok)] ∧
      compS cfg 0 (cfg.prog 0) = [0, 1, 2] := by decide

end MdModel.Once
