/-
  C12 — A module's symbols are located once, however concurrent lookups interleave.

  Property text: "Whatever the interleaving of concurrent symbolication and unwinding requests on one
  symbolizer (absent cancellation), the symbol supplier is asked at most once per distinct module
  and every requester of that module observes the same outcome, including a remembered failure. No
  request is lost or deadlocks, and the pending counters end with requested = processed = number of
  distinct modules asked for."

  The theorems are about `MdModel.Once` (the model the compiled driver executes and the `once`
  engine compares, after every poll, with one real `Symbolizer` driven by the same schedule).
  They quantify over EVERY configuration (any number of tasks, programs of any length over any keys,
  any supplier table) and EVERY schedule `sched : List Nat` — any poll order, including spurious
  polls of tasks that cannot progress and polls of ids that are no task.
-/
import MdProofs.Lemmas.OnceReq
namespace MdModel.Once
open MdModel

/-! ## 1. "the symbol supplier is asked at most once per distinct module" -/

/-- **C12.1** in every reachable state the supplier call log holds at most one call per key. -/
theorem at_most_once (cfg : Cfg) (sched : List Nat) (k : Nat) :
    callCount k (exec cfg sched (init cfg)).log ≤ 1 :=
  (callInv_exec cfg sched (callInv_init cfg) k).1

/-- non-vacuity: a concrete contended run in which the call happens (count = 1, not 0):
    two tasks ask for key 7, the supplier suspends twice; task 1 is polled while task 0 holds
    the lock. -/
example :
    let cfg : Cfg := ⟨[[7], [7]], fun _ => ⟨2, .ok⟩⟩
    callCount 7 (exec cfg [0, 1, 1, 0, 1, 0, 1] (init cfg)).log = 1 := by decide

/-! ## 2. "every requester of that module observes the same outcome, including a remembered
      failure" -/

/-- **C12.2a** whatever a requester observes for key `k` is the outcome the supplier gave for `k`
    (`ok`, `notFound` or `parseError` alike — failures are remembered, not retried). -/
theorem remembered_outcome (cfg : Cfg) (sched : List Nat) (t k : Nat) (r : Res)
    (hm : Event.seen t k r ∈ (exec cfg sched (init cfg)).log) : r = cfg.outcome k := by
  obtain ⟨k', _, he⟩ := List.mem_map.mp (seen_mem_expected (invA_reach cfg sched) hm)
  simp only [expected, Prod.mk.injEq] at he
  rw [← he.2, he.1]

/-- **C12.2** agreement: any two observations of the same key, by any tasks at any time, are
    equal. -/
theorem agreement (cfg : Cfg) (sched : List Nat) (t₁ t₂ k : Nat) (r₁ r₂ : Res)
    (h₁ : Event.seen t₁ k r₁ ∈ (exec cfg sched (init cfg)).log)
    (h₂ : Event.seen t₂ k r₂ ∈ (exec cfg sched (init cfg)).log) : r₁ = r₂ := by
  rw [remembered_outcome cfg sched t₁ k r₁ h₁, remembered_outcome cfg sched t₂ k r₂ h₂]

/-- non-vacuity: two tasks observe the remembered `parseError` of key 3 (one of them was blocked
    on the lock while the other was inside the supplier call). -/
example :
    let cfg : Cfg := ⟨[[3], [3]], fun _ => ⟨1, .parseError⟩⟩
    let s := exec cfg [0, 1, 0, 1] (init cfg)
    Event.seen 0 3 .parseError ∈ s.log ∧ Event.seen 1 3 .parseError ∈ s.log := by decide

/-! ## 3. results are a function of the programs and the supplier table only (used by C13) -/

/-- **C12.6a** at every moment, what task `t` has seen is a prefix of
    `(prog t).map (k ↦ (k, outcome k))` — no schedule can change an answer or its position. -/
theorem results_prefix (cfg : Cfg) (sched : List Nat) (t : Nat) :
    seenBy t (exec cfg sched (init cfg)).log <+: (cfg.prog t).map (expected cfg) :=
  ⟨_, (invA_reach cfg sched).results t⟩

/-- **C12.6b** once task `t` has finished it has seen exactly that list: no request is lost. -/
theorem results_final (cfg : Cfg) (sched : List Nat) (t : Nat)
    (hfin : isFin (exec cfg sched (init cfg)) t = true) :
    seenBy t (exec cfg sched (init cfg)).log = (cfg.prog t).map (expected cfg) := by
  have h := (invA_reach cfg sched).results t
  simp only [isFin, beq_iff_eq] at hfin
  simpa [todo, hfin] using h

/-- **C12.6** `results_schedule_free`: two schedules that both let task `t` finish give it the
    same sequence of results. -/
theorem results_schedule_free (cfg : Cfg) (sched₁ sched₂ : List Nat) (t : Nat)
    (h₁ : isFin (exec cfg sched₁ (init cfg)) t = true)
    (h₂ : isFin (exec cfg sched₂ (init cfg)) t = true) :
    seenBy t (exec cfg sched₁ (init cfg)).log = seenBy t (exec cfg sched₂ (init cfg)).log := by
  rw [results_final cfg sched₁ t h₁, results_final cfg sched₂ t h₂]

/-- non-vacuity: two different schedules, same (non-empty) results for task 1. -/
example :
    let cfg : Cfg := ⟨[[0, 1], [1, 0]], fun k => if k = 0 then ⟨1, .ok⟩ else ⟨2, .notFound⟩⟩
    isFin (exec cfg [0, 1, 0, 1, 0, 1, 0, 1] (init cfg)) 1 = true ∧
    isFin (exec cfg [1, 1, 1, 1, 1, 0, 0] (init cfg)) 1 = true ∧
    seenBy 1 (exec cfg [1, 1, 1, 1, 1, 0, 0] (init cfg)).log = [(1, .notFound), (0, .ok)] := by
  decide

/-! ## 4. "the pending counters end with requested = processed = number of distinct modules" -/

/-- **C12.3a** `counters`, at every moment:
    `processed ≤ requested ≤ #distinct keys started ≤ #distinct keys of all programs`. -/
theorem counters (cfg : Cfg) (sched : List Nat) :
    let s := exec cfg sched (init cfg)
    s.processed ≤ s.requested ∧ s.requested ≤ (startedKeys cfg s).length ∧
      (startedKeys cfg s).length ≤ (allKeys cfg).length := by
  intro s
  have h : InvA cfg s := invA_reach cfg sched
  refine ⟨?_, ?_, List.length_filter_le _ _⟩
  · rw [h.proc_eq, h.req_eq]
    apply filter_length_mono
    intro k hk
    cases hs : s.slot k <;> simp_all [Slot.isDone, Slot.nonEmpty]
  · rw [h.req_eq]
    exact filter_length_mono _ _ _ (fun k hk => nonEmpty_started h k hk)

/-- **C12.3** once every task has finished: `requested = processed = number of distinct keys`. -/
theorem counters_final (cfg : Cfg) (sched : List Nat)
    (hfin : allFin cfg (exec cfg sched (init cfg)) = true) :
    (exec cfg sched (init cfg)).requested = (allKeys cfg).length ∧
    (exec cfg sched (init cfg)).processed = (allKeys cfg).length := by
  have h : InvA cfg (exec cfg sched (init cfg)) := invA_reach cfg sched
  have hdone : ∀ k ∈ allKeys cfg, ∃ r, (exec cfg sched (init cfg)).slot k = .done r := by
    intro k hk
    obtain ⟨t, ht, hkt⟩ := exists_task_of_key hk
    have hft : isFin (exec cfg sched (init cfg)) t = true := by
      simp only [allFin, List.all_eq_true, List.mem_range] at hfin
      exact hfin t ht
    have hres := results_final cfg sched t hft
    have hm : expected cfg k ∈ seenBy t (exec cfg sched (init cfg)).log := by
      rw [hres]; exact List.mem_map.mpr ⟨k, hkt, rfl⟩
    exact h.seen_done t k _ (mem_seenBy.mp hm)
  constructor
  · rw [h.req_eq, List.filter_eq_self.mpr]
    intro k hk
    obtain ⟨r, hr⟩ := hdone k hk
    simp [hr, Slot.nonEmpty]
  · rw [h.proc_eq, List.filter_eq_self.mpr]
    intro k hk
    obtain ⟨r, hr⟩ := hdone k hk
    simp [hr, Slot.isDone]

/-- non-vacuity: three tasks over two distinct keys finish with requested = processed = 2. -/
example :
    let cfg : Cfg := ⟨[[0, 1], [1], [0]], fun k => ⟨k + 1, .ok⟩⟩
    let s := exec cfg [0, 1, 2, 0, 1, 2, 0, 1, 2, 0, 1, 2] (init cfg)
    allFin cfg s = true ∧ s.requested = 2 ∧ s.processed = 2 ∧ (allKeys cfg).length = 2 := by
  decide

/-! ## 5. "No request is lost or deadlocks" -/

/-- **C12.4** `progress` (no deadlock): in every reachable state in which some task is unfinished,
    there is a task whose poll strictly decreases the measure
    `Σ_tasks (remaining lookups weighted by the supplier's suspensions)`. -/
theorem progress (cfg : Cfg) (sched : List Nat)
    (hnf : allFin cfg (exec cfg sched (init cfg)) = false) :
    ∃ t, t < cfg.ntasks ∧
      measure cfg (poll cfg t (exec cfg sched (init cfg))) < measure cfg (exec cfg sched (init cfg)) := by
  obtain ⟨t, ht, hf, hnb⟩ := exists_unblocked (invA_reach cfg sched) hnf
  exact ⟨t, ht, measure_poll_lt cfg t _ ht hf hnb⟩

/-- **C12.4b** no poll — spurious or not — ever increases the measure (so spurious polls can delay
    completion but never undo progress). -/
theorem poll_never_regresses (cfg : Cfg) (t : Nat) (s : State) :
    measure cfg (poll cfg t s) ≤ measure cfg s := measure_poll_le cfg t s

/-- **C12.4c** every fair schedule finishes: after ANY schedule `sched`, any continuation made of
    at least `measure` rounds, each of which polls every task at least once (in any order, with
    any repetitions and spurious polls in between), ends with every task finished. -/
theorem fair_schedule_finishes (cfg : Cfg) (sched : List Nat) (rounds : List (List Nat))
    (hfair : ∀ r ∈ rounds, ∀ t, t < cfg.ntasks → t ∈ r)
    (hlen : measure cfg (exec cfg sched (init cfg)) ≤ rounds.length) :
    allFin cfg (exec cfg (sched ++ rounds.flatten) (init cfg)) = true := by
  rw [exec_append]
  exact rounds_finish rounds hfair (invA_reach cfg sched) hlen

/-- the completion phase of the model driver (plain round-robin, `measure (init cfg) + 1` rounds,
    started after any schedule) ends with every task finished — so the `final …` summary the tie
    compares is always taken in a final state. -/
theorem round_robin_finishes (cfg : Cfg) (sched : List Nat) :
    allFin cfg (finish cfg (measure cfg (init cfg) + 1) (exec cfg sched (init cfg))) = true :=
  finish_allFin _ (invA_reach cfg sched)
    (Nat.le_succ_of_le (measure_exec_le cfg sched (init cfg)))

/-- **C12.5b** the completion phase of a WAKER-RESPECTING executor (rounds that poll only the tasks
    whose waker fired, `measure (init cfg) + 1` of them, started after any schedule) ends with every
    task finished: `join_all`, tokio or any executor that polls only woken tasks completes. -/
theorem waker_rounds_finish (cfg : Cfg) (sched : List Nat) :
    allFin cfg (finishW cfg (measure cfg (init cfg) + 1) (exec cfg sched (init cfg))) = true :=
  finishW_allFin _ (invA_reach cfg sched) (invW_reach cfg sched)
    (Nat.le_succ_of_le (measure_exec_le cfg sched (init cfg)))

/-- the number of rounds needed is bounded by the initial measure, a function of the
    configuration only: `Σ_tasks (1 + Σ_lookups (suspensions + 3))`. -/
theorem measure_bounded (cfg : Cfg) (sched : List Nat) :
    measure cfg (exec cfg sched (init cfg)) ≤ measure cfg (init cfg) :=
  measure_exec_le cfg sched _

/-- non-vacuity of `progress` and `fair_schedule_finishes`: a contended unfinished state, and
    fair rounds (with spurious polls) finishing it. -/
example :
    let cfg : Cfg := ⟨[[0, 1], [1, 0]], fun _ => ⟨1, .ok⟩⟩
    allFin cfg (exec cfg [0, 1, 1, 0] (init cfg)) = false ∧
    measure cfg (exec cfg [0, 1, 1, 0] (init cfg)) ≤ 6 ∧
    allFin cfg (exec cfg ([0, 1, 1, 0] ++ [[1, 1, 0], [0, 1], [1, 0, 0], [0, 1], [0, 1], [1, 0]].flatten)
      (init cfg)) = true := by decide

/-! ## 6. no lost wake-up: executors that only poll woken tasks cannot stall

  The model carries, per task, the flag "my waker has fired since my last poll", set exactly as
  `futures_util::lock::Mutex` does (unlock wakes the first slab entry if it is still `Waiting`; a
  failed poll re-registers) and as a suspending supplier does (it wakes its own task). -/

/-- **C12.5** `no_lost_wakeup`: in every reachable state in which some task is unfinished there is
    a task that is WOKEN, unfinished, and whose poll strictly decreases the measure. Hence
    `join_all`, tokio, or any executor that polls only woken tasks always has a task to poll,
    and polling it makes progress. -/
theorem no_lost_wakeup (cfg : Cfg) (sched : List Nat)
    (hnf : allFin cfg (exec cfg sched (init cfg)) = false) :
    ∃ t, t < cfg.ntasks ∧ ((exec cfg sched (init cfg)).task t).woken = true ∧
      isFin (exec cfg sched (init cfg)) t = false ∧
      measure cfg (poll cfg t (exec cfg sched (init cfg))) < measure cfg (exec cfg sched (init cfg)) := by
  obtain ⟨t, ht, hw, hf, hnb⟩ :=
    exists_woken_unblocked (invA_reach cfg sched) (invW_reach cfg sched) hnf
  exact ⟨t, ht, hw, by simp [isFin, hf], measure_poll_lt cfg t _ ht hf hnb⟩

/-- the set a waker-respecting executor chooses from is never empty before the end -/
theorem runnable_nonempty (cfg : Cfg) (sched : List Nat)
    (hnf : allFin cfg (exec cfg sched (init cfg)) = false) :
    runnable cfg (exec cfg sched (init cfg)) ≠ [] := by
  obtain ⟨t, ht, hw, hf, _⟩ := no_lost_wakeup cfg sched hnf
  intro he
  have : t ∈ runnable cfg (exec cfg sched (init cfg)) := by
    simp only [runnable, List.mem_filter, List.mem_range, Bool.and_eq_true, Bool.not_eq_true']
    exact ⟨ht, hw, hf⟩
  rw [he] at this; cases this

/-- non-vacuity: three tasks contend for one key; after the holder finished, the first waiter
    (task 1) is the woken one, task 2 is not — and the chain of wake-ups continues when 1 runs. -/
example :
    let cfg : Cfg := ⟨[[5], [5], [5]], fun _ => ⟨1, .notFound⟩⟩
    let s := exec cfg [0, 1, 2, 0] (init cfg)
    allFin cfg s = false ∧ runnable cfg s = [1] ∧ runnable cfg (poll cfg 1 s) = [2] := by decide

/-! ## 7. Programs whose continuation depends on what a lookup observed (`MdModel.OnceG`)

  `MultiSymbolProvider::walk_frame` decides from the answer it has just received whether it
  consults the next provider. `MdModel.OnceG` is the machine of sections 1–6 over such programs:
  an item names a cache slot and how many following items are dropped when the observed result
  is `ok`. The decision is taken from the OBSERVED value. `g_simulation`: for every schedule it is
  in lock step with the machine of sections 1–6 on the statically compiled programs — so
  everything proved above holds for it. -/

/-- **C12.7** simulation, for every configuration and every schedule -/
theorem g_simulation (cfg : ICfg) (sched : List Nat) :
    absS cfg (gexec cfg sched (ginit cfg)) = exec (compile cfg) sched (init (compile cfg)) :=
  sim_exec cfg sched

theorem g_doneOk (cfg : ICfg) (sched : List Nat) : DoneOk cfg (gexec cfg sched (ginit cfg)) :=
  doneOk_gexec sched (doneOk_ginit cfg)

/-- the measure of the dynamic machine: that of the compiled configuration -/
def gmeasure (cfg : ICfg) (s : GState) : Nat := measure (compile cfg) (absS cfg s)

/-- **C12.7a** at most one supplier call per slot -/
theorem g_at_most_once (cfg : ICfg) (sched : List Nat) (k : Nat) :
    callCount k (gexec cfg sched (ginit cfg)).log ≤ 1 := by
  rw [sim_log]; exact at_most_once (compile cfg) sched k

/-- **C12.7b** what a requester observes is the supplier's outcome for that slot; hence agreement -/
theorem g_remembered_outcome (cfg : ICfg) (sched : List Nat) (t k : Nat) (r : Res)
    (hm : Event.seen t k r ∈ (gexec cfg sched (ginit cfg)).log) : r = cfg.outcome k := by
  rw [sim_log] at hm; exact remembered_outcome (compile cfg) sched t k r hm

theorem g_agreement (cfg : ICfg) (sched : List Nat) (t₁ t₂ k : Nat) (r₁ r₂ : Res)
    (h₁ : Event.seen t₁ k r₁ ∈ (gexec cfg sched (ginit cfg)).log)
    (h₂ : Event.seen t₂ k r₂ ∈ (gexec cfg sched (ginit cfg)).log) : r₁ = r₂ := by
  rw [g_remembered_outcome cfg sched t₁ k r₁ h₁, g_remembered_outcome cfg sched t₂ k r₂ h₂]

/-- **C12.7c** a finished task has looked up exactly the statically compiled keys, each with the
    supplier's outcome: the DYNAMIC choices coincide with the static reading, whatever the schedule -/
theorem g_results_final (cfg : ICfg) (sched : List Nat) (t : Nat)
    (hfin : gisFin (gexec cfg sched (ginit cfg)) t = true) :
    seenBy t (gexec cfg sched (ginit cfg)).log =
      (compS cfg 0 (cfg.prog t)).map (expected (compile cfg)) := by
  rw [sim_isFin cfg, g_simulation] at hfin
  rw [sim_log, results_final (compile cfg) sched t hfin, compile_prog]

theorem g_results_schedule_free (cfg : ICfg) (sched₁ sched₂ : List Nat) (t : Nat)
    (h₁ : gisFin (gexec cfg sched₁ (ginit cfg)) t = true)
    (h₂ : gisFin (gexec cfg sched₂ (ginit cfg)) t = true) :
    seenBy t (gexec cfg sched₁ (ginit cfg)).log = seenBy t (gexec cfg sched₂ (ginit cfg)).log := by
  rw [g_results_final cfg sched₁ t h₁, g_results_final cfg sched₂ t h₂]

/-- **C12.7d** progress and no lost wake-up -/
theorem g_no_lost_wakeup (cfg : ICfg) (sched : List Nat)
    (hnf : gallFin cfg (gexec cfg sched (ginit cfg)) = false) :
    ∃ t, t < cfg.ntasks ∧ ((gexec cfg sched (ginit cfg)).task t).woken = true ∧
      gisFin (gexec cfg sched (ginit cfg)) t = false ∧
      gmeasure cfg (gpoll cfg t (gexec cfg sched (ginit cfg))) <
        gmeasure cfg (gexec cfg sched (ginit cfg)) := by
  rw [sim_allFin, g_simulation] at hnf
  obtain ⟨t, ht, hw, hf, hm⟩ := no_lost_wakeup (compile cfg) sched hnf
  refine ⟨t, by simpa using ht, ?_, ?_, ?_⟩
  · rw [← g_simulation] at hw; simpa using hw
  · rw [sim_isFin cfg, g_simulation]; exact hf
  · unfold gmeasure
    rw [sim_gpoll cfg t (g_doneOk cfg sched), g_simulation]
    exact hm

theorem g_runnable_nonempty (cfg : ICfg) (sched : List Nat)
    (hnf : gallFin cfg (gexec cfg sched (ginit cfg)) = false) :
    grunnable cfg (gexec cfg sched (ginit cfg)) ≠ [] := by
  rw [sim_allFin, g_simulation] at hnf
  rw [sim_runnable, g_simulation]
  exact runnable_nonempty (compile cfg) sched hnf

/-- **C12.7e** the round-robin completion phase of the driver ends with every task finished, after
    any schedule; and so does any fair continuation -/
theorem g_round_robin_finishes (cfg : ICfg) (sched : List Nat) :
    gallFin cfg (gfinish cfg (gfuel cfg) (gexec cfg sched (ginit cfg))) = true := by
  rw [sim_allFin, (sim_gfinish cfg _ (g_doneOk cfg sched)).1, g_simulation]
  exact round_robin_finishes (compile cfg) sched

/-- the same for the completion phase of a waker-respecting executor -/
theorem g_waker_rounds_finish (cfg : ICfg) (sched : List Nat) :
    gallFin cfg (gfinishW cfg (gfuel cfg) (gexec cfg sched (ginit cfg))) = true := by
  rw [sim_allFin, sim_gfinishW cfg _ (g_doneOk cfg sched), g_simulation]
  exact waker_rounds_finish (compile cfg) sched

theorem gexec_append (cfg : ICfg) (a b : List Nat) (s : GState) :
    gexec cfg (a ++ b) s = gexec cfg b (gexec cfg a s) := by
  induction a generalizing s with
  | nil => rfl
  | cons t ts ih => simp only [List.cons_append, gexec]; exact ih _

theorem g_fair_schedule_finishes (cfg : ICfg) (sched : List Nat) (rounds : List (List Nat))
    (hfair : ∀ r ∈ rounds, ∀ t, t < cfg.ntasks → t ∈ r)
    (hlen : gmeasure cfg (gexec cfg sched (ginit cfg)) ≤ rounds.length) :
    gallFin cfg (gexec cfg (sched ++ rounds.flatten) (ginit cfg)) = true := by
  rw [sim_allFin, g_simulation]
  apply fair_schedule_finishes (compile cfg) sched rounds
  · intro r hr t ht; exact hfair r hr t (by simpa using ht)
  · unfold gmeasure at hlen; rw [g_simulation] at hlen; exact hlen

/-- **C12.7f** once every task has finished, every slot some compiled program mentions has been
    asked for EXACTLY once -/
theorem g_exactly_once_final (cfg : ICfg) (sched : List Nat)
    (hfin : gallFin cfg (gexec cfg sched (ginit cfg)) = true) (k : Nat)
    (hk : k ∈ allKeys (compile cfg)) :
    callCount k (gexec cfg sched (ginit cfg)).log = 1 := by
  rw [sim_allFin, g_simulation] at hfin
  rw [sim_log]
  obtain ⟨r, hr⟩ := all_done_of_allFin (invA_reach (compile cfg) sched) hfin hk
  have := (countInv_reach (compile cfg) sched k).1
  rw [this, hr]; rfl

/-- non-vacuity: two tasks walk key 0 through two providers (slots 0 and 1); provider 0 has no CFI
    (its item skips nothing), provider 1 has (`skipOk` irrelevant, it is the last); a third item
    (slot 2) follows. Task 1 is blocked on slot 0 while task 0 is inside the supplier; with
    provider 0 GOOD (second configuration) slot 1 is never asked for. -/
example :
    let cfg : ICfg := ⟨[[⟨0, 0⟩, ⟨1, 0⟩, ⟨2, 0⟩], [⟨0, 0⟩, ⟨1, 0⟩]], fun _ => ⟨1, .ok⟩⟩
    let s := gexec cfg [0, 1, 0, 1, 0, 1, 0, 1, 0, 0] (ginit cfg)
    gallFin cfg s = true ∧ callCount 0 s.log = 1 ∧ callCount 1 s.log = 1 ∧
      seenBy 1 s.log = [(0, .ok), (1, .ok)] := by decide

example :
    let cfg : ICfg := ⟨[[⟨0, 1⟩, ⟨1, 0⟩, ⟨2, 0⟩], [⟨0, 1⟩, ⟨1, 0⟩]], fun _ => ⟨1, .ok⟩⟩
    let s := gexec cfg [0, 1, 0, 1, 0, 1, 0, 1, 0, 0] (ginit cfg)
    gallFin cfg s = true ∧ callCount 0 s.log = 1 ∧ callCount 1 s.log = 0 ∧
      seenBy 1 s.log = [(0, .ok)] ∧ compS cfg 0 (cfg.prog 0) = [0, 2] := by decide

/-- the decision is dynamic: with a supplier that does NOT find the symbols the very same program
    goes on to slot 1 -/
example :
    let cfg : ICfg := ⟨[[⟨0, 1⟩, ⟨1, 0⟩, ⟨2, 0⟩], [⟨0, 1⟩, ⟨1, 0⟩]], fun k => ⟨1, if k = 0 then .notFound else .ok⟩⟩
    let s := gexec cfg [0, 1, 0, 1, 0, 1, 0, 1, 0, 0] (ginit cfg)
    gallFin cfg s = true ∧ seenBy 1 s.log = [(0, .notFound), (1, .ok)] ∧
      compS cfg 0 (cfg.prog 0) = [0, 1, 2] := by decide

/-! ## 8. The requests of the symbolizer API (`MdModel.OnceReq`)

  Module identity → `module_key` → cache slot; `fill_symbol` / `walk_frame` go through the `symbols`
  slot of the key, `get_file_path` straight to the supplier (a slot of its own file cache if it has
  one, a plain call otherwise); several providers behind a `MultiSymbolProvider`. -/

/-! ### 8.1 "per distinct module": what `module_key` distinguishes -/

/-- **C12.8a** `same_key_iff`: two modules have the same key iff their code file STRINGS, code ids,
    debug files and debug ids all agree — all four components take part. -/
theorem same_key_iff (m₁ m₂ : ModId) :
    moduleKey m₁ = moduleKey m₂ ↔
      m₁.codeFile.str = m₂.codeFile.str ∧ m₁.codeId = m₂.codeId ∧
      m₁.debugFile = m₂.debugFile ∧ m₁.debugId = m₂.debugId :=
  moduleKey_eq_iff m₁ m₂

/-- the code file takes part as the string `Module::code_file()` returns: "no code file" and "empty
    code file" are the same, every other difference is a difference -/
theorem code_file_same_iff (a b : CodeFile) :
    a.str = b.str ↔ a = b ∨ ((a = .absent ∨ a = .empty) ∧ (b = .absent ∨ b = .empty)) :=
  codeStr_eq_iff a b

/-- a difference in any ONE component makes two different modules (non-vacuity of `same_key_iff`
    in each component, incl. `None` against `Some`) -/
example :
    let m : ModId := ⟨.path 0 0, some 0, some 0, some 0⟩
    moduleKey m ≠ moduleKey { m with codeFile := .path 1 0 } ∧
    moduleKey m ≠ moduleKey { m with codeFile := .empty } ∧
    moduleKey m ≠ moduleKey { m with codeId := some 1 } ∧
    moduleKey m ≠ moduleKey { m with codeId := none } ∧
    moduleKey m ≠ moduleKey { m with debugFile := some 1 } ∧
    moduleKey m ≠ moduleKey { m with debugFile := none } ∧
    moduleKey m ≠ moduleKey { m with debugId := some 1 } ∧
    moduleKey m ≠ moduleKey { m with debugId := none } ∧
    moduleKey { m with codeFile := .absent } = moduleKey { m with codeFile := .empty } := by
  intro m; simp [m, moduleKey, CodeFile.str]

/-- **C12.8b** two requests use the same `symbols` slots iff their modules have the same key: the
    table name of a key (`RCfg.key`) is equal exactly for equal keys, and slots of different
    (provider, key) never coincide, nor do slots of different kinds -/
theorem same_module_same_slot (rc : RCfg) {i j : Nat} (hi : i < rc.M) (hj : j < rc.M) (p : Nat) :
    symSlot rc p (rc.key i) = symSlot rc p (rc.key j) ↔
      moduleKey rc.mods[i] = moduleKey rc.mods[j] := by
  rw [← keyIx_eq_iff hi hj]
  constructor
  · intro h; exact (symSlot_inj (keyIx_lt hi) (keyIx_lt hj) h).2
  · intro h; unfold RCfg.key; rw [h]

theorem slots_distinct (rc : RCfg) :
    (∀ p k p' k', k < rc.M → k' < rc.M → symSlot rc p k = symSlot rc p' k' → p = p' ∧ k = k') ∧
    (∀ p k fk p' k' fk', k < rc.M → k' < rc.M → fk < 3 → fk' < 3 →
      fileSlot rc p k fk = fileSlot rc p' k' fk' → p = p' ∧ k = k' ∧ fk = fk') ∧
    (∀ t j p t' j' p', t < rc.T → t' < rc.T → p < rc.P → p' < rc.P →
      privSlot rc t j p = privSlot rc t' j' p' → t = t' ∧ j = j' ∧ p = p') ∧
    (∀ p k p' k' fk, symSlot rc p k ≠ fileSlot rc p' k' fk) ∧
    (∀ p k t j p', symSlot rc p k ≠ privSlot rc t j p') ∧
    (∀ p k fk t j p', fileSlot rc p k fk ≠ privSlot rc t j p') :=
  ⟨fun _ _ _ _ hk hk' h => symSlot_inj hk hk' h,
   fun _ _ _ _ _ _ hk hk' hf hf' h => fileSlot_inj hk hk' hf hf' h,
   fun _ _ _ _ _ _ ht ht' hp hp' h => privSlot_inj ht ht' hp hp' h,
   fun p k p' k' fk => sym_ne_file rc p k p' k' fk,
   fun p k t j p' => sym_ne_priv rc p k t j p',
   fun p k fk t j p' => file_ne_priv rc p k fk t j p'⟩

/-! ### 8.2 "the supplier is asked at most once per distinct module" — per request kind -/

/-- **C12.8c** `locate_symbols`: at most once per (provider, module key), for every mix of
    `fill_symbol` / `walk_frame` / `get_file_path` requests and every schedule -/
theorem locate_symbols_at_most_once (rc : RCfg) (sched : List Nat) (p k : Nat) :
    callCount (symSlot rc p k) (rexec rc sched).log ≤ 1 :=
  g_at_most_once (toICfg rc) sched _

/-- **C12.8d** `locate_file` of a supplier WITH its own cache (`HttpSymbolSupplier`): at most one
    request sequence per (module key, file kind) -/
theorem locate_file_cached_at_most_once (rc : RCfg) (sched : List Nat) (p k fk : Nat) :
    callCount (fileSlot rc p k fk) (rexec rc sched).log ≤ 1 :=
  g_at_most_once (toICfg rc) sched _

/-- `HttpSymbolSupplier`'s `FileKey = (ModuleKey, FileKind)`: two lookups share a slot iff they are
    for the same module key AND the same kind -/
theorem file_key_iff (rc : RCfg) {i j fk fk' : Nat} (hi : i < rc.M) (hj : j < rc.M) (hf : fk < 3)
    (hf' : fk' < 3) (p : Nat) :
    fileSlot rc p (rc.key i) fk = fileSlot rc p (rc.key j) fk' ↔
      moduleKey rc.mods[i] = moduleKey rc.mods[j] ∧ fk = fk' := by
  rw [← keyIx_eq_iff hi hj]
  constructor
  · intro h
    have := fileSlot_inj (keyIx_lt hi) (keyIx_lt hj) hf hf' h
    exact ⟨this.2.1, this.2.2⟩
  · rintro ⟨h1, h2⟩; unfold RCfg.key; rw [h1, h2]

theorem rexec_allFin (rc : RCfg) (sched : List Nat) :
    gallFin (toICfg rc) (rexec rc sched) =
      allFin (compile (toICfg rc)) (exec (compile (toICfg rc)) sched (init (compile (toICfg rc)))) := by
  rw [sim_allFin, rexec_abs]

theorem priv_mem_allKeys {rc : RCfg} (hwf : rc.WF) {t j p fk m : Nat} (ht : t < rc.T) (hp : p < rc.P)
    (hq : (rc.prog t)[j]? = some ⟨.file fk, m⟩) (hc : (rc.prov p).cached = false) :
    privSlot rc t j p ∈ allKeys (compile (toICfg rc)) := by
  apply mem_allKeys_of_prog (t := t)
  rw [compile_prog, toICfg_prog rc ht, compS_expandFrom hwf ht 0 (rc.prog t) (by intro i _; simp)]
  rw [List.mem_flatMap]
  refine ⟨(⟨.file fk, m⟩, j), List.mem_zipIdx_iff_getElem?.mpr hq, ?_⟩
  rw [List.mem_map]
  refine ⟨p, by simp [specConsulted, hp], ?_⟩
  simp [reqItem, hc]

/-- **C12.8e** `locate_file` of a supplier WITHOUT a cache: `Symbolizer::get_file_path` does not
    cache — every `get_file_path` request performs its own supplier call, exactly one per
    provider, shared with nobody (the slot is private: `slots_distinct`) -/
theorem locate_file_uncached_once_per_request {rc : RCfg} (hwf : rc.WF) (sched : List Nat)
    (hfin : gallFin (toICfg rc) (rexec rc sched) = true)
    {t j p fk m : Nat} (ht : t < rc.T) (hp : p < rc.P)
    (hq : (rc.prog t)[j]? = some ⟨.file fk, m⟩) (hc : (rc.prov p).cached = false) :
    callCount (privSlot rc t j p) (rexec rc sched).log = 1 :=
  g_exactly_once_final (toICfg rc) sched hfin _ (priv_mem_allKeys hwf ht hp hq hc)

/-- **C12.8e'** the private slot of a `get_file_path` request is never contended: no task is ever
    suspended on its lock, in any schedule — the modelled lookup is a plain call of
    `supplier.locate_file`, exactly what `Symbolizer::get_file_path` does -/
theorem uncached_call_is_plain (rc : RCfg) (sched : List Nat) {t j p : Nat} (ht : t < rc.T)
    (hp : p < rc.P) (u : Nat) (i : Item) (hw : ((rexec rc sched).task u).ctl = .waiting i) :
    i.slot ≠ privSlot rc t j p := by
  intro he
  have h := private_slot_never_waited (rc := rc) sched (j := j) ht hp u
  rw [← rexec_abs] at h
  apply h
  simp only [absS_task, absT, hw, he]

/-- non-vacuity, and the contrast between the two: two tasks ask for the same file of the same
    module. A supplier without a cache is called twice (two private slots), one with a cache once. -/
example :
    let prov (c : Bool) : Prov := ⟨fun _ => ⟨0, .notFound⟩, fun _ => false, fun _ _ => ⟨1, .ok⟩, c⟩
    let rc (c : Bool) : RCfg := ⟨[⟨.path 0 0, some 0, some 0, some 0⟩], [prov c], [[⟨.file 1, 0⟩], [⟨.file 1, 0⟩]]⟩
    let s (c : Bool) := rexec (rc c) [0, 1, 0, 1, 0, 1]
    gallFin (toICfg (rc false)) (s false) = true ∧ gallFin (toICfg (rc true)) (s true) = true ∧
    callCount (privSlot (rc false) 0 0 0) (s false).log = 1 ∧
    callCount (privSlot (rc false) 1 0 0) (s false).log = 1 ∧
    callCount (fileSlot (rc true) 0 0 1) (s true).log = 1 ∧
    (s false).log.length = 6 ∧ (s true).log.length = 4 := by decide

/-! ### 8.3 "every requester observes the same outcome, including a remembered failure" -/

/-- **C12.8f** whatever a request observes at provider `p` for a module is the outcome that
    provider's supplier gave for the module's key (symbols), resp. for (key, kind) (cached files) -/
theorem requester_observes_supplier_outcome (rc : RCfg) (sched : List Nat) (t p k : Nat) (r : Res)
    (hk : k < rc.M) (hm : Event.seen t (symSlot rc p k) r ∈ (rexec rc sched).log) :
    r = ((rc.prov p).sym k).res := by
  have := g_remembered_outcome (toICfg rc) sched t _ r hm
  rw [this, toICfg_outcome, slotSup_sym rc hk]

theorem requester_observes_file_outcome (rc : RCfg) (sched : List Nat) (t p k fk : Nat) (r : Res)
    (hk : k < rc.M) (hf : fk < 3) (hm : Event.seen t (fileSlot rc p k fk) r ∈ (rexec rc sched).log) :
    r = ((rc.prov p).file k fk).res := by
  have := g_remembered_outcome (toICfg rc) sched t _ r hm
  rw [this, toICfg_outcome, slotSup_file rc hk hf]

/-! ### 8.4 several providers: consulted in order, first success wins, whatever the schedule -/

theorem rexec_seen_final {rc : RCfg} (sched : List Nat) {t : Nat} (ht : t < rc.T)
    (hfin : gisFin (rexec rc sched) t = true) :
    seenBy t (rexec rc sched).log =
      (compS (toICfg rc) 0 (expandFrom rc t 0 (rc.prog t))).map (expected (compile (toICfg rc))) := by
  have := g_results_final (toICfg rc) sched t hfin
  rw [toICfg_prog rc ht] at this
  exact this

/-- **C12.8g** the answers a finished task got for its requests are those the providers' supplier
    tables determine (`specOut`): `walk_frame` — the first provider, in the order they were added,
    whose supplier finds symbols with usable CFI; `get_file_path` — the first whose supplier finds
    the file; `fill_symbol` — `Ok` iff some provider finds symbols (the frame keeps the LAST such
    provider's data, as the code's loop leaves it). Independent of the interleaving. -/
theorem outcomes_final {rc : RCfg} (hwf : rc.WF) (sched : List Nat) {t : Nat} (ht : t < rc.T)
    (hfin : gisFin (rexec rc sched) t = true) :
    outcomes rc t (rexec rc sched).log = (rc.prog t).map (specOut rc) := by
  unfold outcomes
  rw [rexec_seen_final sched ht hfin]
  exact outcomesFrom_static hwf ht 0 (rc.prog t) (by intro i _; simp)

theorem outcomes_schedule_free {rc : RCfg} (hwf : rc.WF) (sched₁ sched₂ : List Nat) {t : Nat}
    (ht : t < rc.T) (h₁ : gisFin (rexec rc sched₁) t = true) (h₂ : gisFin (rexec rc sched₂) t = true) :
    outcomes rc t (rexec rc sched₁).log = outcomes rc t (rexec rc sched₂).log := by
  rw [outcomes_final hwf sched₁ ht h₁, outcomes_final hwf sched₂ ht h₂]

/-- **C12.8h** the cache slots a finished task has looked up, in order: request by request, the
    providers `specConsulted` names, in provider order — every provider for `fill_symbol` and
    `get_file_path`; for `walk_frame` the providers up to AND INCLUDING the first that succeeds,
    no later one. -/
theorem consulted_in_provider_order {rc : RCfg} (hwf : rc.WF) (sched : List Nat) {t : Nat}
    (ht : t < rc.T) (hfin : gisFin (rexec rc sched) t = true) :
    (seenBy t (rexec rc sched).log).map Prod.fst =
      ((rc.prog t).zipIdx 0).flatMap fun x =>
        (specConsulted rc x.1).map fun p => (reqItem rc t x.2 x.1 p).slot := by
  rw [rexec_seen_final sched ht hfin, List.map_map]
  have : (Prod.fst ∘ expected (compile (toICfg rc))) = id := by funext k; rfl
  rw [this, List.map_id]
  exact compS_expandFrom hwf ht 0 (rc.prog t) (by intro i _; simp)

/-- what `specConsulted` says for a walk, spelled out -/
theorem walk_consults_up_to_first_success (rc : RCfg) (m : Nat) :
    specConsulted rc ⟨.walk, m⟩ =
      match (List.range rc.P).find? fun p =>
          ((rc.prov p).sym (rc.key m)).res == .ok && (rc.prov p).cfi (rc.key m) with
      | some p => List.range (p + 1)
      | none => List.range rc.P := rfl

/-- non-vacuity: two providers; provider 0 finds symbols WITHOUT CFI for module 0 and nothing for
    module 1, provider 1 finds symbols with CFI for both. Whatever the interleaving: the walk of
    module 0 is answered by provider 1, fill_symbol is `Ok` with provider 1's data, the file
    comes from provider 0; each supplier is asked once per module although two tasks ask. -/
example :
    let p0 : Prov := ⟨fun k => ⟨1, if k = 0 then .ok else .notFound⟩, fun _ => false, fun _ _ => ⟨0, .ok⟩, false⟩
    let p1 : Prov := ⟨fun _ => ⟨2, .ok⟩, fun _ => true, fun _ _ => ⟨1, .ok⟩, false⟩
    let rc : RCfg := ⟨[⟨.path 0 0, some 0, some 0, some 0⟩, ⟨.path 0 1, some 1, some 1, some 1⟩], [p0, p1],
      [[⟨.walk, 0⟩, ⟨.fill, 1⟩], [⟨.fill, 0⟩, ⟨.file 1, 1⟩, ⟨.walk, 1⟩]]⟩
    let s₁ := rexec rc [0, 1, 0, 1, 0, 1, 0, 1, 0, 1, 0, 1, 0, 1, 0, 1, 0, 1]
    let s₂ := rexec rc [1, 1, 1, 1, 1, 1, 1, 1, 1, 1, 1, 1, 0, 0, 0, 0, 0, 0, 0, 0]
    gallFin (toICfg rc) s₁ = true ∧ gallFin (toICfg rc) s₂ = true ∧
    outcomes rc 0 s₁.log = [.walkOk 1, .fillOk 1] ∧ outcomes rc 0 s₂.log = [.walkOk 1, .fillOk 1] ∧
    outcomes rc 1 s₁.log = [.fillOk 1, .fileOk 0, .walkOk 1] ∧
    callCount (symSlot rc 0 0) s₁.log = 1 ∧ callCount (symSlot rc 1 0) s₁.log = 1 ∧
    callCount (symSlot rc 0 1) s₂.log = 1 ∧ callCount (symSlot rc 1 1) s₂.log = 1 := by decide

/-- …and with CFI at provider 0 the walk stops there: provider 1's supplier is never asked -/
example :
    let p0 : Prov := ⟨fun _ => ⟨1, .ok⟩, fun _ => true, fun _ _ => ⟨0, .ok⟩, false⟩
    let p1 : Prov := ⟨fun _ => ⟨2, .ok⟩, fun _ => true, fun _ _ => ⟨1, .ok⟩, false⟩
    let rc : RCfg := ⟨[⟨.path 0 0, some 0, some 0, some 0⟩], [p0, p1], [[⟨.walk, 0⟩], [⟨.walk, 0⟩]]⟩
    let s := rexec rc [0, 1, 0, 1, 0, 1]
    gallFin (toICfg rc) s = true ∧ outcomes rc 0 s.log = [.walkOk 0] ∧ outcomes rc 1 s.log = [.walkOk 0] ∧
    callCount (symSlot rc 0 0) s.log = 1 ∧ callCount (symSlot rc 1 0) s.log = 0 := by decide

/-! ### 8.5 "the pending counters end with requested = processed = number of distinct modules asked for" -/

/-- the `symbols` slots of provider `p` that the (compiled) programs mention: one per distinct
    module key that some `fill_symbol` / `walk_frame` request brings to provider `p` -/
def symKeys (rc : RCfg) (p : Nat) : List Nat :=
  (allKeys (compile (toICfg rc))).filter (isSym rc p)

theorem reqCount_eq_callsOf (rc : RCfg) (p : Nat) (log : List Event) :
    reqCount rc p log = callsOf (isSym rc p) log := rfl
theorem procCount_eq_retsOf (rc : RCfg) (p : Nat) (log : List Event) :
    procCount rc p log = retsOf (isSym rc p) log := rfl

/-- **C12.8i** every provider's counters, at every moment: `processed ≤ requested ≤` number of
    distinct module keys brought to it. `get_file_path` requests never count. -/
theorem provider_counters (rc : RCfg) (sched : List Nat) (p : Nat) :
    procCount rc p (rexec rc sched).log ≤ reqCount rc p (rexec rc sched).log ∧
    reqCount rc p (rexec rc sched).log ≤ (symKeys rc p).length := by
  have hA := invA_reach (compile (toICfg rc)) sched
  have hC := countInv_reach (compile (toICfg rc)) sched
  rw [reqCount_eq_callsOf, procCount_eq_retsOf, rexec_log, callsOf_eq_filter hA hC,
    retsOf_eq_filter hA hC]
  constructor
  · apply filter_length_mono
    intro k hk
    simp only [Bool.and_eq_true] at hk ⊢
    refine ⟨hk.1, ?_⟩
    cases hs : (exec (compile (toICfg rc)) sched (init (compile (toICfg rc)))).slot k <;>
      simp_all [Slot.isDone, Slot.nonEmpty]
  · apply filter_length_mono
    intro k hk
    simp only [Bool.and_eq_true] at hk
    exact hk.1

/-- **C12.8j** once every task has finished: `requested = processed =` that number, per provider -/
theorem provider_counters_final (rc : RCfg) (sched : List Nat) (p : Nat)
    (hfin : gallFin (toICfg rc) (rexec rc sched) = true) :
    reqCount rc p (rexec rc sched).log = (symKeys rc p).length ∧
    procCount rc p (rexec rc sched).log = (symKeys rc p).length := by
  have hA := invA_reach (compile (toICfg rc)) sched
  have hC := countInv_reach (compile (toICfg rc)) sched
  rw [rexec_allFin] at hfin
  rw [reqCount_eq_callsOf, procCount_eq_retsOf, rexec_log, callsOf_eq_filter hA hC,
    retsOf_eq_filter hA hC]
  unfold symKeys
  constructor
  · congr 1
    apply List.filter_congr
    intro k hk
    obtain ⟨r, hr⟩ := all_done_of_allFin hA hfin hk
    simp [hr, Slot.nonEmpty]
  · congr 1
    apply List.filter_congr
    intro k hk
    obtain ⟨r, hr⟩ := all_done_of_allFin hA hfin hk
    simp [hr, Slot.isDone]

/-- the distinct module keys some `fill_symbol` / `walk_frame` request asks for -/
def askedKeys (rc : RCfg) : List Nat :=
  dedup ((rc.progs.flatten.filter fun q => match q.kind with
    | .file _ => false
    | _ => true).map fun q => rc.key q.mod)

theorem nodup_map_of_inj_on {l : List Nat} (hn : l.Nodup) (f : Nat → Nat)
    (hinj : ∀ a ∈ l, ∀ b ∈ l, f a = f b → a = b) : (l.map f).Nodup := by
  induction l with
  | nil => simp
  | cons a l ih =>
    have hn' := List.nodup_cons.mp hn
    simp only [List.map_cons, List.nodup_cons, List.mem_map]
    refine ⟨?_, ih hn'.2 (fun x hx y hy => hinj x (List.mem_cons_of_mem _ hx) y (List.mem_cons_of_mem _ hy))⟩
    rintro ⟨b, hb, he⟩
    have := hinj b (List.mem_cons_of_mem _ hb) a (by simp) he
    exact hn'.1 (this ▸ hb)

theorem mem_flatten_prog {rc : RCfg} {q : Req} (h : q ∈ rc.progs.flatten) :
    ∃ t, t < rc.T ∧ q ∈ rc.prog t := by
  rw [List.mem_flatten] at h
  obtain ⟨l, hl, hq⟩ := h
  obtain ⟨t, ht, rfl⟩ := List.getElem_of_mem hl
  exact ⟨t, ht, by simp [RCfg.prog, List.getD_eq_getElem?_getD, ht, hq]⟩

theorem zero_mem_specConsulted (rc : RCfg) (q : Req) (hP : 0 < rc.P) : 0 ∈ specConsulted rc q := by
  unfold specConsulted
  split
  · split <;> simp [hP]
  · simp [hP]

/-- **C12.8k** the property's wording for the first provider — in particular for a plain
    `Symbolizer`: the number its counters end with is the number of DISTINCT MODULES (distinct
    `module_key`s) asked for through `fill_symbol` / `walk_frame` -/
theorem counters_are_distinct_modules {rc : RCfg} (hwf : rc.WF) (hP : 0 < rc.P) :
    (symKeys rc 0).length = (askedKeys rc).length := by
  have hnA : (symKeys rc 0).Nodup := List.Nodup.sublist List.filter_sublist (nodup_dedup _)
  have hkeys : ∀ k ∈ askedKeys rc, k < rc.M := by
    intro k hk
    simp only [askedKeys, mem_dedup, List.mem_map, List.mem_filter] at hk
    obtain ⟨q, ⟨hq, _⟩, rfl⟩ := hk
    obtain ⟨t, _, hqt⟩ := mem_flatten_prog hq
    exact key_lt hwf hqt
  have hnB : ((askedKeys rc).map (symSlot rc 0)).Nodup :=
    nodup_map_of_inj_on (nodup_dedup _) _
      (fun a ha b hb h => (symSlot_inj (hkeys a ha) (hkeys b hb) h).2)
  have hAB : symKeys rc 0 ⊆ (askedKeys rc).map (symSlot rc 0) := by
    intro s hs
    simp only [symKeys, List.mem_filter] at hs
    rcases slot_forms hwf hs.1 with ⟨p', t, q, _, hq, hnf, rfl⟩ | ⟨p', k, fk, _, _, _, rfl⟩ |
      ⟨t, j, p', fk, m, _, _, _, rfl⟩
    · have h0 := hs.2
      rw [isSym_symSlot rc (key_lt hwf hq)] at h0
      simp only [decide_eq_true_eq] at h0
      subst h0
      refine List.mem_map.mpr ⟨rc.key q.mod, ?_, rfl⟩
      simp only [askedKeys, mem_dedup, List.mem_map, List.mem_filter]
      refine ⟨q, ⟨List.mem_flatten.mpr ⟨_, rc_prog_mem hq, hq⟩, ?_⟩, rfl⟩
      cases hk : q.kind with
      | file fk => exact absurd hk (hnf fk)
      | fill => rfl
      | walk => rfl
    · have := hs.2; rw [isSym_fileSlot] at this; cases this
    · have := hs.2; rw [isSym_privSlot] at this; cases this
  have hBA : (askedKeys rc).map (symSlot rc 0) ⊆ symKeys rc 0 := by
    intro s hs
    obtain ⟨k, hk, rfl⟩ := List.mem_map.mp hs
    have hkM := hkeys k hk
    simp only [askedKeys, mem_dedup, List.mem_map, List.mem_filter] at hk
    obtain ⟨q, ⟨hq, hkind⟩, rfl⟩ := hk
    obtain ⟨t, ht, hqt⟩ := mem_flatten_prog hq
    simp only [symKeys, List.mem_filter, isSym_symSlot rc hkM, decide_true, and_true]
    apply mem_allKeys_of_prog (t := t)
    rw [compile_prog, toICfg_prog rc ht, compS_expandFrom hwf ht 0 (rc.prog t) (by intro i _; simp)]
    obtain ⟨j, hj, hjq⟩ := List.getElem_of_mem hqt
    rw [List.mem_flatMap]
    refine ⟨(q, j), List.mem_zipIdx_iff_getElem?.mpr (by simp [List.getElem?_eq_getElem hj, hjq]), ?_⟩
    rw [List.mem_map]
    refine ⟨0, zero_mem_specConsulted rc q hP, ?_⟩
    cases hk : q.kind with
    | file fk => simp [hk] at hkind
    | fill => simp [reqItem, hk]
    | walk => simp [reqItem, hk]
  have h1 := hnA.length_le_of_subset hAB
  have h2 := hnB.length_le_of_subset hBA
  simp only [List.length_map] at h1 h2
  omega

/-- non-vacuity: a plain symbolizer; three tasks, four modules of which two have the same key
    (no code file / empty code file) and one is only asked for through `get_file_path`:
    requested = processed = 2 distinct modules. -/
example :
    let prov : Prov := ⟨fun _ => ⟨1, .ok⟩, fun _ => true, fun _ _ => ⟨1, .notFound⟩, false⟩
    let rc : RCfg := ⟨[⟨.absent, some 0, some 0, some 0⟩, ⟨.empty, some 0, some 0, some 0⟩,
        ⟨.path 0 1, some 1, some 1, some 1⟩, ⟨.path 0 2, some 2, some 2, some 2⟩], [prov],
      [[⟨.fill, 0⟩, ⟨.walk, 2⟩], [⟨.walk, 1⟩, ⟨.file 1, 3⟩], [⟨.fill, 2⟩]]⟩
    let s := rexec rc [0, 1, 2, 0, 1, 2, 0, 1, 2, 0, 1, 2, 0, 1, 2, 0, 1]
    gallFin (toICfg rc) s = true ∧ reqCount rc 0 s.log = 2 ∧ procCount rc 0 s.log = 2 ∧
      (askedKeys rc).length = 2 ∧ (symKeys rc 0).length = 2 := by decide

/-! ### 8.6 "No request is lost or deadlocks" at the level of requests -/

/-- **C12.8l** after any schedule the completion phase ends with every task finished: every
    request of every kind, through any number of providers, is answered -/
theorem requests_finish (rc : RCfg) (sched : List Nat) :
    gallFin (toICfg rc) (gfinish (toICfg rc) (gfuel (toICfg rc)) (rexec rc sched)) = true :=
  g_round_robin_finishes (toICfg rc) sched

theorem requests_finish_waker_respecting (rc : RCfg) (sched : List Nat) :
    gallFin (toICfg rc) (gfinishW (toICfg rc) (gfuel (toICfg rc)) (rexec rc sched)) = true :=
  g_waker_rounds_finish (toICfg rc) sched

theorem requests_no_lost_wakeup (rc : RCfg) (sched : List Nat)
    (hnf : gallFin (toICfg rc) (rexec rc sched) = false) :
    grunnable (toICfg rc) (rexec rc sched) ≠ [] :=
  g_runnable_nonempty (toICfg rc) sched hnf

/-! ### 8.7 `stats()` after the run

  Keyed by `leafname(code_file)` (NOT by the module key); one insert-overwrite per returned
  `locate_symbols`, inside the `get_symbols` closure. -/

theorem ret_sym_form {rc : RCfg} (hwf : rc.WF) (sched : List Nat) {p s : Nat}
    (hr : Event.ret s ∈ (rexec rc sched).log) (hs : isSym rc p s = true) :
    ∃ t q, q ∈ rc.prog t ∧ s = symSlot rc p (rc.key q.mod) := by
  rw [rexec_log] at hr
  exact sym_slot_form hwf
    (ret_mem_allKeys (invA_reach _ sched) (countInv_reach _ sched) hr) hs

/-- **C12.8m** `stats_match_outcomes`: if distinct module keys have distinct code-file leaf names,
    then at every moment (a) the entry of a module whose `locate_symbols` has returned is the one
    outcome that supplier gave — which is what every requester observed (C12.8f) — and (b) there
    is no other entry. (Without the hypothesis this fails: finding F16, owned by C13.) -/
theorem stats_match_outcomes {rc : RCfg} (hwf : rc.WF) (hdist : rc.LeafDistinct) (sched : List Nat)
    (p : Nat) :
    (∀ t q, q ∈ rc.prog t → Event.ret (symSlot rc p (rc.key q.mod)) ∈ (rexec rc sched).log →
      statGet (statWrites rc p (rexec rc sched).log) (leafOfKey rc (rc.key q.mod)) =
        some ((rc.prov p).sym (rc.key q.mod)).res) ∧
    (∀ l r, statGet (statWrites rc p (rexec rc sched).log) l = some r →
      ∃ t q, q ∈ rc.prog t ∧ Event.ret (symSlot rc p (rc.key q.mod)) ∈ (rexec rc sched).log ∧
        l = leafOfKey rc (rc.key q.mod) ∧ r = ((rc.prov p).sym (rc.key q.mod)).res) := by
  -- every write comes from a returned call of a module some request names
  have hform : ∀ l r, (l, r) ∈ statWrites rc p (rexec rc sched).log →
      ∃ t q, q ∈ rc.prog t ∧ Event.ret (symSlot rc p (rc.key q.mod)) ∈ (rexec rc sched).log ∧
        l = leafOfKey rc (rc.key q.mod) ∧ r = ((rc.prov p).sym (rc.key q.mod)).res := by
    intro l r hm
    obtain ⟨s, hret, hs, rfl, rfl⟩ := mem_statWrites.mp hm
    obtain ⟨t, q, hq, rfl⟩ := ret_sym_form hwf sched hret hs
    have hk := key_lt hwf hq
    refine ⟨t, q, hq, hret, ?_, ?_⟩
    · rw [symSlot_div, pair_mod hk]
    · rw [slotSup_sym rc hk]
  constructor
  · intro t q hq hret
    have hk := key_lt hwf hq
    apply statGet_of_unique
    · refine ⟨_, mem_statWrites.mpr ⟨_, hret, by rw [isSym_symSlot rc hk]; simp, ?_, rfl⟩⟩
      rw [symSlot_div, pair_mod hk]
    · intro r' hm
      obtain ⟨t', q', hq', _, hl, hr⟩ := hform _ _ hm
      have hm1 : q.mod < rc.M := (hwf _ (rc_prog_mem hq) q hq).1
      have hm2 : q'.mod < rc.M := (hwf _ (rc_prog_mem hq') q' hq').1
      have := hdist q.mod q'.mod hm1 hm2 hl
      rw [hr, this]
  · intro l r h
    exact hform l r (statGet_some_mem h)

/-- non-vacuity (two modules, distinct leaves, one `ParseError`, one `Ok`; both hypotheses hold) and
    the reason for the hypothesis: with the SAME leaf name and different outcomes the entry
    depends on which call returned last. -/
example :
    let prov : Prov := ⟨fun k => ⟨1, if k = 0 then .parseError else .ok⟩, fun _ => true, fun _ _ => ⟨0, .notFound⟩, false⟩
    let rc : RCfg := ⟨[⟨.path 0 0, some 0, some 0, some 0⟩, ⟨.path 0 1, some 1, some 1, some 1⟩], [prov],
      [[⟨.fill, 0⟩], [⟨.walk, 1⟩, ⟨.fill, 0⟩]]⟩
    let s := rexec rc [0, 1, 0, 1, 1]
    gallFin (toICfg rc) s = true ∧
    statGet (statWrites rc 0 s.log) (some 0) = some .parseError ∧
    statGet (statWrites rc 0 s.log) (some 1) = some .ok ∧
    statGet (statWrites rc 0 s.log) none = none := by decide

example :
    let prov : Prov := ⟨fun k => ⟨1, if k = 0 then .parseError else .ok⟩, fun _ => true, fun _ _ => ⟨0, .notFound⟩, false⟩
    -- same leaf `m0.so` in two directories: two different modules, one statistics key
    let rc : RCfg := ⟨[⟨.path 0 0, some 0, some 0, some 0⟩, ⟨.path 1 0, some 1, some 1, some 1⟩], [prov],
      [[⟨.fill, 0⟩], [⟨.fill, 1⟩]]⟩
    statGet (statWrites rc 0 (rexec rc [0, 1, 0, 1]).log) (some 0) = some .ok ∧
    statGet (statWrites rc 0 (rexec rc [1, 0, 1, 0]).log) (some 0) = some .parseError := by decide

end MdModel.Once
