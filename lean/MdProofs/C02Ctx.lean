/-
  MdProofs.C02Ctx — C02, "threads with contexts": the round trip of REGISTER FILES.

  Property text: "For every well-formed minidump serialized from a model (threads with contexts and
  stacks, …) … reading it back yields exactly the model … in either byte order".

  `MdProofs.C02.decode_encode` returns a thread's context as the BYTES that were written. Here the
  context is a register file in C18's representation (`MdModel.Regs.State`, cells `field` /
  `field[i]` of the CONTEXT_* record): `MdModel.EncodeCtx.encodeContext` writes every cell of the
  record of a CPU (layouts regenerated from format.rs) and the reader is C01's model of
  `MinidumpContext::read` (`MdModel.Dump.contextRead`: dispatch on the system info's processor
  architecture, `gread_with` of the record, the CPU bits of `context_flags`) followed by the
  register accessors through C18's generated tables (`regState`, `Regs.getRegister`, …).

    context_roundtrip          every name and alias reads back the register file's cell; ip / sp; valid_registers
    context_roundtrip_endian   the LE and the BE record decode to the same context
    thread_context_roundtrip   composition with `decode_encode`: a thread of `decode (encode m e f)`
-/
import MdProofs.C02
import MdProofs.Lemmas.EncodeCtx
namespace MdModel.EncodeCtx
open MdModel MdModel.Dump MdModel.Encode MdModel.Gen.Layouts MdModel.Gen.LayoutsX

/-- What "the context `c` reads back the register file `rf`" means — the accessors of
    `MinidumpContext` the property can observe, each through C18's tables over the register file
    `regState c` that C01's reader derives from the bytes:
    * the record type and the flags word are the ones written;
    * `get_register(name)` (validity `All`, which is what `MinidumpContext::read` sets) and
      `get_register_always(name)` return `rf`'s cell of that name, for EVERY name the tables of the
      type know — `REGISTERS`, getter / setter arms, the alias arms of `memoize_register` /
      `register_is_valid`, the window aliases of SPARC, the sp / ip names;
    * two names with one canonical name (`memoize_register`) read the same value;
    * `get_instruction_pointer()` / `get_stack_pointer()` — C18's accessor AND the array-indexing
      accessor of `MdModel.DumpCtx` — are the cells `instruction_pointer_register_name()` /
      `stack_pointer_register_name()` denote;
    * `valid_registers()` lists exactly `general_purpose_registers()`, in order, each with its cell. -/
structure ReadsBack (k : CtxKind) (rf : Regs.State) (flags : Nat) (c : Context) : Prop where
  kind : c.kind = k
  flags : c.flags = flags
  names : ∀ n ∈ Regs.knownNames (regsCtxOf k), ∃ cell, Regs.getCell (regsCtxOf k) n = some cell ∧
    Regs.getRegister (regsCtxOf k) (regState c) n .all = .ok (some (rf cell)) ∧
    Regs.getAlways (regsCtxOf k) (regState c) n = .ok (rf cell)
  aliases : ∀ n m r, Regs.memoize (regsCtxOf k) n = .ok (some r) → Regs.memoize (regsCtxOf k) m = .ok (some r) →
    ∃ cell, Regs.getCell (regsCtxOf k) n = some cell ∧ Regs.getCell (regsCtxOf k) m = some cell ∧
      Regs.getRegister (regsCtxOf k) (regState c) n .all = .ok (some (rf cell)) ∧
      Regs.getRegister (regsCtxOf k) (regState c) m .all = .ok (some (rf cell))
  ip_sp : ∃ ci cs, Regs.getCell (regsCtxOf k) (Gen.Regs.ipName (regsCtxOf k)) = some ci ∧
    Regs.getCell (regsCtxOf k) (Gen.Regs.spName (regsCtxOf k)) = some cs ∧
    Regs.instructionPointer (regsCtxOf k) (regState c) = .ok (rf ci) ∧
    Regs.stackPointer (regsCtxOf k) (regState c) = .ok (rf cs) ∧
    c.ip.res = .ok (rf ci) ∧ c.sp.res = .ok (rf cs)
  valid : ∃ vs, Regs.mdValidRegisters (regsCtxOf k) (regState c) .all = .ok vs ∧
    vs.map (·.1) = Gen.Regs.registers (Gen.Regs.gprOf (regsCtxOf k)) ∧
    ∀ p ∈ vs, ∃ cell, Regs.getCell (regsCtxOf k) p.1 = some cell ∧ p.2 = rf cell

/-- the context made of the written scalars reads back the register file -/
theorem readsBack_written (k : CtxKind) (rf : Regs.State) (flags : Nat) (other : String → Nat) :
    ReadsBack k rf flags ⟨k, ctxVals k rf flags other, flags⟩ := by
  have hnames : ∀ n ∈ Regs.knownNames (regsCtxOf k), ∃ cell, Regs.getCell (regsCtxOf k) n = some cell ∧
      Regs.getRegister (regsCtxOf k) (regState ⟨k, ctxVals k rf flags other, flags⟩) n .all = .ok (some (rf cell)) ∧
      Regs.getAlways (regsCtxOf k) (regState ⟨k, ctxVals k rf flags other, flags⟩) n = .ok (rf cell) := by
    intro n hn
    obtain ⟨cell, hcell, hget⟩ := Regs.getAlways_known (regState ⟨k, ctxVals k rf flags other, flags⟩) hn
    obtain ⟨_, cell', hcell', hreg⟩ := Regs.validity_all (regsCtxOf k) (regState ⟨k, ctxVals k rf flags other, flags⟩) n hn
    rw [hcell] at hcell'
    cases hcell'
    have hst := regState_encode rf flags other (known_cell hn hcell)
    exact ⟨cell, hcell, by rw [hreg, hst], by rw [hget, hst]⟩
  refine ⟨rfl, rfl, hnames, ?_, ?_, ?_⟩
  · intro n m r hn hm
    have kn := Regs.memoize_some_known hn
    have km := Regs.memoize_some_known hm
    have hsame := ((Regs.alias_same_cell (regsCtxOf k) n m r r hn hm).1).mp rfl
    obtain ⟨cn, hcn, hgn, _⟩ := hnames n kn
    obtain ⟨cm, hcm, hgm, _⟩ := hnames m km
    rw [hcn, hcm] at hsame
    cases hsame
    exact ⟨cn, hcn, hcm, hgn, hgm⟩
  · obtain ⟨ci, cs, hci, hcs, hni, hns⟩ := ip_sp_names k
    obtain ⟨⟨vs, hs1, hs2, _⟩, ⟨vi, hi1, hi2, _⟩⟩ :=
      Regs.sp_ip_agree (regsCtxOf k) (regState ⟨k, ctxVals k rf flags other, flags⟩)
    obtain ⟨ci', hci', _, hai⟩ := hnames _ (ipName_known (regsCtxOf k))
    obtain ⟨cs', hcs', _, has⟩ := hnames _ (spName_known (regsCtxOf k))
    rw [hci] at hci'; cases hci'
    rw [hcs] at hcs'; cases hcs'
    rw [hai] at hi2; cases hi2
    rw [has] at hs2; cases hs2
    refine ⟨ci, cs, hci, hcs, hi1, hs1, ?_, ?_⟩
    · apply ip_res
      show getField? k.layout (ctxVals k rf flags other) (ipLayoutName k) = some (rf ci)
      rw [← hni]
      exact getField_cell rf flags other (known_cell (ipName_known _) hci)
    · apply sp_res
      show getField? k.layout (ctxVals k rf flags other) (spLayoutName k) = some (rf cs)
      rw [← hns]
      exact getField_cell rf flags other (known_cell (spName_known _) hcs)
  · obtain ⟨vs, h1, h2, h3⟩ :=
      (Regs.enumerations_valid (regsCtxOf k) (regState ⟨k, ctxVals k rf flags other, flags⟩) [] (fun s hs => by cases hs)).2
    refine ⟨vs, h1, by rw [h2, Regs.gpr_registers], ?_⟩
    intro p hp
    have hmem : p.1 ∈ Gen.Regs.registers (regsCtxOf k) := by
      rw [← h2]; exact List.mem_map_of_mem hp
    obtain ⟨cell, hcell, _, hga⟩ := hnames p.1 (Regs.known_of_registers hmem)
    have := h3 p hp
    rw [hga] at this
    exact ⟨cell, hcell, (Outcome.ok.inj this).symm⟩

/-! ## 1. "threads with contexts … reading it back yields exactly the model" — one context -/

/-- **C02.ctx-1 `context_roundtrip`** For every processor architecture `MinidumpContext::read` has a
    branch for (the nine record types: x86 — also IA32-on-WIN64 —, amd64, ppc, ppc64, sparc, arm,
    arm64, old arm64, mips; `MdProofs.C01.context_read_spec` shows every other architecture is
    `UnknownCpuContext`), EVERY register file whose values fit their cells, every flags word whose
    CPU bits select that record type, every content of the remaining fields, BOTH byte orders, and
    whatever follows the record (XSTATE, padding): reading `encodeContext k rf flags other e` with
    system info `arch` succeeds and the context reads back the register file — `get_register(name)`
    is `rf`'s cell for every name AND alias of C18's tables, `get_instruction_pointer` /
    `get_stack_pointer` are the ip / sp cells, `valid_registers()` lists every general-purpose
    register with its cell (see `ReadsBack`). -/
theorem context_roundtrip {arch : Nat} {k : CtxKind} (hk : ctxKindOfArch arch = some k) (rf : Regs.State) (flags : Nat)
    (other : String → Nat) (e : Endian) (tail : List UInt8)
    (hrf : RegFileFits k rf) (hp : PartsFit k flags other) (hfl : contextFlagsCpu flags = k.cpuFlag) :
    ∃ c, contextRead (encodeContext k rf flags other e ++ tail).toArray e arch = .ok c ∧ ReadsBack k rf flags c :=
  ⟨_, contextRead_encode hk rf flags other e tail (ctxVals_fits hrf hp) hfl, readsBack_written k rf flags other⟩

/-! ## 2. "in either byte order" -/

/-- **C02.ctx-2 `context_roundtrip_endian`** The little- and the big-endian record of one register
    file decode to the SAME context (record type, every scalar, flags) — hence to the same register
    file and the same answer of every accessor. -/
theorem context_roundtrip_endian {arch : Nat} {k : CtxKind} (hk : ctxKindOfArch arch = some k) (rf : Regs.State) (flags : Nat)
    (other : String → Nat) (tl tb : List UInt8)
    (hrf : RegFileFits k rf) (hp : PartsFit k flags other) (hfl : contextFlagsCpu flags = k.cpuFlag) :
    ∃ c, contextRead (encodeContext k rf flags other .little ++ tl).toArray .little arch = .ok c ∧
         contextRead (encodeContext k rf flags other .big ++ tb).toArray .big arch = .ok c ∧
         ReadsBack k rf flags c :=
  ⟨_, contextRead_encode hk rf flags other .little tl (ctxVals_fits hrf hp) hfl,
      contextRead_encode hk rf flags other .big tb (ctxVals_fits hrf hp) hfl, readsBack_written k rf flags other⟩

/-! ## 3. composition with the thread list: a thread of `decode (encode m e f)` -/

/-- **C02.ctx-3 `thread_context_roundtrip`** For every well-formed dump model with a system-info
    stream whose architecture has a context record, either byte order, either memory-list form, and
    every thread of the model whose context bytes are the serialization of a register file
    (`encodeContext … e ++ tail`): reading the encoded file (`decode`, by `decode_encode`) yields a
    thread list of the same length that contains the thread (all its other fields as in the model),
    and `MinidumpThread::context(system_info, misc)` on THAT thread — the bytes that came back, the
    system info that came back, the byte order that was detected — is a context that reads back the
    model thread's register file. -/
theorem thread_context_roundtrip {m : DumpModel} {f : MemForm} (wf : WellFormed m f) (e : Endian)
    {s : MSysInfo} (hs : m.sysInfo = some s) {k : CtxKind} (hk : ctxKindOfArch s.arch = some k)
    {t : MThread} (ht : t ∈ m.threads) (rf : Regs.State) (flags : Nat) (other : String → Nat) (tail : List UInt8)
    (hctx : t.ctx = encodeContext k rf flags other e ++ tail)
    (hrf : RegFileFits k rf) (hp : PartsFit k flags other) (hfl : contextFlagsCpu flags = k.cpuFlag) :
    ∃ r ts, decode (encode m e f) = .ok r ∧ r.endian = e ∧ r.threads = .ok ts ∧ ts.length = m.threads.length ∧
      reportThread t ∈ ts ∧
      ∃ c, threadContext r (reportThread t) = some (.ok c) ∧ ReadsBack k rf flags c := by
  obtain ⟨c, hc, hrb⟩ := context_roundtrip hk rf flags other e tail hrf hp hfl
  refine ⟨report m e f, m.threads.map reportThread, decode_encode wf e, rfl, rfl, by simp,
    List.mem_map_of_mem ht, c, ?_, hrb⟩
  simp only [threadContext, reportThread, report, hs, reportSysInfo, hctx, hc]

/-! ## non-vacuity: concrete instances of every hypothesis set (x86, amd64, arm64) -/

/-- a decidable criterion for `RegFileFits` -/
def fitsCheck (k : CtxKind) (rf : Regs.State) : Bool :=
  (regCells k).all fun cell => k.layout.all fun f => f.1 != Regs.showCell cell || decide (rf cell < 256 ^ f.2)

theorem regFileFits_of_check {k : CtxKind} {rf : Regs.State} (h : fitsCheck k rf = true) : RegFileFits k rf := by
  intro cell hc w hw
  have h1 := List.all_eq_true.mp (List.all_eq_true.mp h cell hc) _ hw
  simpa using h1

theorem partsFit_zero {k : CtxKind} {flags : Nat} (h : flags < 2 ^ 32) : PartsFit k flags (fun _ => 0) :=
  ⟨h, fun f _ => Nat.pow_pos (by decide)⟩

-- x86 (also selected by IA32-on-WIN64): every register 2^32-1, flags CONTEXT_X86 | CONTROL | INTEGER
set_option maxRecDepth 100000 in
example : ctxKindOfArch PROCESSOR_ARCHITECTURE_INTEL = some .x86 ∧ ctxKindOfArch PROCESSOR_ARCHITECTURE_IA32_ON_WIN64 = some .x86 ∧
    RegFileFits .x86 (fun _ => 4294967295) ∧ PartsFit .x86 0x10003 (fun _ => 0) ∧
    contextFlagsCpu 0x10003 = CtxKind.x86.cpuFlag :=
  ⟨by decide, by decide, regFileFits_of_check (by decide +kernel), partsFit_zero (by decide), by decide⟩

-- amd64: every register 2^64-1
set_option maxRecDepth 100000 in
example : ctxKindOfArch PROCESSOR_ARCHITECTURE_AMD64 = some .amd64 ∧
    RegFileFits .amd64 (fun _ => 18446744073709551615) ∧ PartsFit .amd64 0x10001f (fun _ => 0) ∧
    contextFlagsCpu 0x10001f = CtxKind.amd64.cpuFlag :=
  ⟨by decide, regFileFits_of_check (by decide +kernel), partsFit_zero (by decide), by decide⟩

-- arm64: every register 2^64-1
set_option maxRecDepth 100000 in
example : ctxKindOfArch PROCESSOR_ARCHITECTURE_ARM64 = some .arm64 ∧
    RegFileFits .arm64 (fun _ => 18446744073709551615) ∧ PartsFit .arm64 0x40001f (fun _ => 0) ∧
    contextFlagsCpu 0x40001f = CtxKind.arm64.cpuFlag :=
  ⟨by decide, regFileFits_of_check (by decide +kernel), partsFit_zero (by decide), by decide⟩

def resVal : Res Nat → Option Nat
  | .ok v => some v
  | _ => none

/-- the round trip by evaluation: an arm64 register file with `iregs[30] = 2^64-1`, `iregs[29] = 7`,
    `pc`, `sp` written big-endian reads back through the name `lr` AND its alias `x30`, `fp` / `x29`,
    and the dedicated accessors; the x86 and amd64 records likewise -/
example :
    (match contextRead (encodeContext .arm64 (rfOf [("iregs[30]", 18446744073709551615), ("iregs[29]", 7), ("pc", 0x1234), ("sp", 0x88)])
        0x40001f (patOther .arm64 3) .big).toArray .big PROCESSOR_ARCHITECTURE_ARM64 with
     | .ok c => some (Regs.getRegister .ARM64 (regState c) "lr" .all, Regs.getRegister .ARM64 (regState c) "x30" .all,
                      Regs.getRegister .ARM64 (regState c) "x29" .all, resVal c.ip.res, resVal c.sp.res)
     | .error _ => none) =
    some (.ok (some 18446744073709551615), .ok (some 18446744073709551615), .ok (some 7), some 0x1234, some 0x88) := by
  decide +kernel

example :
    (match contextRead (encodeContext .amd64 (rfOf [("r8", 8), ("r9", 0xffffffffffffffff), ("rip", 0x4000), ("rsp", 0x7ffc)])
        0x10001f (patOther .amd64 1) .little).toArray .little PROCESSOR_ARCHITECTURE_AMD64 with
     | .ok c => some (Regs.getRegister .AMD64 (regState c) "r8" .all, Regs.getRegister .AMD64 (regState c) "r9" .all,
                      resVal c.ip.res, resVal c.sp.res)
     | .error _ => none) = some (.ok (some 8), .ok (some 0xffffffffffffffff), some 0x4000, some 0x7ffc) := by
  decide +kernel

example :
    (match contextRead (encodeContext .x86 (rfOf [("eip", 0x11223344), ("esp", 0xffffffff), ("eflags", 0x246)])
        0x10007 (patOther .x86 2) .big).toArray .big PROCESSOR_ARCHITECTURE_IA32_ON_WIN64 with
     | .ok c => some (Regs.getRegister .X86 (regState c) "eip" .all, Regs.getRegister .X86 (regState c) "eflags" .all,
                      resVal c.ip.res, resVal c.sp.res)
     | .error _ => none) = some (.ok (some 0x11223344), .ok (some 0x246), some 0x11223344, some 0xffffffff) := by
  decide +kernel

/-- `thread_context_roundtrip`: a well-formed model with an amd64 system info and a thread whose
    context is the little-endian serialization of a register file, followed by 4 trailing bytes -/
def ctxModel : DumpModel :=
  { flags := 0, pad := false,
    threads := [⟨7, 0, 0, 0, 4096, 8192, [1, 2, 3, 4],
      encodeContext .amd64 (rfOf [("rip", 0x4000), ("rsp", 0x2000), ("r15", 0xffffffffffffffff)]) 0x10001f (fun _ => 0) .little
        ++ [1, 2, 3, 4]⟩],
    modules := [], memory := [], memInfo := [], threadNames := [], unloaded := [], exception := none,
    sysInfo := some ⟨9, 6, 0x5e03, 8, 1, 10, 0, 19041, 2, 0, List.replicate 24 0, [0x61]⟩, extra := [] }

set_option maxRecDepth 100000 in
example : WellFormed ctxModel .mem ∧
    RegFileFits .amd64 (rfOf [("rip", 0x4000), ("rsp", 0x2000), ("r15", 0xffffffffffffffff)]) ∧
    ctxKindOfArch 9 = some .amd64 := by
  refine ⟨⟨by decide, by decide +kernel, ?_, ?_, ?_, ?_, ?_, ?_, ?_, ?_, ?_, ?_, ?_, ?_, ?_⟩,
    regFileFits_of_check (by decide +kernel), by decide⟩
  · intro t ht
    simp only [ctxModel, List.mem_singleton] at ht
    subst ht
    exact ⟨by decide, by decide, by decide, by decide, by decide, by decide⟩
  · intro r hr; simp [ctxModel] at hr
  · intro i hi; simp [ctxModel] at hi
  · intro n hn; simp [ctxModel] at hn
  · intro u hu; simp [ctxModel] at hu
  · intro x hx; simp [ctxModel] at hx
  · intro x hx; simp [ctxModel] at hx
  · intro x hx
    simp only [ctxModel, Option.some.injEq] at hx
    subst hx
    exact ⟨by decide, by decide, by decide, by decide, by decide, by decide, by decide, by decide, by decide,
      by decide, by decide, validName_of_all _ (by decide)⟩
  · intro x hx; simp [ctxModel] at hx
  · intro x hx; simp [ctxModel] at hx
  · intro x hx; simp [ctxModel] at hx
  · intro x hx; simp [ctxModel] at hx
  · intro x hx; simp [ctxModel] at hx

end MdModel.EncodeCtx
