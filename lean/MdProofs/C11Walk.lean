/-
  C11 bridge — the stack-walk model symbolises exactly as the C11 model.

  The framework has two hand-written Lean models of `SymbolFile::fill_symbol`
  (breakpad-symbols/src/sym_file/mod.rs:340-489): `MdModel.Symbolize.fillSymbol` (C11's subject: FUNC
  via the range table, parameter size from STACK WIN, source line, inline frames, PUBLIC fallback;
  tied to the code by engine `symb`) and `MdModel.Walk.fillSymbol` / `fillSymbolW` (the walker
  model's own: function name, base and parameter size of every frame of `walk (mkEnv …)`, and the
  by-symbols validation of scanned return addresses; tied by engines `walk`/`chain`/`index`).
  C11's theorems were about the first only. This file proves the two equal on everything the
  walker model reports, and carries C11's guarantees over to the frames of the walks.

  Property text (C11): "For every symbol file and instruction address, the reported function is a
  FUNC record of that file whose range contains the address or, if none does, the nearest preceding
  PUBLIC symbol not cut off by an intervening FUNC; reported function and line base addresses never
  exceed the instruction."

  Translation (`MdProofs/Lemmas/SymBridge*.lean`): names `nm` = UTF-8 bytes of the `String`;
  `FileRel sf r` = same FUNC records (address, size, parameter size, name) and same PUBLIC records in
  file order, C11's line / INLINE sub-records and FILE / INLINE_ORIGIN maps arbitrary;
  `recsOf sf` = the canonical related record list; `projW` = the walker model's answer as the
  `(name, base, parameter size)` of `set_function`.
-/
import MdProofs.Lemmas.SymBridgeFill
import MdProofs.Lemmas.SymBridgeWin
import MdProofs.C05
namespace MdModel.SymBridge
open MdModel MdModel.RangeMap

/-! ## 1. the two models of `fill_symbol` agree -/

theorem paramSize_nowin {r : Symbolize.Recs} {csf : Symbolize.SymFile} (hb : Symbolize.build r = .ok csf)
    (h4 : r.win4 = []) (h0 : r.win0 = []) (a : Nat) (g : Symbolize.BFunc) :
    Symbolize.paramSize csf a g = g.psize := by
  have B := Symbolize.build_built hb
  have hnil : Symbolize.winTable [] = .ok [] := by
    unfold Symbolize.winTable
    simp only [insertWinAll, List.reverse_nil, List.map_nil]
    rw [safeP_ok [] (by intro e he; cases he)]
    simp [safeVecP, sortEntries, pass, keep]
  have e4 : csf.wfd = [] := by
    have := B.wfd; rw [h4, hnil] at this; exact (Outcome.ok.inj this).symm
  have e0 : csf.wfpo = [] := by
    have := B.wfpo; rw [h0, hnil] at this; exact (Outcome.ok.inj this).symm
  unfold Symbolize.paramSize
  rw [e4, e0]
  rfl

/-- **`walk_fill_eq_c11`** — for EVERY walker-model symbol file `sf` and every C11 record list `r`
    describing the same FUNC and PUBLIC records (any number of records, any values: zero-size and
    overflowing FUNCs, duplicate and overlapping FUNCs, PUBLICs sharing an address; any line /
    INLINE sub-records on the C11 side), without STACK WIN records, every module base and every
    instruction address (below the module base included): whenever C11's `fill_symbol` answers
    (it always does for a `u64` instruction: `fill_no_panic`), the walker model's `fillSymbol`
    over its own function table returns exactly the `(name, base, parameter size)` C11 reports —
    and nothing when C11 reports no function. -/
theorem walk_fill_eq_c11 {sf : Walk.SymFile} {r : Symbolize.Recs} (hrel : FileRel sf r)
    (h4 : r.win4 = []) (h0 : r.win0 = []) {csf : Symbolize.SymFile}
    (hb : Symbolize.build r = .ok csf) {base instr : Nat} {fr : Symbolize.Frame}
    (h : Symbolize.fillSymbol csf base instr = .ok fr) :
    (Walk.fillSymbol sf (Walk.funcTable sf) base instr).map projW = fr.fn := by
  rcases fill_core hrel hb h with ⟨g, w, _, _, _, hw, hcore, hfn⟩ | ⟨_, hres⟩
  · rw [hw, hfn, paramSize_nowin hb h4 h0]
    simp only [wcore, Prod.mk.injEq] at hcore
    obtain ⟨c1, _, c3, c4⟩ := hcore
    simp only [Option.map_some, projW, c1, c3, c4]
  · exact hres

/-- table-level agreement of the STACK WIN lookups at one address: the walker model's
    `WinTables.psize` (frame data, else FPO; records by position, classified by C07's model) gives
    what C11's `paramSize` reads from its two tables (records encoded with their parameter size) -/
def PsizeAgree (wt : Walk.WinTables) (csf : Symbolize.SymFile) (a : Nat) : Prop :=
  wt.psize a =
    match get csf.wfd a with
    | some v => some (Rec.dec v).tag
    | none => (get csf.wfpo a).map fun v => (Rec.dec v).tag

theorem paramSize_of_agree {wt : Walk.WinTables} {csf : Symbolize.SymFile} {a : Nat}
    (h : PsizeAgree wt csf a) (g : Symbolize.BFunc) :
    Symbolize.paramSize csf a g = (wt.psize a).getD g.psize := by
  unfold PsizeAgree at h
  unfold Symbolize.paramSize
  rw [h]
  cases get csf.wfd a with
  | some v => rfl
  | none =>
    cases get csf.wfpo a with
    | some v => rfl
    | none => rfl

/-- `walk_fillW_eq_c11_partial` (kept from the previous round; now a step of `walk_fillW_eq_c11`) —
    for ANY walker-model STACK WIN tables `wt`, `fillSymbolW` reports exactly C11's function name and
    base, exactly C11's parameter size whenever the function is a PUBLIC (never overridden) or
    nothing is reported, and for a FUNC C11's parameter size provided the two models' STACK WIN
    lookups agree at the address (`PsizeAgree`): frame data > FPO > FUNC on both sides. -/
theorem walk_fillW_eq_c11_partial {sf : Walk.SymFile} {r : Symbolize.Recs} (hrel : FileRel sf r)
    (wt : Walk.WinTables) {csf : Symbolize.SymFile} (hb : Symbolize.build r = .ok csf)
    {base instr : Nat} (hps : base ≤ instr → PsizeAgree wt csf (instr - base))
    {fr : Symbolize.Frame} (h : Symbolize.fillSymbol csf base instr = .ok fr) :
    (Walk.fillSymbolW sf (Walk.funcTable sf) wt base instr).map projW = fr.fn := by
  rcases fill_core hrel hb h with ⟨g, w, hge, _, hsome, hw, hcore, hfn⟩ | ⟨hcase, hres⟩
  · unfold Walk.fillSymbolW
    rw [hw]
    simp only [if_neg (show ¬ instr < base by omega)]
    cases hg : get (Walk.funcTable sf) (instr - base) with
    | none => rw [hg] at hsome; cases hsome
    | some i =>
      simp only [wcore, Prod.mk.injEq] at hcore
      obtain ⟨c1, _, c3, c4⟩ := hcore
      rw [hfn, paramSize_of_agree (hps hge) g]
      simp only [Option.map_some, projW, c1, c3, c4]
  · unfold Walk.fillSymbolW
    cases hf : Walk.fillSymbol sf (Walk.funcTable sf) base instr with
    | none => rw [hf] at hres; exact hres
    | some f =>
      rw [hf] at hres
      simp only
      rcases hcase with hlt | hgn
      · rw [if_pos hlt]; exact hres
      · by_cases hlt : instr < base
        · rw [if_pos hlt]; exact hres
        · rw [if_neg hlt, hgn]; exact hres

/-- `PsizeAgree` holds for every related pair: both models build the STACK WIN tables with C08's
    `insertWinAll` (the parser's overlap repair, which never reads the tag) and `safeP`, from the same
    `(address, size)` sequence (`Lemmas/SymBridgeWin.lean`) -/
theorem psizeAgree_of_rel {wins : List Win.Rec} {r : Symbolize.Recs} (hwin : WinRel wins r)
    (hsz : ∀ w ∈ wins, w.size < 2 ^ 32) (hlen : wins.length ≤ 2 ^ 64)
    {csf : Symbolize.SymFile} (hb : Symbolize.build r = .ok csf) (a : Nat) :
    PsizeAgree (Walk.winTables wins) csf a :=
  psize_agree hwin hsz hlen hb a

/-- **`walk_fillW_eq_c11`** — symbol files WITH STACK WIN records: for every walker-model symbol file
    `sf` with STACK WIN records `wins` (whole lines, any number ≤ 2^64, any type / program-string
    flag — C07's `classifyRec` decides frame data / FPO / ignored —, overlapping, nested, truncated
    by the parser's repair, zero-size, overflowing; sizes `< 2^32` as the `u32` field the parser
    reads) and every C11 record list `r` describing the same FUNC / PUBLIC records (`FileRel`) and
    the same STACK WIN records (`WinRel`: C11's `win4` / `win0` are the `(address, size,
    parameter_size)` of the frame-data / FPO lines, in file order), every module base and
    instruction address: whenever C11's `fill_symbol` answers, the walker model's `fillSymbolW`
    over its own tables returns exactly C11's `(name, base, parameter size)` — the parameter size
    of a FUNC overridden by frame data, else FPO, exactly when C11 overrides it — and nothing when
    C11 reports no function. -/
theorem walk_fillW_eq_c11 {sf : Walk.SymFile} {r : Symbolize.Recs} (hrel : FileRel sf r)
    {wins : List Win.Rec} (hwin : WinRel wins r)
    (hsz : ∀ w ∈ wins, w.size < 2 ^ 32) (hlen : wins.length ≤ 2 ^ 64)
    {csf : Symbolize.SymFile} (hb : Symbolize.build r = .ok csf)
    {base instr : Nat} {fr : Symbolize.Frame} (h : Symbolize.fillSymbol csf base instr = .ok fr) :
    (Walk.fillSymbolW sf (Walk.funcTable sf) (Walk.winTables wins) base instr).map projW = fr.fn :=
  walk_fillW_eq_c11_partial hrel _ hb (fun _ => psizeAgree_of_rel hwin hsz hlen hb _) h

/-- the canonical C11 reading of a walker-model symbol file with STACK WIN records -/
def recsOfW (sf : Walk.SymFile) (wins : List Win.Rec) : Symbolize.Recs :=
  { recsOf sf with win4 := kindOf isFd wins, win0 := kindOf isFpo wins }

theorem recsOfW_rel (sf : Walk.SymFile) (wins : List Win.Rec) :
    FileRel sf (recsOfW sf wins) ∧ WinRel wins (recsOfW sf wins) :=
  ⟨⟨(recsOf_rel sf).funcs, (recsOf_rel sf).pubs⟩, ⟨rfl, rfl⟩⟩

/-- **name and base for ANY STACK WIN records** — for every `FileRel`-related pair, whatever STACK
    WIN records C11's side carries: the walker model's `fillSymbol` (the one `instrOkOf` runs, and
    the name / base part of `fillSymbolW`) reports C11's function name and base, none iff none -/
theorem walk_fill_name_base_eq_c11 {sf : Walk.SymFile} {r : Symbolize.Recs} (hrel : FileRel sf r)
    {csf : Symbolize.SymFile} (hb : Symbolize.build r = .ok csf) {base instr : Nat}
    {fr : Symbolize.Frame} (h : Symbolize.fillSymbol csf base instr = .ok fr) :
    (Walk.fillSymbol sf (Walk.funcTable sf) base instr).map (fun g => (nm g.name, g.base)) =
      fr.fn.map fun t => (t.1, t.2.1) := by
  rcases fill_core hrel hb h with ⟨g, w, _, _, _, hw, hcore, hfn⟩ | ⟨_, hres⟩
  · rw [hw, hfn]
    simp only [wcore, Prod.mk.injEq] at hcore
    obtain ⟨c1, _, _, c4⟩ := hcore
    simp only [Option.map_some, c1, c4]
  · rw [← hres]
    cases Walk.fillSymbol sf (Walk.funcTable sf) base instr with
    | none => rfl
    | some g => rfl

/-- name and base never depend on the STACK WIN tables: `fillSymbolW` and `fillSymbol` report the
    same function name and base, for any tables -/
theorem fillSymbolW_name_base (sf : Walk.SymFile) (wt : Walk.WinTables) (base instr : Nat) :
    (Walk.fillSymbolW sf (Walk.funcTable sf) wt base instr).map (fun g => (g.name, g.base)) =
      (Walk.fillSymbol sf (Walk.funcTable sf) base instr).map (fun g => (g.name, g.base)) := by
  unfold Walk.fillSymbolW
  cases Walk.fillSymbol sf (Walk.funcTable sf) base instr with
  | none => rfl
  | some f =>
    simp only
    split
    · rfl
    · split <;> rfl

/-- the relation is inhabited for every walker-model file, and C11 answers on it: for every `sf`,
    base and `u64` instruction there are a built C11 file and an answer -/
theorem c11_answers (sf : Walk.SymFile) (base instr : Nat) (hi : instr ≤ U64MAX) :
    ∃ csf fr, Symbolize.build (recsOf sf) = .ok csf ∧ Symbolize.fillSymbol csf base instr = .ok fr := by
  obtain ⟨csf, hb⟩ := Symbolize.build_ok (recsOf sf) rfl rfl
  obtain ⟨fr, hfr⟩ := Symbolize.fill_no_panic hb base instr hi (by
    intro f hf
    simp only [recsOf, List.mem_map] at hf
    obtain ⟨w, _, rfl⟩ := hf
    show ([] : List Symbolize.Inl).length + 1 < U32MAX
    decide)
  exact ⟨csf, fr, hb, hfr⟩

/-- `walk_fill_eq_c11` without hypotheses about C11: for EVERY walker-model symbol file, base and
    `u64` instruction address, C11's model builds the file, answers, and the walker model's answer
    is that answer's function -/
theorem walk_fill_eq_c11_total (sf : Walk.SymFile) (base instr : Nat) (hi : instr ≤ U64MAX) :
    ∃ csf fr, Symbolize.build (recsOf sf) = .ok csf ∧ Symbolize.fillSymbol csf base instr = .ok fr ∧
      (Walk.fillSymbol sf (Walk.funcTable sf) base instr).map projW = fr.fn := by
  obtain ⟨csf, fr, hb, hfr⟩ := c11_answers sf base instr hi
  exact ⟨csf, fr, hb, hfr, walk_fill_eq_c11 (recsOf_rel sf) rfl rfl hb hfr⟩

/-! ## 2. C11's specification, transported to the walker model's `fillSymbol` -/

/-- **`walk_func_covers`** (C11.1 `func_covers` through the bridge) — "the reported function is a
    FUNC record of that file whose range contains the address or, if none does, [a] PUBLIC symbol
    [at or below the address]": whatever the walker model reports for a frame is a FUNC record of
    the walker's symbol file with a valid range containing the module-relative address (reported
    with its own name and `address + module base`), or — only when the walker's function table has
    no entry at the address — a PUBLIC record at or below it, with its own parameter size. -/
theorem walk_func_covers (sf : Walk.SymFile) (base instr : Nat) (hi : instr ≤ U64MAX)
    {g : Walk.FuncInfo} (hg : Walk.fillSymbol sf (Walk.funcTable sf) base instr = some g) :
    base ≤ instr ∧
    ((∃ f ∈ sf.funcs, g.name = f.name ∧ g.base = f.addr + base ∧ 0 < f.size ∧
        f.addr + f.size ≤ U64MAX ∧ f.addr ≤ instr - base ∧ instr - base < f.addr + f.size) ∨
     (get (Walk.funcTable sf) (instr - base) = none ∧
        ∃ p ∈ sf.pubs, g.name = p.name ∧ g.base = p.addr + base ∧ g.psize = p.psize ∧
          p.addr ≤ instr - base)) := by
  obtain ⟨csf, fr, hb, hfr⟩ := c11_answers sf base instr hi
  have heq := walk_fill_eq_c11 (recsOf_rel sf) rfl rfl hb hfr
  rw [hg] at heq
  obtain ⟨hge, hc⟩ := Symbolize.func_covers hb hfr heq.symm
  refine ⟨hge, ?_⟩
  rcases hc with ⟨f, hf, hn, hbase, hcov⟩ | ⟨hnf, p, hp, hn, hbase, hps, hle⟩
  · left
    simp only [recsOf, List.mem_map] at hf
    obtain ⟨w, hw, rfl⟩ := hf
    obtain ⟨c1, c2, c3, c4⟩ := hcov
    exact ⟨w, hw, nm_inj hn, hbase, c1, c2, c3, c4⟩
  · right
    have B := Symbolize.build_built hb
    obtain ⟨_, t2, _⟩ := ftab_sim (recsOf_rel sf) (instr - base)
    rw [← B.funcs, ← B.ftab] at t2
    refine ⟨t2 (funcAt_none_get hb hnf), ?_⟩
    simp only [recsOf, List.mem_map] at hp
    obtain ⟨q, hq, rfl⟩ := hp
    exact ⟨q, hq, nm_inj hn, hbase, hps, hle⟩

/-- the greatest PUBLIC record (address, then name, then parameter size) at or below `a` -/
def WNearest (pubs : List Walk.PubRec) (a : Nat) (p : Walk.PubRec) : Prop :=
  p ∈ pubs ∧ p.addr ≤ a ∧ ∀ q ∈ pubs, q.addr ≤ a → Walk.pubLe q p = true

/-- the walker model's nearest PUBLIC is C11's `NearestPublic` of the translated records -/
theorem WNearest_iff (pubs : List Walk.PubRec) (a : Nat) (p : Walk.PubRec) :
    WNearest pubs a p ↔ Symbolize.NearestPublic (pubs.map pubOf) a (pubOf p) ∧ p ∈ pubs := by
  constructor
  · rintro ⟨h1, h2, h3⟩
    refine ⟨⟨List.mem_map_of_mem h1, h2, ?_⟩, h1⟩
    intro q hq hqa
    obtain ⟨q', hq', rfl⟩ := List.mem_map.mp hq
    rw [← pubLe_sim]
    exact h3 q' hq' hqa
  · rintro ⟨⟨_, h2, h3⟩, h1⟩
    refine ⟨h1, h2, ?_⟩
    intro q hq hqa
    rw [pubLe_sim]
    exact h3 (pubOf q) (List.mem_map_of_mem hq) hqa

/-- **`walk_public_rule`** (C11.2 `public_rule` in the walker model) — "or, if none does, the nearest
    preceding PUBLIC symbol not cut off by an intervening FUNC", as the code decides it: when the
    walker's function table has no entry containing `a = instr - base`, the walker model reports
    * `(p.name, p.addr + base, p.psize)` for the nearest preceding PUBLIC `p` — and then every FUNC
      of the table starting at or below `a` starts strictly below `p`; or
    * nothing — and then no PUBLIC lies at or below `a`, or the nearest preceding PUBLIC is cut off:
      some FUNC of the table starts in `[p.addr, a]`. -/
theorem walk_public_rule (sf : Walk.SymFile) (base instr : Nat) (hge : base ≤ instr)
    (hnf : get (Walk.funcTable sf) (instr - base) = none) :
    (∃ p, WNearest sf.pubs (instr - base) p ∧
        (∀ e ∈ Walk.funcTable sf, e.1.lo ≤ instr - base → e.1.lo < p.addr) ∧
        Walk.fillSymbol sf (Walk.funcTable sf) base instr =
          some { name := p.name, base := p.addr + base, psize := p.psize }) ∨
    (Walk.fillSymbol sf (Walk.funcTable sf) base instr = none ∧
      ((∀ q ∈ sf.pubs, instr - base < q.addr) ∨
       ∃ p, WNearest sf.pubs (instr - base) p ∧
         ∃ e ∈ Walk.funcTable sf, e.1.lo ≤ instr - base ∧ p.addr ≤ e.1.lo)) := by
  obtain ⟨w1, w2⟩ := nearestPublic_max sf.pubs (instr - base)
  unfold Walk.fillSymbol
  rw [if_neg (by omega)]
  simp only [hnf]
  cases hp : Walk.nearestPublic sf.pubs (instr - base) with
  | none => exact .inr ⟨rfl, .inl (w2 hp)⟩
  | some p =>
    have hn : WNearest sf.pubs (instr - base) p := w1 p hp
    have hcut := pubTruncated_iff sf (instr - base) p hnf
    simp only
    by_cases ht : Walk.pubTruncated sf (Walk.funcTable sf) (instr - base) p = true
    · rw [if_pos ht]
      exact .inr ⟨rfl, .inr ⟨p, hn, hcut.mp ht⟩⟩
    · rw [if_neg ht]
      refine .inl ⟨p, hn, ?_, rfl⟩
      intro e he hle
      by_cases hlt : e.1.lo < p.addr
      · exact hlt
      · exact absurd (hcut.mpr ⟨e, he, hle, by omega⟩) ht

/-- **`walk_public_rule_from_c11`** — the same statement DERIVED from C11's `public_rule` (not
    re-proved on the walker model): for a `u64` instruction C11's model answers on the canonical
    related file (`c11_answers`), its answer is the walker model's (`walk_fill_eq_c11`), the two
    function tables have the same entry ranges and miss together (`ftab_sim`), and C11's
    `NearestPublic` of the translated records is `WNearest` (`WNearest_iff`). So C11.2 as proved about
    `MdModel.Symbolize` is literally a theorem about the walker model's `fillSymbol`.
    (`walk_public_rule` above needs no bound on `instr`; this one has it because C11's model answers
    only for `u64` instructions.) -/
theorem walk_public_rule_from_c11 (sf : Walk.SymFile) (base instr : Nat) (hi : instr ≤ U64MAX)
    (hge : base ≤ instr) (hnf : get (Walk.funcTable sf) (instr - base) = none) :
    (∃ p, WNearest sf.pubs (instr - base) p ∧
        (∀ e ∈ Walk.funcTable sf, e.1.lo ≤ instr - base → e.1.lo < p.addr) ∧
        Walk.fillSymbol sf (Walk.funcTable sf) base instr =
          some { name := p.name, base := p.addr + base, psize := p.psize }) ∨
    (Walk.fillSymbol sf (Walk.funcTable sf) base instr = none ∧
      ((∀ q ∈ sf.pubs, instr - base < q.addr) ∨
       ∃ p, WNearest sf.pubs (instr - base) p ∧
         ∃ e ∈ Walk.funcTable sf, e.1.lo ≤ instr - base ∧ p.addr ≤ e.1.lo)) := by
  obtain ⟨csf, fr, hb, hfr⟩ := c11_answers sf base instr hi
  have B := Symbolize.build_built hb
  obtain ⟨t1, _, t3⟩ := ftab_sim (recsOf_rel sf) (instr - base)
  rw [← B.funcs, ← B.ftab] at t1 t3
  have heq := walk_fill_eq_c11 (recsOf_rel sf) rfl rfl hb hfr
  -- C11's table has no entry at the address either
  have hnf' : Symbolize.funcAt csf.funcs csf.ftab (instr - base) = none := by
    cases hg : Symbolize.funcAt csf.funcs csf.ftab (instr - base) with
    | none => rfl
    | some g =>
      obtain ⟨i, w, _, hget, _⟩ := t1 g hg
      rw [hnf] at hget; cases hget
  -- the entries of the two tables start at the same addresses
  have hlo1 : ∀ e ∈ Walk.funcTable sf, ∃ e' ∈ csf.ftab, e'.1 = e.1 := by
    intro e he
    have : e.1 ∈ (Walk.funcTable sf).map (·.1) := List.mem_map_of_mem he
    rw [← t3] at this
    obtain ⟨e', he', h⟩ := List.mem_map.mp this
    exact ⟨e', he', h⟩
  have hlo2 : ∀ e' ∈ csf.ftab, ∃ e ∈ Walk.funcTable sf, e.1 = e'.1 := by
    intro e' he'
    have : e'.1 ∈ csf.ftab.map (·.1) := List.mem_map_of_mem he'
    rw [t3] at this
    obtain ⟨e, he, h⟩ := List.mem_map.mp this
    exact ⟨e, he, h⟩
  have hpubs : (recsOf sf).pubs = sf.pubs.map pubOf := rfl
  rcases Symbolize.public_rule hb hge hfr hnf' with ⟨p, hn, hcut, hfn⟩ | ⟨hfn, hrest⟩
  · left
    rw [hpubs] at hn
    obtain ⟨q, hq, rfl⟩ := List.mem_map.mp hn.1
    refine ⟨q, (WNearest_iff sf.pubs _ q).mpr ⟨hn, hq⟩, ?_, ?_⟩
    · intro e he hle
      obtain ⟨e', he', hee⟩ := hlo1 e he
      have := hcut e' he' (by rw [hee]; exact hle)
      rw [hee] at this
      exact this
    · rw [hfn] at heq
      cases hw : Walk.fillSymbol sf (Walk.funcTable sf) base instr with
      | none => rw [hw] at heq; cases heq
      | some g =>
        rw [hw] at heq
        simp only [Option.map_some, projW, pubOf, Option.some.injEq, Prod.mk.injEq] at heq
        obtain ⟨c1, c2, c3⟩ := heq
        obtain ⟨gn, gb, gp⟩ := g
        simp only at c1 c2 c3
        rw [nm_inj c1, c2, c3]
  · right
    rw [hfn] at heq
    refine ⟨?_, ?_⟩
    · cases hw : Walk.fillSymbol sf (Walk.funcTable sf) base instr with
      | none => rfl
      | some g => rw [hw] at heq; cases heq
    · rcases hrest with hall | ⟨p, hn, e', he', hle, hpa⟩
      · left
        intro q hq
        exact hall (pubOf q) (by rw [hpubs]; exact List.mem_map_of_mem hq)
      · right
        rw [hpubs] at hn
        obtain ⟨q, hq, rfl⟩ := List.mem_map.mp hn.1
        obtain ⟨e, he, hee⟩ := hlo2 e' he'
        exact ⟨q, (WNearest_iff sf.pubs _ q).mpr ⟨hn, hq⟩, e, he, by rw [hee]; exact hle, by rw [hee]; exact hpa⟩
/-- **`walk_bases_le`** (C11.3 `bases_le` through the bridge) — "reported function … base addresses
    never exceed the instruction": the base of the function the walker model puts on a frame is at
    most the frame's lookup address (so `function_base ≤ instruction` on every frame) -/
theorem walk_bases_le (sf : Walk.SymFile) (base instr : Nat) (hi : instr ≤ U64MAX)
    {g : Walk.FuncInfo} (hg : Walk.fillSymbol sf (Walk.funcTable sf) base instr = some g) :
    g.base ≤ instr := by
  obtain ⟨csf, fr, hb, hfr⟩ := c11_answers sf base instr hi
  have heq := walk_fill_eq_c11 (recsOf_rel sf) rfl rfl hb hfr
  rw [hg] at heq
  exact (Symbolize.bases_le hb hfr).1 _ _ _ heq.symm

/-! ## 3. every frame of every walk carries what C11's `fill_symbol` reports -/

/-- **`walk_frames_follow_c11`** — for every architecture, OS, module list with symbol records,
    stack memory and context: every frame of `walk (mkEnv …)` whose lookup address lies in a module
    `m` that has a symbol file `sf` carries EXACTLY the function C11's `fill_symbol` reports for that
    address in that module — name, base, parameter size — and no function when C11 reports none;
    for every C11 record list describing `sf`'s records (any sub-records). -/
theorem walk_frames_follow_c11 (arch : Walk.Arch) (os : Walk.Os) (w : Walk.World) (mem0 : Walk.Mem)
    (mem : Option Walk.Mem) (ctx : Walk.Ctx) :
    ∀ f ∈ Walk.walk (Walk.mkEnv arch os w mem0) mem ctx,
      ∀ i m sf, f.module = some i → w.mods[i]? = some m → w.syms[i]? = some (some sf) →
        ∀ (r : Symbolize.Recs) (csf : Symbolize.SymFile) (fr : Symbolize.Frame),
          FileRel sf r → r.win4 = [] → r.win0 = [] → Symbolize.build r = .ok csf →
          Symbolize.fillSymbol csf m.base f.instruction = .ok fr →
          f.func.map projW = fr.fn := by
  intro f hf i m sf hmod hm hsf r csf fr hrel h4 h0 hb hfr
  obtain ⟨h1, h2⟩ := Walk.walk_symbolised _ _ _ f hf
  have e : (Walk.mkEnv arch os w mem0).symb = Walk.symbOf w (Walk.modTable w.mods)
      (w.syms.map fun s => match s with
        | some sf => Walk.funcTable sf
        | none => []) := rfl
  rw [e] at h1 h2
  rw [h1] at hmod
  have hfun : (Walk.symbOf w (Walk.modTable w.mods) (w.syms.map fun s => match s with
        | some sf => Walk.funcTable sf
        | none => []) f.instruction) =
      (some i, Walk.fillSymbol sf (Walk.funcTable sf) m.base f.instruction) := by
    unfold Walk.symbOf at hmod ⊢
    cases hma : Walk.moduleAt (Walk.modTable w.mods) f.instruction with
    | none => rw [hma] at hmod; cases hmod
    | some j =>
      rw [hma] at hmod
      simp only at hmod ⊢
      have hj : j = i := by
        split at hmod <;> (simp only [Option.some.injEq] at hmod; exact hmod)
      subst hj
      simp only [hm, hsf, Option.join_some, List.getElem?_map, Option.map_some]
  rw [hfun] at h2
  simp only [Option.isSome_some, if_true] at h2
  rw [h2]
  exact walk_fill_eq_c11 hrel h4 h0 hb hfr

/-- the same, starting from a frame that carries a function: module, symbol file and C11's answer
    exist (C05 `walk_covered`, `c11_answers`), and the frame carries exactly that answer -/
theorem walk_func_frames_follow_c11 (arch : Walk.Arch) (os : Walk.Os) (w : Walk.World) (mem0 : Walk.Mem)
    (mem : Option Walk.Mem) (ctx : Walk.Ctx) :
    ∀ f ∈ Walk.walk (Walk.mkEnv arch os w mem0) mem ctx, ∀ g, f.func = some g →
      f.instruction ≤ U64MAX →
      ∃ i m sf csf fr, f.module = some i ∧ w.mods[i]? = some m ∧ w.syms[i]? = some (some sf) ∧
        Symbolize.build (recsOf sf) = .ok csf ∧
        Symbolize.fillSymbol csf m.base f.instruction = .ok fr ∧
        fr.fn = some (nm g.name, g.base, g.psize) := by
  intro f hf g hg hi
  obtain ⟨_, hc⟩ := Walk.walk_covered arch os w mem0 mem ctx f hf
  obtain ⟨i, m, sf, hmod, hm, hsf, _⟩ := hc g hg
  obtain ⟨csf, fr, hb, hfr⟩ := c11_answers sf m.base f.instruction hi
  have := walk_frames_follow_c11 arch os w mem0 mem ctx f hf i m sf hmod hm hsf _ csf fr
    (recsOf_rel sf) rfl rfl hb hfr
  rw [hg] at this
  exact ⟨i, m, sf, csf, fr, hmod, hm, hsf, hb, hfr, this.symm⟩

/-! ### … with STACK WIN records: the frames of `walk (mkEnvW …)` -/

/-- C11's STACK WIN table builds for ANY records with `u32` sizes (C08 `win_repair_no_panic`) -/
theorem winTable_ok_any (recs : List Rec) (h : ∀ x ∈ recs, x.size < 2 ^ 32) :
    ∃ t, Symbolize.winTable recs = .ok t := by
  obtain ⟨v, hv⟩ := win_repair_no_panic recs (by
    intro x hx
    have := h x hx
    have e : U32MAX = 2 ^ 32 - 1 := by decide
    omega)
  have hinv : WInv (fun _ => True) v :=
    insertWinAll_inv recs (fun x hx => ⟨h x hx, trivial⟩) [] v (fun p hp => by cases hp) hv
  unfold Symbolize.winTable
  rw [hv]
  refine ⟨_, safeP_ok _ ?_⟩
  intro e he
  obtain ⟨p, hp, rfl⟩ := List.mem_map.mp he
  have := mkRange_wf (hinv p hp).1
  exact ⟨this.1, this.2.1⟩

/-- C11's `SymbolParser::finish` builds every file whose STACK WIN sizes fit `u32` (C11's `build_ok`
    is for files without STACK WIN records) -/
theorem build_okW (r : Symbolize.Recs) (h4 : ∀ x ∈ r.win4, x.size < 2 ^ 32)
    (h0 : ∀ x ∈ r.win0, x.size < 2 ^ 32) : ∃ csf, Symbolize.build r = .ok csf := by
  obtain ⟨t4, e4⟩ := winTable_ok_any _ h4
  obtain ⟨t0, e0⟩ := winTable_ok_any _ h0
  unfold Symbolize.build
  simp only [Symbolize.finishAll_ok, safeP_ok _ (Symbolize.funcInput_wf _), e4, e0]
  exact ⟨_, rfl⟩

/-- C11 answers on the canonical related record list WITH the STACK WIN records -/
theorem c11_answersW (sf : Walk.SymFile) (wins : List Win.Rec) (hsz : ∀ x ∈ wins, x.size < 2 ^ 32)
    (base instr : Nat) (hi : instr ≤ U64MAX) :
    ∃ csf fr, Symbolize.build (recsOfW sf wins) = .ok csf ∧ Symbolize.fillSymbol csf base instr = .ok fr := by
  have hk : ∀ k, ∀ x ∈ kindOf k wins, x.size < 2 ^ 32 := by
    intro k x hx
    simp only [kindOf, List.mem_filterMap] at hx
    obtain ⟨w, hw, hx⟩ := hx
    split at hx
    · cases hx; exact hsz w hw
    · cases hx
  obtain ⟨csf, hb⟩ := build_okW (recsOfW sf wins) (hk isFd) (hk isFpo)
  obtain ⟨fr, hfr⟩ := Symbolize.fill_no_panic hb base instr hi (by
    intro f hf
    have hf' : f ∈ (recsOf sf).funcs := hf
    simp only [recsOf, List.mem_map] at hf'
    obtain ⟨w, _, rfl⟩ := hf'
    show ([] : List Symbolize.Inl).length + 1 < U32MAX
    decide)
  exact ⟨csf, fr, hb, hfr⟩

theorem winTables_nil : Walk.winTables [] = Walk.WinTables.empty := by
  have hnil : Win.buildTable [] = .ok [] := by
    unfold Win.buildTable
    simp only [List.map_nil, insertWinAll, List.reverse_nil]
    rw [safeP_ok [] (by intro e he; cases he)]
    simp [safeVecP, sortEntries, pass, keep]
  have e4 : wFd [] = [] := rfl
  have e0 : wFpo [] = [] := rfl
  rw [winTables_eq, e4, e0, hnil]
  rfl

/-- the STACK WIN records of module `i` (none when the list is shorter) -/
def winsAt (wins : List (List Win.Rec)) (i : Nat) : List Win.Rec := (wins[i]?).getD []

/-- `fill_source_line_info` of `mkEnvW`, spelled out: the module is `module_at_address`'s, and with
    a symbol file the function is `fillSymbolW` over the file's own tables -/
theorem symbOfW_spec (w : Walk.World) (wins : List (List Win.Rec)) (instr : Nat) :
    let r := Walk.symbOfW w (Walk.modTable w.mods) (w.syms.map fun s => match s with
        | some sf => Walk.funcTable sf
        | none => []) (wins.map Walk.winTables) instr
    ∀ i, r.1 = some i →
      (∀ m sf, w.mods[i]? = some m → w.syms[i]? = some (some sf) →
        r.2 = Walk.fillSymbolW sf (Walk.funcTable sf) (Walk.winTables (winsAt wins i)) m.base instr) ∧
      (∀ g, r.2 = some g → ∃ m sf, w.mods[i]? = some m ∧ w.syms[i]? = some (some sf)) := by
  intro r i hi
  have hr : r = Walk.symbOfW w (Walk.modTable w.mods) (w.syms.map fun s => match s with
        | some sf => Walk.funcTable sf
        | none => []) (wins.map Walk.winTables) instr := rfl
  unfold Walk.symbOfW at hr
  cases hma : Walk.moduleAt (Walk.modTable w.mods) instr with
  | none => rw [hma] at hr; rw [hr] at hi; cases hi
  | some j =>
    rw [hma] at hr
    simp only at hr
    have hwt : ((wins.map Walk.winTables)[j]?).getD Walk.WinTables.empty =
        Walk.winTables (winsAt wins j) := by
      unfold winsAt
      rw [List.getElem?_map]
      cases wins[j]? with
      | none => exact winTables_nil.symm
      | some ws => rfl
    rw [hwt] at hr
    have hj : j = i := by
      rw [hr] at hi
      split at hi <;> (simp only [Option.some.injEq] at hi; exact hi)
    subst hj
    constructor
    · intro m sf hm hsf
      rw [hr]
      simp only [hm, hsf, Option.join_some, List.getElem?_map, Option.map_some]
    · intro g hg
      rw [hr] at hg
      split at hg
      · rename_i m sf ft hm hsf hft
        refine ⟨m, sf, hm, ?_⟩
        cases hq : w.syms[j]? with
        | none => rw [hq] at hsf; cases hsf
        | some o => rw [hq] at hsf; simp only [Option.join_some] at hsf; rw [hsf]
      · cases hg

/-- **`walk_frames_follow_c11W`** — the same for walks over symbol files WITH STACK WIN records
    (`mkEnvW`: x86 frames found by STACK WIN, the parameter size of a FUNC taken from the frame-data /
    FPO record at the address): for every architecture, OS, module list with symbol records and per
    module STACK WIN lines, stack memory and context, every frame of `walk (mkEnvW …)` whose module
    `m` has a symbol file `sf` carries EXACTLY `fr.fn` of C11's `fill_symbol` — name, base, parameter
    size; none iff none — for every C11 record list describing `sf`'s FUNC / PUBLIC records and the
    module's STACK WIN records (`u32` sizes, at most `2^64` records). Together with
    `walk_frames_follow_c11` this covers both environments C14's `stacks_are_walks` uses. -/
theorem walk_frames_follow_c11W (arch : Walk.Arch) (os : Walk.Os) (w : Walk.World)
    (wins : List (List Win.Rec)) (mem0 : Walk.Mem) (mem : Option Walk.Mem) (ctx : Walk.Ctx) :
    ∀ f ∈ Walk.walk (Walk.mkEnvW arch os w wins mem0) mem ctx,
      ∀ i m sf, f.module = some i → w.mods[i]? = some m → w.syms[i]? = some (some sf) →
        ∀ (r : Symbolize.Recs) (csf : Symbolize.SymFile) (fr : Symbolize.Frame),
          FileRel sf r → WinRel (winsAt wins i) r →
          (∀ x ∈ winsAt wins i, x.size < 2 ^ 32) → (winsAt wins i).length ≤ 2 ^ 64 →
          Symbolize.build r = .ok csf →
          Symbolize.fillSymbol csf m.base f.instruction = .ok fr →
          f.func.map projW = fr.fn := by
  intro f hf i m sf hmod hm hsf r csf fr hrel hwin hsz hlen hb hfr
  obtain ⟨h1, h2⟩ := Walk.walk_symbolised _ _ _ f hf
  have e : (Walk.mkEnvW arch os w wins mem0).symb = Walk.symbOfW w (Walk.modTable w.mods)
      (w.syms.map fun s => match s with
        | some sf => Walk.funcTable sf
        | none => []) (wins.map Walk.winTables) := rfl
  rw [e] at h1 h2
  rw [h1] at hmod
  obtain ⟨s1, _⟩ := symbOfW_spec w wins f.instruction i hmod
  rw [hmod, s1 m sf hm hsf] at h2
  simp only [Option.isSome_some, if_true] at h2
  rw [h2]
  exact walk_fillW_eq_c11 hrel hwin hsz hlen hb hfr

/-- starting from a frame of `walk (mkEnvW …)` that carries a function: module, symbol file, built
    C11 file (with the module's STACK WIN records) and C11's answer exist, and the frame carries
    exactly that answer -/
theorem walk_func_frames_follow_c11W (arch : Walk.Arch) (os : Walk.Os) (w : Walk.World)
    (wins : List (List Win.Rec)) (mem0 : Walk.Mem) (mem : Option Walk.Mem) (ctx : Walk.Ctx)
    (hsz : ∀ ws ∈ wins, ∀ x ∈ ws, x.size < 2 ^ 32) (hlen : ∀ ws ∈ wins, ws.length ≤ 2 ^ 64) :
    ∀ f ∈ Walk.walk (Walk.mkEnvW arch os w wins mem0) mem ctx, ∀ g, f.func = some g →
      f.instruction ≤ U64MAX →
      ∃ i m sf csf fr, f.module = some i ∧ w.mods[i]? = some m ∧ w.syms[i]? = some (some sf) ∧
        Symbolize.build (recsOfW sf (winsAt wins i)) = .ok csf ∧
        Symbolize.fillSymbol csf m.base f.instruction = .ok fr ∧
        fr.fn = some (nm g.name, g.base, g.psize) := by
  intro f hf g hg hi
  obtain ⟨h1, h2⟩ := Walk.walk_symbolised _ _ _ f hf
  have e : (Walk.mkEnvW arch os w wins mem0).symb = Walk.symbOfW w (Walk.modTable w.mods)
      (w.syms.map fun s => match s with
        | some sf => Walk.funcTable sf
        | none => []) (wins.map Walk.winTables) := rfl
  rw [e] at h1 h2
  rw [hg] at h2
  have hsz' : ∀ i, ∀ x ∈ winsAt wins i, x.size < 2 ^ 32 := by
    intro i x hx
    unfold winsAt at hx
    cases hq : wins[i]? with
    | none => rw [hq] at hx; cases hx
    | some ws => rw [hq] at hx; exact hsz ws (List.mem_of_getElem? hq) x hx
  have hlen' : ∀ i, (winsAt wins i).length ≤ 2 ^ 64 := by
    intro i
    unfold winsAt
    cases hq : wins[i]? with
    | none => simp
    | some ws => exact hlen ws (List.mem_of_getElem? hq)
  split at h2
  · rename_i hsome
    obtain ⟨i, hi'⟩ := Option.isSome_iff_exists.mp hsome
    obtain ⟨_, s2⟩ := symbOfW_spec w wins f.instruction i hi'
    obtain ⟨m, sf, hm, hsf⟩ := s2 g h2.symm
    have hmod : f.module = some i := by rw [h1]; exact hi'
    obtain ⟨csf, fr, hb, hfr⟩ := c11_answersW sf (winsAt wins i) (hsz' i) m.base f.instruction hi
    have := walk_frames_follow_c11W arch os w wins mem0 mem ctx f hf i m sf hmod hm hsf _ csf fr
      (recsOfW_rel sf _).1 (recsOfW_rel sf _).2 (hsz' i) (hlen' i) hb hfr
    rw [hg] at this
    exact ⟨i, m, sf, csf, fr, hmod, hm, hsf, hb, hfr, this.symm⟩
  · cases h2

/-! ## 4. the by-symbols validation of scanned return addresses, through C11 -/

/-- what C11's `fill_symbol` must report for a scanned word to pass
    `instruction_seems_valid_by_symbols` (minidump-unwind/src/lib.rs:825-906): a function with a
    non-empty name (`DummyFrame::set_function`: `has_name = !name.is_empty()`) -/
def C11Named (fr : Symbolize.Frame) : Prop := ∃ n b p, fr.fn = some (n, b, p) ∧ n ≠ []

/-- the function tables `mkEnv` / `mkEnvW` hand to `instrOkOf` -/
def ftblsOf (w : Walk.World) : List (List Entry) :=
  w.syms.map fun s => match s with
    | some sf => Walk.funcTable sf
    | none => []

/-- the scan validation of both environments is `instrOkOf` over the modules' own function tables -/
theorem mkEnv_instrOk (arch : Walk.Arch) (os : Walk.Os) (w : Walk.World) (wins : List (List Win.Rec))
    (mem0 : Walk.Mem) :
    (Walk.mkEnv arch os w mem0).instrOk = Walk.instrOkOf w (Walk.modTable w.mods) (ftblsOf w) ∧
    (Walk.mkEnvW arch os w wins mem0).instrOk = Walk.instrOkOf w (Walk.modTable w.mods) (ftblsOf w) :=
  ⟨rfl, rfl⟩

theorem nm_empty : nm "" = [] := by decide

/-- **`instr_ok_follows_c11`** — the by-symbols validation of a scanned word `ip` (the walker model's
    `instrOkOf`, used by `mkEnv` and `mkEnvW` for every scan candidate), stated through C11's
    `fill_symbol`. With `a = ip - 1` (`saturating_sub(1)`):
    * a word is accepted only if `a ≠ 0` and a module of the list covers `a`;
    * if that module has no symbol file, the word is accepted;
    * if it has the symbol file `sf`, the word is accepted IFF C11's `fill_symbol` — on ANY C11
      record list describing `sf`'s FUNC / PUBLIC records (any sub-records, any STACK WIN records),
      at the module's base and `a` — reports a function with a non-empty name (`C11Named`).
    So C11's `func_covers` / `public_rule` say exactly which scanned words pass: those for which a
    FUNC of the table contains `a - base`, or the nearest preceding PUBLIC is not cut off by a
    FUNC — with a non-empty name. -/
theorem instr_ok_follows_c11 (w : Walk.World) (ip : Nat) :
    (Walk.instrOkOf w (Walk.modTable w.mods) (ftblsOf w) ip = true →
      ip - 1 ≠ 0 ∧ ∃ i m, Walk.moduleAt (Walk.modTable w.mods) (ip - 1) = some i ∧
        w.mods[i]? = some m ∧ m.base ≤ ip - 1 ∧ ip - 1 < m.base + m.size) ∧
    (∀ i, ip - 1 ≠ 0 → Walk.moduleAt (Walk.modTable w.mods) (ip - 1) = some i →
      ((w.syms[i]?).join = none → Walk.instrOkOf w (Walk.modTable w.mods) (ftblsOf w) ip = true) ∧
      (∀ m sf, w.mods[i]? = some m → w.syms[i]? = some (some sf) →
        ∀ (r : Symbolize.Recs) (csf : Symbolize.SymFile) (fr : Symbolize.Frame),
          FileRel sf r → Symbolize.build r = .ok csf →
          Symbolize.fillSymbol csf m.base (ip - 1) = .ok fr →
          (Walk.instrOkOf w (Walk.modTable w.mods) (ftblsOf w) ip = true ↔ C11Named fr))) := by
  constructor
  · intro h
    unfold Walk.instrOkOf at h
    simp only at h
    by_cases h0 : ip - 1 = 0
    · rw [if_pos h0] at h; cases h
    · refine ⟨h0, ?_⟩
      rw [if_neg h0] at h
      cases hma : Walk.moduleAt (Walk.modTable w.mods) (ip - 1) with
      | none => rw [hma] at h; cases h
      | some i =>
        obtain ⟨m, hm, h1, h2⟩ := Walk.moduleAt_sound _ _ _ hma
        exact ⟨i, m, rfl, hm, h1, h2⟩
  · intro i h0 hma
    obtain ⟨m, hm, _, _⟩ := Walk.moduleAt_sound _ _ _ hma
    constructor
    · intro hj
      unfold Walk.instrOkOf
      simp only [if_neg h0, hma, hm, hj]
    · intro m' sf hm' hsf r csf fr hrel hb hfr
      rw [hm] at hm'
      cases hm'
      have hname := walk_fill_name_base_eq_c11 hrel hb hfr
      unfold Walk.instrOkOf ftblsOf
      simp only [if_neg h0, hma, hm, hsf, Option.join_some, List.getElem?_map, Option.map_some]
      cases hw : Walk.fillSymbol sf (Walk.funcTable sf) m.base (ip - 1) with
      | none =>
        rw [hw] at hname
        simp only [Option.map_none] at hname
        constructor
        · intro h; cases h
        · rintro ⟨n, b, p, hfn, _⟩
          rw [hfn] at hname; cases hname
      | some g =>
        rw [hw] at hname
        simp only [Option.map_some] at hname
        simp only [decide_eq_true_eq]
        constructor
        · intro hne
          cases hfn : fr.fn with
          | none => rw [hfn] at hname; cases hname
          | some t =>
            obtain ⟨n, b, p⟩ := t
            rw [hfn] at hname
            simp only [Option.map_some, Option.some.injEq, Prod.mk.injEq] at hname
            refine ⟨n, b, p, hfn, ?_⟩
            rw [← hname.1, ← nm_empty]
            exact fun e => hne (nm_inj e)
        · rintro ⟨n, b, p, hfn, hn⟩ he
          rw [hfn] at hname
          simp only [Option.map_some, Option.some.injEq, Prod.mk.injEq] at hname
          rw [he, nm_empty] at hname
          exact hn hname.1.symm

/-- an accepted scanned word in a module with symbols, in C11's terms (`func_covers` through the
    bridge): `ip - 1` lies in a FUNC record of the file with a valid range (its name non-empty), or
    no FUNC of the table contains it and a PUBLIC with a non-empty name lies at or below it -/
theorem instr_ok_covered (w : Walk.World) (ip i : Nat) (m : Walk.Module) (sf : Walk.SymFile)
    (hip : ip - 1 ≤ U64MAX)
    (hok : Walk.instrOkOf w (Walk.modTable w.mods) (ftblsOf w) ip = true)
    (hma : Walk.moduleAt (Walk.modTable w.mods) (ip - 1) = some i)
    (hm : w.mods[i]? = some m) (hsf : w.syms[i]? = some (some sf)) :
    m.base ≤ ip - 1 ∧
    ((∃ f ∈ sf.funcs, f.name ≠ "" ∧ 0 < f.size ∧ f.addr + f.size ≤ U64MAX ∧
        f.addr ≤ ip - 1 - m.base ∧ ip - 1 - m.base < f.addr + f.size) ∨
     (RangeMap.get (Walk.funcTable sf) (ip - 1 - m.base) = none ∧
        ∃ p ∈ sf.pubs, p.name ≠ "" ∧ p.addr ≤ ip - 1 - m.base)) := by
  obtain ⟨h0, _⟩ := (instr_ok_follows_c11 w ip).1 hok
  obtain ⟨csf, fr, hb, hfr⟩ := c11_answers sf m.base (ip - 1) hip
  have hnamed := ((((instr_ok_follows_c11 w ip).2 i h0 hma).2 m sf hm hsf _ csf fr
    (recsOf_rel sf) hb hfr).mp hok)
  obtain ⟨n, b, p, hfn, hn⟩ := hnamed
  have heq := walk_fill_eq_c11 (recsOf_rel sf) rfl rfl hb hfr
  rw [hfn] at heq
  cases hw : Walk.fillSymbol sf (Walk.funcTable sf) m.base (ip - 1) with
  | none => rw [hw] at heq; cases heq
  | some g =>
    rw [hw] at heq
    simp only [Option.map_some, projW, Option.some.injEq, Prod.mk.injEq] at heq
    have hgn : g.name ≠ "" := by
      intro e
      rw [e, nm_empty] at heq
      exact hn heq.1.symm
    obtain ⟨hge, hc⟩ := walk_func_covers sf m.base (ip - 1) hip hw
    refine ⟨hge, ?_⟩
    rcases hc with ⟨f, hf, c1, _, c3, c4, c5, c6⟩ | ⟨hnone, q, hq, c1, _, _, c4⟩
    · exact .inl ⟨f, hf, by rw [← c1]; exact hgn, c3, c4, c5, c6⟩
    · exact .inr ⟨hnone, q, hq, by rw [← c1]; exact hgn, c4⟩

/-! ## non-vacuity: a concrete file, both models computed -/

/-- `FUNC 10 20 4 f`, `PUBLIC 8 0 p`, `PUBLIC 40 8 q` (hex) -/
def exSf : Walk.SymFile :=
  { funcs := [⟨0x10, 0x20, 4, "f"⟩], pubs := [⟨8, 0, "p"⟩, ⟨0x40, 8, "q"⟩] }

/-- the same file as C11 records with a line record and an INLINE record under the FUNC -/
def exRecs : Symbolize.Recs :=
  { files := [(1, [97])], origins := [(2, [98])],
    funcs := [⟨0x10, 0x20, 4, [102], [⟨0x10, 0x20, 1, 7⟩], [⟨0, 0x18, 4, 1, 9, 2⟩]⟩],
    pubs := [⟨8, [112], 0⟩, ⟨0x40, [113], 8⟩] }

theorem ex_rel : FileRel exSf exRecs := ⟨by decide, by decide⟩

theorem ex_funcTable : Walk.funcTable exSf = [(⟨0x10, 0x2f⟩, 0)] := by
  unfold Walk.funcTable safeVecP sortEntries
  simp [exSf, mkRange, U64MAX, pass, keep]

/-- the walker model computed: inside the FUNC; below it the PUBLIC `p`; just after the FUNC `p`
    is cut off by the FUNC at 0x10; from 0x40 the PUBLIC `q`; below the module base nothing -/
theorem ex_walk :
    Walk.fillSymbol exSf (Walk.funcTable exSf) 0x1000 0x1018 = some ⟨"f", 0x1010, 4⟩ ∧
    Walk.fillSymbol exSf (Walk.funcTable exSf) 0x1000 0x100c = some ⟨"p", 0x1008, 0⟩ ∧
    Walk.fillSymbol exSf (Walk.funcTable exSf) 0x1000 0x1034 = none ∧
    Walk.fillSymbol exSf (Walk.funcTable exSf) 0x1000 0x1044 = some ⟨"q", 0x1040, 8⟩ ∧
    Walk.fillSymbol exSf (Walk.funcTable exSf) 0x1000 0xfff = none := by
  rw [ex_funcTable]
  refine ⟨by decide, by decide, by decide, by decide, by decide⟩

/-- C11's model on the same file (with its sub-records), for every answer it can give: by the
    bridge, the function it reports is the one the walker model computed above -/
example (csf : Symbolize.SymFile) (hb : Symbolize.build exRecs = .ok csf) (fr1 fr2 fr3 fr4 fr5 : Symbolize.Frame)
    (h1 : Symbolize.fillSymbol csf 0x1000 0x1018 = .ok fr1)
    (h2 : Symbolize.fillSymbol csf 0x1000 0x100c = .ok fr2)
    (h3 : Symbolize.fillSymbol csf 0x1000 0x1034 = .ok fr3)
    (h4 : Symbolize.fillSymbol csf 0x1000 0x1044 = .ok fr4)
    (h5 : Symbolize.fillSymbol csf 0x1000 0xfff = .ok fr5) :
    fr1.fn = some ([102], 0x1010, 4) ∧ fr2.fn = some ([112], 0x1008, 0) ∧ fr3.fn = none ∧
    fr4.fn = some ([113], 0x1040, 8) ∧ fr5.fn = none := by
  obtain ⟨w1, w2, w3, w4, w5⟩ := ex_walk
  rw [← walk_fill_eq_c11 ex_rel rfl rfl hb h1, ← walk_fill_eq_c11 ex_rel rfl rfl hb h2,
    ← walk_fill_eq_c11 ex_rel rfl rfl hb h3, ← walk_fill_eq_c11 ex_rel rfl rfl hb h4,
    ← walk_fill_eq_c11 ex_rel rfl rfl hb h5, w1, w2, w3, w4, w5]
  decide

/-- … and such a built file and answers exist -/
example : ∃ csf fr, Symbolize.build exRecs = .ok csf ∧ Symbolize.fillSymbol csf 0x1000 0x1018 = .ok fr := by
  obtain ⟨csf, hb⟩ := Symbolize.build_ok exRecs rfl rfl
  obtain ⟨fr, hfr⟩ := Symbolize.fill_no_panic hb 0x1000 0x1018 (by decide)
    (by intro f hf; simp only [exRecs, List.mem_singleton] at hf; subst hf; decide)
  exact ⟨csf, fr, hb, hfr⟩

/-- `walk_public_rule` / `walk_func_covers` / `walk_bases_le` on the concrete file -/
example : ∃ g, Walk.fillSymbol exSf (Walk.funcTable exSf) 0x1000 0x1018 = some g ∧ g.base ≤ 0x1018 :=
  ⟨_, ex_walk.1, walk_bases_le exSf 0x1000 0x1018 (by decide) ex_walk.1⟩

/-- a walk whose context frame lies in the module: the frame carries C11's answer -/
def exWorld : Walk.World := { mods := [⟨0x1000, 0x100, "m"⟩], syms := [some exSf] }

theorem ex_modTable : Walk.modTable exWorld.mods = [(⟨0x1000, 0x10ff⟩, 0)] := by
  simp [Walk.modTable, exWorld, safeVec, sortOpt, validOnly, pass, keep, mkRange, List.zipIdx, U64MAX]

/-- the only frame of the walk of a context at 0x1018 (no stack memory) lies in module 0 and
    carries `f @ 0x1010 / 4` — which is, by `walk_frames_follow_c11`, what C11's model answers on
    `exRecs` (the records with their line / INLINE sub-records) -/
example (csf : Symbolize.SymFile) (hb : Symbolize.build exRecs = .ok csf) (fr : Symbolize.Frame)
    (h : Symbolize.fillSymbol csf 0x1000 0x1018 = .ok fr) :
    ∀ f ∈ Walk.walk (Walk.mkEnv .amd64 .other exWorld ⟨0, #[], false⟩) none { ip := 0x1018, sp := 0 },
      f.module = some 0 ∧ f.func = some ⟨"f", 0x1010, 4⟩ ∧ fr.fn = some ([102], 0x1010, 4) := by
  intro f hf
  have hw := walk_frames_follow_c11 .amd64 .other exWorld ⟨0, #[], false⟩ none { ip := 0x1018, sp := 0 } f hf
  obtain ⟨h1, h2⟩ := Walk.walk_symbolised _ _ _ f hf
  have hi : f.instruction = 0x1018 := by
    simp only [Walk.walk, Option.bind_none, List.mem_singleton] at hf
    subst hf; rfl
  have e : (Walk.mkEnv .amd64 .other exWorld ⟨0, #[], false⟩).symb 0x1018 =
      (some 0, Walk.fillSymbol exSf (Walk.funcTable exSf) 0x1000 0x1018) := by
    show Walk.symbOf exWorld (Walk.modTable exWorld.mods) _ 0x1018 = _
    rw [ex_modTable]
    rfl
  rw [hi, e] at h1 h2
  simp only [Option.isSome_some, if_true, ex_walk.1] at h2
  have := hw 0 ⟨0x1000, 0x100, "m"⟩ exSf h1 rfl rfl exRecs csf fr ex_rel rfl rfl hb (by rw [hi]; exact h)
  rw [h2] at this
  exact ⟨h1, h2, this.symm⟩

/-! ### non-vacuity, STACK WIN: frame data over FPO over FUNC, a PUBLIC left alone -/

/-- `STACK WIN 4 10 8 … 8 … 1 $eip 4 + ^ =` (frame data, parameter size 8),
    `STACK WIN 0 10 20 … c … 0 1` (FPO, parameter size 12), and a line whose type and
    `has_program_string` disagree (ignored by the parser) -/
def exWins : List Win.Rec :=
  [ ⟨'4', 0x10, 8, 8, 0, 0, '1', "$eip 4 + ^ =".toList⟩,
    ⟨'0', 0x10, 0x20, 12, 0, 0, '0', ['1']⟩,
    ⟨'4', 0x10, 0x20, 16, 0, 0, '0', ['1']⟩ ]

/-- `exRecs` (with its line / INLINE sub-records) plus C11's reading of those STACK WIN lines -/
def exRecsW : Symbolize.Recs := { exRecs with win4 := [⟨0x10, 8, 8⟩], win0 := [⟨0x10, 0x20, 12⟩] }

theorem ex_winRel : WinRel exWins exRecsW := ⟨by decide, by decide⟩

theorem ex_relW : FileRel exSf exRecsW := ⟨by decide, by decide⟩

theorem ex_winTables : Walk.winTables exWins =
    { typed := exWins.map Win.classifyRec,
      fd := [(⟨0x10, 0x17⟩, (Rec.mk 0x10 8 0).enc)], fpo := [(⟨0x10, 0x2f⟩, (Rec.mk 0x10 0x20 1).enc)] } := by
  have e4 : wFd exWins = [(0x10, 8, 0)] := by decide
  have e0 : wFpo exWins = [(0x10, 0x20, 1)] := by decide
  have b4 : Win.buildTable [(0x10, 8, 0)] = .ok [(⟨0x10, 0x17⟩, (Rec.mk 0x10 8 0).enc)] := by
    unfold Win.buildTable
    simp [insertWinAll, insertWin, mkRange, U64MAX, safeP, tryFromIter, safeVecP, sortEntries, pass, keep, disc]
  have b0 : Win.buildTable [(0x10, 0x20, 1)] = .ok [(⟨0x10, 0x2f⟩, (Rec.mk 0x10 0x20 1).enc)] := by
    unfold Win.buildTable
    simp [insertWinAll, insertWin, mkRange, U64MAX, safeP, tryFromIter, safeVecP, sortEntries, pass, keep, disc]
  rw [winTables_eq, e4, e0, b4, b0]

/-- the walker model computed: at 0x18 only the FPO record covers ⇒ 12; at 0x10 frame data wins ⇒ 8
    (the FUNC says 4); the PUBLIC at 0x0c keeps its own 0 -/
theorem ex_walkW :
    Walk.fillSymbolW exSf (Walk.funcTable exSf) (Walk.winTables exWins) 0x1000 0x1018 = some ⟨"f", 0x1010, 12⟩ ∧
    Walk.fillSymbolW exSf (Walk.funcTable exSf) (Walk.winTables exWins) 0x1000 0x1010 = some ⟨"f", 0x1010, 8⟩ ∧
    Walk.fillSymbolW exSf (Walk.funcTable exSf) (Walk.winTables exWins) 0x1000 0x100c = some ⟨"p", 0x1008, 0⟩ := by
  rw [ex_winTables, ex_funcTable]
  refine ⟨by decide, by decide, by decide⟩

/-- `walk_fillW_eq_c11` on the concrete file: every hypothesis holds, C11's model (records WITH
    sub-records and STACK WIN triples) answers exactly what the walker model computed -/
example (csf : Symbolize.SymFile) (hb : Symbolize.build exRecsW = .ok csf) (fr1 fr2 fr3 : Symbolize.Frame)
    (h1 : Symbolize.fillSymbol csf 0x1000 0x1018 = .ok fr1)
    (h2 : Symbolize.fillSymbol csf 0x1000 0x1010 = .ok fr2)
    (h3 : Symbolize.fillSymbol csf 0x1000 0x100c = .ok fr3) :
    fr1.fn = some ([102], 0x1010, 12) ∧ fr2.fn = some ([102], 0x1010, 8) ∧ fr3.fn = some ([112], 0x1008, 0) := by
  have hs : ∀ w ∈ exWins, w.size < 2 ^ 32 := by decide
  have hl : exWins.length ≤ 2 ^ 64 := by decide
  obtain ⟨w1, w2, w3⟩ := ex_walkW
  rw [← walk_fillW_eq_c11 ex_relW ex_winRel hs hl hb h1, ← walk_fillW_eq_c11 ex_relW ex_winRel hs hl hb h2,
    ← walk_fillW_eq_c11 ex_relW ex_winRel hs hl hb h3, w1, w2, w3]
  decide

/-- … and such a built file and answer exist -/
example : ∃ csf fr, Symbolize.build exRecsW = .ok csf ∧ Symbolize.fillSymbol csf 0x1000 0x1018 = .ok fr := by
  obtain ⟨csf, hb⟩ := build_okW exRecsW (by decide) (by decide)
  obtain ⟨fr, hfr⟩ := Symbolize.fill_no_panic hb 0x1000 0x1018 (by decide)
    (by intro f hf
        have hf' : f ∈ exRecs.funcs := hf
        simp only [exRecs, List.mem_singleton] at hf'; subst hf'; decide)
  exact ⟨csf, fr, hb, hfr⟩

/-- a walk of `mkEnvW` (module 0 with `exSf` and `exWins`): the context frame at 0x1018 carries
    `f @ 0x1010` with the FPO record's parameter size 12 — by `walk_frames_follow_c11W` C11's answer
    on `exRecsW` -/
example (csf : Symbolize.SymFile) (hb : Symbolize.build exRecsW = .ok csf) (fr : Symbolize.Frame)
    (h : Symbolize.fillSymbol csf 0x1000 0x1018 = .ok fr) :
    ∀ f ∈ Walk.walk (Walk.mkEnvW .amd64 .other exWorld [exWins] ⟨0, #[], false⟩) none { ip := 0x1018, sp := 0 },
      f.module = some 0 ∧ f.func = some ⟨"f", 0x1010, 12⟩ ∧ fr.fn = some ([102], 0x1010, 12) := by
  intro f hf
  have hw := walk_frames_follow_c11W .amd64 .other exWorld [exWins] ⟨0, #[], false⟩ none { ip := 0x1018, sp := 0 } f hf
  obtain ⟨h1, h2⟩ := Walk.walk_symbolised _ _ _ f hf
  have hi : f.instruction = 0x1018 := by
    simp only [Walk.walk, Option.bind_none, List.mem_singleton] at hf
    subst hf; rfl
  have e : (Walk.mkEnvW .amd64 .other exWorld [exWins] ⟨0, #[], false⟩).symb 0x1018 =
      (some 0, Walk.fillSymbolW exSf (Walk.funcTable exSf) (Walk.winTables exWins) 0x1000 0x1018) := by
    show Walk.symbOfW exWorld (Walk.modTable exWorld.mods) _ _ 0x1018 = _
    rw [ex_modTable]
    rfl
  rw [hi, e] at h1 h2
  simp only [Option.isSome_some, if_true, ex_walkW.1] at h2
  have := hw 0 ⟨0x1000, 0x100, "m"⟩ exSf h1 rfl rfl exRecsW csf fr ex_relW ex_winRel
    (by decide) (by decide) hb (by rw [hi]; exact h)
  rw [h2] at this
  exact ⟨h1, h2, this.symm⟩

/-! ### non-vacuity, scan validation -/

theorem ex_instrOk :
    Walk.instrOkOf exWorld (Walk.modTable exWorld.mods) (ftblsOf exWorld) 0x1019 = true ∧
    Walk.instrOkOf exWorld (Walk.modTable exWorld.mods) (ftblsOf exWorld) 0x1035 = false ∧
    Walk.instrOkOf exWorld (Walk.modTable exWorld.mods) (ftblsOf exWorld) 0x2001 = false := by
  have e : ftblsOf exWorld = [Walk.funcTable exSf] := rfl
  rw [e, ex_modTable, ex_funcTable]
  refine ⟨by decide, by decide, by decide⟩

/-- `instr_ok_follows_c11` on the concrete module: the scanned word 0x1019 (inside the FUNC) passes
    and C11 reports a named function there; 0x1035 (the PUBLIC cut off by the FUNC) is rejected and
    C11 reports nothing there -/
example (csf : Symbolize.SymFile) (hb : Symbolize.build exRecs = .ok csf) (fr1 fr2 : Symbolize.Frame)
    (h1 : Symbolize.fillSymbol csf 0x1000 0x1018 = .ok fr1)
    (h2 : Symbolize.fillSymbol csf 0x1000 0x1034 = .ok fr2) : C11Named fr1 ∧ ¬ C11Named fr2 := by
  have m1 : Walk.moduleAt (Walk.modTable exWorld.mods) (0x1019 - 1) = some 0 := by rw [ex_modTable]; decide
  have m2 : Walk.moduleAt (Walk.modTable exWorld.mods) (0x1035 - 1) = some 0 := by rw [ex_modTable]; decide
  have a1 := ((instr_ok_follows_c11 exWorld 0x1019).2 0 (by decide) m1).2 ⟨0x1000, 0x100, "m"⟩ exSf rfl rfl
    exRecs csf fr1 ex_rel hb h1
  have a2 := ((instr_ok_follows_c11 exWorld 0x1035).2 0 (by decide) m2).2 ⟨0x1000, 0x100, "m"⟩ exSf rfl rfl
    exRecs csf fr2 ex_rel hb h2
  refine ⟨a1.mp ex_instrOk.1, fun hn => ?_⟩
  have := a2.mpr hn
  rw [ex_instrOk.2.1] at this
  cases this

end MdModel.SymBridge
