/-
  C04 — Stack walking recovers the true call chain of well-formed stacks.

  Property text: "For every synthetic thread whose stack is laid out by the platform calling
  convention (frame-pointer chains), described by STACK CFI or STACK WIN records, or findable only
  by scanning for return addresses, on x86, x86-64, ARM, ARM64 (both context layouts) and MIPS, the
  walker returns exactly the generated call chain. Each generated call yields one frame with the
  right return address, stack pointer, recovered callee-saved registers, technique label, module
  and function name, and the walk stops at the generated end of stack."

  What is a theorem here, and what is not (claimed: proof, PARTIAL per technique):

  * frame-pointer chains — PROVED for chains of ANY depth (induction on the chain) on x86, x86-64
    (non-Windows), ARM (iOS) and ARM64 (both layouts): `walk_layout_fp` (any environment in which CFI
    yields nothing) and `walk_layout_fp_concrete` (the environment built from a module list and
    symbol records without STACK CFI). The hypothesis is the decidable predicate `preFp`
    (`MdModel/Walk/Layout.lean`), stated on memory words only; the `chain` engine has the driver
    evaluate it (`Pre`) on every generated case.
    Windows x86-64 (record up to 240 bytes above `rbp`, probed in 16-byte steps): PROVED as
    `walk_layout_fp_win` for chains of any depth, under `preFpWin` (= `preFp` with an 8-byte aligned
    outermost record at or above the last stack pointer).
  * scan-only chains — PROVED for chains of ANY depth on all seven context kinds/modes:
    `walk_layout_scan` (ARM64 both layouts, MIPS64) and `walk_layout_scan'` (x86, x86-64 — the junk
    words below 4096 defeat the scanners' frame-pointer recovery —, ARM32 not iOS, MIPS32 with its
    4-word skip), with `_concrete` versions from `Pre … .scan`; hypothesis `preScan`: junk words
    below 4096 that are not valid instructions, inside the 160/40-word (MIPS: 1024-byte) window,
    then a valid instruction; zero words at the end.
  * canonical STACK CFI chains — PROVED for chains of ANY depth on all seven context kinds/modes:
    `walk_layout_cfi` in `MdProofs/C04Cfi.lean` (hypothesis `Pre … .cfi` = `preCfi`, evaluated on
    every generated `cfi` case).
  * technique changing from frame to frame — the model (`mkEnvW`, MdModel/Walk/WinWalk.lean) and the
    precondition `PreW` (MdModel/Walk/LayoutMixed.lean) cover all four techniques on all
    architectures and are evaluated / compared on every generated `mixed` and `win` case. PROVED:
    `walk_layout_mixed_partial` — ARM64 (both layouts) stacks mixing frame-pointer records and
    scanned frames in any order, any depth — through the generic chain induction
    `walkLoop_chain_generic` (Lemmas/WalkChainMixed.lean). `walk_layout_win` (x86 STACK WIN chains,
    any depth) and the x86 part of `walk_layout_mixed` without STACK CFI frames are PROVED in
    `MdProofs/C04Win.lean`; the full statement `walk_layout_mixed` — all four techniques, any order,
    any depth, all seven context kinds/modes, from `PreW` — is PROVED in `MdProofs/C04Mixed.lean`.
-/
import MdProofs.Lemmas.WalkChain
import MdProofs.Lemmas.WalkScanChain
import MdProofs.Lemmas.WalkChainMixed
import MdProofs.Lemmas.WalkFpWin
import MdProofs.Lemmas.WalkScanChain32
namespace MdModel.Walk
open MdModel

/-- CFI / STACK WIN evaluation yields nothing for any frame (symbol files without such records) -/
def NoCfi (env : Env) : Prop := ∀ f g, env.cfi f g = none

/-- **C04, frame-pointer chains (any depth).** In an environment without CFI, for a context whose
    registers are all valid and a stack memory on which `preFp` holds for the generated chain, the
    walker returns exactly: the context frame, then one frame per generated call with the generated
    return address, stack pointer and saved frame pointer, found by `frame_pointer`, lookup address
    `ret - adj`, module and function as symbolication of that address gives them — and nothing
    after the generated end of stack. -/
theorem walk_layout_fp (env : Env) (a : Arch) (harch : env.arch = a) (ha : a.hasFp = true)
    (hwin : a = .amd64 → env.os ≠ .windows) (hcfi : NoCfi env)
    (mem : Mem) (hm : mem.range?.isSome = true) (ctx : Ctx) (hv : ctx.valid = none) (h64 : ctx.m64 = false)
    (chain : List Exp)
    (hpre : preFp a env.os env.mask mem ctx.sp (ctx.raw a a.fpName) chain = true) :
    walk env (some mem) ctx = symbolise env (Frame.ofCtx ctx .context) :: expectedFp env a chain := by
  have hused : (some mem).bind (fun m => m.range?.map fun _ => m) = some mem := by
    obtain ⟨r, hr⟩ := Option.isSome_iff_exists.mp hm
    simp [hr]
  unfold walk
  simp only [hused]
  have hstep : ∀ (f : Frame) (g : Option Frame) (e : Exp) (sp fp : Nat), FpView a f.ctx sp fp →
      linkFp a env.os env.mask mem sp fp e = true → step env mem f g = some (fpFrame a e) := by
    intro f g e sp fp hvw hl
    cases a <;> simp only [Arch.hasFp, Bool.false_eq_true] at ha
    · exact step_fp_x86 harch hcfi hvw hl
    · exact step_fp_amd64 harch (hwin rfl) hcfi hvw hl
    · exact step_fp_arm harch hcfi hvw hl
    · exact step_fp_arm64 (Or.inl rfl) harch hcfi hvw hl
    · exact step_fp_arm64 (Or.inr rfl) harch hcfi hvw hl
  have hend : ∀ (f : Frame) (g : Option Frame) (sp fp : Nat), FpView a f.ctx sp fp →
      endFp a env.os mem sp fp = true → step env mem f g = none := by
    intro f g sp fp hvw he
    cases a <;> simp only [Arch.hasFp, Bool.false_eq_true] at ha
    · exact step_end_x86 harch hcfi hvw he
    · exact step_end_amd64 harch (hwin rfl) hcfi hvw he
    · exact step_end_arm harch hcfi hvw he
    · exact step_end_arm64 (Or.inl rfl) harch hcfi hvw he
    · exact step_end_arm64 (Or.inr rfl) harch hcfi hvw he
  exact walkLoop_fp_chain hstep hend ha chain (walkFuel mem) (Frame.ofCtx ctx .context) none ctx.sp
    (ctx.raw a a.fpName) (view_context a ha ctx hv h64) hpre (need_context_le mem ctx)

/-- the generated frames: what the property text lists, frame by frame -/
theorem expectedFp_spec (env : Env) (a : Arch) (ha : a.hasFp = true) (chain : List Exp) (i : Nat)
    (h : i < chain.length) :
    ((expectedFp env a chain)[i]'(by simpa [expectedFp] using h)).ctx.ip = chain[i].ret ∧
    ((expectedFp env a chain)[i]'(by simpa [expectedFp] using h)).ctx.sp = chain[i].sp ∧
    ((expectedFp env a chain)[i]'(by simpa [expectedFp] using h)).trust = .fp ∧
    ((expectedFp env a chain)[i]'(by simpa [expectedFp] using h)).instruction = chain[i].ret - a.adj ∧
    ((expectedFp env a chain)[i]'(by simpa [expectedFp] using h)).ctx.raw a a.fpName = chain[i].fp.getD 0 := by
  simp only [expectedFp, List.getElem_map, symbolise_ctx, symbolise_trust, symbolise_instruction]
  cases a <;> simp only [Arch.hasFp, Bool.false_eq_true] at ha
  all_goals exact ⟨rfl, rfl, rfl, rfl, rfl⟩

/-! ### the concrete environment: symbol files without STACK CFI -/

theorem get_empty (a : Nat) : RangeMap.get (RangeMap.safeVecP []) a = none := by
  simp [RangeMap.safeVecP, RangeMap.pass, RangeMap.sortEntries, RangeMap.keep, RangeMap.get,
    RangeMap.bsearch, RangeMap.bsearch.go]

theorem cfiWalk_noCfi (a : Arch) (w : World) (mem : Mem) (f : Frame) (h : noCfi w = true) :
    cfiWalk a w (modTable w.mods) (cfiTables w) mem f = none := by
  unfold cfiWalk cfiTables
  split
  · rfl
  · rename_i i hi
    split
    · rename_i m sf ct hm hsf hct
      have hs : w.syms[i]? = some (some sf) := by
        cases hq : w.syms[i]? with
        | none => rw [hq] at hsf; cases hsf
        | some o => rw [hq] at hsf; simp only [Option.join_some] at hsf; rw [hsf]
      have hmem : some sf ∈ w.syms := List.mem_of_getElem? hs
      have hc : sf.cfis = [] := by
        simp only [noCfi, List.all_eq_true] at h
        have := h _ hmem
        simpa using this
      have hct' : ct = cfiTable sf := by
        simp only [List.getElem?_map, hs, Option.map_some] at hct
        injection hct with hct
        exact hct.symm
      subst hct'
      unfold walkFrameCfi
      split
      · rfl
      · simp only [cfiTable, hc, List.zipIdx_nil, List.filterMap_nil, get_empty]
    · rfl

theorem mkEnv_noCfi (arch : Arch) (os : Os) (w : World) (mem : Mem) (h : noCfi w = true) :
    NoCfi (mkEnv arch os w mem) := by
  intro f g
  show cfiOf arch w (modTable w.mods) (cfiTables w) _ mem f g = none
  unfold cfiOf
  simp only [cfiWalk_noCfi _ w mem f h]
  split <;> simp

/-- **C04, frame-pointer chains, for module lists and symbol records.** `Pre … .fp` is exactly what
    the `chain` engine has the driver evaluate on each generated case. -/
theorem walk_layout_fp_concrete (a : Arch) (os : Os) (w : World) (mem : Mem) (ctx : Ctx) (chain : List Exp)
    (ha : a.hasFp = true) (hwin : a = .amd64 → os ≠ .windows) (h64 : ctx.m64 = false)
    (hpre : Pre w (mkEnv a os w mem) a os .fp mem ctx chain = true) :
    walk (mkEnv a os w mem) (some mem) ctx =
      symbolise (mkEnv a os w mem) (Frame.ofCtx ctx .context) :: expectedFp (mkEnv a os w mem) a chain := by
  simp only [Pre, Bool.and_eq_true, Option.isNone_iff_eq_none] at hpre
  obtain ⟨hm, ⟨hno, hv⟩, hp⟩ := hpre
  exact walk_layout_fp (mkEnv a os w mem) a rfl ha hwin (mkEnv_noCfi a os w mem hno) mem hm ctx hv h64 chain hp

/-- **C04, frame-pointer chains on Windows x86-64 (any depth).** "…a Windows x64 240-byte
    frame-pointer slack…": with the frame record up to 15 × 16 bytes above `rbp` (the smaller probe
    positions holding a zero "saved rbp"), in an environment without CFI the walker returns exactly
    the context frame and one `frame_pointer` frame per generated call, and stops at the generated
    end (`preFpWin` = `preFp` plus: the outermost record `(0, 0)` lies 8-byte aligned at or above the
    last stack pointer, so that every further probe reads a zero word or nothing). -/
theorem walk_layout_fp_win (env : Env) (harch : env.arch = .amd64) (hos : env.os = .windows)
    (hcfi : NoCfi env) (mem : Mem) (hm : mem.range?.isSome = true) (ctx : Ctx) (hv : ctx.valid = none)
    (h64 : ctx.m64 = false) (chain : List Exp)
    (hpre : preFpWin env.os env.mask mem ctx.sp (ctx.raw .amd64 Arch.amd64.fpName) chain = true) :
    walk env (some mem) ctx = symbolise env (Frame.ofCtx ctx .context) :: expectedFp env .amd64 chain := by
  have hused : (some mem).bind (fun m => m.range?.map fun _ => m) = some mem := by
    obtain ⟨r, hr⟩ := Option.isSome_iff_exists.mp hm
    simp [hr]
  unfold walk
  simp only [hused]
  exact walkLoop_fp_win_chain harch hos hcfi chain (walkFuel mem) (Frame.ofCtx ctx .context) none ctx.sp _
    (view_context .amd64 rfl ctx hv h64) hpre (need_context_le mem ctx)

/-! ### the numbers of the property text are the numbers of the code

  `Pre` uses the property's numbers as literals; the model uses the constants translated from the
  Rust sources on every run. These theorems pin the two together: a changed window, probe or
  adjustment in the code breaks them (besides making generated chains fail). -/

/-- "scan windows of 40/160 words" (MIPS: 1024 bytes) -/
theorem scan_windows :
    (∀ a, a = .x86 ∨ a = .amd64 ∨ a = .arm ∨ a = .arm64 ∨ a = .arm64old →
      scanWindow a .context = 160 ∧ scanWindow a .scan = 40 ∧ scanWindow a .fp = 40 ∧ scanWindow a .cfi = 40) ∧
    (∀ t, scanWindow .mips32 t = 256 ∧ scanWindow .mips64 t = 128) ∧ Consts.mips_min_args = 4 := by
  refine ⟨?_, ?_, rfl⟩
  · intro a ha
    rcases ha with h | h | h | h | h <;> subst h <;> exact ⟨rfl, rfl, rfl, rfl⟩
  · intro t; cases t <;> exact ⟨rfl, rfl⟩

/-- "Windows x64 240-byte frame-pointer slack": 16 probes, 16 bytes apart -/
theorem windows_probe : Consts.win_probe_max = 15 ∧ Consts.win_probe_step = 16 ∧
    Consts.win_probe_max * Consts.win_probe_step = 240 := ⟨rfl, rfl, rfl⟩

/-- return-address adjustment (1, 2, 4, 8 bytes back) and pointer widths -/
theorem adjustments_and_widths :
    Arch.x86.adj = 1 ∧ Arch.amd64.adj = 1 ∧ Arch.arm.adj = 2 ∧ Arch.arm64.adj = 4 ∧ Arch.arm64old.adj = 4 ∧
    Arch.mips32.adj = 8 ∧ Arch.mips64.adj = 8 ∧
    Arch.x86.ptr = 4 ∧ Arch.amd64.ptr = 8 ∧ Arch.arm.ptr = 4 ∧ Arch.arm64.ptr = 8 ∧ Arch.arm64old.ptr = 8 ∧
    Arch.mips32.ptr = 4 ∧ Arch.mips64.ptr = 8 := by decide

/-- **C04, scan-only chains (any depth) on ARM64 (both layouts) and MIPS64.** In an environment
    without CFI, for a context with all registers valid and a zero frame pointer: the walker returns
    the context frame, then one `scan` frame per generated call with the generated return address
    and stack pointer, lookup address `ret - adj`, and stops at the generated end of stack. -/
theorem walk_layout_scan (env : Env) (a : Arch) (harch : env.arch = a) (ha : a.plainScan64 = true)
    (hcfi : NoCfi env) (mem : Mem) (hm : mem.range?.isSome = true) (ctx : Ctx) (hv : ctx.valid = none)
    (hfp : ctx.raw a a.fpName = 0) (h64 : a = .mips64 → ctx.m64 = true) (chain : List Exp)
    (hpre : preScanFrom env a mem ctx.sp true chain = true) :
    walk env (some mem) ctx = symbolise env (Frame.ofCtx ctx .context) :: expectedScan env a chain := by
  have hused : (some mem).bind (fun m => m.range?.map fun _ => m) = some mem := by
    obtain ⟨r, hr⟩ := Option.isSome_iff_exists.mp hm
    simp [hr]
  unfold walk
  simp only [hused]
  exact walkLoop_scan_chain ha harch hcfi chain (walkFuel mem) (Frame.ofCtx ctx .context) none ctx.sp true
    (scan_view_context a ha ctx hv hfp h64) hpre (need_context_le mem ctx)

theorem walk_layout_scan_concrete (a : Arch) (os : Os) (w : World) (mem : Mem) (ctx : Ctx) (chain : List Exp)
    (ha : a.plainScan64 = true) (h64 : a = .mips64 → ctx.m64 = true)
    (hpre : Pre w (mkEnv a os w mem) a os .scan mem ctx chain = true) :
    walk (mkEnv a os w mem) (some mem) ctx =
      symbolise (mkEnv a os w mem) (Frame.ofCtx ctx .context) :: expectedScan (mkEnv a os w mem) a chain := by
  simp only [Pre, preScan, Bool.and_eq_true, Option.isNone_iff_eq_none, decide_eq_true_eq] at hpre
  obtain ⟨hm, hno, ⟨⟨⟨_, hv⟩, hfp⟩, _⟩, hp⟩ := hpre
  exact walk_layout_scan (mkEnv a os w mem) a rfl ha (mkEnv_noCfi a os w mem hno) mem hm ctx hv hfp h64 chain hp

/-- **C04, technique changing from frame to frame (partial: ARM64, frame pointer / scan).**
    "…laid out by the platform calling convention (frame-pointer chains) … or findable only by
    scanning …": on ARM64 (both context layouts), in an environment without CFI, a stack in which
    every frame is EITHER a frame-pointer record (`linkFp`) OR findable only by scanning
    (`linkScan`, the callee's frame pointer being invalid or 0) — in any order, to any depth — is
    walked to exactly the generated frames: each with its own technique label (`frame_pointer` /
    `scan`), return address, stack pointer, recovered frame pointer, and the walk stops at the
    generated end. PARTIAL with respect to the full statement `walk_layout_mixed` (comment below):
    two of the four techniques, one architecture family. -/
theorem walk_layout_mixed_partial (env : Env) (a : Arch) (ha : a = .arm64 ∨ a = .arm64old)
    (harch : env.arch = a) (hcfi : NoCfi env) (mem : Mem) (hm : mem.range?.isSome = true)
    (ctx : Ctx) (hv : ctx.valid = none) (h64 : ctx.m64 = false) (chain : List Exp)
    (hpre : preMix env a mem { sp := ctx.sp, fp := some (ctx.raw a a.fpName), first := true } chain = true) :
    walk env (some mem) ctx =
      symbolise env (Frame.ofCtx ctx .context) ::
        expectedMix env a { sp := ctx.sp, fp := some (ctx.raw a a.fpName), first := true } chain := by
  have hused : (some mem).bind (fun m => m.range?.map fun _ => m) = some mem := by
    obtain ⟨r, hr⟩ := Option.isSome_iff_exists.mp hm
    simp [hr]
  unfold walk
  simp only [hused]
  rw [expectedMix_foldr]
  rw [preMix_foldr] at hpre
  exact walkLoop_chain_generic (MixView a) (mixLink env a mem) (mixEnd env a mem) (fun st => st.sp)
    (mixFrame a) mixNext (fun f st h => h.1) (fun f st h => h)
    (step_mix_arm64 ha harch hcfi) (mixNext_view ha) (step_mix_end_arm64 ha harch hcfi)
    chain (walkFuel mem) (Frame.ofCtx ctx .context) none _ (mix_view_context a ha ctx hv h64) hpre
    (need_context_le mem ctx)

/-- the frames of a mixed chain carry their own technique label -/
theorem expectedMix_trust (env : Env) (a : Arch) (ha : a = .arm64 ∨ a = .arm64old) (st : MixSt) (e : Exp)
    (rest : List Exp) :
    (expectedMix env a st (e :: rest)).head?.map (·.trust) = some (if e.tech = "fp" then Trust.fp else Trust.scan) := by
  simp only [expectedMix, List.head?_cons, Option.map_some, symbolise_trust, mixFrame]
  rcases ha with ha | ha <;> subst ha <;> by_cases h : e.tech = "fp" <;> simp [h, fpFrame, scanFrame]

/-- **C04, scan-only chains (any depth) on x86, x86-64, ARM32 (not iOS) and MIPS32.** "…findable
    only by scanning for return addresses … scan windows of 40/160 words …": in an environment
    without CFI, for a context with all registers valid and a zero frame pointer, stack memory at
    or above 4096 (so that nothing is readable at the zero frame pointer): the walker returns the
    context frame, then one `scan` frame per generated call with the generated return address and
    stack pointer, lookup address `ret - adj`, no recovered frame pointer (the junk words below
    4096 defeat the frame-pointer recovery of the x86 scanners), MIPS32 skipping four words on every
    frame but the first — and stops at the generated end of stack. On ARM32 the by-symbols check
    must reject the word 0 (`hok0`; `instruction_seems_valid_by_symbols` does: `mkEnv_instrOk_zero`). -/
theorem walk_layout_scan' (env : Env) (a : Arch) (harch : env.arch = a) (ha : a.scan32 = true)
    (hos : a = .arm → env.os ≠ .ios) (hcfi : NoCfi env) (hok0 : a = .arm → env.instrOk 0 = false)
    (mem : Mem) (hm : mem.range?.isSome = true) (hbase : 4096 ≤ mem.base)
    (ctx : Ctx) (hv : ctx.valid = none) (hfp : ctx.raw a a.fpName = 0) (h64 : ctx.m64 = false)
    (hsp : ctx.sp ≤ a.regMax) (chain : List Exp)
    (hpre : preScanFrom env a mem ctx.sp true chain = true) :
    walk env (some mem) ctx = symbolise env (Frame.ofCtx ctx .context) :: expectedScan32 env a chain := by
  have hused : (some mem).bind (fun m => m.range?.map fun _ => m) = some mem := by
    obtain ⟨r, hr⟩ := Option.isSome_iff_exists.mp hm
    simp [hr]
  unfold walk
  simp only [hused]
  exact walkLoop_scan32_chain ha harch hos hcfi hbase hok0 chain (walkFuel mem) (Frame.ofCtx ctx .context) none
    (ctx.sp, true) (scan_view_context32 a ha ctx hv hfp h64 hsp) hpre (need_context_le mem ctx)

/-- `instruction_seems_valid_by_symbols(0)` is false (`0.saturating_sub(1) == 0`) -/
theorem mkEnv_instrOk_zero (a : Arch) (os : Os) (w : World) (mem : Mem) : (mkEnv a os w mem).instrOk 0 = false := by
  simp [mkEnv, instrOkOf]

theorem walk_layout_scan'_concrete (a : Arch) (os : Os) (w : World) (mem : Mem) (ctx : Ctx) (chain : List Exp)
    (ha : a.scan32 = true) (h64 : ctx.m64 = false) (hsp : ctx.sp ≤ a.regMax)
    (hpre : Pre w (mkEnv a os w mem) a os .scan mem ctx chain = true) :
    walk (mkEnv a os w mem) (some mem) ctx =
      symbolise (mkEnv a os w mem) (Frame.ofCtx ctx .context) :: expectedScan32 (mkEnv a os w mem) a chain := by
  simp only [Pre, preScan, Bool.and_eq_true, Option.isNone_iff_eq_none, decide_eq_true_eq, Bool.not_eq_true'] at hpre
  obtain ⟨hm, hno, ⟨⟨⟨hbase, hv⟩, hfp⟩, hni⟩, hp⟩ := hpre
  refine walk_layout_scan' (mkEnv a os w mem) a rfl ha ?_ (mkEnv_noCfi a os w mem hno)
    (fun _ => mkEnv_instrOk_zero a os w mem) mem hm hbase ctx hv hfp h64 hsp chain hp
  intro harm hio
  have hos : os = .ios := hio
  subst harm
  subst hos
  simp at hni

/-
  `walk_layout_mixed` (stated here as a comment in earlier rounds) is a theorem of
  `MdProofs/C04Mixed.lean`:

  theorem walk_layout_mixed (a : Arch) (os : Os) (w : World) (wins : List (List Win.Rec)) (mem : Mem)
      (ctx : Ctx) (chain : List Exp) :
      PreW w wins (mkEnvW a os w wins mem) a os mem ctx chain = true →
      ∃ frames, walk (mkEnvW a os w wins mem) (some mem) ctx = context frame :: frames ∧
        All2 (frame `FrameIsA a (techTrust e) e`) frames chain

  `walk_layout_mixed_partial` below (ARM64, fp / scan), `walk_layout_win` and
  `walk_layout_mixed_x86_partial` (MdProofs/C04Win.lean) and `walk_layout_cfi` /
  `walk_layout_cfi_regs` (MdProofs/C04Cfi.lean) are its single-technique / partial predecessors,
  kept as they are (their conclusions give the frames in closed form).
-/

/-! ## non-vacuity: a two-call frame-pointer chain on x86-64 satisfying `preFp` -/

def exChainMem : Mem :=
  { base := 4096, bytes := #[
      0x20, 0x10, 0, 0, 0, 0, 0, 0,   0x00, 0x50, 0, 0, 0, 0, 0, 0,    -- record 0 at 0x1000: fp 0x1020, ret 0x5000
      0, 0, 0, 0, 0, 0, 0, 0,         0, 0, 0, 0, 0, 0, 0, 0,
      0x40, 0x10, 0, 0, 0, 0, 0, 0,   0x00, 0x60, 0, 0, 0, 0, 0, 0,    -- record 1 at 0x1020: fp 0x1040, ret 0x6000
      0, 0, 0, 0, 0, 0, 0, 0,         0, 0, 0, 0, 0, 0, 0, 0,
      0, 0, 0, 0, 0, 0, 0, 0,         0, 0, 0, 0, 0, 0, 0, 0,          -- outermost record at 0x1040: (0, 0)
      0, 0, 0, 0, 0, 0, 0, 0 ] }

def exChain : List Exp :=
  [ { ret := 0x5000, sp := 0x1010, fp := some 0x1020 }, { ret := 0x6000, sp := 0x1030, fp := some 0x1040 } ]

example : preFp .amd64 .other 0 exChainMem 4096 4096 exChain = true := by decide

example : (walk { arch := .amd64, os := .other, cfi := fun _ _ => none, instrOk := fun _ => true,
                  symb := fun _ => (none, none), mask := 0 }
      (some exChainMem) { ip := 0x7000, sp := 4096, rest := [("rbp", 4096)] }).length = 3 := by
  rw [walk_layout_fp _ .amd64 rfl rfl (fun _ => by decide) (fun _ _ => rfl) exChainMem (by decide) _ rfl rfl exChain (by decide)]
  rfl

/-! ## non-vacuity: an ARM64 stack with one frame-pointer frame followed by one scanned frame -/

def exMixMem : Mem :=
  { base := 4096, bytes := #[
      0, 0, 0, 0, 0, 0, 0, 0,         0, 0, 0, 0, 0, 0, 0, 0,
      0, 0, 0, 0, 0, 0, 0, 0,         0x00, 0x50, 0, 0, 0, 0, 0, 0,    -- record at 0x1010: fp 0, ret 0x5000
      7, 0, 0, 0, 0, 0, 0, 0,         0x00, 0x60, 0, 0, 0, 0, 0, 0,    -- junk 7, then 0x6000 (found by scan)
      0, 0, 0, 0, 0, 0, 0, 0,         0, 0, 0, 0, 0, 0, 0, 0 ] }

def exMixEnv : Env :=
  { arch := .arm64, os := .other, cfi := fun _ _ => none, instrOk := fun ip => ip == 0x6000,
    symb := fun _ => (none, none), mask := 2 ^ 47 - 1 }

def exMixChain : List Exp :=
  [ { ret := 0x5000, sp := 0x1020, fp := some 0, tech := "fp" },
    { ret := 0x6000, sp := 0x1030, fp := none, tech := "scan" } ]

example : preMix exMixEnv .arm64 exMixMem { sp := 0x1000, fp := some 0x1010, first := true } exMixChain = true := by
  decide

example : (walk exMixEnv (some exMixMem) { ip := 0x7000, sp := 0x1000, rest := [("fp", 0x1010)] }).map (·.trust) =
    [.context, .fp, .scan] := by
  rw [walk_layout_mixed_partial exMixEnv .arm64 (Or.inl rfl) rfl (fun _ _ => rfl) exMixMem (by decide) _ rfl rfl
    exMixChain (by decide)]
  rfl

/-! ## non-vacuity: a Windows x86-64 frame whose record sits 16 bytes above `rbp` -/

def exWinMem : Mem :=
  { base := 4096, bytes := #[
      0, 0, 0, 0, 0, 0, 0, 0,         0, 0, 0, 0, 0, 0, 0, 0,          -- probe 0 at rbp = 0x1000: "saved rbp" 0
      0x40, 0x10, 0, 0, 0, 0, 0, 0,   0x00, 0x50, 0, 0, 0, 0, 0, 0,    -- record at rbp + 16: fp 0x1040, ret 0x5000
      0, 0, 0, 0, 0, 0, 0, 0,         0, 0, 0, 0, 0, 0, 0, 0,
      0, 0, 0, 0, 0, 0, 0, 0,         0, 0, 0, 0, 0, 0, 0, 0,
      0, 0, 0, 0, 0, 0, 0, 0,         0, 0, 0, 0, 0, 0, 0, 0 ] }          -- outermost record at 0x1040: (0, 0)

def exWinChain : List Exp := [ { ret := 0x5000, sp := 0x1020, fp := some 0x1040 } ]

example : preFpWin .windows 0 exWinMem 4096 4096 exWinChain = true := by decide

example : (walk { arch := .amd64, os := .windows, cfi := fun _ _ => none, instrOk := fun _ => true,
                  symb := fun _ => (none, none), mask := 0 }
      (some exWinMem) { ip := 0x7000, sp := 4096, rest := [("rbp", 4096)] }).length = 2 := by
  rw [walk_layout_fp_win _ rfl rfl (fun _ _ => rfl) exWinMem (by decide) _ rfl rfl exWinChain (by decide)]
  rfl

/-! ## non-vacuity: an x86 stack whose two return addresses are findable only by scanning -/

def exScanMem : Mem :=
  { base := 4096, bytes := #[
      7, 0, 0, 0,   0x00, 0x50, 0, 0,     -- junk 7, then 0x5000
      0x00, 0x60, 0, 0,                   -- 0x6000 right at the caller's stack pointer
      0, 0, 0, 0,   0, 0, 0, 0,   0, 0, 0, 0 ] }

def exScanEnv : Env :=
  { arch := .x86, os := .other, cfi := fun _ _ => none, instrOk := fun ip => ip == 0x5000 || ip == 0x6000,
    symb := fun _ => (none, none), mask := 0 }

def exScanChain : List Exp := [ { ret := 0x5000, sp := 0x1008, fp := none }, { ret := 0x6000, sp := 0x100c, fp := none } ]

example : preScanFrom exScanEnv .x86 exScanMem 4096 true exScanChain = true := by decide

example : (walk exScanEnv (some exScanMem) { ip := 0x7000, sp := 4096, rest := [("ebp", 0)] }).map (·.trust) =
    [.context, .scan, .scan] := by
  rw [walk_layout_scan' exScanEnv .x86 rfl rfl (fun h => by cases h) (fun _ _ => rfl) (fun h => by cases h)
    exScanMem (by decide) (by decide) _ rfl rfl rfl (by decide) exScanChain (by decide)]
  rfl

end MdModel.Walk
