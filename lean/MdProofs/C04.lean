/-
  C04 — placeholder while the theorems are being written (see Lemmas/WalkChain.lean).
-/
import MdProofs.Lemmas.WalkChain
namespace MdModel.Walk
end MdModel.Walk
