/-
  C13 (text report) — "Processing the same minidump with the same symbols always yields
  byte-identical JSON and text reports, across repeated runs …", and C03's "the resulting state can
  always be written as full text, brief text and JSON".

  `MdProofs/C13.lean` proves order-freedom of the places of the PIPELINE where a hash iteration
  order or a completion order is consumed. This file is about the last stage for the TEXT report:
  the printer `ProcessState::print` / `print_brief` itself, modelled in `MdModel.Text` (the model
  the compiled driver executes and engine `text` compares byte for byte with the real printer).

    §1 `printText_total`            no panic on a well-formed state (and what well-formed must mean)
    §2 `text_history_free`, `text_hash_order_free`, `printText_function_of_state`
                                    the bytes depend on the printed state and `brief` only: not on
                                    what the thread printed before (thread-local print context), not
                                    on the iteration order of ANY HashMap/HashSet of the state
    §3 `brief_is_prefix`            full = brief ++ (other threads, module lists, streams, soft errors)
    §4 `frame_lines_count`          numbered lines of a call stack = frames + inline frames, 0, 1, 2 …
    §5 `thread_blocks_match_threads` requesting thread first and marked, then the others by index
    §6 `modules_listed_by_address`  the module lists are `by_addr()`: ascending, disjoint, complete

  Every `HashMap`/`HashSet` the state carries, and what the text printer does with it
  (process_state.rs:559-875, minidump-unwind/src/lib.rs:384-550):
    * `cert_info: HashMap<String, String>`            `.get(name)` only  (lines 805, 826)
    * `MinidumpContextValidity::Some(HashSet<&str>)`  `.contains(reg)` only, inside a walk over the
      fixed `general_purpose_registers()` list (lib.rs:397-398); for `All` a HashSet is BUILT from
      that list and again only queried with `contains`
    * `symbol_stats: HashMap<String, SymbolStats>`    not read by the text printer
    * `linux_proc_limits.limits: HashMap<…>`          not read by the text printer
  No `HashMap`/`HashSet` is ever ITERATED by the text printer. (`StackFrame::unloaded_modules` is
  a `BTreeMap<String, BTreeSet<u64>>`: iterated, in key order — part of the state's value.)
  The remaining order-sensitive spot is `sort_unstable_by` on the bit flips (§2c).
-/
import MdProofs.Lemmas.Text
import MdProofs.C15
namespace MdModel.Text
open MdModel MdModel.Json

/-! ## 1. "can always be written as full text, brief text": no panic -/

/-- Well-formedness the text printer needs: the requesting thread is an index, and for every frame
    the bases it subtracts are not above the instruction (`module base`, `function base`,
    `source line base`). Unlike the JSON report NOTHING is required of the module lists:
    `by_addr()` only yields modules whose `base + size` fits (C08). -/
structure WFT (s : StateModel) (x : TextExtra) : Prop where
  req : ∀ i, s.requestingThread = some i → i < s.threads.length
  frames : ∀ p ∈ zipD ThreadX.dflt s.threads x.threads, ThreadOK p.1 p.2

theorem requestingLines_total (s : StateModel) (x : TextExtra) (wf : WFT s x) :
    ∃ ls, requestingLines s x = .ok ls := by
  unfold requestingLines
  cases hreq : s.requestingThread with
  | none => exact ⟨[], rfl⟩
  | some i =>
    have hi := wf.req i hreq
    have h1 : s.threads[i]? = some s.threads[i] := by simp [hi]
    simp only [h1]
    have hz : (zipD ThreadX.dflt s.threads x.threads)[i]? =
        some (s.threads[i], x.threads[i]?.getD ThreadX.dflt) := by
      rw [zipD_getElem?, h1]; rfl
    have hok := wf.frames _ (List.mem_of_getElem? hz)
    obtain ⟨ls, hls⟩ := stackLines_total _ _ hok
    simp only [hls, obind]
    exact ⟨_, rfl⟩

theorem briefLines_total (pw : PW) (s : StateModel) (x : TextExtra) (wf : WFT s x) :
    ∃ ls, briefLines pw s x = .ok ls := by
  obtain ⟨r, hr⟩ := requestingLines_total s x wf
  simp only [briefLines, hr, obind]
  exact ⟨_, rfl⟩

theorem restLines_total (s : StateModel) (x : TextExtra) (wf : WFT s x) : ∃ ls, restLines s x = .ok ls := by
  obtain ⟨o, ho⟩ := otherThreadsLines_total s.requestingThread 0 _ wf.frames
  obtain ⟨m, hm⟩ := moduleLines_total s (modulesByAddr s.modules) (fun _ h => h)
  obtain ⟨u, hu⟩ := unloadedLines_total s (unloadedByAddr s.unloaded) (fun _ h => h)
  simp only [restLines, ho, hm, hu, obind]
  exact ⟨_, rfl⟩

/-- **printText_total** — on a well-formed state neither `print` nor `print_brief` panics. -/
theorem printText_total (s : StateModel) (x : TextExtra) (brief : Bool) (wf : WFT s x) :
    ∃ cs, printText s x brief = .ok cs := by
  obtain ⟨h, hh⟩ := briefLines_total (setCtx none s) s x wf
  obtain ⟨r, hr⟩ := restLines_total s x wf
  cases brief <;> simp only [printText, printLines, linesAfter, linesWith, hh, hr, obind] <;>
    exact ⟨_, rfl⟩

/-- the source-line clause on top of C15's `WF` -/
def LineOK (s : StateModel) (x : TextExtra) : Prop :=
  ∀ p ∈ zipD ThreadX.dflt s.threads x.threads, ∀ q ∈ zipD FrameX.dflt p.1.frames p.2.frames,
    ∀ lb, q.2.lineBase = some lb → lb ≤ q.1.instruction

/-- under the hypothesis of C15's `printJson_total` plus "source line base ≤ instruction" -/
theorem wft_of_wf (s : StateModel) (x : TextExtra) (wf : WF s) (hl : LineOK s x) : WFT s x where
  req := wf.req
  frames := by
    intro p hp q hq
    have ht : p.1 ∈ s.threads := mem_zipD_fst hp
    have hf : q.1 ∈ p.1.frames := mem_zipD_fst hq
    exact ⟨wf.frameMod p.1 ht q.1 hf, wf.frameFn p.1 ht q.1 hf, hl p hp q hq⟩

theorem printText_total_of_wf (s : StateModel) (x : TextExtra) (brief : Bool) (wf : WF s) (hl : LineOK s x) :
    ∃ cs, printText s x brief = .ok cs :=
  printText_total s x brief (wft_of_wf s x wf hl)

/-! ### non-vacuity and necessity of every clause of `WFT` -/

/-- extras for C15's example state: a line base below the instruction, recovered arguments, the
    second (frameless) thread is the dump writer, one bit flip printed at position 0 -/
def exExtra : TextExtra :=
  { times := some (1700000123999999999, 1700000000000000001),
    threads := [⟨false, [⟨some 0x401230, some ⟨.cdecl, [("int", some 1), ("char*", none)]⟩, 4⟩]⟩, ⟨true, []⟩],
    flips := [⟨0x3f666666, "0.900"⟩], flipOrder := [0],
    unimplemented := [⟨20, "JavaScriptDataStream", "Official", 0x100⟩], unknown := [⟨0x12345678, "", "Unknown Extension", 0⟩] }

example : WFT exState exExtra := by
  constructor
  · simp [exState]
  · intro p hp q hq
    simp [exState, exExtra, zipD] at hp
    rcases hp with rfl | rfl
    · simp [zipD] at hq
      subst hq
      refine ⟨?_, ?_, ?_⟩ <;> simp [exFrame]
    · simp [zipD] at hq

example : shapeOk exState exExtra = true := by decide

example : LineOK exState exExtra := by
  intro p hp q hq
  simp [exState, exExtra, zipD] at hp
  rcases hp with rfl | rfl
  · simp [zipD] at hq
    subst hq
    simp [exFrame]
  · simp [zipD] at hq

/-- `req` is needed: a requesting thread that is no index panics in `print` AND `print_brief` -/
example (brief : Bool) : printText { exState with requestingThread := some 2 } exExtra brief =
    .panic "self.threads[requesting_thread]: index out of bounds" := by
  cases brief <;>
    simp [printText, printLines, linesAfter, linesWith, briefLines, requestingLines, exState, obind]

/-- the line-base clause is needed (and is NOT implied by C15's `WF`): `addr - src_base` -/
example : WF exState ∧ printText exState { exExtra with threads := [⟨false, [⟨some 0x401235, none, 4⟩]⟩] } true =
    .panic "frame line: addr - src_base" := by
  refine ⟨by constructor <;> simp [exState, exFrame, U64MAX], ?_⟩
  simp [printText, printLines, linesAfter, linesWith, briefLines, requestingLines, exState, exFrame, obind,
    stackLines, zipD, framesLines, frameBody, checkedSub]

/-- the function-base clause is needed when there is no complete source line: `addr - func_base` -/
example : printText { exState with threads := [⟨[{ exFrame with functionBase := some 0x401235, sourceLine := none }], 7, none, none⟩] }
    exExtra true = .panic "frame line: addr - func_base" := by
  simp [printText, printLines, linesAfter, linesWith, briefLines, requestingLines, exState, exFrame, obind,
    stackLines, zipD, framesLines, frameBody, checkedSub, exExtra]

/-- the module-base clause is needed when there is no function: `addr - module.base_address()` -/
example : printText { exState with threads := [⟨[{ exFrame with instruction := 0x3fffff, functionName := none }], 7, none, none⟩] }
    exExtra true = .panic "frame line: addr - module.base_address()" := by
  simp [printText, printLines, linesAfter, linesWith, briefLines, requestingLines, exState, exFrame, obind,
    stackLines, zipD, framesLines, frameBody, checkedSub, exExtra]

/-- a frame of ANOTHER thread outside `WFT`: `print` panics, `print_brief` does not -/
example :
    let s := { exState with threads := [⟨[exFrame], 7, none, none⟩, ⟨[{ exFrame with instruction := 0 }], 8, none, none⟩] }
    let x := { exExtra with threads := [⟨false, [⟨none, none, 4⟩]⟩, ⟨false, [⟨some 1, none, 4⟩]⟩] }
    (∃ cs, printText s x true = .ok cs) ∧
    printText s x false = .panic "frame line: addr - src_base" := by
  refine ⟨⟨_, by
    simp [printText, printLines, linesAfter, linesWith, briefLines, requestingLines, exState, exFrame, obind,
      stackLines, zipD, framesLines, frameBody, checkedSub, exExtra]
    rfl⟩, ?_⟩
  simp [printText, printLines, linesAfter, linesWith, briefLines, requestingLines, exState, exFrame, obind,
    stackLines, zipD, framesLines, frameBody, checkedSub, exExtra, restLines, otherThreadsLines]

/-- C15's `modEnd` clause is NOT needed by the text report: a module whose end wraps is simply
    not listed (`memory_range()` is `None`), where `print_json` panics -/
example : ∃ ls, moduleLines { exState with modules := [⟨U64MAX, 2, "wraps", none, "0", "", none⟩] }
    (modulesByAddr [⟨U64MAX, 2, "wraps", none, "0", "", none⟩]) = .ok ls :=
  moduleLines_total _ _ (fun _ h => h)

/-! ## 2. "byte-identical … text reports, across repeated runs": the bytes depend on the printed
      state and on `brief` only -/

/-! ### 2a. not on what the thread printed before (thread-local print context) -/

/-- **text_history_free** — `print_internal` begins with `set_print_context`, which OVERWRITES the
    thread-local pointer width: whatever earlier prints (of any dumps, on this thread or tokio
    worker) left there (`before`, `before'`), the lines are the same. -/
theorem text_history_free (before before' : Option PW) (s : StateModel) (x : TextExtra) (brief : Bool) :
    linesAfter setCtx before s x brief = linesAfter setCtx before' s x brief := rfl

/-- the variant of seeded break C13-2b (fill the context only when it is empty) makes the text
    depend on the history: an x86 state printed after an amd64 state shows an 18-character crash
    address, printed first it shows 10 characters. -/
theorem text_ctx_once_history_dependent :
    ∃ (before before' : Option PW) (s : StateModel) (x : TextExtra),
      linesAfter setCtxOnce before s x true ≠ linesAfter setCtxOnce before' s x true := by
  refine ⟨none, some .b64, { exState with requestingThread := none }, exExtra, ?_⟩
  intro h
  have h2 := congrArg (fun (o : Outcome (List TLine)) => match o with
    | Outcome.ok ls => (ls.map fun (l : TLine) => l.text.length)
    | Outcome.panic _ => []) h
  revert h2
  simp [linesAfter, setCtxOnce, linesWith, briefLines, requestingLines, obind, exState, sysLines, crashLines,
    miscLines, plc, pl, addr, hexAddr, hexPad, PW.digits, Cpu.pw, padLeft, hexDigits, digitsB_eq, exExtra]

/-! ### 2b. not on the iteration order of any HashMap / HashSet of the state -/

/-- The same printed state, whatever order its hash containers iterate in: `cert_info` is any
    permutation of the same entries (keys of a map are distinct), every frame's validity set any
    permutation of the same names. The members the text report never reads — `process_id`,
    `handles`, and the two other hash maps `symbol_stats` and `linux_proc_limits` — are not
    constrained at all. -/
structure HashEquiv (s s' : StateModel) : Prop where
  cert : s.certInfo.Perm s'.certInfo
  certKeys : (s.certInfo.map (·.1)).Nodup
  threads : AllRel ThreadEquiv s.threads s'.threads
  exc : s.exc = s'.exc
  assertion : s.assertion = s'.assertion
  requestingThread : s.requestingThread = s'.requestingThread
  sys : s.sys = s'.sys
  lsb : s.lsb = s'.lsb
  macCrashInfo : s.macCrashInfo = s'.macCrashInfo
  macBootArgs : s.macBootArgs = s'.macBootArgs
  modules : s.modules = s'.modules
  unloaded : s.unloaded = s'.unloaded
  memoryMapCount : s.memoryMapCount = s'.memoryMapCount
  softErrors : s.softErrors = s'.softErrors

theorem briefLines_hash (pw : PW) {s s' : StateModel} (h : HashEquiv s s') (x : TextExtra) :
    briefLines pw s x = briefLines pw s' x := by
  have h1 : sysLines s = sysLines s' := by unfold sysLines; rw [h.sys, h.lsb]
  have h2 : miscLines s x = miscLines s' x := by
    unfold miscLines; rw [h.assertion, h.macCrashInfo, h.macBootArgs, h.memoryMapCount]
  simp only [briefLines, requestingLines_equiv x h.requestingThread h.exc h.threads, h1, h2, h.exc]

theorem restLines_hash {s s' : StateModel} (h : HashEquiv s s') (x : TextExtra) :
    restLines s x = restLines s' x := by
  have hc := lookupS_perm h.cert h.certKeys
  have h3 : softLines s = softLines s' := by unfold softLines; rw [h.softErrors]
  simp only [restLines, ← h.requestingThread,
    otherThreadsLines_equiv s.requestingThread 0 (zipD_allRel ThreadX.dflt x.threads h.threads),
    moduleLines_congr h.modules hc, unloadedLines_congr h.unloaded hc, ← h.modules, ← h.unloaded, h3]

/-- **text_hash_order_free** — `print` and `print_brief` write the same lines for every iteration
    order of every `HashMap`/`HashSet` of the state (fresh `RandomState`s: "repeated runs"), and
    whatever `symbol_stats` / `linux_proc_limits` / `handles` / `process_id` hold. -/
theorem text_hash_order_free {s s' : StateModel} (h : HashEquiv s s') (x : TextExtra) (brief : Bool) :
    printText s x brief = printText s' x brief := by
  have hpw : setCtx none s = setCtx none s' := by simp only [setCtx, h.sys]
  simp only [printText, printLines, linesAfter, linesWith, hpw, briefLines_hash _ h, restLines_hash h]

/-- non-vacuity: the example state with its two certificates swapped, the validity set of its
    frame in another order and other symbol statistics / limits is `HashEquiv` to itself -/
example :
    let s := { exState with certInfo := [("a.dll", "A"), ("b.dll", "B")],
                            threads := [⟨[{ exFrame with ctx := ⟨4, [("eip", 1), ("esp", 2)], some ["eip", "esp"]⟩ }], 7, none, none⟩] }
    let s' := { exState with certInfo := [("b.dll", "B"), ("a.dll", "A")], pid := none, handles := none,
                             symbolStats := [("x", defaultStats)], procLimits := some [],
                             threads := [⟨[{ exFrame with ctx := ⟨4, [("eip", 1), ("esp", 2)], some ["esp", "eip"]⟩ }], 7, none, none⟩] }
    HashEquiv s s' := by
  refine ⟨List.Perm.swap _ _ _, by decide, ?_, rfl, rfl, rfl, rfl, rfl, rfl, rfl, rfl, rfl, rfl, rfl⟩
  exact ⟨⟨rfl, ⟨⟨rfl, ⟨rfl, rfl, List.Perm.swap _ _ _⟩⟩, trivial⟩⟩, trivial⟩

/-- a register printer that ITERATES the validity set (the mutation the check must catch) -/
def regNamesBySet (c : RegCtx) : List String :=
  match c.valid with
  | none => c.gpr.map (·.1)
  | some names => names.filter fun n => (c.gpr.map (·.1)).contains n

/-- … is order dependent, while the real walk over the fixed register list is not -/
theorem regs_by_set_order_dependent :
    ∃ c c' : RegCtx, CtxEquiv c c' ∧ regNamesBySet c ≠ regNamesBySet c' ∧ regLines c = regLines c' := by
  refine ⟨⟨4, [("eip", 1), ("esp", 2)], some ["eip", "esp"]⟩, ⟨4, [("eip", 1), ("esp", 2)], some ["esp", "eip"]⟩,
    ⟨rfl, rfl, List.Perm.swap _ _ _⟩, by decide, ?_⟩
  exact regLines_equiv ⟨rfl, rfl, List.Perm.swap _ _ _⟩

/-! ### 2c. not on how `sort_unstable_by` arranges tied bit flips — when ties show the same -/

/-- the bit flips of the state paired with their extras, in list order -/
def flipsOf (s : StateModel) (x : TextExtra) : List (BitFlip × FlipX) :=
  match s.exc with
  | some e => zipD FlipX.dflt e.bitFlips x.flips
  | none => []

/-- **flip_order_irrelevant** — `sort_unstable_by` is only assumed to return SOME arrangement that
    is sorted by the comparator (confidence descending under `total_cmp`, then address): any two
    such arrangements print the same lines provided entries that tie on (confidence, address) show
    the same register and confidence text. -/
theorem flip_order_irrelevant (pw : PW) (fs : List (BitFlip × FlipX)) (o₁ o₂ : List Nat)
    (h₁ : validOrder fs o₁ = true) (h₂ : validOrder fs o₂ = true)
    (ties : ∀ a ∈ fs, ∀ b ∈ fs, flipKey a = flipKey b → flipShown a = flipShown b) :
    flipLines pw 0 (o₁.filterMap (fs[·]?)) = flipLines pw 0 (o₂.filterMap (fs[·]?)) := by
  apply flipLines_shown
  apply map_eq_of_key flipKey flipShown (· ∈ fs) (fun a b ha hb => ties a ha b hb)
  · exact fun a ha => mem_filterMap_getElem? ha
  · exact fun a ha => mem_filterMap_getElem? ha
  · rw [validOrder_keys h₁, validOrder_keys h₂]

/-- in particular when no two entries tie -/
theorem flip_order_irrelevant_of_distinct_keys (pw : PW) (fs : List (BitFlip × FlipX)) (o₁ o₂ : List Nat)
    (h₁ : validOrder fs o₁ = true) (h₂ : validOrder fs o₂ = true) (nd : (fs.map flipKey).Nodup) :
    flipLines pw 0 (o₁.filterMap (fs[·]?)) = flipLines pw 0 (o₂.filterMap (fs[·]?)) := by
  apply flip_order_irrelevant pw fs o₁ o₂ h₁ h₂
  intro a ha b hb hk
  rw [eq_of_nodup_map flipKey nd ha hb hk]

/-- the hypothesis on ties is needed: `rax` and `rbx` holding the same value give two candidates
    with one address and one confidence; both arrangements are sorted, the lines differ. -/
theorem flip_order_matters_for_differing_ties :
    ∃ (fs : List (BitFlip × FlipX)) (o₁ o₂ : List Nat), validOrder fs o₁ = true ∧ validOrder fs o₂ = true ∧
      (o₁.filterMap (fs[·]?)).map flipShown ≠ (o₂.filterMap (fs[·]?)).map flipShown :=
  ⟨[(⟨16, some "rax", false, false, false, 0, false, none⟩, ⟨0x3e800000, "0.250"⟩),
    (⟨16, some "rbx", false, false, false, 0, false, none⟩, ⟨0x3e800000, "0.250"⟩)],
   [0, 1], [1, 0], by decide, by decide, by decide⟩

/-- non-vacuity: three candidates, two of them tied and showing the same; `[2, 0, 1]` and
    `[2, 1, 0]` are the valid orders (confidence 0.9 first), `[0, 1, 2]` is not -/
example :
    let fs : List (BitFlip × FlipX) :=
      [(⟨16, none, false, false, false, 0, false, none⟩, ⟨0x3e800000, "0.250"⟩),
       (⟨16, none, false, false, false, 1, true, none⟩, ⟨0x3e800000, "0.250"⟩),
       (⟨8, some "rax", false, false, false, 0, false, none⟩, ⟨0x3f666666, "0.900"⟩)]
    validOrder fs [2, 0, 1] = true ∧ validOrder fs [2, 1, 0] = true ∧ validOrder fs [0, 1, 2] = false ∧
    (∀ a ∈ fs, ∀ b ∈ fs, flipKey a = flipKey b → flipShown a = flipShown b) := by
  decide

/-- `total_cmp`: -NaN < -inf < -0.0 < +0.0 < 0.25 < +inf < +NaN as keys -/
example : [0xffc00000, 0xff800000, 0x80000000, 0, 0x3e800000, 0x7f800000, 0x7fc00000].map totalKey =
    [4194303, 8388607, 2147483647, 2147483648, 3196059648, 4286578688, 4290772992] := by decide

/-! ### 2d. together -/

/-- **printText_function_of_state** — the characters `print` / `print_brief` write are a function of
    the printed state and `brief`: two prints agree whenever the states are equal up to the
    iteration order of their hash containers (and up to the members the text report never reads),
    whatever the print context of the thread held before, and whichever sorted arrangement the
    unstable sort chose for the bit flips (ties showing the same). -/
theorem printText_function_of_state {s s' : StateModel} (h : HashEquiv s s') (x : TextExtra) (order' : List Nat)
    (before before' : Option PW) (brief : Bool)
    (h₁ : validOrder (flipsOf s x) x.flipOrder = true) (h₂ : validOrder (flipsOf s x) order' = true)
    (ties : ∀ a ∈ flipsOf s x, ∀ b ∈ flipsOf s x, flipKey a = flipKey b → flipShown a = flipShown b) :
    obind (linesAfter setCtx before s x brief) (fun ls => .ok (renderLines ls)) =
    obind (linesAfter setCtx before' s' { x with flipOrder := order' } brief) (fun ls => .ok (renderLines ls)) := by
  have hx : ∀ pw, briefLines pw s x = briefLines pw s { x with flipOrder := order' } := by
    intro pw
    unfold briefLines
    cases he : s.exc with
    | none => rfl
    | some e =>
      have hf : flipsOf s x = zipD FlipX.dflt e.bitFlips x.flips := by simp only [flipsOf, he]
      rw [hf] at h₁ h₂ ties
      have hcl : crashLines pw e x = crashLines pw e { x with flipOrder := order' } := by
        simp only [crashLines, flip_order_irrelevant pw _ _ _ h₁ h₂ ties]
      dsimp only
      rw [hcl]
      rfl
  have hr : restLines s x = restLines s { x with flipOrder := order' } := rfl
  have e1 : obind (linesAfter setCtx before s x brief) (fun ls => .ok (renderLines ls)) =
      printText s { x with flipOrder := order' } brief := by
    simp only [printText, printLines, linesAfter, linesWith, setCtx, hx, hr]
  have e2 : obind (linesAfter setCtx before' s' { x with flipOrder := order' } brief)
      (fun ls => .ok (renderLines ls)) = printText s' { x with flipOrder := order' } brief := rfl
  rw [e1, e2]
  exact text_hash_order_free h _ brief

/-! ## 3. brief and full: `print_brief` stops where `print` goes on -/

/-- **brief_is_prefix** — the exact relation between the two reports: `print_internal` returns
    after the requesting thread's block when `brief`; otherwise it goes on with `restLines` (the
    other threads, `Loaded modules:`, `Unloaded modules:`, the stream lists, the soft errors). So
    if `print_brief` panics `print` panics at the same site, and if `print_brief` writes `b` then
    `print` writes `b` followed by the rest (or panics in the rest). -/
theorem brief_is_prefix (s : StateModel) (x : TextExtra) :
    match printText s x true with
    | .panic m => printText s x false = .panic m
    | .ok b => printText s x false = obind (restLines s x) fun r => .ok (b ++ renderLines r) := by
  simp only [printText, printLines, linesAfter, linesWith]
  cases briefLines (setCtx none s) s x with
  | panic m => rfl
  | ok hd =>
    cases restLines s x with
    | panic m => rfl
    | ok r => simp [obind, renderLines_append]

/-- as characters: the full report starts with the brief report -/
theorem brief_prefix_chars (s : StateModel) (x : TextExtra) (b f : List Char)
    (hb : printText s x true = .ok b) (hf : printText s x false = .ok f) : ∃ r, f = b ++ r := by
  have h := brief_is_prefix s x
  rw [hb] at h
  simp only at h
  rw [hf] at h
  obtain ⟨r, _, hr⟩ := obind_ok h.symm
  cases hr
  exact ⟨_, rfl⟩

/-- whenever `print` succeeds so does `print_brief` -/
theorem brief_ok_of_full_ok (s : StateModel) (x : TextExtra) (f : List Char)
    (hf : printText s x false = .ok f) : ∃ b, printText s x true = .ok b := by
  have h := brief_is_prefix s x
  cases hb : printText s x true with
  | ok b => exact ⟨b, rfl⟩
  | panic m => rw [hb] at h; simp only at h; rw [hf] at h; cases h

/-- what the brief report consists of, and what it leaves out: no module list, no other thread -/
theorem brief_contents (s : StateModel) (x : TextExtra) (ls : List TLine) (h : printLines s x true = .ok ls) :
    (∃ pre blk, ls = pre ++ blk ∧ AllPlain pre ∧ requestingLines s x = .ok blk) ∧
    ls.filterMap loadedOf = [] ∧ ls.filterMap unloadedOf = [] ∧
    ls.filterMap headerOf = (match s.requestingThread with
                            | some i => [(i, true)]
                            | none => []) := by
  simp only [printLines, linesAfter, linesWith] at h
  obtain ⟨hd, hhd, h⟩ := obind_ok h
  simp only [if_true] at h
  cases h
  obtain ⟨pre, req, rfl, hpre, hreq⟩ := briefLines_shape _ s x ls hhd
  have hreqk : req.filterMap loadedOf = [] ∧ req.filterMap unloadedOf = [] ∧
      req.filterMap headerOf = (match s.requestingThread with
                               | some i => [(i, true)]
                               | none => []) := by
    unfold requestingLines at hreq
    cases hr : s.requestingThread with
    | none => rw [hr] at hreq; cases hreq; exact ⟨rfl, rfl, rfl⟩
    | some i =>
      rw [hr] at hreq
      simp only at hreq
      split at hreq
      · cases hreq
      · obtain ⟨sl, hsl, hreq⟩ := obind_ok hreq
        cases hreq
        obtain ⟨s1, s2, s3⟩ := stackLines_noheader hsl
        simp [List.filterMap_cons, List.filterMap_append, headerOf, loadedOf, unloadedOf, s1, s2, s3, plc]
  refine ⟨⟨pre, req, rfl, hpre, hreq⟩, ?_, ?_, ?_⟩
  · rw [List.filterMap_append, hpre.filterMap_eq_nil _ loadedOf_plain, hreqk.1]; rfl
  · rw [List.filterMap_append, hpre.filterMap_eq_nil _ unloadedOf_plain, hreqk.2.1]; rfl
  · rw [List.filterMap_append, hpre.filterMap_eq_nil _ headerOf_plain, hreqk.2.2]; rfl

/-! ## 3b. lines and characters -/

/-- **lines_of_report** — the structure theorems below speak about the LINES of the model
    (`printLines`); `printText` writes each followed by `\n`. When no line contains a newline (no
    printed name does — the condition under which the engine's line-based oracle runs) the
    characters split at `\n` are exactly those lines. -/
theorem lines_of_report (s : StateModel) (x : TextExtra) (brief : Bool) (ls : List TLine)
    (h : printLines s x brief = .ok ls) (tame : ∀ l ∈ ls, '\n' ∉ l.text) :
    ∃ cs, printText s x brief = .ok cs ∧ splitLines cs [] = ls.map (·.text) :=
  ⟨renderLines ls, by simp only [printText, h, obind], splitLines_render ls tame⟩

/-! ## 4. "number of frame lines per thread = frames + inline frames" -/

/-- **frame_lines_count** — in the block `CallStack::print` writes for a thread the numbered lines
    are numbered `0, 1, 2, …` in order, and there are exactly `Σ (1 + inline frames)` of them:
    one for every frame and one for every inline frame. Every other line of the block is plain. -/
theorem frame_lines_count (t : ThreadM) (x : ThreadX) (ls : List TLine) (h : stackLines t x = .ok ls) :
    ls.filterMap frameOf = List.range (t.frames.length + (t.frames.map (·.inlines.length)).sum) ∧
    (∀ l ∈ ls, l.kind = .plain ∨ ∃ i, l.kind = .frame i) := by
  obtain ⟨h1, h2⟩ := stackLines_frames t x ls h
  refine ⟨?_, h2⟩
  rw [h1]
  congr 1
  unfold frameLineCount
  induction t.frames with
  | nil => rfl
  | cons f rest ih => simp only [List.map_cons, List.sum_cons, List.length_cons, ih]; omega

/-- **frame_lines_count_chars** — the same count read off the CHARACTERS, with the very test the
    engine's oracle applies to the lines of the real output (`isFrameLine`: a space and one digit,
    or at least two digits, followed by two spaces): in a call-stack block exactly the numbered
    frame lines look like numbered frame lines (register lines, `Found by:` lines, argument lines,
    `<no frames>` and blank lines do not), so their number is frames + inline frames. -/
theorem frame_lines_count_chars (t : ThreadM) (x : ThreadX) (ls : List TLine) (h : stackLines t x = .ok ls) :
    (∀ l ∈ ls, isFrameLine l.text = (frameOf l).isSome) ∧
    (ls.filter fun l => isFrameLine l.text).length = t.frames.length + (t.frames.map (·.inlines.length)).sum := by
  have hc := stackLines_chars t x ls h
  refine ⟨hc, ?_⟩
  have e : (ls.filter fun l => isFrameLine l.text) = ls.filter fun l => (frameOf l).isSome :=
    List.filter_congr (fun l hl => hc l hl)
  rw [e, ← filterMap_length_eq_filter, (frame_lines_count t x ls h).1, List.length_range]

/-- the oracle's test on concrete lines -/
example : isFrameLine " 0  app.exe!main [a.c : 7 + 0x4]".toList = true ∧ isFrameLine "12  0x1000".toList = true ∧
    isFrameLine "    Found by: call frame info".toList = false ∧ isFrameLine "     rax = 0x0000000000000001".toList = false ∧
    isFrameLine "<no frames>".toList = false ∧ isFrameLine " 12  x".toList = false ∧ isFrameLine "1  x".toList = false := by
  decide

/-- a thread without frames gets the line `<no frames>` and no numbered line -/
example : stackLines ⟨[], 8, none, none⟩ ThreadX.dflt = .ok [pl "<no frames>"] := rfl

/-- non-vacuity: the example thread (one frame with one inline frame) has the numbered lines 0, 1 -/
example : ∃ ls, stackLines ⟨[exFrame], 7, some "t", none⟩ ⟨false, [⟨some 0x401230, none, 4⟩]⟩ = .ok ls ∧
    ls.filterMap frameOf = [0, 1] := by
  obtain ⟨ls, hls⟩ := stackLines_total ⟨[exFrame], 7, some "t", none⟩ ⟨false, [⟨some 0x401230, none, 4⟩]⟩ (by
    intro p hp
    simp [zipD] at hp
    subst hp
    refine ⟨?_, ?_, ?_⟩ <;> simp [exFrame])
  refine ⟨ls, hls, ?_⟩
  rw [(frame_lines_count _ _ ls hls).1]
  rfl

/-! ## 5. "every thread has a `Thread N` block; the crashing thread block comes first and is marked" -/

/-- **thread_blocks_match_threads** — the `Thread N` headers of the full report, in order: first the
    requesting thread (marked), then every thread of the state in index order except the
    requesting one and the ones whose stack walk was skipped because they wrote the dump. -/
theorem thread_blocks_match_threads (s : StateModel) (x : TextExtra) (ls : List TLine)
    (h : printLines s x false = .ok ls) :
    ls.filterMap headerOf =
      (match s.requestingThread with
       | some i => [(i, true)]
       | none => []) ++
      (((zipD ThreadX.dflt s.threads x.threads).zipIdx.filter (otherSel s.requestingThread)).map
        fun p => (p.2, false)) := by
  simp only [printLines, linesAfter, linesWith] at h
  obtain ⟨hd, hhd, h⟩ := obind_ok h
  simp only [Bool.false_eq_true, if_false] at h
  obtain ⟨rest, hrest, h⟩ := obind_ok h
  cases h
  have hb : printLines s x true = .ok hd := by
    simp only [printLines, linesAfter, linesWith, hhd, obind, if_true]
  obtain ⟨_, _, _, hbh⟩ := brief_contents s x hd hb
  simp only [restLines] at hrest
  obtain ⟨others, ho, hrest⟩ := obind_ok hrest
  obtain ⟨mods, hm, hrest⟩ := obind_ok hrest
  obtain ⟨unl, hu, hrest⟩ := obind_ok hrest
  cases hrest
  obtain ⟨o1, _, _⟩ := otherThreadsLines_headers _ _ _ _ ho
  have m1 : mods.filterMap headerOf = [] := by
    rw [filterMap_of_kinds kHeader headerOf headerOf_kind, moduleLines_kinds s _ _ hm, (loaded_kinds _).2.2]
  have u1 : unl.filterMap headerOf = [] := by
    rw [filterMap_of_kinds kHeader headerOf headerOf_kind, unloadedLines_kinds s _ _ hu, (unloaded_kinds _).2.2]
  simp only [List.filterMap_append, hbh, o1, m1, u1, (streamLines_plain x).filterMap_eq_nil _ headerOf_plain,
    (softLines_plain s).filterMap_eq_nil _ headerOf_plain, List.append_nil, List.filterMap_cons, headerOf, plc, pl,
    List.filterMap_nil]

/-- the requesting thread's block is the first thing after the plain summary lines, in both reports,
    and its header carries `(crashed)` exactly when the state has exception info -/
theorem requesting_block_first (s : StateModel) (x : TextExtra) (brief : Bool) (ls : List TLine)
    (h : printLines s x brief = .ok ls) (i : Nat) (hi : s.requestingThread = some i) :
    ∃ pre t tail rest, ls = pre ++ (⟨.header i true, headerText i t (some s.exc.isSome)⟩ :: tail) ++ rest ∧
      AllPlain pre ∧ s.threads[i]? = some t := by
  have key : ∀ hd, printLines s x true = .ok hd →
      ∃ pre t tail, hd = pre ++ (⟨.header i true, headerText i t (some s.exc.isSome)⟩ :: tail) ∧
        AllPlain pre ∧ s.threads[i]? = some t := by
    intro hd hb
    obtain ⟨⟨pre, blk, rfl, hpre, hblk⟩, _⟩ := brief_contents s x hd hb
    unfold requestingLines at hblk
    rw [hi] at hblk
    simp only at hblk
    split at hblk
    · cases hblk
    · rename_i t ht
      obtain ⟨sl, _, hblk⟩ := obind_ok hblk
      cases hblk
      exact ⟨pre, t, _, rfl, hpre, ht⟩
  cases brief with
  | true =>
    obtain ⟨pre, t, tail, rfl, hpre, ht⟩ := key ls h
    exact ⟨pre, t, tail, [], by simp, hpre, ht⟩
  | false =>
    simp only [printLines, linesAfter, linesWith] at h
    obtain ⟨hd, hhd, h⟩ := obind_ok h
    simp only [Bool.false_eq_true, if_false] at h
    obtain ⟨rest, _, h⟩ := obind_ok h
    cases h
    have hb : printLines s x true = .ok hd := by
      simp only [printLines, linesAfter, linesWith, hhd, obind, if_true]
    obtain ⟨pre, t, tail, rfl, hpre, ht⟩ := key hd hb
    exact ⟨pre, t, tail, rest, rfl, hpre, ht⟩

/-- every other header is the unmarked header of the thread at that index -/
theorem other_headers_text (s : StateModel) (x : TextExtra) (ls : List TLine) (h : printLines s x false = .ok ls) :
    ∀ l ∈ ls, ∀ k, l.kind = .header k false → ∃ t, s.threads[k]? = some t ∧ l.text = headerText k t none := by
  simp only [printLines, linesAfter, linesWith] at h
  obtain ⟨hd, hhd, h⟩ := obind_ok h
  simp only [Bool.false_eq_true, if_false] at h
  obtain ⟨rest, hrest, h⟩ := obind_ok h
  cases h
  have hb : printLines s x true = .ok hd := by
    simp only [printLines, linesAfter, linesWith, hhd, obind, if_true]
  obtain ⟨_, _, _, hbh⟩ := brief_contents s x hd hb
  simp only [restLines] at hrest
  obtain ⟨others, ho, hrest⟩ := obind_ok hrest
  obtain ⟨mods, hm, hrest⟩ := obind_ok hrest
  obtain ⟨unl, hu, hrest⟩ := obind_ok hrest
  cases hrest
  intro l hl k hk
  have notIn : ∀ (part : List TLine), part.filterMap headerOf = [] → l ∉ part := by
    intro part hp hmem
    have : headerOf l ∈ part.map headerOf := List.mem_map_of_mem hmem
    have h2 : (k, false) ∈ part.filterMap headerOf := by
      rw [List.mem_filterMap]
      exact ⟨l, hmem, by simp [headerOf, hk]⟩
    rw [hp] at h2
    cases h2
  have m1 : mods.filterMap headerOf = [] := by
    rw [filterMap_of_kinds kHeader headerOf headerOf_kind, moduleLines_kinds s _ _ hm, (loaded_kinds _).2.2]
  have u1 : unl.filterMap headerOf = [] := by
    rw [filterMap_of_kinds kHeader headerOf headerOf_kind, unloadedLines_kinds s _ _ hu, (unloaded_kinds _).2.2]
  have plainPair : ∀ (a b : TLine), a.kind = .plain → b.kind = .plain → l ∈ [a, b] → False := by
    intro a b ha hb hmem
    simp only [List.mem_cons, List.not_mem_nil, or_false] at hmem
    rcases hmem with rfl | rfl
    · rw [ha] at hk; cases hk
    · rw [hb] at hk; cases hk
  rcases List.mem_append.mp hl with h1 | h1
  · -- the brief part: its only header is marked
    have h2 : (k, false) ∈ List.filterMap headerOf hd := by
      rw [List.mem_filterMap]
      exact ⟨l, h1, by simp [headerOf, hk]⟩
    rw [hbh] at h2
    cases hr : s.requestingThread <;> rw [hr] at h2 <;> simp at h2
  · rcases List.mem_append.mp h1 with h1 | h1
    · rcases List.mem_append.mp h1 with h1 | h1
      · rcases List.mem_append.mp h1 with h1 | h1
        · rcases List.mem_append.mp h1 with h1 | h1
          · rcases List.mem_append.mp h1 with h1 | h1
            · rcases List.mem_append.mp h1 with h1 | h1
              · obtain ⟨_, p, hp, _, htx⟩ := otherThreadsLines_header_text _ _ _ _ ho l h1 k false hk
                simp only [Nat.sub_zero] at hp
                have hz := List.mem_zipIdx_iff_getElem?.mp (List.mem_of_getElem? hp)
                simp only at hz
                rw [zipD_getElem?] at hz
                cases ht : s.threads[k]? with
                | none => rw [ht] at hz; cases hz
                | some t =>
                  rw [ht] at hz
                  simp only [Option.map_some, Option.some.injEq] at hz
                  exact ⟨t, rfl, by rw [htx, ← hz]⟩
              · exact (plainPair _ _ rfl rfl h1).elim
            · exact absurd h1 (notIn mods m1)
          · exact (plainPair _ _ rfl rfl h1).elim
        · exact absurd h1 (notIn unl u1)
      · exact absurd h1 (notIn _ ((streamLines_plain x).filterMap_eq_nil _ headerOf_plain))
    · exact absurd h1 (notIn _ ((softLines_plain s).filterMap_eq_nil _ headerOf_plain))

/-- the marks: `(crashed)` with exception info, `(requested dump, did not crash)` without -/
example (t : ThreadM) :
    headerText 3 t (some true) = "Thread ".toList ++ dec 3 ++ [' '] ++ (t.threadName.getD "").toList ++
      " (crashed)".toList ++ " - tid: ".toList ++ dec t.threadId ∧
    headerText 3 t (some false) = "Thread ".toList ++ dec 3 ++ [' '] ++ (t.threadName.getD "").toList ++
      " (requested dump, did not crash)".toList ++ " - tid: ".toList ++ dec t.threadId ∧
    headerText 3 t none = "Thread ".toList ++ dec 3 ++ [' '] ++ (t.threadName.getD "").toList ++ [] ++
      " - tid: ".toList ++ dec t.threadId :=
  ⟨rfl, rfl, rfl⟩

/-! ## 6. "every module of the state is listed once in address order" -/

/-- **modules_listed_by_address** — the lines under `Loaded modules:` / `Unloaded modules:` are, in
    order, exactly the modules `by_addr()` yields; no other line of the report is a module line. -/
theorem modules_listed_by_address (s : StateModel) (x : TextExtra) (ls : List TLine)
    (h : printLines s x false = .ok ls) :
    ls.filterMap loadedOf = modulesByAddr s.modules ∧ ls.filterMap unloadedOf = unloadedByAddr s.unloaded := by
  simp only [printLines, linesAfter, linesWith] at h
  obtain ⟨hd, hhd, h⟩ := obind_ok h
  simp only [Bool.false_eq_true, if_false] at h
  obtain ⟨rest, hrest, h⟩ := obind_ok h
  cases h
  have hb : printLines s x true = .ok hd := by
    simp only [printLines, linesAfter, linesWith, hhd, obind, if_true]
  obtain ⟨_, hb1, hb2, _⟩ := brief_contents s x hd hb
  simp only [restLines] at hrest
  obtain ⟨others, ho, hrest⟩ := obind_ok hrest
  obtain ⟨mods, hm, hrest⟩ := obind_ok hrest
  obtain ⟨unl, hu, hrest⟩ := obind_ok hrest
  cases hrest
  obtain ⟨_, o2, o3⟩ := otherThreadsLines_headers _ _ _ _ ho
  have mk := moduleLines_kinds s _ _ hm
  have uk := unloadedLines_kinds s _ _ hu
  constructor
  · simp only [List.filterMap_append, hb1, o2, (streamLines_plain x).filterMap_eq_nil _ loadedOf_plain,
      (softLines_plain s).filterMap_eq_nil _ loadedOf_plain, List.append_nil, List.filterMap_cons, loadedOf, plc, pl,
      List.filterMap_nil, List.nil_append]
    rw [filterMap_of_kinds kLoaded _ loadedOf_kind unl, uk, (unloaded_kinds _).2.1,
      filterMap_of_kinds kLoaded _ loadedOf_kind mods, mk, (loaded_kinds _).1, List.append_nil]
  · simp only [List.filterMap_append, hb2, o3, (streamLines_plain x).filterMap_eq_nil _ unloadedOf_plain,
      (softLines_plain s).filterMap_eq_nil _ unloadedOf_plain, List.append_nil, List.filterMap_cons, unloadedOf, plc, pl,
      List.filterMap_nil, List.nil_append]
    rw [filterMap_of_kinds kUnloaded _ unloadedOf_kind unl, uk, (unloaded_kinds _).1,
      filterMap_of_kinds kUnloaded _ unloadedOf_kind mods, mk, (loaded_kinds _).2.1, List.nil_append]

/-- **loaded_modules_in_address_order** — what `by_addr()` of the loaded list is (C08, with module
    positions as values): every listed position is a module of the state with a valid range
    (`size > 0`, `base + size` fits — so `base + size - 1` cannot panic), the list is strictly
    ascending with pairwise disjoint ranges, no module is listed twice, and a module with a valid
    range that intersects no other module's range IS listed. -/
theorem loaded_modules_in_address_order (ms : List ModuleM) :
    (∀ i ∈ modulesByAddr ms, ∃ m r, ms[i]? = some m ∧ RangeMap.mkRange m.base m.size = some r) ∧
    ((modulesByAddr ms).Pairwise fun i j =>
      ∃ mi mj, ms[i]? = some mi ∧ ms[j]? = some mj ∧ 0 < mi.size ∧ mi.base + mi.size ≤ mj.base) ∧
    (modulesByAddr ms).Nodup ∧
    (∀ i m r, ms[i]? = some m → RangeMap.mkRange m.base m.size = some r →
      (∀ j m' r', j ≠ i → ms[j]? = some m' → RangeMap.mkRange m'.base m'.size = some r' →
        r.intersects r' = false) → i ∈ modulesByAddr ms) :=
  ⟨fun _ h => mem_modulesByAddr h, modulesByAddr_sorted ms, modulesByAddr_nodup ms, modulesByAddr_complete ms⟩

/-- **unloaded_modules_in_address_order** — `by_addr()` of the unloaded list: exactly the modules with
    a valid range, each once, in `(base, end)` order (overlaps are kept: a DLL may have been loaded
    and unloaded at overlapping places). -/
theorem unloaded_modules_in_address_order (ms : List UnloadedM) :
    (∀ i, i ∈ unloadedByAddr ms ↔ ∃ m r, ms[i]? = some m ∧ RangeMap.mkRange m.base m.size = some r) ∧
    (unloadedByAddr ms).Nodup ∧
    ((unloadedByAddr ms).Pairwise fun i j =>
      ∃ mi mj ri rj, ms[i]? = some mi ∧ ms[j]? = some mj ∧ RangeMap.mkRange mi.base mi.size = some ri ∧
        RangeMap.mkRange mj.base mj.size = some rj ∧ RangeMap.rle ri rj = true) :=
  ⟨mem_unloadedByAddr_iff ms, unloadedByAddr_nodup ms, unloadedByAddr_sorted ms⟩

/-- non-vacuity of the isolation hypothesis: the example state's only module is isolated, hence
    listed; a module overlapping an earlier one need not be (here `[1]` is dropped) -/
example : (0 : Nat) ∈ modulesByAddr exState.modules :=
  modulesByAddr_complete exState.modules 0 _ ⟨0x400000, 0x40ffff⟩ rfl (by decide) (by
    intro j m' r' hj hm
    cases j with
    | zero => exact absurd rfl hj
    | succ k => simp [exState] at hm)

end MdModel.Text
