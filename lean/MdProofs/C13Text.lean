/-
  C13 (text report) — "Processing the same minidump with the same symbols always yields
  byte-identical JSON and text reports, across repeated runs …", and C03's "the resulting state can
  always be written as full text, brief text and JSON".

  `MdProofs/C13.lean` proves order-freedom of the places of the PIPELINE where a hash iteration
  order or a completion order is consumed. This file is about the last stage for the TEXT report:
  the printer `ProcessState::print` / `print_brief` itself, modelled in `MdModel.Text` (the model
  the compiled driver executes and engine `text` compares byte for byte with the real printer).

    §1 `printText_total`            no panic on a well-formed state (and what well-formed must mean)
    §2 `text_history_free`, `text_hash_order_free`, `printText_function_of_state`
                                    the bytes depend on the printed state and `brief` only: not on
                                    what the thread printed before (thread-local print context), not
                                    on the iteration order of ANY HashMap/HashSet of the state
    §3 `brief_is_prefix`            full = brief ++ (other threads, module lists, streams, soft errors)
    §4 `frame_lines_count`          numbered lines of a call stack = frames + inline frames, 0, 1, 2 …
    §5 `thread_blocks_match_threads` requesting thread first and marked, then the others by index
    §6 `modules_listed_by_address`  the module lists are `by_addr()`: ascending, disjoint, complete

  Every `HashMap`/`HashSet` the state carries, and what the text printer does with it
  (process_state.rs:559-875, minidump-unwind/src/lib.rs:384-550):
    * `cert_info: HashMap<String, String>`            `.get(name)` only  (lines 805, 826)
    * `MinidumpContextValidity::Some(HashSet<&str>)`  `.contains(reg)` only, inside a walk over the
      fixed `general_purpose_registers()` list (lib.rs:397-398); for `All` a HashSet is BUILT from
      that list and again only queried with `contains`
    * `symbol_stats: HashMap<String, SymbolStats>`    not read by the text printer
    * `linux_proc_limits.limits: HashMap<…>`          not read by the text printer
  No `HashMap`/`HashSet` is ever ITERATED by the text printer. (`StackFrame::unloaded_modules` is
  a `BTreeMap<String, BTreeSet<u64>>`: iterated, in key order — part of the state's value.)
  The remaining order-sensitive spot is `sort_unstable_by` on the bit flips (§2c).
-/
import MdProofs.Lemmas.Text
import MdProofs.C15
namespace MdModel.Text
open MdModel MdModel.Json

/-! ## 1. "can always be written as full text, brief text": no panic -/

/-- Well-formedness the text printer needs: the requesting thread is an index, and for every frame
    the bases it subtracts are not above the instruction (`module base`, `function base`,
    `source line base`). Unlike the JSON report NOTHING is required of the module lists:
    `by_addr()` only yields modules whose `base + size` fits (C08). -/
structure WFT (s : StateModel) (x : TextExtra) : Prop where
  req : ∀ i, s.requestingThread = some i → i < s.threads.length
  frames : ∀ p ∈ zipD ThreadX.dflt s.threads x.threads, ThreadOK p.1 p.2

theorem requestingLines_total (s : StateModel) (x : TextExtra) (wf : WFT s x) :
    ∃ ls, requestingLines s x = .ok ls := by
  unfold requestingLines
  cases hreq : s.requestingThread with
  | none => exact ⟨[], rfl⟩
  | some i =>
    have hi := wf.req i hreq
    have h1 : s.threads[i]? = some s.threads[i] := by simp [hi]
    simp only [h1]
    have hz : (zipD ThreadX.dflt s.threads x.threads)[i]? =
        some (s.threads[i], x.threads[i]?.getD ThreadX.dflt) := by
      rw [zipD_getElem?, h1]; rfl
    have hok := wf.frames _ (List.mem_of_getElem? hz)
    obtain ⟨ls, hls⟩ := stackLines_total _ _ hok
    simp only [hls, obind]
    exact ⟨_, rfl⟩

theorem briefLines_total (pw : PW) (s : StateModel) (x : TextExtra) (wf : WFT s x) :
    ∃ ls, briefLines pw s x = .ok ls := by
  obtain ⟨r, hr⟩ := requestingLines_total s x wf
  simp only [briefLines, hr, obind]
  exact ⟨_, rfl⟩

theorem restLines_total (s : StateModel) (x : TextExtra) (wf : WFT s x) : ∃ ls, restLines s x = .ok ls := by
  obtain ⟨o, ho⟩ := otherThreadsLines_total s.requestingThread 0 _ wf.frames
  obtain ⟨m, hm⟩ := moduleLines_total s (modulesByAddr s.modules) (fun _ h => h)
  obtain ⟨u, hu⟩ := unloadedLines_total s (unloadedByAddr s.unloaded) (fun _ h => h)
  simp only [restLines, ho, hm, hu, obind]
  exact ⟨_, rfl⟩

/-- **printText_total** — on a well-formed state neither `print` nor `print_brief` panics. -/
theorem printText_total (s : StateModel) (x : TextExtra) (brief : Bool) (wf : WFT s x) :
    ∃ cs, printText s x brief = .ok cs := by
  obtain ⟨h, hh⟩ := briefLines_total (setCtx none s) s x wf
  obtain ⟨r, hr⟩ := restLines_total s x wf
  cases brief <;> simp only [printText, printLines, linesAfter, linesWith, hh, hr, obind] <;>
    exact ⟨_, rfl⟩

/-- the source-line clause on top of C15's `WF` -/
def LineOK (s : StateModel) (x : TextExtra) : Prop :=
  ∀ p ∈ zipD ThreadX.dflt s.threads x.threads, ∀ q ∈ zipD FrameX.dflt p.1.frames p.2.frames,
    ∀ lb, q.2.lineBase = some lb → lb ≤ q.1.instruction

/-- under the hypothesis of C15's `printJson_total` plus "source line base ≤ instruction" -/
theorem wft_of_wf (s : StateModel) (x : TextExtra) (wf : WF s) (hl : LineOK s x) : WFT s x where
  req := wf.req
  frames := by
    intro p hp q hq
    have ht : p.1 ∈ s.threads := mem_zipD_fst hp
    have hf : q.1 ∈ p.1.frames := mem_zipD_fst hq
    exact ⟨wf.frameMod p.1 ht q.1 hf, wf.frameFn p.1 ht q.1 hf, hl p hp q hq⟩

theorem printText_total_of_wf (s : StateModel) (x : TextExtra) (brief : Bool) (wf : WF s) (hl : LineOK s x) :
    ∃ cs, printText s x brief = .ok cs :=
  printText_total s x brief (wft_of_wf s x wf hl)

/-! ### non-vacuity and necessity of every clause of `WFT` -/

/-- extras for C15's example state: a line base below the instruction, recovered arguments, the
    second (frameless) thread is the dump writer, one bit flip printed at position 0 -/
def exExtra : TextExtra :=
  { times := some (1700000123999999999, 1700000000000000001),
    threads := [⟨false, [⟨some 0x401230, some ⟨.cdecl, [("int", some 1), ("char*", none)]⟩, 4⟩]⟩, ⟨true, []⟩],
    flips := [⟨0x3f666666, "0.900"⟩], flipOrder := [0],
    unimplemented := [⟨20, "JavaScriptDataStream", "Official", 0x100⟩], unknown := [⟨0x12345678, "", "Unknown Extension", 0⟩] }

example : WFT exState exExtra := by
  constructor
  · simp [exState]
  · intro p hp q hq
    simp [exState, exExtra, zipD] at hp
    rcases hp with rfl | rfl
    · simp [zipD] at hq
      subst hq
      refine ⟨?_, ?_, ?_⟩ <;> simp [exFrame]
    · simp [zipD] at hq

example : shapeOk exState exExtra = true := by decide

example : LineOK exState exExtra := by
  intro p hp q hq
  simp [exState, exExtra, zipD] at hp
  rcases hp with rfl | rfl
  · simp [zipD] at hq
    subst hq
    simp [exFrame]
  · simp [zipD] at hq

/-- `req` is needed: a requesting thread that is no index panics in `print` AND `print_brief` -/
example (brief : Bool) : printText { exState with requestingThread := some 2 } exExtra brief =
    .panic "self.threads[requesting_thread]: index out of bounds" := by
  cases brief <;>
    simp [printText, printLines, linesAfter, linesWith, briefLines, requestingLines, exState, obind]

/-- the line-base clause is needed (and is NOT implied by C15's `WF`): `addr - src_base` -/
example : WF exState ∧ printText exState { exExtra with threads := [⟨false, [⟨some 0x401235, none, 4⟩]⟩] } true =
    .panic "frame line: addr - src_base" := by
  refine ⟨by constructor <;> simp [exState, exFrame, U64MAX], ?_⟩
  simp [printText, printLines, linesAfter, linesWith, briefLines, requestingLines, exState, exFrame, obind,
    stackLines, zipD, framesLines, frameBody, checkedSub]

/-- the function-base clause is needed when there is no complete source line: `addr - func_base` -/
example : printText { exState with threads := [⟨[{ exFrame with functionBase := some 0x401235, sourceLine := none }], 7, none, none⟩] }
    exExtra true = .panic "frame line: addr - func_base" := by
  simp [printText, printLines, linesAfter, linesWith, briefLines, requestingLines, exState, exFrame, obind,
    stackLines, zipD, framesLines, frameBody, checkedSub, exExtra]

/-- the module-base clause is needed when there is no function: `addr - module.base_address()` -/
example : printText { exState with threads := [⟨[{ exFrame with instruction := 0x3fffff, functionName := none }], 7, none, none⟩] }
    exExtra true = .panic "frame line: addr - module.base_address()" := by
  simp [printText, printLines, linesAfter, linesWith, briefLines, requestingLines, exState, exFrame, obind,
    stackLines, zipD, framesLines, frameBody, checkedSub, exExtra]

/-- a frame of ANOTHER thread outside `WFT`: `print` panics, `print_brief` does not -/
example :
    let s := { exState with threads := [⟨[exFrame], 7, none, none⟩, ⟨[{ exFrame with instruction := 0 }], 8, none, none⟩] }
    let x := { exExtra with threads := [⟨false, [⟨none, none, 4⟩]⟩, ⟨false, [⟨some 1, none, 4⟩]⟩] }
    (∃ cs, printText s x true = .ok cs) ∧
    printText s x false = .panic "frame line: addr - src_base" := by
  refine ⟨⟨_, by
    simp [printText, printLines, linesAfter, linesWith, briefLines, requestingLines, exState, exFrame, obind,
      stackLines, zipD, framesLines, frameBody, checkedSub, exExtra]
    rfl⟩, ?_⟩
  simp [printText, printLines, linesAfter, linesWith, briefLines, requestingLines, exState, exFrame, obind,
    stackLines, zipD, framesLines, frameBody, checkedSub, exExtra, restLines, otherThreadsLines]

/-- C15's `modEnd` clause is NOT needed by the text report: a module whose end wraps is simply
    not listed (`memory_range()` is `None`), where `print_json` panics -/
example : ∃ ls, moduleLines { exState with modules := [⟨U64MAX, 2, "wraps", none, "0", "", none⟩] }
    (modulesByAddr [⟨U64MAX, 2, "wraps", none, "0", "", none⟩]) = .ok ls :=
  moduleLines_total _ _ (fun _ h => h)

/-! ## 2. "byte-identical … text reports, across repeated runs": the bytes depend on the printed
      state and on `brief` only -/

/-! ### 2a. not on what the thread printed before (thread-local print context) -/

/-- **text_history_free** — `print_internal` begins with `set_print_context`, which OVERWRITES the
    thread-local pointer width: whatever earlier prints (of any dumps, on this thread or tokio
    worker) left there (`before`, `before'`), the lines are the same. -/
theorem text_history_free (before before' : Option PW) (s : StateModel) (x : TextExtra) (brief : Bool) :
    linesAfter setCtx before s x brief = linesAfter setCtx before' s x brief := rfl

/-- the variant of seeded break C13-2b (fill the context only when it is empty) makes the text
    depend on the history: an x86 state printed after an amd64 state shows an 18-character crash
    address, printed first it shows 10 characters. -/
theorem text_ctx_once_history_dependent :
    ∃ (before before' : Option PW) (s : StateModel) (x : TextExtra),
      linesAfter setCtxOnce before s x true ≠ linesAfter setCtxOnce before' s x true := by
  refine ⟨none, some .b64, { exState with requestingThread := none }, exExtra, ?_⟩
  intro h
  have h2 := congrArg (fun (o : Outcome (List TLine)) => match o with
    | Outcome.ok ls => (ls.map fun (l : TLine) => l.text.length)
    | Outcome.panic _ => []) h
  revert h2
  simp [linesAfter, setCtxOnce, linesWith, briefLines, requestingLines, obind, exState, sysLines, crashLines,
    miscLines, plc, pl, addr, hexAddr, hexPad, PW.digits, Cpu.pw, padLeft, hexDigits, digitsB_eq, exExtra]

/-! ### 2b. not on the iteration order of any HashMap / HashSet of the state -/

/-- The same printed state, whatever order its hash containers iterate in: `cert_info` is any
    permutation of the same entries (keys of a map are distinct), every frame's validity set any
    permutation of the same names. The members the text report never reads — `process_id`,
    `handles`, and the two other hash maps `symbol_stats` and `linux_proc_limits` — are not
    constrained at all. -/
structure HashEquiv (s s' : StateModel) : Prop where
  cert : s.certInfo.Perm s'.certInfo
  certKeys : (s.certInfo.map (·.1)).Nodup
  threads : AllRel ThreadEquiv s.threads s'.threads
  exc : s.exc = s'.exc
  assertion : s.assertion = s'.assertion
  requestingThread : s.requestingThread = s'.requestingThread
  sys : s.sys = s'.sys
  lsb : s.lsb = s'.lsb
  macCrashInfo : s.macCrashInfo = s'.macCrashInfo
  macBootArgs : s.macBootArgs = s'.macBootArgs
  modules : s.modules = s'.modules
  unloaded : s.unloaded = s'.unloaded
  memoryMapCount : s.memoryMapCount = s'.memoryMapCount
  softErrors : s.softErrors = s'.softErrors

theorem briefLines_hash (pw : PW) {s s' : StateModel} (h : HashEquiv s s') (x : TextExtra) :
    briefLines pw s x = briefLines pw s' x := by
  have h1 : sysLines s = sysLines s' := by unfold sysLines; rw [h.sys, h.lsb]
  have h2 : miscLines s x = miscLines s' x := by
    unfold miscLines; rw [h.assertion, h.macCrashInfo, h.macBootArgs, h.memoryMapCount]
  simp only [briefLines, requestingLines_equiv x h.requestingThread h.exc h.threads, h1, h2, h.exc]

theorem restLines_hash {s s' : StateModel} (h : HashEquiv s s') (x : TextExtra) :
    restLines s x = restLines s' x := by
  have hc := lookupS_perm h.cert h.certKeys
  have h3 : softLines s = softLines s' := by unfold softLines; rw [h.softErrors]
  simp only [restLines, ← h.requestingThread,
    otherThreadsLines_equiv s.requestingThread 0 (zipD_allRel ThreadX.dflt x.threads h.threads),
    moduleLines_congr h.modules hc, unloadedLines_congr h.unloaded hc, ← h.modules, ← h.unloaded, h3]

/-- **text_hash_order_free** — `print` and `print_brief` write the same lines for every iteration
    order of every `HashMap`/`HashSet` of the state (fresh `RandomState`s: "repeated runs"), and
    whatever `symbol_stats` / `linux_proc_limits` / `handles` / `process_id` hold. -/
theorem text_hash_order_free {s s' : StateModel} (h : HashEquiv s s') (x : TextExtra) (brief : Bool) :
    printText s x brief = printText s' x brief := by
  have hpw : setCtx none s = setCtx none s' := by simp only [setCtx, h.sys]
  simp only [printText, printLines, linesAfter, linesWith, hpw, briefLines_hash _ h, restLines_hash h]

/-- non-vacuity: the example state with its two certificates swapped, the validity set of its
    frame in another order and other symbol statistics / limits is `HashEquiv` to itself -/
example :
    let s := { exState with certInfo := [("a.dll", "A"), ("b.dll", "B")],
                            threads := [⟨[{ exFrame with ctx := ⟨4, [("eip", 1), ("esp", 2)], some ["eip", "esp"]⟩ }], 7, none, none⟩] }
    let s' := { exState with certInfo := [("b.dll", "B"), ("a.dll", "A")], pid := none, handles := none,
                             symbolStats := [("x", defaultStats)], procLimits := some [],
                             threads := [⟨[{ exFrame with ctx := ⟨4, [("eip", 1), ("esp", 2)], some ["esp", "eip"]⟩ }], 7, none, none⟩] }
    HashEquiv s s' := by
  refine ⟨List.Perm.swap _ _ _, by decide, ?_, rfl, rfl, rfl, rfl, rfl, rfl, rfl, rfl, rfl, rfl, rfl⟩
  exact ⟨⟨rfl, ⟨⟨rfl, ⟨rfl, rfl, List.Perm.swap _ _ _⟩⟩, trivial⟩⟩, trivial⟩

/-- a register printer that ITERATES the validity set (the mutation the check must catch) -/
def regNamesBySet (c : RegCtx) : List String :=
  match c.valid with
  | none => c.gpr.map (·.1)
  | some names => names.filter fun n => (c.gpr.map (·.1)).contains n

/-- … is order dependent, while the real walk over the fixed register list is not -/
theorem regs_by_set_order_dependent :
    ∃ c c' : RegCtx, CtxEquiv c c' ∧ regNamesBySet c ≠ regNamesBySet c' ∧ regLines c = regLines c' := by
  refine ⟨⟨4, [("eip", 1), ("esp", 2)], some ["eip", "esp"]⟩, ⟨4, [("eip", 1), ("esp", 2)], some ["esp", "eip"]⟩,
    ⟨rfl, rfl, List.Perm.swap _ _ _⟩, by decide, ?_⟩
  exact regLines_equiv ⟨rfl, rfl, List.Perm.swap _ _ _⟩

/-! ### 2c. not on how `sort_unstable_by` arranges tied bit flips — when ties show the same -/

/-- the bit flips of the state paired with their extras, in list order -/
def flipsOf (s : StateModel) (x : TextExtra) : List (BitFlip × FlipX) :=
  match s.exc with
  | some e => zipD FlipX.dflt e.bitFlips x.flips
  | none => []

/-- **flip_order_irrelevant** — `sort_unstable_by` is only assumed to return SOME arrangement that
    is sorted by the comparator (confidence descending under `total_cmp`, then address): any two
    such arrangements print the same lines provided entries that tie on (confidence, address) show
    the same register and confidence text. -/
theorem flip_order_irrelevant (pw : PW) (fs : List (BitFlip × FlipX)) (o₁ o₂ : List Nat)
    (h₁ : validOrder fs o₁ = true) (h₂ : validOrder fs o₂ = true)
    (ties : ∀ a ∈ fs, ∀ b ∈ fs, flipKey a = flipKey b → flipShown a = flipShown b) :
    flipLines pw 0 (o₁.filterMap (fs[·]?)) = flipLines pw 0 (o₂.filterMap (fs[·]?)) := by
  apply flipLines_shown
  apply map_eq_of_key flipKey flipShown (· ∈ fs) (fun a b ha hb => ties a ha b hb)
  · exact fun a ha => mem_filterMap_getElem? ha
  · exact fun a ha => mem_filterMap_getElem? ha
  · rw [validOrder_keys h₁, validOrder_keys h₂]

/-- in particular when no two entries tie -/
theorem flip_order_irrelevant_of_distinct_keys (pw : PW) (fs : List (BitFlip × FlipX)) (o₁ o₂ : List Nat)
    (h₁ : validOrder fs o₁ = true) (h₂ : validOrder fs o₂ = true) (nd : (fs.map flipKey).Nodup) :
    flipLines pw 0 (o₁.filterMap (fs[·]?)) = flipLines pw 0 (o₂.filterMap (fs[·]?)) := by
  apply flip_order_irrelevant pw fs o₁ o₂ h₁ h₂
  intro a ha b hb hk
  rw [eq_of_nodup_map flipKey nd ha hb hk]

/-- the hypothesis on ties is needed: `rax` and `rbx` holding the same value give two candidates
    with one address and one confidence; both arrangements are sorted, the lines differ. -/
theorem flip_order_matters_for_differing_ties :
    ∃ (fs : List (BitFlip × FlipX)) (o₁ o₂ : List Nat), validOrder fs o₁ = true ∧ validOrder fs o₂ = true ∧
      (o₁.filterMap (fs[·]?)).map flipShown ≠ (o₂.filterMap (fs[·]?)).map flipShown :=
  ⟨[(⟨16, some "rax", false, false, false, 0, false, none⟩, ⟨0x3e800000, "0.250"⟩),
    (⟨16, some "rbx", false, false, false, 0, false, none⟩, ⟨0x3e800000, "0.250"⟩)],
   [0, 1], [1, 0], by decide, by decide, by decide⟩

/-- non-vacuity: three candidates, two of them tied and showing the same; `[2, 0, 1]` and
    `[2, 1, 0]` are the valid orders (confidence 0.9 first), `[0, 1, 2]` is not -/
example :
    let fs : List (BitFlip × FlipX) :=
      [(⟨16, none, false, false, false, 0, false, none⟩, ⟨0x3e800000, "0.250"⟩),
       (⟨16, none, false, false, false, 1, true, none⟩, ⟨0x3e800000, "0.250"⟩),
       (⟨8, some "rax", false, false, false, 0, false, none⟩, ⟨0x3f666666, "0.900"⟩)]
    validOrder fs [2, 0, 1] = true ∧ validOrder fs [2, 1, 0] = true ∧ validOrder fs [0, 1, 2] = false ∧
    (∀ a ∈ fs, ∀ b ∈ fs, flipKey a = flipKey b → flipShown a = flipShown b) := by
  decide

/-- `total_cmp`: -NaN < -inf < -0.0 < +0.0 < 0.25 < +inf < +NaN as keys -/
example : [0xffc00000, 0xff800000, 0x80000000, 0, 0x3e800000, 0x7f800000, 0x7fc00000].map totalKey =
    [4194303, 8388607, 2147483647, 2147483648, 3196059648, 4286578688, 4290772992] := by decide

/-! ### 2d. together -/

/-- **printText_function_of_state** — the characters `print` / `print_brief` write are a function of
    the printed state and `brief`: two prints agree whenever the states are equal up to the
    iteration order of their hash containers (and up to the members the text report never reads),
    whatever the print context of the thread held before, and whichever sorted arrangement the
    unstable sort chose for the bit flips (ties showing the same). -/
theorem printText_function_of_state {s s' : StateModel} (h : HashEquiv s s') (x : TextExtra) (order' : List Nat)
    (before before' : Option PW) (brief : Bool)
    (h₁ : validOrder (flipsOf s x) x.flipOrder = true) (h₂ : validOrder (flipsOf s x) order' = true)
    (ties : ∀ a ∈ flipsOf s x, ∀ b ∈ flipsOf s x, flipKey a = flipKey b → flipShown a = flipShown b) :
    obind (linesAfter setCtx before s x brief) (fun ls => .ok (renderLines ls)) =
    obind (linesAfter setCtx before' s' { x with flipOrder := order' } brief) (fun ls => .ok (renderLines ls)) := by
  have hx : ∀ pw, briefLines pw s x = briefLines pw s { x with flipOrder := order' } := by
    intro pw
    unfold briefLines
    cases he : s.exc with
    | none => rfl
    | some e =>
      have hf : flipsOf s x = zipD FlipX.dflt e.bitFlips x.flips := by simp only [flipsOf, he]
      rw [hf] at h₁ h₂ ties
      have hcl : crashLines pw e x = crashLines pw e { x with flipOrder := order' } := by
        simp only [crashLines, flip_order_irrelevant pw _ _ _ h₁ h₂ ties]
      dsimp only
      rw [hcl]
      rfl
  have hr : restLines s x = restLines s { x with flipOrder := order' } := rfl
  have e1 : obind (linesAfter setCtx before s x brief) (fun ls => .ok (renderLines ls)) =
      printText s { x with flipOrder := order' } brief := by
    simp only [printText, printLines, linesAfter, linesWith, setCtx, hx, hr]
  have e2 : obind (linesAfter setCtx before' s' { x with flipOrder := order' } brief)
      (fun ls => .ok (renderLines ls)) = printText s' { x with flipOrder := order' } brief := rfl
  rw [e1, e2]
  exact text_hash_order_free h _ brief

end MdModel.Text
