/-
  C18 — Register access by name is consistent for every CPU context.

  Property text: "For every supported CPU context type and every register name or documented
  alias, writing a register by name and reading it back returns the value, aliases denote the same
  register, and reading an unknown name reports absence instead of panicking. The stack- and
  instruction-pointer names agree with the dedicated accessors, validity sets are honoured (also
  through aliases), and the enumerations of registers and of valid registers list exactly the named
  general-purpose registers."

  The theorems are about `MdModel.Regs`, the interpretation of the tables that
  translators/regs.py regenerates from minidump/src/context.rs and minidump-common/src/format.rs on
  every run (`MdModel.Gen.Regs`).  They quantify over ALL nine context types (`c : Ctx`), ALL
  strings as names, ALL register files (`st : State`, a function from cells to arbitrary values),
  ALL values and ALL validity sets; the finite content of the tables enters through the kernel-decided
  table facts of `MdProofs.Lemmas.RegsTables`, so a changed arm, a missing alias, swapped sp/ip names
  or a broken `sparc_alias_index` breaks the build of this file.

  "The table" of a context is `knownNames c`: every name occurring in `REGISTERS`, in a getter or
  setter pattern, in an alias arm of `memoize_register` / `register_is_valid` (for SPARC: the 32
  window aliases `sparc_alias_index` maps), and the sp/ip names.
-/
import MdProofs.Lemmas.RegsFacts
namespace MdModel.Regs
open MdModel MdModel.Gen.Regs

/-! ## 1. "writing a register by name and reading it back returns the value"
      (and no other cell changes) -/

/-- For EVERY name the setter accepts (canonical or alias), in every context, state and value:
    reading the name back gives the value, exactly one cell was written, every other cell is
    unchanged, and the name is one the name lookup knows (so `get_register(.., All)` returns the
    value too — the pre-`fix:` SPARC behaviour `set("o6")` ok / `get("o6")` = None is excluded). -/
theorem set_get (c : Ctx) (st st' : State) (n : String) (v : Nat)
    (h : setRegister c st n v = .ok (some st')) :
    getAlways c st' n = .ok v ∧
    getRegister c st' n .all = .ok (some v) ∧
    ∃ cell, st' cell = v ∧ ∀ cell', cell' ≠ cell → st' cell' = st cell' := by
  obtain ⟨cell, hs, _, rfl⟩ := setRegister_ok_some h
  have hkey : n ∈ (setArms c).map (·.1) := by
    unfold setCell at hs
    split at hs
    · rename_i r hr; exact assoc_some_key_mem hr
    · cases hs
  have hk := known_of_setKey hkey
  obtain ⟨cell', r, f⟩ := known_facts hk
  have hcc : cell' = cell := by
    have := f.setCell; rw [hs] at this; cases this; rfl
  subst hcc
  have hget : getAlways c (st.write cell' v) n = .ok v := by
    rw [getAlways_of_cell _ f.getCell f.inBounds]; simp [State.write]
  refine ⟨hget, ?_, cell', by simp [State.write], ?_⟩
  · simp only [getRegister, isValid_all_known hk, hget]
  · intro x hx; simp [State.write, hx]

/-- The setter never panics, on any string; it accepts exactly the getter's names. -/
theorem set_total (c : Ctx) (st : State) (n : String) (v : Nat) :
    (∃ r, setRegister c st n v = .ok r) ∧
    ((∃ st', setRegister c st n v = .ok (some st')) ↔ n ∈ (getArms c).map (·.1)) := by
  by_cases hk : n ∈ (setArms c).map (·.1)
  · obtain ⟨cell, r, f⟩ := known_facts (known_of_setKey hk)
    have := setRegister_of_cell st v f.setCell f.inBounds
    exact ⟨⟨_, this⟩, ⟨fun _ => arms_same_keys c ▸ hk, fun _ => ⟨_, this⟩⟩⟩
  · have := setRegister_unknown st v hk
    refine ⟨⟨_, this⟩, ⟨?_, fun hg => absurd (arms_same_keys c ▸ hg) hk⟩⟩
    rintro ⟨st', h'⟩; rw [this] at h'; cases h'

/-! ## 2. "aliases denote the same register" -/

/-- Two names with the same canonical name (`memoize_register`) denote the same storage cell, for
    the getter and for the setter; and conversely names of the same cell have the same canonical
    name — aliases are exactly the names of one cell. -/
theorem alias_same_cell (c : Ctx) (n m rn rm : String)
    (hn : memoize c n = .ok (some rn)) (hm : memoize c m = .ok (some rm)) :
    (rn = rm ↔ getCell c n = getCell c m) ∧
    (∃ cell, getCell c n = some cell ∧ setCell c n = some cell ∧ getCell c rn = some cell) := by
  have kn := memoize_some_known hn
  have km := memoize_some_known hm
  have := known_alias_iff' kn km
  rw [memoName_of_memoize hn, memoName_of_memoize hm] at this
  obtain ⟨cell, r, f⟩ := known_facts kn
  have hr : r = rn := by have := f.memo; rw [hn] at this; cases this; rfl
  subst hr
  exact ⟨by simpa using this, cell, f.getCell, f.setCell, f.canonCell⟩

/-- Writing through one name is read back through every alias of it. -/
theorem alias_reads_written (c : Ctx) (st st' : State) (n m r : String) (v : Nat)
    (hn : memoize c n = .ok (some r)) (hm : memoize c m = .ok (some r))
    (h : setRegister c st n v = .ok (some st')) :
    getAlways c st' m = .ok v := by
  obtain ⟨cell, hs, _, rfl⟩ := setRegister_ok_some h
  obtain ⟨celln, r1, fn⟩ := known_facts (memoize_some_known hn)
  obtain ⟨cellm, r2, fm⟩ := known_facts (memoize_some_known hm)
  have e1 : celln = cell := by have := fn.setCell; rw [hs] at this; cases this; rfl
  have e2 : getCell c n = getCell c m := ((alias_same_cell c n m r r hn hm).1).mp rfl
  rw [fn.getCell, fm.getCell] at e2
  cases e2
  subst e1
  rw [getAlways_of_cell _ fm.getCell fm.inBounds]; simp [State.write]

/-- `memoize_register` answers with a name of `REGISTERS` that is its own canonical name. -/
theorem memoize_canonical (c : Ctx) (n r : String) (h : memoize c n = .ok (some r)) :
    r ∈ registers c ∧ memoize c r = .ok (some r) := by
  obtain ⟨cell, r', f⟩ := known_facts (memoize_some_known h)
  have : r' = r := by have := f.memo; rw [h] at this; cases this; rfl
  subst this
  exact ⟨f.canonReg, f.canonMemo⟩

/-! ## 3. "reading an unknown name reports absence instead of panicking" -/

/-- A name outside the table is absent for every Option-returning method, without a panic:
    `memoize_register`, `set_register`, `register_is_valid` and `get_register` /
    `MinidumpContext::get_register` under `All` and under every `Some(S)` that does not itself
    contain the foreign name (the property quantifies S over sets of the context's names and
    aliases; see `foreign_name_in_set_panics` for why that hypothesis cannot be dropped). -/
theorem unknown_absent (c : Ctx) (st : State) (n : String) (hn : n ∉ knownNames c) :
    memoize c n = .ok none ∧
    (∀ v, setRegister c st n v = .ok none) ∧
    isValid c n .all = .ok false ∧
    getRegister c st n .all = .ok none ∧
    (∀ S, n ∉ S → isValid c n (.some S) = .ok false ∧ getRegister c st n (.some S) = .ok none) := by
  have hm := memoize_unknown hn
  have hs : n ∉ (setArms c).map (·.1) := fun h => hn (known_of_setKey h)
  have hva : isValid c n .all = .ok false := by simp only [isValid, hm, Option.isSome_none]
  refine ⟨hm, fun v => setRegister_unknown st v hs, hva, ?_, ?_⟩
  · simp only [getRegister, hva]
  · intro S hS
    have := isValid_some_unknown hn hS
    exact ⟨this, by simp only [getRegister, this]⟩

/-- No reader with an `Option`/`bool` result panics on ANY string, as long as the validity set
    holds no foreign name: total functions. -/
theorem readers_total (c : Ctx) (st : State) (n : String) :
    (∃ r, memoize c n = .ok r) ∧ (∃ b, isValid c n .all = .ok b) ∧
    (∃ r, getRegister c st n .all = .ok r) ∧
    (∀ S, (∀ s ∈ S, s ∈ knownNames c) → (∃ b, isValid c n (.some S) = .ok b) ∧
      ∃ r, getRegister c st n (.some S) = .ok r) := by
  by_cases hk : n ∈ knownNames c
  · obtain ⟨cell, hc, hg⟩ := getAlways_known st hk
    have hva := isValid_all_known hk
    refine ⟨memoize_total c n, ⟨_, hva⟩, ⟨some (st cell), by simp only [getRegister, hva, hg]⟩, fun S _ => ?_⟩
    obtain ⟨b, hv⟩ := isValid_total c n (.some S)
    refine ⟨⟨_, hv⟩, ?_⟩
    simp only [getRegister, hv, hg]
    cases b <;> simp
  · obtain ⟨h1, _, h3, h4, h5⟩ := unknown_absent c st n hk
    refine ⟨⟨_, h1⟩, ⟨_, h3⟩, ⟨_, h4⟩, fun S hS => ?_⟩
    have : n ∉ S := fun h => hk (hS n h)
    exact ⟨⟨_, (h5 S this).1⟩, ⟨_, (h5 S this).2⟩⟩

/-- Why `unknown_absent` needs `n ∉ S`: a validity set that itself contains a name the context does
    not know makes `get_register` take the `unreachable!` arm of `get_register_always`.
    (`MinidumpContextValidity::Some` is a public `HashSet<&'static str>`; the unwinders only insert
    memoized names.  Outside the property's quantifier — recorded in notes/C18.md.) -/
theorem foreign_name_in_set_panics (c : Ctx) (st : State) (n : String) (S : List String)
    (hn : n ∉ knownNames c) (hS : n ∈ S) : ∃ msg, getRegister c st n (.some S) = .panic msg := by
  have hg : n ∉ (getArms c).map (·.1) := fun h => hn (known_of_getKey h)
  exact ⟨"unreachable: invalid register", by simp only [getRegister, isValid_some_self hn hS, getAlways_unknown st hg]⟩

/-! ## 4. "the stack- and instruction-pointer names agree with the dedicated accessors" -/

/-- Named access through `stack_pointer_register_name()` / `instruction_pointer_register_name()`
    equals `get_stack_pointer()` / `get_instruction_pointer()`, for `get_register_always` and for
    `get_register` under `All`; none of them panics. -/
theorem sp_ip_agree (c : Ctx) (st : State) :
    (∃ v, stackPointer c st = .ok v ∧ getAlways c st (spName c) = .ok v ∧
          getRegister c st (spName c) .all = .ok (some v)) ∧
    (∃ v, instructionPointer c st = .ok v ∧ getAlways c st (ipName c) = .ok v ∧
          getRegister c st (ipName c) .all = .ok (some v)) := by
  have hsp : spName c ∈ knownNames c := by unfold knownNames; rw [mem_dedup]; simp
  have hip : ipName c ∈ knownNames c := by unfold knownNames; rw [mem_dedup]; simp
  obtain ⟨⟨e1, _⟩, ⟨e2, _⟩⟩ := sp_ip_cells c
  obtain ⟨cs, rs, fs⟩ := known_facts hsp
  obtain ⟨ci, ri, fi⟩ := known_facts hip
  constructor
  · have hg := getAlways_of_cell st fs.getCell fs.inBounds
    refine ⟨st cs, ?_, hg, by simp only [getRegister, isValid_all_known hsp, hg]⟩
    rw [fs.getCell] at e1
    simp only [stackPointer, place, ← e1, fs.inBounds, if_true]
  · have hg := getAlways_of_cell st fi.getCell fi.inBounds
    refine ⟨st ci, ?_, hg, by simp only [getRegister, isValid_all_known hip, hg]⟩
    rw [fi.getCell] at e2
    simp only [instructionPointer, place, ← e2, fi.inBounds, if_true]

/-! ## 5. "validity sets are honoured (also through aliases)" -/

/-- For every table name `n` and every validity set `S` of table names, in EVERY context: `n` is
    valid iff some element of `S` denotes the same register (same cell) — an alias in the set makes
    the canonical name and the sibling aliases valid and vice versa — and then `get_register`
    returns the cell's value, otherwise `None`.
    (Before `fix:` 4de673d this failed on CONTEXT_SPARC for an alias IN THE SET — `Some({"o6"})` did
    not cover `g_r14`; the check reported it as a known finding. Reverting the fix makes the table
    fact `known_valid_names` false.) -/
theorem validity_honoured (c : Ctx) (st : State) (n : String) (S : List String)
    (hn : n ∈ knownNames c) (hS : ∀ s ∈ S, s ∈ knownNames c) :
    isValid c n (.some S) = .ok (S.any (sameReg c n)) ∧
    ∃ cell, getCell c n = some cell ∧
      getRegister c st n (.some S) = .ok (if S.any (sameReg c n) then some (st cell) else none) := by
  have hv := isValid_some_sameReg hn hS
  obtain ⟨cell, hc, hg⟩ := getAlways_known st hn
  refine ⟨hv, cell, hc, ?_⟩
  simp only [getRegister, hv, hg]
  cases S.any (sameReg c n) <;> simp

/-- Under `All` every table name is valid and `get_register` returns its cell. -/
theorem validity_all (c : Ctx) (st : State) (n : String) (hn : n ∈ knownNames c) :
    isValid c n .all = .ok true ∧
    ∃ cell, getCell c n = some cell ∧ getRegister c st n .all = .ok (some (st cell)) := by
  obtain ⟨cell, hc, hg⟩ := getAlways_known st hn
  exact ⟨isValid_all_known hn, cell, hc, by simp only [getRegister, isValid_all_known hn, hg]⟩

/-! ## 6. "the enumerations of registers and of valid registers list exactly the named
      general-purpose registers" -/

/-- `registers()` (both `CpuContext` and `MinidumpContext`) lists exactly `REGISTERS`, in order,
    each with the value `get_register_always` gives; `REGISTERS` has no duplicates and no two of
    its names share a cell. -/
theorem enumerations_registers (c : Ctx) (st : State) :
    (∃ vs, cpuRegisters c st = .ok vs ∧ mdRegisters c st = .ok vs ∧ vs.map (·.1) = registers c ∧
       ∀ p ∈ vs, getAlways c st p.1 = .ok p.2) ∧
    pairwiseDistinctCells c (registers c) = true := by
  obtain ⟨vs, h1, h2, h3⟩ := collect_ok c st (registers c) (fun n hn => known_of_registers hn)
  refine ⟨⟨vs, h1, ?_, h2, h3⟩, registers_distinct c⟩
  unfold mdRegisters; rw [gpr_registers]; exact h1

/-- `MinidumpContext::valid_registers()` lists exactly the `REGISTERS` names that the validity set
    covers — directly or through an alias — in `REGISTERS` order, with their values; under `All`
    it is `registers()`. -/
theorem enumerations_valid (c : Ctx) (st : State) (S : List String)
    (hS : ∀ s ∈ S, s ∈ knownNames c) :
    (∃ vs, mdValidRegisters c st (.some S) = .ok vs ∧
       vs.map (·.1) = (registers c).filter (fun r => S.any (sameReg c r)) ∧
       ∀ p ∈ vs, getAlways c st p.1 = .ok p.2) ∧
    (∃ vs, mdValidRegisters c st .all = .ok vs ∧ vs.map (·.1) = registers c ∧
       ∀ p ∈ vs, getAlways c st p.1 = .ok p.2) := by
  constructor
  · obtain ⟨vs, h1, h2, h3⟩ := mdValidFrom_ok c st (.some S) (fun r => S.any (sameReg c r)) (registers c)
      (fun n hn => known_of_registers hn)
      (fun n hn => isValid_some_sameReg (known_of_registers hn) hS)
    exact ⟨vs, by unfold mdValidRegisters; rw [gpr_registers]; exact h1, h2, h3⟩
  · obtain ⟨vs, h1, h2, h3⟩ := mdValidFrom_ok c st .all (fun _ => true) (registers c)
      (fun n hn => known_of_registers hn)
      (fun n hn => isValid_all_known (known_of_registers hn))
    exact ⟨vs, by unfold mdValidRegisters; rw [gpr_registers]; exact h1, by rw [h2]; simp, h3⟩

/-- `CpuContext::valid_registers(Some(S))` enumerates the set itself: every element of `S` once,
    with the value of the cell it names (aliases keep the spelling used in the set). -/
theorem enumerations_cpu_valid (c : Ctx) (st : State) (S : List String)
    (hS : ∀ s ∈ S, s ∈ knownNames c) :
    ∃ vs, cpuValidRegisters c st (.some S) = .ok vs ∧ vs.map (·.1) = S ∧
      ∀ p ∈ vs, getAlways c st p.1 = .ok p.2 :=
  collect_ok c st S hS

/-! ## non-vacuity: concrete instances of every hypothesis set -/

-- `set_get`: a setter call that succeeds through an alias
example : ∃ st', setRegister .ARM State.zero "r11" 7 = .ok (some st') ∧ getAlways .ARM st' "fp" = .ok 7 :=
  ⟨_, rfl, by decide +kernel⟩
-- `alias_same_cell` / `alias_reads_written`: two different names with one canonical name
example : memoize .ARM64 "x30" = .ok (some "lr") ∧ memoize .ARM64 "lr" = .ok (some "lr") := by decide +kernel
example : memoize .SPARC "i7" = .ok (some "g_r31") ∧ memoize .SPARC "g_r31" = .ok (some "g_r31") := by decide +kernel
-- `unknown_absent`: names outside the table exist (also near-misses of the SPARC alias shape)
example : "o8" ∉ knownNames .SPARC ∧ "r16" ∉ knownNames .ARM ∧ "" ∉ knownNames .X86 := by decide +kernel
-- `validity_honoured` / `enumerations_valid`: a set of table names holding an ALIAS that makes the
-- canonical name valid (and leaves another register invalid) — ARM, and SPARC in both directions
example : (∀ s ∈ ["r11"], s ∈ knownNames .ARM) ∧
    ["r11"].any (sameReg .ARM "fp") = true ∧ ["r11"].any (sameReg .ARM "sp") = false := by decide +kernel
example : (∀ s ∈ ["o6"], s ∈ knownNames .SPARC) ∧ "g_r14" ∈ knownNames .SPARC ∧
    ["o6"].any (sameReg .SPARC "g_r14") = true ∧ ["g_r14"].any (sameReg .SPARC "o6") = true ∧
    ["o6"].any (sameReg .SPARC "g_r15") = false := by decide +kernel
-- the repaired SPARC rule computes exactly that (regression of C18-sparc-alias-in-validity-set)
example : isValid .SPARC "g_r14" (.some ["o6"]) = .ok true ∧ isValid .SPARC "i6" (.some ["o6"]) = .ok false := by
  decide +kernel
-- sp/ip names are distinct registers (swapping them is not invisible)
example : ∀ c ∈ Ctx.all, sameReg c (spName c) (ipName c) = false := by decide +kernel

end MdModel.Regs
