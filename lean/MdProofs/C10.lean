/-
  C10 — Streamed symbol parsing ignores chunking and hands every byte to the callback.

  STATEMENT (properties.jsonl): "For every input whose lines are shorter than 80 KiB and every way a
  reader may split it into chunks, streamed parsing gives the same outcome — an identical symbol
  table, or an error — as parsing the whole buffer at once. The bytes passed to the data callback,
  concatenated, are always a prefix of the input and are exactly the input whenever parsing
  succeeds."
-/
import MdModel.SymParse
import MdProofs.Lemmas.SymStream
import MdProofs.Lemmas.SymChunk
import MdProofs.Lemmas.SymParseLocal
import MdProofs.Lemmas.SymDrop
namespace MdModel.Sym
open MdModel MdModel.Stream MdModel.Gen.SymConsts

/-! ## "The bytes passed to the data callback, concatenated, are always a prefix of the input and
       are exactly the input whenever parsing succeeds." -/

/-- In every reachable state — every input, every chunk schedule, EVERY parser, recovery mode
    included — `input = (callback bytes) ++ window ++ (not yet read)`, and `total_consumed` is the
    number of callback bytes. -/
theorem callback_prefix_machine {σ} (ops : Ops σ) (ps : σ) (input : Bytes) (sched : List Nat) (s : St σ)
    (h : Reach MAX_BUFFER_CAPACITY ops (init INITIAL_BUFFER_CAPACITY ps input sched) s) :
    cbBytes s ++ s.buf.data ++ s.unread = input ∧ s.totalConsumed = (cbBytes s).length := by
  have := reach_inv (init_inv MAX_BUFFER_CAPACITY INITIAL_BUFFER_CAPACITY ps input sched (by decide) (by decide)) h
  exact ⟨this.split, this.total⟩

/-- the callback bytes are a prefix of the input in every reachable state of `SymbolFile::parse` -/
theorem callback_prefix (input : Bytes) (sched : List Nat) (s : St PState)
    (h : Reach MAX_BUFFER_CAPACITY symOps (init INITIAL_BUFFER_CAPACITY {} input sched) s) :
    cbBytes s <+: input := by
  have := (callback_prefix_machine symOps {} input sched s h).1
  exact ⟨s.buf.data ++ s.unread, by rw [← List.append_assoc]; exact this⟩

/-- … also in the state in which `parse` returns, and when it returns `Ok` they are the input. -/
theorem callback_final (input : Bytes) (sched : List Nat) (out : Out PState) (sf : St PState)
    (h : parseStream input sched = some (out, sf)) :
    cbBytes sf <+: input ∧ (∀ ps, out = .ok ps → cbBytes sf = input) := by
  unfold parseStream at h
  obtain ⟨m, hok⟩ := run_spec MAX_BUFFER_CAPACITY input symOps _ _ out sf
    (init_inv MAX_BUFFER_CAPACITY INITIAL_BUFFER_CAPACITY {} input sched (by decide) (by decide)) h
  refine ⟨⟨sf.buf.data ++ sf.unread, by rw [← List.append_assoc]; exact m.split⟩, fun ps hps => ?_⟩
  obtain ⟨h1, h2⟩ := hok ps hps
  have := m.split
  rw [h1, h2] at this
  simpa using this

/-- what the caller of `parse` sees (`parseResult`): callback bytes are a prefix, equal on `Ok` -/
theorem callback_result (input : Bytes) (sched : List Nat) :
    (parseResult input sched).2 <+: input ∧
    (∀ f, (parseResult input sched).1 = .ok f → (parseResult input sched).2 = input) := by
  unfold parseResult
  cases h : parseStream input sched with
  | none => exact ⟨List.nil_prefix, fun f hf => by simp at hf⟩
  | some r =>
    obtain ⟨out, sf⟩ := r
    obtain ⟨c1, c2⟩ := callback_final input sched out sf h
    cases out with
    | ok ps =>
      refine ⟨c1, fun f _ => c2 ps rfl⟩
    | err k l => exact ⟨c1, fun f hf => by simp at hf⟩
    | panic e => exact ⟨c1, fun f hf => by simp at hf⟩


/-! ## "every way a reader may split it into chunks … gives the same outcome" -/

/-- `line_local` (records): every top-level record parser (`line`, parser.rs:394), every FUNC
    sub-line parser and `STACK CFI` looks at the current line only and, when it succeeds, consumes
    exactly that line: on `l ++ "\n" ++ s` (`l` newline-free) the answer is `Ok(s, v)` for all `s`,
    or `Error` for all `s`, or `Failure` for all `s`.  (False before the F13 repair: `non_space`
    used to run across the newline.) -/
theorem line_local (l : Bytes) (hl : Sym.NL ∉ l) :
    ((∃ v, ∀ s, line (l ++ Sym.NL :: s) = .ok s v) ∨ (∀ s, line (l ++ Sym.NL :: s) = .error) ∨
      (∀ s, line (l ++ Sym.NL :: s) = .failure)) ∧
    ((∃ v, ∀ s, funcSubline (l ++ Sym.NL :: s) = .ok s v) ∨ (∀ s, funcSubline (l ++ Sym.NL :: s) = .error) ∨
      (∀ s, funcSubline (l ++ Sym.NL :: s) = .failure)) ∧
    ((∃ v, ∀ s, stackCfi (l ++ Sym.NL :: s) = .ok s v) ∨ (∀ s, stackCfi (l ++ Sym.NL :: s) = .error) ∨
      (∀ s, stackCfi (l ++ Sym.NL :: s) = .failure)) :=
  ⟨Final.line l hl, Final.funcSubline l hl, Final.stackCfi l hl⟩

/-- `line_local` (one round of the `parse_more` loop): on `line ++ s`, `line` one complete line, the
    round consumes exactly `line` and what it does to the parser depends on `line` only. -/
theorem line_local_step (st : PState) (line : Bytes) (h : IsLine line) (s : Bytes) :
    stepLine st (line ++ s) =
      match Lsym st line with
      | .ok st' => .ok s st'
      | .err k n => .err k n
      | .panic e => .panic e :=
  stepLine_line st line h s

/-- `parse_more` processes exactly the complete lines of its window, one after the other, and
    reports their total length. -/
theorem parse_more_linewise (st : PState) (w : Bytes) : parseMore st w = pmSpec Lsym st w :=
  parseMore_eq st w

/-- hence `parse_more σ (A ++ B) = parse_more (parse_more σ A) B` whenever `A` is a string of
    complete lines -/
theorem parse_more_compositional (st : PState) (ls : List Bytes) (hls : ∀ l ∈ ls, IsLine l) (B : Bytes) :
    parseMore st (ls.flatten ++ B) =
      match parseMore st ls.flatten with
      | .ok n st' =>
        (match parseMore st' B with
         | .ok m st'' => .ok (n + m) st''
         | .err k l => .err k l
         | .panic e => .panic e)
      | .err k l => .err k l
      | .panic e => .panic e := by
  simp only [parseMore_eq, pmSpec]
  rw [linesOf_append_lines ls hls B]
  have h0 := linesOf_append_lines ls hls []
  simp only [List.append_nil] at h0
  rw [h0]
  simp only [linesOf, linesAux, List.append_nil, foldL_append, List.flatten_append, List.length_append]
  cases foldL Lsym st ls with
  | err k n => rfl
  | panic e => rfl
  | ok st' =>
    simp only []
    cases foldL Lsym st' (linesAux B []).1 <;> rfl

theorem consts_chain : (∃ k, INITIAL_BUFFER_CAPACITY * 2 ^ k = MAX_BUFFER_CAPACITY) ∧
    MAX_BUFFER_CAPACITY ≤ U64MAX ∧ 0 < INITIAL_BUFFER_CAPACITY :=
  ⟨⟨4, by decide⟩, by decide, by decide⟩

/-- **Streamed parsing computes the reference semantics for EVERY chunk schedule**: if every line
    of the input (the unterminated last one included) is shorter than `MAX_BUFFER_CAPACITY / 2`
    (= 80 KiB), `SymbolFile::parse` returns `specOut`: the fold of the per-line step over the
    complete lines; `unexpected EOF` for an unterminated rest; `empty SymbolFile` if nothing was
    consumed — and never enters recovery. -/
theorem stream_eq_spec (input : Bytes) (sched : List Nat)
    (hshort : ShortLines (MAX_BUFFER_CAPACITY / 2) input) :
    ∃ sf, parseStream input sched = some (specOut Lsym (fun st => st.lines) {} input, sf) :=
  machine_eq_spec MAX_BUFFER_CAPACITY INITIAL_BUFFER_CAPACITY input symOps Lsym {} sched
    parseMore_eq consts_chain.2.1 consts_chain.2.2 consts_chain.1 hshort

/-- **chunk_independent**: "For every input whose lines are shorter than 80 KiB and every way a
    reader may split it into chunks, streamed parsing gives the same outcome … as parsing the whole
    buffer at once" (`[]` is the schedule of `from_bytes`: every read fills the buffer). Same
    parser state (hence the same symbol table after `finish`), or the same error kind and line. -/
theorem chunk_independent (input : Bytes) (sched : List Nat)
    (hshort : ShortLines (MAX_BUFFER_CAPACITY / 2) input) :
    ∃ out sf sf', parseStream input sched = some (out, sf) ∧ parseStream input [] = some (out, sf') := by
  obtain ⟨sf, h⟩ := stream_eq_spec input sched hshort
  obtain ⟨sf', h'⟩ := stream_eq_spec input [] hshort
  exact ⟨_, sf, sf', h, h'⟩

/-- … as the caller sees it: `parseResult` (outcome after `finish`) does not depend on the schedule -/
theorem chunk_independent_result (input : Bytes) (sched : List Nat)
    (hshort : ShortLines (MAX_BUFFER_CAPACITY / 2) input) :
    (parseResult input sched).1 = (parseResult input []).1 := by
  obtain ⟨out, sf, sf', h, h'⟩ := chunk_independent input sched hshort
  unfold parseResult
  rw [h, h']
  cases out <;> rfl

/-- chunk independence extends to files that also contain over-long lines (> 160 KiB, dropped by
    every chunking alike): only lines between 80 KiB and 160 KiB are chunk dependent in the code. -/
theorem chunk_independent_mixed (input : Bytes) (sched : List Nat)
    (hmix : Mixed (MAX_BUFFER_CAPACITY / 2) MAX_BUFFER_CAPACITY input) :
    ∃ out sf sf', parseStream input sched = some (out, sf) ∧ parseStream input [] = some (out, sf') := by
  have hc : (∃ k, INITIAL_BUFFER_CAPACITY * 2 ^ k = MAX_BUFFER_CAPACITY) ∧
      2 * MAX_BUFFER_CAPACITY ≤ U64MAX ∧ 0 < INITIAL_BUFFER_CAPACITY := ⟨⟨4, by decide⟩, by decide, by decide⟩
  obtain ⟨sf, h⟩ := machine_eq_specM MAX_BUFFER_CAPACITY INITIAL_BUFFER_CAPACITY input symOps Lsym {} sched
    parseMore_eq hc.2.1 hc.2.2 hc.1 hmix
  obtain ⟨sf', h'⟩ := machine_eq_specM MAX_BUFFER_CAPACITY INITIAL_BUFFER_CAPACITY input symOps Lsym {} []
    parseMore_eq hc.2.1 hc.2.2 hc.1 hmix
  exact ⟨_, sf, sf', h, h'⟩

/-- a sufficient, easily checked condition: an input shorter than 80 KiB has short lines -/
theorem shortLines_of_length (half : Nat) (input : Bytes) (h : input.length < half) :
    ShortLines half input := by
  intro a seg b he _
  have : input.length = a.length + seg.length + b.length := by rw [he]; simp only [List.length_append]
  omega

/-- non-vacuity of the hypothesis, and the theorem applied to a concrete file and schedule -/
example : (parseResult (kw "FILE 1 a\nPUBLIC 10 0 b") [3, 1, 7]).1 =
    (parseResult (kw "FILE 1 a\nPUBLIC 10 0 b") []).1 :=
  chunk_independent_result _ _ (shortLines_of_length _ _ (by decide))

end MdModel.Sym
