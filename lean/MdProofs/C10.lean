/-
  C10 — Streamed symbol parsing ignores chunking and hands every byte to the callback.

  STATEMENT (properties.jsonl): "For every input whose lines are shorter than 80 KiB and every way a
  reader may split it into chunks, streamed parsing gives the same outcome — an identical symbol
  table, or an error — as parsing the whole buffer at once. The bytes passed to the data callback,
  concatenated, are always a prefix of the input and are exactly the input whenever parsing
  succeeds."
-/
import MdModel.SymParse
import MdProofs.Lemmas.SymStream
namespace MdModel.Sym
open MdModel MdModel.Stream MdModel.Gen.SymConsts

/-! ## "The bytes passed to the data callback, concatenated, are always a prefix of the input and
       are exactly the input whenever parsing succeeds." -/

/-- In every reachable state — every input, every chunk schedule, EVERY parser, recovery mode
    included — `input = (callback bytes) ++ window ++ (not yet read)`, and `total_consumed` is the
    number of callback bytes. -/
theorem callback_prefix_machine {σ} (ops : Ops σ) (ps : σ) (input : Bytes) (sched : List Nat) (s : St σ)
    (h : Reach MAX_BUFFER_CAPACITY ops (init INITIAL_BUFFER_CAPACITY ps input sched) s) :
    cbBytes s ++ s.buf.data ++ s.unread = input ∧ s.totalConsumed = (cbBytes s).length := by
  have := reach_inv (init_inv MAX_BUFFER_CAPACITY INITIAL_BUFFER_CAPACITY ps input sched (by decide) (by decide)) h
  exact ⟨this.split, this.total⟩

/-- the callback bytes are a prefix of the input in every reachable state of `SymbolFile::parse` -/
theorem callback_prefix (input : Bytes) (sched : List Nat) (s : St PState)
    (h : Reach MAX_BUFFER_CAPACITY symOps (init INITIAL_BUFFER_CAPACITY {} input sched) s) :
    cbBytes s <+: input := by
  have := (callback_prefix_machine symOps {} input sched s h).1
  exact ⟨s.buf.data ++ s.unread, by rw [← List.append_assoc]; exact this⟩

/-- … also in the state in which `parse` returns, and when it returns `Ok` they are the input. -/
theorem callback_final (input : Bytes) (sched : List Nat) (out : Out PState) (sf : St PState)
    (h : parseStream input sched = some (out, sf)) :
    cbBytes sf <+: input ∧ (∀ ps, out = .ok ps → cbBytes sf = input) := by
  unfold parseStream at h
  obtain ⟨m, hok⟩ := run_spec MAX_BUFFER_CAPACITY input symOps _ _ out sf
    (init_inv MAX_BUFFER_CAPACITY INITIAL_BUFFER_CAPACITY {} input sched (by decide) (by decide)) h
  refine ⟨⟨sf.buf.data ++ sf.unread, by rw [← List.append_assoc]; exact m.split⟩, fun ps hps => ?_⟩
  obtain ⟨h1, h2⟩ := hok ps hps
  have := m.split
  rw [h1, h2] at this
  simpa using this

/-- what the caller of `parse` sees (`parseResult`): callback bytes are a prefix, equal on `Ok` -/
theorem callback_result (input : Bytes) (sched : List Nat) :
    (parseResult input sched).2 <+: input ∧
    (∀ f, (parseResult input sched).1 = .ok f → (parseResult input sched).2 = input) := by
  unfold parseResult
  cases h : parseStream input sched with
  | none => exact ⟨List.nil_prefix, fun f hf => by simp at hf⟩
  | some r =>
    obtain ⟨out, sf⟩ := r
    obtain ⟨c1, c2⟩ := callback_final input sched out sf h
    cases out with
    | ok ps =>
      refine ⟨c1, fun f _ => c2 ps rfl⟩
    | err k l => exact ⟨c1, fun f hf => by simp at hf⟩
    | panic e => exact ⟨c1, fun f hf => by simp at hf⟩

end MdModel.Sym
