/-
  C15 (schema tie) — the schema `Conforms` decides IS the schema json-schema.md documents.

  Property text: "… the JSON report is valid UTF-8 JSON matching the DOCUMENTED SCHEMA: field
  names, types, enumerations, and hex-string addresses …"

  `MdModel.Json.schema` (MdModel/Json.lean §8) was written by hand from
  minidump-processor/json-schema.md. `translators/json_schema.py` parses the fenced block of that
  document on every run into `MdModel.Gen.JsonSchema` (`rows`: every member with its documented
  leaf type, in document order; `enums`; and the members whose leading comment contains one of four
  fixed sentences). The theorems below are decided by kernel evaluation (`decide +kernel`): the
  hand-written schema, seen through the document's vocabulary (`rowsOf`), equals the generated
  rows except for the explicitly listed `differences`; every `…Documented` list equals the
  alternatives the document gives; and every refinement `check` applies beyond the plain type
  (only-`true`, non-empty/sorted, the `kind` coupling) is where the document says it.
  A change of the document (a type, a member name, an alternative, one of the sentences) makes the
  regenerated file differ and a theorem here fail: `./check C15` then reports a broken obligation.
-/
import MdModel.Json
import MdModel.Gen.JsonSchema
namespace MdModel.Json
open MdModel
open MdModel.Gen.JsonSchema (Leaf Refinement)

/-! ## 1. the hand-written `Ty` in the document's vocabulary -/

/-! `Refinement` (generated file): what `check` enforces for a member BEYOND the document's leaf
    type — `onlyTrue` = `Ty.boolTrue`, `padded` = `Ty.hexA`, `sortedNonEmpty` = `Ty.offsets`,
    `kindCoupled` = `Ty.adjusted`. -/

/-- json-schema.md: `"registers": { "some_register_name": <hexstring>, }` — the document writes
    the open mapping "register name ↦ hexstring" (`Ty.regs`) with this placeholder member. -/
def regsPlaceholder : String := "some_register_name"

mutual
/-- the members of a hand-written type as rows `(path, documented leaf type, refinement)`, in
    order; paths as the translator writes them (`$`, `.member`, `[]`) -/
def rowsOf : Ty → String → List (String × Leaf × Refinement)
  | .u32, p => [(p, .u32, .plain)]
  | .u64, p => [(p, .u64, .plain)]
  | .f32, p => [(p, .f32, .plain)]
  | .bool, p => [(p, .bool, .plain)]
  | .str, p => [(p, .str, .plain)]
  | .boolTrue, p => [(p, .bool, .onlyTrue)]
  | .hexA, p => [(p, .hex, .padded)]
  | .hexN, p => [(p, .hex, .plain)]
  | .enum vals orHex, p => [(p, .lit vals orHex, .plain)]
  | .arr t, p => (p, .arr, .plain) :: rowsOf t (p ++ "[]")
  | .offsets, p => [(p, .arr, .sortedNonEmpty), (p ++ "[]", .hex, .padded)]
  | .regs, p => [(p, .obj, .plain), (p ++ "." ++ regsPlaceholder, .hex, .plain)]
  | .adjusted, p => [(p, .obj, .kindCoupled), (p ++ ".kind", .str, .plain),
                     (p ++ ".address", .hex, .padded), (p ++ ".offset", .hex, .padded)]
  | .obj fs, p => (p, .obj, .plain) :: rowsOfFields fs p
  | .any, p => [(p, .undoc, .plain)]
def rowsOfFields : List (String × Ty) → String → List (String × Leaf × Refinement)
  | [], _ => []
  | (k, t) :: fs, p => rowsOf t (p ++ "." ++ k) ++ rowsOfFields fs p
end

/-- the hand-written schema, row by row -/
def handRows : List (String × Leaf × Refinement) := rowsOf schema "$"

/-- … and with the refinements forgotten: comparable with `Gen.JsonSchema.rows` -/
def handDocRows : List (String × Leaf) := handRows.map fun r => (r.1, r.2.1)

def refinedAt (r : Refinement) : List String := (handRows.filter fun x => x.2.2 == r).map (·.1)

/-! ## 2. the deliberate differences between `schema` and the document -/

/-- one member where `schema` deliberately departs from the document: what `schema` has there
    (`hand`), what the document has (`doc`; `none`: the document does not list the member) -/
structure Difference where
  path : String
  hand : Leaf
  doc : Option Leaf
  deriving Repr

/-- document: `"status": "OK",` under the comment "Either OK or an Error we encountered while
    trying to generate this report. […] any value other than "OK" will imply the absence of all
    other fields." — a string of which one value is named; `schema` says `<string>`. -/
def diffStatus : Difference := ⟨"$.status", .str, some (.lit ["OK"] false)⟩

/-- document: `"trust": "context" | "cfi" | "frame_pointer" | "scan",` — `FrameTrust::as_str`
    also emits `cfi_scan`, `prewalked`, `non`; tolerated ("Do not assume enums are exhaustive")
    and reported on every run (`undocumentedEnums`). -/
def diffTrust : Difference :=
  ⟨"$.threads[].frames[].trust", .lit (trustDocumented ++ trustUndocumented) false,
   some (.lit trustDocumented false)⟩
/-- the same line in the `crashing_thread` copy:
    `"trust": "context" | "cfi" | "frame_pointer" | "scan",` -/
def diffTrustCopy : Difference :=
  ⟨"$.crashing_thread.frames[].trust", .lit (trustDocumented ++ trustUndocumented) false,
   some (.lit trustDocumented false)⟩

/-- document: `"cpu_arch": "x86" | "amd64" | "ppc" | "ppc64" | "sparc" | "arm" | "arm64" | "unknown",`
    — `Cpu`'s Display also emits `mips`, `mips64`; tolerated and reported like `trust`. -/
def diffCpu : Difference :=
  ⟨"$.system_info.cpu_arch", .lit (cpuDocumented ++ cpuUndocumented) false,
   some (.lit cpuDocumented false)⟩

/-- document, in `crashing_thread`: "The rest of the fields are the same as they are in `threads`
    (redundant)." followed by `thread_name`, `last_error_value`, `frame_count`, `frames` — the
    list leaves out `thread_id`, which print_json copies too; `schema` types the copy like the
    original (`threadFields`). -/
def diffCopyThreadId : Difference := ⟨"$.crashing_thread.thread_id", .u32, none⟩

/-- document, 0.14.0 change note: "`threads.N.frames.N.inlines` added for inlined frames!" — the
    block lists `"inlines": [ { "function": <string>, "file": <string>, "line": <u32>, } ]` under
    `threads[].frames[]` only; print_json copies the frames, so the copy carries them too and
    `schema` types them like the original (`frameFields`). Five rows: the array, its element, and
    the three members. -/
def diffCopyInlines : List Difference := [
  ⟨"$.crashing_thread.frames[].inlines", .arr, none⟩,
  ⟨"$.crashing_thread.frames[].inlines[]", .obj, none⟩,
  ⟨"$.crashing_thread.frames[].inlines[].function", .str, none⟩,
  ⟨"$.crashing_thread.frames[].inlines[].file", .str, none⟩,
  ⟨"$.crashing_thread.frames[].inlines[].line", .u32, none⟩]

/-- **the complete list of deliberate differences** (10 rows) -/
def differences : List Difference :=
  [diffStatus, diffTrust, diffTrustCopy, diffCpu, diffCopyThreadId] ++ diffCopyInlines

/-- a row of `schema` as the document should have it: unchanged unless listed in `ds` -/
def asDocumented (ds : List Difference) (row : String × Leaf) : Option (String × Leaf) :=
  match ds.find? (fun d => d.path == row.1) with
  | none => some row
  | some d => d.doc.map fun l => (row.1, l)

/-! ## 3. theorems -/

/-- **schema_eq_generated** — "matching the documented schema: field names, types": the rows of
    the hand-written `schema` (every member: its path = names and nesting, and its type), with the
    listed `differences` put back to what the document says (or dropped where the document has
    no such member), are EXACTLY the rows the translator reads off json-schema.md, in the same
    order. In particular `schema` has no member the document lacks other than the six listed
    `none` rows, the document has no member `schema` lacks, and apart from `status`, `trust`
    (twice) and `cpu_arch` every type is the documented one. -/
theorem schema_eq_generated :
    handDocRows.filterMap (asDocumented differences) = MdModel.Gen.JsonSchema.rows := by
  decide +kernel

/-- **differences_exact** — the list of differences is not padded: each names a member `schema`
    really has, with the stated hand-written type, that type really differs from the documented
    one, and no member is listed twice. -/
theorem differences_exact :
    (differences.all fun d => handDocRows.contains (d.path, d.hand) && d.doc != some d.hand) = true ∧
    (differences.map (·.path)).Nodup ∧ differences.length = 10 := by
  decide +kernel

/-- **enums_eq_generated** — "enumerations": the members the document types by a list of string
    literals are exactly these seven, and for each the `…Documented` list of MdModel/Json.lean is
    the document's list of alternatives, in order (with `| <hexstring>` for `os` only); the two
    `kind` values `checkAdjusted` couples with `address` / `offset` are the two the document
    names in "(Present when kind == …)". -/
theorem enums_eq_generated :
    MdModel.Gen.JsonSchema.enums = [
      ("$.status", ["OK"], false),
      ("$.crash_info.memory_accesses[].access_type", accessTypeDocumented, false),
      ("$.crash_info.crash_inconsistencies[]", inconsistencyDocumented, false),
      ("$.system_info.os", osDocumented, true),
      ("$.system_info.cpu_arch", cpuDocumented, false),
      ("$.threads[].frames[].trust", trustDocumented, false),
      ("$.crashing_thread.frames[].trust", trustDocumented, false)] ∧
    MdModel.Gen.JsonSchema.presentWhen = [
      ("$.crash_info.adjusted_address.address", "kind", "non-canonical"),
      ("$.crash_info.adjusted_address.offset", "kind", "null-pointer")] ∧
    (MdModel.Gen.JsonSchema.presentWhen.map fun x => x.2.2) = adjustedKindDocumented := by
  decide +kernel

/-- json-schema.md writes the "never empty … sorted" sentence once, at
    `threads[].frames[].unloaded_modules[].offsets`; the `crashing_thread` copy has the bare line
    `"offsets": [<hexstring>],` under "The rest of the fields are the same as they are in
    `threads`" — `schema` applies the refinement to the copy too. -/
def offsetsInCopy : String := "$.crashing_thread.frames[].unloaded_modules[].offsets"

/-- **refinements_documented** — what `check` demands beyond the plain type is where the
    document says so: only-`true` booleans = the members under "This field may only be present
    when the value is `true`."; sorted non-empty arrays = the member under "This will never be
    empty, will never contain duplicates, and is sorted" plus its `crashing_thread` copy; the
    `kind` coupling sits on the parent of the two "(Present when kind == …)" members. -/
theorem refinements_documented :
    refinedAt .onlyTrue = MdModel.Gen.JsonSchema.onlyTrue ∧
    refinedAt .sortedNonEmpty = MdModel.Gen.JsonSchema.sortedNonEmpty ++ [offsetsInCopy] ∧
    refinedAt .kindCoupled = ["$.crash_info.adjusted_address"] ∧
    (MdModel.Gen.JsonSchema.presentWhen.all fun x =>
      x.1 == "$.crash_info.adjusted_address.address" || x.1 == "$.crash_info.adjusted_address.offset") = true := by
  decide +kernel

/-- **padded_are_hexstrings** — the platform-width demand (`Ty.hexA`) is only ever made of
    members the document types `<hexstring>` ("we also *try* to 0-pad hexstring values to the
    crashing platform's native width"); which `<hexstring>`s are addresses (padded) and which are
    not (`cpu_microcode_version`, register values) is the reading that stays hand-made. -/
theorem padded_are_hexstrings :
    ((handRows.filter fun x => x.2.2 == .padded).all fun x =>
      x.2.1 == .hex && (MdModel.Gen.JsonSchema.rows.contains (x.1, .hex) || x.1 == offsetsInCopy ++ "[]")) = true ∧
    ((handRows.filter fun x => x.2.1 == .hex && x.2.2 != .padded).map (·.1)) = [
      "$.system_info.cpu_microcode_version",
      "$.threads[].frames[].registers.some_register_name",
      "$.crashing_thread.frames[].registers.some_register_name"] := by
  decide +kernel

/-- **annotations_documented** — the document's `[UNSTABLE:…]` members and the members its
    comments call redundant, pinned: `Consistent` (MdModel/Json.lean §8b) and the theorems
    `counts_agree`, `offsets_agree`, `crashing_thread_copy` cover `thread_count`, `frame_count`,
    `frame`, `module`/`module_offset`, `missing_symbols`, `num_records` and the copy (the sentence
    before `crashing_thread.thread_name` is "The rest of the fields are the same as they are in
    `threads` (redundant)."); `modules_contains_cert_info` is `[UNSTABLE:evil_json]`. -/
theorem annotations_documented :
    MdModel.Gen.JsonSchema.redundant = [
      "$.thread_count", "$.threads[].frame_count", "$.threads[].frames[].frame",
      "$.threads[].frames[].module", "$.threads[].frames[].module_offset",
      "$.threads[].frames[].missing_symbols", "$.crashing_thread.thread_name",
      "$.modules_contains_cert_info", "$.mac_crash_info.num_records"] ∧
    MdModel.Gen.JsonSchema.unstable = [
      ("$.modules_contains_cert_info", "evil_json"),
      ("$.modules[].cert_subject", "evil_json"),
      ("$.unloaded_modules[].cert_subject", "evil_json")] := by
  decide +kernel

/-! ## 4. non-vacuity: the comparison does discriminate -/

/-- a retyped member is noticed (`frame_count` as `<string>`) -/
example :
    (handDocRows.filterMap (asDocumented differences)) ≠
      MdModel.Gen.JsonSchema.rows.map (fun r =>
        if r.1 == "$.threads[].frame_count" then (r.1, Leaf.str) else r) := by
  decide +kernel

/-- a renamed member is noticed -/
example :
    (handDocRows.filterMap (asDocumented differences)) ≠
      MdModel.Gen.JsonSchema.rows.map (fun r =>
        if r.1 == "$.pid" then ("$.process_id", r.2) else r) := by
  decide +kernel

/-- without the list of differences the two do NOT agree (the list is needed) -/
example : handDocRows ≠ MdModel.Gen.JsonSchema.rows := by decide +kernel

/-- the handle is `<u64>` on both sides (fix b67afac) and needs no entry -/
example : handDocRows.contains ("$.handles[].handle", .u64) = true ∧
    MdModel.Gen.JsonSchema.rows.contains ("$.handles[].handle", .u64) = true := by decide +kernel

end MdModel.Json
