/-
  C06 in the environment of walks whose symbol files carry STACK WIN records (`Walk.mkEnvW`).

  `MdProofs.C06Env` proves `walk_frames_follow_c06` about `Walk.mkEnv`. The walks of `index`
  (C14) run in `Walk.mkEnvW` as soon as ANY loaded module's symbol file has a STACK WIN record.
  Off x86 that environment's `get_caller_by_cfi` is `Walk.cfiOf` exactly as in `mkEnv`
  (`mkEnvW_cfi_arch`), its architecture and pointer-authentication mask are `mkEnv`'s; only
  `symb` differs (`fillSymbolW`: a FUNC's parameter size comes from the STACK WIN record), which
  `FollowsC06` does not look at. `MdProofs.Lemmas.CfiEnvGen` re-proves the C06Env theorems over
  that abstraction (`CfiEnv`); here it is instantiated:

  * `walk_frames_follow_c06_env` — the generic theorem (restated as the property theorem);
  * `mkEnvW_cfiEnv`               — `mkEnvW a …` with `a ≠ x86` is a `CfiEnv`;
  * `walk_frames_follow_c06W`     — every `cfi` frame of every walk in `mkEnvW` on the six non-x86
    context kinds (amd64, arm, arm64, arm64old, mips32, mips64) satisfies `FollowsC06`;
  * `mkEnvW_cfi_specW`            — `mkEnv_cfi_spec`'s content for `mkEnvW`'s oracle off x86: it is
    `mkEnv`'s oracle, as a function.

  x86 is excluded on purpose: there `mkEnvW`'s oracle is `cfiWalkW` (STACK WIN evaluation first,
  C07; STACK CFI on the walker STACK WIN left), so a `cfi` frame need not come from a STACK CFI
  record.
-/
import MdProofs.Lemmas.CfiEnvGen
import MdProofs.Lemmas.CfiEnvX86
import MdProofs.Lemmas.WalkMixedArch
namespace MdModel.CfiBridge
open MdModel

/-- **off x86, `mkEnvW` is a STACK CFI environment over the same world**: architecture and mask by
    `rfl`, the oracle by `mkEnvW_cfi_arch` — for any STACK WIN records `wins` -/
theorem mkEnvW_cfiEnv {a : Walk.Arch} (ha : a ≠ .x86) (os : Walk.Os) (w : Walk.World)
    (wins : List (List Win.Rec)) (mem0 : Walk.Mem) :
    CfiEnv (Walk.mkEnvW a os w wins mem0) a os w mem0 :=
  ⟨rfl, rfl, by funext f g; exact Walk.mkEnvW_cfi_arch ha os w wins mem0 f g⟩

/-- off x86 `get_caller_by_cfi` of `mkEnvW` IS `get_caller_by_cfi` of `mkEnv` (so `mkEnv_cfi_spec`,
    `cfi_grand_unused`, `stack_entry_eq_walker` describe it) -/
theorem mkEnvW_cfi_specW {a : Walk.Arch} (ha : a ≠ .x86) (os : Walk.Os) (w : Walk.World)
    (wins : List (List Win.Rec)) (mem0 : Walk.Mem) :
    (Walk.mkEnvW a os w wins mem0).cfi = (Walk.mkEnv a os w mem0).cfi :=
  (mkEnvW_cfiEnv ha os w wins mem0).cfi_eq

/-- **`walk_frames_follow_c06_envP`** — the generic theorem as a property statement: for ANY
    environment `env` with `env.arch = arch`, `env.mask` = the pointer-authentication mask of
    `(arch, w)`, and `env.cfi = Walk.cfiOf arch w (modTable w.mods) (cfiTables w) env.mask mem0`
    (its symbolication, `instrOk`, `os` arbitrary), every frame of trust `cfi` of every walk of
    `env` from a `CtxOk` context satisfies `FollowsC06 arch os w mem0` w.r.t. the frame below. -/
theorem walk_frames_follow_c06_envP (env : Walk.Env) (arch : Walk.Arch) (os : Walk.Os) (w : Walk.World)
    (mem0 : Walk.Mem) (harch : env.arch = arch) (hmask : env.mask = (Walk.mkEnv arch os w mem0).mask)
    (hcfi : env.cfi = Walk.cfiOf arch w (Walk.modTable w.mods) (Walk.cfiTables w) env.mask mem0)
    (mem : Option Walk.Mem) (ctx : Walk.Ctx) (hctx : CtxOk arch ctx) :
    ∀ (i : Nat) (hi : i + 1 < (Walk.walk env mem ctx).length),
      (Walk.walk env mem ctx)[i + 1].trust = .cfi →
      FollowsC06 arch os w mem0 (Walk.walk env mem ctx)[i] (Walk.walk env mem ctx)[i + 1] :=
  walk_frames_follow_c06_env ⟨harch, hmask, hcfi⟩ mem ctx hctx

/-- **`walk_frames_follow_c06W`** — `walk_frames_follow_c06` for the environment WITH STACK WIN
    records, on the six non-x86 context kinds: every frame of trust `cfi` of every
    `walk (mkEnvW a os w wins mem0) …` from a well-formed context is what C06 prescribes for the
    frame below it — whatever `wins` is. (The frames' `func` may differ from `mkEnv`'s walk in the
    parameter size; `FollowsC06` is about registers, validity, trust, lookup address.) -/
theorem walk_frames_follow_c06W {a : Walk.Arch} (ha : a ≠ .x86) (os : Walk.Os) (w : Walk.World)
    (wins : List (List Win.Rec)) (mem0 : Walk.Mem) (mem : Option Walk.Mem) (ctx : Walk.Ctx)
    (hctx : CtxOk a ctx) :
    ∀ (i : Nat) (h : i + 1 < (Walk.walk (Walk.mkEnvW a os w wins mem0) mem ctx).length),
      (Walk.walk (Walk.mkEnvW a os w wins mem0) mem ctx)[i + 1].trust = .cfi →
      FollowsC06 a os w mem0 (Walk.walk (Walk.mkEnvW a os w wins mem0) mem ctx)[i]
        (Walk.walk (Walk.mkEnvW a os w wins mem0) mem ctx)[i + 1] :=
  walk_frames_follow_c06_env (mkEnvW_cfiEnv ha os w wins mem0) mem ctx hctx

/-- non-vacuity: the six non-x86 context kinds are six -/
example : ∀ a : Walk.Arch, a ≠ .x86 ↔ a ∈ [.amd64, .arm, .arm64, .arm64old, .mips32, .mips64] := by
  intro a; cases a <;> simp

/-! ## non-vacuity: C06Env's example walk in `mkEnvW`, a STACK WIN record present -/

/-- a STACK WIN record (frame data, `[0x1000, 0x1100)`, parameter size 8) for `exWorld`'s module:
    with it `noWins` fails and `index`-style environments are `mkEnvW` -/
def exWins : List (List Win.Rec) := [[⟨'4', 0x1000, 0x100, 8, 0, 0, '1', "$T0 .raSearch =".toList⟩]]

example : Walk.noWins exWins = false := by decide

/-- non-vacuity of `walk_frames_follow_c06W`: C06Env's example walk, run in `mkEnvW` with a STACK
    WIN record present (amd64): it has a second frame, of trust `cfi`, stack pointer `0x1020`,
    lookup address `0x401233`, and the theorem applies to it -/
example : ∃ (h : 0 + 1 < (Walk.walk (Walk.mkEnvW .amd64 .other exWorld exWins exIn.mem) (some exIn.mem) exIn.callee).length),
    (Walk.walk (Walk.mkEnvW .amd64 .other exWorld exWins exIn.mem) (some exIn.mem) exIn.callee)[0 + 1].trust = .cfi ∧
    (Walk.walk (Walk.mkEnvW .amd64 .other exWorld exWins exIn.mem) (some exIn.mem) exIn.callee)[0 + 1].ctx.sp = 0x1020 ∧
    (Walk.walk (Walk.mkEnvW .amd64 .other exWorld exWins exIn.mem) (some exIn.mem) exIn.callee)[0 + 1].instruction = 0x401233 ∧
    FollowsC06 .amd64 .other exWorld exIn.mem
      (Walk.walk (Walk.mkEnvW .amd64 .other exWorld exWins exIn.mem) (some exIn.mem) exIn.callee)[0]
      (Walk.walk (Walk.mkEnvW .amd64 .other exWorld exWins exIn.mem) (some exIn.mem) exIn.callee)[0 + 1] := by
  have hne : Walk.Arch.amd64 ≠ .x86 := by decide
  obtain ⟨r, vs, hcfi, _, _, _, _, _, _, hsp, hip⟩ :=
    ex_cfi (Walk.symbolise (Walk.mkEnvW .amd64 .other exWorld exWins exIn.mem) (Walk.Frame.ofCtx exIn.callee .context)) none rfl rfl
  rw [← mkEnvW_cfi_specW hne .other exWorld exWins exIn.mem] at hcfi
  have hstep := (cfi_frame_epilogue (Walk.mkEnvW .amd64 .other exWorld exWins exIn.mem) exIn.mem
    (Walk.symbolise (Walk.mkEnvW .amd64 .other exWorld exWins exIn.mem) (Walk.Frame.ofCtx exIn.callee .context))
    { ctx := r, trust := .cfi, instruction := r.ip - 1 } none).mpr
      ⟨r, hcfi, by rw [hip]; decide, .inl (by rw [hsp]; decide), rfl⟩
  obtain ⟨rest, hw⟩ := walk_second _ exIn.mem exIn.callee _ (by decide) (by decide) hstep.1
  have hlen : 0 + 1 < (Walk.walk (Walk.mkEnvW .amd64 .other exWorld exWins exIn.mem) (some exIn.mem) exIn.callee).length := by
    rw [hw]; simp
  refine ⟨hlen, ?_⟩
  have h1 : (Walk.walk (Walk.mkEnvW .amd64 .other exWorld exWins exIn.mem) (some exIn.mem) exIn.callee)[0 + 1] =
      Walk.symbolise (Walk.mkEnvW .amd64 .other exWorld exWins exIn.mem) { ctx := r, trust := .cfi, instruction := r.ip - 1 } := by
    simp only [hw]; rfl
  have ht : (Walk.walk (Walk.mkEnvW .amd64 .other exWorld exWins exIn.mem) (some exIn.mem) exIn.callee)[0 + 1].trust = .cfi := by
    rw [h1]; rfl
  refine ⟨ht, by rw [h1]; exact hsp, by rw [h1]; show r.ip - 1 = _; rw [hip], ?_⟩
  exact walk_frames_follow_c06W hne .other exWorld exWins exIn.mem (some exIn.mem) exIn.callee exCtx_ok 0 hlen ht

/-! ## x86 with STACK WIN records: what a `cfi` frame is -/

/-- **frame `f` of trust `cfi` above `p` in `mkEnvW` on x86**: `p`'s `esp` is valid; a module `i`
    with symbol file `sf` covers `p`'s lookup address; with `(fd, fpo)` the frame-data / FPO STACK WIN
    records of that module at the module-relative address (none, when the file has none there), the
    caller context `r = f.ctx` is

    * EITHER (`.inl`) what C07's `Win.winResult` (the subject of `MdProofs.C07`: `walkSelected`,
      `MdProofs.C04Win`'s `FrameIs`) returns with success on `p`'s `winWalker` — a STACK WIN frame;
    * OR (`.inr`) STACK WIN had nothing to evaluate (`.ok (false, c)`, `c` = the callee's registers
      re-read as a caller) and `r` is STACK CFI evaluation `Walk.walkFrameCfi` (C06's evaluator,
      `MdProofs.C06Walk.walkFrame_eq_c06`) of `sf`'s record on that walker — a STACK CFI frame;

    and the epilogue of `get_caller_frame` holds (`ip ≥ 4096`, lookup address = `ip − 1`, stack
    pointer strictly above `p`'s: x86 has no leaf exception). -/
def CfiFrameX86 (w : Walk.World) (wins : List (List Win.Rec)) (mem0 : Walk.Mem) (p f : Walk.Frame) : Prop :=
  p.ctx.hasLit "esp" = true ∧
  ∃ g r i m sf fd fpo,
    f.ctx = r ∧ f.trust = .cfi ∧ 4096 ≤ r.ip ∧ f.instruction = r.ip - Walk.Arch.x86.adj ∧ p.ctx.sp < r.sp ∧
    Walk.moduleAt (Walk.modTable w.mods) p.instruction = some i ∧ w.mods[i]? = some m ∧
    w.syms[i]? = some (some sf) ∧ m.base ≤ p.instruction ∧
    ((wins.map Walk.winTables)[i]?.getD Walk.WinTables.empty).at (p.instruction - m.base) = (fd, fpo) ∧
    ((∃ c, Win.winResult Win.clearNamesActual fd fpo (Walk.winWalker mem0 p g) (Walk.callerOfCtx p.ctx) = .ok (true, c) ∧
        r = Walk.ctxOfCaller c) ∨
     (∃ c o, Win.winResult Win.clearNamesActual fd fpo (Walk.winWalker mem0 p g) (Walk.callerOfCtx p.ctx) = .ok (false, c) ∧
        Walk.walkFrameCfi sf (Walk.cfiTable sf) m.base { arch := .x86, callee := p.ctx, mem := mem0 }
          { Walk.cfiOutOfCaller c with ctx := { (Walk.cfiOutOfCaller c).ctx with valid := p.ctx.valid } }
          p.instruction = some o ∧
        r = { o.ctx with valid := some o.valid }))

/-- **`walk_cfi_frames_x86W`** — the x86 counterpart of `walk_frames_follow_c06W`: every frame of
    trust `cfi` of every walk in `mkEnvW .x86 …` (any context, no well-formedness needed) is a STACK
    WIN frame or a STACK CFI frame in the sense of `CfiFrameX86`; for some grand-callee frame `g`
    (`walk_stack` passes the frame below `p`; STACK WIN evaluation reads its parameter size). -/
theorem walk_cfi_frames_x86W (os : Walk.Os) (w : Walk.World) (wins : List (List Win.Rec)) (mem0 : Walk.Mem)
    (mem : Option Walk.Mem) (ctx : Walk.Ctx) :
    ∀ (i : Nat) (h : i + 1 < (Walk.walk (Walk.mkEnvW .x86 os w wins mem0) mem ctx).length),
      (Walk.walk (Walk.mkEnvW .x86 os w wins mem0) mem ctx)[i + 1].trust = .cfi →
      CfiFrameX86 w wins mem0 (Walk.walk (Walk.mkEnvW .x86 os w wins mem0) mem ctx)[i]
        (Walk.walk (Walk.mkEnvW .x86 os w wins mem0) mem ctx)[i + 1] := by
  intro i h ht
  obtain ⟨m, g, f', _, _, hstep, hf⟩ := walk_steps_raw (Walk.mkEnvW .x86 os w wins mem0) mem ctx i h
  generalize (Walk.walk (Walk.mkEnvW .x86 os w wins mem0) mem ctx)[i] = p at hstep ⊢
  generalize (Walk.walk (Walk.mkEnvW .x86 os w wins mem0) mem ctx)[i + 1] = f at ht hf ⊢
  subst hf
  have ht' : f'.trust = .cfi := ht
  obtain ⟨r, hc, hip, hsp, hfr⟩ := (cfi_frame_epilogue _ m p f' g).mp ⟨hstep, ht'⟩
  obtain ⟨hesp, hw⟩ := mkEnvW_cfi_x86_some hc
  obtain ⟨k, md, sf, ct, fd, fpo, hk, hm, hs, hct, hlo, hat, hcase⟩ := cfiWalkW_cases hw
  have hs' : w.syms[k]? = some (some sf) := by
    cases hq : w.syms[k]? with
    | none => rw [hq] at hs; cases hs
    | some o => rw [hq] at hs; cases o <;> simp_all
  have hct' : ct = Walk.cfiTable sf := by
    rw [cfiTables_get, hs'] at hct
    exact (Option.some.inj hct).symm
  subst hct'
  have hsp' : p.ctx.sp < r.sp := by
    rcases hsp with hlt | ⟨hl, _, _⟩
    · exact hlt
    · cases hl
  refine ⟨hesp, g, r, k, md, sf, fd, fpo, by rw [hfr]; rfl, ht, hip, by rw [hfr]; rfl, hsp', hk, hm, hs', hlo, hat, hcase⟩

end MdModel.CfiBridge
