/-
  C04 — Stack walking recovers the true call chain of well-formed stacks: x86 stacks described by
  STACK WIN records.

  Property text: "For every synthetic thread whose stack is laid out by the platform calling
  convention (frame-pointer chains), described by STACK CFI or STACK WIN records, or findable only
  by scanning for return addresses, on x86 … the walker returns exactly the generated call chain.
  Each generated call yields one frame with the right return address, stack pointer, recovered
  callee-saved registers, technique label, module and function name, and the walk stops at the
  generated end of stack."

  What is a theorem here (the hypothesis is `PreW`, MdModel/Walk/LayoutMixed.lean — exactly what the
  `chain` engine has the compiled model evaluate on every generated `win` / `mixed` case; the walk
  is `walk (mkEnvW .x86 …)`, the model the engine compares with `walk_stack` frame by frame):

  * `walk_layout_win` — x86 chains of ANY depth in which every frame is found through a STACK WIN
    record: frame data with the standard prologue program (0–3 saved registers, with or without
    MSVC's `$L`/`$P` temporaries), `.raSearch` frame data (`$ebp` restored from the frame or
    assigned to itself; the `@` variant whose search start is `$ebp + 4`), FPO records with and
    without `allocates_base_pointer`, grand-callee parameter sizes, the leftover-return-address
    skip on the context frame only. The walker returns the context frame followed by exactly one
    frame per generated call, labelled `cfi` (as the code labels STACK WIN frames), with the
    generated return address, `esp`, `ebp` and claimed saved registers, lookup address `ret − 1`,
    and stops at the generated end.
  * `walk_layout_mixed_x86_partial` — the x86 part of `walk_layout_mixed`: per-frame alternation of
    STACK WIN frames, frame-pointer frames and scanned frames (incl. the x86 scanner's `%ebp`
    recovery), any order, any depth. PARTIAL with respect to `walk_layout_mixed`: x86 only, and
    frames found through canonical STACK CFI records are excluded (`techOK`). (The full statement,
    with STACK CFI frames and for every context kind, is `walk_layout_mixed` / `walk_layout_mixed_x86`
    in `MdProofs/C04Mixed.lean`.)
  * `FrameIs.spec` — what "one frame per generated call with …" means, read off a frame.

  Evaluation of the programs is C07's (`MdModel.Win`, theorems of `MdProofs/C07.lean` reused:
  `consts_table`, `ra_search_*`, `winFrameSize_some`, `framedata_succeeds`, `framedata_caller`,
  `fpo_formulae`, `fpo_leftover_skip`, `fpoEbp_*`, `fpoPre_spec`, `applySets_*`).
-/
import MdProofs.Lemmas.WalkWinChain
set_option linter.unusedSimpArgs false
namespace MdModel.Walk
open MdModel MdModel.Win

/-- **what one produced frame is** — "Each generated call yields one frame with the right return
    address, stack pointer, recovered callee-saved registers, technique label, module and function
    name": the symbolised frame has `ip = ret`, `sp`, the technique label, lookup address `ret − 1`,
    `eip`/`esp` valid, `ebp` valid exactly when the chain claims a frame pointer and then with the
    generated value, every claimed callee-saved register valid with its generated value, and module
    / function as symbolication of `ret − 1` gives them. -/
theorem FrameIs.spec (env : Env) {t : Trust} {e : Exp} {f : Frame} (h : FrameIs t e f) :
    (symbolise env f).ctx.ip = e.ret ∧ (symbolise env f).ctx.sp = e.sp ∧ (symbolise env f).trust = t ∧
    (symbolise env f).instruction = e.ret - 1 ∧
    (symbolise env f).ctx.get .x86 "eip" = some e.ret ∧ (symbolise env f).ctx.get .x86 "esp" = some e.sp ∧
    (symbolise env f).ctx.get .x86 "ebp" = e.fp ∧
    (∀ p ∈ e.regs, (symbolise env f).ctx.get .x86 p.1 = some p.2) ∧
    (symbolise env f).module = (env.symb (e.ret - 1)).1 ∧
    (symbolise env f).func = (if (env.symb (e.ret - 1)).1.isSome then (env.symb (e.ret - 1)).2 else none) := by
  refine ⟨h.ip, h.sp, h.trust, h.instr, ?_, ?_, ?_, ?_, ?_, ?_⟩
  · rw [symbolise_ctx, get_x86 f.ctx (by decide), h.vip, raw_x86_eip, h.ip]; rfl
  · rw [symbolise_ctx, get_x86 f.ctx (by decide), h.vsp, raw_x86_esp, h.sp]; rfl
  · rw [symbolise_ctx, get_x86 f.ctx (by decide), h.fp]
  · intro p hp
    obtain ⟨h1, h2, h3⟩ := h.regs p hp
    rw [symbolise_ctx, get_x86 f.ctx h1, h2, h3]; rfl
  · simp only [symbolise, h.instr]
  · simp only [symbolise, h.instr]

/-- **C04, x86, technique changing from frame to frame (partial: STACK WIN / frame pointer / scan).**
    For an x86 context and a chain of `win`, `fp` and `scan` frames on
    which `PreW` holds, the walker returns the context frame followed by exactly one frame per
    generated call (`All2`: same length, related position by position), each the symbolisation of
    a frame that `FrameIs` the generated call with the label of its technique — and nothing after
    the generated end of stack. -/
theorem walk_layout_mixed_x86_partial (os : Os) (w : World) (wins : List (List Win.Rec)) (mem : Mem)
    (ctx : Ctx) (chain : List Exp)
    (htech : chain.all techOK = true)
    (hpre : PreW w wins (mkEnvW .x86 os w wins mem) .x86 os mem ctx chain = true) :
    ∃ frames, walk (mkEnvW .x86 os w wins mem) (some mem) ctx =
        symbolise (mkEnvW .x86 os w wins mem) (Frame.ofCtx ctx .context) :: frames ∧
      All2 (fun fr e => ∃ f', fr = symbolise (mkEnvW .x86 os w wins mem) f' ∧ FrameIs (x86Trust e) e f')
        frames chain := by
  simp only [PreW, Bool.and_eq_true, beq_iff_eq, Bool.or_eq_true] at hpre
  obtain ⟨⟨⟨⟨⟨⟨⟨hm, _⟩, hip⟩, hsp⟩, h64⟩, hwf⟩, _⟩, hp⟩ := hpre
  have hwf : ∀ r ∈ x86Regs, ctx.raw .x86 r ≤ U32MAX := by
    have h : (Arch.x86.registers.all fun r => decide (ctx.raw .x86 r ≤ U32MAX)) = true := hwf
    exact fun r hr => of_decide_eq_true (List.all_eq_true.mp h r hr)
  have h64' : ctx.m64 = false := by
    have : (Arch.x86 == Arch.mips64) = false := rfl
    rw [h64]; exact this
  have hused : (some mem).bind (fun m => m.range?.map fun _ => m) = some mem := by
    obtain ⟨r, hr⟩ := Option.isSome_iff_exists.mp hm
    simp [hr]
  unfold walk
  simp only [hused]
  exact walkLoop_x86_chain chain (walkFuel mem) (Frame.ofCtx ctx .context) none (initState .x86 ctx)
    (winView_context ctx hip hsp h64' hwf) htech hp (need_context_le mem ctx)

/-- **C04, x86 STACK WIN chains (any depth): `walk_layout_win`.** "…described by … STACK WIN records
    … on x86 … the walker returns exactly the generated call chain": when every generated call is
    found through a STACK WIN record (`e.tech = "win"`: frame data with the standard prologue
    program or a `.raSearch` program, or FPO — the shapes `PreW` accepts), the walker returns the
    context frame and then exactly one frame per call, labelled `cfi`, with the generated return
    address, `esp`, `ebp` and claimed saved registers, lookup address `ret − 1` (`FrameIs`,
    `FrameIs.spec`), and stops at the generated end. -/
theorem walk_layout_win (os : Os) (w : World) (wins : List (List Win.Rec)) (mem : Mem)
    (ctx : Ctx) (chain : List Exp)
    (hwin : ∀ e ∈ chain, e.tech = "win")
    (hpre : PreW w wins (mkEnvW .x86 os w wins mem) .x86 os mem ctx chain = true) :
    ∃ frames, walk (mkEnvW .x86 os w wins mem) (some mem) ctx =
        symbolise (mkEnvW .x86 os w wins mem) (Frame.ofCtx ctx .context) :: frames ∧
      All2 (fun fr e => ∃ f', fr = symbolise (mkEnvW .x86 os w wins mem) f' ∧ FrameIs .cfi e f')
        frames chain := by
  have htech : chain.all techOK = true := by
    rw [List.all_eq_true]
    intro e he
    simp [techOK, hwin e he]
  obtain ⟨frames, hw, hall⟩ := walk_layout_mixed_x86_partial os w wins mem ctx chain htech hpre
  refine ⟨frames, hw, ?_⟩
  clear hw hpre htech
  induction hall with
  | nil => exact .nil
  | @cons a b l m hr _ ih =>
    obtain ⟨f', h1, h2⟩ := hr
    have hb : b.tech = "win" := hwin b List.mem_cons_self
    have ht : x86Trust b = .cfi := by simp [x86Trust, hb]
    rw [ht] at h2
    exact .cons ⟨f', h1, h2⟩ (ih (fun e he => hwin e (List.mem_cons_of_mem _ he)))

/-- frame count: no extra and no missing frame -/
theorem walk_layout_win_length (os : Os) (w : World) (wins : List (List Win.Rec)) (mem : Mem)
    (ctx : Ctx) (chain : List Exp)
    (htech : chain.all techOK = true)
    (hpre : PreW w wins (mkEnvW .x86 os w wins mem) .x86 os mem ctx chain = true) :
    (walk (mkEnvW .x86 os w wins mem) (some mem) ctx).length = chain.length + 1 := by
  obtain ⟨frames, hw, hall⟩ := walk_layout_mixed_x86_partial os w wins mem ctx chain htech hpre
  rw [hw, List.length_cons, hall.length_eq]

/-! ## non-vacuity: a two-call x86 chain through a frame-data record and an FPO record

  One module with one FUNC and two STACK WIN records. The context frame is in the frame-data
  function (standard prologue program saving `%ebx` 4 bytes below `$T0`): its caller's return
  address `0x400250`, `%ebp = 0x8030` and `%ebx = 0x99` come from the frame. That caller is covered
  by the FPO record (no base pointer; the frame below has parameter size 8, so the return address
  is `4 + 0 + 8` bytes above `esp`): `%ebp` and `%ebx` are passed through. The outermost frame has
  no record, its frame pointer points at `(0, 0)`, zero words follow. -/

def exWinWorld : World :=
  { mods := [{ base := 0x400000, size := 0x1000, name := "m0" }],
    syms := [some { funcs := [{ addr := 0x10, size := 0x300, psize := 0, name := "f" }] }] }

def exWinRecs : List (List Win.Rec) :=
  [[{ ty := '4', addr := 0x10, size := 0x100, par := 8, sav := 4, loc := 8, hp := '1',
      rest := "$T0 $ebp = $eip $T0 4 + ^ = $ebp $T0 ^ = $esp $T0 8 + = $ebx $T0 4 - ^ =".toList },
    { ty := '0', addr := 0x200, size := 0x100, par := 4, sav := 0, loc := 4, hp := '0', rest := ['0'] }]]

def exWinStack : Mem :=
  { base := 0x8000, bytes := #[
      0, 0, 0, 0,           0, 0, 0, 0,           0, 0, 0, 0,           0x99, 0, 0, 0,      -- 0x800c: saved ebx
      0x30, 0x80, 0, 0,     0x50, 0x02, 0x40, 0,  0, 0, 0, 0,           0, 0, 0, 0,         -- 0x8010: saved ebp, return address 0x400250
      0, 0, 0, 0,           0x00, 0x08, 0x40, 0,  0, 0, 0, 0,           0, 0, 0, 0,         -- 0x8024: return address 0x400800
      0, 0, 0, 0,           0, 0, 0, 0,           0, 0, 0, 0,           0, 0, 0, 0 ] }      -- 0x8030: (0, 0)

def exWinCtx : Ctx := { ip := 0x400050, sp := 0x8000, rest := [("ebp", 0x8010), ("ebx", 7)] }

def exWinChain : List Exp :=
  [ { ret := 0x400250, sp := 0x8018, fp := some 0x8030, tech := "win", regs := [("ebx", 0x99)] },
    { ret := 0x400800, sp := 0x8028, fp := some 0x8030, tech := "win", regs := [("ebx", 0x99)] } ]

abbrev exWinEnv : Env := mkEnvW .x86 .windows exWinWorld exWinRecs exWinStack

theorem exWin_pre : PreW exWinWorld exWinRecs exWinEnv .x86 .windows exWinStack exWinCtx exWinChain = true := by
  decide +kernel

-- the hypotheses of `walk_layout_win` hold of the example, so its conclusion does …
example : ∃ frames, walk exWinEnv (some exWinStack) exWinCtx =
      symbolise exWinEnv (Frame.ofCtx exWinCtx .context) :: frames ∧
    All2 (fun fr e => ∃ f', fr = symbolise exWinEnv f' ∧ FrameIs .cfi e f') frames exWinChain :=
  walk_layout_win .windows exWinWorld exWinRecs exWinStack exWinCtx exWinChain (by decide) exWin_pre

example : (walk exWinEnv (some exWinStack) exWinCtx).length = 3 :=
  walk_layout_win_length .windows exWinWorld exWinRecs exWinStack exWinCtx exWinChain (by decide) exWin_pre

-- … and evaluating the model on it gives the generated chain: technique labels, return addresses,
-- stack pointers, lookup addresses, `%ebp`, `%ebx`, function
example : (walk exWinEnv (some exWinStack) exWinCtx).map
      (fun f => (f.trust, f.ctx.ip, f.ctx.sp, f.instruction)) =
    [(.context, 0x400050, 0x8000, 0x400050), (.cfi, 0x400250, 0x8018, 0x40024f),
     (.cfi, 0x400800, 0x8028, 0x4007ff)] := by
  decide +kernel

example : (walk exWinEnv (some exWinStack) exWinCtx).map
      (fun f => (f.ctx.get .x86 "ebp", f.ctx.get .x86 "ebx", f.func.map (·.name))) =
    [(some 0x8010, some 7, some "f"), (some 0x8030, some 0x99, some "f"), (some 0x8030, some 0x99, none)] := by
  decide +kernel

/-! ## non-vacuity: STACK WIN, frame-pointer and scanned frames in one x86 stack

  The context frame is covered by a frame-data record (standard prologue program); its caller has
  no record and a live frame pointer (a frame-pointer record at `0x8020`, saved frame pointer 0);
  the frame above that has a zero frame pointer and is found by scanning (one junk word, then
  `0x400250`, a valid instruction by the FUNC record); zero words follow. -/

def exMixRecs : List (List Win.Rec) :=
  [[{ ty := '4', addr := 0x10, size := 0x100, par := 0, sav := 0, loc := 8, hp := '1',
      rest := "$T0 $ebp = $eip $T0 4 + ^ = $ebp $T0 ^ = $esp $T0 8 + =".toList }]]

def exMixStack : Mem :=
  { base := 0x8000, bytes := #[
      0, 0, 0, 0,           0, 0, 0, 0,           0, 0, 0, 0,           0, 0, 0, 0,
      0x20, 0x80, 0, 0,     0x00, 0x09, 0x40, 0,  0, 0, 0, 0,           0, 0, 0, 0,         -- 0x8010: saved ebp 0x8020, return address 0x400900
      0, 0, 0, 0,           0x00, 0x0a, 0x40, 0,  0, 0, 0, 0,           0x50, 0x02, 0x40, 0, -- 0x8020: (0, 0x400a00); 0x802c: 0x400250
      0, 0, 0, 0,           0, 0, 0, 0,           0, 0, 0, 0,           0, 0, 0, 0 ] }

def exMixCtx : Ctx := { ip := 0x400050, sp := 0x8000, rest := [("ebp", 0x8010)] }

def exMixChainX : List Exp :=
  [ { ret := 0x400900, sp := 0x8018, fp := some 0x8020, tech := "win" },
    { ret := 0x400a00, sp := 0x8028, fp := some 0, tech := "fp" },
    { ret := 0x400250, sp := 0x8030, fp := none, tech := "scan" } ]

abbrev exMixEnvX : Env := mkEnvW .x86 .other exWinWorld exMixRecs exMixStack

theorem exMix_pre : PreW exWinWorld exMixRecs exMixEnvX .x86 .other exMixStack exMixCtx exMixChainX = true := by
  decide +kernel

example : ∃ frames, walk exMixEnvX (some exMixStack) exMixCtx =
      symbolise exMixEnvX (Frame.ofCtx exMixCtx .context) :: frames ∧
    All2 (fun fr e => ∃ f', fr = symbolise exMixEnvX f' ∧ FrameIs (x86Trust e) e f') frames exMixChainX :=
  walk_layout_mixed_x86_partial .other exWinWorld exMixRecs exMixStack exMixCtx exMixChainX
    (by decide) exMix_pre

example : (walk exMixEnvX (some exMixStack) exMixCtx).map (fun f => (f.trust, f.ctx.ip, f.ctx.sp, f.ctx.get .x86 "ebp")) =
    [(.context, 0x400050, 0x8000, some 0x8010), (.cfi, 0x400900, 0x8018, some 0x8020),
     (.fp, 0x400a00, 0x8028, some 0), (.scan, 0x400250, 0x8030, none)] := by
  decide +kernel

end MdModel.Walk
