/-
  Bridge C06 ↔ walker model, part 7: the documented language on the walker side.

  Expression trees over `String` register names (`WTree`), their postfix form in the walker
  model's token vocabulary (`wpostfix`), and their denotation written directly over the walker
  model's environment and `Nat` arithmetic (`wdenote`) — with the lemmas identifying them with
  C06's `Tree` / `postfixOf` / `denote`. Plus list lemmas used to transport `order_independent`.
-/
import MdProofs.Lemmas.CfiBridgeInst
namespace MdModel.CfiBridge
open MdModel

/-- an expression tree whose leaves name registers by `String` -/
inductive WTree where
  | lit (v : UInt64)
  | reg (n : String)
  | cfa
  | undef
  | deref (t : WTree)
  | bin (o : Cfi.BinOp) (l r : WTree)

/-- the same tree in C06's vocabulary (register names as UTF-8 bytes) -/
def WTree.toTree : WTree → Cfi.Tree
  | .lit v => .lit v
  | .reg n => .reg (utf8 n)
  | .cfa => .cfa
  | .undef => .undef
  | .deref t => .deref t.toTree
  | .bin o l r => .bin o l.toTree r.toTree

/-- postfix form in the walker model's tokens (registers spelled `$name`) -/
def wpostfix : WTree → List Walk.ETok
  | .lit v => [.lit v.toNat]
  | .reg n => [.dollar n]
  | .cfa => [.cfa]
  | .undef => [.undef]
  | .deref t => wpostfix t ++ [.deref]
  | .bin o l r => wpostfix l ++ wpostfix r ++
      [match o with
       | .add => .add | .sub => .sub | .mul => .mul | .div => .div | .rem => .rem | .align => .align]

/-- denotation over the walker model's environment: `Nat` arithmetic modulo 2^64 (`walkBin`),
    `none` = the rule fails -/
def wdenote (x : Walk.CfiIn) (cfa : Option Nat) : WTree → Option Nat
  | .lit v => some v.toNat
  | .reg n => x.reg n
  | .cfa => cfa
  | .undef => none
  | .deref t =>
    match wdenote x cfa t with
    | some a => x.deref a
    | none => none
  | .bin o l r =>
    match wdenote x cfa l, wdenote x cfa r with
    | some a, some b => walkBin o a b
    | _, _ => none

theorem u64_ofNat_toNat (v : UInt64) : UInt64.ofNat v.toNat = v := by
  apply UInt64.toNat_inj.mp
  rw [u64_toNat_ofNat_lt _ v.toNat_lt]

theorem wpostfix_tokOf (t : WTree) : (wpostfix t).map tokOf = Cfi.postfixOf t.toTree := by
  induction t with
  | lit v => simp [wpostfix, tokOf, WTree.toTree, Cfi.postfixOf]
  | reg n => rfl
  | cfa => rfl
  | undef => rfl
  | deref t ih => simp [wpostfix, WTree.toTree, Cfi.postfixOf, ih, tokOf]
  | bin o l r ihl ihr =>
    simp only [wpostfix, WTree.toTree, Cfi.postfixOf, List.map_append, ihl, ihr, List.map_cons, List.map_nil]
    cases o <;> rfl

theorem wpostfix_wf (t : WTree) : ∀ k ∈ wpostfix t, ETokWf k := by
  induction t with
  | lit v =>
    intro k hk
    simp only [wpostfix, List.mem_cons, List.not_mem_nil, or_false] at hk
    subst hk; exact v.toNat_lt
  | reg n => intro k hk; simp only [wpostfix, List.mem_cons, List.not_mem_nil, or_false] at hk; subst hk; trivial
  | cfa => intro k hk; simp only [wpostfix, List.mem_cons, List.not_mem_nil, or_false] at hk; subst hk; trivial
  | undef => intro k hk; simp only [wpostfix, List.mem_cons, List.not_mem_nil, or_false] at hk; subst hk; trivial
  | deref t ih =>
    intro k hk
    simp only [wpostfix, List.mem_append, List.mem_cons, List.not_mem_nil, or_false] at hk
    rcases hk with hk | rfl
    · exact ih k hk
    · trivial
  | bin o l r ihl ihr =>
    intro k hk
    simp only [wpostfix, List.mem_append, List.mem_cons, List.not_mem_nil, or_false] at hk
    rcases hk with (hk | hk) | rfl
    · exact ihl k hk
    · exact ihr k hk
    · cases o <;> trivial

/-- the walker-side denotation is C06's denotation, value for value -/
theorem wdenote_eq (x : Walk.CfiIn) (env : Cfi.Env) (h : EnvSim x env) (cfa : Option UInt64) (t : WTree) :
    wdenote x (cfa.map UInt64.toNat) t = (Cfi.denote env cfa t.toTree).map UInt64.toNat := by
  induction t with
  | lit v => rfl
  | reg n => exact h.reg n
  | cfa => rfl
  | undef => rfl
  | deref t ih =>
    simp only [wdenote, WTree.toTree, Cfi.denote, ih]
    cases Cfi.denote env cfa t.toTree with
    | none => rfl
    | some a => exact h.deref a
  | bin o l r ihl ihr =>
    simp only [wdenote, WTree.toTree, Cfi.denote, ihl, ihr]
    cases Cfi.denote env cfa l.toTree with
    | none => rfl
    | some a =>
      cases Cfi.denote env cfa r.toTree with
      | none => rfl
      | some b =>
        simp only [Option.map_some]
        rw [walkBin_eq, Cfi.applyBin_eq_binSem]

/-! ## lists -/

/-- a permutation of the image can be lifted to a permutation of the source -/
theorem perm_lift {α β γ} (f : α → γ) (g : β → γ) {l' l'' : List β} (hp : l'.Perm l'') :
    ∀ l : List α, l.map f = l'.map g → ∃ l2, l.Perm l2 ∧ l2.map f = l''.map g := by
  induction hp with
  | nil => intro l h; exact ⟨l, List.Perm.refl _, h⟩
  | cons x _ ih =>
    intro l h
    cases l with
    | nil => simp at h
    | cons a l0 =>
      simp only [List.map_cons, List.cons.injEq] at h
      obtain ⟨l2, hp2, hm2⟩ := ih l0 h.2
      exact ⟨a :: l2, List.Perm.cons a hp2, by simp [h.1, hm2]⟩
  | swap x y l1 =>
    intro l h
    match l, h with
    | [], h => simp at h
    | [_], h => simp at h
    | a :: b :: l0, h =>
      simp only [List.map_cons, List.cons.injEq] at h
      exact ⟨b :: a :: l0, List.Perm.swap b a l0, by simp [h.1, h.2.1, h.2.2]⟩
  | trans _ _ ih1 ih2 =>
    intro l h
    obtain ⟨l2, hp2, hm2⟩ := ih1 l h
    obtain ⟨l3, hp3, hm3⟩ := ih2 l2 hm2
    exact ⟨l3, hp2.trans hp3, hm3⟩

/-- register values of a context are 64-bit when its fields are -/
theorem reg64_of_ctx (x : Walk.CfiIn) (hip : x.callee.ip < 2 ^ 64) (hsp : x.callee.sp < 2 ^ 64)
    (hrest : ∀ p ∈ x.callee.rest, p.2 < 2 ^ 64) : ∀ n v, x.reg n = some v → v < 2 ^ 64 := by
  have hget : ∀ (l : List (String × Nat)) k, (∀ p ∈ l, p.2 < 2 ^ 64) → Walk.assocGet l k < 2 ^ 64 := by
    intro l k hl
    induction l with
    | nil => simp [Walk.assocGet]
    | cons p t ih =>
      obtain ⟨k', v'⟩ := p
      simp only [Walk.assocGet]
      split
      · exact hl (k', v') List.mem_cons_self
      · exact ih (fun p hp => hl p (List.mem_cons_of_mem _ hp))
  intro n v h
  unfold Walk.CfiIn.reg Walk.Ctx.get at h
  split at h
  · have hraw : Walk.Ctx.raw x.arch x.callee n < 2 ^ 64 := by
      unfold Walk.Ctx.raw
      split
      · omega
      · split
        · exact hip
        · split
          · exact hsp
          · exact hget _ _ hrest
    simp only [Option.some.injEq] at h
    subst h
    split
    · exact Nat.lt_of_le_of_lt (Nat.mod_le _ _) hraw
    · exact hraw
  · cases h

end MdModel.CfiBridge
