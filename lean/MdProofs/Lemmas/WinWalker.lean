/-
  Helper lemmas for MdProofs.C07Walker: C07's caller record (`Win.Caller`) simulates the caller half
  of the real x86 walker (`MdModel.CfiWalker.CfiStackWalker` at CONTEXT_X86) through whole lists of
  `set_caller_register` / `clear_caller_register` calls (lifting `x86_win_caller_refines`).
-/
import MdProofs.C06Walker
import MdProofs.C07
import MdModel.WinWalker
namespace MdModel.WinWalker
open MdModel MdModel.CfiWalker MdModel.Win MdModel.Gen.Regs MdModel.Regs

/-- only the caller half (context + validity set) differs -/
def SameCallee (w w' : CfiStackWalker) : Prop := ∃ st vs, w' = w.withCaller st vs

theorem SameCallee.rfl' (w : CfiStackWalker) : SameCallee w w := ⟨w.callerCtx, w.callerValidity, rfl⟩

theorem SameCallee.trans {a b c : CfiStackWalker} (h1 : SameCallee a b) (h2 : SameCallee b c) :
    SameCallee a c := by
  obtain ⟨s1, v1, rfl⟩ := h1
  obtain ⟨s2, v2, rfl⟩ := h2
  exact ⟨s2, v2, rfl⟩

theorem SameCallee.readOf {w w' : CfiStackWalker} (h : SameCallee w w') : readOf w' = readOf w := by
  obtain ⟨st, vs, rfl⟩ := h; rfl

theorem SameCallee.cpu {w w' : CfiStackWalker} (h : SameCallee w w') : w'.cpu = w.cpu := by
  obtain ⟨st, vs, rfl⟩ := h; rfl

/-- C07's record and the real walker agree on all ten registers of CONTEXT_X86 -/
def Sim (w : CfiStackWalker) (c : Caller) : Prop := ∀ s ∈ x86Regs, WinSim w c s

theorem Sim.log {w : CfiStackWalker} {c : Caller} (h : Sim w c) (l : List (String × Nat)) :
    Sim w { c with log := l } := h

/-- one `set_caller_register` call on both sides -/
theorem set_step (w : CfiStackWalker) (hx : w.cpu = .ctx .X86) (c : Caller) (hsim : Sim w c)
    (name : String) (v : Nat) :
    ∃ b w', w.setCallerRegister name v = .ok (b, w') ∧ SameCallee w w' ∧
      (match c.set name v with
       | none => b = false ∧ w' = w
       | some c' => b = true ∧ Sim w' c') := by
  obtain ⟨b, w', h1, hb, hs⟩ := (x86_win_caller_refines w hx c hsim name v).1
  obtain ⟨b2, w2, h2, _, hfalse, _⟩ := (real_writes w name v).1
  rw [h1] at h2
  simp only [Outcome.ok.injEq, Prod.mk.injEq] at h2
  obtain ⟨rfl, rfl⟩ := h2
  refine ⟨b, w', h1, ?_, ?_⟩
  · have := setCallerRegister_eq w name v
    rw [h1] at this
    simp only [Outcome.ok.injEq] at this
    cases hc : w.cpu.canon name with
    | none => rw [hc] at this; simp only [Prod.mk.injEq] at this; rw [this.2]; exact SameCallee.rfl' w
    | some m =>
      rw [hc] at this
      by_cases hf : w.cpu.fits v = true
      · simp only [hf, if_true, Prod.mk.injEq] at this; rw [this.2]; exact ⟨_, _, rfl⟩
      · simp only [hf, Bool.false_eq_true, if_false, Prod.mk.injEq] at this; rw [this.2]; exact SameCallee.rfl' w
  · unfold Caller.set
    cases hc : c.setCore name v with
    | none =>
      simp only [Option.map_none]
      rw [hc] at hb
      simp only [Option.isSome_none] at hb
      exact ⟨hb, hfalse hb⟩
    | some c' =>
      simp only [Option.map_some]
      rw [hc] at hb
      simp only [Option.isSome_some] at hb
      exact ⟨hb, Sim.log (hs c' hc) _⟩

/-- the `set_caller_register(..)?` calls of a plan, on both sides -/
theorem applySets_refines (sets : List (String × Nat)) :
    ∀ (w : CfiStackWalker) (_ : w.cpu = .ctx .X86) (c : Caller) (_ : Sim w c),
      ∃ w', applySetsReal w sets = .ok ((applySets c sets).1, w') ∧ SameCallee w w' ∧
        Sim w' (applySets c sets).2 := by
  induction sets with
  | nil => intro w _ c hsim; exact ⟨w, rfl, SameCallee.rfl' w, hsim⟩
  | cons e rest ih =>
    intro w hx c hsim
    obtain ⟨n, v⟩ := e
    obtain ⟨b, w1, h1, hsc, hm⟩ := set_step w hx c hsim n v
    simp only [applySetsReal, applySets, h1]
    cases hc : c.set n v with
    | none =>
      rw [hc] at hm
      obtain ⟨rfl, rfl⟩ := hm
      exact ⟨w1, rfl, SameCallee.rfl' w1, hsim⟩
    | some c' =>
      rw [hc] at hm
      obtain ⟨rfl, hs'⟩ := hm
      obtain ⟨w2, h2, hsc2, hs2⟩ := ih w1 (hsc.cpu.trans hx) c' hs'
      exact ⟨w2, h2, hsc.trans hsc2, hs2⟩

/-- `clear_stack_win_caller_registers`, on both sides, for ANY list of names -/
theorem clearAll_refines (names : List String) :
    ∀ (w : CfiStackWalker) (_ : w.cpu = .ctx .X86) (c : Caller) (_ : Sim w c),
      ∃ w', clearAllReal names w = .ok w' ∧ SameCallee w w' ∧ Sim w' (clearAll names c) := by
  induction names with
  | nil => intro w _ c hsim; exact ⟨w, rfl, SameCallee.rfl' w, hsim⟩
  | cons n t ih =>
    intro w hx c hsim
    obtain ⟨w1, h1, hs1⟩ := (x86_win_caller_refines w hx c hsim n 0).2
    have hsc : SameCallee w w1 := by
      have := clearCallerRegister_eq w n
      rw [h1] at this
      simp only [Outcome.ok.injEq] at this
      cases hc : w.cpu.canon n with
      | none => rw [hc] at this; rw [this]; exact SameCallee.rfl' w
      | some m => rw [hc] at this; rw [this]; exact ⟨_, _, rfl⟩
    obtain ⟨w2, h2, hsc2, hs2⟩ := ih w1 (hsc.cpu.trans hx) (c.clear n) hs1
    refine ⟨w2, ?_, hsc.trans hsc2, ?_⟩
    · simp only [clearAllReal, h1]; exact h2
    · simpa [clearAll] using hs2

/-- a plan after the clear, on both sides -/
theorem runPlan_refines (names : List String) (p : Plan) (w : CfiStackWalker)
    (hx : w.cpu = .ctx .X86) (c : Caller) (hsim : Sim w c) :
    ∃ w1 w', clearAllReal names w = .ok w1 ∧ SameCallee w w1 ∧
      runPlanReal w1 p = .ok ((runPlan (clearAll names c) p).1, w') ∧ SameCallee w w' ∧
      Sim w' (runPlan (clearAll names c) p).2 := by
  obtain ⟨w1, h1, hsc1, hs1⟩ := clearAll_refines names w hx c hsim
  obtain ⟨w2, h2, hsc2, hs2⟩ := applySets_refines p.sets w1 (hsc1.cpu.trans hx) _ hs1
  refine ⟨w1, w2, h1, hsc1, ?_, hsc1.trans hsc2, ?_⟩
  · simp only [runPlanReal, h2, runPlan]
  · simpa [runPlan] using hs2

/-! ## the C07 record of a real walker -/

/-- the six-register record C07's theorems are about, read off the real walker: the ten cells of
    CONTEXT_X86 and the part of the validity set that names them -/
def callerOf (w : CfiStackWalker) : Caller :=
  { vals := x86Regs.map fun s => (s, UInt32.ofNat (rawOf .X86 w.callerCtx s))
    valid := x86Regs.filter fun s => w.callerValidity.contains s
    clears := []
    log := [] }

theorem Vars.get_map_self (f : String → UInt32) (l : List String) (s : String) (hs : s ∈ l) :
    Vars.get (l.map fun x => (x, f x)) s = some (f s) := by
  induction l with
  | nil => cases hs
  | cons a t ih =>
    simp only [List.map_cons, Vars.get_cons]
    by_cases h : a = s
    · simp [h]
    · simp only [h, if_false]
      rcases List.mem_cons.mp hs with h1 | h1
      · exact absurd h1.symm h
      · exact ih h1

theorem callerOf_sim (w : CfiStackWalker)
    (hcells : ∀ s ∈ x86Regs, rawOf .X86 w.callerCtx s < 2 ^ 32) : Sim w (callerOf w) := by
  intro s hs
  unfold WinSim callerOf
  simp only [List.mem_filter, List.contains_iff_mem]
  refine ⟨⟨fun h => h.2, fun h => ⟨hs, h⟩⟩, fun _ => ?_⟩
  rw [Vars.get_map_self (fun s => UInt32.ofNat (rawOf .X86 w.callerCtx s)) _ s hs]
  simp only [Option.map_some, Option.some.injEq]
  rw [UInt32.toNat_ofNat']
  exact Nat.mod_eq_of_lt (hcells s hs)

end MdModel.WinWalker
