/-
  The real `CfiStackWalker` (MdModel.CfiWalker), method by method, in terms of C18's theorems:

    names    `memoize_register` never panics; a name is unknown, or has ONE canonical name
    reads    `get_callee_register(n)`: none for an unknown name; for a known one it depends on `n`
             only through its storage cell — aliases read the same cell under the same validity
    writes   `set_caller_register` / `clear_caller_register` / `set_cfa` / `set_ra` as plain
             functions of the caller's register file and validity set, and their effect on the
             VIEW of every canonical register (`callerView`: its value if valid)

  The hypotheses are the invariants of every walker the unwinders build: the callee's validity set
  names only registers (or aliases) of the context type (`validityWf`, C18's `hS`).
-/
import MdProofs.Lemmas.CfiWalkerTables
import MdProofs.Lemmas.CfiBridgeInst
namespace MdModel.CfiWalker
open MdModel MdModel.Gen.Regs MdModel.Regs MdModel.CfiBridge

/-! ## names -/

/-- canonical name of a register name (`memoize_register`), as a plain option -/
def Cpu.canon (p : Cpu) (n : String) : Option String := memoName p.tbl n

theorem Cpu.memoize_eq (p : Cpu) (n : String) : p.memoize n = .ok (p.canon n) := by
  obtain ⟨r, hr⟩ := memoize_total p.tbl n
  unfold Cpu.memoize Cpu.canon
  rw [hr, memoName_of_memoize hr]

theorem canon_known {p : Cpu} {n r : String} (h : p.canon n = some r) : n ∈ knownNames p.tbl :=
  memoize_some_known (memoize_of_memoName h)

theorem canon_unknown {p : Cpu} {n : String} (h : n ∉ knownNames p.tbl) : p.canon n = none :=
  memoName_of_memoize (memoize_unknown h)

theorem canon_of_known {p : Cpu} {n : String} (h : n ∈ knownNames p.tbl) : ∃ r, p.canon n = some r := by
  obtain ⟨cell, r, f⟩ := known_facts h
  exact ⟨r, memoName_of_memoize f.memo⟩

/-- the canonical name is a name of `REGISTERS` and its own canonical name -/
theorem canon_canon {p : Cpu} {n r : String} (h : p.canon n = some r) :
    r ∈ registers p.tbl ∧ p.canon r = some r := by
  have := memoize_canonical p.tbl n r (memoize_of_memoName h)
  exact ⟨this.1, memoName_of_memoize this.2⟩

theorem canon_register {p : Cpu} {r : String} (h : r ∈ registers p.tbl) : p.canon r = some r := by
  have := registers_canonical p.tbl
  rw [List.all_eq_true] at this
  show memoName p.tbl r = some r
  simpa using this r h

/-- an alias and its canonical name denote the same storage cell -/
theorem canon_cell {p : Cpu} {n r : String} (h : p.canon n = some r) : getCell p.tbl n = getCell p.tbl r := by
  have hn := memoize_of_memoName h
  have hr := memoize_of_memoName (canon_canon h).2
  exact ((alias_same_cell p.tbl n r r r hn hr).1).mp rfl

/-- two canonical names with the same cell are the same name -/
theorem cell_inj {p : Cpu} {n s m : String} (hn : p.canon n = some m) (hs : s ∈ registers p.tbl) :
    getCell p.tbl s = getCell p.tbl n ↔ s = m := by
  have hks := known_of_registers hs
  have hkn := canon_known hn
  rw [← known_alias_iff' hks hkn]
  have e1 : memoName p.tbl s = some s := canon_register hs
  have e2 : memoName p.tbl n = some m := hn
  rw [e1, e2]
  simp

/-! ## reads -/

/-- raw value of the cell a name denotes (0 when it denotes none) -/
def rawOf (c : Ctx) (st : State) (n : String) : Nat :=
  match getCell c n with
  | some cell => st cell
  | none => 0

/-- what `get_register_always` returns for a known name: the cell, at the walker's width -/
def Cpu.read (p : Cpu) (st : State) (n : String) : Nat :=
  match p with
  | .ctx c => rawOf c st n
  | .mips32 => rawOf .MIPS st n % 2 ^ Gen.CfiWalkerConsts.mips32Bits

theorem Cpu.getAlways_known (p : Cpu) (st : State) {n : String} (hn : n ∈ knownNames p.tbl) :
    p.getAlways st n = .ok (p.read st n) := by
  obtain ⟨cell, hc, hg⟩ := Regs.getAlways_known st hn
  cases p with
  | ctx c =>
    show Regs.getAlways c st n = _
    have : Regs.getAlways c st n = .ok (st cell) := hg
    rw [this]; simp only [Cpu.read, rawOf]
    have hc' : getCell c n = some cell := hc
    rw [hc']
  | mips32 =>
    have hg' : Regs.getAlways .MIPS st n = .ok (st cell) := hg
    have hc' : getCell .MIPS n = some cell := hc
    simp only [Cpu.getAlways, hg', Cpu.read, rawOf, hc']

/-- the validity covers the register a (known) name denotes -/
def covers (c : Ctx) (v : Validity) (n : String) : Bool :=
  match v with
  | .all => true
  | .some S => S.any (sameReg c n)

theorem validityWf_some {c : Ctx} {S : List String} (h : validityWf c (.some S) = true) :
    ∀ s ∈ S, s ∈ knownNames c := by
  intro s hs
  simp only [validityWf, List.all_eq_true] at h
  simpa using h s hs

theorem Cpu.isValid_known (p : Cpu) {n : String} {v : Validity} (hn : n ∈ knownNames p.tbl)
    (hv : validityWf p.tbl v = true) : p.isValid n v = .ok (covers p.tbl v n) := by
  unfold Cpu.isValid
  cases v with
  | all => exact isValid_all_known hn
  | some S => exact isValid_some_sameReg hn (validityWf_some hv)

/-- `get_register` of a known name: the cell's value (at the walker's width) iff the validity
    covers the cell -/
theorem Cpu.getRegister_known (p : Cpu) (st : State) {n : String} {v : Validity}
    (hn : n ∈ knownNames p.tbl) (hv : validityWf p.tbl v = true) :
    p.getRegister st n v = .ok (if covers p.tbl v n then some (p.read st n) else none) := by
  unfold Cpu.getRegister
  rw [p.isValid_known hn hv, p.getAlways_known st hn]
  cases covers p.tbl v n <;> rfl

/-- `get_register` of an unknown name: `None`, no panic -/
theorem Cpu.getRegister_unknown (p : Cpu) (st : State) {n : String} {v : Validity}
    (hn : n ∉ knownNames p.tbl) (hv : validityWf p.tbl v = true) :
    p.getRegister st n v = .ok none := by
  obtain ⟨_, _, h3, _, h5⟩ := unknown_absent p.tbl st n hn
  unfold Cpu.getRegister Cpu.isValid
  cases v with
  | all => rw [h3]
  | some S =>
    have : n ∉ S := fun h => hn (validityWf_some hv n h)
    rw [(h5 S this).1]

/-- what the callee frame says about a register name: `Some(value)` iff known and valid -/
def calleeView (w : CfiStackWalker) (n : String) : Option Nat :=
  match w.cpu.canon n with
  | none => none
  | some _ => if covers w.cpu.tbl w.calleeValidity n then some (w.cpu.read w.calleeCtx n) else none

/-- **`get_callee_register`, decided**: never panics; `None` for a name the context type does not
    know; otherwise the value of the register's cell iff the validity set covers it -/
theorem getCalleeRegister_eq (w : CfiStackWalker) (hv : validityWf w.cpu.tbl w.calleeValidity = true) (n : String) :
    w.getCalleeRegister n = .ok (calleeView w n) := by
  unfold CfiStackWalker.getCalleeRegister calleeView
  by_cases hn : n ∈ knownNames w.cpu.tbl
  · obtain ⟨r, hr⟩ := canon_of_known (p := w.cpu) hn
    rw [hr, w.cpu.getRegister_known _ hn hv]
  · rw [canon_unknown hn, w.cpu.getRegister_unknown _ hn hv]

/-- **aliases read the same register**: the view through a name is the view through its canonical name -/
theorem calleeView_canon (w : CfiStackWalker) {n r : String} (h : w.cpu.canon n = some r) :
    calleeView w n = calleeView w r := by
  have hc := canon_cell h
  unfold calleeView
  rw [h, (canon_canon h).2]
  have e1 : covers w.cpu.tbl w.calleeValidity n = covers w.cpu.tbl w.calleeValidity r := by
    unfold covers
    cases w.calleeValidity with
    | all => rfl
    | some S =>
      have : sameReg w.cpu.tbl n = sameReg w.cpu.tbl r := by funext s; simp only [sameReg, hc]
      simp only [this]
  have e2 : w.cpu.read w.calleeCtx n = w.cpu.read w.calleeCtx r := by
    unfold Cpu.read rawOf
    cases hp : w.cpu with
    | ctx c => rw [hp] at hc; simp only [Cpu.tbl] at hc; simp only [hc]
    | mips32 => rw [hp] at hc; simp only [Cpu.tbl] at hc; simp only [hc]
  rw [e1, e2]

/-! ## writes -/

/-- the caller's half of the walker replaced -/
def CfiStackWalker.withCaller (w : CfiStackWalker) (st : State) (vs : List String) : CfiStackWalker :=
  { w with callerCtx := st, callerValidity := vs }

/-- the cell a name denotes, written -/
def writeOf (c : Ctx) (st : State) (n : String) (v : Nat) : State :=
  match getCell c n with
  | some cell => st.write cell v
  | none => st

theorem Cpu.setRegister_known (p : Cpu) (st : State) {n : String} (hn : n ∈ knownNames p.tbl) (v : Nat) :
    p.setRegister st n v = .ok (some (writeOf p.tbl st n v)) := by
  obtain ⟨cell, r, f⟩ := known_facts hn
  unfold Cpu.setRegister writeOf
  rw [setRegister_of_cell st v f.setCell f.inBounds, f.getCell]

/-- **`set_caller_register`, decided**: never panics; fails (nothing changes) for an unknown name or
    a value the register cannot hold; otherwise the cell of the name is written and the CANONICAL
    name enters the validity set -/
theorem setCallerRegister_eq (w : CfiStackWalker) (n : String) (v : Nat) :
    w.setCallerRegister n v = .ok
      (match w.cpu.canon n with
       | none => (false, w)
       | some m =>
         if w.cpu.fits v then
           (true, w.withCaller (writeOf w.cpu.tbl w.callerCtx n v) (setInsert w.callerValidity m))
         else (false, w)) := by
  unfold CfiStackWalker.setCallerRegister
  rw [w.cpu.memoize_eq]
  cases hm : w.cpu.canon n with
  | none => rfl
  | some m =>
    simp only
    by_cases hf : w.cpu.fits v = true
    · simp only [hf, Bool.not_true, Bool.false_eq_true, if_false, if_true]
      rw [w.cpu.setRegister_known _ (canon_known hm)]
      rfl
    · simp only [hf, Bool.not_false, if_true]
      simp

/-- **`clear_caller_register`, decided**: the canonical name leaves the validity set; an unknown
    name changes nothing -/
theorem clearCallerRegister_eq (w : CfiStackWalker) (n : String) :
    w.clearCallerRegister n = .ok
      (match w.cpu.canon n with
       | none => w
       | some m => w.withCaller w.callerCtx (setRemove w.callerValidity m)) := by
  unfold CfiStackWalker.clearCallerRegister
  rw [w.cpu.memoize_eq]
  cases w.cpu.canon n <;> rfl

theorem sp_known (p : Cpu) : p.spName ∈ registers p.tbl ∧ p.ipName ∈ registers p.tbl ∧ p.spName ≠ p.ipName := by
  have := sp_ip_canonical p.tbl
  simp only [Bool.and_eq_true, List.contains_eq_mem, decide_eq_true_eq, bne_iff_ne] at this
  exact ⟨this.1.1.2, this.1.2, this.2⟩

/-- **`set_cfa` / `set_ra`, decided**: `set_caller_register` under the stack-pointer /
    instruction-pointer name (which is canonical: `sp_ip_canonical`) -/
theorem setNamed_eq (w : CfiStackWalker) {reg : String} (hr : reg ∈ registers w.cpu.tbl) (v : Nat) :
    w.setNamed reg v = w.setCallerRegister reg v := by
  rw [setCallerRegister_eq, canon_register hr]
  unfold CfiStackWalker.setNamed
  by_cases hf : w.cpu.fits v = true
  · simp only [hf, Bool.not_true, Bool.false_eq_true, if_false, if_true]
    rw [w.cpu.setRegister_known _ (known_of_registers hr)]
    rfl
  · simp [hf]

theorem setCfa_eq (w : CfiStackWalker) (v : Nat) : w.setCfa v = w.setCallerRegister w.cpu.spName v :=
  setNamed_eq w (sp_known w.cpu).1 v

theorem setRa_eq (w : CfiStackWalker) (v : Nat) : w.setRa v = w.setCallerRegister w.cpu.ipName v :=
  setNamed_eq w (sp_known w.cpu).2.1 v

/-! ## the caller's registers as the frame will report them -/

/-- caller register `s` (a canonical name): its value if it is in the validity set -/
def callerView (w : CfiStackWalker) (s : String) : Option Nat :=
  if w.callerValidity.contains s then some (rawOf w.cpu.tbl w.callerCtx s) else none

theorem setInsert_contains (l : List String) (m s : String) :
    (setInsert l m).contains s = (decide (s = m) || l.contains s) :=
  CfiBridge.setInsert_contains l m s

theorem setRemove_contains (l : List String) (m s : String) :
    (setRemove l m).contains s = (!decide (s = m) && l.contains s) :=
  CfiBridge.filter_ne_contains l m s

theorem rawOf_write (p : Cpu) (st : State) {n m s : String} (hn : p.canon n = some m)
    (hs : s ∈ registers p.tbl) (v : Nat) :
    rawOf p.tbl (writeOf p.tbl st n v) s = if s = m then v else rawOf p.tbl st s := by
  obtain ⟨cell, r, f⟩ := known_facts (canon_known hn)
  obtain ⟨cs, rs, fs⟩ := known_facts (known_of_registers hs)
  have hinj := cell_inj hn hs
  unfold rawOf writeOf
  rw [f.getCell, fs.getCell] at *
  simp only [State.write]
  by_cases hsm : s = m
  · have : cs = cell := by have := hinj.mpr hsm; simpa using this
    simp [hsm, this]
  · have : ¬ cs = cell := fun e => hsm (hinj.mp (by rw [e]))
    simp [hsm, this]

/-- a successful `set_caller_register(n, v)`: the canonical register of `n` is valid with value
    `v`, every other canonical register is as before -/
theorem callerView_set (w : CfiStackWalker) {n m s : String} (hn : w.cpu.canon n = some m)
    (hs : s ∈ registers w.cpu.tbl) (v : Nat) :
    callerView (w.withCaller (writeOf w.cpu.tbl w.callerCtx n v) (setInsert w.callerValidity m)) s =
      if s = m then some v else callerView w s := by
  unfold callerView CfiStackWalker.withCaller
  simp only [setInsert_contains]
  rw [rawOf_write w.cpu _ hn hs]
  by_cases hsm : s = m <;> simp [hsm]

theorem callerView_clear (w : CfiStackWalker) (m s : String) :
    callerView (w.withCaller w.callerCtx (setRemove w.callerValidity m)) s =
      if s = m then none else callerView w s := by
  unfold callerView CfiStackWalker.withCaller
  simp only [setRemove_contains]
  by_cases hsm : s = m <;> simp [hsm]

end MdModel.CfiWalker
