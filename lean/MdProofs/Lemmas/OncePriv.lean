/-
  C12 helper lemmas: a key that occurs exactly once in all programs is never waited for — its lock
  is never contended. This is what makes "a lookup of a slot private to one request" the same as a
  plain, unlocked supplier call (`Symbolizer::get_file_path` → `supplier.locate_file`).
-/
import MdProofs.Lemmas.OnceInv
namespace MdModel.Once
open MdModel

theorem count_flatten_ge_of_mem {L : List (List Nat)} {l : List Nat} (hl : l ∈ L) (k : Nat) :
    l.count k ≤ L.flatten.count k := by
  induction L with
  | nil => cases hl
  | cons a L ih =>
    simp only [List.flatten_cons, List.count_append]
    cases hl with
    | head => omega
    | tail _ h => have := ih h; omega

theorem count_flatten_two {L : List (List Nat)} {i j : Nat} (hi : i < L.length) (hj : j < L.length)
    (hij : i ≠ j) {k : Nat} (hki : k ∈ L[i]) (hkj : k ∈ L[j]) : 2 ≤ L.flatten.count k := by
  induction L generalizing i j with
  | nil => simp at hi
  | cons a L ih =>
    simp only [List.flatten_cons, List.count_append]
    cases i with
    | zero =>
      cases j with
      | zero => exact absurd rfl hij
      | succ j =>
        simp only [List.getElem_cons_zero] at hki
        simp only [List.getElem_cons_succ] at hkj
        have h1 : 0 < a.count k := List.count_pos_iff.mpr hki
        have h2 : 0 < L.flatten.count k := by
          have := count_flatten_ge_of_mem (List.getElem_mem (by simpa using hj)) k
          have := List.count_pos_iff.mpr hkj
          omega
        omega
    | succ i =>
      cases j with
      | zero =>
        simp only [List.getElem_cons_zero] at hkj
        simp only [List.getElem_cons_succ] at hki
        have h1 : 0 < a.count k := List.count_pos_iff.mpr hkj
        have h2 : 0 < L.flatten.count k := by
          have := count_flatten_ge_of_mem (List.getElem_mem (by simpa using hi)) k
          have := List.count_pos_iff.mpr hki
          omega
        omega
      | succ j =>
        simp only [List.getElem_cons_succ] at hki hkj
        have := ih (by simpa using hi) (by simpa using hj) (by omega) hki hkj
        omega

theorem map_fst_expected (cfg : Cfg) (l : List Nat) : (l.map (expected cfg)).map Prod.fst = l := by
  rw [List.map_map]
  have : (Prod.fst ∘ expected cfg) = id := by funext k; rfl
  rw [this, List.map_id]

theorem prog_eq_getElem {cfg : Cfg} {t : Nat} (ht : t < cfg.progs.length) :
    cfg.prog t = cfg.progs[t] := by
  simp [Cfg.prog, List.getD_eq_getElem?_getD, ht]

/-- a task with something left to do is a task of the configuration -/
theorem lt_ntasks_of_todo {cfg : Cfg} {s : State} (h : InvA cfg s) {t : Nat}
    (hne : todo (s.task t) ≠ []) : t < cfg.ntasks := by
  by_cases ht : t < cfg.ntasks
  · exact ht
  · have := h.ghost t (by omega)
    simp [todo, this] at hne

/-- the current key of a task is a key of its program -/
theorem todo_head_mem {cfg : Cfg} {s : State} (h : InvA cfg s) {t k : Nat} {r : List Nat}
    (htodo : todo (s.task t) = k :: r) : t < cfg.progs.length ∧ k ∈ cfg.progs[t]'(by
      have := lt_ntasks_of_todo h (t := t) (by rw [htodo]; simp); exact this) := by
  have ht := lt_ntasks_of_todo h (t := t) (by rw [htodo]; simp)
  refine ⟨ht, ?_⟩
  have := mem_prog_of_todo h htodo
  rw [prog_eq_getElem ht] at this
  exact this

/-- **private slot**: a key that occurs exactly once in all programs is never waited for -/
theorem unique_key_never_waited {cfg : Cfg} {s : State} (h : InvA cfg s) {k : Nat}
    (huniq : cfg.progs.flatten.count k = 1) (t : Nat) : (s.task t).ctl ≠ .waiting k := by
  intro hw
  have htodo : todo (s.task t) = k :: (s.task t).rest := by simp [todo, hw]
  obtain ⟨ht, hkt⟩ := todo_head_mem h htodo
  have hslot := h.waiting_slot t k hw
  cases hs : s.slot k with
  | empty => exact hslot hs
  | held u =>
    obtain ⟨n, hn⟩ := h.held_insup k u hs
    have hut : u ≠ t := by intro e; subst e; rw [hn] at hw; cases hw
    have htodo' : todo (s.task u) = k :: (s.task u).rest := by simp [todo, hn]
    obtain ⟨hu, hku⟩ := todo_head_mem h htodo'
    have := count_flatten_two hu ht hut hku hkt
    omega
  | done r =>
    obtain ⟨u, hu⟩ := h.done_seen k r hs
    by_cases hut : u = t
    · subst hut
      -- `k` has been seen by the task AND is still to be looked up: it occurs twice in its program
      have hres := h.results u
      rw [htodo] at hres
      have hc : 2 ≤ (cfg.prog u).count k := by
        have h1 := congrArg (fun l => (l.map Prod.fst).count k) hres
        simp only [List.map_append, List.count_append, map_fst_expected, List.map_cons,
          List.count_cons] at h1
        have hseen : 0 < ((seenBy u s.log).map Prod.fst).count k := by
          apply List.count_pos_iff.mpr
          exact List.mem_map.mpr ⟨(k, r), mem_seenBy.mpr hu, rfl⟩
        simp only [expected, beq_self_eq_true, if_true] at h1
        omega
      rw [prog_eq_getElem ht] at hc
      have := count_flatten_ge_of_mem (List.getElem_mem ht) k
      omega
    · have hmem := seen_mem_expected h hu
      obtain ⟨k', hk', he⟩ := List.mem_map.mp hmem
      simp only [expected, Prod.mk.injEq] at he
      have hu' := lt_ntasks_of_seen h hu
      have hku : k ∈ cfg.progs[u]'hu' := by
        rw [← prog_eq_getElem hu', ← he.1]; exact hk'
      have := count_flatten_two hu' ht hut hku hkt
      omega

/-- the same, with the hypothesis in the form the request-level model provides: only ONE task's
    program mentions the key, and it mentions it at most once -/
theorem private_key_never_waited {cfg : Cfg} {s : State} (h : InvA cfg s) {k : Nat}
    (hone : ∀ t₁ t₂, k ∈ cfg.prog t₁ → k ∈ cfg.prog t₂ → t₁ = t₂)
    (hcount : ∀ t, (cfg.prog t).count k ≤ 1) (t : Nat) : (s.task t).ctl ≠ .waiting k := by
  intro hw
  have htodo : todo (s.task t) = k :: (s.task t).rest := by simp [todo, hw]
  have hkt := mem_prog_of_todo h htodo
  have hslot := h.waiting_slot t k hw
  cases hs : s.slot k with
  | empty => exact hslot hs
  | held u =>
    obtain ⟨n, hn⟩ := h.held_insup k u hs
    have hut : u ≠ t := by intro e; subst e; rw [hn] at hw; cases hw
    have hku : k ∈ cfg.prog u :=
      mem_prog_of_todo h (t := u) (k := k) (r := (s.task u).rest) (by simp [todo, hn])
    exact hut (hone u t hku hkt)
  | done r =>
    obtain ⟨u, hu⟩ := h.done_seen k r hs
    have hmem := seen_mem_expected h hu
    obtain ⟨k', hk', he⟩ := List.mem_map.mp hmem
    simp only [expected, Prod.mk.injEq] at he
    have hut : u = t := hone u t (he.1 ▸ hk') hkt
    subst hut
    have hres := h.results u
    rw [htodo] at hres
    have h1 := congrArg (fun l => (l.map Prod.fst).count k) hres
    simp only [List.map_append, List.count_append, map_fst_expected, List.map_cons,
      List.count_cons] at h1
    have hseen : 0 < ((seenBy u s.log).map Prod.fst).count k := by
      apply List.count_pos_iff.mpr
      exact List.mem_map.mpr ⟨(k, r), mem_seenBy.mpr hu, rfl⟩
    simp only [expected, beq_self_eq_true, if_true] at h1
    have := hcount u
    omega

end MdModel.Once
