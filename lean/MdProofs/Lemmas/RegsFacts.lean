/-
  C18: consequences of the table facts in the form the property theorems use them.
-/
import MdProofs.Lemmas.RegsTables
namespace MdModel.Regs
open MdModel MdModel.Gen.Regs

/-- everything the tables guarantee about one table name -/
structure NameFacts (c : Ctx) (n : String) (cell : Cell) (r : String) : Prop where
  getCell : getCell c n = some cell
  setCell : setCell c n = some cell
  inBounds : inBounds c cell = true
  memo : memoize c n = .ok (some r)
  canonReg : r ∈ registers c
  canonMemo : memoize c r = .ok (some r)
  canonCell : Regs.getCell c r = some cell

theorem memoize_of_memoName {c : Ctx} {n r : String} (h : memoName c n = some r) :
    memoize c n = .ok (some r) := by
  unfold memoName at h
  split at h
  · rename_i x hx; rw [hx, h]
  · cases h

theorem memoName_of_memoize {c : Ctx} {n : String} {r : Option String} (h : memoize c n = .ok r) :
    memoName c n = r := by
  unfold memoName; rw [h]

theorem known_facts {c : Ctx} {n : String} (h : n ∈ knownNames c) :
    ∃ cell r, NameFacts c n cell r := by
  have hall := known_ok c
  rw [List.all_eq_true] at hall
  have hn := hall n h
  simp only [Bool.and_eq_true] at hn
  obtain ⟨hok, _⟩ := hn
  unfold nameOk at hok
  split at hok
  · rename_i cell r hg hm
    simp only [Bool.and_eq_true, beq_iff_eq, List.contains_eq_mem, decide_eq_true_eq] at hok
    obtain ⟨⟨⟨⟨hb, hs⟩, hr⟩, hmr⟩, hgr⟩ := hok
    exact ⟨cell, r, ⟨hg, hs, hb, memoize_of_memoName hm, hr, memoize_of_memoName hmr, hgr⟩⟩
  · cases hok

theorem known_memoTotal {c : Ctx} {n : String} (h : n ∈ knownNames c) : memoTotal c n = true := by
  have hall := known_ok c
  rw [List.all_eq_true] at hall
  have hn := hall n h
  simp only [Bool.and_eq_true] at hn
  exact hn.2

/-- `memoize_register` never panics, for any string -/
theorem memoize_total (c : Ctx) (n : String) : ∃ r, memoize c n = .ok r := by
  by_cases h : n ∈ knownNames c
  · obtain ⟨cell, r, f⟩ := known_facts h
    exact ⟨some r, f.memo⟩
  · exact ⟨none, memoize_unknown h⟩

theorem memoTotal_all (c : Ctx) (n : String) : memoTotal c n = true := by
  obtain ⟨r, hr⟩ := memoize_total c n
  unfold memoTotal; rw [hr]

theorem getKey_of_known {c : Ctx} {n : String} (h : n ∈ knownNames c) : n ∈ (getArms c).map (·.1) := by
  obtain ⟨cell, r, f⟩ := known_facts h
  have := f.getCell
  unfold getCell at this
  split at this
  · rename_i x hx; exact assoc_some_key_mem hx
  · cases this

theorem known_alias_iff' {c : Ctx} {n m : String} (hn : n ∈ knownNames c) (hm : m ∈ knownNames c) :
    (memoName c n = memoName c m) ↔ (getCell c n = getCell c m) := by
  have hall := known_alias_iff c
  rw [List.all_eq_true] at hall
  have h1 := hall n hn
  rw [List.all_eq_true] at h1
  have h2 := h1 m hm
  simp only [beq_iff_eq] at h2
  constructor
  · intro e
    have : (memoName c n == memoName c m) = true := by simp [e]
    rw [this] at h2
    simpa using h2.symm
  · intro e
    have : (getCell c n == getCell c m) = true := by simp [e]
    rw [this] at h2
    simpa using h2

theorem validNames_iff {c : Ctx} {n m : String} (hn : n ∈ knownNames c) (hm : m ∈ knownNames c)
    (hr : isCanonRule c = false) : m ∈ validNames c n ↔ sameReg c n m = true := by
  have hall := known_valid_names c
  rw [List.all_eq_true] at hall
  have h1 := hall n hn
  rw [List.all_eq_true] at h1
  have h2 := h1 m hm
  rw [hr] at h2
  simp only [Bool.false_or, beq_iff_eq] at h2
  rw [← h2]
  simp

/-- for table names, `sameReg` is "same canonical name" -/
theorem sameReg_iff_memo {c : Ctx} {n m : String} (hn : n ∈ knownNames c) (hm : m ∈ knownNames c) :
    sameReg c n m = true ↔ memoName c m = memoName c n := by
  obtain ⟨cell, r, f⟩ := known_facts hn
  unfold sameReg
  rw [f.getCell]
  simp only [Option.isSome_some, Bool.true_and, beq_iff_eq]
  rw [← f.getCell]
  rw [← known_alias_iff' hn hm]
  exact eq_comm

/-- for table names, `register_is_valid` under `Some(S)` is "some element of S names the same
    register (cell)", for every S of table names — aliases in both directions, in every context -/
theorem isValid_some_sameReg {c : Ctx} {n : String} {S : List String} (hn : n ∈ knownNames c)
    (hS : ∀ s ∈ S, s ∈ knownNames c) :
    isValid c n (.some S) = .ok (S.any (sameReg c n)) := by
  cases hr : isCanonRule c with
  | false =>
    rw [isValid_some_eq S (known_memoTotal hn) hr]
    congr 1
    rw [Bool.eq_iff_iff, List.any_eq_true, List.any_eq_true]
    constructor
    · rintro ⟨a, ha, hc⟩
      have haS : a ∈ S := by simpa using hc
      exact ⟨a, haS, (validNames_iff hn (hS a haS) hr).mp ha⟩
    · rintro ⟨m, hmS, hsame⟩
      exact ⟨m, (validNames_iff hn (hS m hmS) hr).mpr hsame, by simpa using hmS⟩
  | true =>
    rw [isValid_sparcCanon S hr (memoTotal_all c n) (fun o _ => memoTotal_all c o)]
    congr 1
    obtain ⟨cell, r, f⟩ := known_facts hn
    have hmn : memoName c n = some r := memoName_of_memoize f.memo
    rw [hmn]
    simp only []
    rw [Bool.eq_iff_iff, Bool.or_eq_true, List.any_eq_true, List.any_eq_true]
    constructor
    · rintro (hc | ⟨o, ho, hmo⟩)
      · have hnS : n ∈ S := by simpa using hc
        exact ⟨n, hnS, (sameReg_iff_memo hn hn).mpr rfl⟩
      · have : memoName c o = memoName c n := by rw [hmn]; simpa using hmo
        exact ⟨o, ho, (sameReg_iff_memo hn (hS o ho)).mpr this⟩
    · rintro ⟨m, hmS, hsame⟩
      right
      have := (sameReg_iff_memo hn (hS m hmS)).mp hsame
      exact ⟨m, hmS, by rw [this, hmn]; simp⟩

/-- `register_is_valid` never panics: any name, any validity -/
theorem isValid_total (c : Ctx) (n : String) (v : Validity) : ∃ b, isValid c n v = .ok b := by
  cases v with
  | all =>
    obtain ⟨r, hr⟩ := memoize_total c n
    exact ⟨r.isSome, by simp only [isValid, hr]⟩
  | some S =>
    cases hr : isCanonRule c with
    | false => exact ⟨_, isValid_some_eq S (memoTotal_all c n) hr⟩
    | true => exact ⟨_, isValid_sparcCanon S hr (memoTotal_all c n) (fun o _ => memoTotal_all c o)⟩

theorem isValid_all_known {c : Ctx} {n : String} (hn : n ∈ knownNames c) :
    isValid c n .all = .ok true := by
  obtain ⟨cell, r, f⟩ := known_facts hn
  simp only [isValid, f.memo, Option.isSome_some]

theorem getAlways_known {c : Ctx} {n : String} (st : State) (hn : n ∈ knownNames c) :
    ∃ cell, getCell c n = some cell ∧ getAlways c st n = .ok (st cell) := by
  obtain ⟨cell, r, f⟩ := known_facts hn
  exact ⟨cell, f.getCell, getAlways_of_cell st f.getCell f.inBounds⟩

/-! ## the enumerations -/

theorem collect_ok (c : Ctx) (st : State) (l : List String) (h : ∀ n ∈ l, n ∈ knownNames c) :
    ∃ vs, collect c st l = .ok vs ∧ vs.map (·.1) = l ∧ ∀ p ∈ vs, getAlways c st p.1 = .ok p.2 := by
  induction l with
  | nil => exact ⟨[], rfl, rfl, by simp⟩
  | cons n t ih =>
    obtain ⟨vs, hvs, hmap, hval⟩ := ih (fun m hm => h m (List.mem_cons_of_mem _ hm))
    obtain ⟨cell, _, hg⟩ := getAlways_known st (h n List.mem_cons_self)
    refine ⟨(n, st cell) :: vs, ?_, by simp [hmap], ?_⟩
    · simp only [collect, hg, hvs]
    · intro p hp
      rcases List.mem_cons.mp hp with rfl | hp
      · exact hg
      · exact hval p hp

theorem mdValidFrom_ok (c : Ctx) (st : State) (valid : Validity) (f : String → Bool) (l : List String)
    (h : ∀ n ∈ l, n ∈ knownNames c) (hv : ∀ n ∈ l, isValid c n valid = .ok (f n)) :
    ∃ vs, mdValidFrom c st valid l = .ok vs ∧ vs.map (·.1) = l.filter f ∧
      ∀ p ∈ vs, getAlways c st p.1 = .ok p.2 := by
  induction l with
  | nil => exact ⟨[], rfl, rfl, by simp⟩
  | cons n t ih =>
    obtain ⟨vs, hvs, hmap, hval⟩ := ih (fun m hm => h m (List.mem_cons_of_mem _ hm))
      (fun m hm => hv m (List.mem_cons_of_mem _ hm))
    obtain ⟨cell, _, hg⟩ := getAlways_known st (h n List.mem_cons_self)
    have hvn := hv n List.mem_cons_self
    by_cases hf : f n = true
    · refine ⟨(n, st cell) :: vs, ?_, by simp [List.filter, hf, hmap], ?_⟩
      · simp only [mdValidFrom, hg, hvn, hvs, hf, if_true]
      · intro p hp
        rcases List.mem_cons.mp hp with rfl | hp
        · exact hg
        · exact hval p hp
    · have hf' : f n = false := by simpa using hf
      refine ⟨vs, ?_, by simp [List.filter, hf', hmap], hval⟩
      simp only [mdValidFrom, hg, hvn, hvs, hf']
      simp

end MdModel.Regs
