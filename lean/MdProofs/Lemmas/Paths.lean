/-
  Helper lemmas about `MdModel.Paths` (property C17).
-/
import MdModel.Paths
namespace MdModel.Paths

/-! ### splitting -/

theorem splitOnP_ne_nil (p : Char → Bool) (s : Str) : splitOnP p s ≠ [] := by
  induction s with
  | nil => simp [splitOnP]
  | cons c cs ih =>
    unfold splitOnP
    split
    · simp
    · split <;> simp

/-- a string without separators is its own single piece -/
theorem splitOnP_nosep {p : Char → Bool} {w : Str} (h : ∀ c ∈ w, p c = false) :
    splitOnP p w = [w] := by
  induction w with
  | nil => simp [splitOnP]
  | cons c cs ih =>
    have hc : p c = false := h c (by simp)
    have ih' := ih (fun d hd => h d (by simp [hd]))
    simp [splitOnP, hc, ih']

/-- a separator-free prefix followed by a separator is the first piece -/
theorem splitOnP_append_sep {p : Char → Bool} {w : Str} (h : ∀ c ∈ w, p c = false) {s : Char}
    (hs : p s = true) (rest : Str) : splitOnP p (w ++ s :: rest) = w :: splitOnP p rest := by
  induction w with
  | nil => simp [splitOnP, hs]
  | cons c cs ih =>
    have hc : p c = false := h c (by simp)
    have ih' := ih (fun d hd => h d (by simp [hd]))
    simp [splitOnP, hc, ih']

/-- every piece consists of characters of the string that are not separators -/
theorem mem_splitOnP {p : Char → Bool} {s : Str} {w : Str} (hw : w ∈ splitOnP p s) :
    ∀ c ∈ w, c ∈ s ∧ p c = false := by
  induction s generalizing w with
  | nil => simp [splitOnP] at hw; subst hw; simp
  | cons a as ih =>
    unfold splitOnP at hw
    split at hw
    · rcases List.mem_cons.mp hw with rfl | h
      · simp
      · intro c hc; have := ih h c hc; exact ⟨by simp [this.1], this.2⟩
    · rename_i hpa
      split at hw
      · rename_i heq; exact absurd heq (splitOnP_ne_nil p as)
      · rename_i x xs heq
        rcases List.mem_cons.mp hw with rfl | h
        · intro c hc
          rcases List.mem_cons.mp hc with rfl | hc'
          · exact ⟨by simp, by simpa using hpa⟩
          · have := ih (w := x) (by simp [heq]) c hc'
            exact ⟨by simp [this.1], this.2⟩
        · intro c hc
          have := ih (w := w) (by simp [heq, h]) c hc
          exact ⟨by simp [this.1], this.2⟩

/-- splitting on a larger separator set refines the split on a smaller one -/
theorem splitOnP_refine {p q : Char → Bool} (hpq : ∀ c, p c = true → q c = true) (s : Str) :
    splitOnP q s = (splitOnP p s).flatMap (splitOnP q) := by
  induction s with
  | nil => simp [splitOnP]
  | cons c cs ih =>
    cases hp : p c with
    | true =>
      have hq := hpq c hp
      simp [splitOnP, hp, hq, ih]
    | false =>
      obtain ⟨x, xs, hx⟩ := List.exists_cons_of_ne_nil (splitOnP_ne_nil p cs)
      rw [hx] at ih
      simp only [List.flatMap_cons] at ih
      cases hq : q c with
      | true => simp [splitOnP, hp, hq, hx, ih]
      | false =>
        obtain ⟨y, ys, hy⟩ := List.exists_cons_of_ne_nil (splitOnP_ne_nil q x)
        rw [hy] at ih
        simp [splitOnP, hp, hq, hx, ih, hy]

/-- a piece of the coarser split that contains no separator of the finer one is a piece of the
    finer split too -/
theorem mem_splitOnP_refine {p q : Char → Bool} (hpq : ∀ c, p c = true → q c = true) {s w : Str}
    (hw : w ∈ splitOnP p s) (hq : ∀ c ∈ w, q c = false) : w ∈ splitOnP q s := by
  rw [splitOnP_refine hpq s]
  exact List.mem_flatMap.mpr ⟨w, hw, by simp [splitOnP_nosep hq]⟩

/-- splitting a concatenation at a separator -/
theorem splitOnP_append_sep' {p : Char → Bool} (a : Str) {s : Char} (hs : p s = true) (b : Str) :
    splitOnP p (a ++ s :: b) = splitOnP p a ++ splitOnP p b := by
  induction a with
  | nil => simp [splitOnP, hs]
  | cons c cs ih =>
    cases hp : p c with
    | true => simp [splitOnP, hp, ih]
    | false =>
      obtain ⟨x, xs, hx⟩ := List.exists_cons_of_ne_nil (splitOnP_ne_nil p cs)
      simp [splitOnP, hp, ih, hx]

/-! ### joinWith -/

theorem joinWith3 (sep a b c : Str) : joinWith sep [a, b, c] = a ++ sep ++ (b ++ sep ++ c) := by
  simp [joinWith]

theorem joinWith_append_singleton (sep : Str) {xs : List Str} (hx : xs ≠ []) (y : Str) :
    joinWith sep (xs ++ [y]) = joinWith sep xs ++ sep ++ y := by
  induction xs with
  | nil => exact absurd rfl hx
  | cons a as ih =>
    cases as with
    | nil => simp [joinWith]
    | cons b bs =>
      have := ih (by simp)
      simp only [List.cons_append, joinWith] at this ⊢
      rw [this]; simp [List.append_assoc]

theorem mem_joinWith {sep : Str} {xs : List Str} {c : Char} (h : c ∈ joinWith sep xs) :
    c ∈ sep ∨ ∃ x ∈ xs, c ∈ x := by
  induction xs with
  | nil => simp [joinWith] at h
  | cons a as ih =>
    cases as with
    | nil => simp [joinWith] at h; exact Or.inr ⟨a, by simp, h⟩
    | cons b bs =>
      simp only [joinWith, List.mem_append] at h
      rcases h with (h | h) | h
      · exact Or.inr ⟨a, by simp, h⟩
      · exact Or.inl h
      · rcases ih h with h | ⟨x, hx, hc⟩
        · exact Or.inl h
        · exact Or.inr ⟨x, by simp [hx], hc⟩

/-! ### leafname / safe_leafname -/

theorem mem_takeWhile_sat {α} {q : α → Bool} {l : List α} {a : α} (h : a ∈ l.takeWhile q) :
    q a = true := by
  induction l with
  | nil => simp at h
  | cons x xs ih =>
    simp only [List.takeWhile_cons] at h
    split at h
    · rcases List.mem_cons.mp h with rfl | h'
      · assumption
      · exact ih h'
    · simp at h

theorem mem_of_mem_dropLast' {α} {l : List α} {a : α} (h : a ∈ l.dropLast) : a ∈ l := by
  induction l with
  | nil => simp at h
  | cons x xs ih =>
    cases xs with
    | nil => simp at h
    | cons y ys =>
      simp only [List.dropLast_cons_cons] at h
      rcases List.mem_cons.mp h with rfl | h'
      · simp
      · exact List.mem_cons_of_mem _ (ih h')

theorem leafname_nosep (p : Str) : ∀ c ∈ leafname p, isSep c = false := by
  intro c hc
  unfold leafname at hc
  rw [List.mem_reverse] at hc
  have := mem_takeWhile_sat hc
  simpa using this

/-- what `safe_leafname` guarantees about an accepted leaf -/
structure SafeLeaf (l : Str) : Prop where
  nonempty : l ≠ []
  not_dot : l ≠ ['.']
  not_dotdot : l ≠ dotdot
  no_drive : hasDrivePrefix l = false
  nosep : ∀ c ∈ l, isSep c = false

theorem safeLeafname_some {p l : Str} (h : safeLeafname p = some l) : SafeLeaf l ∧ l = leafname p := by
  unfold safeLeafname at h
  simp only at h
  split at h
  · cases h
  · rename_i hn
    cases h
    simp only [not_or] at hn
    exact ⟨⟨hn.1, hn.2.1, hn.2.2.1, by simpa using hn.2.2.2, leafname_nosep p⟩, rfl⟩

theorem safeLeafname_none_iff (p : Str) :
    safeLeafname p = none ↔
      (leafname p = [] ∨ leafname p = ['.'] ∨ leafname p = dotdot ∨ hasDrivePrefix (leafname p) = true) := by
  unfold safeLeafname
  simp only
  split <;> simp_all [dotdot]

/-! ### `Rooted` of `leaf/id/file` -/

theorem isSep_slash : isSep '/' = true := by decide

theorem hasDrivePrefix_append {l : Str} (hl : l ≠ []) (hd : hasDrivePrefix l = false)
    (rest : Str) (hsl : ∀ c ∈ l, isSep c = false) : hasDrivePrefix (l ++ '/' :: rest) = false := by
  match l, hl with
  | [a], _ =>
    simp [hasDrivePrefix]
  | a :: b :: t, _ =>
    simpa [hasDrivePrefix] using hd

/-- The central lemma: a safe leaf, a separator-free middle component other than `..` and a
    separator-free last component other than `..`, joined with `/`, form a rooted path. -/
theorem rooted_three {leaf id file : Str} (hl : SafeLeaf leaf)
    (hid : ∀ c ∈ id, isSep c = false) (hid2 : id ≠ dotdot)
    (hf : ∀ c ∈ file, isSep c = false) (hf2 : file ≠ dotdot) :
    Rooted (joinWith slash [leaf, id, file]) := by
  rw [joinWith3]
  have hne := hl.nonempty
  refine ⟨?_, ?_, ?_, ?_⟩
  · cases leaf with
    | nil => exact absurd rfl hne
    | cons a as => simp
  · intro c hc
    cases leaf with
    | nil => exact absurd rfl hne
    | cons a as =>
      simp at hc; subst hc
      exact hl.nosep a (by simp)
  · have := hasDrivePrefix_append hne hl.no_drive (id ++ slash ++ file) hl.nosep
    simpa [slash, List.append_assoc] using this
  · unfold comps
    have e1 : leaf ++ slash ++ (id ++ slash ++ file) = leaf ++ '/' :: (id ++ '/' :: file) := by
      simp [slash, List.append_assoc]
    rw [e1, splitOnP_append_sep hl.nosep isSep_slash, splitOnP_append_sep hid isSep_slash,
      splitOnP_nosep hf]
    simp only [List.mem_cons, List.not_mem_nil, or_false, not_or]
    exact ⟨fun h => hl.not_dotdot h.symm, fun h => hid2 h.symm, fun h => hf2 h.symm⟩

/-! ### replace_or_add_extension -/

/-- the result is `stem.new_extension` where every character of `stem` is a character of the
    file name or a `.` -/
theorem replaceOrAddExtension_shape (filename m n : Str) :
    ∃ stem, replaceOrAddExtension filename m n = stem ++ '.' :: n ∧
      ∀ c ∈ stem, c ∈ filename ∨ c = '.' := by
  unfold replaceOrAddExtension
  simp only
  have hne := splitOnP_ne_nil (· == '.') filename
  have hmem : ∀ w ∈ splitOnP (· == '.') filename, ∀ c ∈ w, c ∈ filename :=
    fun w hw c hc => (mem_splitOnP hw c hc).1
  split
  · rename_i hcond
    have hlen : (splitOnP (· == '.') filename).length > 1 := hcond.1
    have hne' : (splitOnP (· == '.') filename).dropLast ≠ [] := by
      intro h
      have := congrArg List.length h
      simp at this; omega
    refine ⟨joinWith ['.'] (splitOnP (· == '.') filename).dropLast, ?_, ?_⟩
    · rw [joinWith_append_singleton _ hne']; simp
    · intro c hc
      rcases mem_joinWith hc with h | ⟨x, hx, hcx⟩
      · right; simpa using h
      · left; exact hmem x (mem_of_mem_dropLast' hx) c hcx
  · refine ⟨joinWith ['.'] (splitOnP (· == '.') filename), ?_, ?_⟩
    · rw [joinWith_append_singleton _ hne]; simp
    · intro c hc
      rcases mem_joinWith hc with h | ⟨x, hx, hcx⟩
      · right; simpa using h
      · left; exact hmem x hx c hcx

theorem replaceOrAddExtension_sym_ok {leaf m : Str} (hl : ∀ c ∈ leaf, isSep c = false) :
    (∀ c ∈ replaceOrAddExtension leaf m sym, isSep c = false) ∧
      replaceOrAddExtension leaf m sym ≠ dotdot := by
  obtain ⟨stem, he, hs⟩ := replaceOrAddExtension_shape leaf m sym
  rw [he]
  constructor
  · intro c hc
    simp only [List.mem_append, List.mem_cons] at hc
    rcases hc with h | rfl | h
    · rcases hs c h with h | rfl
      · exact hl c h
      · decide
    · decide
    · simp [sym] at h
      rcases h with rfl | rfl | rfl <;> decide
  · intro h
    have := congrArg List.length h
    simp [sym, dotdot] at this

/-! ### identifiers: hex digits only -/

/-- the 22 ASCII hex digits -/
def hexChars : List Char := "0123456789abcdefABCDEF".toList

theorem hexU_mem {n : Nat} (h : n < 16) : hexU n ∈ hexChars := by
  have : ∀ n : Fin 16, hexU n.val ∈ hexChars := by decide
  exact this ⟨n, h⟩

theorem hexL_mem {n : Nat} (h : n < 16) : hexL n ∈ hexChars := by
  have : ∀ n : Fin 16, hexL n.val ∈ hexChars := by decide
  exact this ⟨n, h⟩

theorem upperHexByte_mem (b : UInt8) : ∀ c ∈ upperHexByte b, c ∈ hexChars := by
  have hb : b.toNat < 256 := b.toNat_lt
  intro c hc
  simp only [upperHexByte, List.mem_cons, List.not_mem_nil, or_false] at hc
  rcases hc with rfl | rfl
  · exact hexU_mem (by omega)
  · exact hexU_mem (by omega)

theorem lowerHexFuel_mem (fuel n : Nat) (acc : Str) (hacc : ∀ c ∈ acc, c ∈ hexChars) :
    ∀ c ∈ lowerHexFuel fuel n acc, c ∈ hexChars := by
  induction fuel generalizing n acc with
  | zero => simpa [lowerHexFuel] using hacc
  | succ k ih =>
    have hacc' : ∀ c ∈ hexL (n % 16) :: acc, c ∈ hexChars := by
      intro c hc
      rcases List.mem_cons.mp hc with rfl | h
      · exact hexL_mem (by omega)
      · exact hacc c h
    unfold lowerHexFuel
    simp only
    split
    · exact hacc'
    · exact ih _ _ hacc'

theorem lowerHexNat_mem (n : Nat) : ∀ c ∈ lowerHexNat n, c ∈ hexChars :=
  lowerHexFuel_mem _ _ _ (by simp)

theorem lowerHexFuel_ne_nil (fuel n : Nat) (acc : Str) : lowerHexFuel (fuel + 1) n acc ≠ [] := by
  induction fuel generalizing n acc with
  | zero => unfold lowerHexFuel; simp only; split <;> simp [lowerHexFuel]
  | succ k ih =>
    unfold lowerHexFuel; simp only
    split
    · simp
    · exact ih _ _

theorem lowerHexNat_ne_nil (n : Nat) : lowerHexNat n ≠ [] := lowerHexFuel_ne_nil _ _ _

/-- **`DebugId::breakpad()` consists of hex digits only** (for any number of bytes, any appendix) -/
theorem breakpad_hex (d : DebugId) : ∀ c ∈ d.breakpad, c ∈ hexChars := by
  intro c hc
  unfold DebugId.breakpad at hc
  rcases List.mem_append.mp hc with h | h
  · split at h
    all_goals
      obtain ⟨b, _, hb⟩ := List.mem_flatMap.mp h
      exact upperHexByte_mem b c hb
  · exact lowerHexNat_mem _ c h

theorem breakpad_ne_nil (d : DebugId) : d.breakpad ≠ [] := by
  unfold DebugId.breakpad
  intro h
  exact lowerHexNat_ne_nil _ (List.append_eq_nil_iff.mp h).2

/-- an ASCII-range test on a `Char` pins it to one of finitely many characters -/
theorem isAsciiHexDigit_mem {c : Char} (h : isAsciiHexDigit c = true) : c ∈ hexChars := by
  have key : ∀ n : Fin 128, isAsciiHexDigit (Char.ofNat n.val) = true → Char.ofNat n.val ∈ hexChars := by
    decide
  have hlt : c.toNat < 128 := by
    unfold isAsciiHexDigit at h
    simp only [Bool.or_eq_true, decide_eq_true_eq, Char.le_def, UInt32.le_iff_toNat_le] at h
    have e : c.toNat = c.val.toNat := rfl
    have h9 : '9'.val.toNat = 57 := by decide
    have hf : 'f'.val.toNat = 102 := by decide
    have hF : 'F'.val.toNat = 70 := by decide
    rcases h with (h | h) | h <;> omega
  have := key ⟨c.toNat, hlt⟩
  simp only [Char.ofNat_toNat] at this
  exact this h

theorem codeIdNew_mem (s : Str) : ∀ c ∈ codeIdNew s, c ∈ hexChars := by
  intro c hc
  unfold codeIdNew at hc
  obtain ⟨a, ha, rfl⟩ := List.mem_map.mp hc
  have ha' := isAsciiHexDigit_mem (List.mem_filter.mp ha).2
  have : ∀ a ∈ hexChars, a.toLower ∈ hexChars := by decide
  exact this a ha'

theorem codeIdNew_upper_mem (s : Str) : ∀ c ∈ (codeIdNew s).map Char.toUpper, c ∈ hexChars := by
  intro c hc
  obtain ⟨a, ha, rfl⟩ := List.mem_map.mp hc
  have : ∀ a ∈ hexChars, a.toUpper ∈ hexChars := by decide
  exact this a (codeIdNew_mem s a ha)

/-- a string of hex digits has no separator and is not `..` -/
theorem hex_component_ok {w : Str} (h : ∀ c ∈ w, c ∈ hexChars) :
    (∀ c ∈ w, isSep c = false) ∧ w ≠ dotdot ∧ w ≠ ['.'] := by
  have k : ∀ c ∈ hexChars, isSep c = false ∧ c ≠ '.' := by decide
  refine ⟨fun c hc => (k c (h c hc)).1, ?_, ?_⟩
  · intro e
    subst e
    exact (k '.' (h '.' (by simp [dotdot]))).2 rfl
  · intro e
    subst e
    exact (k '.' (h '.' (by simp))).2 rfl

/-! ### `rootedb` decides `Rooted` -/

theorem rootedb_iff (p : Str) : rootedb p = true ↔ Rooted p := by
  unfold rootedb
  constructor
  · intro h
    simp only [Bool.and_eq_true, Bool.not_eq_true', List.contains_eq_mem, decide_eq_false_iff_not] at h
    obtain ⟨⟨h1, h2⟩, h3⟩ := h
    cases p with
    | nil => simp at h1
    | cons c cs =>
      refine ⟨by simp, ?_, h2, h3⟩
      intro d hd
      simp at hd; subst hd
      simpa using h1
  · intro ⟨h1, h2, h3, h4⟩
    cases p with
    | nil => exact absurd rfl h1
    | cons c cs =>
      have := h2 c (by simp)
      simp [this, h3, h4]

/-! ### the shape of every produced path: `leaf/id/file` -/

/-- `p = leaf/id/file` with a safe leaf and separator-free, non-`..` other components -/
def Three (p : Str) : Prop :=
  ∃ leaf id file, p = joinWith slash [leaf, id, file] ∧ SafeLeaf leaf ∧
    (∀ c ∈ id, isSep c = false) ∧ id ≠ dotdot ∧ id ≠ ['.'] ∧
    (∀ c ∈ file, isSep c = false) ∧ file ≠ [] ∧ file ≠ dotdot ∧ file ≠ ['.']

theorem Three.rooted {p : Str} (h : Three p) : Rooted p := by
  obtain ⟨leaf, id, file, rfl, hl, hi, hi2, _, hf, _, hf2, _⟩ := h
  exact rooted_three hl hi hi2 hf hf2

theorem Three.ne_nil {p : Str} (h : Three p) : p ≠ [] := h.rooted.nonempty

/-- `moz_lookup`'s edit (drop the last character, append `_`) keeps the shape -/
theorem Three.moz {p : Str} (h : Three p) : Three (p.dropLast ++ ['_']) := by
  obtain ⟨leaf, id, file, rfl, hl, hi, hi2, hi3, hf, hfne, _, _⟩ := h
  refine ⟨leaf, id, file.dropLast ++ ['_'], ?_, hl, hi, hi2, hi3, ?_, by simp, ?_, ?_⟩
  · rw [joinWith3, joinWith3]
    have : leaf ++ slash ++ (id ++ slash ++ file) = (leaf ++ slash ++ (id ++ slash)) ++ file := by
      simp [List.append_assoc]
    rw [this, List.dropLast_append_of_ne_nil hfne]
    simp [List.append_assoc]
  · intro c hc
    rcases List.mem_append.mp hc with h | h
    · exact hf c (mem_of_mem_dropLast' h)
    · simp at h; subst h; decide
  · intro h
    have h2 := congrArg List.getLast? h
    simp [dotdot] at h2
  · intro h
    have h2 := congrArg List.getLast? h
    simp at h2

theorem SafeLeaf.three_leaf {leaf last id : Str} (hl : SafeLeaf leaf) (hl2 : SafeLeaf last)
    (hid : ∀ c ∈ id, c ∈ hexChars) : Three (joinWith slash [leaf, id, last]) :=
  ⟨leaf, id, last, rfl, hl, (hex_component_ok hid).1, (hex_component_ok hid).2.1,
    (hex_component_ok hid).2.2, hl2.nosep,
    hl2.nonempty, hl2.not_dotdot, hl2.not_dot⟩

theorem SafeLeaf.three_ext {leaf id m : Str} (hl : SafeLeaf leaf) (hid : ∀ c ∈ id, c ∈ hexChars) :
    Three (joinWith slash [leaf, id, replaceOrAddExtension leaf m sym]) := by
  have h := replaceOrAddExtension_sym_ok (m := m) hl.nosep
  obtain ⟨stem, he, _⟩ := replaceOrAddExtension_shape leaf m sym
  refine ⟨leaf, id, _, rfl, hl, (hex_component_ok hid).1, (hex_component_ok hid).2.1,
    (hex_component_ok hid).2.2, h.1, ?_, h.2, ?_⟩
  · rw [he]; simp
  · rw [he]; intro e
    have := congrArg List.length e
    simp [sym] at this

/-! ### `join_lookup_path`: percent-encoding -/

theorem pctEncodeByte_facts : ∀ n : Fin 256,
    (∀ c ∈ pctEncodeByte (UInt8.ofNat n.val), c ∈ urlSegChars) ∧
    (keepRaw (UInt8.ofNat n.val) = true →
      Char.ofNat n.val ≠ '%' ∧ UInt8.ofNat (Char.ofNat n.val).toNat = UInt8.ofNat n.val) ∧
    Proto.hexDigitVal (hexU (n.val / 16)) = some (n.val / 16) ∧
    Proto.hexDigitVal (hexU (n.val % 16)) = some (n.val % 16) := by
  decide +kernel

theorem UInt8.ofNat_toNat' (b : UInt8) : UInt8.ofNat b.toNat = b := by simp

theorem pctEncodeByte_chars (b : UInt8) : ∀ c ∈ pctEncodeByte b, c ∈ urlSegChars := by
  have := (pctEncodeByte_facts ⟨b.toNat, b.toNat_lt⟩).1
  simpa using this

/-- every character of an encoded component is an ASCII letter, digit, one of
    `- . _ ~ ! $ & ' ( ) * + , ; = : @`, or `%` -/
theorem pctEncode_chars (w : Str) : ∀ c ∈ pctEncode w, c ∈ urlSegChars := by
  intro c hc
  obtain ⟨b, _, hb⟩ := List.mem_flatMap.mp hc
  exact pctEncodeByte_chars b c hb

theorem pctDecode_cons_ne (c : Char) (rest : Str) (h : c ≠ '%') :
    pctDecode (c :: rest) = UInt8.ofNat c.toNat :: pctDecode rest := by
  conv => lhs; unfold pctDecode
  simp [h]

theorem pctDecode_pct (a b : Char) (rest : Str) (x y : Nat) (ha : Proto.hexDigitVal a = some x)
    (hb : Proto.hexDigitVal b = some y) :
    pctDecode ('%' :: a :: b :: rest) = UInt8.ofNat (x * 16 + y) :: pctDecode rest := by
  conv => lhs; unfold pctDecode
  simp [ha, hb]

theorem pctDecode_encodeByte (b : UInt8) (rest : Str) :
    pctDecode (pctEncodeByte b ++ rest) = b :: pctDecode rest := by
  have hf := pctEncodeByte_facts ⟨b.toNat, b.toNat_lt⟩
  simp only [UInt8.ofNat_toNat'] at hf
  obtain ⟨_, hk, hhi, hlo⟩ := hf
  unfold pctEncodeByte
  cases hkb : keepRaw b with
  | true =>
    obtain ⟨h1, h2⟩ := hk hkb
    simp only [if_true, List.cons_append, List.nil_append]
    rw [pctDecode_cons_ne _ _ h1, h2]
  | false =>
    simp only [Bool.false_eq_true, if_false, List.cons_append, List.nil_append]
    rw [pctDecode_pct _ _ _ _ _ hhi hlo]
    have : b.toNat / 16 * 16 + b.toNat % 16 = b.toNat := by omega
    rw [this]; simp

/-- decoding an encoded byte string gives the bytes back -/
theorem pctDecode_flatMap (bs : List UInt8) : pctDecode (bs.flatMap pctEncodeByte) = bs := by
  induction bs with
  | nil => simp [pctDecode]
  | cons b bs ih => rw [List.flatMap_cons, pctDecode_encodeByte, ih]

/-- **round trip**: the percent-decoded segment is the UTF-8 of the component -/
theorem pctDecode_pctEncode (w : Str) : pctDecode (pctEncode w) = utf8 w :=
  pctDecode_flatMap _

end MdModel.Paths
