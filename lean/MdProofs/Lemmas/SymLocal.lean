/-
  Line locality of the record parsers of `MdModel.SymLine`: run on `l ++ "\n" ++ s` (with `l`
  newline-free) every parser's answer depends on `l` only — an "inner" parser leaves
  `l' ++ "\n" ++ s` (a suffix of the line, newline still there), a "final" parser (one that ends
  in `my_eol`) leaves exactly `s`.
-/
import MdModel.SymLine
namespace MdModel.Sym
open MdModel

/-! ### list facts -/

theorem takeWhile_line (p : UInt8 → Bool) (hp : p NL = false) (l s : Bytes) (hl : NL ∉ l) :
    (l ++ NL :: s).takeWhile p = l.takeWhile p := by
  induction l with
  | nil => simp [List.takeWhile, hp]
  | cons b rest ih =>
    have hr : NL ∉ rest := fun e => hl (by simp [e])
    simp only [List.cons_append, List.takeWhile]
    cases p b <;> simp [ih hr]

theorem dropWhile_line (p : UInt8 → Bool) (hp : p NL = false) (l s : Bytes) (hl : NL ∉ l) :
    (l ++ NL :: s).dropWhile p = l.dropWhile p ++ NL :: s := by
  induction l with
  | nil => simp [List.dropWhile, hp]
  | cons b rest ih =>
    have hr : NL ∉ rest := fun e => hl (by simp [e])
    simp only [List.cons_append, List.dropWhile]
    cases p b <;> simp [ih hr]

theorem take_takeWhile_line (p : UInt8 → Bool) (hp : p NL = false) (n : Nat) (l s : Bytes) (hl : NL ∉ l) :
    ((l ++ NL :: s).take n).takeWhile p = (l.take n).takeWhile p := by
  induction l generalizing n with
  | nil => cases n <;> simp [List.takeWhile, hp]
  | cons b rest ih =>
    have hr : NL ∉ rest := fun e => hl (by simp [e])
    cases n with
    | zero => simp
    | succ m =>
      simp only [List.cons_append, List.take_succ_cons, List.takeWhile]
      cases p b <;> simp [ih m hr]

theorem isPrefixOf_line (k l s : Bytes) (hk : NL ∉ k) (hl : NL ∉ l) :
    k.isPrefixOf (l ++ NL :: s) = k.isPrefixOf l := by
  induction k generalizing l with
  | nil => simp
  | cons a k' ih =>
    have hk' : NL ∉ k' := fun e => hk (by simp [e])
    have ha : a ≠ NL := fun e => hk (by simp [e])
    cases l with
    | nil => simp [List.isPrefixOf, ha]
    | cons b rest =>
      have hr : NL ∉ rest := fun e => hl (by simp [e])
      simp only [List.cons_append, List.isPrefixOf, ih rest hk' hr]

theorem isPrefixOf_length {k l : Bytes} (h : k.isPrefixOf l = true) : k.length ≤ l.length := by
  have := List.isPrefixOf_iff_prefix.mp h
  exact this.length_le

theorem drop_line (k : Nat) (l s : Bytes) (h : k ≤ l.length) :
    (l ++ NL :: s).drop k = l.drop k ++ NL :: s := List.drop_append_of_le_length h

theorem not_mem_drop {l : Bytes} (k : Nat) (h : NL ∉ l) : NL ∉ l.drop k :=
  fun e => h (List.mem_of_mem_drop e)

theorem not_mem_dropWhile {l : Bytes} (p : UInt8 → Bool) (h : NL ∉ l) : NL ∉ l.dropWhile p :=
  fun e => h ((List.dropWhile_suffix p).subset e)

theorem length_dropWhile_le (p : UInt8 → Bool) (l : Bytes) : (l.dropWhile p).length ≤ l.length :=
  (List.dropWhile_suffix p).length_le

/-! ### the two locality classes -/

/-- looks at the current line only, consumes none of its newline -/
def Inner {α} (p : P α) : Prop := ∀ l, NL ∉ l →
  (∃ l' v, NL ∉ l' ∧ l'.length ≤ l.length ∧ ∀ s, p (l ++ NL :: s) = .ok (l' ++ NL :: s) v) ∨
  (∀ s, p (l ++ NL :: s) = .error) ∨ (∀ s, p (l ++ NL :: s) = .failure)

/-- looks at the current line only and consumes exactly it (newline included) when it succeeds -/
def Final {α} (p : P α) : Prop := ∀ l, NL ∉ l →
  (∃ v, ∀ s, p (l ++ NL :: s) = .ok s v) ∨
  (∀ s, p (l ++ NL :: s) = .error) ∨ (∀ s, p (l ++ NL :: s) = .failure)

theorem Inner.pure {α} (v : α) : Inner (P.pure v) := fun l hl =>
  Or.inl ⟨l, v, hl, Nat.le_refl _, fun _ => rfl⟩

theorem Inner.bind {α β} {p : P α} {f : α → P β} (hp : Inner p) (hf : ∀ v, Inner (f v)) :
    Inner (p.bind f) := by
  intro l hl
  rcases hp l hl with ⟨l', v, hl', hlen, h⟩ | h | h
  · rcases hf v l' hl' with ⟨l2, w, hl2, hlen2, h2⟩ | h2 | h2
    · exact Or.inl ⟨l2, w, hl2, by omega, fun s => by simp only [P.bind, h s, h2 s]⟩
    · exact Or.inr (Or.inl fun s => by simp only [P.bind, h s, h2 s])
    · exact Or.inr (Or.inr fun s => by simp only [P.bind, h s, h2 s])
  · exact Or.inr (Or.inl fun s => by simp only [P.bind, h s])
  · exact Or.inr (Or.inr fun s => by simp only [P.bind, h s])

theorem Final.bind {α β} {p : P α} {f : α → P β} (hp : Inner p) (hf : ∀ v, Final (f v)) :
    Final (p.bind f) := by
  intro l hl
  rcases hp l hl with ⟨l', v, hl', _, h⟩ | h | h
  · rcases hf v l' hl' with ⟨w, h2⟩ | h2 | h2
    · exact Or.inl ⟨w, fun s => by simp only [P.bind, h s, h2 s]⟩
    · exact Or.inr (Or.inl fun s => by simp only [P.bind, h s, h2 s])
    · exact Or.inr (Or.inr fun s => by simp only [P.bind, h s, h2 s])
  · exact Or.inr (Or.inl fun s => by simp only [P.bind, h s])
  · exact Or.inr (Or.inr fun s => by simp only [P.bind, h s])

/-- post-processing a final parser's value -/
theorem Final.map {α β} {p : P α} (g : α → P β) (hp : Final p) (hg : ∀ v, ∃ w, ∀ i, g v i = .ok i w) :
    Final (p.bind g) := by
  intro l hl
  rcases hp l hl with ⟨v, h⟩ | h | h
  · obtain ⟨w, hw⟩ := hg v
    exact Or.inl ⟨w, fun s => by simp only [P.bind, h s, hw s]⟩
  · exact Or.inr (Or.inl fun s => by simp only [P.bind, h s])
  · exact Or.inr (Or.inr fun s => by simp only [P.bind, h s])

theorem Inner.terminated {α β} {p : P α} {q : P β} (hp : Inner p) (hq : Inner q) :
    Inner (terminated p q) :=
  Inner.bind hp fun v => Inner.bind hq fun _ => Inner.pure v

theorem Final.terminated {α β} {p : P α} {q : P β} (hp : Inner p) (hq : Final q) :
    Final (terminated p q) :=
  Final.bind hp fun v => Final.map _ hq fun _ => ⟨v, fun _ => rfl⟩

theorem Inner.cut {α} {p : P α} (hp : Inner p) : Inner (cut p) := by
  intro l hl
  rcases hp l hl with ⟨l', v, hl', hlen, h⟩ | h | h
  · exact Or.inl ⟨l', v, hl', hlen, fun s => by simp only [Sym.cut, h s]⟩
  · exact Or.inr (Or.inr fun s => by simp only [Sym.cut, h s])
  · exact Or.inr (Or.inr fun s => by simp only [Sym.cut, h s])

theorem Final.cut {α} {p : P α} (hp : Final p) : Final (cut p) := by
  intro l hl
  rcases hp l hl with ⟨v, h⟩ | h | h
  · exact Or.inl ⟨v, fun s => by simp only [Sym.cut, h s]⟩
  · exact Or.inr (Or.inr fun s => by simp only [Sym.cut, h s])
  · exact Or.inr (Or.inr fun s => by simp only [Sym.cut, h s])

theorem Inner.opt {α} {p : P α} (hp : Inner p) : Inner (opt p) := by
  intro l hl
  rcases hp l hl with ⟨l', v, hl', hlen, h⟩ | h | h
  · exact Or.inl ⟨l', some v, hl', hlen, fun s => by simp only [Sym.opt, h s]⟩
  · exact Or.inl ⟨l, none, hl, Nat.le_refl _, fun s => by simp only [Sym.opt, h s]⟩
  · exact Or.inr (Or.inr fun s => by simp only [Sym.opt, h s])

theorem Inner.mapRes {α β} {p : P α} (f : α → Option β) (hp : Inner p) : Inner (mapRes p f) := by
  intro l hl
  rcases hp l hl with ⟨l', v, hl', hlen, h⟩ | h | h
  · cases hv : f v with
    | some w => exact Or.inl ⟨l', w, hl', hlen, fun s => by simp only [Sym.mapRes, h s, hv]⟩
    | none => exact Or.inr (Or.inl fun s => by simp only [Sym.mapRes, h s, hv])
  · exact Or.inr (Or.inl fun s => by simp only [Sym.mapRes, h s])
  · exact Or.inr (Or.inr fun s => by simp only [Sym.mapRes, h s])

theorem Inner.utf8 {p : P Bytes} (hp : Inner p) : Inner (utf8 p) := Inner.mapRes _ hp

theorem Final.orElse {α} {p q : P α} (hp : Final p) (hq : Final q) : Final (orElse p q) := by
  intro l hl
  rcases hp l hl with ⟨v, h⟩ | h | h
  · exact Or.inl ⟨v, fun s => by simp only [Sym.orElse, h s]⟩
  · rcases hq l hl with ⟨v, h2⟩ | h2 | h2
    · exact Or.inl ⟨v, fun s => by simp only [Sym.orElse, h s, h2 s]⟩
    · exact Or.inr (Or.inl fun s => by simp only [Sym.orElse, h s, h2 s])
    · exact Or.inr (Or.inr fun s => by simp only [Sym.orElse, h s, h2 s])
  · exact Or.inr (Or.inr fun s => by simp only [Sym.orElse, h s])

/-! ### primitives -/

theorem Inner.tag (k : Bytes) (hk : NL ∉ k) : Inner (tag k) := by
  intro l hl
  by_cases h : k.isPrefixOf l = true
  · refine Or.inl ⟨l.drop k.length, (), not_mem_drop _ hl, by simp, fun s => ?_⟩
    simp only [Sym.tag, isPrefixOf_line k l s hk hl, h, if_true]
    rw [drop_line _ _ _ (isPrefixOf_length h)]
  · exact Or.inr (Or.inl fun s => by simp only [Sym.tag, isPrefixOf_line k l s hk hl, h]; rfl)

theorem Inner.takeWhileP (p : UInt8 → Bool) (hp : p NL = false) : Inner (takeWhileP p) := by
  intro l hl
  refine Or.inl ⟨l.dropWhile p, l.takeWhile p, not_mem_dropWhile p hl, length_dropWhile_le p l, fun s => ?_⟩
  simp only [Sym.takeWhileP, takeWhile_line p hp l s hl, dropWhile_line p hp l s hl]

theorem takeWhile1P_line (p : UInt8 → Bool) (hp : p NL = false) (l : Bytes) (hl : NL ∉ l) :
    (l.takeWhile p ≠ [] ∧ (l.dropWhile p).length < l.length ∧
      ∀ s, takeWhile1P p (l ++ NL :: s) = .ok (l.dropWhile p ++ NL :: s) (l.takeWhile p)) ∨
    (∀ s, takeWhile1P p (l ++ NL :: s) = .error) := by
  by_cases h : (l.takeWhile p).isEmpty = true
  · exact Or.inr fun s => by simp only [Sym.takeWhile1P, takeWhile_line p hp l s hl, h, if_true]
  · have hne : l.takeWhile p ≠ [] := fun e => h (by simp [e])
    refine Or.inl ⟨hne, ?_, fun s => ?_⟩
    · have h1 : (l.takeWhile p ++ l.dropWhile p).length = l.length := by rw [List.takeWhile_append_dropWhile]
      have : 0 < (l.takeWhile p).length := List.length_pos_iff.mpr hne
      simp only [List.length_append] at h1; omega
    · simp only [Sym.takeWhile1P, takeWhile_line p hp l s hl, dropWhile_line p hp l s hl, h]
      rfl

theorem Inner.takeWhile1P (p : UInt8 → Bool) (hp : p NL = false) : Inner (takeWhile1P p) := by
  intro l hl
  rcases takeWhile1P_line p hp l hl with ⟨_, hlt, h⟩ | h
  · exact Or.inl ⟨_, _, not_mem_dropWhile p hl, by omega, h⟩
  · exact Or.inr (Or.inl h)

theorem Inner.space1 : Inner space1 := Inner.takeWhile1P _ (by decide)
theorem Inner.hexDigit1 : Inner hexDigit1 := Inner.takeWhile1P _ (by decide)
theorem Inner.nonSpace : Inner nonSpace := Inner.takeWhileP _ (by decide)
theorem Inner.notMyEol : Inner notMyEol := Inner.takeWhileP _ (by decide)

theorem Inner.single (p : UInt8 → Bool) (hp : p NL = false) : Inner (single p) := by
  intro l hl
  cases l with
  | nil => exact Or.inr (Or.inl fun s => by simp [Sym.single, hp])
  | cons b rest =>
    have hr : NL ∉ rest := fun e => hl (by simp [e])
    by_cases hb : p b = true
    · exact Or.inl ⟨rest, b, hr, by simp, fun s => by simp [Sym.single, hb]⟩
    · exact Or.inr (Or.inl fun s => by simp [Sym.single, hb])

theorem Inner.hexStr (n : Nat) : Inner (hexStr n) := by
  intro l hl
  have hlen : ((l.take n).takeWhile isHexDigit).length ≤ l.length :=
    Nat.le_trans (List.takeWhile_prefix _).length_le (by simp; omega)
  by_cases h : ((l.take n).takeWhile isHexDigit).isEmpty = true
  · exact Or.inr (Or.inl fun s => by
      simp only [Sym.hexStr, take_takeWhile_line isHexDigit (by decide) n l s hl, h, if_true])
  · refine Or.inl ⟨l.drop ((l.take n).takeWhile isHexDigit).length, hexVal ((l.take n).takeWhile isHexDigit),
      not_mem_drop _ hl, by simp, fun s => ?_⟩
    simp only [Sym.hexStr, take_takeWhile_line isHexDigit (by decide) n l s hl, h]
    rw [drop_line _ _ _ hlen]; rfl

theorem Inner.decimalU32 : Inner decimalU32 := by
  intro l hl
  have hlen : ((l.take 10).takeWhile isDigit).length ≤ l.length :=
    Nat.le_trans (List.takeWhile_prefix _).length_le (by simp; omega)
  by_cases h : ((l.take 10).takeWhile isDigit).isEmpty = true
  · exact Or.inr (Or.inl fun s => by
      simp only [Sym.decimalU32, take_takeWhile_line isDigit (by decide) 10 l s hl, h, if_true])
  · by_cases h2 : decVal ((l.take 10).takeWhile isDigit) > U32MAX
    · exact Or.inr (Or.inl fun s => by
        simp only [Sym.decimalU32, take_takeWhile_line isDigit (by decide) 10 l s hl, h, h2, if_true]; rfl)
    · refine Or.inl ⟨l.drop ((l.take 10).takeWhile isDigit).length, decVal ((l.take 10).takeWhile isDigit),
        not_mem_drop _ hl, by simp, fun s => ?_⟩
      simp only [Sym.decimalU32, take_takeWhile_line isDigit (by decide) 10 l s hl, h, h2]
      rw [drop_line _ _ _ hlen]; rfl

/-- `tag "\n"` at the end of a line -/
theorem Final.tagNL : Final (tag [NL]) := by
  intro l hl
  cases l with
  | nil => exact Or.inl ⟨(), fun s => by simp [Sym.tag, List.isPrefixOf]⟩
  | cons b rest =>
    have hb : NL ≠ b := fun e => hl (by simp [e])
    exact Or.inr (Or.inl fun s => by simp [Sym.tag, List.isPrefixOf, hb])

theorem Final.myEol : Final myEol :=
  Final.bind (Inner.takeWhileP _ (by decide)) fun _ => Final.tagNL


/-! ### the record parsers -/

theorem Inner.keyword (w : String) (h : NL ∉ kw w) : Inner (keyword w) :=
  Inner.terminated (Inner.tag _ h) Inner.space1

/-- the last field of a record: `terminated(field, my_eol)` followed by building the value -/
theorem Final.lastField {α β} {p : P α} (g : α → β) (hp : Inner p) :
    Final ((Sym.terminated p Sym.myEol).bind fun v => P.pure (g v)) :=
  Final.map _ (Final.terminated hp Final.myEol) fun v => ⟨g v, fun _ => rfl⟩

macro "loc" : tactic => `(tactic| repeat (first
  | apply Final.lastField
  | exact Final.myEol | exact Inner.space1 | exact Inner.hexDigit1 | exact Inner.nonSpace
  | exact Inner.notMyEol | exact Inner.decimalU32 | exact Inner.hexStr _ | exact Inner.pure _
  | exact Inner.single _ (by decide)
  | exact Inner.tag _ (by decide)
  | exact Inner.keyword _ (by decide)
  | apply Final.cut | apply Inner.cut | apply Inner.opt | apply Inner.utf8
  | apply Inner.terminated
  | apply Final.bind | apply Inner.bind
  | intro _))

theorem Final.moduleLine : Final moduleLine := by unfold Sym.moduleLine; loc
theorem Final.infoUrl : Final infoUrl := by unfold Sym.infoUrl; loc
theorem Final.infoLine : Final infoLine := by unfold Sym.infoLine; loc
theorem Final.fileLine : Final fileLine := by unfold Sym.fileLine; loc
theorem Final.inlineOriginLine : Final inlineOriginLine := by unfold Sym.inlineOriginLine; loc
theorem Final.publicLine : Final publicLine := by unfold Sym.publicLine; loc
theorem Final.funcLineData : Final funcLineData := by unfold Sym.funcLineData; loc
theorem Final.funcLine : Final funcLine := by unfold Sym.funcLine; loc
theorem Final.stackWinLine : Final stackWinLine := by unfold Sym.stackWinLine; loc
theorem Final.stackCfi : Final stackCfi := by unfold Sym.stackCfi; loc
theorem Final.stackCfiInit : Final stackCfiInit := by unfold Sym.stackCfiInit; loc

theorem Inner.inlineAddressRange : Inner inlineAddressRange := by unfold Sym.inlineAddressRange; loc

/-- the loop of `separated_list1`: with enough fuel for the current line its answer depends on the
    line only (never `Error`: the loop stops and keeps what it has). -/
theorem sepListLoop_line : ∀ (n : Nat) (l : Bytes), l.length ≤ n → NL ∉ l → ∀ acc,
    (∃ l' v, NL ∉ l' ∧ l'.length ≤ l.length ∧
      ∀ s fuel, n + 1 ≤ fuel → sepListLoop fuel acc (l ++ NL :: s) = .ok (l' ++ NL :: s) v) ∨
    (∀ s fuel, n + 1 ≤ fuel → sepListLoop fuel acc (l ++ NL :: s) = .failure) := by
  intro n
  induction n with
  | zero =>
    intro l hlen hl acc
    have : l = [] := List.eq_nil_of_length_eq_zero (by omega)
    subst this
    left
    refine ⟨[], acc.reverse, by simp, by simp, fun s fuel hf => ?_⟩
    cases fuel with
    | zero => omega
    | succ f => simp [sepListLoop, Sym.space1, Sym.takeWhile1P, List.takeWhile, isSpaceTab, NL, SP, TAB]
  | succ m ih =>
    intro l hlen hl acc
    rcases takeWhile1P_line isSpaceTab (by decide) l hl with ⟨_, hlt, hsp⟩ | hsp
    · -- a separator was found: try another element
      have hl1 : NL ∉ l.dropWhile isSpaceTab := not_mem_dropWhile _ hl
      rcases Inner.inlineAddressRange (l.dropWhile isSpaceTab) hl1 with ⟨l2, o, hl2, hlen2, h2⟩ | h2 | h2
      · rcases ih l2 (by omega) hl2 (o :: acc) with ⟨l3, v, hl3, hlen3, h3⟩ | h3
        · left
          refine ⟨l3, v, hl3, by omega, fun s fuel hf => ?_⟩
          cases fuel with
          | zero => omega
          | succ f =>
            simp only [sepListLoop]
            rw [show Sym.space1 = takeWhile1P isSpaceTab from rfl, hsp s]
            simp only [h2 s]
            exact h3 s f (by omega)
        · right
          intro s fuel hf
          cases fuel with
          | zero => omega
          | succ f =>
            simp only [sepListLoop]
            rw [show Sym.space1 = takeWhile1P isSpaceTab from rfl, hsp s]
            simp only [h2 s]
            exact h3 s f (by omega)
      · left
        refine ⟨l, acc.reverse, hl, Nat.le_refl _, fun s fuel hf => ?_⟩
        cases fuel with
        | zero => omega
        | succ f =>
          simp only [sepListLoop]
          rw [show Sym.space1 = takeWhile1P isSpaceTab from rfl, hsp s]
          simp only [h2 s]
      · right
        intro s fuel hf
        cases fuel with
        | zero => omega
        | succ f =>
          simp only [sepListLoop]
          rw [show Sym.space1 = takeWhile1P isSpaceTab from rfl, hsp s]
          simp only [h2 s]
    · left
      refine ⟨l, acc.reverse, hl, Nat.le_refl _, fun s fuel hf => ?_⟩
      cases fuel with
      | zero => omega
      | succ f =>
        simp only [sepListLoop]
        rw [show Sym.space1 = takeWhile1P isSpaceTab from rfl, hsp s]

theorem Inner.separatedList1 : Inner separatedList1 := by
  intro l hl
  rcases Inner.inlineAddressRange l hl with ⟨l1, o, hl1, hlen1, h1⟩ | h1 | h1
  · rcases sepListLoop_line l1.length l1 (Nat.le_refl _) hl1 [o] with ⟨l2, v, hl2, hlen2, h2⟩ | h2
    · refine Or.inl ⟨l2, v, hl2, by omega, fun s => ?_⟩
      simp only [Sym.separatedList1, h1 s]
      exact h2 s _ (by simp)
    · refine Or.inr (Or.inr fun s => ?_)
      simp only [Sym.separatedList1, h1 s]
      exact h2 s _ (by simp)
  · exact Or.inr (Or.inl fun s => by simp only [Sym.separatedList1, h1 s])
  · exact Or.inr (Or.inr fun s => by simp only [Sym.separatedList1, h1 s])

theorem Final.inlineLine : Final inlineLine := by
  unfold Sym.inlineLine
  apply Final.bind (Inner.keyword _ (by decide))
  intro _
  apply Final.bind
  · loc
  · intro x
    obtain ⟨d, cl, cf, o⟩ := x
    apply Final.map
    · exact Final.cut (Final.terminated Inner.separatedList1 Final.myEol)
    · intro v; exact ⟨_, fun _ => rfl⟩

/-- `line` (the top-level `alt`) -/
theorem Final.line : Final line := by
  unfold Sym.line
  refine Final.orElse Final.infoUrl (Final.orElse Final.infoLine (Final.orElse Final.fileLine
    (Final.orElse ?_ (Final.orElse Final.publicLine (Final.orElse Final.funcLine
    (Final.orElse Final.stackWinLine (Final.orElse Final.stackCfiInit Final.moduleLine)))))))
  apply Final.map _ Final.inlineOriginLine
  intro v; obtain ⟨i, f⟩ := v; exact ⟨_, fun _ => rfl⟩

end MdModel.Sym
