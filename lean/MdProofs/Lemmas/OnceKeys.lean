/-
  C12 helper lemmas: module keys (`module_key`, the table's name `keyIx` of a key) and the slot
  numbering of the request-level model (the three kinds of slots never collide; each is injective in
  its arguments; `slotSup` decodes them).
-/
import MdModel.OnceReq
namespace MdModel.Once
open MdModel

/-! ## module keys -/

theorem codeStr_eq_iff (a b : CodeFile) :
    a.str = b.str ↔ a = b ∨ ((a = .absent ∨ a = .empty) ∧ (b = .absent ∨ b = .empty)) := by
  cases a <;> cases b <;> simp [CodeFile.str]

theorem moduleKey_eq_iff (m₁ m₂ : ModId) :
    moduleKey m₁ = moduleKey m₂ ↔
      m₁.codeFile.str = m₂.codeFile.str ∧ m₁.codeId = m₂.codeId ∧
      m₁.debugFile = m₂.debugFile ∧ m₁.debugId = m₂.debugId := by
  simp [moduleKey, Prod.ext_iff]

theorem keyIx_of_lt {mods : List ModId} {m : Nat} (h : m < mods.length) :
    keyIx mods m = mods.findIdx fun y => decide (moduleKey y = moduleKey mods[m]) := by
  simp [keyIx, List.getElem?_eq_getElem h]

theorem keyIx_lt {mods : List ModId} {m : Nat} (h : m < mods.length) :
    keyIx mods m < mods.length := by
  rw [keyIx_of_lt h]
  apply List.findIdx_lt_length_of_exists
  exact ⟨mods[m], List.getElem_mem h, by simp⟩

theorem keyIx_key {mods : List ModId} {m : Nat} (h : m < mods.length) :
    moduleKey (mods[keyIx mods m]'(keyIx_lt h)) = moduleKey mods[m] := by
  have hlt := keyIx_lt h
  have := List.findIdx_getElem (p := fun y => decide (moduleKey y = moduleKey mods[m])) (xs := mods)
    (w := by rw [← keyIx_of_lt h]; exact hlt)
  simp only [decide_eq_true_eq] at this
  simp only [keyIx_of_lt h]
  exact this

theorem keyIx_le {mods : List ModId} {m : Nat} (h : m < mods.length) : keyIx mods m ≤ m := by
  rw [keyIx_of_lt h]
  apply Nat.le_of_not_lt
  intro hlt
  have := List.not_of_lt_findIdx hlt
  simp at this

/-- two modules of the table get the same name iff `module_key` gives them the same key -/
theorem keyIx_eq_iff {mods : List ModId} {i j : Nat} (hi : i < mods.length) (hj : j < mods.length) :
    keyIx mods i = keyIx mods j ↔ moduleKey mods[i] = moduleKey mods[j] := by
  constructor
  · intro h
    have h1 := keyIx_key hi
    have h2 := keyIx_key hj
    rw [← h1, ← h2]
    congr 1
    simp only [h]
  · intro h
    rw [keyIx_of_lt hi, keyIx_of_lt hj, h]

theorem keyIx_idem {mods : List ModId} {m : Nat} (h : m < mods.length) :
    keyIx mods (keyIx mods m) = keyIx mods m := by
  have hlt := keyIx_lt h
  rw [keyIx_of_lt hlt, keyIx_key h, ← keyIx_of_lt h]

/-! ## slot numbering -/

theorem pair_div {M a b : Nat} (hb : b < M) : (a * M + b) / M = a := by
  have hM : 0 < M := by omega
  rw [Nat.add_comm, Nat.add_mul_div_right _ _ hM, Nat.div_eq_of_lt hb]; omega

theorem pair_mod {M a b : Nat} (hb : b < M) : (a * M + b) % M = b := by
  rw [Nat.add_comm, Nat.add_mul_mod_self_right, Nat.mod_eq_of_lt hb]

theorem pair_inj {M a b a' b' : Nat} (hb : b < M) (hb' : b' < M) (h : a * M + b = a' * M + b') :
    a = a' ∧ b = b' := by
  have h1 := pair_div (a := a) hb
  have h2 := pair_mod (a := a) hb
  rw [h] at h1 h2
  rw [pair_div hb'] at h1
  rw [pair_mod hb'] at h2
  exact ⟨h1.symm, h2.symm⟩

theorem symSlot_mod (rc : RCfg) (p k : Nat) : symSlot rc p k % 4 = 0 := by
  unfold symSlot; omega
theorem fileSlot_mod (rc : RCfg) (p k fk : Nat) : fileSlot rc p k fk % 4 = 1 := by
  unfold fileSlot; omega
theorem privSlot_mod (rc : RCfg) (t j p : Nat) : privSlot rc t j p % 4 = 2 := by
  unfold privSlot; omega

theorem symSlot_div (rc : RCfg) (p k : Nat) : symSlot rc p k / 4 = p * rc.M + k := by
  unfold symSlot; omega
theorem fileSlot_div (rc : RCfg) (p k fk : Nat) : fileSlot rc p k fk / 4 = (p * rc.M + k) * 3 + fk := by
  unfold fileSlot; omega
theorem privSlot_div (rc : RCfg) (t j p : Nat) : privSlot rc t j p / 4 = (j * rc.T + t) * rc.P + p := by
  unfold privSlot; omega

/-- the three kinds of slots never collide -/
theorem sym_ne_file (rc : RCfg) (p k p' k' fk : Nat) : symSlot rc p k ≠ fileSlot rc p' k' fk := by
  intro h; have := symSlot_mod rc p k; rw [h, fileSlot_mod] at this; omega
theorem sym_ne_priv (rc : RCfg) (p k t j p' : Nat) : symSlot rc p k ≠ privSlot rc t j p' := by
  intro h; have := symSlot_mod rc p k; rw [h, privSlot_mod] at this; omega
theorem file_ne_priv (rc : RCfg) (p k fk t j p' : Nat) : fileSlot rc p k fk ≠ privSlot rc t j p' := by
  intro h; have := fileSlot_mod rc p k fk; rw [h, privSlot_mod] at this; omega

/-- distinct (provider, key) have distinct `symbols` slots -/
theorem symSlot_inj {rc : RCfg} {p k p' k' : Nat} (hk : k < rc.M) (hk' : k' < rc.M)
    (h : symSlot rc p k = symSlot rc p' k') : p = p' ∧ k = k' := by
  have h' : p * rc.M + k = p' * rc.M + k' := by
    have h1 := symSlot_div rc p k; rw [h, symSlot_div] at h1; exact h1.symm
  exact pair_inj hk hk' h'

theorem fileSlot_inj {rc : RCfg} {p k fk p' k' fk' : Nat} (hk : k < rc.M) (hk' : k' < rc.M)
    (hf : fk < 3) (hf' : fk' < 3) (h : fileSlot rc p k fk = fileSlot rc p' k' fk') :
    p = p' ∧ k = k' ∧ fk = fk' := by
  have h' : (p * rc.M + k) * 3 + fk = (p' * rc.M + k') * 3 + fk' := by
    have h1 := fileSlot_div rc p k fk; rw [h, fileSlot_div] at h1; exact h1.symm
  have h3 := pair_inj hf hf' h'
  have h4 := pair_inj hk hk' h3.1
  exact ⟨h4.1, h4.2, h3.2⟩

theorem privSlot_inj {rc : RCfg} {t j p t' j' p' : Nat} (ht : t < rc.T) (ht' : t' < rc.T)
    (hp : p < rc.P) (hp' : p' < rc.P) (h : privSlot rc t j p = privSlot rc t' j' p') :
    t = t' ∧ j = j' ∧ p = p' := by
  have h' : (j * rc.T + t) * rc.P + p = (j' * rc.T + t') * rc.P + p' := by
    have h1 := privSlot_div rc t j p; rw [h, privSlot_div] at h1; exact h1.symm
  have h3 := pair_inj hp hp' h'
  have h4 := pair_inj ht ht' h3.1
  exact ⟨h4.2, h4.1, h3.2⟩

/-- `slotSup` decodes the slots -/
theorem slotSup_sym (rc : RCfg) {p k : Nat} (hk : k < rc.M) :
    slotSup rc (symSlot rc p k) = (rc.prov p).sym k := by
  simp only [slotSup, symSlot_mod, symSlot_div, pair_div hk, pair_mod hk]

theorem slotSup_file (rc : RCfg) {p k fk : Nat} (hk : k < rc.M) (hf : fk < 3) :
    slotSup rc (fileSlot rc p k fk) = (rc.prov p).file k fk := by
  simp only [slotSup, fileSlot_mod, fileSlot_div, pair_div hf, pair_mod hf, pair_div hk, pair_mod hk]

theorem slotSup_priv (rc : RCfg) {t j p : Nat} (ht : t < rc.T) (hp : p < rc.P) {fk m : Nat}
    (hq : (rc.prog t)[j]? = some ⟨.file fk, m⟩) :
    slotSup rc (privSlot rc t j p) = (rc.prov p).file (rc.key m) fk := by
  simp only [slotSup, privSlot_mod, privSlot_div, pair_div hp, pair_mod hp, pair_div ht, pair_mod ht,
    hq]

theorem isSym_symSlot (rc : RCfg) {p p' k : Nat} (hk : k < rc.M) :
    isSym rc p' (symSlot rc p k) = decide (p = p') := by
  simp only [isSym, symSlot_mod, symSlot_div, pair_div hk]
  by_cases h : p = p' <;> simp [h]

theorem isSym_fileSlot (rc : RCfg) (p' p k fk : Nat) : isSym rc p' (fileSlot rc p k fk) = false := by
  simp [isSym, fileSlot_mod]

theorem isSym_privSlot (rc : RCfg) (p' t j p : Nat) : isSym rc p' (privSlot rc t j p) = false := by
  simp [isSym, privSlot_mod]

end MdModel.Once
