/-
  C06 inside the stack-walk environment, part 3: the `cfi stack` protocol entry of C06's model
  (`MdModel.Cfi.stackFrame` = two `walkFrame`s + `stackGlue`) taken apart, for
  `MdProofs.C06Env.stack_entry_eq_walker`.
-/
import MdProofs.Lemmas.CfiEnv
namespace MdModel.CfiBridge
open MdModel

/-- the driver's panic-explicit `stack` entry is the pure one (no panic outcome) -/
theorem stackFrameO_eq (r : Cfi.CfiRec) (base : Nat) (w : Cfi.Walker) (spN ipN : Cfi.Name) (sp : Nat)
    (leaf : Bool) (strip : Option UInt64) :
    Cfi.stackFrameO r base w spN ipN sp leaf strip = .ok (Cfi.stackFrame r base w spN ipN sp leaf strip) := by
  unfold Cfi.stackFrameO Cfi.stackFrame
  split
  · rfl
  · rw [Cfi.walkFrameO_eq]
    cases Cfi.walkFrame r base w with
    | none => rfl
    | some c0 =>
      simp only
      cases c0.cfa with
      | none => rfl
      | some cfa =>
        cases c0.ra with
        | none => rfl
        | some ra =>
          simp only
          rw [Cfi.walkFrameO_eq]
          cases Cfi.walkFrame r base { w with fwd := Cfi.storeCfaRa spN ipN w.fwd cfa ra } <;> rfl

/-- `ptr_auth_strip` on a value -/
def stripV (strip : Option UInt64) (v : UInt64) : UInt64 :=
  match strip with
  | none => v
  | some m => v &&& m

/-- … on a register of the caller: only `fp` and `lr` -/
def regStrip (strip : Option UInt64) (n : Cfi.Name) (v : UInt64) : UInt64 :=
  match strip with
  | none => v
  | some m => if n = Cfi.nFp || n = Cfi.nLr then v &&& m else v

/-- `stackGlue` on a caller with CFA and return address, stack pointer inside the stack memory -/
theorem stackGlue_spec (w : Cfi.Walker) (sp : Nat) (leaf : Bool) (strip : Option UInt64) (cfa ra : UInt64)
    (regs : List (Cfi.Name × UInt64))
    (hin : (w.mem.isEmpty || decide (w.memBase + w.mem.length > U64MAX) || decide (sp < w.memBase)
              || decide (sp > w.memBase + w.mem.length - 1)) = false) :
    Cfi.stackGlue w sp leaf strip (some ⟨some cfa, some ra, regs⟩) =
      if (stripV strip ra).toNat < 4096 then none
      else if (decide (cfa.toNat ≤ sp) && !(leaf && cfa.toNat == sp)) = true then none
      else some ⟨some cfa, some (stripV strip ra), regs.map fun p => (p.1, regStrip strip p.1 p.2)⟩ := by
  unfold Cfi.stackGlue
  rw [if_neg (by rw [hin]; exact Bool.false_ne_true)]
  cases strip with
  | none =>
    simp only [stripV, regStrip]
    have : (regs.map fun p => (p.1, p.2)) = regs := by simp
    rw [this]
    rfl
  | some m =>
    simp only [stripV, regStrip, Option.map_some]
    have : (regs.map fun x => match x with
        | (n, v) => if (decide (n = Cfi.nFp) || decide (n = Cfi.nLr)) = true then (n, v &&& m) else (n, v)) =
        regs.map fun p => (p.1, if (decide (p.1 = Cfi.nFp) || decide (p.1 = Cfi.nLr)) = true then p.2 &&& m else p.2) := by
      apply List.map_congr_left
      intro p _
      obtain ⟨n, v⟩ := p
      simp only
      split <;> rfl
    rw [this]
    rfl

theorem stackGlue_out (w : Cfi.Walker) (sp : Nat) (leaf : Bool) (strip : Option UInt64) (r : Option Cfi.Caller)
    (hout : (w.mem.isEmpty || decide (w.memBase + w.mem.length > U64MAX) || decide (sp < w.memBase)
              || decide (sp > w.memBase + w.mem.length - 1)) = true) :
    Cfi.stackGlue w sp leaf strip r = none := by
  unfold Cfi.stackGlue
  rw [if_pos hout]

/-- the memory test of `stackGlue` is `walk_stack`'s in-range test on the walker model's memory -/
theorem glue_range (mem : Walk.Mem) (sp : Nat) :
    (mem.bytes.toList.isEmpty || decide (mem.base + mem.bytes.toList.length > U64MAX) || decide (sp < mem.base)
        || decide (sp > mem.base + mem.bytes.toList.length - 1)) = !mem.inRange sp := by
  unfold Walk.Mem.inRange Walk.Mem.range? Walk.Mem.size
  simp only [Array.length_toList]
  by_cases h0 : mem.bytes.size = 0
  · have : mem.bytes.toList.isEmpty = true := by
      rw [List.isEmpty_iff]; exact Array.toList_eq_nil_iff.mpr (Array.eq_empty_of_size_eq_zero h0)
    simp [this, h0]
  · have : mem.bytes.toList.isEmpty = false := by
      cases hl : mem.bytes.toList with
      | nil => exact absurd (by rw [← Array.length_toList, hl]; rfl) h0
      | cons _ _ => rfl
    simp only [this, h0, if_false, Bool.false_or]
    by_cases h1 : mem.base + mem.bytes.size > U64MAX
    · simp [h1]
    · simp only [h1, decide_false, if_false, Bool.false_or]
      by_cases h2 : sp < mem.base
      · have : ¬ mem.base ≤ sp := by omega
        simp [h2, this]
      · have h2' : mem.base ≤ sp := by omega
        by_cases h3 : sp > mem.base + mem.bytes.size - 1
        · have : ¬ sp ≤ mem.base + mem.bytes.size - 1 := by omega
          simp [h2, h3, this]
        · have : sp ≤ mem.base + mem.bytes.size - 1 := by omega
          simp [h2, h2', h3, this]

theorem lookupName_map_snd {α β} (l : List (Cfi.Name × α)) (g : Cfi.Name → α → β) (k : Cfi.Name) :
    Cfi.lookupName (l.map fun p => (p.1, g p.1 p.2)) k = (Cfi.lookupName l k).map (g k) := by
  induction l with
  | nil => rfl
  | cons p t ih =>
    obtain ⟨n, v⟩ := p
    rw [List.map_cons, Cfi.lookupName_cons, Cfi.lookupName_cons]
    by_cases h : n = k
    · subst h; simp
    · simp only [h, if_false]; exact ih

theorem ite_sub_le (c : Prop) [Decidable c] (p : Nat) (h : c → p ≤ U64MAX) :
    (if c then p - 1 else U64MAX) ≤ U64MAX := by
  split
  · rename_i hc; have := h hc; omega
  · exact Nat.le_refl _

theorem ptrAuthMask_le (w : Walk.World) (mtbl : List RangeMap.Entry) (bits : Nat) :
    Walk.ptrAuthMask w mtbl bits ≤ U64MAX := by
  unfold Walk.ptrAuthMask
  simp only
  exact ite_sub_le _ _ (fun h => h.2)

theorem mkEnv_mask_lt (arch : Walk.Arch) (os : Walk.Os) (w : Walk.World) (mem : Walk.Mem) :
    (Walk.mkEnv arch os w mem).mask < 2 ^ 64 := by
  have := ptrAuthMask_le w (Walk.modTable w.mods)
    (if arch = .arm64old then Walk.Consts.arm64old_ptrauth_bits else Walk.Consts.arm64_ptrauth_bits)
  show Walk.ptrAuthMask _ _ _ < _
  simp only [U64MAX] at this
  omega

/-- the strip value of a `stack` case: ARM64's mask, nothing elsewhere -/
def stripOf (a : Walk.Arch) (mask : Nat) : Option UInt64 := if isArm64 a then some (UInt64.ofNat mask) else none

theorem nameOf_fp : Cfi.nFp = utf8 "fp" := by decide
theorem nameOf_lr : Cfi.nLr = utf8 "lr" := by decide

/-- the sp / ip names the `stack` entry uses for its three architectures are the walker model's -/
theorem spIpOfArch_eq :
    Cfi.spIpOfArch "x86" = some (utf8 Walk.Arch.x86.spName, utf8 Walk.Arch.x86.ipName) ∧
    Cfi.spIpOfArch "amd64" = some (utf8 Walk.Arch.amd64.spName, utf8 Walk.Arch.amd64.ipName) ∧
    Cfi.spIpOfArch "arm64" = some (utf8 Walk.Arch.arm64.spName, utf8 Walk.Arch.arm64.ipName) := by decide

theorem stripV_paMask (a : Walk.Arch) (mask : Nat) (hm : mask < 2 ^ 64) (v : UInt64) :
    (stripV (stripOf a mask) v).toNat = paMask a mask a.ipName v.toNat := by
  unfold stripOf paMask stripV
  cases hia : isArm64 a with
  | false => simp
  | true =>
    have hip : a.ipName = "pc" := by cases a <;> first | rfl | exact absurd hia (by decide)
    simp [hip, UInt64.toNat_and, u64_toNat_ofNat_lt mask hm]

theorem regStrip_paMask (a : Walk.Arch) (mask : Nat) (hm : mask < 2 ^ 64) (s : String) (hs : s ≠ a.ipName)
    (v : UInt64) : (regStrip (stripOf a mask) (utf8 s) v).toNat = paMask a mask s v.toNat := by
  unfold stripOf paMask regStrip
  cases hia : isArm64 a with
  | false => simp
  | true =>
    have hip : a.ipName = "pc" := by cases a <;> first | rfl | exact absurd hia (by decide)
    rw [hip] at hs
    simp only [if_true, Bool.true_and, nameOf_fp, nameOf_lr]
    by_cases h1 : s = "fp"
    · subst h1; simp [UInt64.toNat_and, u64_toNat_ofNat_lt mask hm]
    · by_cases h2 : s = "lr"
      · subst h2; simp [UInt64.toNat_and, u64_toNat_ofNat_lt mask hm]
      · have e1 : ¬ utf8 s = utf8 "fp" := fun e => h1 (utf8_inj e)
        have e2 : ¬ utf8 s = utf8 "lr" := fun e => h2 (utf8_inj e)
        simp [e1, e2, hs, h1, h2]

end MdModel.CfiBridge
