/-
  Helper lemmas for C04, chains whose technique changes from frame to frame (part 4): the
  frame-pointer and scan steps and the generated end of the stack for the six context kinds /
  modes other than x86, from `MView` and `PreW`'s own link predicates (`linkFp`, `linkScanM`,
  `endMixed`); the dispatcher `step_arch_mixed` and the chain `walkLoop_arch_chain`.
-/
import MdProofs.Lemmas.WalkMixedView
import MdProofs.Lemmas.WalkFpWin
set_option linter.unusedSimpArgs false
namespace MdModel.Walk
open MdModel

/-! ### alias names the ARM unwinders use -/

theorem has_arm_r11 (c : Ctx) : c.has .arm "r11" = c.has .arm "fp" := by
  unfold Ctx.has; cases c.valid <;> simp [Arch.canon, Arch.aliases, Arch.registers]
theorem has_arm_r13 (c : Ctx) : c.has .arm "r13" = c.has .arm "sp" := by
  unfold Ctx.has; cases c.valid <;> simp [Arch.canon, Arch.aliases, Arch.registers]
theorem has_arm64_x29 {a : Arch} (ha : a = .arm64 ∨ a = .arm64old) (c : Ctx) : c.has a "x29" = c.has a "fp" := by
  unfold Ctx.has; rcases ha with rfl | rfl <;> cases c.valid <;> simp [Arch.canon, Arch.aliases, Arch.registers]

theorem raw_arm_r11 (c : Ctx) : c.raw .arm "r11" = c.raw .arm "fp" := rfl
theorem raw_arm_r13 (c : Ctx) : c.raw .arm "r13" = c.sp := rfl
theorem raw_arm64_x29 {a : Arch} (ha : a = .arm64 ∨ a = .arm64old) (c : Ctx) : c.raw a "x29" = c.raw a "fp" := by
  rcases ha with rfl | rfl <;> rfl

namespace MView
variable {w : World} {a : Arch} {f : Frame} {st : MState} (hv : MView w a f st)
include hv

theorem fp_some {b : Nat} (hb : st.fp = some b) : f.ctx.has a a.fpName = true ∧ f.ctx.raw a a.fpName = b := by
  have h := hv.fp
  rw [hb] at h
  by_cases hl : f.ctx.has a a.fpName = true
  · simp only [hl, if_true, Option.some.injEq] at h
    exact ⟨hl, h.symm⟩
  · simp [hl] at h

theorem fp_none (hb : st.fp = none) : f.ctx.has a a.fpName = false := by
  have h := hv.fp
  rw [hb] at h
  by_cases hl : f.ctx.has a a.fpName = true
  · simp [hl] at h
  · simpa using hl

theorem m64_false (ha : a ≠ .mips64) : f.ctx.m64 = false := by
  rw [hv.m64]; cases a <;> simp_all

/-- the stack pointer as `get_register` reads it -/
theorem get_sp : f.ctx.get a a.spName = some st.sp := by
  have := get_of_has hv.vsp (by rw [raw_spName, hv.sp]; exact hv.spmax)
  rw [this, raw_spName, hv.sp]

theorem fpView {b : Nat} (hx : a ≠ .x86) (hm : a.isMips = false) (hb : st.fp = some b) : FpView a f.ctx st.sp b := by
  obtain ⟨h1, h2⟩ := hv.fp_some hb
  have hsp := hv.vsp
  have hm64 : f.ctx.m64 = false := hv.m64_false (by intro h; rw [h] at hm; cases hm)
  cases a <;> simp only [Arch.isMips, Bool.true_eq_false] at hm
  · exact absurd rfl hx
  · refine ⟨hv.sp, h2, hm64, ?_, ?_⟩
    · rw [← has_eq_hasLit (a := .amd64) (by simp) f.ctx (by decide)]; exact h1
    · rw [← has_eq_hasLit (a := .amd64) (by simp) f.ctx (by decide)]; exact hsp
  · exact ⟨hv.sp, h2, hm64, by rw [has_arm_r11]; exact h1, by rw [has_arm_r13]; exact hsp⟩
  · exact ⟨hv.sp, h2, hm64, by rw [has_arm64_x29 (Or.inl rfl)]; exact h1, hsp⟩
  · exact ⟨hv.sp, h2, hm64, by rw [has_arm64_x29 (Or.inr rfl)]; exact h1, hsp⟩

end MView

/-! ### `mkEnvW` off x86: STACK WIN records are without effect -/

theorem effArch_ne_x86 {a : Arch} (ha : a ≠ .x86) (c : Ctx) : effArch a c ≠ .x86 := by
  unfold effArch
  cases a <;> simp_all [Arch.isMips] <;> split <;> simp

theorem mkEnvW_cfi_arch {a : Arch} (ha : a ≠ .x86) (os : Os) (w : World) (wins : List (List Win.Rec)) (mem : Mem)
    (f : Frame) (g : Option Frame) :
    (mkEnvW a os w wins mem).cfi f g =
      cfiOf a w (modTable w.mods) (cfiTables w) (mkEnvW a os w wins mem).mask mem f g := by
  simp only [mkEnvW, cfiOfW, if_neg (effArch_ne_x86 ha f.ctx)]

/-! ### frames found by the frame pointer -/

theorem fpFrame_is {a : Arch} {e : Exp} (ha : a = .amd64 ∨ a = .arm ∨ a = .arm64 ∨ a = .arm64old)
    (hfp : e.fp.isSome = true) (hregs : e.regs.isEmpty = true) (hspm : e.sp ≤ a.regMax) (hretm : e.ret ≤ a.regMax)
    (hfpm : ∀ v, e.fp = some v → v ≤ a.regMax) :
    FrameIsA a .fp e (fpFrame a e) := by
  obtain ⟨v, hv⟩ := Option.isSome_iff_exists.mp hfp
  have hr : e.regs = [] := by simpa using hregs
  have hregs' : ∀ p ∈ e.regs, (fpFrame a e).ctx.has a p.1 = true ∧ (fpFrame a e).ctx.raw a p.1 = p.2 ∧ p.2 ≤ a.regMax := by
    intro p hp; rw [hr] at hp; cases hp
  have hfpf : e.fp = if (fpFrame a e).ctx.has a a.fpName then some ((fpFrame a e).ctx.raw a a.fpName) else none := by
    rcases ha with rfl | rfl | rfl | rfl <;>
      simp [fpFrame, Ctx.has, Arch.aliases, Arch.fpName, Ctx.raw, Arch.canon, Arch.registers, Arch.ipName,
        Arch.spName, assocGet, hv]
  have hvip : (fpFrame a e).ctx.has a a.ipName = true := by
    rcases ha with rfl | rfl | rfl | rfl <;> simp [fpFrame, Ctx.has, Arch.aliases, Arch.ipName]
  have hvsp : (fpFrame a e).ctx.has a a.spName = true := by
    rcases ha with rfl | rfl | rfl | rfl <;> simp [fpFrame, Ctx.has, Arch.aliases, Arch.spName]
  rcases ha with rfl | rfl | rfl | rfl <;>
    exact ⟨rfl, rfl, rfl, rfl, rfl, hvip, hvsp, hfpf, hregs', hspm, hretm, hfpm⟩

/-- **one frame through a frame-pointer record** (x86-64 incl. the Windows probe, ARM on iOS, ARM64) -/
theorem step_fp_arch {env : Env} {a : Arch} {w : World} {mem : Mem} {f : Frame} {g : Option Frame}
    {st : MState} {e : Exp} {f0 : Nat} (hx : a ≠ .x86) (harch : env.arch = a) (hcfi : env.cfi f g = none)
    (hv : MView w a f st) (hfp : st.fp = some f0)
    (hl : linkFp a env.os env.mask mem st.sp f0 e = true)
    (hregs : e.regs.isEmpty = true) (hspm : e.sp ≤ a.regMax) (hretm : e.ret ≤ a.regMax) :
    ∃ f', step env mem f g = some f' ∧ FrameIsA a .fp e f' := by
  have hsome : e.fp.isSome = true := by
    simp only [linkFp, Bool.and_eq_true] at hl
    exact hl.1.1.1
  have hfpm : ∀ v, e.fp = some v → v ≤ a.regMax := by
    intro v hev
    have hl' := hl
    simp only [linkFp, hev, Option.getD_some, Bool.and_eq_true, beq_iff_eq] at hl'
    cases a <;> simp only [Bool.and_eq_true, beq_iff_eq, Bool.false_eq_true, and_false] at hl'
    · exact read_le_regMax (a := .x86) hl'.2.1.2
    · exact read_le_regMax (a := .amd64) hl'.2.1.1.1.1.1.2
    · exact read_le_regMax (a := .arm) hl'.2.1.1.2
    · exact read_le_regMax (a := .arm64) hl'.2.1.1.1.1.1.2
    · exact read_le_regMax (a := .arm64old) hl'.2.1.1.1.1.1.2
  rw [step_noCfiEnv hcfi]
  have hcfi' : ∀ f g, (noCfiEnv env).cfi f g = none := fun _ _ => rfl
  have harch' : (noCfiEnv env).arch = a := harch
  cases a
  · exact absurd rfl hx
  · -- amd64
    have hview := hv.fpView hx rfl hfp
    refine ⟨fpFrame .amd64 e, ?_, fpFrame_is (by simp) hsome hregs hspm hretm hfpm⟩
    by_cases hos : env.os = .windows
    · exact step_fp_amd64_win (env := noCfiEnv env) harch' hos hcfi' hview hl
    · exact step_fp_amd64 (env := noCfiEnv env) harch' hos hcfi' hview hl
  · exact ⟨fpFrame .arm e, step_fp_arm (env := noCfiEnv env) harch' hcfi' (hv.fpView hx rfl hfp) hl,
      fpFrame_is (by simp) hsome hregs hspm hretm hfpm⟩
  · exact ⟨fpFrame .arm64 e, step_fp_arm64 (env := noCfiEnv env) (Or.inl rfl) harch' hcfi' (hv.fpView hx rfl hfp) hl,
      fpFrame_is (by simp) hsome hregs hspm hretm hfpm⟩
  · exact ⟨fpFrame .arm64old e, step_fp_arm64 (env := noCfiEnv env) (Or.inr rfl) harch' hcfi' (hv.fpView hx rfl hfp) hl,
      fpFrame_is (by simp) hsome hregs hspm hretm hfpm⟩
  · simp [linkFp] at hl
  · simp [linkFp] at hl

/-! ### frames found by scanning -/

/-- `PreW`'s scan link, read for the scan loop: `k` readable words that are not valid instructions
    from the start of the scan, then the return address; no frame pointer is recovered off x86 -/
theorem linkScanM_spec {env : Env} {a : Arch} {mem : Mem} {st : MState} {e : Exp} (hx : a ≠ .x86)
    (h : linkScanM env a mem st e = true) :
    ∃ k, e.sp = scanStart a st.sp st.first + k * a.ptr + a.ptr ∧ k < scanWin a st.first ∧
      e.sp ≤ a.regMax ∧
      (∀ j, j < k → ∃ w, mem.read (scanStart a st.sp st.first + j * a.ptr) a.ptr = some w ∧
        instrValid env a w = false) ∧
      mem.read (scanStart a st.sp st.first + k * a.ptr) a.ptr = some e.ret ∧ instrValid env a e.ret = true ∧
      e.fp = none ∧ e.regs = [] := by
  obtain ⟨instr, ip, sp, fp, lr, first, gcp, regs⟩ := st
  unfold linkScanM at h
  simp only [hx, false_and, if_false, Bool.and_eq_true, decide_eq_true_eq, beq_iff_eq, List.all_eq_true,
    List.mem_range, List.isEmpty_iff] at h
  obtain ⟨⟨⟨⟨⟨⟨⟨⟨h1, h2⟩, h3⟩, h4⟩, h5⟩, h6⟩, h7⟩, h8⟩, h9⟩ := h
  refine ⟨(e.sp - a.ptr - scanStart a sp first) / a.ptr, h2, ?_, h4, ?_, h6, h7, h8, h9⟩
  · unfold scanWin
    cases a <;> cases first <;> exact h3
  · intro j hj
    have := h5 j hj
    split at this
    · rename_i w hw
      exact ⟨w, hw, by simpa using this⟩
    · cases this

/-- what `fpDead` says off x86 -/
theorem fpDead_spec {a : Arch} {os : Os} {mem : Mem} {fp : Option Nat} (h : fpDead a os mem fp = true) :
    hasFpTech a os = false ∨ fp = none ∨ (fp = some 0 ∧ ¬ (a = .arm ∧ os = .ios) ∧ 16 < mem.base) := by
  simp only [fpDead, Bool.or_eq_true, Bool.not_eq_true', Option.isNone_iff_eq_none, Bool.and_eq_true,
    beq_iff_eq, decide_eq_true_eq] at h
  rcases h with (h | h) | ⟨⟨h1, h2⟩, h3⟩
  · exact Or.inl h
  · exact Or.inr (Or.inl h)
  · refine Or.inr (Or.inr ⟨h1, ?_, h3⟩)
    intro hc
    simp [hc.1, hc.2] at h2

/-- the frame a scan produces satisfies the assertion of a scanned frame -/
theorem scanFrame_is {a : Arch} {e : Exp} {f : Frame} {V : List String} {R : List (String × Nat)}
    (hf : f = { ctx := { ip := e.ret, sp := e.sp, rest := R, valid := some V, m64 := (a == .mips64) },
                trust := .scan, instruction := e.ret - a.adj })
    (hV : V = [a.ipName, a.spName] ∨ (a = .arm ∧ V = ["r15", "r13"]))
    (hfp : e.fp = none) (hregs : e.regs = []) (hspm : e.sp ≤ a.regMax) (hretm : e.ret ≤ a.regMax) :
    FrameIsA a .scan e f := by
  subst hf
  have hregs' : ∀ p ∈ e.regs, Ctx.has a ({ ip := e.ret, sp := e.sp, rest := R, valid := some V, m64 := (a == .mips64) } : Ctx) p.1 = true ∧
      Ctx.raw a ({ ip := e.ret, sp := e.sp, rest := R, valid := some V, m64 := (a == .mips64) } : Ctx) p.1 = p.2 ∧ p.2 ≤ a.regMax := by
    intro p hp; rw [hregs] at hp; cases hp
  refine ⟨rfl, rfl, rfl, rfl, rfl, ?_, ?_, ?_, hregs', hspm, hretm, by intro v hv; rw [hfp] at hv; cases hv⟩
  · rcases hV with rfl | ⟨rfl, rfl⟩
    · cases a <;> simp [Ctx.has, Arch.aliases, Arch.ipName, Arch.spName]
    · simp [Ctx.has, Arch.aliases, Arch.ipName]
  · rcases hV with rfl | ⟨rfl, rfl⟩
    · cases a <;> simp [Ctx.has, Arch.aliases, Arch.ipName, Arch.spName]
    · simp [Ctx.has, Arch.aliases, Arch.spName]
  · rw [hfp]
    have : Ctx.has a ({ ip := e.ret, sp := e.sp, rest := R, valid := some V, m64 := (a == .mips64) } : Ctx) a.fpName = false := by
      rcases hV with rfl | ⟨rfl, rfl⟩
      · cases a <;> simp [Ctx.has, Arch.aliases, Arch.ipName, Arch.spName, Arch.fpName]
      · simp [Ctx.has, Arch.aliases, Arch.fpName]
    simp [this]

theorem scanWindow_of64 {a : Arch} {t : Trust} {first : Bool} (ha : a.plainScan64 = true)
    (h : first = true ↔ t = .context) : scanWindow a t = scanWin a first := by
  cases first
  · have : t ≠ .context := fun hh => by have := h.mpr hh; cases this
    cases a <;> simp only [Arch.plainScan64, Bool.false_eq_true] at ha <;> cases t <;>
      first | rfl | exact absurd rfl this
  · have : t = .context := h.mp rfl
    subst this
    cases a <;> simp only [Arch.plainScan64, Bool.false_eq_true] at ha <;> rfl

/-- **one frame found by scanning**, ARM64 (both layouts) and MIPS64 -/
theorem step_scan64M {env : Env} {a : Arch} {w : World} {mem : Mem} {f : Frame} {g : Option Frame}
    {st : MState} {e : Exp} (ha : a.plainScan64 = true) (harch : env.arch = a)
    (hcfi : ∀ f g, env.cfi f g = none) (hv : MView w a f st)
    (hdead : fpDead a env.os mem st.fp = true) (hl : linkScanM env a mem st e = true)
    (hret : 4096 ≤ e.ret) (hretm : e.ret ≤ a.regMax) :
    ∃ f', step env mem f g = some f' ∧ FrameIsA a .scan e f' := by
  have hx : a ≠ .x86 := by intro h; rw [h] at ha; cases ha
  obtain ⟨k, hes, hk, hemax, hrej, hacc, hok, hefp, heregs⟩ := linkScanM_spec hx hl
  have hp : a.ptr = 8 := by cases a <;> simp [Arch.plainScan64] at ha <;> rfl
  have hstart : scanStart a st.sp st.first = st.sp := by
    unfold scanStart
    rw [if_neg]
    intro hh; rw [hh.1] at ha; cases ha
  have hmax : a.regMax = U64MAX := by cases a <;> simp [Arch.plainScan64] at ha <;> rfl
  rw [hstart, hp] at hes hrej hacc
  rw [hmax] at hemax
  have heff := hv.eff
  have hget : f.ctx.get a "sp" = some st.sp := by
    have := hv.get_sp
    cases a <;> simp only [Arch.plainScan64, Bool.false_eq_true] at ha <;> exact this
  have hscan : scanFrom (instrValid env a) mem 8 U64MAX st.sp (scanWindow a f.trust) 0 =
      some (k, st.sp + k * 8, e.ret) := by
    rw [scanWindow_of64 ha hv.trust]
    exact scanFrom_first hrej hacc hok (by omega) _ 0 (Nat.zero_le _) (by omega)
  have hnot : ¬ (st.sp + k * 8 + 8 > U64MAX) := by omega
  -- the frame-pointer technique yields nothing
  have hbf : byFp env a mem f.ctx = none := by
    cases a <;> simp only [Arch.plainScan64, Bool.false_eq_true] at ha
    · refine byFp_none_arm64 (Or.inl rfl) hget ?_
      rcases fpDead_spec hdead with h | h | ⟨h, _, _⟩
      · simp [hasFpTech] at h
      · exact Or.inl (by rw [get_none_of_has]; rw [has_arm64_x29 (Or.inl rfl)]; exact hv.fp_none h)
      · obtain ⟨h1, h2⟩ := hv.fp_some h
        right
        have hh : f.ctx.has .arm64 "x29" = true := by rw [has_arm64_x29 (Or.inl rfl)]; exact h1
        have hr : f.ctx.raw .arm64 "x29" = 0 := h2
        simp [Ctx.get, hh, hr]
    · refine byFp_none_arm64 (Or.inr rfl) hget ?_
      rcases fpDead_spec hdead with h | h | ⟨h, _, _⟩
      · simp [hasFpTech] at h
      · exact Or.inl (by rw [get_none_of_has]; rw [has_arm64_x29 (Or.inr rfl)]; exact hv.fp_none h)
      · obtain ⟨h1, h2⟩ := hv.fp_some h
        right
        have hh : f.ctx.has .arm64old "x29" = true := by rw [has_arm64_x29 (Or.inr rfl)]; exact h1
        have hr : f.ctx.raw .arm64old "x29" = 0 := h2
        simp [Ctx.get, hh, hr]
    · rfl
  have hlt : f.ctx.sp < e.sp := by rw [hv.sp]; omega
  cases a <;> simp only [Arch.plainScan64, Bool.false_eq_true] at ha
  · refine ⟨{ ctx := { ip := e.ret, sp := e.sp, rest := [], valid := some ["pc", "sp"] }, trust := .scan,
              instruction := e.ret - 4 }, ?_, scanFrame_is rfl (Or.inl rfl) hefp heregs (by rw [hmax]; exact hemax) hretm⟩
    unfold step
    simp only [harch, heff, candidate, hcfi, hbf, byScan, scanArm64, hget, hscan, if_neg hnot]
    simp [epilogue, nullish_eq, Arch.adj, Consts.adj_arm64, hes]
    omega
  · refine ⟨{ ctx := { ip := e.ret, sp := e.sp, rest := [], valid := some ["pc", "sp"] }, trust := .scan,
              instruction := e.ret - 4 }, ?_, scanFrame_is rfl (Or.inl rfl) hefp heregs (by rw [hmax]; exact hemax) hretm⟩
    unfold step
    simp only [harch, heff, candidate, hcfi, hbf, byScan, scanArm64, hget, hscan, if_neg hnot]
    simp [epilogue, nullish_eq, Arch.adj, Consts.adj_arm64old, hes]
    omega
  · have hm : f.ctx.m64 = true := by rw [hv.m64]; rfl
    refine ⟨{ ctx := { ip := e.ret, sp := e.sp, rest := [], valid := some ["pc", "sp"], m64 := true }, trust := .scan,
              instruction := e.ret - 8 }, ?_, scanFrame_is rfl (Or.inl rfl) hefp heregs (by rw [hmax]; exact hemax) hretm⟩
    unfold step
    simp only [harch, heff, candidate, hcfi, byFp, byScan, scanMips64, hget]
    have hw : Consts.mips_max_stack / Consts.ptr_mips64 = scanWindow .mips64 f.trust := by
      cases f.trust <;> rfl
    rw [hw, hscan]
    simp only [if_neg hnot]
    simp [epilogue, nullish_eq, Arch.adj, Consts.adj_mips, hes, hm]
    omega

theorem scanWindow_of32 {a : Arch} {t : Trust} {first : Bool} (ha : a = .amd64 ∨ a = .arm)
    (h : first = true ↔ t = .context) : scanWindow a t = scanWin a first := by
  refine scanWindow_of (a := a) ?_ ⟨h.mpr, h.mp⟩
  rcases ha with rfl | rfl <;> simp

theorem byFp_dead_amd64 {env : Env} {mem : Mem} {c : Ctx}
    (h : c.hasLit "rbp" = false ∨ (c.raw .amd64 "rbp" = 0 ∧ 16 < mem.base)) : byFp env .amd64 mem c = none := by
  rcases h with h | ⟨h, hb⟩
  · simp [byFp, fpAmd64, h]
  · exact byFp_zero_amd64 hb h

theorem scanBpAmd64_dead {mem : Mem} {lastBp : Option Nat} {i a : Nat}
    (hlb : lastBp = none ∨ (lastBp = some 0 ∧ 16 < mem.base))
    (hi : i = 0 ∨ ∃ w, mem.read (a - 8) 8 = some w) :
    scanBpAmd64 mem lastBp i a (a + 8) = some none := by
  unfold scanBpAmd64
  rcases hlb with h | ⟨h, hb⟩ <;> subst h
  · rfl
  · simp only
    by_cases h0 : i = 0
    · rw [if_pos h0]
    · rw [if_neg h0]
      rcases hi with hi | ⟨w, hw⟩
      · exact absurd hi h0
      · have := read_some_ge hw
        simp only [hw]
        rw [if_neg (by omega), if_neg (by omega)]

/-- what the x86-64 unwinders see of a frame whose frame pointer is dead -/
theorem MView.rbp_dead {w : World} {f : Frame} {st : MState} {os : Os} {mem : Mem} (hv : MView w .amd64 f st)
    (hdead : fpDead .amd64 os mem st.fp = true) :
    (f.ctx.hasLit "rbp" = false ∧ st.fp = none) ∨
      (f.ctx.hasLit "rbp" = true ∧ f.ctx.raw .amd64 "rbp" = 0 ∧ st.fp = some 0 ∧ 16 < mem.base) := by
  have hh : f.ctx.has .amd64 "rbp" = f.ctx.hasLit "rbp" := has_eq_hasLit (by simp) f.ctx (by decide)
  rcases fpDead_spec hdead with h | h | ⟨h, _, hb⟩
  · simp [hasFpTech] at h
  · left; exact ⟨by rw [← hh]; exact hv.fp_none h, h⟩
  · right
    obtain ⟨h1, h2⟩ := hv.fp_some h
    exact ⟨by rw [← hh]; exact h1, h2, h, hb⟩

/-- **one frame found by scanning**, x86-64 (the callee's `%rbp` invalid or 0: nothing is recovered) -/
theorem step_scan_amd64M {env : Env} {w : World} {mem : Mem} {f : Frame} {g : Option Frame}
    {st : MState} {e : Exp} (harch : env.arch = .amd64)
    (hcfi : ∀ f g, env.cfi f g = none) (hv : MView w .amd64 f st)
    (hdead : fpDead .amd64 env.os mem st.fp = true) (hl : linkScanM env .amd64 mem st e = true)
    (hret : 4096 ≤ e.ret) (hretm : e.ret ≤ Arch.amd64.regMax) :
    ∃ f', step env mem f g = some f' ∧ FrameIsA .amd64 .scan e f' := by
  obtain ⟨k, hes, hk, hemax, hrej, hacc, hok, hefp, heregs⟩ := linkScanM_spec (by decide) hl
  have hstart : scanStart .amd64 st.sp st.first = st.sp := by simp [scanStart]
  have hp : Arch.amd64.ptr = 8 := rfl
  rw [hstart, hp] at hes hrej hacc
  have hemax' : e.sp ≤ U64MAX := hemax
  have hrsp : f.ctx.hasLit "rsp" = true := by
    rw [← has_eq_hasLit (a := .amd64) (by simp) f.ctx (by decide)]; exact hv.vsp
  have hscan : scanFrom (instrValid env .amd64) mem 8 U64MAX f.ctx.sp (scanWindow .amd64 f.trust) 0 =
      some (k, st.sp + k * 8, e.ret) := by
    rw [hv.sp, scanWindow_of32 (Or.inl rfl) hv.trust]
    exact scanFrom_first hrej hacc hok (by omega) _ 0 (Nat.zero_le _) (by omega)
  have hd := hv.rbp_dead hdead
  have hbf : byFp env .amd64 mem f.ctx = none := by
    apply byFp_dead_amd64
    rcases hd with ⟨h, _⟩ | ⟨_, h, _, hb⟩
    · exact Or.inl h
    · exact Or.inr ⟨h, hb⟩
  have hbpn : scanBpAmd64 mem (if f.ctx.hasLit "rbp" = true then some (f.ctx.raw .amd64 "rbp") else none) k
      (st.sp + k * 8) (st.sp + k * 8 + 8) = some none := by
    apply scanBpAmd64_dead
    · rcases hd with ⟨h, _⟩ | ⟨h1, h2, _, hb⟩
      · simp [h]
      · right; simp [h1, h2, hb]
    · by_cases hk0 : k = 0
      · exact Or.inl hk0
      · obtain ⟨x, hx, _⟩ := hrej (k - 1) (by omega)
        have : st.sp + k * 8 - 8 = st.sp + (k - 1) * 8 := by omega
        exact Or.inr ⟨x, by rw [this]; exact hx⟩
  have hnot : ¬ (st.sp + k * 8 + 8 > U64MAX) := by omega
  refine ⟨{ ctx := { ip := e.ret, sp := e.sp, rest := [("rbp", 0)], valid := some ["rip", "rsp"] }, trust := .scan,
            instruction := e.ret - 1 }, ?_, scanFrame_is rfl (Or.inl rfl) hefp heregs hemax hretm⟩
  unfold step
  simp only [effArch, harch, Arch.isMips, Bool.false_eq_true, ↓reduceIte, candidate, hcfi, hbf, byScan, scanAmd64,
    hrsp, hscan, Bool.not_true, if_neg hnot, hbpn]
  simp [epilogue, nullish_eq, Arch.adj, Consts.adj_amd64, Arch.leafOk, hes, hv.sp]
  omega

theorem MView.get_r13 {w : World} {f : Frame} {st : MState} (hv : MView w .arm f st) :
    f.ctx.get .arm "r13" = some st.sp := by
  have h1 : f.ctx.has .arm "r13" = true := by rw [has_arm_r13]; exact hv.vsp
  have := get_of_has h1 (by rw [raw_arm_r13, hv.sp]; exact hv.spmax)
  rw [this, raw_arm_r13, hv.sp]

/-- on ARM the frame-pointer technique exists on iOS only; with a dead frame pointer it yields nothing -/
theorem byFp_dead_arm {env : Env} {w : World} {mem : Mem} {f : Frame} {st : MState} (hv : MView w .arm f st)
    (hdead : fpDead .arm env.os mem st.fp = true) : byFp env .arm mem f.ctx = none := by
  by_cases hos : env.os = .ios
  · rcases fpDead_spec hdead with h | h | ⟨_, h, _⟩
    · simp [hasFpTech, hos] at h
    · have : f.ctx.get .arm "r11" = none := by
        rw [get_none_of_has]; rw [has_arm_r11]; exact hv.fp_none h
      simp [byFp, fpArm, this]
    · exact absurd ⟨rfl, hos⟩ h
  · simp [byFp, fpArm, hos]

/-- **one frame found by scanning**, ARM -/
theorem step_scan_armM {env : Env} {w : World} {mem : Mem} {f : Frame} {g : Option Frame}
    {st : MState} {e : Exp} (harch : env.arch = .arm)
    (hcfi : ∀ f g, env.cfi f g = none) (hv : MView w .arm f st)
    (hdead : fpDead .arm env.os mem st.fp = true) (hl : linkScanM env .arm mem st e = true)
    (hret : 4096 ≤ e.ret) (hretm : e.ret ≤ Arch.arm.regMax) :
    ∃ f', step env mem f g = some f' ∧ FrameIsA .arm .scan e f' := by
  obtain ⟨k, hes, hk, hemax, hrej, hacc, hok, hefp, heregs⟩ := linkScanM_spec (by decide) hl
  have hstart : scanStart .arm st.sp st.first = st.sp := by simp [scanStart]
  have hp : Arch.arm.ptr = 4 := rfl
  rw [hstart, hp] at hes hrej hacc
  have hemax' : e.sp ≤ U32MAX := hemax
  have hget := hv.get_r13
  have hscan : scanFrom (instrValid env .arm) mem 4 U32MAX st.sp (scanWindow .arm f.trust) 0 =
      some (k, st.sp + k * 4, e.ret) := by
    rw [scanWindow_of32 (Or.inr rfl) hv.trust]
    exact scanFrom_first hrej hacc hok (by omega) _ 0 (Nat.zero_le _) (by omega)
  have hbf := byFp_dead_arm hv hdead
  have hnot : ¬ (st.sp + k * 4 + 4 > U32MAX) := by omega
  refine ⟨{ ctx := { ip := e.ret, sp := e.sp, rest := [], valid := some ["r15", "r13"] }, trust := .scan,
            instruction := e.ret - 2 }, ?_, scanFrame_is rfl (Or.inr ⟨rfl, rfl⟩) hefp heregs hemax hretm⟩
  unfold step
  simp only [effArch, harch, Arch.isMips, Bool.false_eq_true, ↓reduceIte, candidate, hcfi, hbf, byScan, scanArm,
    hget, hscan, if_neg hnot]
  simp [epilogue, nullish_eq, Arch.adj, Consts.adj_arm, Arch.leafOk, hes, hv.sp]
  omega

/-- **one frame found by scanning**, MIPS32 (the four argument words of every frame but the context
    frame are skipped) -/
theorem step_scan_mips32M {env : Env} {w : World} {mem : Mem} {f : Frame} {g : Option Frame}
    {st : MState} {e : Exp} (harch : env.arch = .mips32)
    (hcfi : ∀ f g, env.cfi f g = none) (hv : MView w .mips32 f st)
    (hl : linkScanM env .mips32 mem st e = true)
    (hret : 4096 ≤ e.ret) (hretm : e.ret ≤ Arch.mips32.regMax) :
    ∃ f', step env mem f g = some f' ∧ FrameIsA .mips32 .scan e f' := by
  obtain ⟨k, hes, hk, hemax, hrej, hacc, hok, hefp, heregs⟩ := linkScanM_spec (by decide) hl
  have hp : Arch.mips32.ptr = 4 := rfl
  rw [hp] at hes hrej hacc
  have hemax' : e.sp ≤ U32MAX := hemax
  have hm : f.ctx.m64 = false := hv.m64_false (by decide)
  have heff : effArch env.arch f.ctx = .mips32 := by rw [harch]; exact hv.eff
  have hget : f.ctx.get .mips32 "sp" = some st.sp := hv.get_sp
  have hc : Consts.mips_max_stack / Consts.ptr_mips32 = 256 ∧ Consts.mips_min_args * Consts.ptr_mips32 = 16 ∧
      256 - Consts.mips_min_args = 252 := ⟨rfl, rfl, rfl⟩
  refine ⟨{ ctx := { ip := e.ret, sp := e.sp, rest := [], valid := some ["pc", "sp"] }, trust := .scan,
            instruction := e.ret - 8 }, ?_, scanFrame_is rfl (Or.inl rfl) hefp heregs hemax hretm⟩
  unfold step
  simp only [heff, candidate, hcfi, byFp, byScan, scanMips32, hget, hc.1, hc.2.1, hc.2.2]
  cases hfirst : st.first with
  | true =>
    have htc : f.trust = .context := hv.trust.mp hfirst
    have hst : scanStart .mips32 st.sp st.first = st.sp := by simp [scanStart, hfirst]
    rw [hst] at hes hrej hacc
    have hkk : k < 256 := by simpa [scanWin, hfirst] using hk
    have hscan : scanFrom (instrValid env .mips32) mem 4 U32MAX st.sp 256 0 = some (k, st.sp + k * 4, e.ret) :=
      scanFrom_first hrej hacc hok (by omega) _ 0 (Nat.zero_le _) (by omega)
    have hnot : ¬ (st.sp + k * 4 + 4 > U32MAX) := by omega
    simp only [htc, ne_eq, not_true_eq_false, ↓reduceIte, hscan, if_neg hnot]
    simp [epilogue, nullish_eq, Arch.adj, Consts.adj_mips, Arch.leafOk, hes, hv.sp, hm, htc]
    exact ⟨hret, fun h => by omega⟩
  | false =>
    have htc : f.trust ≠ .context := fun h => by have := hv.trust.mpr h; rw [hfirst] at this; cases this
    have hst : scanStart .mips32 st.sp st.first = st.sp + 16 := by
      simp [scanStart, hfirst, Arch.ptr, Consts.ptr_mips32]
    rw [hst] at hes hrej hacc
    have hkk : k < 252 := by simpa [scanWin, hfirst] using hk
    have hscan : scanFrom (instrValid env .mips32) mem 4 U32MAX (st.sp + 16) 252 0 =
        some (k, st.sp + 16 + k * 4, e.ret) :=
      scanFrom_first hrej hacc hok (by omega) _ 0 (Nat.zero_le _) (by omega)
    have hskip : ¬ (st.sp + 16 > U32MAX) := by omega
    have hnot : ¬ (st.sp + 16 + k * 4 + 4 > U32MAX) := by omega
    simp only [htc, ne_eq, not_false_eq_true, ↓reduceIte, if_neg hskip, hscan, if_neg hnot]
    simp [epilogue, nullish_eq, Arch.adj, Consts.adj_mips, Arch.leafOk, hes, hv.sp, hm, htc]
    omega

end MdModel.Walk
