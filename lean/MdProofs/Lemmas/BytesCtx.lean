/-
  MdProofs.Lemmas.BytesCtx — lemmas about `MdModel.DumpCtx`: the generated CONTEXT_* layouts have the
  sizes the translator states, a struct read succeeds exactly when the record fits, which buffers
  `MinidumpContext::read` accepts, `Safe` for the context accessors / the memory table / the
  per-thread view, and an invariant-carrying rule for counted loops.
-/
import MdModel.DumpCtx
import MdProofs.Lemmas.BytesStreams
import MdProofs.C08
namespace MdModel.Dump
open MdModel MdModel.Gen.Layouts MdModel.Gen.LayoutsX

/-! ### generated tables -/

/-- the `SIZE_*` constants emitted by the translator are the sums of the flattened layouts -/
theorem size_ctx (k : CtxKind) : Layout.size k.layout = k.wireSize := by
  cases k <;> decide +kernel

theorem size_sysinfo : Layout.size MINIDUMP_SYSTEM_INFO = 56 := by decide +kernel
theorem size_x86cpu : Layout.size X86CpuInfo = 24 := by decide +kernel
theorem size_armcpu : Layout.size ARMCpuInfo = 8 := by decide +kernel

theorem sysinfo_layout_used :
    fieldIdx MINIDUMP_SYSTEM_INFO "processor_architecture" = some 0 ∧
    fieldIdx MINIDUMP_SYSTEM_INFO "processor_level" = some 1 ∧
    fieldIdx MINIDUMP_SYSTEM_INFO "processor_revision" = some 2 ∧
    fieldIdx MINIDUMP_SYSTEM_INFO "platform_id" = some 8 ∧
    fieldIdx MINIDUMP_SYSTEM_INFO "csd_version_rva" = some 9 ∧
    fieldIdx MINIDUMP_SYSTEM_INFO "cpu.data[0]" = some 12 ∧
    fieldIdx MINIDUMP_SYSTEM_INFO "cpu.data[23]" = some 35 ∧
    MINIDUMP_SYSTEM_INFO.length = 36 ∧
    X86CpuInfo = [("vendor_id[0]", 4), ("vendor_id[1]", 4), ("vendor_id[2]", 4), ("version_information", 4),
      ("feature_information", 4), ("amd_extended_cpu_features", 4)] ∧
    ARMCpuInfo = [("cpuid", 4), ("elf_hwcaps", 4)] := by decide +kernel

/-- the wire sizes of the nine context records, as documented (minidump_format.h / WinNT.h) -/
theorem ctx_sizes_as_documented :
    CtxKind.x86.wireSize = 716 ∧ CtxKind.amd64.wireSize = 1232 ∧ CtxKind.arm.wireSize = 368 ∧
    CtxKind.arm64.wireSize = 912 ∧ CtxKind.arm64Old.wireSize = 796 ∧ CtxKind.mips.wireSize = 600 ∧
    CtxKind.ppc.wireSize = 1004 ∧ CtxKind.ppc64.wireSize = 1160 ∧ CtxKind.sparc.wireSize = 584 := by decide

/-! ### a struct read succeeds exactly when the record fits -/

theorem readScalar_fits {b : Bytes} {off w : Nat} (e : Endian) (h : off + w ≤ b.size) :
    ∃ v, readScalar b off w e = some v := by
  unfold readScalar
  rw [if_neg (by omega), if_neg (by omega)]
  exact ⟨_, rfl⟩

theorem readFields_fits (l : Layout) (b : Bytes) (off : Nat) (e : Endian) (h : off + Layout.size l ≤ b.size) :
    ∃ vs, readFields l b off e = some vs := by
  induction l generalizing off with
  | nil => exact ⟨[], rfl⟩
  | cons f rest ih =>
    obtain ⟨n, w⟩ := f
    have hsz : Layout.size ((n, w) :: rest) = w + Layout.size rest := by simp [Layout.size]
    rw [hsz] at h
    obtain ⟨v, hv⟩ := readScalar_fits (b := b) (off := off) (w := w) e (by omega)
    obtain ⟨vs, hvs⟩ := ih (off + w) (by omega)
    exact ⟨v :: vs, by simp [readFields, hv, hvs]⟩

theorem readFields_short {l : Layout} {b : Bytes} {off : Nat} {e : Endian} (hne : l ≠ [])
    (h : b.size < off + Layout.size l) : readFields l b off e = none := by
  cases hr : readFields l b off e with
  | none => rfl
  | some vs =>
    cases readFields_some hr with
    | inl h0 => exact absurd h0 hne
    | inr hle => omega

/-! ### fields by name -/

theorem fieldIdx_lt {l : Layout} {name : String} {i : Nat} (h : fieldIdx l name = some i) : i < l.length := by
  unfold fieldIdx at h
  have := List.findIdx?_eq_some_iff_getElem.mp h
  exact this.1

theorem getField?_isSome {l : Layout} {vs : List Nat} {name : String} (hlen : vs.length = l.length)
    (hp : (fieldIdx l name).isSome = true) : ∃ v, getField? l vs name = some v := by
  unfold getField?
  cases hi : fieldIdx l name with
  | none => rw [hi] at hp; cases hp
  | some i =>
    have := fieldIdx_lt hi
    exact ⟨vs[i]'(by omega), by simp [List.getElem?_eq_getElem (by omega : i < vs.length)]⟩

theorem fieldAtName_safe {B : Nat} {l : Layout} {vs : List Nat} {name : String} (hlen : vs.length = l.length)
    (hp : (fieldIdx l name).isSome = true) : Safe B (fieldAtName l vs name) := by
  obtain ⟨v, hv⟩ := getField?_isSome hlen hp
  unfold fieldAtName
  rw [hv]
  exact safe_pure _

theorem arrayAt_safe {B : Nat} {l : Layout} {vs : List Nat} {arr : String} {i : Nat} (hlen : vs.length = l.length)
    (hp : (fieldIdx l (arr ++ "[" ++ toString i ++ "]")).isSome = true) : Safe B (arrayAt l vs arr i) := by
  obtain ⟨v, hv⟩ := getField?_isSome hlen hp
  unfold arrayAt
  rw [hv]
  exact safe_pure _

/-! ### `MinidumpContext::read`: what is accepted -/

/-- the architectures `MinidumpContext::read` has a branch for -/
theorem ctxKindOfArch_some {a : Nat} {k : CtxKind} (h : ctxKindOfArch a = some k) :
    a = 0 ∨ a = 10 ∨ a = 9 ∨ a = 3 ∨ a = 32770 ∨ a = 32769 ∨ a = 5 ∨ a = 12 ∨ a = 32771 ∨ a = 1 := by
  unfold ctxKindOfArch at h
  repeat (split at h; · (rename_i hh; simp only [PROCESSOR_ARCHITECTURE_INTEL, PROCESSOR_ARCHITECTURE_IA32_ON_WIN64,
    PROCESSOR_ARCHITECTURE_AMD64, PROCESSOR_ARCHITECTURE_PPC, PROCESSOR_ARCHITECTURE_PPC64, PROCESSOR_ARCHITECTURE_SPARC,
    PROCESSOR_ARCHITECTURE_ARM, PROCESSOR_ARCHITECTURE_ARM64, PROCESSOR_ARCHITECTURE_ARM64_OLD,
    PROCESSOR_ARCHITECTURE_MIPS] at hh; omega))
  cases h

theorem contextRead_ok {bytes : Bytes} {e : Endian} {arch : Nat} {c : Context}
    (h : contextRead bytes e arch = .ok c) :
    ctxKindOfArch arch = some c.kind ∧ c.kind.wireSize ≤ bytes.size ∧
    readFields c.kind.layout bytes 0 e = some c.vals ∧ c.vals.length = c.kind.layout.length ∧
    getField? c.kind.layout c.vals "context_flags" = some c.flags ∧
    contextFlagsCpu c.flags = c.kind.cpuFlag := by
  unfold contextRead at h
  split at h
  · cases h
  · rename_i k hk
    split at h
    · cases h
    · rename_i vs hvs
      split at h
      · cases h
      · rename_i flags hfl
        split at h
        · rename_i hflag
          cases h
          have hfit := readFields_some hvs
          have hne : k.layout ≠ [] := by cases k <;> decide
          refine ⟨hk, ?_, hvs, readFields_length hvs, hfl, hflag⟩
          cases hfit with
          | inl h0 => exact absurd h0 hne
          | inr hle => rw [size_ctx] at hle; simpa using hle
        · cases h

/-- a buffer shorter than the record of the dump's CPU is rejected (`ReadFailure`) -/
theorem contextRead_short {bytes : Bytes} {e : Endian} {arch : Nat} {k : CtxKind}
    (hk : ctxKindOfArch arch = some k) (h : bytes.size < k.wireSize) :
    contextRead bytes e arch = .error .readFailure := by
  unfold contextRead
  have hne : k.layout ≠ [] := by cases k <;> decide
  simp only [hk, readFields_short (b := bytes) (off := 0) (e := e) hne (by rw [size_ctx]; omega)]

/-- a buffer that holds the record is accepted iff the CPU bits of its `context_flags` are exactly
    this CPU's constant — whatever follows the record -/
theorem contextRead_fits {bytes : Bytes} {e : Endian} {arch : Nat} {k : CtxKind}
    (hk : ctxKindOfArch arch = some k) (h : k.wireSize ≤ bytes.size) :
    ∃ vs flags, readFields k.layout bytes 0 e = some vs ∧ getField? k.layout vs "context_flags" = some flags ∧
      contextRead bytes e arch =
        if contextFlagsCpu flags = k.cpuFlag then .ok ⟨k, vs, flags⟩ else .error .readFailure := by
  obtain ⟨vs, hvs⟩ := readFields_fits k.layout bytes 0 e (by rw [size_ctx]; omega)
  have hp : (fieldIdx k.layout "context_flags").isSome = true := by cases k <;> decide +kernel
  obtain ⟨flags, hfl⟩ := getField?_isSome (readFields_length hvs) hp
  refine ⟨vs, flags, hvs, hfl, ?_⟩
  unfold contextRead
  simp only [hk, hvs, hfl]

theorem contextRead_unknown {bytes : Bytes} {e : Endian} {arch : Nat} (hk : ctxKindOfArch arch = none) :
    contextRead bytes e arch = .error .unknownCpu := by
  unfold contextRead
  simp only [hk]

/-! ### the accessors cannot index out of bounds -/

theorem ctx_ip_safe {B : Nat} (c : Context) (hlen : c.vals.length = c.kind.layout.length) : Safe B c.ip := by
  obtain ⟨k, vs, fl⟩ := c
  simp only at hlen
  cases k <;> simp only [Context.ip] <;> first
    | exact fieldAtName_safe hlen (by decide +kernel)
    | exact arrayAt_safe hlen (by decide +kernel)

theorem ctx_sp_safe {B : Nat} (c : Context) (hlen : c.vals.length = c.kind.layout.length) : Safe B c.sp := by
  obtain ⟨k, vs, fl⟩ := c
  simp only at hlen
  cases k <;> simp only [Context.sp] <;> first
    | exact fieldAtName_safe hlen (by decide +kernel)
    | exact arrayAt_safe hlen (by decide +kernel)

theorem readRegs_safe {B : Nat} (l : Layout) (vs : List Nat) (arr : String) (hlen : vs.length = l.length) :
    ∀ is : List Nat, (∀ i ∈ is, (fieldIdx l (arr ++ "[" ++ toString i ++ "]")).isSome = true) →
      Safe B (readRegs l vs arr is) := by
  intro is
  induction is with
  | nil => intro _; exact safe_pure _
  | cons i rest ih =>
    intro h
    unfold readRegs
    refine safe_bind (arrayAt_safe hlen (h i List.mem_cons_self)) (fun _ _ => ?_)
    refine safe_bind (ih (fun j hj => h j (List.mem_cons_of_mem _ hj))) (fun _ _ => safe_pure _)

/-- every register `MinidumpContext::print` reaches by index exists in the record's `iregs` array -/
theorem ctxPrintIndices_in_bounds (k : CtxKind) :
    ∀ i ∈ ctxPrintIndices k, (fieldIdx k.layout ("iregs" ++ "[" ++ toString i ++ "]")).isSome = true := by
  cases k <;> decide +kernel

theorem ctxPrintReads_safe {B : Nat} (c : Context) (hlen : c.vals.length = c.kind.layout.length) :
    Safe B (ctxPrintReads c) :=
  readRegs_safe _ _ _ hlen _ (ctxPrintIndices_in_bounds c.kind)

theorem contextOf_safe {B : Nat} (all : Bytes) (e : Endian) (arch : Nat) (range : Option (Nat × Nat)) :
    Safe B (contextOf all e arch range) := by
  unfold contextOf
  split
  · exact safe_pure _
  · split
    · exact safe_pure _
    · rename_i c hc
      have hlen := (contextRead_ok hc).2.2.2.1
      refine safe_bind (ctx_ip_safe c hlen) (fun _ _ => ?_)
      refine safe_bind (ctx_sp_safe c hlen) (fun _ _ => ?_)
      refine safe_bind (ctxPrintReads_safe c hlen) (fun _ _ => safe_pure _)

/-! ### counted loops with an invariant -/

theorem safe_loopGo_inv {σ : Type} {B : Nat} (step : σ → Nat → M σ) (P : σ → Nat → Prop) (n : Nat)
    (h : ∀ s i, i < n → P s i → Safe B (step s i) ∧ ∀ s', (step s i).res = .ok s' → P s' (i + 1)) :
    ∀ (todo i : Nat) (s : σ) (rev : List Alloc), i + todo = n → P s i → (∀ a ∈ rev, a.bytes ≤ B) →
      Safe B (M.loopGo step todo i s rev) := by
  intro todo
  induction todo with
  | zero =>
    intro i s rev _ _ hrev
    refine ⟨fun p hp => (by simp [M.loopGo] at hp), fun a ha => ?_⟩
    simp [M.loopGo] at ha
    exact hrev a ha
  | succ t ih =>
    intro i s rev hn hP hrev
    have ⟨hs, hnext⟩ := h s i (by omega) hP
    have hrev' : ∀ a ∈ (step s i).allocs.reverse ++ rev, a.bytes ≤ B := by
      intro a ha
      cases List.mem_append.mp ha with
      | inl h1 => exact hs.2 a (List.mem_reverse.mp h1)
      | inr h2 => exact hrev a h2
    unfold M.loopGo
    dsimp only
    split
    · rename_i s' hres
      exact ih _ _ _ (by omega) (hnext s' hres) hrev'
    · refine ⟨fun p hp => (by cases hp), fun a ha => ?_⟩
      exact hrev' a (List.mem_reverse.mp ha)
    · rename_i p hres
      exact absurd hres (hs.1 p)

/-- `for i in 0..n` with an invariant `P state i` (the plain rule `safe_loop` asks for a step that is
    safe in EVERY state) -/
theorem safe_loop_inv {σ : Type} {B : Nat} (n : Nat) (init : σ) (step : σ → Nat → M σ) (P : σ → Nat → Prop)
    (h0 : P init 0)
    (h : ∀ s i, i < n → P s i → Safe B (step s i) ∧ ∀ s', (step s i).res = .ok s' → P s' (i + 1)) :
    Safe B (M.loop n init step) :=
  safe_loopGo_inv step P n h n 0 init [] (by omega) h0 (fun a ha => by cases ha)

/-! ### the printers' dump loops -/

theorem printStackWords_safe {B : Nat} (cpu : CpuKind) (stackLen : Nat) (h : stackLen < 9223372036854775808) :
    Safe B (printStackWords cpu stackLen) := by
  unfold printStackWords
  have hchunk : cpu.ptrBytes.getD 8 = 4 ∨ cpu.ptrBytes.getD 8 = 8 := by cases cpu <;> simp [CpuKind.ptrBytes]
  have hwant : cpu.ptrBytes.getD 8 = (if cpu.ptrBytes = some 4 then 4 else 8) := by
    cases cpu <;> simp [CpuKind.ptrBytes]
  dsimp only
  rw [if_neg (by omega)]
  refine safe_loop_inv _ _ _ (fun off i => off = i * cpu.ptrBytes.getD 8) (by simp) ?_
  intro off i hi hoff
  rw [if_neg (by rw [← hwant]; simp)]
  refine ⟨usizeAdd_safe _ ?_, ?_⟩
  · unfold USIZE_MAX U64MAX
    subst hoff
    cases hchunk with
    | inl h4 => rw [h4] at hi ⊢; omega
    | inr h8 => rw [h8] at hi ⊢; omega
  · intro s' hs'
    have := usizeAdd_ok hs'
    subst this hoff
    rw [Nat.succ_mul]

theorem printContents_safe {B : Nat} (len : Nat) (h : len < 9223372036854775808) : Safe B (printContents len) := by
  unfold printContents
  refine safe_loop_inv _ _ _ (fun off i => off = i * 16) (by simp) ?_
  intro off i hi hoff
  refine ⟨usizeAdd_safe _ ?_, ?_⟩
  · unfold USIZE_MAX U64MAX; omega
  · intro s' hs'
    have := usizeAdd_ok hs'
    omega


/-! ### system info -/

theorem readStringUtf16_stop {b : Bytes} {off : Nat} {e : Endian} {cs : List Nat} {stop : Nat}
    (h : (readStringUtf16 b off e).res = .ok (some (cs, stop))) : off + 4 ≤ stop ∧ stop ≤ b.size := by
  unfold readStringUtf16 at h
  split at h
  · cases h
  · split at h
    · cases h
    · obtain ⟨stop', hst, h⟩ := bind_ok h
      have := usizeAdd_ok hst
      subst this
      split at h
      · cases h
      · obtain ⟨_, _, h⟩ := bind_ok h
        obtain ⟨_, _, h⟩ := bind_ok h
        split at h
        · cases h
        · cases h; omega

theorem cpuInfoX86_safe {B : Nat} (cpu : CpuKind) (e : Endian) (d : Bytes) (l r : Nat) : Safe B (cpuInfoX86 cpu e d l r) := by
  unfold cpuInfoX86
  refine safe_bind ?_ (fun _ _ => safe_pure _)
  split
  · exact safe_bind (safe_ofOption _ _) (fun _ _ => safe_pure _)
  · exact safe_pure _

theorem cpuInfoArm_safe {B : Nat} (e : Endian) (d : Bytes) (l : Nat) : Safe B (cpuInfoArm e d l) := by
  unfold cpuInfoArm
  exact safe_bind (safe_ofOption _ _) (fun _ _ => safe_pure _)

theorem readSystemInfoX_safe {B : Nat} (s all : Bytes) (e : Endian) (hsz : SliceLen all.size) (hB : 2 * all.size ≤ B) :
    Safe B (readSystemInfoX s all e) := by
  unfold readSystemInfoX
  split
  · exact safe_fail _
  · refine safe_bind (readStringUtf16_safe _ _ _ hsz hB) (fun _ _ => ?_)
    refine safe_bind ?_ (fun _ _ => safe_pure _)
    split
    · exact safe_bind (cpuInfoX86_safe _ _ _ _ _) (fun _ _ => safe_pure _)
    · exact safe_bind (cpuInfoX86_safe _ _ _ _ _) (fun _ _ => safe_pure _)
    · exact safe_bind (cpuInfoArm_safe _ _ _) (fun _ _ => safe_pure _)
    · exact safe_pure _

theorem readSystemInfoX_csdBytes {s all : Bytes} {e : Endian} {si : SysInfo}
    (h : (readSystemInfoX s all e).res = .ok si) : si.csdBytes ≤ all.size := by
  unfold readSystemInfoX at h
  split at h
  · cases h
  · obtain ⟨csd, hcsd, h⟩ := bind_ok h
    obtain ⟨info, _, h⟩ := bind_ok h
    have := pure_ok h
    subst this
    simp only
    cases csd with
    | none => simp
    | some p =>
      obtain ⟨cs, stop⟩ := p
      have := readStringUtf16_stop hcsd
      simp only
      omega

theorem getSystemInfo_safe {B : Nat} (d : Dump) (b : Bytes) (hsz : SliceLen b.size) (hB : 2 * b.size ≤ B) :
    Safe B (getSystemInfo d b) := by
  unfold getSystemInfo
  have hg : Safe B (getStream d b ST_SystemInfoStream (fun s => readSystemInfoX s b d.endian)) :=
    getStream_safe _ _ _ _ (fun s _ => readSystemInfoX_safe s b _ hsz hB)
  refine safe_bind hg (fun eager heager => ?_)
  split
  · rename_i si
    refine safe_bind (safe_alloc ?_) (fun _ _ => safe_pure _)
    -- the eager result came out of `readSystemInfoX`
    have : si.csdBytes ≤ b.size := by
      unfold getStream at heager
      split at heager
      · cases heager
      · unfold M.catch' at heager
        split at heager
        · rename_i a hres
          cases heager
          exact readSystemInfoX_csdBytes hres
        · cases heager
        · cases heager
    omega
  · exact hg

/-! ### memory table, per-thread view -/

theorem memTable_safe {B : Nat} (rs : List Region) (h : rs.length * 32 ≤ B) : Safe B (memTable rs) := by
  unfold memTable
  refine safe_bind (safe_alloc h) (fun _ _ => ?_)
  refine safe_bind (safe_alloc h) (fun _ _ => ?_)
  have hwf : RangeMap.InputWF (rs.zipIdx.map fun (r, i) => (RangeMap.mkRange r.base r.size, i)) := by
    intro en hen r hr
    simp only [List.mem_map] at hen
    obtain ⟨⟨reg, i⟩, _, rfl⟩ := hen
    have := RangeMap.mkRange_wf hr
    exact ⟨this.1, this.2.1⟩
  rw [RangeMap.safe_ok _ hwf]
  exact safe_pure _

theorem threadX_safe {B : Nat} (all : Bytes) (e : Endian) (sys : Option SysInfo) (mv : MemView) (t : Thread)
    (hsz : SliceLen all.size) : Safe B (threadX all e sys mv t) := by
  unfold threadX
  refine safe_bind ?_ (fun _ _ => ?_)
  · split
    · exact safe_pure _
    · exact contextOf_safe _ _ _ _
  · refine safe_bind (printStackWords_safe _ _ ?_) (fun _ _ => safe_pure _)
    unfold SliceLen at hsz
    split
    · simp only [Array.size_extract]; omega
    · omega

theorem threadsX_safe {B : Nat} (all : Bytes) (e : Endian) (sys : Option SysInfo) (mv : MemView)
    (hsz : SliceLen all.size) : ∀ ts : List Thread, Safe B (threadsX all e sys mv ts) := by
  intro ts
  induction ts with
  | nil => exact safe_pure _
  | cons t rest ih =>
    unfold threadsX
    refine safe_bind (threadX_safe all e sys mv t hsz) (fun _ _ => ?_)
    exact safe_bind ih (fun _ _ => safe_pure _)

end MdModel.Dump
