/-
  Over-long lines are dropped: reference semantics `specRestM` (a line longer than the capacity
  limit only advances the line counter) and the proof that the buffer machine computes it for EVERY
  chunk schedule when every other line is shorter than half the limit.
-/
import MdProofs.Lemmas.SymChunk
namespace MdModel.Stream
open MdModel

/-! ### reference semantics with dropped lines -/

/-- fold of the per-line step; a line longer than `maxCap` (terminator included) is not parsed,
    it only bumps the line counter -/
def foldLM {σ} (L : σ → Bytes → LR σ) (bump : σ → σ) (maxCap : Nat) : σ → List Bytes → LR σ
  | st, [] => .ok st
  | st, l :: ls =>
    if l.length > maxCap then foldLM L bump maxCap (bump st) ls
    else match L st l with
      | .ok st' => foldLM L bump maxCap st' ls
      | .err k n => .err k n
      | .panic e => .panic e

theorem foldLM_append {σ} (L : σ → Bytes → LR σ) (bump : σ → σ) (maxCap : Nat) (st : σ) (a b : List Bytes) :
    foldLM L bump maxCap st (a ++ b) =
      match foldLM L bump maxCap st a with
      | .ok st' => foldLM L bump maxCap st' b
      | .err k n => .err k n
      | .panic e => .panic e := by
  induction a generalizing st with
  | nil => simp [foldLM]
  | cons l ls ih =>
    simp only [List.cons_append, foldLM]
    split
    · exact ih _
    · cases L st l with
      | ok st' => exact ih st'
      | err k n => rfl
      | panic e => rfl

/-- on lines that fit the limit, nothing is dropped -/
theorem foldLM_eq_foldL {σ} (L : σ → Bytes → LR σ) (bump : σ → σ) (maxCap : Nat) (ls : List Bytes)
    (h : ∀ l ∈ ls, l.length ≤ maxCap) : ∀ st, foldLM L bump maxCap st ls = foldL L st ls := by
  induction ls with
  | nil => intro st; rfl
  | cons l rest ih =>
    intro st
    have hl := h l (by simp)
    have hr : ∀ x ∈ rest, x.length ≤ maxCap := fun x hx => h x (by simp [hx])
    simp only [foldLM, foldL, if_neg (by omega : ¬ l.length > maxCap)]
    cases L st l with
    | ok st' => exact ih hr st'
    | err k n => rfl
    | panic e => rfl

/-- reference semantics of the rest of a parse, over-long lines dropped; an unterminated rest of
    `maxCap` bytes or more is dropped too (and the parse succeeds) -/
def specRestM {σ} (L : σ → Bytes → LR σ) (bump : σ → σ) (lines : σ → Nat) (maxCap : Nat)
    (st : σ) (ne : Bool) (rest : Bytes) : Out σ :=
  match foldLM L bump maxCap st (linesOf rest).1 with
  | .err k n => .err k n
  | .panic e => .panic e
  | .ok st' =>
    if (linesOf rest).2.length ≥ maxCap then .ok st'
    else if !ne && (linesOf rest).1.isEmpty then .err errEmpty 0
    else if (linesOf rest).2.isEmpty then .ok st'
    else .err errEof (lines st')

def specOutM {σ} (L : σ → Bytes → LR σ) (bump : σ → σ) (lines : σ → Nat) (maxCap : Nat)
    (st : σ) (input : Bytes) : Out σ :=
  specRestM L bump lines maxCap st false input

/-- what recovery mode computes: skip through the first newline, bump, go on; no newline: `Ok` -/
def specR {σ} (L : σ → Bytes → LR σ) (bump : σ → σ) (lines : σ → Nat) (maxCap : Nat)
    (st : σ) (rest : Bytes) : Out σ :=
  match firstNL rest with
  | none => .ok st
  | some i => specRestM L bump lines maxCap (bump st) true (rest.drop (i + 1))

/-- every line is short (content < `half`) or over-long (> `maxCap` with its terminator); the
    unterminated rest likewise -/
def Mixed (half maxCap : Nat) (rest : Bytes) : Prop :=
  (∀ l ∈ (linesOf rest).1, l.length ≤ half ∨ l.length > maxCap) ∧
  ((linesOf rest).2.length < half ∨ (linesOf rest).2.length ≥ maxCap)

theorem specRestM_append {σ} (L : σ → Bytes → LR σ) (bump : σ → σ) (lines : σ → Nat) (maxCap : Nat)
    (st st' : σ) (ne : Bool) (ls : List Bytes) (hls : ∀ l ∈ ls, IsLine l) (w : Bytes)
    (hf : foldLM L bump maxCap st ls = .ok st') :
    specRestM L bump lines maxCap st ne (ls.flatten ++ w) =
      specRestM L bump lines maxCap st' (ne || !ls.isEmpty) w := by
  unfold specRestM
  rw [linesOf_append_lines ls hls w]
  simp only []
  rw [foldLM_append, hf]
  simp only []
  cases foldLM L bump maxCap st' (linesOf w).1 with
  | err k n => rfl
  | panic e => rfl
  | ok st2 =>
    simp only []
    cases ne <;> cases hl : ls.isEmpty <;> simp_all

theorem specRestM_err {σ} (L : σ → Bytes → LR σ) (bump : σ → σ) (lines : σ → Nat) (maxCap : Nat)
    (st : σ) (ne : Bool) (ls : List Bytes) (hls : ∀ l ∈ ls, IsLine l) (w : Bytes) (k n : Nat)
    (hf : foldLM L bump maxCap st ls = .err k n) :
    specRestM L bump lines maxCap st ne (ls.flatten ++ w) = .err k n := by
  unfold specRestM
  rw [linesOf_append_lines ls hls w]
  simp only []
  rw [foldLM_append, hf]

theorem specRestM_panic {σ} (L : σ → Bytes → LR σ) (bump : σ → σ) (lines : σ → Nat) (maxCap : Nat)
    (st : σ) (ne : Bool) (ls : List Bytes) (hls : ∀ l ∈ ls, IsLine l) (w : Bytes) (e : String)
    (hf : foldLM L bump maxCap st ls = .panic e) :
    specRestM L bump lines maxCap st ne (ls.flatten ++ w) = .panic e := by
  unfold specRestM
  rw [linesOf_append_lines ls hls w]
  simp only []
  rw [foldLM_append, hf]

theorem Mixed.drop_lines {half maxCap : Nat} (ls : List Bytes) (hls : ∀ l ∈ ls, IsLine l) (w : Bytes)
    (h : Mixed half maxCap (ls.flatten ++ w)) : Mixed half maxCap w := by
  unfold Mixed at *
  rw [linesOf_append_lines ls hls w] at h
  exact ⟨fun l hl => h.1 l (List.mem_append.mpr (Or.inr hl)), h.2⟩

/-! ### a newline-free prefix only lengthens the first line -/

theorem linesAux_prefix (d w cur : Bytes) (hd : NL ∉ d) :
    linesAux (d ++ w) cur = linesAux w (d.reverse ++ cur) := by
  induction d generalizing cur with
  | nil => simp
  | cons b rest ih =>
    have hb : b ≠ NL := fun e => hd (by simp [e])
    have hr : NL ∉ rest := fun e => hd (by simp [e])
    simp only [List.cons_append]
    rw [linesAux]
    simp only [hb, if_false]
    rw [ih (b :: cur) hr]; simp

theorem linesOf_prefix (d w : Bytes) (hd : NL ∉ d) :
    linesOf (d ++ w) =
      (match (linesOf w).1 with
        | [] => ([], d ++ (linesOf w).2)
        | l :: ls => ((d ++ l) :: ls, (linesOf w).2)) := by
  unfold linesOf
  rw [linesAux_prefix d w [] hd, linesAux_cur]
  simp only [List.append_nil, List.reverse_reverse]
  cases (linesAux w []).1 <;> rfl

theorem firstNL_none {w : Bytes} (h : NL ∉ w) : firstNL w = none := by
  induction w with
  | nil => rfl
  | cons b rest ih =>
    have hb : b ≠ NL := fun e => h (by simp [e])
    have hr : NL ∉ rest := fun e => h (by simp [e])
    simp [firstNL, hb, ih hr]

theorem firstNL_mem {w : Bytes} (h : firstNL w = none) : NL ∉ w := by
  induction w with
  | nil => simp
  | cons b rest ih =>
    unfold firstNL at h
    split at h
    · cases h
    · next hb =>
      cases hr : firstNL rest with
      | none => intro hm; rcases List.mem_cons.mp hm with e | e
                · exact hb e.symm
                · exact ih hr e
      | some j => simp [hr] at h

theorem firstNL_prefix (d w : Bytes) (hd : NL ∉ d) :
    firstNL (d ++ w) = (firstNL w).map (· + d.length) := by
  induction d with
  | nil => cases h : firstNL w <;> simp [h]
  | cons b rest ih =>
    have hb : b ≠ NL := fun e => hd (by simp [e])
    have hr : NL ∉ rest := fun e => hd (by simp [e])
    simp only [List.cons_append, firstNL, hb, if_false, ih hr, List.length_cons]
    cases firstNL w <;> simp; omega

theorem firstNL_some_split {w : Bytes} {i : Nat} (h : firstNL w = some i) :
    NL ∉ w.take i ∧ w = w.take i ++ NL :: w.drop (i + 1) := by
  induction w generalizing i with
  | nil => simp [firstNL] at h
  | cons b rest ih =>
    unfold firstNL at h
    split at h
    · next hb => cases h; simp [hb]
    · next hb =>
      cases hr : firstNL rest with
      | none => simp [hr] at h
      | some j =>
        simp [hr] at h; subst h
        obtain ⟨h1, h2⟩ := ih hr
        refine ⟨?_, ?_⟩
        · simp only [List.take_succ_cons]
          intro hm; rcases List.mem_cons.mp hm with e | e
          · exact hb e.symm
          · exact h1 e
        · simp only [List.take_succ_cons, List.drop_succ_cons, List.cons_append]
          rw [← h2]

theorem firstNL_append_left {a : Bytes} {i : Nat} (b : Bytes) (h : firstNL a = some i) :
    firstNL (a ++ b) = some i := by
  obtain ⟨h1, h2⟩ := firstNL_some_split h
  have hlen : (a.take i).length = i := by
    have := firstNL_lt h; simp; omega
  rw [h2, List.append_assoc, firstNL_prefix _ _ h1]
  simp [firstNL, hlen]

/-- recovery: a newline-free prefix does not matter -/
theorem specR_prefix {σ} (L : σ → Bytes → LR σ) (bump : σ → σ) (lines : σ → Nat) (maxCap : Nat)
    (st : σ) (d w : Bytes) (hd : NL ∉ d) :
    specR L bump lines maxCap st (d ++ w) = specR L bump lines maxCap st w := by
  unfold specR
  rw [firstNL_prefix d w hd]
  cases firstNL w with
  | none => rfl
  | some i =>
    simp only [Option.map_some]
    congr 1
    rw [show i + d.length + 1 = d.length + (i + 1) by omega, ← List.drop_drop, List.drop_left]

/-- the first line is over-long: the reference semantics is what recovery computes -/
theorem specRestM_long_first {σ} (L : σ → Bytes → LR σ) (bump : σ → σ) (lines : σ → Nat)
    (half maxCap : Nat) (hhm : half ≤ maxCap) (st : σ) (ne : Bool) (d w : Bytes) (hd : NL ∉ d)
    (hlen : half ≤ d.length) (hmix : Mixed half maxCap (d ++ w)) :
    specRestM L bump lines maxCap st ne (d ++ w) = specR L bump lines maxCap st (d ++ w) := by
  rw [specR_prefix _ _ _ _ _ d w hd]
  unfold specR
  cases hf : firstNL w with
  | none =>
    -- no newline at all: the whole rest is an over-long unterminated tail
    have hw : NL ∉ w := firstNL_mem hf
    have hdw : NL ∉ d ++ w := by
      intro h; rcases List.mem_append.mp h with h | h
      · exact hd h
      · exact hw h
    have hlo := linesOf_noNL (d ++ w) hdw
    have h2 := hmix.2
    rw [hlo] at h2
    simp only [List.length_append] at h2
    unfold specRestM
    rw [hlo]
    simp only [foldLM, List.length_append]
    rw [if_pos (by omega)]
  | some i =>
    obtain ⟨h1, h2⟩ := firstNL_some_split hf
    have hlen' : (w.take i).length = i := by
      have := firstNL_lt hf; simp; omega
    -- the first line is `d ++ w.take i ++ [NL]`
    have hline : IsLine ((d ++ w.take i) ++ [NL]) := ⟨d ++ w.take i, by
      intro h; rcases List.mem_append.mp h with h | h
      · exact hd h
      · exact h1 h, rfl⟩
    have hsplit : d ++ w = [(d ++ w.take i) ++ [NL]].flatten ++ w.drop (i + 1) := by
      conv => lhs; rw [h2]
      simp
    have hmem : (d ++ w.take i) ++ [NL] ∈ (linesOf (d ++ w)).1 := by
      rw [hsplit, linesOf_append_lines _ (by intro l hl; simp only [List.mem_singleton] at hl; rw [hl]; exact hline)]
      simp
    have hlong : ((d ++ w.take i) ++ [NL]).length > maxCap := by
      rcases hmix.1 _ hmem with h | h
      · simp only [List.length_append, List.length_cons, List.length_nil] at h; omega
      · exact h
    rw [hsplit, specRestM_append L bump lines maxCap st (bump st) ne _
      (by intro l hl; simp only [List.mem_singleton] at hl; rw [hl]; exact hline) _ (by simp only [foldLM, if_pos hlong])]
    simp


/-! ### invariants of the two kinds of loop-head states -/

/-- normal operation (not recovering) -/
structure JM {σ} (maxCap : Nat) (input : Bytes) (s : St σ) : Prop where
  inv : Inv maxCap input s
  notRec : s.inRecovery = false
  notJust : s.justFinished = false
  noNL : NL ∉ s.buf.data
  fullyIff : s.fullyConsumed = true ↔ (s.buf.data = [] ∧ cbBytes s ≠ [])
  tried : s.triedToGrow = true → s.buf.availableSpace > 0
  chain : ∃ k, s.buf.cap * 2 ^ k = maxCap
  mixed : Mixed (maxCap / 2) maxCap (s.buf.data ++ s.unread)

/-- recovery mode -/
structure RM {σ} (maxCap : Nat) (input : Bytes) (s : St σ) : Prop where
  inv : Inv maxCap input s
  isRec : s.inRecovery = true
  notJust : s.justFinished = false
  notTried : s.triedToGrow = false
  capMax : s.buf.cap = maxCap
  mixedAfter : ∀ i, firstNL (s.buf.data ++ s.unread) = some i →
    Mixed (maxCap / 2) maxCap ((s.buf.data ++ s.unread).drop (i + 1))

theorem length_le_flatten {l : Bytes} {ls : List Bytes} (h : l ∈ ls) : l.length ≤ ls.flatten.length := by
  induction ls with
  | nil => cases h
  | cons x rest ih =>
    simp only [List.flatten_cons, List.length_append]
    rcases List.mem_cons.mp h with rfl | h
    · omega
    · have := ih h; omega

/-- the parser runs on a window (the tail of every iteration that is not recovering) -/
theorem parse_step {σ} (maxCap : Nat) (input : Bytes) (ops : Ops σ) (L : σ → Bytes → LR σ)
    (hspec : PmSpec ops L) (m : St σ)
    (hm : Mid maxCap input m) (hnr : m.inRecovery = false) (hwne : m.buf.data ≠ [])
    (htg : m.triedToGrow = false) (hchain : ∃ k, m.buf.cap * 2 ^ k = maxCap)
    (hmix : Mixed (maxCap / 2) maxCap (m.buf.data ++ m.unread)) :
    (∃ sf, parseBlock ops m = .inr (specRestM L ops.bumpLine ops.lines maxCap m.ps
        (!(cbBytes m).isEmpty) (m.buf.data ++ m.unread), sf)) ∨
    (∃ s', parseBlock ops m = .inl s' ∧ JM maxCap input s' ∧
      specRestM L ops.bumpLine ops.lines maxCap s'.ps (!(cbBytes s').isEmpty) (s'.buf.data ++ s'.unread) =
      specRestM L ops.bumpLine ops.lines maxCap m.ps (!(cbBytes m).isEmpty) (m.buf.data ++ m.unread)) := by
  obtain ⟨p1, _, _⟩ := parseBlock_spec maxCap input ops m hm
  have hpb : parseBlock ops m =
      (match ops.parseMore m.ps m.buf.data with
       | .err k l => .inr (.err k l, { m with justFinished := false })
       | .panic site => .inr (.panic site, { m with justFinished := false })
       | .ok consumed ps' =>
         if consumed > m.buf.data.length then
           .inr (.panic "callback(&input[..consumed])", { m with justFinished := false })
         else .inl { m with
                justFinished := false, ps := ps',
                totalConsumed := m.totalConsumed + consumed,
                cb := m.buf.data.take consumed :: m.cb,
                fullyConsumed := (m.buf.data.length == consumed),
                buf := m.buf.consume consumed }) := by
    unfold parseBlock
    rw [if_neg (by rw [hnr]; simp)]
    rfl
  have hpm := hspec m.ps m.buf.data
  unfold pmSpec at hpm
  have hw : m.buf.data ++ m.unread =
      ((linesOf m.buf.data).1).flatten ++ ((linesOf m.buf.data).2 ++ m.unread) := by
    rw [← List.append_assoc, linesOf_flatten]
  have hlines := linesOf_isLine m.buf.data
  have hwl : m.buf.data.length = (linesOf m.buf.data).1.flatten.length + (linesOf m.buf.data).2.length := by
    rw [← List.length_append, linesOf_flatten]
  -- lines inside the window fit the limit, so none of them is dropped
  have hfit : ∀ l ∈ (linesOf m.buf.data).1, l.length ≤ maxCap := by
    intro l hl
    have h1 := length_le_flatten hl
    have h2 := hm.buf.fits
    have h3 := hm.capLe
    omega
  have hfold := foldLM_eq_foldL L ops.bumpLine maxCap _ hfit m.ps
  cases hf : foldL L m.ps (linesOf m.buf.data).1 with
  | err k n =>
    left
    rw [hf] at hpm hfold
    refine ⟨{ m with justFinished := false }, ?_⟩
    rw [hpb, hpm, hw, specRestM_err L ops.bumpLine ops.lines maxCap m.ps _ _ hlines _ k n hfold]
  | panic e =>
    left
    rw [hf] at hpm hfold
    refine ⟨{ m with justFinished := false }, ?_⟩
    rw [hpb, hpm, hw, specRestM_panic L ops.bumpLine ops.lines maxCap m.ps _ _ hlines _ e hfold]
  | ok st' =>
    right
    rw [hf] at hpm hfold
    have hle : ¬ (linesOf m.buf.data).1.flatten.length > m.buf.data.length := by omega
    have hS : parseBlock ops m = .inl { m with
          justFinished := false, ps := st',
          totalConsumed := m.totalConsumed + (linesOf m.buf.data).1.flatten.length,
          cb := m.buf.data.take (linesOf m.buf.data).1.flatten.length :: m.cb,
          fullyConsumed := (m.buf.data.length == (linesOf m.buf.data).1.flatten.length),
          buf := m.buf.consume (linesOf m.buf.data).1.flatten.length } := by
      rw [hpb, hpm]
      dsimp only
      rw [if_neg hle]
    have htake : m.buf.data.take (linesOf m.buf.data).1.flatten.length = (linesOf m.buf.data).1.flatten := by
      conv => lhs; arg 2; rw [← linesOf_flatten m.buf.data]
      exact List.take_left
    have hdrop : m.buf.data.drop (linesOf m.buf.data).1.flatten.length = (linesOf m.buf.data).2 := by
      conv => lhs; arg 2; rw [← linesOf_flatten m.buf.data]
      exact List.drop_left
    have hcb' : cbBytes { m with
          justFinished := false, ps := st',
          totalConsumed := m.totalConsumed + (linesOf m.buf.data).1.flatten.length,
          cb := m.buf.data.take (linesOf m.buf.data).1.flatten.length :: m.cb,
          fullyConsumed := (m.buf.data.length == (linesOf m.buf.data).1.flatten.length),
          buf := m.buf.consume (linesOf m.buf.data).1.flatten.length }
          = cbBytes m ++ (linesOf m.buf.data).1.flatten := by
      rw [cbBytes_push m _ _ rfl, htake]
    refine ⟨_, hS, ?_, ?_⟩
    · refine ⟨p1 _ hS hnr, hnr, rfl, ?_, ?_, fun h => ?_, ?_, ?_⟩
      · show NL ∉ (m.buf.consume _).data
        rw [Buf.consume_data, hdrop]; exact linesOf_rest_noNL _
      · show (m.buf.data.length == (linesOf m.buf.data).1.flatten.length) = true ↔
          ((m.buf.consume _).data = [] ∧ _ ≠ [])
        rw [Buf.consume_data, hdrop, hcb']
        constructor
        · intro h
          have h' : m.buf.data.length = (linesOf m.buf.data).1.flatten.length := by simpa using h
          have ht : (linesOf m.buf.data).2 = [] := List.eq_nil_of_length_eq_zero (by omega)
          refine ⟨ht, ?_⟩
          intro hc
          have h2 := (List.append_eq_nil_iff.mp hc).2
          rw [h2] at h'
          have hpos : 0 < m.buf.data.length := List.length_pos_iff.mpr hwne
          simp only [List.length_nil] at h'
          omega
        · intro ⟨ht, _⟩
          rw [ht] at hwl
          simp only [List.length_nil, Nat.add_zero] at hwl
          simp [hwl]
      · exfalso
        have : m.triedToGrow = true := h
        rw [htg] at this; cases this
      · obtain ⟨k, hk⟩ := hchain
        exact ⟨k, by show (m.buf.consume _).cap * 2 ^ k = maxCap; rw [Buf.consume_cap]; exact hk⟩
      · show Mixed _ _ ((m.buf.consume _).data ++ m.unread)
        rw [Buf.consume_data, hdrop]
        rw [hw] at hmix
        exact hmix.drop_lines _ hlines _
    · show specRestM L ops.bumpLine ops.lines maxCap st' _ ((m.buf.consume _).data ++ m.unread) = _
      rw [Buf.consume_data, hdrop, hw, specRestM_append L ops.bumpLine ops.lines maxCap m.ps st' _ _ hlines _ hfold]
      congr 1
      rw [hcb', isEmpty_append', flatten_isEmpty_of_lines _ hlines]
      cases (cbBytes m).isEmpty <;> cases (linesOf m.buf.data).1.isEmpty <;> rfl


/-- everything the proofs need to know about one `read` + `fill`, with the result named -/
theorem readBlock_named {σ} (maxCap : Nat) (input : Bytes) (s : St σ) (hm : Mid maxCap input s) :
    ∃ (r : St σ) (chunk : Bytes), readBlock s = (r, chunk) ∧
      r.cb = s.cb ∧ r.ps = s.ps ∧ r.fullyConsumed = s.fullyConsumed ∧ r.triedToGrow = s.triedToGrow ∧
      r.inRecovery = s.inRecovery ∧ r.justFinished = s.justFinished ∧ r.totalConsumed = s.totalConsumed ∧
      r.buf.cap = s.buf.cap ∧ chunk ++ r.unread = s.unread ∧
      Mid maxCap input r ∧ r.buf.data = s.buf.data ++ chunk ∧
      (chunk.length = 0 → s.buf.availableSpace = 0 ∨ r.unread = []) := by
  obtain ⟨f1, f2, f3, f4, f5, f6, f7, f8, f9⟩ := readBlock_facts s
  obtain ⟨m1, m2, m3⟩ := readBlock_mid maxCap input s hm
  exact ⟨(readBlock s).1, (readBlock s).2, rfl, f1, f2, f3, f4, f5, f6, f7, f8, f9, m1, m2, m3⟩

theorem zeroBlock_notJust {σ} (maxCap : Nat) (ops : Ops σ) (hadSpace : Bool) (r : St σ)
    (hj : r.justFinished = false) :
    zeroBlock maxCap ops hadSpace r =
      (if r.fullyConsumed = true then .inr (.ok r.ps, r)
       else if (!r.triedToGrow && !hadSpace) = true then
         (if satDouble r.buf.cap > maxCap then .inl { r with inRecovery := true }
          else .inl { r with buf := r.buf.grow (satDouble r.buf.cap), triedToGrow := true })
       else if r.totalConsumed = 0 then .inr (.err errEmpty 0, r)
       else .inr (.err errEof (ops.lines r.ps), r)) := by
  unfold zeroBlock
  simp only [hj, Bool.false_and, Bool.false_eq_true, if_false]

theorem isEmpty_false_of_ne {l : Bytes} (h : l ≠ []) : l.isEmpty = false := by
  cases l with
  | nil => exact absurd rfl h
  | cons _ _ => rfl

/-- one iteration from a normal state -/
theorem step_JM {σ} (maxCap : Nat) (input : Bytes) (ops : Ops σ) (L : σ → Bytes → LR σ)
    (hspec : PmSpec ops L) (hmax : 2 * maxCap ≤ U64MAX) (s : St σ) (hJ : JM maxCap input s) :
    (∃ sf, step maxCap ops s = .inr (specRestM L ops.bumpLine ops.lines maxCap s.ps
        (!(cbBytes s).isEmpty) (s.buf.data ++ s.unread), sf)) ∨
    (∃ s', step maxCap ops s = .inl s' ∧ JM maxCap input s' ∧
      specRestM L ops.bumpLine ops.lines maxCap s'.ps (!(cbBytes s').isEmpty) (s'.buf.data ++ s'.unread) =
      specRestM L ops.bumpLine ops.lines maxCap s.ps (!(cbBytes s).isEmpty) (s.buf.data ++ s.unread)) ∨
    (∃ s', step maxCap ops s = .inl s' ∧ RM maxCap input s' ∧
      specR L ops.bumpLine ops.lines maxCap s'.ps (s'.buf.data ++ s'.unread) =
      specRestM L ops.bumpLine ops.lines maxCap s.ps (!(cbBytes s).isEmpty) (s.buf.data ++ s.unread)) := by
  obtain ⟨hinv, hnr, hnj, hnoNL, hfully, htried, ⟨k, hk⟩, hmix⟩ := hJ
  obtain ⟨sp1, sp2⟩ := step_spec maxCap input ops s hinv
  obtain ⟨r, chunk, hrb, f_cb, f_ps, f_fc, f_tg, f_ir, f_jf, f_tc, f_cap, f_un, hm2, hd2, hz2⟩ :=
    readBlock_named maxCap input s hinv.toMid
  have hcbr : cbBytes r = cbBytes s := cbBytes_eq _ _ f_cb
  have hstep : step maxCap ops s =
      if chunk.length = 0 then zeroBlock maxCap ops (decide (s.buf.availableSpace > 0)) r
      else parseBlock ops { r with triedToGrow := false } := by
    unfold step; simp only [hnr, Bool.false_eq_true, if_false, hrb]
  by_cases hz : chunk.length = 0
  · -- ===== a zero-length read
    have hnil : chunk = [] := List.eq_nil_of_length_eq_zero hz
    rw [hnil, List.append_nil] at hd2
    rw [hnil, List.nil_append] at f_un
    have hzb := zeroBlock_notJust maxCap ops (decide (s.buf.availableSpace > 0)) r (f_jf.trans hnj)
    by_cases hfc : s.fullyConsumed = true
    · -- Ok
      left
      have hS : step maxCap ops s = .inr (.ok r.ps, r) := by
        rw [hstep, if_pos hz, hzb, if_pos (f_fc.trans hfc)]
      obtain ⟨hd, hne⟩ := hfully.mp hfc
      obtain ⟨_, hok⟩ := sp2 _ _ hS
      obtain ⟨_, hun⟩ := hok _ rfl
      refine ⟨r, ?_⟩
      rw [hS]
      rw [f_un] at hun
      rw [hd, hun, f_ps]
      simp [specRestM, isEmpty_false_of_ne hne, linesOf, linesAux, foldLM]
    · by_cases hgrow : (!r.triedToGrow && !decide (s.buf.availableSpace > 0)) = true
      · -- the buffer is full
        have hsp : s.buf.availableSpace = 0 := by
          simp only [Bool.and_eq_true, Bool.not_eq_true', decide_eq_false_iff_not] at hgrow
          omega
        have hbuf := hinv.buf
        have hsd : satDouble r.buf.cap = min (2 * s.buf.cap) U64MAX := by rw [f_cap]; rfl
        by_cases hcaplt : s.buf.cap < maxCap
        · -- it can still grow
          right; left
          have hk1 : ∃ k', k = k' + 1 := by
            cases k with
            | zero => simp at hk; omega
            | succ k' => exact ⟨k', rfl⟩
          obtain ⟨k', rfl⟩ := hk1
          have h2cap : 2 * s.buf.cap * 2 ^ k' = maxCap := by
            rw [← hk, Nat.pow_succ, Nat.mul_comm 2 s.buf.cap, Nat.mul_assoc, Nat.mul_comm 2 (2 ^ k')]
          have h2le : 2 * s.buf.cap ≤ maxCap := by
            have : 0 < 2 ^ k' := Nat.two_pow_pos k'
            calc 2 * s.buf.cap = 2 * s.buf.cap * 1 := by omega
              _ ≤ 2 * s.buf.cap * 2 ^ k' := Nat.mul_le_mul_left _ this
              _ = maxCap := h2cap
          have hsd' : satDouble r.buf.cap = 2 * s.buf.cap := by rw [hsd]; omega
          have hng : ¬ satDouble r.buf.cap > maxCap := by rw [hsd']; omega
          have hS : step maxCap ops s = .inl { r with
              buf := r.buf.grow (satDouble r.buf.cap), triedToGrow := true } := by
            rw [hstep, if_pos hz, hzb, if_neg (by rw [f_fc]; exact hfc), if_pos hgrow, if_neg hng]
          have hgc : (r.buf.grow (satDouble r.buf.cap)).cap = 2 * s.buf.cap := by
            unfold Buf.grow; rw [hsd', f_cap]
            have := hbuf.capPos
            split
            · omega
            · rfl
          have hgp : (r.buf.grow (satDouble r.buf.cap)).pos = r.buf.pos := by
            unfold Buf.grow; split <;> rfl
          have hcb' : cbBytes { r with buf := r.buf.grow (satDouble r.buf.cap), triedToGrow := true }
              = cbBytes s := cbBytes_eq _ _ f_cb
          refine ⟨_, hS, ?_, ?_⟩
          · refine ⟨sp1 _ hS, f_ir.trans hnr, f_jf.trans hnj, ?_, ?_, ?_, ⟨k', ?_⟩, ?_⟩
            · show NL ∉ (r.buf.grow _).data
              rw [Buf.grow_data, hd2]; exact hnoNL
            · show r.fullyConsumed = true ↔ ((r.buf.grow _).data = [] ∧ _ ≠ [])
              rw [Buf.grow_data, hd2, hcb', f_fc]
              exact hfully
            · intro _
              have hb2 := hm2.buf
              show (r.buf.grow (satDouble r.buf.cap)).availableSpace > 0
              simp only [Buf.availableSpace, Buf.end_, hgc, Buf.grow_data, hgp]
              have h1 := hb2.fits; have h2 := hbuf.capPos
              rw [f_cap] at h1
              omega
            · show (r.buf.grow (satDouble r.buf.cap)).cap * 2 ^ k' = maxCap
              rw [hgc]; exact h2cap
            · show Mixed _ _ ((r.buf.grow _).data ++ r.unread)
              rw [Buf.grow_data, hd2, f_un]; exact hmix
          · show specRestM L ops.bumpLine ops.lines maxCap r.ps _ ((r.buf.grow _).data ++ r.unread) = _
            rw [hcb', Buf.grow_data, hd2, f_un, f_ps]
        · -- at the limit: recovery starts, and the current line is over-long
          right; right
          have hcapeq : s.buf.cap = maxCap := by have := hinv.capLe; omega
          have hsd' : satDouble r.buf.cap > maxCap := by
            rw [hsd, hcapeq]
            have := hbuf.capPos
            omega
          have hS : step maxCap ops s = .inl { r with inRecovery := true } := by
            rw [hstep, if_pos hz, hzb, if_neg (by rw [f_fc]; exact hfc), if_pos hgrow, if_pos hsd']
          have hlen : maxCap / 2 ≤ s.buf.data.length := by
            have h1 := hbuf.fits; have h2 := hbuf.half
            simp only [Buf.availableSpace, Buf.end_] at hsp
            omega
          refine ⟨_, hS, ?_, ?_⟩
          · refine ⟨sp1 _ hS, rfl, f_jf.trans hnj, ?_, f_cap.trans hcapeq, ?_⟩
            · show r.triedToGrow = false
              simp only [Bool.and_eq_true, Bool.not_eq_true'] at hgrow; exact hgrow.1
            · intro i hi
              show Mixed _ _ ((r.buf.data ++ r.unread).drop (i + 1))
              have hi' : firstNL (s.buf.data ++ s.unread) = some i := by
                have : firstNL (r.buf.data ++ r.unread) = some i := hi
                rw [hd2, f_un] at this; exact this
              rw [hd2, f_un]
              obtain ⟨h1, h2⟩ := firstNL_some_split hi'
              have hline : IsLine ((s.buf.data ++ s.unread).take i ++ [NL]) := ⟨_, h1, rfl⟩
              have hsplit : s.buf.data ++ s.unread =
                  [(s.buf.data ++ s.unread).take i ++ [NL]].flatten ++ (s.buf.data ++ s.unread).drop (i + 1) := by
                conv => lhs; rw [h2]
                simp
              rw [hsplit] at hmix
              exact hmix.drop_lines _ (by intro l hl; simp only [List.mem_singleton] at hl; rw [hl]; exact hline) _
          · show specR L ops.bumpLine ops.lines maxCap r.ps (r.buf.data ++ r.unread) = _
            rw [hd2, f_un, f_ps]
            exact (specRestM_long_first L ops.bumpLine ops.lines (maxCap / 2) maxCap (Nat.div_le_self _ _)
              s.ps _ s.buf.data s.unread hnoNL hlen hmix).symm
      · -- end of input with an unterminated rest (or nothing at all)
        left
        have hhad : s.buf.availableSpace > 0 := by
          rw [f_tg] at hgrow
          cases htg : s.triedToGrow with
          | true => exact htried htg
          | false =>
            simp only [htg, Bool.not_false, Bool.true_and, Bool.not_eq_true', decide_eq_false_iff_not,
              Decidable.not_not] at hgrow
            exact hgrow
        have hun : s.unread = [] := by
          rcases hz2 hz with h | h
          · omega
          · rw [f_un] at h; exact h
        have hlo : linesOf s.buf.data = ([], s.buf.data) := linesOf_noNL _ hnoNL
        have htot : s.totalConsumed = (cbBytes s).length := hinv.total
        -- the unterminated rest is short (an over-long one would have filled the buffer)
        have hshort : ¬ s.buf.data.length ≥ maxCap := by
          intro hge
          have h1 := hinv.buf.fits; have h2 := hinv.capLe
          simp only [Buf.availableSpace, Buf.end_] at hhad
          omega
        by_cases ht0 : r.totalConsumed = 0
        · have hS : step maxCap ops s = .inr (.err errEmpty 0, r) := by
            rw [hstep, if_pos hz, hzb, if_neg (by rw [f_fc]; exact hfc), if_neg hgrow, if_pos ht0]
          refine ⟨r, ?_⟩
          rw [hS]
          rw [f_tc, htot] at ht0
          have hce : cbBytes s = [] := List.eq_nil_of_length_eq_zero ht0
          rw [hun, List.append_nil]
          simp [specRestM, hlo, foldLM, hce, hshort]
        · have hS : step maxCap ops s = .inr (.err errEof (ops.lines r.ps), r) := by
            rw [hstep, if_pos hz, hzb, if_neg (by rw [f_fc]; exact hfc), if_neg hgrow, if_neg ht0]
          refine ⟨r, ?_⟩
          rw [hS]
          rw [f_tc, htot] at ht0
          have hce : (cbBytes s).isEmpty = false := by
            cases h : cbBytes s with
            | nil => simp [h] at ht0
            | cons _ _ => rfl
          have hdne : s.buf.data.isEmpty = false := by
            cases h : s.buf.data with
            | nil =>
              exfalso; apply hfc; apply hfully.mpr
              refine ⟨h, ?_⟩
              intro hc; rw [hc] at hce; simp at hce
            | cons _ _ => rfl
          rw [hun, List.append_nil, f_ps]
          simp [specRestM, hlo, foldLM, hce, hdne, hshort]
  · -- ===== some bytes were read: the parser runs on the window
    have hne : ({ r with triedToGrow := false } : St σ).buf.data ≠ [] := by
      show r.buf.data ≠ []
      rw [hd2]
      intro h
      have := (List.append_eq_nil_iff.mp h).2
      exact hz (by rw [this]; rfl)
    have hmix' : Mixed (maxCap / 2) maxCap
        (({ r with triedToGrow := false } : St σ).buf.data ++ ({ r with triedToGrow := false } : St σ).unread) := by
      show Mixed _ _ (r.buf.data ++ r.unread)
      rw [hd2, List.append_assoc, f_un]; exact hmix
    have hps := parse_step maxCap input ops L hspec { r with triedToGrow := false }
      (hm2.congr rfl rfl rfl rfl) (f_ir.trans hnr) hne rfl ⟨k, by show r.buf.cap * 2 ^ k = maxCap; rw [f_cap]; exact hk⟩ hmix'
    have hrest : s.buf.data ++ s.unread = r.buf.data ++ r.unread := by
      rw [hd2, List.append_assoc, f_un]
    rw [hstep, if_neg hz, ← f_ps, ← hcbr, hrest]
    rcases hps with ⟨sf, h⟩ | ⟨s', h1, h2, h3⟩
    · exact Or.inl ⟨sf, h⟩
    · exact Or.inr (Or.inl ⟨s', h1, h2, h3⟩)


theorem recoverBlock_some {σ} (maxCap : Nat) (input : Bytes) (ops : Ops σ) (s : St σ) (idx : Nat)
    (hm : Mid maxCap input s) (h : firstNL s.buf.data = some idx) :
    ∃ s1, recoverBlock ops s = s1 ∧ Mid maxCap input s1 ∧
      s1.inRecovery = false ∧ s1.justFinished = true ∧ s1.triedToGrow = s.triedToGrow ∧
      s1.ps = ops.bumpLine s.ps ∧ s1.buf.data = s.buf.data.drop (idx + 1) ∧ s1.unread = s.unread ∧
      cbBytes s1 = cbBytes s ++ s.buf.data.take (idx + 1) ∧ s1.buf.cap = s.buf.cap ∧
      s1.fullyConsumed = (s.buf.data.drop (idx + 1)).isEmpty := by
  have e : recoverBlock ops s =
      { s with cb := s.buf.data.take (idx + 1) :: s.cb, buf := s.buf.consume (idx + 1),
               totalConsumed := s.totalConsumed + (idx + 1), inRecovery := false,
               fullyConsumed := (s.buf.consume (idx + 1)).data.isEmpty, justFinished := true,
               ps := ops.bumpLine s.ps } := by
    unfold recoverBlock; simp only [h]
  refine ⟨_, rfl, (recoverBlock_mid maxCap input ops s hm).1, ?_⟩
  rw [e]
  refine ⟨rfl, rfl, rfl, rfl, Buf.consume_data _ _, rfl, cbBytes_push s _ _ rfl, Buf.consume_cap _ _, ?_⟩
  show ((s.buf.consume (idx + 1)).data).isEmpty = _
  rw [Buf.consume_data]

theorem recoverBlock_none {σ} (maxCap : Nat) (input : Bytes) (ops : Ops σ) (s : St σ)
    (hm : Mid maxCap input s) (h : firstNL s.buf.data = none) :
    ∃ s1, recoverBlock ops s = s1 ∧ Mid maxCap input s1 ∧
      s1.inRecovery = s.inRecovery ∧ s1.justFinished = s.justFinished ∧ s1.triedToGrow = s.triedToGrow ∧
      s1.ps = s.ps ∧ s1.buf.data = [] ∧ s1.unread = s.unread ∧ s1.buf.cap = s.buf.cap ∧
      s1.fullyConsumed = true := by
  have e : recoverBlock ops s =
      { s with cb := s.buf.data.take s.buf.data.length :: s.cb, buf := s.buf.consume s.buf.data.length,
               totalConsumed := s.totalConsumed + s.buf.data.length, fullyConsumed := true } := by
    unfold recoverBlock; simp only [h]
  refine ⟨_, rfl, (recoverBlock_mid maxCap input ops s hm).1, ?_⟩
  rw [e]
  refine ⟨rfl, rfl, rfl, rfl, ?_, rfl, Buf.consume_cap _ _, rfl⟩
  show (s.buf.consume s.buf.data.length).data = []
  rw [Buf.consume_data, List.drop_length]

theorem space_pos_of_empty (b : Buf) (hb : b.Inv) (hd : b.data = []) : b.availableSpace > 0 := by
  have h1 := hb.half; have h2 := hb.capPos
  simp only [Buf.availableSpace, Buf.end_, hd, List.length_nil, Nat.add_zero]
  omega

/-- one iteration in recovery mode -/
theorem step_RM {σ} (maxCap : Nat) (input : Bytes) (ops : Ops σ) (L : σ → Bytes → LR σ)
    (hspec : PmSpec ops L) (s : St σ) (hR : RM maxCap input s) :
    (∃ sf, step maxCap ops s = .inr (specR L ops.bumpLine ops.lines maxCap s.ps (s.buf.data ++ s.unread), sf)) ∨
    (∃ s', step maxCap ops s = .inl s' ∧ JM maxCap input s' ∧
      specRestM L ops.bumpLine ops.lines maxCap s'.ps (!(cbBytes s').isEmpty) (s'.buf.data ++ s'.unread) =
      specR L ops.bumpLine ops.lines maxCap s.ps (s.buf.data ++ s.unread)) ∨
    (∃ s', step maxCap ops s = .inl s' ∧ RM maxCap input s' ∧
      specR L ops.bumpLine ops.lines maxCap s'.ps (s'.buf.data ++ s'.unread) =
      specR L ops.bumpLine ops.lines maxCap s.ps (s.buf.data ++ s.unread)) := by
  obtain ⟨hinv, hrec, hnj, hnt, hcap, hmixA⟩ := hR
  obtain ⟨sp1, sp2⟩ := step_spec maxCap input ops s hinv
  cases hf : firstNL s.buf.data with
  | some idx =>
    -- the newline is in the window: recovery ends here
    obtain ⟨s1, hs1, hm1, g_ir, g_jf, g_tg, g_ps, g_d, g_un, g_cb, g_cap, g_fc⟩ :=
      recoverBlock_some maxCap input ops s idx hinv.toMid hf
    obtain ⟨r, chunk, hrb, f_cb, f_ps, f_fc, f_tg, f_ir, f_jf, f_tc, f_cap, f_un, hm2, hd2, hz2⟩ :=
      readBlock_named maxCap input s1 hm1
    have hstep : step maxCap ops s =
        if chunk.length = 0 then zeroBlock maxCap ops (decide (s1.buf.availableSpace > 0)) r
        else parseBlock ops { r with triedToGrow := false } := by
      unfold step; simp only [hrec, if_true, hs1, hrb]
    have hlt := firstNL_lt hf
    have hfull : firstNL (s.buf.data ++ s.unread) = some idx := firstNL_append_left _ hf
    -- the reference answer from here
    have hspecR : specR L ops.bumpLine ops.lines maxCap s.ps (s.buf.data ++ s.unread) =
        specRestM L ops.bumpLine ops.lines maxCap (ops.bumpLine s.ps) true (s1.buf.data ++ s1.unread) := by
      unfold specR
      rw [hfull]
      simp only []
      rw [g_d, g_un, List.drop_append_of_le_length (by omega)]
    have hmix1 : Mixed (maxCap / 2) maxCap (s1.buf.data ++ s1.unread) := by
      have := hmixA idx hfull
      rw [List.drop_append_of_le_length (by omega)] at this
      rw [g_d, g_un]; exact this
    have hcb1 : (cbBytes s1).isEmpty = false := by
      rw [g_cb]
      apply isEmpty_false_of_ne
      intro h
      have := (List.append_eq_nil_iff.mp h).2
      have hl : (s.buf.data.take (idx + 1)).length = idx + 1 := by simp; omega
      rw [this] at hl; simp at hl
    have hcbr : cbBytes r = cbBytes s1 := cbBytes_eq _ _ f_cb
    have hchain : ∃ k, r.buf.cap * 2 ^ k = maxCap := ⟨0, by rw [f_cap, g_cap, hcap]; simp⟩
    by_cases hz : chunk.length = 0
    · have hnil : chunk = [] := List.eq_nil_of_length_eq_zero hz
      rw [hnil, List.append_nil] at hd2
      rw [hnil, List.nil_append] at f_un
      by_cases hde : s1.buf.data = []
      · -- nothing left in the window: end of input right after the dropped line
        left
        have hzb : zeroBlock maxCap ops (decide (s1.buf.availableSpace > 0)) r = .inr (.ok r.ps, r) := by
          unfold zeroBlock
          have h1 : (r.justFinished && !r.buf.data.isEmpty) = false := by rw [hd2, hde]; simp
          have h2 : r.fullyConsumed = true := by rw [f_fc, g_fc, ← g_d, hde]; rfl
          simp only [h1, Bool.false_eq_true, if_false, h2, if_true]
        have hun : s1.unread = [] := by
          rcases hz2 hz with h | h
          · have := space_pos_of_empty s1.buf hm1.buf hde; omega
          · rw [f_un] at h; exact h
        refine ⟨r, ?_⟩
        rw [hstep, if_pos hz, hzb, hspecR, hde, hun, f_ps, g_ps]
        simp [specRestM, linesOf, linesAux, foldLM]
      · -- the rest of the window is parsed right away
        have hzb : zeroBlock maxCap ops (decide (s1.buf.availableSpace > 0)) r = parseBlock ops r := by
          unfold zeroBlock
          have h1 : (r.justFinished && !r.buf.data.isEmpty) = true := by
            rw [f_jf, g_jf, hd2, isEmpty_false_of_ne hde]; rfl
          simp only [h1, if_true]
        have hps := parse_step maxCap input ops L hspec r hm2 (f_ir.trans g_ir) (by rw [hd2]; exact hde)
          (f_tg.trans (g_tg.trans hnt)) hchain (by rw [hd2, f_un]; exact hmix1)
        rw [hcbr, hcb1, f_ps, g_ps, hd2, f_un] at hps
        rw [hstep, if_pos hz, hzb, hspecR]
        rcases hps with ⟨sf, h⟩ | ⟨s', h1, h2, h3⟩
        · exact Or.inl ⟨sf, h⟩
        · exact Or.inr (Or.inl ⟨s', h1, h2, h3⟩)
    · -- more bytes arrived: the parser runs on what follows the dropped line
      have hne : ({ r with triedToGrow := false } : St σ).buf.data ≠ [] := by
        show r.buf.data ≠ []
        rw [hd2]
        intro h
        have := (List.append_eq_nil_iff.mp h).2
        exact hz (by rw [this]; rfl)
      have hrest : s1.buf.data ++ s1.unread = r.buf.data ++ r.unread := by
        rw [hd2, List.append_assoc, f_un]
      have hps := parse_step maxCap input ops L hspec { r with triedToGrow := false }
        (hm2.congr rfl rfl rfl rfl) (f_ir.trans g_ir) hne rfl hchain
        (by show Mixed _ _ (r.buf.data ++ r.unread); rw [← hrest]; exact hmix1)
      have hcb2 : cbBytes ({ r with triedToGrow := false } : St σ) = cbBytes s1 := cbBytes_eq _ _ f_cb
      rw [hstep, if_neg hz, hspecR, hrest, ← g_ps, ← f_ps]
      rw [hcb2, hcb1] at hps
      rcases hps with ⟨sf, h⟩ | ⟨s', h1, h2, h3⟩
      · exact Or.inl ⟨sf, h⟩
      · exact Or.inr (Or.inl ⟨s', h1, h2, h3⟩)
  | none =>
    -- still inside the over-long line: everything in the window is discarded
    obtain ⟨s1, hs1, hm1, g_ir, g_jf, g_tg, g_ps, g_d, g_un, g_cap, g_fc⟩ :=
      recoverBlock_none maxCap input ops s hinv.toMid hf
    obtain ⟨r, chunk, hrb, f_cb, f_ps, f_fc, f_tg, f_ir, f_jf, f_tc, f_cap, f_un, hm2, hd2, hz2⟩ :=
      readBlock_named maxCap input s1 hm1
    have hstep : step maxCap ops s =
        if chunk.length = 0 then zeroBlock maxCap ops (decide (s1.buf.availableSpace > 0)) r
        else parseBlock ops { r with triedToGrow := false } := by
      unfold step; simp only [hrec, if_true, hs1, hrb]
    have hnoNL : NL ∉ s.buf.data := firstNL_mem hf
    have hspecR : specR L ops.bumpLine ops.lines maxCap s.ps (s.buf.data ++ s.unread) =
        specR L ops.bumpLine ops.lines maxCap s.ps s.unread := specR_prefix _ _ _ _ _ _ _ hnoNL
    by_cases hz : chunk.length = 0
    · left
      have hnil : chunk = [] := List.eq_nil_of_length_eq_zero hz
      rw [hnil, List.append_nil] at hd2
      rw [hnil, List.nil_append] at f_un
      have hzb := zeroBlock_notJust maxCap ops (decide (s1.buf.availableSpace > 0)) r
        (f_jf.trans (g_jf.trans hnj))
      have hun : s.unread = [] := by
        rcases hz2 hz with h | h
        · have := space_pos_of_empty s1.buf hm1.buf g_d; omega
        · rw [f_un, g_un] at h; exact h
      refine ⟨r, ?_⟩
      rw [hstep, if_pos hz, hzb, if_pos (f_fc.trans g_fc), hspecR, hun, f_ps, g_ps]
      rfl
    · right; right
      have hS : step maxCap ops s = .inl { r with triedToGrow := false } := by
        rw [hstep, if_neg hz]
        unfold parseBlock
        rw [if_pos (show r.inRecovery = true from f_ir.trans (g_ir.trans hrec))]
      have hrest : r.buf.data ++ r.unread = s.unread := by
        rw [hd2, g_d, List.nil_append, f_un, g_un]
      refine ⟨_, hS, ⟨sp1 _ hS, f_ir.trans (g_ir.trans hrec), f_jf.trans (g_jf.trans hnj), rfl,
        (f_cap.trans (g_cap.trans hcap)), ?_⟩, ?_⟩
      · intro i hi
        show Mixed _ _ ((r.buf.data ++ r.unread).drop (i + 1))
        have hi' : firstNL s.unread = some i := by
          have : firstNL (r.buf.data ++ r.unread) = some i := hi
          rw [hrest] at this; exact this
        have h2 : firstNL (s.buf.data ++ s.unread) = some (i + s.buf.data.length) := by
          rw [firstNL_prefix _ _ hnoNL, hi']; rfl
        have := hmixA _ h2
        rw [hrest]
        rw [show i + s.buf.data.length + 1 = s.buf.data.length + (i + 1) by omega, ← List.drop_drop,
          List.drop_left] at this
        exact this
      · show specR L ops.bumpLine ops.lines maxCap r.ps (r.buf.data ++ r.unread) = _
        rw [hrest, hspecR, f_ps, g_ps]


theorem run_M {σ} (maxCap : Nat) (input : Bytes) (ops : Ops σ) (L : σ → Bytes → LR σ)
    (hspec : PmSpec ops L) (hmax : 2 * maxCap ≤ U64MAX) :
    ∀ (fuel : Nat) (s : St σ), measure s < fuel →
      (JM maxCap input s → ∃ sf, run maxCap ops fuel s =
        some (specRestM L ops.bumpLine ops.lines maxCap s.ps (!(cbBytes s).isEmpty) (s.buf.data ++ s.unread), sf)) ∧
      (RM maxCap input s → ∃ sf, run maxCap ops fuel s =
        some (specR L ops.bumpLine ops.lines maxCap s.ps (s.buf.data ++ s.unread), sf)) := by
  intro fuel
  induction fuel with
  | zero => intro s h; omega
  | succ n ih =>
    intro s hm
    constructor
    · intro hJ
      unfold run
      rcases step_JM maxCap input ops L hspec hmax s hJ with ⟨sf, h⟩ | ⟨s', h, hJ', heq⟩ | ⟨s', h, hR', heq⟩
      · rw [h]; exact ⟨sf, rfl⟩
      · rw [h]
        have := step_measure maxCap ops s s' h
        obtain ⟨sf, hr⟩ := (ih s' (by omega)).1 hJ'
        exact ⟨sf, by show run maxCap ops n s' = _; rw [hr, heq]⟩
      · rw [h]
        have := step_measure maxCap ops s s' h
        obtain ⟨sf, hr⟩ := (ih s' (by omega)).2 hR'
        exact ⟨sf, by show run maxCap ops n s' = _; rw [hr, heq]⟩
    · intro hR
      unfold run
      rcases step_RM maxCap input ops L hspec s hR with ⟨sf, h⟩ | ⟨s', h, hJ', heq⟩ | ⟨s', h, hR', heq⟩
      · rw [h]; exact ⟨sf, rfl⟩
      · rw [h]
        have := step_measure maxCap ops s s' h
        obtain ⟨sf, hr⟩ := (ih s' (by omega)).1 hJ'
        exact ⟨sf, by show run maxCap ops n s' = _; rw [hr, heq]⟩
      · rw [h]
        have := step_measure maxCap ops s s' h
        obtain ⟨sf, hr⟩ := (ih s' (by omega)).2 hR'
        exact ⟨sf, by show run maxCap ops n s' = _; rw [hr, heq]⟩

theorem init_JM {σ} (maxCap initCap : Nat) (input : Bytes) (st0 : σ) (sched : List Nat)
    (h0 : 0 < initCap) (hchain : ∃ k, initCap * 2 ^ k = maxCap)
    (hmix : Mixed (maxCap / 2) maxCap input) :
    JM maxCap input (init initCap st0 input sched) := by
  have hle : initCap ≤ maxCap := by
    obtain ⟨k, hk⟩ := hchain
    have : 0 < 2 ^ k := Nat.two_pow_pos k
    calc initCap = initCap * 1 := by omega
      _ ≤ initCap * 2 ^ k := Nat.mul_le_mul_left _ this
      _ = maxCap := hk
  refine ⟨init_inv maxCap initCap st0 input sched h0 hle, rfl, rfl, ?_, ?_, ?_, hchain, ?_⟩
  · simp [init, Buf.withCapacity]
  · simp [init, cbBytes]
  · intro h; cases h
  · simpa [init, Buf.withCapacity] using hmix

/-- **The buffer machine drops over-long lines and is otherwise chunk independent**: if every line
    of the input is either shorter than `maxCap/2` or longer than `maxCap`, then for EVERY chunk
    schedule the loop returns the reference semantics `specOutM` (over-long lines only advance the
    line counter; an over-long unterminated rest is dropped and the parse succeeds). -/
theorem machine_eq_specM {σ} (maxCap initCap : Nat) (input : Bytes) (ops : Ops σ) (L : σ → Bytes → LR σ)
    (st0 : σ) (sched : List Nat)
    (hspec : PmSpec ops L) (hmax : 2 * maxCap ≤ U64MAX) (h0 : 0 < initCap)
    (hchain : ∃ k, initCap * 2 ^ k = maxCap) (hmix : Mixed (maxCap / 2) maxCap input) :
    ∃ sf, run maxCap ops (fuelFor input) (init initCap st0 input sched) =
      some (specOutM L ops.bumpLine ops.lines maxCap st0 input, sf) := by
  obtain ⟨sf, h⟩ := (run_M maxCap input ops L hspec hmax (fuelFor input) _
    (measure_init initCap st0 input sched)).1 (init_JM maxCap initCap input st0 sched h0 hchain hmix)
  refine ⟨sf, ?_⟩
  rw [h]
  simp [specOutM, init, cbBytes, Buf.withCapacity]

end MdModel.Stream
