/-
  Bridge C06 ↔ walker model, part 6: the simulation relation is inhabited.

  `walkerOf x`: the C06 `Walker` record built from the walker model's `CfiIn` (architecture,
  callee context with its validity set, stack memory) — register names and alias tables of the
  architecture, the valid callee registers, the memory image, the pointer width. For every
  architecture, every callee context whose validity set holds only register names of the context
  type and whose registers are 64-bit values, and every stack memory: `WalkerSim x (walkerOf x …)`.
  `fwdOf`: the forwarded caller registers of a `CfiOut`, related at every register.
-/
import MdProofs.Lemmas.CfiBridgeWalk
namespace MdModel.CfiBridge
open MdModel

/-- `memoize_register`'s alias arms, per context type -/
def aliasTable : Walk.Arch → List (String × String)
  | .arm => [("r11", "fp"), ("r13", "sp"), ("r14", "lr"), ("r15", "pc")]
  | .arm64 | .arm64old => [("x29", "fp"), ("x30", "lr")]
  | _ => []

def ptrOf (a : Walk.Arch) : Nat := if a.regMax = U32MAX then 4 else 8

/-- the C06 model's `Walker` for the walker model's callee frame -/
def walkerOf (x : Walk.CfiIn) (instr : Nat) (fwd : List (Cfi.Name × UInt64)) : Cfi.Walker :=
  { instr := instr
    ptr := ptrOf x.arch
    known := x.arch.registers.map utf8
    aliases := (aliasTable x.arch).map fun p => (utf8 p.1, utf8 p.2)
    callee := x.arch.registers.filterMap fun r => (x.reg r).map fun v => (utf8 r, UInt64.ofNat v)
    memBase := x.mem.base
    mem := x.mem.bytes.toList
    fwd := fwd
    be := x.mem.be }

/-! ## names -/

theorem contains_map_utf8 (l : List String) (n : String) : (l.map utf8).contains (utf8 n) = l.contains n := by
  induction l with
  | nil => rfl
  | cons a l ih =>
    rw [List.map_cons, List.contains_cons, List.contains_cons, ih]
    by_cases h : n = a
    · subst h; simp
    · have : ¬ utf8 n = utf8 a := fun e => h (utf8_inj e)
      rw [beq_eq_false_iff_ne.mpr h, beq_eq_false_iff_ne.mpr this]

theorem lookupName_map_utf8 (tbl : List (String × String)) (n : String) :
    Cfi.lookupName (tbl.map fun p => (utf8 p.1, utf8 p.2)) (utf8 n) = (tbl.lookup n).map utf8 := by
  induction tbl with
  | nil => rfl
  | cons p t ih =>
    obtain ⟨k, v⟩ := p
    rw [List.map_cons, Cfi.lookupName_cons]
    by_cases h : n = k
    · subst h; simp [List.lookup]
    · have h1 : ¬ utf8 k = utf8 n := fun e => h (utf8_inj e).symm
      have h2 : (n == k) = false := by rw [beq_eq_false_iff_ne]; exact h
      simp only [h1, if_false, List.lookup, h2]
      exact ih

/-- the walker model's `canon` as one table lookup -/
theorem canon_eq (a : Walk.Arch) (n : String) :
    a.canon n = match (aliasTable a).lookup n with
                | some c => some c
                | none => if a.registers.contains n then some n else none := by
  cases a <;> simp only [Walk.Arch.canon, aliasTable, List.lookup]
  · -- arm
    by_cases h1 : n = "r11"
    · subst h1; rfl
    by_cases h2 : n = "r13"
    · subst h2; rfl
    by_cases h3 : n = "r14"
    · subst h3; rfl
    by_cases h4 : n = "r15"
    · subst h4; rfl
    have b1 : (n == "r11") = false := by rw [beq_eq_false_iff_ne]; exact h1
    have b2 : (n == "r13") = false := by rw [beq_eq_false_iff_ne]; exact h2
    have b3 : (n == "r14") = false := by rw [beq_eq_false_iff_ne]; exact h3
    have b4 : (n == "r15") = false := by rw [beq_eq_false_iff_ne]; exact h4
    simp only [h1, h2, h3, h4, if_false, b1, b2, b3, b4]
  · by_cases h1 : n = "x29"
    · subst h1; rfl
    by_cases h2 : n = "x30"
    · subst h2; rfl
    have b1 : (n == "x29") = false := by rw [beq_eq_false_iff_ne]; exact h1
    have b2 : (n == "x30") = false := by rw [beq_eq_false_iff_ne]; exact h2
    simp only [h1, h2, if_false, b1, b2]
  · by_cases h1 : n = "x29"
    · subst h1; rfl
    by_cases h2 : n = "x30"
    · subst h2; rfl
    have b1 : (n == "x29") = false := by rw [beq_eq_false_iff_ne]; exact h1
    have b2 : (n == "x30") = false := by rw [beq_eq_false_iff_ne]; exact h2
    simp only [h1, h2, if_false, b1, b2]

/-- alias names are not register names themselves, alias targets are -/
theorem aliasTable_ok (a : Walk.Arch) :
    ∀ p ∈ aliasTable a, a.registers.contains p.1 = false ∧ a.registers.contains p.2 = true := by
  cases a <;> decide

theorem lookup_mem {α β} [BEq α] [LawfulBEq α] (l : List (α × β)) (k : α) (v : β) (h : l.lookup k = some v) :
    (k, v) ∈ l := by
  induction l with
  | nil => simp [List.lookup] at h
  | cons p t ih =>
    obtain ⟨k', v'⟩ := p
    simp only [List.lookup] at h
    split at h
    · rename_i hb; cases h; rw [eq_of_beq hb]; exact List.mem_cons_self
    · exact List.mem_cons_of_mem _ (ih h)

theorem memo_walkerOf (x : Walk.CfiIn) (instr : Nat) (fwd : List (Cfi.Name × UInt64)) (n : String) :
    (walkerOf x instr fwd).memo (utf8 n) = (x.arch.canon n).map utf8 := by
  unfold Cfi.Walker.memo walkerOf
  simp only [contains_map_utf8, lookupName_map_utf8]
  rw [canon_eq]
  cases hl : (aliasTable x.arch).lookup n with
  | none =>
    simp only [Option.map_none]
    by_cases hc : x.arch.registers.contains n = true
    · simp only [hc, if_true, Option.map_some]
    · simp only [hc, Bool.false_eq_true, if_false, Option.map_none]
  | some c =>
    have hm := aliasTable_ok x.arch (n, c) (lookup_mem _ _ _ hl)
    simp only [Option.map_some, hm.1, Bool.false_eq_true, if_false, contains_map_utf8, hm.2, if_true]

theorem canon_mem (a : Walk.Arch) (n s : String) (h : a.canon n = some s) : a.registers.contains s = true := by
  rw [canon_eq] at h
  cases hl : (aliasTable a).lookup n with
  | some c =>
    have hm := (aliasTable_ok a (n, c) (lookup_mem _ _ _ hl)).2
    rw [hl] at h; cases h
    exact hm
  | none =>
    rw [hl] at h
    simp only at h
    split at h
    · rename_i hc; cases h; exact hc
    · cases h

theorem lookup_none_of_register (a : Walk.Arch) (s : String) (h : a.registers.contains s = true) :
    (aliasTable a).lookup s = none := by
  cases hl : (aliasTable a).lookup s with
  | none => rfl
  | some c =>
    have := (aliasTable_ok a (s, c) (lookup_mem _ _ _ hl)).1
    simp only at this
    rw [h] at this; cases this

theorem canon_idem (a : Walk.Arch) (n s : String) (h : a.canon n = some s) : a.canon s = some s := by
  have hs := canon_mem a n s h
  rw [canon_eq, lookup_none_of_register a s hs]
  simp only [hs, if_true]

theorem plain_canon (regs : List String) (n s : String)
    (h : (if regs.contains n = true then some n else none) = some s) : n = s ∧ regs.contains s = true := by
  split at h
  · rename_i hc; cases h; exact ⟨rfl, hc⟩
  · cases h

/-- `register_is_valid` looks an alias and its canonical name up under the same names -/
theorem aliases_canon (a : Walk.Arch) (n s : String) (h : a.canon n = some s) : a.aliases n = a.aliases s := by
  cases a with
  | arm =>
    simp only [Walk.Arch.canon] at h
    by_cases h1 : n = "r11"
    · subst h1; simp only [if_true, Option.some.injEq] at h; subst h; rfl
    by_cases h2 : n = "r13"
    · subst h2; simp only [h1, if_true, if_false, Option.some.injEq] at h; subst h; rfl
    by_cases h3 : n = "r14"
    · subst h3; simp only [h1, h2, if_true, if_false, Option.some.injEq] at h; subst h; rfl
    by_cases h4 : n = "r15"
    · subst h4; simp only [h1, h2, h3, if_true, if_false, Option.some.injEq] at h; subst h; rfl
    simp only [h1, h2, h3, h4, if_false] at h
    rw [(plain_canon _ n s h).1]
  | arm64 =>
    simp only [Walk.Arch.canon] at h
    by_cases h1 : n = "x29"
    · subst h1; simp only [if_true, Option.some.injEq] at h; subst h; rfl
    by_cases h2 : n = "x30"
    · subst h2; simp only [h1, if_true, if_false, Option.some.injEq] at h; subst h; rfl
    simp only [h1, h2, if_false] at h
    rw [(plain_canon _ n s h).1]
  | arm64old =>
    simp only [Walk.Arch.canon] at h
    by_cases h1 : n = "x29"
    · subst h1; simp only [if_true, Option.some.injEq] at h; subst h; rfl
    by_cases h2 : n = "x30"
    · subst h2; simp only [h1, if_true, if_false, Option.some.injEq] at h; subst h; rfl
    simp only [h1, h2, if_false] at h
    rw [(plain_canon _ n s h).1]
  | x86 => simp only [Walk.Arch.canon] at h; rw [(plain_canon _ n s h).1]
  | amd64 => simp only [Walk.Arch.canon] at h; rw [(plain_canon _ n s h).1]
  | mips32 => simp only [Walk.Arch.canon] at h; rw [(plain_canon _ n s h).1]
  | mips64 => simp only [Walk.Arch.canon] at h; rw [(plain_canon _ n s h).1]

theorem plain_none (regs : List String) (n : String)
    (h : (if regs.contains n = true then some n else none) = none) : regs.contains n = false := by
  split at h
  · cases h
  · rename_i hc; simpa using hc

/-- a name the context type does not know is its own only alias -/
theorem aliases_unknown (a : Walk.Arch) (n : String) (h : a.canon n = none) : a.aliases n = [n] := by
  cases a with
  | arm =>
    simp only [Walk.Arch.canon] at h
    by_cases h1 : n = "r11"
    · subst h1; simp at h
    by_cases h2 : n = "r13"
    · subst h2; simp at h
    by_cases h3 : n = "r14"
    · subst h3; simp at h
    by_cases h4 : n = "r15"
    · subst h4; simp at h
    simp only [h1, h2, h3, h4, if_false] at h
    have hc := plain_none _ n h
    have f1 : n ≠ "fp" := fun e => by subst e; exact absurd hc (by decide)
    have f2 : n ≠ "sp" := fun e => by subst e; exact absurd hc (by decide)
    have f3 : n ≠ "lr" := fun e => by subst e; exact absurd hc (by decide)
    have f4 : n ≠ "pc" := fun e => by subst e; exact absurd hc (by decide)
    simp only [Walk.Arch.aliases, h1, h2, h3, h4, f1, f2, f3, f4, or_self, if_false]
  | arm64 =>
    simp only [Walk.Arch.canon] at h
    by_cases h1 : n = "x29"
    · subst h1; simp at h
    by_cases h2 : n = "x30"
    · subst h2; simp at h
    simp only [h1, h2, if_false] at h
    have hc := plain_none _ n h
    have f1 : n ≠ "fp" := fun e => by subst e; exact absurd hc (by decide)
    have f2 : n ≠ "lr" := fun e => by subst e; exact absurd hc (by decide)
    simp only [Walk.Arch.aliases, h1, h2, f1, f2, or_self, if_false]
  | arm64old =>
    simp only [Walk.Arch.canon] at h
    by_cases h1 : n = "x29"
    · subst h1; simp at h
    by_cases h2 : n = "x30"
    · subst h2; simp at h
    simp only [h1, h2, if_false] at h
    have hc := plain_none _ n h
    have f1 : n ≠ "fp" := fun e => by subst e; exact absurd hc (by decide)
    have f2 : n ≠ "lr" := fun e => by subst e; exact absurd hc (by decide)
    simp only [Walk.Arch.aliases, h1, h2, f1, f2, or_self, if_false]
  | x86 => rfl
  | amd64 => rfl
  | mips32 => rfl
  | mips64 => rfl

/-! ## callee registers -/

/-- the validity set names only registers of the context type (the code's invariant: the sets are
    built from `CpuContext::REGISTERS` and alias literals) -/
def ValidWf (a : Walk.Arch) (c : Walk.Ctx) : Prop :=
  match c.valid with
  | none => True
  | some which => ∀ n ∈ which, (a.canon n).isSome = true

theorem reg_unknown (x : Walk.CfiIn) (hv : ValidWf x.arch x.callee) (n : String) (h : x.arch.canon n = none) :
    x.reg n = none := by
  unfold Walk.CfiIn.reg Walk.Ctx.get Walk.Ctx.has
  unfold ValidWf at hv
  cases hval : x.callee.valid with
  | none => simp [h]
  | some which =>
    rw [hval] at hv
    simp only [aliases_unknown _ _ h, List.any_cons, List.any_nil, Bool.or_false]
    by_cases hc : which.contains n = true
    · have := hv n (List.contains_iff_mem.mp hc)
      rw [h] at this; cases this
    · rw [Bool.not_eq_true] at hc
      simp only [hc, Bool.false_eq_true, if_false]

theorem reg_canon (x : Walk.CfiIn) (n s : String) (h : x.arch.canon n = some s) : x.reg n = x.reg s := by
  have hs := canon_idem _ _ _ h
  unfold Walk.CfiIn.reg Walk.Ctx.get Walk.Ctx.has Walk.Ctx.raw
  rw [aliases_canon _ _ _ h, h, hs]

theorem lookup_callee (x : Walk.CfiIn) (regs : List String) (s : String) (hs : regs.contains s = true) :
    Cfi.lookupName (regs.filterMap fun r => (x.reg r).map fun v => (utf8 r, UInt64.ofNat v)) (utf8 s) =
      (x.reg s).map UInt64.ofNat := by
  induction regs with
  | nil => simp at hs
  | cons r t ih =>
    by_cases hr : r = s
    · subst hr
      cases hx : x.reg r with
      | none =>
        simp only [List.filterMap_cons, hx, Option.map_none]
        -- not in the head; any later entry with this key would need `x.reg r = some _`
        have : ∀ l : List String, Cfi.lookupName (l.filterMap fun r' => (x.reg r').map fun v => (utf8 r', UInt64.ofNat v)) (utf8 r) = none := by
          intro l
          induction l with
          | nil => rfl
          | cons r' l ihl =>
            cases hx' : x.reg r' with
            | none => simp only [List.filterMap_cons, hx', Option.map_none]; exact ihl
            | some v' =>
              simp only [List.filterMap_cons, hx', Option.map_some]
              rw [Cfi.lookupName_cons]
              have : ¬ utf8 r' = utf8 r := fun e => by
                rw [utf8_inj e] at hx'; rw [hx] at hx'; cases hx'
              simp only [this, if_false]; exact ihl
        exact this t
      | some v =>
        simp only [List.filterMap_cons, hx, Option.map_some]
        rw [Cfi.lookupName_cons]; simp
    · have hs' : t.contains s = true := by
        rw [List.contains_cons] at hs
        have : (s == r) = false := by rw [beq_eq_false_iff_ne]; exact fun e => hr e.symm
        simpa [this] using hs
      cases hx : x.reg r with
      | none => simp only [List.filterMap_cons, hx, Option.map_none]; exact ih hs'
      | some v =>
        simp only [List.filterMap_cons, hx, Option.map_some]
        rw [Cfi.lookupName_cons]
        have : ¬ utf8 r = utf8 s := fun e => hr (utf8_inj e)
        simp only [this, if_false]; exact ih hs'

/-! ## memory -/

theorem leVal_lt (l : Cfi.Bytes) : Cfi.leVal l < 256 ^ l.length := by
  induction l with
  | nil => simp [Cfi.leVal]
  | cons b l ih =>
    have hb := b.toNat_lt
    simp only [Cfi.leVal, List.length_cons, Nat.pow_succ]
    omega

theorem leVal_take_drop (m : Walk.Mem) (w off : Nat) (h : off + w ≤ m.bytes.size) :
    Cfi.leVal ((m.bytes.toList.drop off).take w) = m.leAt off w := by
  induction w generalizing off with
  | zero => simp [Cfi.leVal, Walk.Mem.leAt]
  | succ w ih =>
    have hlt : off < m.bytes.toList.length := by simp; omega
    rw [List.drop_eq_getElem_cons hlt, List.take_succ_cons]
    simp only [Cfi.leVal, Walk.Mem.leAt]
    rw [ih (off + 1) (by omega)]
    have : m.byte off = (m.bytes.toList[off]).toNat := by
      unfold Walk.Mem.byte
      have h' : off < m.bytes.size := by omega
      simp [h']
    rw [this]

theorem beVal_lt (l : Cfi.Bytes) : Cfi.beVal l < 256 ^ l.length := by
  induction l with
  | nil => simp [Cfi.beVal]
  | cons b l ih =>
    have hb := b.toNat_lt
    have hmul : b.toNat * 256 ^ l.length ≤ 255 * 256 ^ l.length := Nat.mul_le_mul_right _ (by omega)
    simp only [Cfi.beVal, List.length_cons, Nat.pow_succ]
    omega

theorem beVal_take_drop (m : Walk.Mem) (w off : Nat) (h : off + w ≤ m.bytes.size) :
    Cfi.beVal ((m.bytes.toList.drop off).take w) = m.beAt off w := by
  induction w generalizing off with
  | zero => simp [Cfi.beVal, Walk.Mem.beAt]
  | succ w ih =>
    have hlt : off < m.bytes.toList.length := by simp; omega
    rw [List.drop_eq_getElem_cons hlt, List.take_succ_cons]
    simp only [Cfi.beVal, Walk.Mem.beAt]
    rw [ih (off + 1) (by omega)]
    have : m.byte off = (m.bytes.toList[off]).toNat := by
      unfold Walk.Mem.byte
      have h' : off < m.bytes.size := by omega
      simp [h']
    have hlen : (List.take w (List.drop (off + 1) m.bytes.toList)).length = w := by
      rw [List.length_take, List.length_drop]; simp; omega
    rw [this, hlen]

/-- the word the C06 `Walker` of a walker-model memory reads, in that memory's byte order -/
theorem wordVal_take_drop (m : Walk.Mem) (w off : Nat) (h : off + w ≤ m.bytes.size) :
    (if m.be then Cfi.beVal ((m.bytes.toList.drop off).take w) else Cfi.leVal ((m.bytes.toList.drop off).take w)) =
      m.wordAt off w := by
  unfold Walk.Mem.wordAt
  rw [leVal_take_drop _ _ _ h, beVal_take_drop _ _ _ h]

theorem wordAt_lt (m : Walk.Mem) (off w : Nat) : m.wordAt off w < 256 ^ w := by
  have hb : ∀ off, m.byte off < 256 := fun off => by unfold Walk.Mem.byte; exact UInt8.toNat_lt _
  have hbe : ∀ w off, m.beAt off w < 256 ^ w := by
    intro w
    induction w with
    | zero => intro off; simp [Walk.Mem.beAt]
    | succ w ih =>
      intro off
      have h1 := hb off
      have := ih (off + 1)
      have hmul : m.byte off * 256 ^ w ≤ 255 * 256 ^ w := Nat.mul_le_mul_right _ (by omega)
      simp only [Walk.Mem.beAt, Nat.pow_succ]
      omega
  have hle : ∀ w off, m.leAt off w < 256 ^ w := by
    intro w
    induction w with
    | zero => intro off; simp [Walk.Mem.leAt]
    | succ w ih =>
      intro off
      have h1 := hb off
      have := ih (off + 1)
      simp only [Walk.Mem.leAt, Nat.pow_succ]
      omega
  unfold Walk.Mem.wordAt
  split
  · exact hbe w off
  · exact hle w off

theorem ptrOf_cases (a : Walk.Arch) : (ptrOf a = 4 ∧ a.regMax = U32MAX) ∨ (ptrOf a = 8 ∧ a.regMax = U64MAX) := by
  cases a <;> simp [ptrOf, Walk.Arch.regMax, U32MAX, U64MAX]

theorem deref_walkerOf (x : Walk.CfiIn) (instr : Nat) (fwd : List (Cfi.Name × UInt64)) (a : UInt64) :
    x.deref a.toNat = ((walkerOf x instr fwd).readMem a).map UInt64.toNat := by
  unfold Walk.CfiIn.deref Walk.Mem.read Cfi.Walker.readMem walkerOf
  have hw : (if x.arch.regMax = U32MAX then 4 else 8) = ptrOf x.arch := rfl
  simp only [hw, Walk.Mem.size, Array.length_toList]
  by_cases hb : a.toNat < x.mem.base
  · simp [hb]
  · simp only [hb, if_false]
    by_cases hfit : a.toNat - x.mem.base + ptrOf x.arch ≤ x.mem.bytes.size
    · simp only [hfit, if_true, Option.map_some, Option.some.injEq]
      rw [wordVal_take_drop _ _ _ hfit, u64_toNat_ofNat_lt]
      have := wordAt_lt x.mem (a.toNat - x.mem.base) (ptrOf x.arch)
      have hlen : ptrOf x.arch ≤ 8 := by
        rcases ptrOf_cases x.arch with ⟨h, _⟩ | ⟨h, _⟩ <;> omega
      calc x.mem.wordAt (a.toNat - x.mem.base) (ptrOf x.arch) < 256 ^ _ := this
        _ ≤ 256 ^ 8 := Nat.pow_le_pow_right (by omega) hlen
        _ = 2 ^ 64 := by decide
    · simp [hfit]

/-! ## the instance -/

/-- **The relation is inhabited, for every architecture.** -/
theorem walkerOf_sim (x : Walk.CfiIn) (instr : Nat) (fwd : List (Cfi.Name × UInt64))
    (hvalid : ValidWf x.arch x.callee) (h64 : ∀ n v, x.reg n = some v → v < 2 ^ 64) :
    WalkerSim x (walkerOf x instr fwd) := by
  refine ⟨⟨?_, deref_walkerOf x instr fwd⟩, memo_walkerOf x instr fwd, ?_⟩
  · intro n
    show x.reg n = ((walkerOf x instr fwd).getCallee (utf8 n)).map UInt64.toNat
    unfold Cfi.Walker.getCallee
    rw [memo_walkerOf]
    cases hc : x.arch.canon n with
    | none => simp only [Option.map_none]; exact reg_unknown x hvalid n hc
    | some s =>
      simp only [Option.map_some]
      have hl := lookup_callee x x.arch.registers s (canon_mem _ _ _ hc)
      have : (walkerOf x instr fwd).callee =
          x.arch.registers.filterMap fun r => (x.reg r).map fun v => (utf8 r, UInt64.ofNat v) := rfl
      rw [this, hl, reg_canon x n s hc]
      cases hx : x.reg s with
      | none => rfl
      | some v => simp [u64_toNat_ofNat_lt v (h64 s v hx)]
  · intro v
    unfold Cfi.Walker.fits walkerOf
    simp only
    rcases ptrOf_cases x.arch with ⟨h1, h2⟩ | ⟨h1, h2⟩
    · rw [h1, h2]; simp only [U32MAX]; congr 1; apply propext; omega
    · rw [h1, h2]; simp only [U64MAX]; congr 1; apply propext; omega

/-! ## the forwarded registers -/

/-- caller registers forwarded from the callee, as the C06 model lists them -/
def fwdOf (a : Walk.Arch) (o : Walk.CfiOut) : List (Cfi.Name × UInt64) :=
  o.valid.map fun s => (utf8 s, UInt64.ofNat (rawC a o.ctx s))

theorem fwdOf_sim (a : Walk.Arch) (o : Walk.CfiOut) (s : String)
    (h64 : o.valid.contains s = true → rawC a o.ctx s < 2 ^ 64) :
    OutSimAt a o ⟨none, none, fwdOf a o⟩ s := by
  unfold OutSimAt Cfi.Caller.get viewW fwdOf
  simp only
  have key : ∀ l : List String, Cfi.lookupName (l.map fun s' => (utf8 s', UInt64.ofNat (rawC a o.ctx s'))) (utf8 s) =
      if l.contains s then some (UInt64.ofNat (rawC a o.ctx s)) else none := by
    intro l
    induction l with
    | nil => rfl
    | cons r t ih =>
      rw [List.map_cons, Cfi.lookupName_cons, List.contains_cons]
      by_cases hr : s = r
      · subst hr; simp
      · have h1 : ¬ utf8 r = utf8 s := fun e => hr (utf8_inj e).symm
        have h2 : (s == r) = false := by rw [beq_eq_false_iff_ne]; exact hr
        simp only [h1, if_false, h2, Bool.false_or]; exact ih
  rw [key]
  by_cases hc : o.valid.contains s = true
  · rw [if_pos hc, if_pos hc, Option.map_some, u64_toNat_ofNat_lt _ (h64 hc)]
  · rw [if_neg hc, if_neg hc]; rfl

end MdModel.CfiBridge
