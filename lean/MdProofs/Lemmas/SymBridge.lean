/-
  Bridge C11 ↔ walker model, part 3: symbol files, the function table, the previous-FUNC cut-off.

  `FileRel sf r`: the walker model's symbol file `sf` (FUNC and PUBLIC records with `String` names,
  no sub-records) and C11's record list `r` (FUNCs with their line / INLINE sub-records, FILE and
  INLINE_ORIGIN maps, STACK WIN triples) describe the same FUNC and PUBLIC records, in file order.
  `recsOf sf` is the canonical related record list (no sub-records), so the relation is inhabited for
  every `sf`; every C11 file whose names are valid UTF-8 is related to the walker file it projects to.
-/
import MdProofs.Lemmas.SymBridgeTable
import MdProofs.Lemmas.SymBridgePub
import MdProofs.C11
namespace MdModel.SymBridge
open MdModel MdModel.RangeMap

/-- what both models read of a FUNC record -/
def fcore (f : Symbolize.Func) : Nat × Nat × Nat × Symbolize.Name := (f.addr, f.size, f.psize, f.name)
def wcore (f : Walk.FuncRec) : Nat × Nat × Nat × Symbolize.Name := (f.addr, f.size, f.psize, nm f.name)

/-- **the translation, as a relation**: same FUNC records (address, size, parameter size, name)
    and same PUBLIC records, in file order; C11's sub-records, FILE / INLINE_ORIGIN maps arbitrary -/
structure FileRel (sf : Walk.SymFile) (r : Symbolize.Recs) : Prop where
  funcs : r.funcs.map fcore = sf.funcs.map wcore
  pubs : r.pubs = sf.pubs.map pubOf

/-- the canonical C11 reading of a walker-model symbol file -/
def recsOf (sf : Walk.SymFile) : Symbolize.Recs :=
  { funcs := sf.funcs.map fun f => ⟨f.addr, f.size, f.psize, nm f.name, [], []⟩
    pubs := sf.pubs.map pubOf }

theorem recsOf_rel (sf : Walk.SymFile) : FileRel sf (recsOf sf) :=
  ⟨by simp only [recsOf, List.map_map]; rfl, rfl⟩

theorem FileRel.at {sf : Walk.SymFile} {r : Symbolize.Recs} (h : FileRel sf r) (i : Nat) :
    (∀ f, r.funcs[i]? = some f → ∃ w, sf.funcs[i]? = some w ∧ fcore f = wcore w) ∧
    (∀ w, sf.funcs[i]? = some w → ∃ f, r.funcs[i]? = some f ∧ fcore f = wcore w) := by
  have := congrArg (fun l => l[i]?) h.funcs
  simp only [List.getElem?_map] at this
  constructor
  · intro f hf
    rw [hf] at this
    cases hw : sf.funcs[i]? with
    | none => rw [hw] at this; cases this
    | some w => rw [hw] at this; simp only [Option.map_some, Option.some.injEq] at this; exact ⟨w, rfl, this⟩
  · intro w hw
    rw [hw] at this
    cases hf : r.funcs[i]? with
    | none => rw [hf] at this; cases this
    | some f => rw [hf] at this; simp only [Option.map_some, Option.some.injEq] at this; exact ⟨f, rfl, this⟩

/-! ### the function table, two valuations -/

theorem filterMap_congr' {α β : Type} {l : List α} {f g : α → Option β} (h : ∀ a ∈ l, f a = g a) :
    l.filterMap f = l.filterMap g := by
  induction l with
  | nil => rfl
  | cons x t ih =>
    have hx := h x List.mem_cons_self
    have ht := ih (fun a ha => h a (List.mem_cons_of_mem _ ha))
    simp only [List.filterMap_cons, hx, ht]

/-- the walker model's table input, from the common part of the records -/
def winp (cs : List (Nat × Nat × Nat × Symbolize.Name)) : List Entry :=
  cs.zipIdx.filterMap fun x => (mkRange x.1.1 x.1.2.1).map fun r => (r, x.2)

theorem funcTable_eq (sf : Walk.SymFile) :
    Walk.funcTable sf = safeVecP (winp (sf.funcs.map wcore)) := by
  unfold Walk.funcTable winp
  rw [List.zipIdx_map, List.filterMap_map]
  congr 1

/-- FUNC records as table inputs: range, C11's value (first structurally equal stored function),
    the walker model's value (own position) -/
def triOf (r : Symbolize.Recs) : List Tri :=
  r.funcs.zipIdx.filterMap fun x =>
    (mkRange x.1.addr x.1.size).map fun rg =>
      (rg, Symbolize.funcVal (r.funcs.map Symbolize.finOf) (Symbolize.finOf x.1), x.2)

theorem triOf_e2 (r : Symbolize.Recs) : (triOf r).map e2 = winp (r.funcs.map fcore) := by
  unfold triOf winp
  rw [List.map_filterMap, List.zipIdx_map, List.filterMap_map]
  apply filterMap_congr'
  rintro ⟨f, i⟩ _
  simp only [Function.comp, Prod.map, id, fcore, Option.map_map]
  cases mkRange f.addr f.size <;> rfl

theorem filterMap_zipIdx_fst {α β : Type} (l : List α) (k : α → Option β) :
    l.zipIdx.filterMap (fun x => k x.1) = l.filterMap k := by
  have := List.filterMap_map (f := Prod.fst) (g := k) (l := l.zipIdx)
  rw [List.zipIdx_map_fst] at this
  exact this.symm

theorem triOf_e1 (r : Symbolize.Recs) :
    (triOf r).map e1 = Symbolize.funcInput (r.funcs.map Symbolize.finOf) := by
  unfold triOf Symbolize.funcInput validOnly
  rw [List.map_filterMap, List.map_map, List.filterMap_map]
  rw [← filterMap_zipIdx_fst r.funcs]
  apply filterMap_congr'
  rintro ⟨f, i⟩ _
  simp only [Function.comp, Option.map_map]
  show _ = Option.map _ (mkRange f.addr f.size)
  cases mkRange f.addr f.size <;> rfl

theorem mem_triOf {r : Symbolize.Recs} {z : Tri} (h : z ∈ triOf r) :
    ∃ f, r.funcs[z.2.2]? = some f ∧ mkRange f.addr f.size = some z.1 ∧
      z.2.1 = Symbolize.funcVal (r.funcs.map Symbolize.finOf) (Symbolize.finOf f) := by
  unfold triOf at h
  simp only [List.mem_filterMap, Option.map_eq_some_iff] at h
  obtain ⟨⟨f, i⟩, hz, rg, hrg, rfl⟩ := h
  exact ⟨f, List.mem_zipIdx_iff_getElem?.mp hz, hrg, rfl⟩

theorem triOf_coh (r : Symbolize.Recs) : Coh (triOf r) := by
  refine ⟨?_, ?_, ?_⟩
  · intro z hz
    obtain ⟨f, _, hr, _⟩ := mem_triOf hz
    have := mkRange_wf hr
    exact ⟨this.1, this.2.1⟩
  · intro z hz z' hz' hv
    obtain ⟨f, hf, hr, hv1⟩ := mem_triOf hz
    obtain ⟨f', hf', hr', hv1'⟩ := mem_triOf hz'
    have m1 : Symbolize.finOf f ∈ r.funcs.map Symbolize.finOf :=
      List.mem_map_of_mem (List.mem_of_getElem? hf)
    have m2 : Symbolize.finOf f' ∈ r.funcs.map Symbolize.finOf :=
      List.mem_map_of_mem (List.mem_of_getElem? hf')
    obtain ⟨g, hg, hk⟩ := Symbolize.funcVal_get m1
    obtain ⟨g', hg', hk'⟩ := Symbolize.funcVal_get m2
    rw [← hv1] at hg
    rw [← hv1', ← hv, hg] at hg'
    cases hg'
    have : (Symbolize.finOf f).key = (Symbolize.finOf f').key := by rw [← hk, ← hk']
    simp only [Symbolize.BFunc.key, Prod.mk.injEq] at this
    obtain ⟨ha, hs, -⟩ := this
    have ha' : f.addr = f'.addr := ha
    have hs' : f.size = f'.size := hs
    rw [ha', hs', hr'] at hr
    exact (Option.some.inj hr).symm
  · intro z hz z' hz' hv
    obtain ⟨f, hf, hr, _⟩ := mem_triOf hz
    obtain ⟨f', hf', hr', _⟩ := mem_triOf hz'
    rw [hv, hf'] at hf
    cases hf
    rw [hr'] at hr
    exact (Option.some.inj hr).symm

/-- **the function tables of the two models agree** (for related files): a C11 lookup that finds the
    stored function `g` corresponds to a walker-model lookup finding the position of a FUNC record
    with `g`'s address, size, parameter size and name; both miss together; same entry ranges -/
theorem ftab_sim {sf : Walk.SymFile} {r : Symbolize.Recs} (hrel : FileRel sf r) (a : Nat) :
    (∀ g, Symbolize.funcAt (r.funcs.map Symbolize.finOf)
            (safeVecP (Symbolize.funcInput (r.funcs.map Symbolize.finOf))) a = some g →
        ∃ i w, sf.funcs[i]? = some w ∧ get (Walk.funcTable sf) a = some i ∧
          (g.addr, g.size, g.psize, g.name) = wcore w) ∧
    (get (safeVecP (Symbolize.funcInput (r.funcs.map Symbolize.finOf))) a = none →
        get (Walk.funcTable sf) a = none) ∧
    (safeVecP (Symbolize.funcInput (r.funcs.map Symbolize.finOf))).map (·.1) =
      (Walk.funcTable sf).map (·.1) := by
  have hc := triOf_coh r
  have h1 := triOf_e1 r
  have h2 : (triOf r).map e2 = winp (sf.funcs.map wcore) := by rw [triOf_e2, hrel.funcs]
  obtain ⟨s1, s2⟩ := get_sim (triOf r) hc a
  have s3 := los_sim (triOf r) hc
  rw [h1, h2, ← funcTable_eq] at s1 s2 s3
  refine ⟨?_, s2, s3⟩
  intro g hg
  unfold Symbolize.funcAt at hg
  cases hv : get (safeVecP (Symbolize.funcInput (r.funcs.map Symbolize.finOf))) a with
  | none => rw [hv] at hg; cases hg
  | some v =>
    rw [hv] at hg
    simp only [Option.bind_some] at hg
    obtain ⟨z, hz, _, hzv, hw⟩ := s1 v hv
    obtain ⟨f, hf, _, hv1⟩ := mem_triOf hz
    obtain ⟨w, hw', hcore⟩ := (hrel.at z.2.2).1 f hf
    have m1 : Symbolize.finOf f ∈ r.funcs.map Symbolize.finOf :=
      List.mem_map_of_mem (List.mem_of_getElem? hf)
    obtain ⟨g', hg', hk⟩ := Symbolize.funcVal_get m1
    rw [← hv1, hzv, hg] at hg'
    cases hg'
    refine ⟨z.2.2, w, hw', hw, ?_⟩
    rw [← hcore]
    simp only [Symbolize.BFunc.key, Prod.mk.injEq] at hk
    obtain ⟨k1, k2, k3, k4, -⟩ := hk
    simp only [fcore, Prod.mk.injEq]
    exact ⟨k1, k2, k3, k4⟩

/-! ### the walker model's table: entries are records, the previous FUNC -/

theorem funcTable_sep (sf : Walk.SymFile) : Sep (Walk.funcTable sf) := by
  unfold Walk.funcTable
  apply safeVecP_sep
  intro e he
  simp only [List.mem_filterMap, Option.map_eq_some_iff] at he
  obtain ⟨⟨f, i⟩, _, rg, hrg, rfl⟩ := he
  have := mkRange_wf hrg
  exact ⟨this.1, this.2.1⟩

theorem funcTable_entry {sf : Walk.SymFile} {e : Entry} (he : e ∈ Walk.funcTable sf) :
    ∃ w, sf.funcs[e.2]? = some w ∧ w.addr = e.1.lo := by
  unfold Walk.funcTable safeVecP pass at he
  obtain ⟨s, hs, hlo, hv⟩ := Symbolize.keep_loval _ e he
  have hs' := List.mem_mergeSort.mp hs
  simp only [List.mem_filterMap, Option.map_eq_some_iff] at hs'
  obtain ⟨⟨f, i⟩, hz, rg, hrg, rfl⟩ := hs'
  have hm := List.mem_zipIdx_iff_getElem?.mp hz
  obtain ⟨_, _, h3, _⟩ := mkRange_wf hrg
  simp only at hm hlo hv h3
  exact ⟨f, by rw [← hv]; exact hm, by omega⟩

theorem prevFunc_find (tbl : List Entry) (a : Nat) (best : Option Nat) :
    tbl.foldl (fun best e => if e.1.lo < a then some e.2 else best) best =
      match tbl.reverse.find? (fun e => decide (e.1.lo < a)) with
      | some e => some e.2
      | none => best := by
  induction tbl generalizing best with
  | nil => rfl
  | cons x t ih =>
    simp only [List.foldl_cons, List.reverse_cons, List.find?_append, ih]
    cases List.find? (fun e => decide (e.1.lo < a)) t.reverse with
    | some e => rfl
    | none =>
      simp only [Option.none_or, List.find?_cons, List.find?_nil]
      by_cases hx : x.1.lo < a
      · simp [hx]
      · simp [hx]

/-- on a normalized table the walker model's `prevFunc` is the entry with the greatest start below `a` -/
theorem prevFunc_spec (tbl : List Entry) (hs : Sep tbl) (a : Nat) :
    (Walk.prevFunc tbl a = none → ∀ e ∈ tbl, ¬ e.1.lo < a) ∧
    (∀ i, Walk.prevFunc tbl a = some i →
      ∃ e ∈ tbl, e.2 = i ∧ e.1.lo < a ∧ ∀ e' ∈ tbl, e'.1.lo < a → e'.1.lo ≤ e.1.lo) := by
  unfold Walk.prevFunc
  rw [prevFunc_find]
  constructor
  · intro h e he
    cases hf : tbl.reverse.find? (fun e => decide (e.1.lo < a)) with
    | some x => rw [hf] at h; cases h
    | none =>
      have := List.find?_eq_none.mp hf e (List.mem_reverse.mpr he)
      simpa using this
  · intro i h
    cases hf : tbl.reverse.find? (fun e => decide (e.1.lo < a)) with
    | none => rw [hf] at h; cases h
    | some x =>
      rw [hf] at h
      simp only [Option.some.injEq] at h
      obtain ⟨hp, as, bs, hsplit, has⟩ := List.find?_eq_some_iff_append.mp hf
      have hrev : tbl = bs.reverse ++ x :: as.reverse := by
        have := congrArg List.reverse hsplit
        simpa using this
      have hpw := hs.pairwise
      rw [hrev] at hpw
      have hmem : ∀ q, q ∈ tbl ↔ q ∈ bs.reverse ++ x :: as.reverse := by
        intro q; rw [← hrev]
      refine ⟨x, (hmem x).mpr (by simp), h, by simpa using hp, ?_⟩
      intro e' he' hlt
      rcases List.mem_append.mp ((hmem e').mp he') with hq | hq
      · have := (List.pairwise_append.mp hpw).2.2 e' hq x List.mem_cons_self
        have hw := (hs.wf e' he').1
        omega
      · rcases List.mem_cons.mp hq with rfl | hq
        · exact Nat.le_refl _
        · have := has e' (List.mem_reverse.mp hq)
          simp at this
          omega

/-- `pubTruncated` at range level: some table entry starts in `[p.addr, a]` (when no entry contains `a`) -/
theorem pubTruncated_iff (sf : Walk.SymFile) (a : Nat) (p : Walk.PubRec)
    (hg : get (Walk.funcTable sf) a = none) :
    Walk.pubTruncated sf (Walk.funcTable sf) a p = true ↔
      ∃ e ∈ Walk.funcTable sf, e.1.lo ≤ a ∧ p.addr ≤ e.1.lo := by
  have hs := funcTable_sep sf
  obtain ⟨p1, p2⟩ := prevFunc_spec _ hs a
  have hne : ∀ e ∈ Walk.funcTable sf, e.1.lo ≤ a → e.1.lo < a := by
    intro e he hle
    by_cases heq : e.1.lo = a
    · have hw := hs.wf e he
      have := get_complete_mem _ hs e he a
        (by simp only [Rng.contains, Bool.and_eq_true, decide_eq_true_eq]; unfold WF at hw; omega)
      rw [hg] at this; cases this
    · omega
  unfold Walk.pubTruncated
  constructor
  · intro h
    cases hp : Walk.prevFunc (Walk.funcTable sf) a with
    | none => rw [hp] at h; cases h
    | some i =>
      rw [hp] at h
      obtain ⟨e, he, hei, hlt, _⟩ := p2 i hp
      obtain ⟨w, hw, hwa⟩ := funcTable_entry he
      rw [hei] at hw
      simp only [hw, decide_eq_true_eq] at h
      exact ⟨e, he, by omega, by omega⟩
  · rintro ⟨e, he, hle, hpa⟩
    have hlt := hne e he hle
    cases hp : Walk.prevFunc (Walk.funcTable sf) a with
    | none => exact absurd hlt (p1 hp e he)
    | some i =>
      obtain ⟨e', he', hei, _, hmax⟩ := p2 i hp
      obtain ⟨w, hw, hwa⟩ := funcTable_entry he'
      rw [hei] at hw
      have := hmax e he hlt
      simp only [hw, decide_eq_true_eq]
      omega

end MdModel.SymBridge
