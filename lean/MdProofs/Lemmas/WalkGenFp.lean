/-
  Helper lemmas for C04 (MdProofs/C04Gen.lean): the frame-pointer GENERATOR of the `chain` engine as
  a Lean function (`gfpWords` / `gfpChain`, MdModel/Walk/LayoutGen.lean), generically in the
  architecture (x86, x86-64 non-Windows, ARM on iOS, ARM64 both layouts), and `preFp` of it for ALL
  parameters.

  * `linkFp_layout` / `endFp_layout` — the per-architecture part: one record / the outermost record
  * `preFp_gen_aux` — the induction on the calls, for a symbolic word size
  * `preFp_layout_gen` — the precondition holds of the layout
-/
import MdProofs.Lemmas.WalkGenMem
set_option linter.unusedSimpArgs false
set_option linter.unusedVariables false
namespace MdModel.Walk
open MdModel

/-- index of the outermost record -/
def gfpEnd : Nat → List (Nat × Nat) → Nat
  | f, [] => f
  | f, (gap, _) :: rest => gfpEnd (f + 2 + gap) rest

theorem gfpEnd_ge : ∀ (calls : List (Nat × Nat)) (f : Nat), f ≤ gfpEnd f calls := by
  intro calls
  induction calls with
  | nil => intro f; exact Nat.le_refl _
  | cons c rest ih => intro f; obtain ⟨g, r⟩ := c; have := ih (f + 2 + g); simp only [gfpEnd]; omega

theorem gfpTail_length (p base tail : Nat) : ∀ (calls : List (Nat × Nat)) (f : Nat),
    (gfpTail p base tail f calls).length = gfpEnd f calls - f + 3 + tail := by
  intro calls
  induction calls with
  | nil => intro f; simp [gfpTail, gfpEnd]; omega
  | cons c rest ih =>
    intro f
    obtain ⟨gap, ret⟩ := c
    have := gfpEnd_ge rest (f + 2 + gap)
    simp only [gfpTail, gfpEnd, List.length_append, List.length_cons, List.length_nil, List.length_replicate, ih]
    omega

theorem gfpWords_length (p base f0 tail : Nat) (calls : List (Nat × Nat)) :
    (gfpWords p base f0 tail calls).length = gfpEnd f0 calls + 3 + tail := by
  have := gfpEnd_ge calls f0
  simp only [gfpWords, List.length_append, List.length_replicate, gfpTail_length]
  omega

theorem gfpTail_nil_zero (p base tail f i : Nat) : (gfpTail p base tail f [])[i]?.getD 0 = 0 := by
  show (List.replicate 2 0 ++ List.replicate (1 + tail) 0)[i]?.getD 0 = 0
  by_cases h : i < 2
  · rw [getD_append_left' _ _ _ (by simpa using h), getD_replicate_zero']
  · rw [getD_append_right' _ _ _ (by simpa using h), getD_replicate_zero']

/-- `v &&& (2^k - 1) = v` below `2^k` -/
theorem and_mask_of_lt (v k : Nat) (h : v < 2 ^ k) : v &&& (2 ^ k - 1) = v := by
  rw [Nat.and_two_pow_sub_one_eq_mod]; exact Nat.mod_eq_of_lt h

/-- **one record** of the layout is a `linkFp`, on every architecture with the technique -/
theorem linkFp_layout (a : Arch) (ha : a.hasFp = true) (os : Os) (hos : a = .amd64 → os ≠ .windows)
    (hios : a = .arm → os = .ios) (mask : Nat) (mem : Mem) (base s f gap ret : Nat)
    (hbase : 16 < base) (hsf : s ≤ f) (htop : pAddr a.ptr base (f + 2 + gap) + 32 ≤ a.regMax)
    (hr_fp : mem.read (pAddr a.ptr base f) a.ptr = some (pAddr a.ptr base (f + 2 + gap)))
    (hr_ret : mem.read (pAddr a.ptr base f + a.ptr) a.ptr = some ret)
    (hr_nfp : (mem.read (pAddr a.ptr base (f + 2 + gap)) a.ptr).isSome = true)
    (hr_sp : (mem.read (pAddr a.ptr base (f + 2)) a.ptr).isSome = true)
    (hret : 4096 ≤ ret) (hrok : retOkFp a mask ret = true)
    (hmask : (a = .arm64 ∨ a = .arm64old) →
      pAddr a.ptr base (f + 2 + gap) &&& mask = pAddr a.ptr base (f + 2 + gap)) :
    linkFp a os mask mem (pAddr a.ptr base s) (pAddr a.ptr base f)
      { ret := ret, sp := pAddr a.ptr base (f + 2), fp := some (pAddr a.ptr base (f + 2 + gap)) } = true := by
  have hU : U64MAX = 18446744073709551615 := rfl
  have hU32 : U32MAX = 4294967295 := rfl
  cases a <;> simp only [Arch.hasFp, Bool.false_eq_true] at ha
  · -- x86
    have hp : Arch.x86.ptr = 4 := rfl
    have hm : Arch.x86.regMax = 4294967295 := rfl
    rw [hp] at hr_fp hr_ret hr_nfp hr_sp htop ⊢
    rw [hm] at htop
    simp only [linkFp, Option.isSome_some, Option.getD_some, Bool.and_eq_true, decide_eq_true_eq, beq_iff_eq,
      true_and, and_true, hr_fp, hr_ret, hU32]
    simp only [pAddr] at htop ⊢; omega
  · -- x86-64
    have hp : Arch.amd64.ptr = 8 := rfl
    have hm : Arch.amd64.regMax = 18446744073709551615 := rfl
    rw [hp] at hr_fp hr_ret hr_nfp hr_sp htop ⊢
    rw [hm] at htop
    have hk0 : (pAddr 8 base (f + 2) - 16 - pAddr 8 base f) / 16 = 0 := by simp only [pAddr]; omega
    have e8 : pAddr 8 base (f + 2) - 8 = pAddr 8 base f + 8 := by simp only [pAddr]; omega
    have e16 : pAddr 8 base (f + 2) - 16 = pAddr 8 base f := by simp only [pAddr]; omega
    have hrcan : nonCanonAmd64 ret = false := by simpa [retOkFp] using hrok
    simp only [linkFp, Option.isSome_some, Option.getD_some, Bool.and_eq_true, decide_eq_true_eq, beq_iff_eq,
      if_neg (hos rfl), Bool.not_eq_true', hk0, e8, e16, Nat.sub_self, Nat.zero_div, List.range_zero, List.all_nil,
      Nat.mul_zero, Nat.add_zero, true_and, and_true, hr_fp, hr_ret, hr_nfp, hr_sp, hrcan, hU]
    simp only [pAddr] at htop ⊢; omega
  · -- ARM (iOS)
    have hp : Arch.arm.ptr = 4 := rfl
    have hm : Arch.arm.regMax = 4294967295 := rfl
    rw [hp] at hr_fp hr_ret hr_nfp hr_sp htop ⊢
    rw [hm] at htop
    simp only [linkFp, Option.isSome_some, Option.getD_some, Bool.and_eq_true, decide_eq_true_eq, beq_iff_eq,
      true_and, and_true, hr_fp, hr_ret, hU32, hios rfl]
    simp only [pAddr] at htop ⊢; omega
  · -- ARM64
    have hp : Arch.arm64.ptr = 8 := rfl
    have hm : Arch.arm64.regMax = 18446744073709551615 := rfl
    rw [hp] at hr_fp hr_ret hr_nfp hr_sp htop hmask ⊢
    rw [hm] at htop
    have hr2 : (ret &&& mask = ret) ∧ nonCanonArm64 ret = false := by simpa [retOkFp] using hrok
    simp only [linkFp, Option.isSome_some, Option.getD_some, Bool.and_eq_true, decide_eq_true_eq, beq_iff_eq,
      true_and, hr_fp, hr_ret, hU, hmask (Or.inl rfl), hr2.1, hr2.2, Bool.not_false, and_true]
    simp only [pAddr] at htop ⊢; omega
  · -- ARM64 (old layout)
    have hp : Arch.arm64old.ptr = 8 := rfl
    have hm : Arch.arm64old.regMax = 18446744073709551615 := rfl
    rw [hp] at hr_fp hr_ret hr_nfp hr_sp htop hmask ⊢
    rw [hm] at htop
    have hr2 : (ret &&& mask = ret) ∧ nonCanonArm64 ret = false := by simpa [retOkFp] using hrok
    simp only [linkFp, Option.isSome_some, Option.getD_some, Bool.and_eq_true, decide_eq_true_eq, beq_iff_eq,
      true_and, hr_fp, hr_ret, hU, hmask (Or.inr rfl), hr2.1, hr2.2, Bool.not_false, and_true]
    simp only [pAddr] at htop ⊢; omega

/-- **the outermost record** `(0, 0)` with zeros from the last stack pointer on is an `endFp` -/
theorem endFp_layout (a : Arch) (ha : a.hasFp = true) (os : Os) (hios : a = .arm → os = .ios)
    (mem : Mem) (base s f : Nat) (hbase : 16 < mem.base) (htop : pAddr a.ptr base f + 32 ≤ a.regMax)
    (hz : zerosFrom mem a.ptr (pAddr a.ptr base s) = true)
    (hr0 : mem.read (pAddr a.ptr base f) a.ptr = some 0)
    (hr1 : mem.read (pAddr a.ptr base f + a.ptr) a.ptr = some 0) :
    endFp a os mem (pAddr a.ptr base s) (pAddr a.ptr base f) = true := by
  have hU : U64MAX = 18446744073709551615 := rfl
  have hU32 : U32MAX = 4294967295 := rfl
  simp only [endFp, Bool.and_eq_true, decide_eq_true_eq]
  refine ⟨⟨hbase, hz⟩, ?_⟩
  cases a <;> simp only [Arch.hasFp, Bool.false_eq_true] at ha
  · have hp : Arch.x86.ptr = 4 := rfl
    have hm : Arch.x86.regMax = 4294967295 := rfl
    rw [hp] at hr0 hr1 htop ⊢; rw [hm] at htop
    simp only [hr0, hr1, beq_self_eq_true, Bool.true_and, decide_eq_true_eq, hU32]
    simp only [pAddr] at htop ⊢; omega
  · have hp : Arch.amd64.ptr = 8 := rfl
    have hm : Arch.amd64.regMax = 18446744073709551615 := rfl
    rw [hp] at hr0 hr1 htop ⊢; rw [hm] at htop
    simp only [hr0, hr1, beq_self_eq_true, Bool.true_and, decide_eq_true_eq, hU]
    simp only [pAddr] at htop ⊢; omega
  · have hp : Arch.arm.ptr = 4 := rfl
    have hm : Arch.arm.regMax = 4294967295 := rfl
    rw [hp] at hr0 hr1 htop ⊢; rw [hm] at htop
    simp only [hr0, hr1, beq_self_eq_true, Bool.true_and, Bool.and_true, decide_eq_true_eq, hU32, hios rfl,
      Bool.and_eq_true, true_and]
    simp only [pAddr] at htop ⊢; omega
  · have hp : Arch.arm64.ptr = 8 := rfl
    have hm : Arch.arm64.regMax = 18446744073709551615 := rfl
    rw [hp] at hr0 hr1 htop ⊢; rw [hm] at htop
    simp only [hr0, hr1, beq_self_eq_true, Bool.true_and, decide_eq_true_eq, hU]
    simp only [pAddr] at htop ⊢; omega
  · have hp : Arch.arm64old.ptr = 8 := rfl
    have hm : Arch.arm64old.regMax = 18446744073709551615 := rfl
    rw [hp] at hr0 hr1 htop ⊢; rw [hm] at htop
    simp only [hr0, hr1, beq_self_eq_true, Bool.true_and, decide_eq_true_eq, hU]
    simp only [pAddr] at htop ⊢; omega

/-- the induction: `ws = pre ++ gfpTail … f calls`, the callee's stack pointer at word `s ≤ f`, zeros
    between `s` and `f` -/
theorem preFp_gen_aux (a : Arch) (ha : a.hasFp = true) (os : Os) (hos : a = .amd64 → os ≠ .windows)
    (hios : a = .arm → os = .ios) (mask base tail : Nat) (ws : List Nat)
    (hbase : 16 < base) (htop : base + a.ptr * ws.length + 32 ≤ a.regMax)
    (hmask : (a = .arm64 ∨ a = .arm64old) → ∀ i, i < ws.length → pAddr a.ptr base i &&& mask = pAddr a.ptr base i) :
    ∀ (calls : List (Nat × Nat)) (s f : Nat) (pre : List Nat),
      ws = pre ++ gfpTail a.ptr base tail f calls → pre.length = f → s ≤ f →
      (∀ i, s ≤ i → i < f → pre[i]?.getD 0 = 0) →
      (∀ c ∈ calls, 4096 ≤ c.2 ∧ c.2 ≤ a.regMax ∧ retOkFp a mask c.2 = true) →
      preFp a os mask (wordsMemP a.ptr base ws) (pAddr a.ptr base s) (pAddr a.ptr base f)
        (gfpChain a.ptr base f calls) = true := by
  have hp := ptr_pos a
  have hpow := regMax_lt_pow a
  have h64 := regMax_le_u64 a
  -- addresses of words inside the memory
  have haddr : ∀ i, i ≤ ws.length → pAddr a.ptr base i + 32 ≤ a.regMax := by
    intro i hi
    have : a.ptr * i ≤ a.ptr * ws.length := Nat.mul_le_mul_left _ hi
    simp only [pAddr]; omega
  intro calls
  induction calls with
  | nil =>
    intro s f pre hws hpl hsf hzero _
    have hlen : ws.length = f + 3 + tail := by
      rw [hws, List.length_append, hpl, gfpTail_length]; simp [gfpEnd]; omega
    have hz : ∀ i, s ≤ i → i < ws.length → ws[i]?.getD 0 = 0 := by
      intro i h1 h2
      rw [hws]
      by_cases hif : i < f
      · rw [getD_append_left' _ _ _ (by rw [hpl]; exact hif)]; exact hzero i h1 hif
      · rw [getD_append_right' _ _ _ (by rw [hpl]; omega)]; exact gfpTail_nil_zero a.ptr base tail f _
    have hr0 : (wordsMemP a.ptr base ws).read (pAddr a.ptr base f) a.ptr = some 0 :=
      read_wordsMemP_eq a.ptr base ws f 0 (by omega) (hz f hsf (by omega)) (Nat.pow_pos (by decide))
    have hr1 : (wordsMemP a.ptr base ws).read (pAddr a.ptr base f + a.ptr) a.ptr = some 0 := by
      have := read_wordsMemP_eq a.ptr base ws (f + 1) 0 (by omega) (hz (f + 1) (by omega) (by omega))
        (Nat.pow_pos (by decide))
      have ha' : pAddr a.ptr base f + a.ptr = pAddr a.ptr base (f + 1) := by simp only [pAddr, Nat.mul_succ]; omega
      rw [ha']; exact this
    simp only [preFp, gfpChain, Bool.or_eq_true]
    right
    exact endFp_layout a ha os hios _ base s f hbase (haddr f (by omega))
      (wordsMemP_zerosFrom a.ptr base ws s hp hz) hr0 hr1
  | cons c rest ih =>
    intro s f pre hws hpl hsf hzero hrets
    obtain ⟨gap, ret⟩ := c
    obtain ⟨hr4096, hrmax, hrok⟩ := hrets (gap, ret) List.mem_cons_self
    have hge := gfpEnd_ge rest (f + 2 + gap)
    have hlen : ws.length = gfpEnd (f + 2 + gap) rest + 3 + tail := by
      rw [hws, List.length_append, hpl, gfpTail_length]; simp only [gfpEnd]; omega
    have hwf : ws[f]?.getD 0 = pAddr a.ptr base (f + 2 + gap) := by
      rw [hws, getD_append_right' _ _ _ (by omega), hpl, Nat.sub_self]; rfl
    have hwf1 : ws[f + 1]?.getD 0 = ret := by
      rw [hws, getD_append_right' _ _ _ (by omega), hpl]
      have : f + 1 - f = 1 := by omega
      rw [this]; rfl
    have hnfp := haddr (f + 2 + gap) (by omega)
    have hr_fp : (wordsMemP a.ptr base ws).read (pAddr a.ptr base f) a.ptr = some (pAddr a.ptr base (f + 2 + gap)) :=
      read_wordsMemP_eq a.ptr base ws f _ (by omega) hwf (by omega)
    have hr_ret : (wordsMemP a.ptr base ws).read (pAddr a.ptr base f + a.ptr) a.ptr = some ret := by
      have := read_wordsMemP_eq a.ptr base ws (f + 1) ret (by omega) hwf1 (by omega)
      have ha' : pAddr a.ptr base f + a.ptr = pAddr a.ptr base (f + 1) := by simp only [pAddr, Nat.mul_succ]; omega
      rw [ha']; exact this
    have hr_nfp : ((wordsMemP a.ptr base ws).read (pAddr a.ptr base (f + 2 + gap)) a.ptr).isSome = true :=
      read_wordsMemP_isSome a.ptr base ws _ (by omega)
    have hr_sp : ((wordsMemP a.ptr base ws).read (pAddr a.ptr base (f + 2)) a.ptr).isSome = true :=
      read_wordsMemP_isSome a.ptr base ws _ (by omega)
    have hrec := ih (f + 2) (f + 2 + gap) (pre ++ ([pAddr a.ptr base (f + 2 + gap), ret] ++ List.replicate gap 0))
      (by rw [hws]; simp only [gfpTail, List.append_assoc])
      (by simp only [List.length_append, hpl, List.length_cons, List.length_nil, List.length_replicate]; omega)
      (by omega)
      (by
        intro i h1 h2
        rw [getD_append_right' _ _ _ (by omega), hpl,
          getD_append_right' _ _ _ (by simp only [List.length_cons, List.length_nil]; omega)]
        exact getD_replicate_zero' _ _)
      (fun c hc => hrets c (List.mem_cons_of_mem _ hc))
    have hin : (wordsMemP a.ptr base ws).inRange (pAddr a.ptr base s) = true :=
      wordsMemP_inRange a.ptr base ws s hp (by omega) (by omega)
    simp only [preFp, gfpChain, Bool.and_eq_true, Option.getD_some]
    exact ⟨⟨hin, linkFp_layout a ha os hos hios mask _ base s f gap ret hbase hsf hnfp hr_fp hr_ret hr_nfp hr_sp
      hr4096 hrok (fun h => hmask h _ (by omega))⟩, hrec⟩

/-- **the generator's frame-pointer layout satisfies `preFp`, for ALL parameters**, on x86, x86-64
    (not Windows), ARM on iOS and ARM64 (both context layouts): any stack base above 16 that keeps
    the stack 32 bytes clear of the top of the register range, any positions `s0 ≤ f0` of the
    context's stack and frame pointers, any number of calls with any gaps, any return addresses
    `≥ 4096` that fit the register (x86-64: canonical; ARM64: canonical and, like the stack
    addresses, untouched by the pointer-authentication strip), any amount of trailing zeros -/
theorem preFp_layout_gen (a : Arch) (ha : a.hasFp = true) (os : Os) (hos : a = .amd64 → os ≠ .windows)
    (hios : a = .arm → os = .ios) (mask base s0 f0 tail : Nat) (calls : List (Nat × Nat))
    (hbase : 16 < base) (hs : s0 ≤ f0)
    (htop : base + a.ptr * (gfpWords a.ptr base f0 tail calls).length + 32 ≤ a.regMax)
    (hmask : (a = .arm64 ∨ a = .arm64old) →
      ∃ k, mask = 2 ^ k - 1 ∧ base + a.ptr * (gfpWords a.ptr base f0 tail calls).length ≤ 2 ^ k)
    (hrets : ∀ c ∈ calls, 4096 ≤ c.2 ∧ c.2 ≤ a.regMax ∧ retOkFp a mask c.2 = true) :
    preFp a os mask (wordsMemP a.ptr base (gfpWords a.ptr base f0 tail calls)) (pAddr a.ptr base s0)
      (pAddr a.ptr base f0) (gfpChain a.ptr base f0 calls) = true :=
  preFp_gen_aux a ha os hos hios mask base tail (gfpWords a.ptr base f0 tail calls) hbase htop
    (by
      intro h i hi
      obtain ⟨k, hk, hle⟩ := hmask h
      rw [hk]
      apply and_mask_of_lt
      have hpp := ptr_pos a
      simp only [pAddr]
      have : a.ptr * (i + 1) ≤ a.ptr * (gfpWords a.ptr base f0 tail calls).length := Nat.mul_le_mul_left _ hi
      rw [Nat.mul_succ] at this; omega)
    calls s0 f0 (List.replicate f0 0) rfl (by simp) hs (fun i _ _ => getD_replicate_zero' _ _) hrets

end MdModel.Walk
