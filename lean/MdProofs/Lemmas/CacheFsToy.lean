/-
  The parser instance the compiled model runs (`MdModel.CacheFs.Toy.model`, a line-buffering
  parser with an explicit "unparseable line" rule) satisfies `ParserLaws`. This makes the
  hypotheses of the C16 theorems inhabited and ties the executable model to the theorems.
-/
import MdModel.CacheFs
namespace MdModel.CacheFs.Toy
open MdModel.CacheFs

/-! #### `consumed` -/

theorem hasNl_append_left {a : Bytes} (b : Bytes) (h : hasNl a = true) : hasNl (a ++ b) = true := by
  unfold hasNl at h ⊢
  rw [List.any_append, h]
  rfl

theorem consumed_eq_nil (l : Bytes) : consumed l = [] ↔ hasNl l = false := by
  induction l with
  | nil => simp [consumed, hasNl]
  | cons x xs ih =>
    cases hc : consumed xs with
    | nil =>
      have hx : hasNl xs = false := ih.mp hc
      have hx' : xs.any (fun b => b == 10) = false := hx
      by_cases h10 : (x == 10) = true <;> simp [consumed, hc, hasNl, hx', h10]
    | cons y ys =>
      have hx : hasNl xs = true := by
        cases h : hasNl xs with
        | true => rfl
        | false => rw [ih.mpr h] at hc; cases hc
      have hx' : xs.any (fun b => b == 10) = true := hx
      simp [consumed, hc, hasNl, hx']

theorem consumed_cons (x : UInt8) (xs : Bytes) :
    consumed (x :: xs) = if hasNl (x :: xs) = true then x :: consumed xs else [] := by
  cases hc : consumed xs with
  | nil =>
    have hx' : xs.any (fun b => b == 10) = false := (consumed_eq_nil xs).mp hc
    by_cases h10 : (x == 10) = true <;> simp [consumed, hc, hasNl, hx', h10]
  | cons y ys =>
    have hx : hasNl xs = true := by
      cases h : hasNl xs with
      | true => rfl
      | false => rw [(consumed_eq_nil xs).mpr h] at hc; cases hc
    have hx' : xs.any (fun b => b == 10) = true := hx
    simp [consumed, hc, hasNl, hx']

theorem consumed_append (a b : Bytes) : ∃ t, consumed (a ++ b) = consumed a ++ t := by
  induction a with
  | nil => exact ⟨consumed b, rfl⟩
  | cons x xs ih =>
    by_cases h : hasNl (x :: xs) = true
    · have h' : hasNl (x :: (xs ++ b)) = true := hasNl_append_left (a := x :: xs) b h
      obtain ⟨t, ht⟩ := ih
      refine ⟨t, ?_⟩
      show consumed (x :: (xs ++ b)) = _
      simp only [consumed_cons, h, h', if_true, ht, List.cons_append]
    · refine ⟨consumed (x :: xs ++ b), ?_⟩
      simp [consumed_cons, h]

theorem consumed_prefix (a : Bytes) : ∃ t, consumed a ++ t = a := by
  induction a with
  | nil => exact ⟨[], rfl⟩
  | cons x xs ih =>
    by_cases h : hasNl (x :: xs) = true
    · obtain ⟨t, ht⟩ := ih
      exact ⟨t, by simp only [consumed_cons, h, if_true, List.cons_append, ht]⟩
    · exact ⟨x :: xs, by simp [consumed_cons, h]⟩

theorem consumed_snoc_nl (l : Bytes) : consumed (l ++ [10]) = l ++ [10] := by
  induction l with
  | nil => simp [consumed, hasNl]
  | cons x xs ih =>
    have : hasNl (x :: (xs ++ [10])) = true := by simp [hasNl]
    show consumed (x :: (xs ++ [10])) = _
    simp only [consumed_cons, this, if_true, ih, List.cons_append]

theorem consumed_tail {x : UInt8} {xs : Bytes} (h : consumed (x :: xs) = x :: xs) :
    consumed xs = xs ∧ hasNl (x :: xs) = true := by
  by_cases hn : hasNl (x :: xs) = true
  · simp only [consumed_cons, hn, if_true, List.cons.injEq, true_and] at h
    exact ⟨h, hn⟩
  · simp [consumed_cons, hn] at h

/-! #### unparseable lines -/

theorem hasBad_append {a : Bytes} (b : Bytes) (st : Bool) (h : consumed a = a) (hne : a ≠ []) :
    hasBadFrom st (a ++ b) = (hasBadFrom st a || hasBadFrom true b) := by
  induction a generalizing st with
  | nil => exact absurd rfl hne
  | cons x xs ih =>
    obtain ⟨hxs, hnl⟩ := consumed_tail h
    by_cases hxs' : xs = []
    · subst hxs'
      have hx : x = 10 := by simpa [hasNl] using hnl
      subst hx
      simp [hasBadFrom]
    · have := ih (x == 10) hxs hxs'
      simp only [List.cons_append, hasBadFrom, this, Bool.or_assoc]

theorem hasBad_false_of_no_nl (l : Bytes) (h : ∀ b ∈ l, b ≠ 10) : hasBadFrom false (l ++ [10]) = false := by
  induction l with
  | nil => simp [hasBadFrom]
  | cons x xs ih =>
    have hx : (x == 10) = false := by simpa using h x (by simp)
    have := ih (fun b hb => h b (by simp [hb]))
    simp [hasBadFrom, hx, this]

theorem tagRest_no_nl : ∀ b ∈ ([78, 70, 79, 32, 85, 82, 76, 32] : Bytes), b ≠ 10 := by decide

theorem tag_no_nl (u : Url) (hu : UrlClean u) : ∀ b ∈ infoUrlTag ++ u, b ≠ 10 := by
  intro b hb
  rcases List.mem_append.mp hb with h | h
  · exact (by decide : ∀ b ∈ infoUrlTag, b ≠ 10) b h
  · exact (hu b h).1

theorem trailer_not_bad (u : Url) (hu : UrlClean u) : hasBadFrom true (trailer u) = false := by
  have h := hasBad_false_of_no_nl (([78, 70, 79, 32, 85, 82, 76, 32] : Bytes) ++ u) (by
    intro b hb
    rcases List.mem_append.mp hb with h | h
    · exact tagRest_no_nl b h
    · exact (hu b h).1)
  have e : trailer u = 73 :: ((([78, 70, 79, 32, 85, 82, 76, 32] : Bytes) ++ u) ++ [10]) := by
    simp [trailer, infoUrlTag]
  rw [e]
  simpa [hasBadFrom] using h

/-! #### lines -/

theorem lines_append {a : Bytes} (b cur : Bytes) (h : consumed a = a) (hne : a ≠ []) :
    linesAux cur (a ++ b) = linesAux cur a ++ linesAux [] b := by
  induction a generalizing cur with
  | nil => exact absurd rfl hne
  | cons x xs ih =>
    obtain ⟨hxs, hnl⟩ := consumed_tail h
    by_cases hxs' : xs = []
    · subst hxs'
      have hx : x = 10 := by simpa [hasNl] using hnl
      subst hx
      simp [linesAux]
    · by_cases hx : (x == 10) = true
      · have := ih [] hxs hxs'
        simp only [List.cons_append, linesAux, hx, if_true, this]
      · have := ih (x :: cur) hxs hxs'
        simp only [List.cons_append, linesAux, hx, this]
        simp

theorem lines_single (l cur : Bytes) (h : ∀ b ∈ l, b ≠ 10) :
    linesAux cur (l ++ [10]) = [cur.reverse ++ l] := by
  induction l generalizing cur with
  | nil => simp [linesAux]
  | cons x xs ih =>
    have hx : (x == 10) = false := by simpa using h x (by simp)
    have := ih (x :: cur) (fun b hb => h b (by simp [hb]))
    simp only [List.cons_append, linesAux, hx]
    simpa using this

theorem isInfoUrl_tag (u : Url) : isInfoUrl (infoUrlTag ++ u) = true := by
  simp [isInfoUrl, infoUrlTag, List.isPrefixOf]

/-! #### the laws -/

theorem parse_some {b : Bytes} {t : Sym} (h : parse b = some t) : wholeOk b = true ∧ t = symOf b := by
  unfold parse at h
  by_cases hw : wholeOk b = true
  · simp [hw] at h; exact ⟨hw, h.symm⟩
  · simp [hw] at h

theorem wholeOk_iff (b : Bytes) :
    wholeOk b = true ↔ b ≠ [] ∧ consumed b = b ∧ hasBadFrom true b = false := by
  simp [wholeOk, and_assoc]

/-- state reached on the chunks `rx`: everything received is remembered, the callback got
    exactly the complete lines -/
theorem run_inv (rx : List Bytes) (s : St) (cb : Bytes) (h : model.runRev rx = some (s, cb)) :
    s.seen = bodyOf rx ∧ cb = consumed s.seen := by
  induction rx generalizing s cb with
  | nil =>
    simp [ParserModel.runRev, model] at h
    obtain ⟨rfl, rfl⟩ := h
    exact ⟨rfl, rfl⟩
  | cons b older ih =>
    simp only [ParserModel.runRev] at h
    cases hr : model.runRev older with
    | none => simp [hr] at h
    | some r =>
      obtain ⟨s0, cb0⟩ := r
      obtain ⟨hseen, hcb⟩ := ih s0 cb0 hr
      simp only [hr] at h
      cases hf : model.feed s0 b with
      | none => simp [hf] at h
      | some r' =>
        obtain ⟨s1, cb1⟩ := r'
        have hf' : feed s0 b = some (s1, cb1) := hf
        simp only [hf] at h
        cases h
        unfold feed at hf'
        by_cases hbad : hasBadFrom true (consumed (s0.seen ++ b)) = true
        · simp [hbad] at hf'
        · simp only [hbad] at hf'
          simp only [Bool.false_eq_true, if_false, Option.some.injEq, Prod.mk.injEq] at hf'
          obtain ⟨rfl, rfl⟩ := hf'
          refine ⟨by simp [bodyOf, hseen], ?_⟩
          obtain ⟨t, ht⟩ := consumed_append s0.seen b
          simp only [hcb, ht, List.drop_left]

theorem laws : ParserLaws model where
  callback_prefix := by
    intro rx s cb h
    obtain ⟨hseen, hcb⟩ := run_inv rx s cb h
    constructor
    · obtain ⟨t, ht⟩ := consumed_prefix s.seen
      exact ⟨t, by rw [hcb, ht, hseen]⟩
    · intro fin t hf
      have hf' : finish s = some (fin, t) := hf
      unfold finish at hf'
      cases hp : parse s.seen with
      | none => simp [hp] at hf'
      | some t' =>
        simp only [hp] at hf'
        cases hf'
        have := ((wholeOk_iff s.seen).mp (parse_some hp).1).2.1
        rw [hcb, this, hseen]; simp
  chunk_independent := by
    intro rx cb t _ h
    simp only [ParserModel.stream] at h
    cases hr : model.runRev rx with
    | none => simp [hr] at h
    | some r =>
      obtain ⟨s, cb0⟩ := r
      simp only [hr] at h
      cases hf : model.finish s with
      | none => simp [hf] at h
      | some r' =>
        obtain ⟨fin, t'⟩ := r'
        have hf' : finish s = some (fin, t') := hf
        simp only [hf] at h
        cases h
        unfold finish at hf'
        cases hp : parse s.seen with
        | none => simp [hp] at hf'
        | some t'' =>
          simp only [hp] at hf'
          cases hf'
          rw [← (run_inv rx s cb0 hr).1]
          exact hp
  info_url_trailer := by
    intro body t u hu _ _ hp
    obtain ⟨hw, rfl⟩ := parse_some hp
    obtain ⟨hne, hcons, hbad⟩ := (wholeOk_iff body).mp hw
    have hw' : wholeOk (body ++ trailer u) = true := by
      rw [wholeOk_iff]
      refine ⟨by simp [trailer], ?_, ?_⟩
      · have : body ++ trailer u = (body ++ infoUrlTag ++ u) ++ [10] := by simp [trailer]
        rw [this, consumed_snoc_nl]
      · rw [hasBad_append _ _ hcons hne, hbad, trailer_not_bad u hu]; rfl
    show parse (body ++ trailer u) = some _
    unfold parse
    simp only [hw', if_true]
    apply congrArg some
    have hl : linesAux [] (body ++ trailer u) = linesAux [] body ++ [infoUrlTag ++ u] := by
      rw [lines_append _ _ hcons hne]
      have : trailer u = (infoUrlTag ++ u) ++ [10] := by simp [trailer]
      rw [this, lines_single _ _ (tag_no_nl u hu)]
      simp
    show symOf (body ++ trailer u) = { symOf body with url := some u }
    simp only [symOf, hl, List.filter_append, List.filter_cons, List.filter_nil, isInfoUrl_tag]
    simp [infoUrlTag]

end MdModel.CacheFs.Toy
