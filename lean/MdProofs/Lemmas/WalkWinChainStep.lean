/-
  Helper lemmas for C04, x86 STACK WIN chains — the walker side: one `get_caller_frame` on a frame
  whose lookup address is covered by a STACK WIN record of one of the shapes `PreW` accepts
  (`linkWinM`), through `mkEnvW`'s `cfiWalkW` (record selection, C07's evaluators, conversion of
  the caller's registers back into a context) and the x86 epilogue.
-/
import MdProofs.Lemmas.WalkWinChainEval
import MdProofs.Lemmas.WalkChainMixed
import MdProofs.Lemmas.WalkScanChain32
set_option linter.unusedSimpArgs false
namespace MdModel.Walk
open MdModel MdModel.Win

/-! ### stack words are 32-bit values -/

theorem leAt_lt_w (m : Mem) : ∀ (w off : Nat), m.leAt off w < 256 ^ w := by
  intro w
  induction w with
  | zero => intro off; simp [Mem.leAt]
  | succ w ih =>
    intro off
    have h1 := ih (off + 1)
    have h2 : m.byte off < 256 := by
      unfold Mem.byte; exact UInt8.toNat_lt _
    simp only [Mem.leAt]
    rw [Nat.pow_succ]
    omega

theorem read4_le {m : Mem} {a v : Nat} (h : m.read a 4 = some v) : v ≤ U32MAX := by
  unfold Mem.read at h
  split at h
  · cases h
  · simp only at h
    split at h
    · injection h with h
      subst h
      have := Mem.wordAt_lt m (a - m.base) 4
      simp only [U32MAX]
      omega
    · cases h

/-! ### x86 contexts: validity by literal name, raw values -/

theorem has_x86 (c : Ctx) {r : String} (hr : r ∈ x86Regs) : c.has .x86 r = c.hasLit r := by
  simp only [x86Regs, List.mem_cons, List.not_mem_nil, or_false] at hr
  unfold Ctx.has Ctx.hasLit
  cases c.valid with
  | none => rcases hr with rfl | rfl | rfl | rfl | rfl | rfl | rfl | rfl | rfl | rfl <;> rfl
  | some which => simp [Arch.aliases]

theorem get_x86 (c : Ctx) {r : String} (hr : r ∈ x86Regs) :
    c.get .x86 r = if c.hasLit r then some (c.raw .x86 r) else none := by
  unfold Ctx.get
  rw [has_x86 c hr]
  simp

theorem raw_x86_eip (c : Ctx) : c.raw .x86 "eip" = c.ip := rfl
theorem raw_x86_esp (c : Ctx) : c.raw .x86 "esp" = c.sp := rfl

/-! ### `winWalker`: the read-only half handed to C07's evaluators -/

theorem winWalker_reg (mem : Mem) (f : Frame) (g : Option Frame) {r : String} (hr : r ∈ x86Regs) :
    (winWalker mem f g).reg r =
      if f.ctx.hasLit r then some (UInt32.ofNat (f.ctx.raw .x86 r)) else none := by
  have hc : x86Regs.contains r = true := by simpa using hr
  simp only [winWalker, hc, if_true, get_x86 f.ctx hr]
  split <;> rfl

theorem winWalker_mem (mem : Mem) (f : Frame) (g : Option Frame) (a : Nat) :
    (winWalker mem f g).mem a = (mem.read a 4).map UInt32.ofNat := rfl

theorem winWalker_mem_some {mem : Mem} {f : Frame} {g : Option Frame} {a v : Nat}
    (h : mem.read a 4 = some v) : (winWalker mem f g).mem a = some (UInt32.ofNat v) := by
  rw [winWalker_mem, h]; rfl

/-! ### `callerOfCtx` / `ctxOfCaller`: the mutable half and back -/

theorem callerOfCtx_valid (c : Ctx) (r : String) :
    r ∈ (callerOfCtx c).valid ↔ r ∈ x86CalleeSaved ∧ c.hasLit r = true := by
  simp [callerOfCtx, Caller.init]

theorem callerOfCtx_vals (c : Ctx) {r : String} (hr : r ∈ x86Regs) :
    (callerOfCtx c).vals.get r = some (UInt32.ofNat (c.raw .x86 r)) := by
  simp only [x86Regs, List.mem_cons, List.not_mem_nil, or_false] at hr
  rcases hr with rfl | rfl | rfl | rfl | rfl | rfl | rfl | rfl | rfl | rfl <;> rfl

theorem ctxOfCaller_ip (c : Caller) : (ctxOfCaller c).ip = ((c.vals.get "eip").getD 0).toNat := rfl
theorem ctxOfCaller_sp (c : Caller) : (ctxOfCaller c).sp = ((c.vals.get "esp").getD 0).toNat := rfl

theorem ctxOfCaller_hasLit (c : Caller) (r : String) : (ctxOfCaller c).hasLit r = c.valid.contains r := rfl

theorem ctxOfCaller_raw (c : Caller) {r : String} (hr : r ∈ x86Regs) :
    (ctxOfCaller c).raw .x86 r = ((c.vals.get r).getD 0).toNat := by
  simp only [x86Regs, List.mem_cons, List.not_mem_nil, or_false] at hr
  rcases hr with rfl | rfl | rfl | rfl | rfl | rfl | rfl | rfl | rfl | rfl <;> rfl

theorem ctxOfCaller_wf (c : Caller) : ∀ r ∈ x86Regs, (ctxOfCaller c).raw .x86 r ≤ U32MAX := by
  intro r hr
  rw [ctxOfCaller_raw c hr]
  have := UInt32.toNat_lt ((c.vals.get r).getD 0)
  simp only [U32MAX]; omega

/-! ### record selection: `winAt` (what `PreW` looks at) is what `cfiWalkW` finds -/

theorem winTables_nil_at (a : Nat) : (winTables []).at a = (none, none) := by
  have hp : ∀ (t : WinTables) (tbl : List RangeMap.Entry), t.typed = [] → t.pick tbl a = none := by
    intro t tbl ht
    unfold WinTables.pick
    cases Win.lookup tbl a with
    | none => rfl
    | some i => simp [ht]
  unfold winTables
  simp only [List.map_nil]
  split
  · simp only [WinTables.at]; rw [hp _ _ rfl, hp _ _ rfl]
  · simp only [WinTables.at]; rw [hp _ _ rfl, hp _ _ rfl]

theorem empty_at (a : Nat) : WinTables.empty.at a = (none, none) := by
  have hp : ∀ (tbl : List RangeMap.Entry), WinTables.empty.pick tbl a = none := by
    intro tbl
    unfold WinTables.pick
    cases Win.lookup tbl a with
    | none => rfl
    | some i => simp [WinTables.empty]
  simp only [WinTables.at, hp]

/-- where a module's symbol file, its CFI table and its STACK WIN tables are found -/
theorem winAt_cases {w : World} {wins : List (List Win.Rec)} {instr : Nat} {fd fpo : Option Win.SInfo}
    (h : winAt w wins instr = (fd, fpo)) (hne : fd.isSome = true ∨ fpo.isSome = true) :
    ∃ i m sf, moduleAt (modTable w.mods) instr = some i ∧ w.mods[i]? = some m ∧
      w.syms[i]? = some (some sf) ∧ ¬ instr < m.base ∧
      ((wins.map winTables)[i]?.getD WinTables.empty).at (instr - m.base) = (fd, fpo) := by
  have hnn : (fd, fpo) ≠ (none, none) := by
    intro e; injection e with e1 e2; subst e1; subst e2; simp at hne
  unfold winAt at h
  split at h
  · exact absurd h.symm hnn
  · rename_i i hi
    split at h
    · rename_i m sf hm hsf
      split at h
      · exact absurd h.symm hnn
      · rename_i hlt
        have hs : w.syms[i]? = some (some sf) := by
          cases hq : w.syms[i]? with
          | none => rw [hq] at hsf; cases hsf
          | some o => rw [hq] at hsf; simp only [Option.join_some] at hsf; rw [hsf]
        refine ⟨i, m, sf, hi, hm, hs, hlt, ?_⟩
        rw [List.getElem?_map]
        cases hw : wins[i]? with
        | none =>
          rw [hw] at h
          simp only [Option.getD_none] at h
          rw [winTables_nil_at] at h
          exact absurd h.symm hnn
        | some l =>
          rw [hw] at h
          simpa using h
    · exact absurd h.symm hnn

theorem winAt_none {w : World} {wins : List (List Win.Rec)} {instr : Nat}
    (h1 : (winAt w wins instr).1.isNone = true) (h2 : (winAt w wins instr).2.isNone = true)
    {i : Nat} {m : Module} {sf : SymFile}
    (hi : moduleAt (modTable w.mods) instr = some i) (hm : w.mods[i]? = some m)
    (hs : w.syms[i]? = some (some sf)) (hlt : ¬ instr < m.base) :
    ((wins.map winTables)[i]?.getD WinTables.empty).at (instr - m.base) = (none, none) := by
  have hall : winAt w wins instr = (none, none) := by
    cases hq : winAt w wins instr with
    | mk a b =>
      rw [hq] at h1 h2
      simp only [Option.isNone_iff_eq_none] at h1 h2
      rw [h1, h2]
  unfold winAt at hall
  simp only [hi, hm, hs, Option.join_some, if_neg hlt] at hall
  rw [List.getElem?_map]
  cases hw : wins[i]? with
  | none => simp only [Option.map_none, Option.getD_none]; exact empty_at _
  | some l => rw [hw] at hall; simpa using hall

/-- a successful STACK WIN result is the caller context of `get_caller_by_cfi` -/
theorem cfiWalkW_win_ok {w : World} {wins : List (List Win.Rec)} {mem : Mem} {f : Frame} {g : Option Frame}
    {fd fpo : Option Win.SInfo} (h : winAt w wins f.instruction = (fd, fpo))
    (hne : fd.isSome = true ∨ fpo.isSome = true) {c : Caller}
    (hr : winResult clearNamesActual fd fpo (winWalker mem f g) (callerOfCtx f.ctx) = .ok (true, c)) :
    cfiWalkW w (modTable w.mods) (cfiTables w) (wins.map winTables) mem f g = some (ctxOfCaller c) := by
  obtain ⟨i, m, sf, hi, hm, hs, hlt, hat⟩ := winAt_cases h hne
  have hct : (cfiTables w)[i]? = some (cfiTable sf) := by
    simp only [cfiTables, List.getElem?_map, hs, Option.map_some]
  unfold cfiWalkW
  simp only [hi, hm, hs, Option.join_some, hct, if_neg hlt, hat, hr]

/-! ### from the caller's registers to the frame `get_caller_frame` returns -/

/-- what a STACK WIN routine must leave in the caller half of the walker for the expected frame
    `e`: the generated return address, stack pointer, frame pointer and claimed registers, valid -/
structure CallerOut (c' : Caller) (e : Exp) : Prop where
  eip : c'.vals.get "eip" = some (UInt32.ofNat e.ret)
  esp : c'.vals.get "esp" = some (UInt32.ofNat e.sp)
  ebp : ∃ v, e.fp = some v ∧ v ≤ U32MAX ∧ c'.vals.get "ebp" = some (UInt32.ofNat v)
  valid : "eip" ∈ c'.valid ∧ "esp" ∈ c'.valid ∧ "ebp" ∈ c'.valid
  regs : ∀ p ∈ e.regs, p.1 ∈ x86Regs ∧ p.2 ≤ U32MAX ∧ p.1 ∈ c'.valid ∧
    c'.vals.get p.1 = some (UInt32.ofNat p.2)

/-- **what C04 asserts of one produced x86 frame**: technique label, return address, stack
    pointer, lookup address `ret - 1`, `eip`/`esp` valid, the frame pointer valid exactly when the
    chain says so and then with the generated value, every claimed register valid with its
    generated value; all register values 32 bit -/
structure FrameIs (t : Trust) (e : Exp) (f : Frame) : Prop where
  ip : f.ctx.ip = e.ret
  sp : f.ctx.sp = e.sp
  trust : f.trust = t
  instr : f.instruction = e.ret - 1
  vip : f.ctx.hasLit "eip" = true
  vsp : f.ctx.hasLit "esp" = true
  fp : e.fp = if f.ctx.hasLit "ebp" then some (f.ctx.raw .x86 "ebp") else none
  regs : ∀ p ∈ e.regs, p.1 ∈ x86Regs ∧ f.ctx.hasLit p.1 = true ∧ f.ctx.raw .x86 p.1 = p.2
  wf : ∀ r ∈ x86Regs, f.ctx.raw .x86 r ≤ U32MAX
  m64 : f.ctx.m64 = false

theorem step_of_callerOut {env : Env} {mem : Mem} {f : Frame} {g : Option Frame} {c' : Caller} {e : Exp}
    (harch : env.arch = .x86) (hcfi : env.cfi f g = some (ctxOfCaller c')) (ho : CallerOut c' e)
    (hret : 4096 ≤ e.ret) (hretm : e.ret ≤ U32MAX) (hspm : e.sp ≤ U32MAX) (hsp : f.ctx.sp < e.sp) :
    ∃ f', step env mem f g = some f' ∧ FrameIs .cfi e f' := by
  have hip : (ctxOfCaller c').ip = e.ret := by
    rw [ctxOfCaller_ip, ho.eip]; exact u32_toNat_ofNat hretm
  have hsp' : (ctxOfCaller c').sp = e.sp := by
    rw [ctxOfCaller_sp, ho.esp]; exact u32_toNat_ofNat hspm
  refine ⟨{ ctx := ctxOfCaller c', trust := .cfi, instruction := e.ret - 1 }, ?_, ?_⟩
  · unfold step
    simp only [effArch, harch, Arch.isMips, Bool.false_eq_true, if_false, candidate, hcfi]
    simp only [epilogue, nullish_eq, hip, hsp', Arch.adj, Consts.adj_x86, Arch.leafOk, Bool.false_and,
      Bool.not_false, and_true]
    rw [if_neg (by omega), if_neg (by omega)]
  · obtain ⟨v, hfp, hv, hebp⟩ := ho.ebp
    refine ⟨hip, hsp', rfl, rfl, ?_, ?_, ?_, ?_, ctxOfCaller_wf c', rfl⟩
    · simp only [ctxOfCaller_hasLit, List.contains_iff_mem, ho.valid.1]
    · simp only [ctxOfCaller_hasLit, List.contains_iff_mem, ho.valid.2.1]
    · have : (ctxOfCaller c').hasLit "ebp" = true := by
        simp only [ctxOfCaller_hasLit, List.contains_iff_mem, ho.valid.2.2]
      simp only [this, if_true]
      rw [ctxOfCaller_raw c' (by decide), hebp, hfp]
      simp only [Option.getD_some, u32_toNat_ofNat hv]
    · intro p hp
      obtain ⟨h1, h2, h3, h4⟩ := ho.regs p hp
      refine ⟨h1, ?_, ?_⟩
      · simp only [ctxOfCaller_hasLit, List.contains_iff_mem, h3]
      · rw [ctxOfCaller_raw c' h1, h4]
        simp only [Option.getD_some, u32_toNat_ofNat h2]

theorem reg3_x86 {r : String} (h : Reg3 r) : r ∈ x86Regs ∧ r ∈ outputRegs := by
  rcases h with rfl | rfl | rfl <;> decide

/-- a frame-data program whose final variable map holds the generated values leaves them, valid,
    in the caller (C07: `framedata_succeeds`, `framedata_caller`) -/
theorem callerOut_framedata {i : SInfo} {prog : List Char} {w : Walker} (c : Caller) {vs : Vars} {e : Exp}
    (hi : i.thing = .prog prog) (hv : finalVars prog i.info w = .ok vs)
    (h1 : vs.get "$eip" = some (UInt32.ofNat e.ret))
    (h2 : ∃ csp, vs.get "$esp" = some csp ∧ csp.toNat = e.sp)
    (h3 : ∃ v, e.fp = some v ∧ v ≤ U32MAX ∧ vs.get "$ebp" = some (UInt32.ofNat v))
    (h4 : ∀ p ∈ e.regs, Reg3 p.1 ∧ p.2 ≤ U32MAX ∧ vs.get ("$" ++ p.1) = some (UInt32.ofNat p.2)) :
    ∃ c', walkFramedata clearNamesActual i w c = .ok (true, c') ∧ CallerOut c' e := by
  obtain ⟨c', hc'⟩ := framedata_succeeds (names := clearNamesActual) c hi hv
  obtain ⟨hval, hvals⟩ := framedata_caller hi hv hc'
  obtain ⟨csp, h2a, h2b⟩ := h2
  have hcsp : csp = UInt32.ofNat e.sp := by rw [← h2b, UInt32.ofNat_toNat]
  obtain ⟨v, h3a, h3b, h3c⟩ := h3
  refine ⟨c', hc', ?_, ?_, ⟨v, h3a, h3b, ?_⟩, ⟨?_, ?_, ?_⟩, ?_⟩
  · exact hvals "eip" (by decide) _ h1
  · rw [← hcsp]; exact hvals "esp" (by decide) _ h2a
  · exact hvals "ebp" (by decide) _ h3c
  · exact (hval "eip").mpr (Or.inr ⟨by decide, _, h1⟩)
  · exact (hval "esp").mpr (Or.inr ⟨by decide, _, h2a⟩)
  · exact (hval "ebp").mpr (Or.inr ⟨by decide, _, h3c⟩)
  · intro p hp
    obtain ⟨q1, q2, q3⟩ := h4 p hp
    exact ⟨(reg3_x86 q1).1, q2, (hval p.1).mpr (Or.inr ⟨(reg3_x86 q1).2, _, q3⟩),
      hvals p.1 (reg3_x86 q1).2 _ q3⟩

/-! ### the frame being unwound, as `PreW`'s per-frame state describes it -/

/-- the parameter size recorded on the frame below (`grand_callee_parameter_size`, 0 if unknown) -/
def gcpOf (g : Option Frame) : Nat := (g.bind fun x => x.func.map (·.psize)).getD 0

/-- frame `f` (with the frame `g` below it) is in the state `st` of `PreW` -/
structure WinView (f : Frame) (g : Option Frame) (st : MState) : Prop where
  instr : f.instruction = st.instr
  ip : f.ctx.ip = st.ip
  sp : f.ctx.sp = st.sp
  vip : f.ctx.hasLit "eip" = true
  vsp : f.ctx.hasLit "esp" = true
  fp : st.fp = if f.ctx.hasLit "ebp" then some (f.ctx.raw .x86 "ebp") else none
  regs : ∀ r v, st.regs.lookup r = some v → f.ctx.hasLit r = true ∧ f.ctx.raw .x86 r = v
  first : g.isSome = !st.first
  gcp : gcpOf g = st.gcp
  trust : st.first = true ↔ f.trust = .context
  wf : ∀ r ∈ x86Regs, f.ctx.raw .x86 r ≤ U32MAX
  m64 : f.ctx.m64 = false

namespace WinView
variable {f : Frame} {g : Option Frame} {st : MState} (hv : WinView f g st) (mem : Mem)
include hv

theorem sp_le : st.sp ≤ U32MAX := by
  have := hv.wf "esp" (by decide); rw [raw_x86_esp, hv.sp] at this; exact this

theorem ip_le : st.ip ≤ U32MAX := by
  have := hv.wf "eip" (by decide); rw [raw_x86_eip, hv.ip] at this; exact this

theorem reg_esp : (winWalker mem f g).reg "esp" = some (UInt32.ofNat st.sp) := by
  rw [winWalker_reg mem f g (by decide), hv.vsp, raw_x86_esp, hv.sp]; rfl

theorem reg_eip : (winWalker mem f g).reg "eip" = some (UInt32.ofNat st.ip) := by
  rw [winWalker_reg mem f g (by decide), hv.vip, raw_x86_eip, hv.ip]; rfl

theorem fp_some {b : Nat} (hb : st.fp = some b) :
    f.ctx.hasLit "ebp" = true ∧ f.ctx.raw .x86 "ebp" = b ∧ b ≤ U32MAX := by
  have h := hv.fp
  rw [hb] at h
  by_cases hl : f.ctx.hasLit "ebp" = true
  · simp only [hl, if_true, Option.some.injEq] at h
    exact ⟨hl, h.symm, h ▸ hv.wf "ebp" (by decide)⟩
  · simp [hl] at h

theorem reg_ebp {b : Nat} (hb : st.fp = some b) : (winWalker mem f g).reg "ebp" = some (UInt32.ofNat b) := by
  obtain ⟨h1, h2, _⟩ := hv.fp_some hb
  rw [winWalker_reg mem f g (by decide), h1, h2]; rfl

theorem hasGC : (winWalker mem f g).hasGC = !st.first := hv.first

theorem gcParam : (winWalker mem f g).gcParam = UInt32.ofNat st.gcp := by
  show UInt32.ofNat (gcpOf g) = _
  rw [hv.gcp]

end WinView

/-! ### one frame through a frame-data record -/

/-- x86 `get_caller_by_cfi` in `mkEnvW`: `cfiWalkW`, once `esp` is valid -/
theorem mkEnvW_cfi_x86 (os : Os) (w : World) (wins : List (List Win.Rec)) (mem : Mem) (f : Frame)
    (g : Option Frame) (h : f.ctx.hasLit "esp" = true) :
    (mkEnvW .x86 os w wins mem).cfi f g =
      cfiWalkW w (modTable w.mods) (cfiTables w) (wins.map winTables) mem f g := by
  simp only [mkEnvW, cfiOfW, effArch, Arch.isMips, Bool.false_eq_true, if_false, if_true, h, Bool.not_true]

/-- `linkWinM`'s conditions on the saved-register groups and on the claimed registers, read for
    the evaluator: every slot is readable, and a final variable map that holds the slot words
    holds the claimed values -/
theorem slots_spec {mem : Mem} {f : Frame} {g : Option Frame} {t0 : Nat} {saved regs : List (String × Nat)}
    (hs : (saved.all fun x => decide (x.snd ≤ t0) && (mem.read (t0 - x.snd) 4).isSome &&
      (x.fst == "ebx" || x.fst == "esi" || x.fst == "edi")) = true)
    (hr : regsFrom [] regs (fun r => Option.map (fun off => mem.read (t0 - off) 4) (List.lookup r saved)) = true) :
    (∀ p ∈ saved, p.2 ≤ t0 ∧ ((winWalker mem f g).mem (t0 - p.2)).isSome = true) ∧
    (∀ vs : Vars, (∀ r off, saved.lookup r = some off →
        vs.get ("$" ++ r) = some (((winWalker mem f g).mem (t0 - off)).getD 0)) →
      ∀ p ∈ regs, Reg3 p.1 ∧ p.2 ≤ U32MAX ∧ vs.get ("$" ++ p.1) = some (UInt32.ofNat p.2)) := by
  simp only [List.all_eq_true, Bool.and_eq_true, decide_eq_true_eq, Bool.or_eq_true, beq_iff_eq] at hs
  constructor
  · intro p hp
    obtain ⟨⟨h1, h2⟩, _⟩ := hs p hp
    refine ⟨h1, ?_⟩
    rw [winWalker_mem]
    simpa using h2
  · intro vs hvs p hp
    simp only [regsFrom, List.all_eq_true] at hr
    have h := hr p hp
    cases hl : List.lookup p.1 saved with
    | none => simp [hl] at h
    | some off =>
      simp only [hl, Option.map_some, beq_iff_eq] at h
      have hmem : (p.1, off) ∈ saved := by
        obtain ⟨l1, l2, hh, _⟩ := List.lookup_eq_some_iff.mp hl
        rw [hh]; simp
      obtain ⟨_, h3⟩ := hs _ hmem
      have h3' : Reg3 p.1 := by
        rcases h3 with (h3 | h3) | h3
        · exact Or.inl h3
        · exact Or.inr (Or.inl h3)
        · exact Or.inr (Or.inr h3)
      refine ⟨h3', read4_le h, ?_⟩
      rw [hvs p.1 off hl, winWalker_mem_some h]
      rfl

/-- **one frame through STACK WIN frame data.** The callee is in state `st`, its lookup address is
    covered by a frame-data record whose program is one of the shapes `PreW` accepts, and
    `linkWinM` holds of the expected caller `e`: `get_caller_frame` returns a `cfi` frame with the
    generated return address, `esp`, `ebp` and claimed saved registers. -/
theorem step_win_fd {os : Os} {w : World} {wins : List (List Win.Rec)} {mem : Mem} {f : Frame}
    {g : Option Frame} {st : MState} {e : Exp} {si : SInfo} {fpo : Option SInfo}
    (hv : WinView f g st) (hq : winAt w wins st.instr = (some si, fpo))
    (hw : linkWinM w wins mem st e = true)
    (hret : 4096 ≤ e.ret) (hretm : e.ret ≤ U32MAX) (hspm : e.sp ≤ U32MAX) (hsp : st.sp < e.sp) :
    ∃ f', step (mkEnvW .x86 os w wins mem) mem f g = some f' ∧ FrameIs .cfi e f' := by
  have hspf : f.ctx.sp < e.sp := by rw [hv.sp]; exact hsp
  -- it suffices to evaluate the program
  have key : ∀ (prog : List Char) (vs : Vars), si.thing = .prog prog →
      finalVars prog si.info (winWalker mem f g) = .ok vs →
      vs.get "$eip" = some (UInt32.ofNat e.ret) → (∃ csp, vs.get "$esp" = some csp ∧ csp.toNat = e.sp) →
      (∃ v, e.fp = some v ∧ v ≤ U32MAX ∧ vs.get "$ebp" = some (UInt32.ofNat v)) →
      (∀ p ∈ e.regs, Reg3 p.1 ∧ p.2 ≤ U32MAX ∧ vs.get ("$" ++ p.1) = some (UInt32.ofNat p.2)) →
      ∃ f', step (mkEnvW .x86 os w wins mem) mem f g = some f' ∧ FrameIs .cfi e f' := by
    intro prog vs hth hfv h1 h2 h3 h4
    obtain ⟨c', hc', ho⟩ := callerOut_framedata (callerOfCtx f.ctx) hth hfv h1 h2 h3 h4
    have hq' : winAt w wins f.instruction = (some si, fpo) := by rw [hv.instr]; exact hq
    have hcw := cfiWalkW_win_ok (mem := mem) (g := g) hq' (Or.inl rfl) (c := c') hc'
    have hcfi : (mkEnvW .x86 os w wins mem).cfi f g = some (ctxOfCaller c') := by
      rw [mkEnvW_cfi_x86 os w wins mem f g hv.vsp]; exact hcw
    exact step_of_callerOut rfl hcfi ho hret hretm hspm hspf
  unfold linkWinM at hw
  simp only [hq] at hw
  cases hth : si.thing with
  | abp x => simp [hth] at hw
  | prog prog =>
    simp only [hth] at hw
    cases hm : matchWin prog with
    | none => simp [hm] at hw
    | some sh =>
      cases sh with
      | std saved =>
        simp only [hm] at hw
        cases hfp : st.fp with
        | none => simp [hfp] at hw
        | some b =>
          simp only [hfp, Bool.and_eq_true, decide_eq_true_eq, beq_iff_eq] at hw
          obtain ⟨⟨⟨⟨⟨⟨⟨hss, hb8⟩, hr1⟩, hr2⟩, hfs⟩, hesp⟩, hsave, hnd⟩, hregs⟩ := hw
          obtain ⟨v, hev⟩ := Option.isSome_iff_exists.mp hfs
          rw [hev] at hr2
          obtain ⟨hsv, hcl⟩ := slots_spec (f := f) (g := g) hsave hregs
          have hble := (hv.fp_some hfp).2.2
          have hgc : st.gcp ≤ U32MAX := by omega
          have tb : (UInt32.ofNat b).toNat = b := u32_toNat_ofNat hble
          obtain ⟨vs, hfv, q1, q2, q3, q4⟩ := finalVars_std (info := si.info) (w := winWalker mem f g) hm
            (hv.reg_esp mem) (hv.reg_ebp mem hfp)
            (by rw [hv.gcParam, u32_toNat_ofNat hv.sp_le, u32_toNat_ofNat hgc]; exact hss)
            (by rw [tb]; exact hb8)
            (by rw [tb]; exact winWalker_mem_some hr1) (by rw [tb]; exact winWalker_mem_some hr2)
            (by rw [tb]; exact hsv) hnd
          rw [tb] at q4
          refine key prog vs hth hfv q1 ⟨_, q2, ?_⟩ ⟨v, hev, read4_le hr2, q3⟩ (hcl vs q4)
          have e8 : (8 : UInt32).toNat = 8 := rfl
          rw [u32_add (by rw [tb, e8]; exact hb8), tb, e8, hesp]
      | raAt saved =>
        simp only [hm] at hw
        cases hfp : st.fp with
        | none => simp [hfp] at hw
        | some b =>
          simp only [hfp, Bool.and_eq_true, decide_eq_true_eq, beq_iff_eq] at hw
          obtain ⟨⟨⟨⟨⟨⟨hb8, hr1⟩, hr2⟩, hfs⟩, hesp⟩, hsave, hnd⟩, hregs⟩ := hw
          obtain ⟨v, hev⟩ := Option.isSome_iff_exists.mp hfs
          rw [hev] at hr2
          have e44 : b + 4 - 4 = b := by omega
          rw [e44] at hr2
          obtain ⟨hsv, hcl⟩ := slots_spec (f := f) (g := g) hsave hregs
          have hble := (hv.fp_some hfp).2.2
          have tb : (UInt32.ofNat b).toNat = b := u32_toNat_ofNat hble
          obtain ⟨vs, csp, hfv, q1, q2, q2', q3, q4⟩ := finalVars_raAt (info := si.info) (w := winWalker mem f g) hm
            (hv.reg_esp mem) (hv.reg_ebp mem hfp)
            (by rw [tb]; omega)
            (by rw [tb]; exact winWalker_mem_some hr1) (by rw [tb]; exact winWalker_mem_some hr2)
            (by rw [tb]; exact hsv) hnd
          rw [tb] at q4 q2'
          exact key prog vs hth hfv q1 ⟨csp, q2, by rw [q2', hesp]⟩ ⟨v, hev, read4_le hr2, q3⟩ (hcl vs q4)
      | ra ebpOff saved =>
        simp only [hm, Bool.and_eq_true, decide_eq_true_eq, beq_iff_eq] at hw
        obtain ⟨⟨⟨⟨⟨⟨⟨hfs, hfsm⟩, hb4⟩, hr1⟩, hesp⟩, hebp⟩, hsave, hnd⟩, hregs⟩ := hw
        obtain ⟨b, hfp⟩ := Option.isSome_iff_exists.mp hfs
        obtain ⟨hsv, hcl⟩ := slots_spec (f := f) (g := g) hsave hregs
        have hble := (hv.fp_some hfp).2.2
        have hgc : st.gcp ≤ U32MAX := by omega
        have ht0 : st.sp + (si.info.loc.toNat + si.info.sav.toNat + st.gcp) =
            (UInt32.ofNat st.sp).toNat + (si.info.loc.toNat + si.info.sav.toNat +
              (winWalker mem f g).gcParam.toNat) := by
          rw [hv.gcParam, u32_toNat_ofNat hv.sp_le, u32_toNat_ofNat hgc]
        -- the caller's frame pointer: restored from the frame, or the callee's
        have hnfp : ∃ v, e.fp = some v ∧ v ≤ U32MAX ∧
            (match ebpOff with
              | some off => off ≤ st.sp + (si.info.loc.toNat + si.info.sav.toNat + st.gcp) ∧
                  (winWalker mem f g).mem (st.sp + (si.info.loc.toNat + si.info.sav.toNat + st.gcp) - off) =
                    some (UInt32.ofNat v)
              | none => UInt32.ofNat v = UInt32.ofNat b) := by
          cases ebpOff with
          | some off =>
            simp only [Bool.and_eq_true, decide_eq_true_eq, beq_iff_eq] at hebp
            obtain ⟨⟨hle, hrd⟩, hs⟩ := hebp
            obtain ⟨v, hev⟩ := Option.isSome_iff_exists.mp hs
            rw [hev] at hrd
            exact ⟨v, hev, read4_le hrd, hle, winWalker_mem_some hrd⟩
          | none =>
            simp only [beq_iff_eq] at hebp
            exact ⟨b, by rw [hebp, hfp], hble, rfl⟩
        obtain ⟨v, hev, hvle, hmatch⟩ := hnfp
        obtain ⟨vs, csp, hfv, q1, q2, q2', q3, q4⟩ := finalVars_ra (info := si.info) (w := winWalker mem f g) hm
          (t0 := st.sp + (si.info.loc.toNat + si.info.sav.toNat + st.gcp))
          (hv.reg_esp mem) (hv.reg_ebp mem hfp) ht0 hb4 (winWalker_mem_some hr1) (UInt32.ofNat v)
          (by cases ebpOff <;> exact hmatch) hsv hnd
        exact key prog vs hth hfv q1 ⟨csp, q2, by rw [q2', hesp]⟩ ⟨v, hev, hvle, q3⟩ (hcl vs q4)

/-! ### one frame through an FPO record -/

/-- the `set_caller_register` calls of the FPO routine (`ebx` passed through or not, then `eip`,
    `esp`, `ebp`) all succeed and leave the generated values, valid, in the caller -/
theorem callerOut_fpo (c0 : Caller) {pre : List (String × Nat)} {e : Exp} {v : Nat}
    (hpre : pre = [] ∨ ∃ x, pre = [("ebx", x)] ∧ x ≤ U32MAX)
    (hretm : e.ret ≤ U32MAX) (hspm : e.sp ≤ U32MAX) (hv : v ≤ U32MAX) (hfp : e.fp = some v)
    (hregs : ∀ p ∈ e.regs, p ∈ pre) :
    ∃ c', applySets c0 (pre ++ [("eip", e.ret), ("esp", e.sp), ("ebp", v)]) = (true, c') ∧ CallerOut c' e := by
  have hall : ∀ x ∈ pre ++ [("eip", e.ret), ("esp", e.sp), ("ebp", v)], x.1 ∈ x86Regs ∧ x.2 ≤ U32MAX := by
    intro x hx
    rcases List.mem_append.mp hx with hx | hx
    · rcases hpre with rfl | ⟨y, rfl, hy⟩
      · cases hx
      · simp only [List.mem_cons, List.not_mem_nil, or_false] at hx; subst hx; exact ⟨by simp [x86Regs], hy⟩
    · simp only [List.mem_cons, List.not_mem_nil, or_false] at hx
      rcases hx with rfl | rfl | rfl
      · exact ⟨by simp [x86Regs], hretm⟩
      · exact ⟨by simp [x86Regs], hspm⟩
      · exact ⟨by simp [x86Regs], hv⟩
  obtain ⟨c', hc'⟩ := applySets_ok c0 _ hall
  have hnd : ((pre ++ [("eip", e.ret), ("esp", e.sp), ("ebp", v)]).map (·.1)).Nodup := by
    rcases hpre with rfl | ⟨y, rfl, _⟩ <;> simp (config := { decide := true })
  have hval := applySets_valid hc'
  have hvals := fun r x hm => applySets_vals_mem hc' hnd (r := r) (v := x) hm
  refine ⟨c', hc', ?_, ?_, ⟨v, hfp, hv, ?_⟩, ⟨?_, ?_, ?_⟩, ?_⟩
  · exact hvals "eip" e.ret (by simp)
  · exact hvals "esp" e.sp (by simp)
  · exact hvals "ebp" v (by simp)
  · exact (hval "eip").mpr (Or.inr (by simp))
  · exact (hval "esp").mpr (Or.inr (by simp))
  · exact (hval "ebp").mpr (Or.inr (by simp))
  · intro p hp
    have hm := hregs p hp
    have hm' : p ∈ pre ++ [("eip", e.ret), ("esp", e.sp), ("ebp", v)] := List.mem_append_left _ hm
    obtain ⟨h1, h2⟩ := hall p hm'
    exact ⟨h1, h2, (hval p.1).mpr (Or.inr (List.mem_map.mpr ⟨p, hm', rfl⟩)), hvals p.1 p.2 hm'⟩

/-- **one frame through a STACK WIN FPO record** (with or without `allocates_base_pointer`, the
    grand callee's parameter size, the leftover-return-address skip on the context frame only) -/
theorem step_win_fpo {os : Os} {w : World} {wins : List (List Win.Rec)} {mem : Mem} {f : Frame}
    {g : Option Frame} {st : MState} {e : Exp} {si : SInfo}
    (hv : WinView f g st) (hq : winAt w wins st.instr = (none, some si))
    (hw : linkWinM w wins mem st e = true)
    (hret : 4096 ≤ e.ret) (hretm : e.ret ≤ U32MAX) (hspm : e.sp ≤ U32MAX) (hsp : st.sp < e.sp) :
    ∃ f', step (mkEnvW .x86 os w wins mem) mem f g = some f' ∧ FrameIs .cfi e f' := by
  have hspf : f.ctx.sp < e.sp := by rw [hv.sp]; exact hsp
  unfold linkWinM at hw
  simp only [hq] at hw
  cases hth : si.thing with
  | prog x => simp [hth] at hw
  | abp abp =>
    simp only [hth, Bool.and_eq_true, decide_eq_true_eq, beq_iff_eq] at hw
    obtain ⟨⟨⟨⟨⟨⟨hfs, hfsm⟩, ha4⟩, hr1⟩, hesp⟩, hebp⟩, hregs⟩ := hw
    obtain ⟨b, hfp⟩ := Option.isSome_iff_exists.mp hfs
    have hble := (hv.fp_some hfp).2.2
    have hgc : st.gcp ≤ U32MAX := by omega
    have hsav : si.info.sav.toNat ≤ U32MAX := by
      have := UInt32.toNat_lt si.info.sav; simp only [U32MAX]; omega
    -- the walker as C07's formulae see it
    have wgc : (winWalker mem f g).gcParam.toNat = st.gcp := by rw [hv.gcParam, u32_toNat_ofNat hgc]
    have hwfs : winFrameSize si.info (winWalker mem f g).gcParam =
        some (UInt32.ofNat (si.info.loc.toNat + si.info.sav.toNat + st.gcp)) := by
      rw [winFrameSize_some, wgc]
      exact ⟨hfsm, u32_toNat_ofNat hfsm⟩
    have tfs : (UInt32.ofNat (si.info.loc.toNat + si.info.sav.toNat + st.gcp)).toNat =
        si.info.loc.toNat + si.info.sav.toNat + st.gcp := u32_toNat_ofNat hfsm
    have tsp : (UInt32.ofNat st.sp).toNat = st.sp := u32_toNat_ofNat hv.sp_le
    -- the caller's frame pointer
    have hfpo : ∃ v, e.fp = some v ∧ v ≤ U32MAX ∧
        fpoEbp si.info abp (winWalker mem f g) (UInt32.ofNat st.sp) = .ok (UInt32.ofNat v) := by
      cases abp with
      | true =>
        simp only [if_true, Bool.and_eq_true, decide_eq_true_eq, beq_iff_eq] at hebp
        obtain ⟨⟨h8, hrd⟩, hs⟩ := hebp
        obtain ⟨v, hev⟩ := Option.isSome_iff_exists.mp hs
        rw [hev] at hrd
        refine ⟨v, hev, read4_le hrd, ?_⟩
        rw [fpoEbp_abp, tsp, wgc, if_neg (by omega), winWalker_mem_some hrd]
        rfl
      | false =>
        simp only [Bool.false_eq_true, if_false, beq_iff_eq] at hebp
        refine ⟨b, by rw [hebp, hfp], hble, ?_⟩
        rw [fpoEbp_noabp, hv.reg_ebp mem hfp]
        rfl
    obtain ⟨v, hev, hvle, hfe⟩ := hfpo
    -- what is passed through: `ebx`, when no base pointer is allocated and it is known
    have hpre : (fpoPre abp (winWalker mem f g) = [] ∨
        ∃ x, fpoPre abp (winWalker mem f g) = [("ebx", x)] ∧ x ≤ U32MAX) ∧
        ∀ p ∈ e.regs, p ∈ fpoPre abp (winWalker mem f g) := by
      constructor
      · rw [fpoPre_spec]
        cases abp with
        | true => exact Or.inl rfl
        | false =>
          cases (winWalker mem f g).reg "ebx" with
          | none => exact Or.inl rfl
          | some x =>
            right
            refine ⟨x.toNat, rfl, ?_⟩
            have := UInt32.toNat_lt x; simp only [U32MAX]; omega
      · intro p hp
        simp only [List.all_eq_true, Bool.and_eq_true, beq_iff_eq, Bool.not_eq_true'] at hregs
        obtain ⟨⟨h1, h2⟩, h3⟩ := hregs p hp
        obtain ⟨q1, q2⟩ := hv.regs "ebx" p.2 h3
        have hx : (winWalker mem f g).reg "ebx" = some (UInt32.ofNat p.2) := by
          rw [winWalker_reg mem f g (by decide), q1, q2]; rfl
        have hp2 : p.2 ≤ U32MAX := q2 ▸ hv.wf "ebx" (by decide)
        rw [fpoPre_spec, h2, hx]
        simp only [u32_toNat_ofNat hp2, List.mem_cons, List.not_mem_nil, or_false]
        exact Prod.ext h1 rfl
    -- the plan of the routine
    have hplan : fpoPlan si.info abp (winWalker mem f g) =
        .ok { sets := fpoPre abp (winWalker mem f g) ++ [("eip", e.ret), ("esp", e.sp), ("ebp", v)],
              done := true } := by
      by_cases hlo : st.first = true ∧ mem.read (st.sp + (si.info.loc.toNat + si.info.sav.toNat + st.gcp)) 4 = some st.ip
      · rw [if_pos hlo] at ha4 hr1 hesp
        have hgcf : (winWalker mem f g).hasGC = false := by rw [hv.hasGC, hlo.1]; rfl
        have h := fpo_leftover_skip (abp := abp) hwfs (hv.reg_esp mem)
          (by rw [tsp, tfs]; exact winWalker_mem_some hlo.2) hgcf (hv.reg_eip mem)
          (by rw [tsp, tfs]; exact winWalker_mem_some hr1) hfe
        rw [h, tsp, tfs, u32_toNat_ofNat hretm, u32_toNat_ofNat hvle, hesp]
      · rw [if_neg hlo] at ha4 hr1 hesp
        have hno : (winWalker mem f g).hasGC = true ∨
            ∃ ce, (winWalker mem f g).reg "eip" = some ce ∧ UInt32.ofNat e.ret ≠ ce := by
          by_cases hf : st.first = true
          · right
            refine ⟨_, hv.reg_eip mem, ?_⟩
            intro heq
            have := (u32_ofNat_inj hretm hv.ip_le).mp heq
            exact hlo ⟨hf, by rw [hr1, this]⟩
          · left
            rw [hv.hasGC]
            simpa using hf
        have h := (fpo_formulae (abp := abp) hwfs (hv.reg_esp mem)
          (by rw [tsp, tfs]; exact winWalker_mem_some hr1) hno hfe).2
        rw [h, tsp, tfs, u32_toNat_ofNat hretm, u32_toNat_ofNat hvle, hesp]
    obtain ⟨c', hc', ho⟩ := callerOut_fpo (clearAll clearNamesActual (callerOfCtx f.ctx)) hpre.1 hretm hspm hvle hev hpre.2
    have hres : winResult clearNamesActual none (some si) (winWalker mem f g) (callerOfCtx f.ctx) = .ok (true, c') := by
      simp only [winResult, walkFpo, hth, hplan, runPlan, hc', Bool.and_self]
    have hq' : winAt w wins f.instruction = (none, some si) := by rw [hv.instr]; exact hq
    have hcw := cfiWalkW_win_ok (mem := mem) (g := g) hq' (Or.inr rfl) (c := c') hres
    have hcfi : (mkEnvW .x86 os w wins mem).cfi f g = some (ctxOfCaller c') := by
      rw [mkEnvW_cfi_x86 os w wins mem f g hv.vsp]; exact hcw
    exact step_of_callerOut rfl hcfi ho hret hretm hspm hspf

/-! ### frames without any record: `get_caller_by_cfi` yields nothing -/

theorem cfi_none_of_noRecord {os : Os} {w : World} {wins : List (List Win.Rec)} {mem : Mem} {f : Frame}
    {g : Option Frame} (hn : noRecordAt w wins f.instruction = true) :
    (mkEnvW .x86 os w wins mem).cfi f g = none := by
  simp only [noRecordAt, Bool.and_eq_true, Option.isNone_iff_eq_none] at hn
  obtain ⟨⟨hc, h1⟩, h2⟩ := hn
  by_cases hsp : f.ctx.hasLit "esp" = true
  · rw [mkEnvW_cfi_x86 os w wins mem f g hsp]
    unfold cfiWalkW
    split
    · rfl
    · rename_i i hi
      split
      · rename_i m sf ct hm hsf hct
        have hs : w.syms[i]? = some (some sf) := by
          cases hq : w.syms[i]? with
          | none => rw [hq] at hsf; cases hsf
          | some o => rw [hq] at hsf; simp only [Option.join_some] at hsf; rw [hsf]
        have hct' : ct = cfiTable sf := by
          simp only [cfiTables, List.getElem?_map, hs, Option.map_some] at hct
          injection hct with hct
          exact hct.symm
        subst hct'
        split
        · rfl
        · rename_i hlt
          have hat := winAt_none (wins := wins) (by simp [h1]) (by simp [h2]) hi hm hs hlt
          simp only [hat, winResult]
          unfold cfiRecordAt at hc
          simp only [hi, hm, hs, Option.join_some, if_neg hlt] at hc
          unfold walkFrameCfi
          simp only [if_neg hlt]
          cases hget : RangeMap.get (cfiTable sf) (f.instruction - m.base) with
          | none => rfl
          | some j =>
            simp only [hget] at hc
            simp only [hc, Option.map_none]
      · rfl
  · simp only [mkEnvW, cfiOfW, effArch, Arch.isMips, Bool.false_eq_true, if_false, if_true]
    simp only [Bool.not_eq_true] at hsp
    simp [hsp]

/-- `get_caller_frame` looks at `get_caller_by_cfi` only for this frame: when it yields nothing the
    step is the one of the environment without CFI (for which the frame-pointer and scan lemmas of
    `WalkChain` / `WalkScanChain32` are stated) -/
def noCfiEnv (env : Env) : Env := { env with cfi := fun _ _ => none }

theorem step_noCfiEnv {env : Env} {mem : Mem} {f : Frame} {g : Option Frame} (h : env.cfi f g = none) :
    step env mem f g = step (noCfiEnv env) mem f g := by
  unfold step candidate
  simp only [h, noCfiEnv]
  rfl

/-! ### the generated end of an x86 stack -/

theorem instrValid_x86_zero (env : Env) : instrValid env .x86 0 = false := by
  simp [instrValid, instrPre]

/-- no record, a dead frame pointer (invalid, or 0 with nothing readable at 0), zero words up to
    the end of the stack memory: no technique finds a caller -/
theorem step_end_x86_dead {env : Env} {mem : Mem} {f : Frame} {g : Option Frame}
    (harch : env.arch = .x86) (hcfi : env.cfi f g = none) (hz : zerosFrom mem 4 f.ctx.sp = true)
    (hfp : f.ctx.hasLit "ebp" = false ∨ (f.ctx.raw .x86 "ebp" = 0 ∧ 16 < mem.base)) :
    step env mem f g = none := by
  have hbf : byFp env .x86 mem f.ctx = none := by
    simp only [byFp, fpX86]
    rcases hfp with h | ⟨h, hb⟩
    · simp [h]
    · by_cases hl : f.ctx.hasLit "ebp" = true
      · simp only [hl, h, Bool.not_true, Bool.false_eq_true, if_false]
        rw [if_neg (by decide), read_below_base (by omega)]
      · simp [hl]
  have hscan : ∀ n, scanFrom (instrValid env .x86) mem 4 U32MAX f.ctx.sp n 0 = none := fun n =>
    scanFrom_zeros (by decide) hz (instrValid_x86_zero env) n 0
  unfold step
  simp only [effArch, harch, Arch.isMips, Bool.false_eq_true, ↓reduceIte, candidate, hcfi, hbf, byScan, scanX86,
    hscan]
  cases f.ctx.hasLit "esp" <;> rfl

/-- the outermost frame's record `(0, 0)`: the frame-pointer technique yields a frame with return
    address 0, which the epilogue drops -/
theorem step_end_x86_record {env : Env} {mem : Mem} {f : Frame} {g : Option Frame} {sp fp : Nat}
    (harch : env.arch = .x86) (hcfi : env.cfi f g = none)
    (hv : FpView .x86 f.ctx sp fp) (he : endFp .x86 env.os mem sp fp = true) : step env mem f g = none := by
  rw [step_noCfiEnv hcfi]
  exact step_end_x86 (env := noCfiEnv env) harch (fun _ _ => rfl) hv he

/-! ### frames of an x86 stack found by the other techniques, below / between STACK WIN frames -/

/-- **one frame through a frame-pointer record**, no record of any kind covering the lookup address -/
theorem step_mixed_fp {os : Os} {w : World} {wins : List (List Win.Rec)} {mem : Mem} {f : Frame}
    {g : Option Frame} {st : MState} {e : Exp} {f0 : Nat}
    (hv : WinView f g st) (hn : noRecordAt w wins st.instr = true) (hfp : st.fp = some f0)
    (hl : linkFp .x86 os (mkEnvW .x86 os w wins mem).mask mem st.sp f0 e = true)
    (hregs : e.regs.isEmpty = true) (hretm : e.ret ≤ U32MAX) (hspm : e.sp ≤ U32MAX) :
    ∃ f', step (mkEnvW .x86 os w wins mem) mem f g = some f' ∧ FrameIs .fp e f' := by
  have hcfi : (mkEnvW .x86 os w wins mem).cfi f g = none :=
    cfi_none_of_noRecord (by rw [hv.instr]; exact hn)
  obtain ⟨h1, h2, _⟩ := hv.fp_some hfp
  have hst := step_fp_x86 (env := noCfiEnv (mkEnvW .x86 os w wins mem)) (mem := mem) (f := f) (g := g) rfl
    (fun _ _ => rfl) ⟨hv.sp, h2, hv.m64, h1⟩ hl
  refine ⟨fpFrame .x86 e, by rw [step_noCfiEnv hcfi]; exact hst, ?_⟩
  simp only [linkFp, Bool.and_eq_true, decide_eq_true_eq, beq_iff_eq] at hl
  obtain ⟨⟨⟨hsome, _⟩, _⟩, ⟨⟨_, _⟩, hr2⟩, _⟩ := hl
  obtain ⟨v, hev⟩ := Option.isSome_iff_exists.mp hsome
  have hvle : v ≤ U32MAX := by rw [hev] at hr2; exact read4_le hr2
  refine ⟨rfl, rfl, rfl, rfl, rfl, rfl, ?_, ?_, ?_, rfl⟩
  · have h1 : (fpFrame Arch.x86 e).ctx.hasLit "ebp" = true := rfl
    have h2 : Ctx.raw Arch.x86 (fpFrame Arch.x86 e).ctx "ebp" = e.fp.getD 0 := rfl
    rw [h1, h2, hev]; rfl
  · intro p hp
    have : e.regs = [] := by simpa using hregs
    rw [this] at hp; cases hp
  · intro r hr
    simp only [x86Regs, List.mem_cons, List.not_mem_nil, or_false] at hr
    rcases hr with rfl | rfl | rfl | rfl | rfl | rfl | rfl | rfl | rfl | rfl
    · exact hretm
    · exact hspm
    · show e.fp.getD 0 ≤ U32MAX
      rw [hev]; exact hvle
    all_goals exact Nat.zero_le _

/-- **one frame found by scanning** (no record, the frame-pointer technique dead): junk words that
    are not valid instructions, then the return address; the word below it is the recovered `%ebp`
    exactly when it points further up the stack, at most 128 KiB away, at readable memory -/
theorem step_mixed_scan {os : Os} {w : World} {wins : List (List Win.Rec)} {mem : Mem} {f : Frame}
    {g : Option Frame} {st : MState} {e : Exp}
    (hv : WinView f g st) (hn : noRecordAt w wins st.instr = true)
    (hdead : fpDead .x86 os mem st.fp = true)
    (hl : linkScanM (mkEnvW .x86 os w wins mem) .x86 mem st e = true)
    (hret : 4096 ≤ e.ret) (hretm : e.ret ≤ U32MAX) :
    ∃ f', step (mkEnvW .x86 os w wins mem) mem f g = some f' ∧ FrameIs .scan e f' := by
  have hcfi : (mkEnvW .x86 os w wins mem).cfi f g = none :=
    cfi_none_of_noRecord (by rw [hv.instr]; exact hn)
  generalize henv : mkEnvW .x86 os w wins mem = env at hl hcfi ⊢
  have harch : env.arch = .x86 := by rw [← henv]; rfl
  simp only [linkScanM, Arch.ptr, Consts.ptr_x86, reduceCtorEq, false_and, if_false, Bool.and_eq_true,
    decide_eq_true_eq, true_and, List.all_eq_true, List.mem_range, beq_iff_eq] at hl
  generalize hk : (e.sp - 4 - st.sp) / 4 = k at hl
  obtain ⟨⟨⟨⟨⟨⟨⟨⟨_, hes⟩, hwin⟩, hemax⟩, hrej⟩, hacc⟩, hok⟩, hefp⟩, hregs⟩ := hl
  have hemax' : e.sp ≤ U32MAX := hemax
  have hrej' : ∀ j, j < k → ∃ x, mem.read (st.sp + j * 4) 4 = some x ∧ instrValid env .x86 x = false := by
    intro j hj
    have := hrej j hj
    split at this
    · rename_i x hx
      exact ⟨x, hx, by simpa using this⟩
    · cases this
  -- the frame pointer of the callee: invalid, or 0 with nothing readable at 0
  simp only [fpDead, hasFpTech, Bool.not_true, Bool.false_or, Bool.or_eq_true, Option.isNone_iff_eq_none,
    Bool.and_eq_true, beq_iff_eq, decide_eq_true_eq] at hdead
  have hlast : (if f.ctx.hasLit "ebp" = true then some (f.ctx.raw .x86 "ebp") else none) = st.fp := hv.fp.symm
  have hbf : byFp env .x86 mem f.ctx = none := by
    simp only [byFp, fpX86]
    rcases hdead with h | ⟨⟨h, _⟩, hb⟩
    · rw [h] at hlast
      by_cases hl : f.ctx.hasLit "ebp" = true
      · simp [hl] at hlast
      · simp [hl]
    · obtain ⟨h1, h2, _⟩ := hv.fp_some h
      simp only [h1, h2, Bool.not_true, Bool.false_eq_true, if_false]
      rw [if_neg (by decide), read_below_base (by omega)]
  have htr : f.trust = .context ↔ st.first = true := hv.trust.symm
  have hscan : scanFrom (instrValid env .x86) mem 4 U32MAX f.ctx.sp (scanWindow .x86 f.trust) 0 =
      some (k, st.sp + k * 4, e.ret) := by
    rw [hv.sp, scanWindow_of (Or.inl rfl) htr]
    refine scanFrom_first hrej' hacc hok (by omega) _ 0 (Nat.zero_le _) ?_
    simp only [scanWin, Nat.zero_add]
    exact hwin
  -- the recovery of `%ebp`
  have hbp : scanBpX86 mem st.fp k (st.sp + k * 4) (st.sp + k * 4 + 4) = some e.fp ∧
      ∀ v, e.fp = some v → v ≤ U32MAX := by
    unfold scanBpX86
    by_cases hk0 : k = 0
    · subst hk0
      simp only [Nat.lt_irrefl, if_false] at hefp
      rw [hefp]
      exact ⟨by simp, fun v hv => by cases hv⟩
    · have hkpos : 0 < k := by omega
      rw [if_pos hkpos] at hefp
      rw [if_neg hk0]
      obtain ⟨x, hx, _⟩ := hrej' (k - 1) (by omega)
      have ha4 : st.sp + k * 4 - 4 = st.sp + (k - 1) * 4 := by omega
      rw [ha4] at hefp ⊢
      simp only [hx] at hefp ⊢
      have hgap : Consts.gap_x86 = 131072 := rfl
      rw [hgap]
      by_cases hc : x > st.sp + k * 4 ∧ x - (st.sp + (k - 1) * 4) ≤ 131072
      · rw [if_pos hc]
        by_cases hr : (mem.read x 4).isSome = true
        · rw [if_pos ⟨hc.1, hc.2, hr⟩] at hefp
          rw [hefp]
          exact ⟨by simp [hr], fun v hv => by injection hv with hv; subst hv; exact read4_le hx⟩
        · rw [if_neg (fun h => hr h.2.2)] at hefp
          rw [hefp]
          exact ⟨by simp [hr], fun v hv => by cases hv⟩
      · rw [if_neg hc]
        rw [if_neg (fun h => hc ⟨h.1, h.2.1⟩)] at hefp
        rw [hefp]
        refine ⟨?_, fun v hv => by cases hv⟩
        rcases hdead with h | ⟨⟨h, _⟩, _⟩
        · rw [h]
        · rw [h]
          simp only
          rw [if_neg (by omega)]
  have hnot : ¬ (st.sp + k * 4 + 4 > U32MAX) := by omega
  refine ⟨{ ctx := { ip := e.ret, sp := st.sp + k * 4 + 4, rest := [("ebp", e.fp.getD 0)],
                     valid := some (["eip", "esp"] ++ (if e.fp.isSome then ["ebp"] else [])) },
            trust := .scan, instruction := e.ret - 1 }, ?_, ?_⟩
  · unfold step
    simp only [effArch, harch, Arch.isMips, Bool.false_eq_true, ↓reduceIte, candidate, hcfi, hbf, byScan, scanX86,
      hv.vsp, hscan, Bool.not_true, if_neg hnot, hlast, hbp.1]
    simp only [epilogue, nullish_eq, Arch.adj, Consts.adj_x86, Arch.leafOk, Bool.false_and, Bool.not_false, and_true]
    rw [if_neg (by omega), if_neg (by rw [hv.sp]; omega)]
  · refine ⟨rfl, hes.symm, rfl, rfl, rfl, rfl, ?_, ?_, ?_, rfl⟩
    · cases hq : e.fp with
      | none => rfl
      | some v => rfl
    · intro p hp
      have : e.regs = [] := by simpa using hregs
      rw [this] at hp; cases hp
    · intro r hr
      simp only [x86Regs, List.mem_cons, List.not_mem_nil, or_false] at hr
      rcases hr with rfl | rfl | rfl | rfl | rfl | rfl | rfl | rfl | rfl | rfl
      · exact hretm
      · show st.sp + k * 4 + 4 ≤ U32MAX
        omega
      · show e.fp.getD 0 ≤ U32MAX
        cases hq : e.fp with
        | none => exact Nat.zero_le _
        | some v => exact hbp.2 v hq
      all_goals exact Nat.zero_le _

end MdModel.Walk
