/-
  Helper lemmas for C04: one `get_caller_frame` on a frame-pointer record, the end of a chain
  (scanning zero words finds nothing), per architecture. Property theorems are in `MdProofs/C04.lean`.
-/
import MdProofs.Lemmas.Walk
namespace MdModel.Walk
open MdModel

/-- the frame the walker must produce for an expected caller of a frame-pointer chain -/
def fpFrame (a : Arch) (e : Exp) : Frame :=
  let v := e.fp.getD 0
  match a with
  | .x86 => { ctx := { ip := e.ret, sp := e.sp, rest := [("ebp", v)], valid := some ["eip", "esp", "ebp"] },
              trust := .fp, instruction := e.ret - 1 }
  | .amd64 => { ctx := { ip := e.ret, sp := e.sp, rest := [("rbp", v)], valid := some ["rip", "rsp", "rbp"] },
                trust := .fp, instruction := e.ret - 1 }
  | .arm => { ctx := { ip := e.ret, sp := e.sp, rest := [("fp", v)], valid := some ["r15", "r11", "r13"] },
              trust := .fp, instruction := e.ret - 2 }
  | _ => { ctx := { ip := e.ret, sp := e.sp, rest := [("fp", v)], valid := some ["pc", "x29", "sp"] },
           trust := .fp, instruction := e.ret - 4 }

/-- the callee's registers as the frame-pointer unwinder of `a` sees them: stack pointer `sp`,
    frame pointer `fp`, both valid -/
def FpView (a : Arch) (c : Ctx) (sp fp : Nat) : Prop :=
  c.sp = sp ∧ c.raw a a.fpName = fp ∧ c.m64 = false ∧
  match a with
  | .x86 => c.hasLit "ebp" = true
  | .amd64 => c.hasLit "rbp" = true ∧ c.hasLit "rsp" = true
  | .arm => c.has .arm "r11" = true ∧ c.has .arm "r13" = true
  | _ => c.has a "x29" = true ∧ c.has a "sp" = true

theorem step_fp_x86 {env : Env} {mem : Mem} {f : Frame} {g : Option Frame} {e : Exp} {sp fp : Nat}
    (harch : env.arch = .x86) (hcfi : ∀ f g, env.cfi f g = none)
    (hv : FpView .x86 f.ctx sp fp) (hl : linkFp .x86 env.os env.mask mem sp fp e = true) :
    step env mem f g = some (fpFrame .x86 e) := by
  obtain ⟨hsp, hfp, _, hlit⟩ := hv
  simp only [linkFp, Bool.and_eq_true, decide_eq_true_eq, beq_iff_eq] at hl
  obtain ⟨⟨⟨hsome, hret⟩, hlt⟩, ⟨⟨hg, hr1⟩, hr2⟩, hesp⟩ := hl
  simp only [Arch.fpName] at hfp
  unfold step
  simp only [effArch, harch, Arch.isMips, candidate, hcfi, byFp, fpX86, hlit, hfp, hr1, hr2]
  simp only [Bool.not_true, Bool.false_eq_true, ↓reduceIte, Nat.not_le.mpr hg]
  simp [epilogue, nullish_eq, fpFrame, Arch.adj, Consts.adj_x86, Arch.leafOk, hesp, hsp]
  omega

theorem step_fp_amd64 {env : Env} {mem : Mem} {f : Frame} {g : Option Frame} {e : Exp} {sp fp : Nat}
    (harch : env.arch = .amd64) (hos : env.os ≠ .windows) (hcfi : ∀ f g, env.cfi f g = none)
    (hv : FpView .amd64 f.ctx sp fp) (hl : linkFp .amd64 env.os env.mask mem sp fp e = true) :
    step env mem f g = some (fpFrame .amd64 e) := by
  obtain ⟨hsp, hfp, _, hlit1, hlit2⟩ := hv
  simp only [linkFp, Bool.and_eq_true, decide_eq_true_eq, beq_iff_eq, if_neg hos, Bool.not_eq_true'] at hl
  obtain ⟨⟨⟨hsome, hret⟩, hlt⟩, ⟨⟨⟨⟨⟨⟨⟨⟨⟨⟨⟨hg, hge⟩, hesp⟩, hk⟩, _⟩, hr1⟩, hr2⟩, hle⟩, hr3⟩, hcan⟩, hr4⟩, hmax⟩⟩ := hl
  have hesp' : e.sp = fp + 16 := by rw [hk] at hesp; omega
  have e1 : e.sp - 8 = fp + 8 := by omega
  have e2 : e.sp - 16 = fp := by omega
  rw [e1] at hr1
  rw [e2] at hr2
  simp only [Arch.fpName] at hfp
  have hr3' : ∃ v, mem.read (e.fp.getD 0) 8 = some v := Option.isSome_iff_exists.mp hr3
  obtain ⟨v3, hr3'⟩ := hr3'
  have hstack : stackSeemsValid mem (fp + 16) f.ctx.sp = true := by
    unfold stackSeemsValid
    rw [if_neg (by omega)]
    rw [← hesp']; exact hr4
  unfold step
  simp only [effArch, harch, Arch.isMips, candidate, hcfi, byFp, fpAmd64, hlit1, hlit2, hfp, if_neg hos]
  simp only [Bool.not_true, Bool.false_eq_true, ↓reduceIte, Nat.not_le.mpr hg]
  simp only [resolveAmd64, Nat.zero_mul, Nat.add_zero]
  have h1 : ¬ fp > U64MAX := by omega
  have h2 : ¬ fp + 8 > U64MAX := by omega
  have h3 : ¬ fp + 16 > U64MAX := by omega
  have h4 : ¬ (fp + 16 ≤ fp ∨ e.fp.getD 0 < fp + 16) := by omega
  simp only [if_neg h1, if_neg h2, if_neg h3, hr1, hr2, if_neg h4, hr3', hcan, hstack]
  simp [epilogue, nullish_eq, fpFrame, Arch.adj, Consts.adj_amd64, Arch.leafOk, hesp', hsp]
  omega

end MdModel.Walk
